#!/usr/bin/env python3
"""Confirm a delivered mutant in its scratch worktree and file it under /verif/seeded/<name>/.
usage: confirm_seeded.py <Cxx> <mN>      (expects /tmp/mut/out-Cxx/mN and /tmp/mut/wt-Cxx)
"""
import subprocess, sys, os, json, shutil, re
prop, m = sys.argv[1], sys.argv[2]
src = "/tmp/mut/out-%s/%s" % (prop, m); wt = "/tmp/mut/wt-%s" % prop
name = "%s-%s" % (prop, m); dst = "/verif/seeded/%s" % name
def sh(cmd, cwd=wt):
    p = subprocess.run(["bash", "-o", "pipefail", "-c", cmd], cwd=cwd, stdout=subprocess.PIPE, stderr=subprocess.STDOUT)
    return p.returncode, p.stdout.decode("utf-8", "replace")
demo = [f for f in os.listdir(src) if f.startswith("demo_") and f.endswith(".rs")][0]
mod = demo[:-3]
howto = open(os.path.join(src, "demo_howto.txt")).read()
in_src = ("src/" + demo) in howto
rayon = "--features rayon" in howto
FEAT = " --features rayon" if rayon else ""
ENVP = "RAYON_NUM_THREADS=3 " if rayon else ""
def clean(): sh("git checkout -- . && git clean -fdq tests src")
def place():
    if in_src:
        shutil.copy(os.path.join(src, demo), os.path.join(wt, "src", demo))
        sh("sed -i 's|^mod keymaker;|mod keymaker;\\n#[cfg(test)]\\nmod %s;|' src/lib.rs" % mod)
        return ENVP + "cargo test --offline%s --lib %s 2>&1 | tail -25" % (FEAT, mod)
    os.makedirs(os.path.join(wt, "tests"), exist_ok=True)
    shutil.copy(os.path.join(src, demo), os.path.join(wt, "tests", demo))
    return ENVP + "cargo test --offline%s --test %s 2>&1 | tail -25" % (FEAT, mod)
res = {}
clean()
cmd = place()
rc, out = sh(cmd); res["demo_without_change"] = {"rc": rc, "tail": out[-600:]}
rc, out = sh("git apply %s/patch.diff" % src); res["apply"] = rc
rc, out = sh(cmd); res["demo_with_change"] = {"rc": rc, "tail": out[-900:]}
# suite with the change only
if in_src: sh("git checkout src/lib.rs && rm -f src/%s" % demo)
else: sh("rm -f tests/%s" % demo)
rc, out = sh("cargo test --offline --lib 2>&1 | tail -6"); res["suite_with_change"] = {"rc": rc, "tail": out[-500:]}
clean()
ok = (res["demo_without_change"]["rc"] == 0 and res["apply"] == 0 and res["demo_with_change"]["rc"] != 0
      and res["suite_with_change"]["rc"] == 0 and "59 passed" in res["suite_with_change"]["tail"])
res["confirmed"] = ok
os.makedirs(dst, exist_ok=True)
for f in ("patch.diff", demo, "demo_howto.txt"):
    shutil.copy(os.path.join(src, f), os.path.join(dst, f))
meta = json.load(open(os.path.join(src, "meta.json")))
meta["confirmed_by_framework_author"] = res
json.dump(meta, open(os.path.join(dst, "meta.json"), "w"), indent=1)
print(name, "CONFIRMED" if ok else "NOT CONFIRMED", {k: (v if isinstance(v, int) else v.get("rc")) for k, v in res.items() if k != "confirmed"})
