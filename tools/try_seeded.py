#!/usr/bin/env python3
"""Apply a seeded patch to /repo, run the quick checks of the given properties, undo the patch.

usage: tools/try_seeded.py <patch.diff> <Cxx> [<Cyy> ...]
Prints, per property, whether the check reported a VIOLATION (caught) and the first lines of output.
"""
import subprocess, sys, os, json
ROOT = os.path.dirname(os.path.dirname(os.path.abspath(__file__)))
REPO = os.environ.get("STRAND_REPO", "/repo")
patch = os.path.abspath(sys.argv[1]); props = sys.argv[2:]
def sh(cmd, **kw): return subprocess.run(cmd, stdout=subprocess.PIPE, stderr=subprocess.STDOUT, **kw)
st = sh(["git", "-C", REPO, "status", "--porcelain", "--untracked-files=no"]).stdout.decode().strip()
if st:
    print("refusing: /repo has uncommitted changes:\n" + st); sys.exit(2)
r = sh(["git", "-C", REPO, "apply", patch])
if r.returncode != 0:
    print("patch does not apply:", r.stdout.decode()); sys.exit(2)
res = {}
try:
    for p in props:
        r = sh([os.path.join(ROOT, "check"), p], cwd=ROOT)
        out = r.stdout.decode()
        caught = r.returncode == 1 and "VIOLATION property=%s" % p in out
        res[p] = {"caught": caught, "rc": r.returncode, "head": [l[:300] for l in out.strip().split("\n")[:6]], "verdict": [l[:300] for l in out.strip().split("\n")[-1:]]}
        print("== %s: %s" % (p, "CAUGHT" if caught else "MISSED"))
        for l in out.strip().split("\n")[:5] + out.strip().split("\n")[-1:]:
            print("   " + l[:260])
finally:
    sh(["git", "-C", REPO, "checkout", "--", "."])
    # the translator ran against the patched tree: regenerate from the restored one
    sh([sys.executable, os.path.join(ROOT, "tools", "gen_constants.py")])
    # restore evidence written while the patch was applied
    sh(["git", "-C", ROOT, "checkout", "--", "evidence"])
print(json.dumps({p: res[p]["caught"] for p in res}))
