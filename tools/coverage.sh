#!/bin/bash
# Informational (not a registered check): which lines of /repo/src do the correspondence streams of the 20
# quick checks execute?  "Generator quality bounds what the correspondence check sees" — this measures it.
# Builds the harness with -C instrument-coverage (nightly toolchain: it ships llvm-cov / llvm-profdata) into a
# scratch directory that is removed at the end, runs every property's quick stream (seed 1), writes
# /verif/COVERAGE.md.
set -euo pipefail
VERIF="$(cd "$(dirname "$0")/.." && pwd)"
B="$(dirname "$(rustup +nightly which rustc)")/../lib/rustlib/x86_64-unknown-linux-gnu/bin"
S="$(mktemp -d /tmp/strand-cov.XXXXXX)"
trap 'rm -rf "$S"' EXIT
cd "$VERIF/harness"
cp /repo/Cargo.lock Cargo.lock 2>/dev/null || true
RUSTFLAGS="--cfg strand_verif -C instrument-coverage" cargo +nightly build --release --offline --target-dir "$S/target" 2>&1 | tail -1
mkdir -p "$S/prof" "$S/work"
for p in C01 C02 C03 C04 C05 C06 C07 C08 C09 C10 C11 C12 C13 C14 C15 C16 C17 C18 C19 C20; do
  mkdir -p "$S/work/$p"
  ( LLVM_PROFILE_FILE="$S/prof/$p-%p.profraw" "$S/target/release/strand_harness" $p quick 1 "$S/work/$p" >/dev/null 2>&1 || echo "stream $p failed" ) &
done
wait
"$B/llvm-profdata" merge -sparse "$S"/prof/*.profraw -o "$S/all.profdata"
IGN='(\.cargo|rustc|/verif/|/rustlib/|verif_hooks|/verif\.rs)'
{
  echo "# Line coverage of /repo/src under the correspondence streams (quick tier, seed 1, sequential build)"
  echo
  echo "Written by tools/coverage.sh (informational; not a check).  /repo at $(git -C /repo rev-parse --short HEAD)."
  echo "Hook files (verif_hooks.rs, */verif.rs) excluded; src/backend/rug.rs and src/wasm are not compiled (features off;"
  echo "the rug feature cannot be built offline: gmp-mpfr-sys needs its C sources configured)."
  echo
  echo '```'
  "$B/llvm-cov" report "$S/target/release/strand_harness" -instr-profile="$S/all.profdata" --ignore-filename-regex="$IGN" 2>/dev/null \
    | awk 'NR==1{printf "%-36s %9s %7s %8s | %6s %7s %8s\n","file","functions","missed","cover","lines","missed","cover"; next} /^---/{next} {printf "%-36s %9s %7s %8s | %6s %7s %8s\n", $1,$5,$6,$7,$8,$9,$10}'
  echo '```'
  echo
  echo "## Lines never executed"
  echo
  echo '```'
  "$B/llvm-cov" show "$S/target/release/strand_harness" -instr-profile="$S/all.profdata" --ignore-filename-regex="$IGN" --show-line-counts 2>/dev/null \
    | python3 -c '
import re, sys
for l in sys.stdin:
    if l.startswith("/repo/") and l.rstrip().endswith(":"):
        print(l.strip()); continue
    m = re.match(r"\s*(\d+)\|\s*0\|(.*)", l)
    if m: print("   %5s %s" % (m.group(1), m.group(2)[:110]))
'
  echo '```'
} > "$VERIF/COVERAGE.md.new"
mv "$VERIF/COVERAGE.md.new" "$VERIF/COVERAGE.md"
rm -f "$VERIF"/harness/*.profraw /repo/*.profraw
tail -n +1 "$VERIF/COVERAGE.md" | sed -n 1,40p
