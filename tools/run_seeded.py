#!/usr/bin/env python3
"""Run the quick checks against every seeded change under /verif/seeded and record the outcome
in seeded/<id>/meta.json (key `framework`) and seeded/RESULTS.md.
usage: tools/run_seeded.py [id ...]"""
import json, os, subprocess, sys, re
ROOT = os.path.dirname(os.path.dirname(os.path.abspath(__file__)))
SD = os.path.join(ROOT, "seeded")
EXTRA = {"R2-m1": ["C16"], "R2-m2": ["C16"], "R5-m1": ["C16", "C07"], "R5-m2": ["C16"], "C13-m2": ["C04"], "C16-m2": ["C05", "C06"], "C01-m1": ["C12"], "C01-m2": ["C14"], "C05-m1": ["C11"], "C06-m1": ["C07"]}
ids = sys.argv[1:] or sorted(d for d in os.listdir(SD) if os.path.isdir(os.path.join(SD, d)))
rows = []
for i in ids:
    d = os.path.join(SD, i)
    meta = json.load(open(os.path.join(d, "meta.json")))
    props = [meta["property"]] + [p for p in meta.get("also_check", []) + EXTRA.get(i, []) if p != meta["property"]]
    p = subprocess.run([sys.executable, os.path.join(ROOT, "tools", "try_seeded.py"), os.path.join(d, "patch.diff")] + props,
                       stdout=subprocess.PIPE, stderr=subprocess.STDOUT)
    out = p.stdout.decode()
    last = out.strip().split("\n")[-1]
    try: res = json.loads(last)
    except Exception: res = {"error": out[-400:]}
    first_fail = {}
    cur = None
    for l in out.split("\n"):
        m = re.match(r"== (C\d+):", l)
        if m: cur = m.group(1)
        if cur and "FAILING-INPUT" in l and cur not in first_fail: first_fail[cur] = l.strip()[:300]
        if cur and "NO-LONGER-CHECKS" in l and cur not in first_fail: first_fail[cur] = l.strip()[:300]
    concrete = {}
    cur = None
    for l in out.split("\n"):
        m = re.match(r"== (C\d+):", l)
        if m: cur = m.group(1)
        if cur and "VIOLATION property=" in l:
            concrete[cur] = not l.strip().endswith("no-failing-input-found")
    first_input = {}
    cur = None
    for l in out.split("\n"):
        m = re.match(r"== (C\d+):", l)
        if m: cur = m.group(1)
        if cur and "FAILING-INPUT" in l and cur not in first_input: first_input[cur] = l.strip()[:300]
    meta["framework"] = {"checks_run": props, "caught": res, "concrete_failing_input_reported": concrete, "first_failing_input": first_input, "first_report": first_fail}
    json.dump(meta, open(os.path.join(d, "meta.json"), "w"), indent=1)
    rows.append((i, meta["property"], {k: (v, concrete.get(k)) for k, v in res.items()}, meta.get("summary", "")[:110]))
    print(i, res)
with open(os.path.join(SD, "RESULTS.md"), "a") as f:
    for i, p, res, s in rows:
        f.write("| %s | %s | %s | %s |\n" % (i, p, ", ".join("%s:%s" % (k, ("caught+input" if v[1] else "caught (no concrete input)") if v[0] else "MISSED") for k, v in res.items()), s.replace("|", "/")))
