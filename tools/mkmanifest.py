#!/usr/bin/env python3
"""Regenerate MANIFEST.json from the table below (claimed properties) + properties.jsonl."""
import json, os, subprocess
ROOT = os.path.dirname(os.path.dirname(os.path.abspath(__file__)))
props = [json.loads(l)["id"] for l in open(os.path.join(ROOT, "properties.jsonl"))]

TECH = "Lean 4 theorems over an executable model + differential correspondence (harness vs compiled Lean driver) + constants translator"
NOTE_COMMON = ("Trusted: Lean kernel (+ leanchecker re-check in the thorough tier); axioms propext/Classical.choice/Quot.sound only; the hand-written model (tied to /repo by the "
               "correspondence stream run on every invocation: exhaustive on small safe-prime groups, sampled with boundary values on the "
               "62-bit and built-in 2048-bit groups, both multiplicative back-ends); harness, driver parser and diff; dependencies modelled by "
               "specification. Primality of the built-in 2048-bit P and Q is a hypothesis (no certificate offline). ")

CLAIMS = {
 "C01": ("Theorems (all keys, members, randomness, any lawful back-end): decrypt∘encrypt = id, exponential ElGamal, encrypt_and_pok, "
         "homomorphism for reduced and unreduced component products; decode∘encode = id on the whole plaintext space (Nat back-ends). "
         "Model tied to code by the C01 stream (exhaustive (sk,m,r) on p≤47 quick / p≤263 thorough).", "6 C01",
         "Ristretto: the generic theorems apply under the single assumption LawfulGrp (curve-group half; exponent ring = ZMod l and primality of l are proved); the R255 part of the stream compares curve25519-dalek with an executable ristretto255 model (differential testing)."),
 "C03": ("Flagship theorem shuffle_complete: for EVERY N >= 1, every permutation of range N, all valid generators/key/ciphertexts, every re-encryption tape, "
         "every proof tape (3N+4... i.e. 4N+4 draws), every label and every hash function, genProof's output is accepted by checkProof (any lawful back-end); "
         "identity / reversal / N=1 corollaries. The prover model is tied to the code field-by-field with injected tapes (all N! permutations N<=4 on small groups, "
         "N up to 7 quick / 120 thorough, labels up to 4 KiB, wire round trip of proof, lists, key, generators).", "6 C03",
         "The verifier is run in-process after a byte round trip, not in a separate OS process (a deterministic verifier cannot tell the difference)."),
 "C04": ("Theorem check_accepts_iff: checkProof = true IFF all five proof vectors, the output list and the generator list have exactly the right lengths (N>=1) AND the "
         "textbook Terelius-Wikstrom predicate TW (5 aggregate equations + N chain equations, challenges recomputed from the complete statement) holds in the group; "
         "corollaries: any wrong length rejected, any single failing equation rejected. Stream: verifier decision vs model on every single-field mutation, all 4^5 / 5^5 vector-length "
         "combinations, replays against changed statements, adaptively recomputed proofs with omitted chain proofs, malformed statements.", "6 C04",
         "Computational soundness (no accepted proof for a non-permutation) needs discrete-log hardness and the ROM: outside any theorem; what is proved is the decision procedure. "
         "Transcript injectivity is in C16."),
 "C05": ("Theorems: completeness of Schnorr, Chaum-Pedersen, plaintext-knowledge and decryption proofs for every secret, nonce, base, "
         "label/context and every hash function, over any lawful back-end; default/explicit generator interchange. Prover compared "
         "nonce-by-nonce with the model (injected tapes), exhaustively over (x, nonce) on small groups.", "6 C05",
         "Ristretto: the generic theorems apply under the single assumption LawfulGrp (curve-group half; exponent ring = ZMod l and primality of l are proved); the R255 part of the stream compares curve25519-dalek with an executable ristretto255 model (differential testing)."),
 "C02": ("Theorems (all N, all lists, any lawful back-end): apply_permutation returns exactly re-encryptions of input perm[k] under exponent rs[perm[k]] "
         "(with the panic cases characterised), re-encryption = product with an encryption of 1, re-encryption preserves decryption, multiset of "
         "decryptions preserved for every permutation, through any cascade of mixers, and through division by any combined (threshold) factor. "
         "Stream: apply_permutation / gen_shuffle with injected exponents vs model, all N! permutations N<=4 on small groups, cascades.", "6 C02",
         "Ristretto: the generic theorems apply under the single assumption LawfulGrp (curve-group half; exponent ring = ZMod l and primality of l are proved); the R255 part of the stream compares curve25519-dalek with an executable ristretto255 model (differential testing)."),
 "C06": ("Theorems: each of the four sigma verifiers accepts IFF challenge = hash of the complete statement (bytes layout proved, incl. label and mhr) AND the group equation(s) hold; "
         "free/changed challenge rejected unconditionally; one-equation CP rejected; changed response / commitment / public value rejected; any statement change changes the hashed bytes "
         "(injectivity of the transcript encodings) so double acceptance implies a hash collision; special soundness. Stream: the WHOLE proof space of p=7,11 (Schnorr) and p=7 (CP) against "
         "the reference predicate, adversarial families on 62-bit and 2048-bit groups.", "6 C06",
         "Collision resistance of SHA-512 is outside any theorem."),
 "C07": ("Theorems: released factor+proof verify (keymaker and threshold form); dividing by (any representative of) the true factor = decryption; "
         "batch verifier = conjunction of the single verifications (iff, with the length-mismatch panic characterised); CP verify iff; special soundness: "
         "a factor accepted for two challenges is the true factor. Stream: factor/proof generation vs model, batches with one invalid pair at every position.", "6 C07",
         "Rejection of a wrong factor from a single transcript is computational (ROM), outside any theorem."),
 "C08": ("Theorems (n unbounded): joint key = product of shares in any order; share proofs verify; joint decryption by all n factors (any order) recovers m; "
         "lists position by position (iff); omitting/duplicating a factor yields m iff that share or the randomness is 0 (q prime). Stream: keymaker wrappers vs model, all orders n<=4.", "6 C08",
         "Ristretto: the generic theorems apply under the single assumption LawfulGrp (curve-group half; exponent ring = ZMod l and primality of l are proved); the R255 part of the stream compares curve25519-dalek with an executable ristretto255 model (differential testing)."),
 "C09": ("Theorems: Feldman check holds for ALL thresholds t>=1, receivers and coefficient lists (closed forms of share and verification-key factor); altered share rejected "
         "(q prime, g != 1); closed witness that the pinned machine-integer power fails at receiver 15, t = 17 (defect F2, fixed). Stream: all (t, receiver) up to 24 on small groups.", "6 C09",
         "t = 0 is excluded (the model shows the comparison is false there; the library is never called with t = 0)."),
 "C10": ("Theorems: the library's Lagrange coefficient equals the Lagrange basis at 0 (Mathlib), sum_i lambda_i P(i) = P(0) for deg P < |S| in any listing order, "
         "threshold reconstruction decrypts (incl. end-to-end from dealer coefficient lists), below threshold the shares do not determine the secret. "
         "Stream: lagrange and full reconstructions for all subsets of {1..n}, n<=6, three orders.", "6 C10",
         "Hypotheses: q prime, distinct indices 0 < i < q."),
 "C16": ("Theorems: every challenge is hashToExp of an explicit byte string; the map encoding is independent of insertion (hash-map iteration) order (bytesLt is a strict total order, "
         "sorted association list unique); all four transcript encodings are injective in every item (given < 2^32-byte items); counter inputs pairwise distinct below 2^64; the whole 512-bit "
         "digest enters the reduction (no truncation). Stream: exact hashed bytes, SHA-512 digest and challenge of all four oracles vs the model's own SHA-512.", "6 C16",
         "Different inputs => different challenges, distinct u_i, entropy: properties of SHA-512, outside any theorem. Fresh-process / thread-count independence is exercised by C19's stream."),
 "C11": ("Theorems (both byte flavours, only p = 2q+1 needed): element_from_bytes accepts n IFF n = integer of the bytes, 1 <= n < p and n^q mod p = 1, which for a safe-prime group is exactly "
         "the set of quadratic residues (Euler's criterion, proved); exp_from_bytes accepts IFF n < q; 0, >= p, p-1, >= q rejected; every composite wire type (14 types incl. shuffle proofs and "
         "all vector wrappers) decodes only if each embedded element/exponent does. Stream: ALL byte strings of length 0..2 as element and exponent on small groups (accepted set = subgroup), "
         "paddings / out-of-range values at 2048 bits, composite objects with one invalid component at every position.", "6 C11",
         "Ristretto: canonical-encoding acceptance is decided by the executable RFC 9496 decoder of the model and compared with dalek on rule-generated invalid encodings (no theorem: curve arithmetic is not proved)."),
 "C12": ("Theorems: a codec algebra (LawfulCodec: decode(encode a ++ rest) = (a, rest); extension stability; decoded values valid) proved for every borsh combinator and instantiated for all 18 wire "
         "types of both multiplicative back-ends: round trip, injectivity, trailing bytes rejected, truncation rejected; plus the proved counterexample that deleting an INTERIOR byte cannot be rejected "
         "by a length-prefixed format. Stream: byte-exact encoder, round trip, append/remove bytes for every type; all scalar values on p<=23.", "6 C12",
         "Encodings of >= 2^32 bytes are excluded (borsh's u32 length prefix). 'bytes removed' is read as removed from the end."),
 "C13": ("Theorems over a panic-aware layer (Model/PanicAware.lean: every assert/index/expect/underflow of decoders, encode/decode, inversion, the repaired and the pinned shuffle verifier, in source order): "
         "decoding ANY byte string as any wire type never panics (p prime; primality shown necessary for num-bigint's Legendre expect), the shuffle verifier on ANY decodable input (any vector lengths, "
         "N = 0, mismatched lists, empty generators) equals the pure verifier and never panics; closed witnesses that the pinned code panics / skips chain checks (F1) and panics on digit >= 256 (F3); "
         "decoded payload <= input length, borsh's speculative allocation <= 4096 bytes. Stream: malformed corpus x 16 decoders, outcome class equal to the model.", "6 C13",
         "Allocator behaviour and panics inside dependencies beyond their modelled preconditions are runtime facts (tested by catch_unwind, not proved)."),
 "C14": ("Theorems (SafePrimeGroup): encode succeeds IFF m < q-1, yields a canonical subgroup member, decode inverts it, injective, survives the wire, refusal outside the space is an error; the random-"
         "plaintext range [0,q-2] is inside the space and the pre-fix extra value q-1 is refused (F4 witness). Stream: all m in [0,q+2] on small groups, boundaries at 2048 bits, live rnd_plaintext histogram.", "6 C14",
         "Ristretto's 30-byte embedding (64x128 candidate search) is modelled executably and compared with the implementation; that the search always succeeds is not a theorem."),
 "C17": ("Theorems (hash uninterpreted): generators(n, seed) has length n, entry i is a function of (seed, i+1) only, prefix-stable, each entry is the first retry round whose candidate is >= 2 with the "
         "growing retry string of the source, and every generator is a non-identity member of the order-q subgroup (Fermat; cofactor*q+1 = p). Stream: generators for 3 seeds x sizes up to 50 vs the model's "
         "own SHA-512 derivation; first generator recomputed from hash_to_element.", "6 C17",
         "Pairwise distinctness, difference from g, seed sensitivity, unknown discrete logs: properties of SHA-512, outside any theorem (evaluated on the explored seeds as tests)."),
 "C18": ("Theorems (relative to uniform RNG bytes): num-bigint's rejection sampler returns values < bound, each candidate value has equally many byte preimages (bijection), every value reachable; "
         "rnd_exp in [0,q), rnd_plaintext encodable, rnd a member (expect never fires); rand's sample_single returns j < range with exactly 2^lz accepted words per value (uniform); Fisher-Yates output is "
         "always a permutation and the map choices -> permutations is a bijection onto all n!; exact draw counts and disjoint tape segments for every randomised operation. Stream: the samplers from an "
         "injected BYTE tape (num-bigint, permutation) equal the model; draw counters; ranges/freshness/chi-square as tests.", "6 C18",
         "Statistics and freshness of the OS RNG and malachite's internal PRNG are outside any theorem; malachite is covered by the bounds passed to it."),
 "C19": ("Theorems: for EVERY schedule (split tree) par().map().collect(), enumerate(), unzip() and collect::<Result> equal the sequential iterator, position-aligned; only which error is reported may "
         "differ. Stream: the harness built twice (sequential / --features rayon) with 1, 3, 16 threads (thorough: 1,2,3,7,16 + repeat): vector bytes, generators, challenges, joint decryption of lists, "
         "batch verification, verifier decisions all equal the SAME model output; shuffles+proofs made by one build verify and decrypt in the other.", "6 C19",
         "That rayon realises a split tree for every schedule, and data-race freedom, are properties of rayon / Send+Sync."),
 "C15": ("Theorems: the multiplicative back-ends satisfy the specification `Lawful` for every safe-prime parameter set (natLawful); "
         "group and exponent-ring laws derived generically; exp_sub_mod; kernel-checked facts p=2q+1, 1<g<p, g^q=1, cofactor on the "
         "constants regenerated from /repo. Every trait method compared with the model (= independent bigint reference) exhaustively on small groups.", "6 C15",
         "Ristretto: only the curve-group half is a hypothesis (exponent ring and l prime proved); primality of the built-in 2048-bit P, Q is a hypothesis; all harness parameter sets incl. the 62-bit one are PROVED safe-prime groups (Pratt certificates)."),
 "C20": ("Theorems: base64 (NO_PAD) round trip, injectivity, canonical decoding (decode s = some bs IFF s = encode bs), rejection of padding / bad characters / impossible lengths; "
         "the 32/32/64-byte key and signature codecs are lawful (round trip, trailing and truncated encodings rejected), string encodings round-trip; abstract Ed25519 over any additive group "
         "with a basepoint of order l: honest signatures satisfy the cofactorless (dalek) and the cofactored (zebra/ZIP-215) equation, cofactorless acceptance implies cofactored acceptance, the "
         "canonical s is unique so every bit flip of s is rejected (l prime-order facts kernel-checked); model-level: signature length, canonical-s requirement, wrong lengths / undecodable keys "
         "rejected. Stream: an executable RFC 8032 model with both libraries' acceptance rules, byte-identical signatures and public keys for both front-ends, decisions on bit flips, torsion-"
         "shifted and non-canonical encodings, base64 edge cases (1 700 quick / 22 000 thorough requests).", "6 C20 + 12.6",
         "Unforgeability-flavoured rejections (bit flip in message, R, public key; another key), the edwards25519 group law and SHA-512 are outside any theorem; the executable curve model is tied "
         "to ed25519-zebra / ed25519-dalek by differential testing only."),
}

def main():
    rc = subprocess.run(["git", "-C", "/repo", "log", "--format=%h %s"], stdout=subprocess.PIPE).stdout.decode().split("\n")
    hooks = [l.split()[0] for l in rc if l.startswith(tuple("0123456789abcdef")) and "verif hooks" in l]
    checks = []
    for pid in props:
        if pid not in CLAIMS: continue
        text, ref, extra = CLAIMS[pid]
        checks.append({
            "property_id": pid,
            "quick_cmd": "./check %s --tier quick" % pid,
            "thorough_cmd": "./check %s --tier thorough" % pid,
            "evidence_file": "/verif/evidence/%s.json" % pid,
            "replay_cmd_template": "./check %s --replay {path}" % pid,
            "engine": "lean-proof+correspondence",
            "level_claimed": {"category": "proof", "text": text, "design_ref": "DESIGN.md sec. " + ref},
            "level_note": NOTE_COMMON + extra,
            "technique": TECH,
        })
    m = {
        "version": 1,
        "setup_cmd": "./setup.sh",
        "hooks": {"guard": "strand_verif",
                  "enable": "--cfg strand_verif via /verif/harness/.cargo/config.toml (build.rustflags)",
                  "baseline_off_cmd": "cd /repo && cargo test --workspace --no-fail-fast --offline",
                  "source_commits": list(reversed(hooks)), "add_only": True},
        "engines": [{"name": "lean-proof+correspondence", "path": "/verif/check", "serves_properties": sorted(CLAIMS),
                     "kind_free_text": "Lean 4 theorems (lean/StrandModel/Props) over a hand-written executable model (lean/StrandModel/Model); model tied to /repo on every run by a differential correspondence harness (harness/ vs the compiled Lean driver) and a constants translator (tools/gen_constants.py)"}],
        "checks": checks,
        "not_applicable": [{"property_id": p, "reason": "check under construction in this session (no property is planned as not applicable; see DESIGN.md sec. 9)"} for p in props if p not in CLAIMS],
        "notes": "see DESIGN.md; known findings in known_findings.json",
    }
    json.dump(m, open(os.path.join(ROOT, "MANIFEST.json"), "w"), indent=1)
    print("claimed:", sorted(CLAIMS))

if __name__ == "__main__":
    main()
