import Driver.Proto
import StrandModel.Model.NatBackend
import StrandModel.Model.Keymaker
import StrandModel.Model.Threshold
import StrandModel.Generated.Constants
/- Dispatcher for the multiplicative back-ends. One request per line, no state. -/
namespace Strand.Driver
open Strand Strand.Proto

def vCt (c : Ciphertext Nat) : Val := .list [.nat c.mhr, .nat c.gr]
def vSchnorr (p : Schnorr Nat Nat) : Val := .list [.nat p.commitment, .nat p.challenge, .nat p.response]
def vCP (p : ChaumPedersen Nat Nat) : Val :=
  .list [.nat p.commitment1, .nat p.commitment2, .nat p.challenge, .nat p.response]
def vNats (l : List Nat) : Val := .list (l.map .nat)
def vOptBytes : Option Bytes → Out
  | some b => .ok (.bytes b)
  | none => .err
def vOptNat : Option Nat → Out
  | some b => .ok (.nat b)
  | none => .err

def gNat : Val → Option Nat | .nat n => some n | _ => none
def gBytes : Val → Option Bytes | .bytes b => some b | _ => none
def gOptNat : Val → Option (Option Nat) | .nat n => some (some n) | .none => some none | _ => none
def gNats : Val → Option (List Nat) | .list l => l.mapM gNat | _ => none
def gCt : Val → Option (Ciphertext Nat) | .list [.nat a, .nat b] => some ⟨a, b⟩ | _ => none
def gCts : Val → Option (List (Ciphertext Nat)) | .list l => l.mapM gCt | _ => none
def gSchnorr : Val → Option (Schnorr Nat Nat)
  | .list [.nat t, .nat c, .nat s] => some ⟨t, c, s⟩ | _ => none
def gCP : Val → Option (ChaumPedersen Nat Nat)
  | .list [.nat t1, .nat t2, .nat c, .nat s] => some ⟨t1, t2, c, s⟩ | _ => none
def gCPs : Val → Option (List (ChaumPedersen Nat Nat)) | .list l => l.mapM gCP | _ => none
def gNatss : Val → Option (List (List Nat)) | .list l => l.mapM gNats | _ => none

def okNat (n : Nat) : Out := .ok (.nat n)
def okBool (b : Bool) : Out := .ok (.bool b)

/-- would `invm` / `mod_inverse(..).expect(..)` panic? -/
def invPanics (fl : Flavour) (a m : Nat) : Bool :=
  match fl with
  | .bigint => Nat.gcd (a % m) m != 1
  | .malachite => a == 0 || a ≥ m || Nat.gcd a m != 1

def runNat (P : Params) (fl : Flavour) (op : String) (args : List Val) : Out :=
  let o := natOps P fl
  match op, args with
  -- back-end -----------------------------------------------------------------------------
  | "gen", [] => okNat o.generator
  | "gpow", [.nat x] => okNat (o.gmodPow x)
  | "epow", [.nat a, .nat x] => okNat (o.emodPow a x)
  | "mul", [.nat a, .nat b] => okNat (o.mul a b)
  | "div", [.nat a, .nat b] => if invPanics fl b P.p then .panic else okNat (o.divp a b)
  | "inv", [.nat a] => if invPanics fl a P.p then .panic else okNat (o.invp a)
  | "modp", [.nat a] => okNat (o.modp a)
  | "xadd", [.nat a, .nat b] => okNat (o.xadd a b)
  | "xsub", [.nat a, .nat b] => if a < b then .panic else okNat (o.xsub a b)
  | "xmul", [.nat a, .nat b] => okNat (o.xmul a b)
  | "xdiv", [.nat a, .nat b] => if invPanics fl b P.q then .panic else okNat (o.divq a b)
  | "xinv", [.nat a] => if invPanics fl a P.q then .panic else okNat (o.invq a)
  | "xmod", [.nat a] => okNat (o.modq a)
  | "submod", [.nat a, .nat b] => if ¬ (a > b) ∧ a + P.q < b then .panic else okNat (o.subMod a b)
  | "xfromu64", [.nat a] => okNat (o.fromU64 a)
  | "h2x", [.bytes b] => okNat (o.hashToExp b)
  | "sha512", [.bytes b] => .ok (.bytes (sha512 b))
  -- plaintexts ---------------------------------------------------------------------------
  | "encode", [.nat m] => vOptNat (Nat'.encode P m)
  | "decode", [.nat e] => if e = 0 ∨ e > P.p then .panic else okNat (Nat'.decode P e)
  -- decoding -----------------------------------------------------------------------------
  | "e_from_bytes", [.bytes b] => vOptNat (elementFromBytes P fl b)
  | "x_from_bytes", [.bytes b] => vOptNat (expFromBytes P fl b)
  | "ser_e", [.nat a] => .ok (.bytes (o.serE a))
  | "ser_x", [.nat a] => .ok (.bytes (o.serX a))
  | "ser_p", [.nat a] => .ok (.bytes ((natCodecP fl).enc a))
  | "ser_ct", [c] => match gCt c with
    | some c => .ok (.bytes ((codecCt o).enc c)) | none => .badOp op
  | "ser_schnorr", [p] => match gSchnorr p with
    | some p => .ok (.bytes ((codecSchnorr o).enc p)) | none => .badOp op
  | "ser_cp", [p] => match gCP p with
    | some p => .ok (.bytes ((codecCP o).enc p)) | none => .badOp op
  | "des_e", [.bytes b] => vOptNat (tryFromSlice o.codecE b)
  | "des_x", [.bytes b] => vOptNat (tryFromSlice o.codecX b)
  | "des_p", [.bytes b] => vOptNat (tryFromSlice (natCodecP fl) b)
  | "des_ct", [.bytes b] => match tryFromSlice (codecCt o) b with
    | some c => .ok (vCt c) | none => .err
  | "des_schnorr", [.bytes b] => match tryFromSlice (codecSchnorr o) b with
    | some c => .ok (vSchnorr c) | none => .err
  | "des_cp", [.bytes b] => match tryFromSlice (codecCP o) b with
    | some c => .ok (vCP c) | none => .err
  | "des_sk", [.bytes b] => match tryFromSlice (codecSk o) b with
    | some (x, e) => .ok (.list [.nat x, .nat e]) | none => .err
  -- ElGamal ------------------------------------------------------------------------------
  | "keygen", [.nat sk] => okNat (pkOf o sk)
  | "enc", [.nat pk, .nat m, .nat r] => .ok (vCt (encryptWith o pk m r))
  | "dec", [.nat sk, c] => match gCt c with
    | some c => if invPanics fl (o.emodPow c.gr sk) P.p then .panic else okNat (decrypt o sk c)
    | none => .badOp op
  | "dfactor", [.nat sk, c] => match gCt c with
    | some c => okNat (decryptionFactor o sk c) | none => .badOp op
  | "enc_pok", [.nat pk, .nat m, .bytes label, tape] => match gNats tape with
    | some tape => match encryptAndPok o pk m label tape with
      | some ((c, pf, r), _) => .ok (.list [vCt c, vSchnorr pf, .nat r])
      | none => .needTape
    | none => .badOp op
  | "dec_prove", [.nat sk, .nat pke, c, .bytes label, tape] => match gCt c, gNats tape with
    | some c, some tape => match decryptAndProve o sk pke c label tape with
      | some ((d, pf), _) => .ok (.list [.nat d, vCP pf])
      | none => .needTape
    | _, _ => .badOp op
  | "enc_x", [.nat x, .nat pk, tape] => match gNats tape with
    | some tape => match natEncryptExp P fl x pk tape with
      | some (r, _) => vOptBytes r
      | none => .needTape
    | none => .badOp op
  | "dec_x", [.bytes b, .nat sk] => vOptNat (natDecryptExp P fl b sk)
  -- sigma proofs -------------------------------------------------------------------------
  | "sch_prove", [.nat x, .nat y, g, .bytes label, .nat r] => match gOptNat g with
    | some g => .ok (vSchnorr (schnorrProve o x y g label r)) | none => .badOp op
  | "sch_verify", [.nat y, g, pf, .bytes label] => match gOptNat g, gSchnorr pf with
    | some g, some pf => okBool (schnorrVerify o y g pf label) | _, _ => .badOp op
  | "cp_prove", [.nat x, .nat y1, .nat y2, g1, .nat g2, .bytes label, .nat r] => match gOptNat g1 with
    | some g1 => .ok (vCP (cpProve o x y1 y2 g1 g2 label r)) | none => .badOp op
  | "cp_verify", [.nat y1, .nat y2, g1, .nat g2, pf, .bytes label] => match gOptNat g1, gCP pf with
    | some g1, some pf => okBool (cpVerify o y1 y2 g1 g2 pf label) | _, _ => .badOp op
  | "popk", [.nat r, .nat mhr, .nat gr, .bytes label, .nat n] =>
    .ok (vSchnorr (encryptionPopk o r mhr gr label n))
  | "popk_verify", [.nat mhr, .nat gr, pf, .bytes label] => match gSchnorr pf with
    | some pf => okBool (encryptionPopkVerify o mhr gr pf label) | none => .badOp op
  | "dproof", [.nat x, .nat pk, .nat f, .nat mhr, .nat gr, .bytes label, .nat n] =>
    .ok (vCP (decryptionProof o x pk f mhr gr label n))
  | "dverify", [.nat pk, .nat f, .nat mhr, .nat gr, pf, .bytes label] => match gCP pf with
    | some pf => okBool (verifyDecryption o pk f mhr gr pf label) | none => .badOp op
  | "sch_chal_bytes", [.nat g, .nat y, .nat t, mhr, .bytes label] => match gOptNat mhr with
    | some none => .ok (.bytes (schnorrBytes o g y t (ctxLabel label)))
    | some (some m) => .ok (.bytes (schnorrBytes o g y t (ctxMhr o m label)))
    | none => .badOp op
  | "sch_chal", [.nat g, .nat y, .nat t, mhr, .bytes label] => match gOptNat mhr with
    | some none => okNat (schnorrChallenge o g y t (ctxLabel label))
    | some (some m) => okNat (schnorrChallenge o g y t (ctxMhr o m label))
    | none => .badOp op
  | "cp_chal", [.nat g1, .nat g2, .nat y1, .nat y2, .nat t1, .nat t2, mhr, .bytes label] =>
    match gOptNat mhr with
    | some none => okNat (cpChallenge o g1 g2 y1 y2 t1 t2 (ctxLabel label))
    | some (some m) => okNat (cpChallenge o g1 g2 y1 y2 t1 t2 (ctxMhr o m label))
    | none => .badOp op
  -- keys ---------------------------------------------------------------------------------
  | "km_share", [.nat x, .bytes label, .nat r] =>
    let (pk, pf) := kmShare o x label r
    .ok (.list [.nat pk, vSchnorr pf])
  | "km_verify_share", [.nat pk, pf, .bytes label] => match gSchnorr pf with
    | some pf => okBool (kmVerifyShare o pk pf label) | none => .badOp op
  | "km_combine", [pks] => match gNats pks with
    | some pks => match combinePks o pks with | some e => okNat e | none => .panic
    | none => .badOp op
  | "km_dfactor", [.nat x, .nat pke, c, .bytes label, .nat r] => match gCt c with
    | some c => let (f, pf) := kmDecryptionFactor o x pke c label r; .ok (.list [.nat f, vCP pf])
    | none => .badOp op
  | "km_joint_dec", [fs, c] => match gNats fs, gCt c with
    | some fs, some c => match jointDec o fs c with | some e => okNat e | none => .panic
    | _, _ => .badOp op
  | "km_joint_dec_many", [fss, cs] => match gNatss fss, gCts cs with
    | some fss, some cs => match jointDecMany o fss cs with
      | some es => .ok (vNats es) | none => .panic
    | _, _ => .badOp op
  | "km_verify_factors", [.nat pk, cts, fs, pfs, .bytes label] =>
    match gCts cts, gNats fs, gCPs pfs with
    | some cts, some fs, some pfs => match verifyDecryptionFactors o pk cts fs pfs label with
      | some b => okBool b | none => .panic
    | _, _, _ => .badOp op
  -- threshold ----------------------------------------------------------------------------
  | "th_coeffs", [.nat t, tape] => match gNats tape with
    | some tape => match genCoefficients o t tape with
      | some ((cs, ms), _) => .ok (.list [vNats cs, vNats ms]) | none => .needTape
    | none => .badOp op
  | "th_eval", [.nat j, .nat t, coeffs] => match gNats coeffs with
    | some cs => match evalPoly o j t cs with | some x => okNat x | none => .panic
    | none => .badOp op
  | "th_share", [.nat j, .nat t, coeffs] => match gNats coeffs with
    | some cs => match computePeerShare o j t cs with | some x => okNat x | none => .panic
    | none => .badOp op
  | "th_vkf", [comms, .nat t, .nat j] => match gNats comms with
    | some cs => okNat (verificationKeyFactor o cs t j) | none => .badOp op
  | "th_dfactor", [c, .nat share, .nat vkey, .bytes label, .nat r] => match gCt c with
    | some c => let (f, pf) := thDecryptionFactor o c share vkey label r; .ok (.list [.nat f, vCP pf])
    | none => .badOp op
  | "th_lagrange", [.nat i, present] => match gNats present with
    | some ps => okNat (lagrange o i ps) | none => .badOp op
  | _, _ => .badOp op

end Strand.Driver
