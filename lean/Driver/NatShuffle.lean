import Driver.Nat
import StrandModel.Model.Shuffle
import StrandModel.Model.Generators
import StrandModel.Model.Rng
import StrandModel.Model.GenShuffle
import StrandModel.Model.Radix
/- Dispatcher, part 2: shuffle, generators, vector codecs. -/
namespace Strand.Driver
open Strand Strand.Proto

def vCts (l : List (Ciphertext Nat)) : Val := .list (l.map vCt)
def vProof (p : ShuffleProof Nat Nat) : Val :=
  .list [.list [.nat p.t.t1, .nat p.t.t2, .nat p.t.t3, .nat p.t.t4_1, .nat p.t.t4_2, vNats p.t.tHats],
         .list [.nat p.s.s1, .nat p.s.s2, .nat p.s.s3, .nat p.s.s4, vNats p.s.sHats, vNats p.s.sPrimes],
         vNats p.cs, vNats p.cHats]
def gCommit : Val → Option (Commitments Nat)
  | .list [.nat a, .nat b, .nat c, .nat d, .nat e, th] => match gNats th with
    | some th => some ⟨a, b, c, d, e, th⟩ | none => none
  | _ => none
def gProof : Val → Option (ShuffleProof Nat Nat)
  | .list [t, .list [.nat s1, .nat s2, .nat s3, .nat s4, sh, sp], cs, ch] =>
    match gCommit t, gNats sh, gNats sp, gNats cs, gNats ch with
    | some t, some sh, some sp, some cs, some ch => some ⟨t, ⟨s1, s2, s3, s4, sh, sp⟩, cs, ch⟩
    | _, _, _, _, _ => none
  | _ => none

def resOut {α : Type} (r : Res α) (f : α → Val) : Out :=
  match r with
  | .ok a => .ok (f a)
  | .error .err => .err
  | .error .panic => .panic
  | .error .tape => .needTape

def runNatShuffle (P : Params) (fl : Flavour) (op : String) (args : List Val) : Out :=
  let o := natOps P fl
  match op, args with
  | "apply_perm", [.nat pk, perm, cts, tape] => match gNats perm, gCts cts, gNats tape with
    | some perm, some cts, some tape =>
      resOut (applyPermutation o pk perm cts tape) fun ((outs, rs), _) => .list [vCts outs, vNats rs]
    | _, _, _ => .badOp op
  | "gen_shuffle", [.nat pk, cts, .bytes rng, tape] => match gCts cts, gNats tape with
    | some cts, some tape =>
      resOut (genShuffle o pk cts rng tape) fun ((outs, rs, perm), rng', _) =>
        .list [vCts outs, vNats rs, vNats perm, .nat (rng.length - rng'.length)]
    | _, _ => .badOp op
  | "gen_commitments", [gens, perm, tape] => match gNats gens, gNats perm, gNats tape with
    | some gens, some perm, some tape =>
      resOut (genCommitments o gens perm tape) fun ((cs, rs), _) => .list [vNats cs, vNats rs]
    | _, _, _ => .badOp op
  | "gen_proof", [gens, .nat pk, es, eps, rps, perm, .bytes label, tape] =>
    match gNats gens, gCts es, gCts eps, gNats rps, gNats perm, gNats tape with
    | some gens, some es, some eps, some rps, some perm, some tape =>
      resOut (genProof o gens pk es eps rps perm label tape) fun (pf, _) => vProof pf
    | _, _, _, _, _, _ => .badOp op
  | "gen_proof_ext", [gens, .nat pk, es, eps, rps, perm, csP, rsP, .bytes label, tape] =>
    match gNats gens, gCts es, gCts eps, gNats rps, gNats perm, gNats csP, gNats rsP, gNats tape with
    | some gens, some es, some eps, some rps, some perm, some csP, some rsP, some tape =>
      resOut (genProofExt o gens pk es eps rps perm csP rsP label tape) fun (pf, _) => vProof pf
    | _, _, _, _, _, _, _, _ => .badOp op
  | "check_proof", [gens, .nat pk, pf, es, eps, .bytes label] =>
    match gNats gens, gProof pf, gCts es, gCts eps with
    | some gens, some pf, some es, some eps => okBool (checkProof o gens pk pf es eps label)
    | _, _, _, _ => .badOp op
  | "check_proof_bytes", [gens, .nat pk, .bytes pfb, es, eps, .bytes label] =>
    match gNats gens, gCts es, gCts eps with
    | some gens, some es, some eps => match tryFromSlice (codecShuffleProof o) pfb with
      | some pf => okBool (checkProof o gens pk pf es eps label)
      | none => .err
    | _, _, _ => .badOp op
  | "us", [es, eps, cs, .nat n, .bytes label] => match gCts es, gCts eps, gNats cs with
    | some es, some eps, some cs => .ok (vNats (shuffleUs o es eps cs n label))
    | _, _, _ => .badOp op
  | "us_prefix_bytes", [es, eps, cs, .bytes label] => match gCts es, gCts eps, gNats cs with
    | some es, some eps, some cs => .ok (.bytes (usPrefixBytes o es eps cs label))
    | _, _, _ => .badOp op
  | "chal", [es, eps, cs, ch, .nat pk, t, .bytes label] =>
    match gCts es, gCts eps, gNats cs, gNats ch, gCommit t with
    | some es, some eps, some cs, some ch, some t => okNat (shuffleChallenge o es eps cs ch pk t label)
    | _, _, _, _, _ => .badOp op
  | "chal_bytes", [es, eps, cs, ch, .nat pk, t, .bytes label] =>
    match gCts es, gCts eps, gNats cs, gNats ch, gCommit t with
    | some es, some eps, some cs, some ch, some t =>
      .ok (.bytes (shuffleChallengeBytes o es eps cs ch pk t label))
    | _, _, _, _, _ => .badOp op
  | "gens", [.nat size, .bytes seed] => match generators P fl size seed with
    | some gs => .ok (vNats gs) | none => .panic
  | "rnd_exp", [.bytes y] => match bigintRndExp P y with
    | some (x, rest) => .ok (.list [.nat x, .nat (y.length - rest.length)]) | none => .panic
  | "rnd_pt", [.bytes y] => match bigintRndPlaintext P y with
    | some (x, rest) => .ok (.list [.nat x, .nat (y.length - rest.length)]) | none => .panic
  | "rnd_elem", [.bytes y] => match bigintRnd P y with
    | some (some e, rest) => .ok (.list [.nat e, .nat (y.length - rest.length)])
    | _ => .panic
  | "e_from_str", [.nat radix, .bytes y] => vOptNat (elementFromStringRadix P fl radix y)
  | "to_str", [.nat radix, .nat v] => .ok (.bytes (toRadix radix v))
  | "sk_gen", [.bytes y] => match bigintKeyGen P fl y with
    | some (x, pk, rest) => .ok (.list [.nat x, .nat pk, .nat (y.length - rest.length)]) | none => .panic
  | "random_cts", [.nat n, .bytes y] => match bigintRandomCts P n y with
    | some (cs, rest) => .ok (.list [.list (cs.map vCt), .nat (y.length - rest.length)]) | none => .panic
  | "perm", [.nat n, .bytes y] => match fisherYates n y with
    | some (pm, rest) => .ok (.list [vNats pm, .nat (y.length - rest.length)]) | none => .panic
  | "h2e", [.bytes b] => okNat (natHashToElement P fl b)
  | "ser_proof", [pf] => match gProof pf with
    | some pf => .ok (.bytes ((codecShuffleProof o).enc pf)) | none => .badOp op
  | "des_proof", [.bytes b] => match tryFromSlice (codecShuffleProof o) b with
    | some pf => .ok (vProof pf) | none => .err
  | "ser_svec_e", [l] => match gNats l with
    | some l => .ok (.bytes ((vecE o).enc l)) | none => .badOp op
  | "ser_svec_x", [l] => match gNats l with
    | some l => .ok (.bytes ((vecX o).enc l)) | none => .badOp op
  | "ser_svec_c", [l] => match gCts l with
    | some l => .ok (.bytes ((vecC o).enc l)) | none => .badOp op
  | "ser_svec_cp", [l] => match gCPs l with
    | some l => .ok (.bytes ((nested (codecCP o)).enc l)) | none => .badOp op
  | "ser_svec_p", [l] => match gNats l with
    | some l => .ok (.bytes ((nested (natCodecP fl)).enc l)) | none => .badOp op
  | "ser_vec_e", [l] => match gNats l with
    | some l => .ok (.bytes ((vecOf o.codecE).enc l)) | none => .badOp op
  | "ser_vec_ct", [l] => match gCts l with
    | some l => .ok (.bytes ((vecOf (codecCt o)).enc l)) | none => .badOp op
  | "des_svec_e", [.bytes b] => match tryFromSlice (vecE o) b with
    | some l => .ok (vNats l) | none => .err
  | "des_svec_x", [.bytes b] => match tryFromSlice (vecX o) b with
    | some l => .ok (vNats l) | none => .err
  | "des_svec_c", [.bytes b] => match tryFromSlice (vecC o) b with
    | some l => .ok (vCts l) | none => .err
  | "des_svec_cp", [.bytes b] => match tryFromSlice (nested (codecCP o)) b with
    | some l => .ok (.list (l.map vCP)) | none => .err
  | "des_svec_p", [.bytes b] => match tryFromSlice (nested (natCodecP fl)) b with
    | some l => .ok (vNats l) | none => .err
  | "des_vec_e", [.bytes b] => match tryFromSlice (vecOf o.codecE) b with
    | some l => .ok (vNats l) | none => .err
  | "des_vec_ct", [.bytes b] => match tryFromSlice (vecOf (codecCt o)) b with
    | some l => .ok (vCts l) | none => .err
  | "des_pk", [.bytes b] => vOptNat (tryFromSlice (codecPk o) b)
  | _, _ => .badOp op

end Strand.Driver
