import StrandModel.Model.Bytes
/- Line protocol between the Rust harness and the Lean driver: values, parser, printer. -/
namespace Strand.Proto
open Strand

inductive Val where
  | nat (n : Nat)
  | bytes (b : Bytes)
  | list (l : List Val)
  | none
  | bool (b : Bool)
deriving Inhabited, Repr

def hexVal (c : Char) : Option Nat :=
  if '0' ≤ c ∧ c ≤ '9' then some (c.toNat - 48)
  else if 'a' ≤ c ∧ c ≤ 'f' then some (c.toNat - 87)
  else if 'A' ≤ c ∧ c ≤ 'F' then some (c.toNat - 55)
  else Option.none

def isHex (c : Char) : Bool := (hexVal c).isSome

def parseHexNat (cs : List Char) : Nat := cs.foldl (fun acc c => acc * 16 + (hexVal c).getD 0) 0
def parseDecNat (cs : List Char) : Nat := cs.foldl (fun acc c => acc * 10 + (c.toNat - 48)) 0

def parseHexBytes : List Char → Bytes
  | a :: b :: rest => UInt8.ofNat ((hexVal a).getD 0 * 16 + (hexVal b).getD 0) :: parseHexBytes rest
  | _ => []

/-- recursive-descent parser with fuel; returns the value and the rest -/
partial def parseVal (cs : List Char) : Option (Val × List Char) :=
  match cs with
  | '-' :: rest => some (Val.none, rest)
  | 'T' :: rest => some (Val.bool true, rest)
  | 'F' :: rest => some (Val.bool false, rest)
  | 'n' :: ':' :: rest =>
    let ds := rest.takeWhile isHex
    some (Val.nat (parseHexNat ds), rest.dropWhile isHex)
  | 'u' :: ':' :: rest =>
    let ds := rest.takeWhile Char.isDigit
    some (Val.nat (parseDecNat ds), rest.dropWhile Char.isDigit)
  | 'b' :: ':' :: rest =>
    let ds := rest.takeWhile isHex
    some (Val.bytes (parseHexBytes ds), rest.dropWhile isHex)
  | '[' :: ']' :: rest => some (Val.list [], rest)
  | '[' :: rest =>
    let rec items (cs : List Char) (acc : List Val) : Option (List Val × List Char) :=
      match parseVal cs with
      | Option.none => Option.none
      | some (v, ',' :: rest) => items rest (v :: acc)
      | some (v, ']' :: rest) => some ((v :: acc).reverse, rest)
      | _ => Option.none
    match items rest [] with
    | Option.none => Option.none
    | some (vs, rest) => some (Val.list vs, rest)
  | _ => Option.none

def parseTok (s : String) : Option Val :=
  match parseVal s.toList with
  | some (v, []) => some v
  | _ => Option.none

def natToHex (n : Nat) : String :=
  if n = 0 then "0" else
  let rec go (fuel n : Nat) (acc : List Char) : List Char :=
    match fuel with
    | 0 => acc
    | fuel + 1 => if n = 0 then acc else go fuel (n / 16) (hexDigit (n % 16) :: acc)
  String.ofList (go (n.log2 / 4 + 2) n [])

partial def showVal : Val → String
  | Val.nat n => "n:" ++ natToHex n
  | Val.bytes b => "b:" ++ bytesToHex b
  | Val.list l => "[" ++ ",".intercalate (l.map showVal) ++ "]"
  | Val.none => "-"
  | Val.bool true => "T"
  | Val.bool false => "F"

inductive Out where
  | ok (v : Val)
  | err
  | panic
  | needTape
  | badOp (msg : String)

def Out.show : Out → String
  | .ok v => "ok " ++ showVal v
  | .err => "err"
  | .panic => "panic"
  | .needTape => "need-tape"
  | .badOp m => "bad-op " ++ m

end Strand.Proto
