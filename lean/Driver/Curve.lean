import Driver.NatShuffle
import StrandModel.Model.Ristretto
import StrandModel.Model.Ed25519
/-
Dispatcher for the Ristretto back-end (ctx token `R255`) and the Ed25519 signature front-ends
(ctx token `SIG`); protocol: lean/PROTOCOL_R255.md.  The protocol-level operations are the
GENERIC model functions instantiated with `ristrettoOps`.
Elements travel as `b:<32 bytes>` (canonical encoding), exponents as `n:<hex>` (< ℓ).
-/
namespace Strand.Driver
open Strand Strand.Proto

namespace Curve

/-- element → value -/
def vE (e : Nat) : Val := .bytes (leFixed 32 e)
def vEs (l : List Nat) : Val := .list (l.map vE)
def vX (x : Nat) : Val := .nat x
def vXs (l : List Nat) : Val := .list (l.map vX)
def vCtR (c : Ciphertext Nat) : Val := .list [vE c.mhr, vE c.gr]
def vCtsR (l : List (Ciphertext Nat)) : Val := .list (l.map vCtR)
def vSchnorrR (p : Schnorr Nat Nat) : Val := .list [vE p.commitment, vX p.challenge, vX p.response]
def vCPR (p : ChaumPedersen Nat Nat) : Val :=
  .list [vE p.commitment1, vE p.commitment2, vX p.challenge, vX p.response]
def vProofR (p : ShuffleProof Nat Nat) : Val :=
  .list [.list [vE p.t.t1, vE p.t.t2, vE p.t.t3, vE p.t.t4_1, vE p.t.t4_2, vEs p.t.tHats],
         .list [vX p.s.s1, vX p.s.s2, vX p.s.s3, vX p.s.s4, vXs p.s.sHats, vXs p.s.sPrimes],
         vEs p.cs, vEs p.cHats]

def okE (e : Nat) : Out := .ok (vE e)
def okX (x : Nat) : Out := .ok (vX x)
def vOptE : Option Nat → Out
  | some e => okE e
  | none => .err

/-- value → element: exactly 32 bytes (validity of the encoding is not re-checked here; the
    model reads an invalid encoding as the identity) -/
def gE : Val → Option Nat
  | .bytes b => if b.length = 32 then some (natOfLE b) else none
  | _ => none
def gEs : Val → Option (List Nat) | .list l => l.mapM gE | _ => none
def gEss : Val → Option (List (List Nat)) | .list l => l.mapM gEs | _ => none
def gOptE : Val → Option (Option Nat)
  | .none => some none
  | v => match gE v with
    | some e => some (some e)
    | none => none
def gCtR : Val → Option (Ciphertext Nat)
  | .list [a, b] => match gE a, gE b with
    | some a, some b => some ⟨a, b⟩
    | _, _ => none
  | _ => none
def gCtsR : Val → Option (List (Ciphertext Nat)) | .list l => l.mapM gCtR | _ => none
def gSchnorrR : Val → Option (Schnorr Nat Nat)
  | .list [t, .nat c, .nat s] => match gE t with
    | some t => some ⟨t, c, s⟩
    | none => none
  | _ => none
def gCPR : Val → Option (ChaumPedersen Nat Nat)
  | .list [t1, t2, .nat c, .nat s] => match gE t1, gE t2 with
    | some t1, some t2 => some ⟨t1, t2, c, s⟩
    | _, _ => none
  | _ => none
def gCPsR : Val → Option (List (ChaumPedersen Nat Nat)) | .list l => l.mapM gCPR | _ => none
def gBytess : Val → Option (List Bytes) | .list l => l.mapM gBytes | _ => none
def gCommitR : Val → Option (Commitments Nat)
  | .list [a, b, c, d, e, th] => match gE a, gE b, gE c, gE d, gE e, gEs th with
    | some a, some b, some c, some d, some e, some th => some ⟨a, b, c, d, e, th⟩
    | _, _, _, _, _, _ => none
  | _ => none
def gProofR : Val → Option (ShuffleProof Nat Nat)
  | .list [t, .list [.nat s1, .nat s2, .nat s3, .nat s4, sh, sp], cs, ch] =>
    match gCommitR t, gNats sh, gNats sp, gEs cs, gEs ch with
    | some t, some sh, some sp, some cs, some ch => some ⟨t, ⟨s1, s2, s3, s4, sh, sp⟩, cs, ch⟩
    | _, _, _, _, _ => none
  | _ => none

end Curve
open Curve

/-- back-end, plaintexts, codecs, ElGamal, sigma proofs, keys, threshold -/
def runCurveA (op : String) (args : List Val) : Out :=
  let o := ristrettoOps
  match op, args with
  -- back-end -----------------------------------------------------------------------------
  | "gen", [] => okE o.generator
  | "gpow", [.nat x] => okE (o.gmodPow x)
  | "epow", [a, .nat x] => match gE a with
    | some a => okE (o.emodPow a x) | none => .badOp op
  | "mul", [a, b] => match gE a, gE b with
    | some a, some b => okE (o.mul a b) | _, _ => .badOp op
  | "div", [a, b] => match gE a, gE b with
    | some a, some b => okE (o.divp a b) | _, _ => .badOp op
  | "inv", [a] => match gE a with
    | some a => okE (o.invp a) | none => .badOp op
  | "modp", [a] => match gE a with
    | some a => okE (o.modp a) | none => .badOp op
  | "xadd", [.nat a, .nat b] => okX (o.xadd a b)
  | "xsub", [.nat a, .nat b] => okX (o.xsub a b)
  | "xmul", [.nat a, .nat b] => okX (o.xmul a b)
  | "xdiv", [.nat a, .nat b] => okX (o.divq a b)
  | "xinv", [.nat a] => okX (o.invq a)
  | "xmod", [.nat a] => okX (o.modq a)
  | "submod", [.nat a, .nat b] => okX (o.subMod a b)
  | "xfromu64", [.nat a] => okX (o.fromU64 a)
  | "h2x", [.bytes b] => okX (o.hashToExp b)
  | "sha512", [.bytes b] => .ok (.bytes (sha512 b))
  -- plaintexts ---------------------------------------------------------------------------
  | "encode", [.bytes m] => vOptE (ristrettoEncode m)
  | "decode", [e] => match gE e with
    | some e => .ok (.bytes (ristrettoDecode e)) | none => .badOp op
  -- decoding -----------------------------------------------------------------------------
  | "e_from_bytes", [.bytes b] => vOptE (ristrettoElementFromBytes b)
  | "x_from_bytes", [.bytes b] => vOptNat (ristrettoExpFromBytes b)
  | "ser_e", [a] => match gE a with
    | some a => .ok (.bytes (o.serE a)) | none => .badOp op
  | "ser_x", [.nat a] => .ok (.bytes (o.serX a))
  | "ser_p", [.bytes a] => .ok (.bytes (ristrettoCodecP.enc a))
  | "ser_ct", [c] => match gCtR c with
    | some c => .ok (.bytes ((codecCt o).enc c)) | none => .badOp op
  | "ser_schnorr", [p] => match gSchnorrR p with
    | some p => .ok (.bytes ((codecSchnorr o).enc p)) | none => .badOp op
  | "ser_cp", [p] => match gCPR p with
    | some p => .ok (.bytes ((codecCP o).enc p)) | none => .badOp op
  | "des_e", [.bytes b] => vOptE (tryFromSlice o.codecE b)
  | "des_x", [.bytes b] => vOptNat (tryFromSlice o.codecX b)
  | "des_p", [.bytes b] => vOptBytes (tryFromSlice ristrettoCodecP b)
  | "des_ct", [.bytes b] => match tryFromSlice (codecCt o) b with
    | some c => .ok (vCtR c) | none => .err
  | "des_schnorr", [.bytes b] => match tryFromSlice (codecSchnorr o) b with
    | some c => .ok (vSchnorrR c) | none => .err
  | "des_cp", [.bytes b] => match tryFromSlice (codecCP o) b with
    | some c => .ok (vCPR c) | none => .err
  | "des_pk", [.bytes b] => vOptE (tryFromSlice (codecPk o) b)
  | "des_sk", [.bytes b] => match tryFromSlice (codecSk o) b with
    | some (x, e) => .ok (.list [vX x, vE e]) | none => .err
  -- ElGamal ------------------------------------------------------------------------------
  | "keygen", [.nat sk] => okE (pkOf o sk)
  | "enc", [pk, m, .nat r] => match gE pk, gE m with
    | some pk, some m => .ok (vCtR (encryptWith o pk m r)) | _, _ => .badOp op
  | "dec", [.nat sk, c] => match gCtR c with
    | some c => okE (decrypt o sk c) | none => .badOp op
  | "dfactor", [.nat sk, c] => match gCtR c with
    | some c => okE (decryptionFactor o sk c) | none => .badOp op
  | "enc_pok", [pk, m, .bytes label, tape] => match gE pk, gE m, gNats tape with
    | some pk, some m, some tape => match encryptAndPok o pk m label tape with
      | some ((c, pf, r), _) => .ok (.list [vCtR c, vSchnorrR pf, vX r])
      | none => .needTape
    | _, _, _ => .badOp op
  | "dec_prove", [.nat sk, pke, c, .bytes label, tape] => match gE pke, gCtR c, gNats tape with
    | some pke, some c, some tape => match decryptAndProve o sk pke c label tape with
      | some ((d, pf), _) => .ok (.list [vE d, vCPR pf])
      | none => .needTape
    | _, _, _ => .badOp op
  | "enc_x", [.nat x, pk, tape] => match gE pk, gNats tape with
    | some pk, some tape => match ristrettoEncryptExp x pk tape with
      | some (r, _) => vOptBytes r
      | none => .needTape
    | _, _ => .badOp op
  | "dec_x", [.bytes b, .nat sk] => vOptNat (ristrettoDecryptExp b sk)
  -- sigma proofs -------------------------------------------------------------------------
  | "sch_prove", [.nat x, y, g, .bytes label, .nat r] => match gE y, gOptE g with
    | some y, some g => .ok (vSchnorrR (schnorrProve o x y g label r)) | _, _ => .badOp op
  | "sch_verify", [y, g, pf, .bytes label] => match gE y, gOptE g, gSchnorrR pf with
    | some y, some g, some pf => okBool (schnorrVerify o y g pf label) | _, _, _ => .badOp op
  | "cp_prove", [.nat x, y1, y2, g1, g2, .bytes label, .nat r] =>
    match gE y1, gE y2, gOptE g1, gE g2 with
    | some y1, some y2, some g1, some g2 => .ok (vCPR (cpProve o x y1 y2 g1 g2 label r))
    | _, _, _, _ => .badOp op
  | "cp_verify", [y1, y2, g1, g2, pf, .bytes label] =>
    match gE y1, gE y2, gOptE g1, gE g2, gCPR pf with
    | some y1, some y2, some g1, some g2, some pf => okBool (cpVerify o y1 y2 g1 g2 pf label)
    | _, _, _, _, _ => .badOp op
  | "popk", [.nat r, mhr, gr, .bytes label, .nat n] => match gE mhr, gE gr with
    | some mhr, some gr => .ok (vSchnorrR (encryptionPopk o r mhr gr label n)) | _, _ => .badOp op
  | "popk_verify", [mhr, gr, pf, .bytes label] => match gE mhr, gE gr, gSchnorrR pf with
    | some mhr, some gr, some pf => okBool (encryptionPopkVerify o mhr gr pf label)
    | _, _, _ => .badOp op
  | "dproof", [.nat x, pk, f, mhr, gr, .bytes label, .nat n] =>
    match gE pk, gE f, gE mhr, gE gr with
    | some pk, some f, some mhr, some gr => .ok (vCPR (decryptionProof o x pk f mhr gr label n))
    | _, _, _, _ => .badOp op
  | "dverify", [pk, f, mhr, gr, pf, .bytes label] =>
    match gE pk, gE f, gE mhr, gE gr, gCPR pf with
    | some pk, some f, some mhr, some gr, some pf =>
      okBool (verifyDecryption o pk f mhr gr pf label)
    | _, _, _, _, _ => .badOp op
  | "sch_chal_bytes", [g, y, t, mhr, .bytes label] => match gE g, gE y, gE t, gOptE mhr with
    | some g, some y, some t, some none => .ok (.bytes (schnorrBytes o g y t (ctxLabel label)))
    | some g, some y, some t, some (some m) =>
      .ok (.bytes (schnorrBytes o g y t (ctxMhr o m label)))
    | _, _, _, _ => .badOp op
  | "sch_chal", [g, y, t, mhr, .bytes label] => match gE g, gE y, gE t, gOptE mhr with
    | some g, some y, some t, some none => okX (schnorrChallenge o g y t (ctxLabel label))
    | some g, some y, some t, some (some m) => okX (schnorrChallenge o g y t (ctxMhr o m label))
    | _, _, _, _ => .badOp op
  | "cp_chal", [g1, g2, y1, y2, t1, t2, mhr, .bytes label] =>
    match gEs (.list [g1, g2, y1, y2, t1, t2]), gOptE mhr with
    | some [g1, g2, y1, y2, t1, t2], some none =>
      okX (cpChallenge o g1 g2 y1 y2 t1 t2 (ctxLabel label))
    | some [g1, g2, y1, y2, t1, t2], some (some m) =>
      okX (cpChallenge o g1 g2 y1 y2 t1 t2 (ctxMhr o m label))
    | _, _ => .badOp op
  -- keys ---------------------------------------------------------------------------------
  | "km_share", [.nat x, .bytes label, .nat r] =>
    let (pk, pf) := kmShare o x label r
    .ok (.list [vE pk, vSchnorrR pf])
  | "km_verify_share", [pk, pf, .bytes label] => match gE pk, gSchnorrR pf with
    | some pk, some pf => okBool (kmVerifyShare o pk pf label) | _, _ => .badOp op
  | "km_combine", [pks] => match gEs pks with
    | some pks => match combinePks o pks with | some e => okE e | none => .panic
    | none => .badOp op
  | "km_dfactor", [.nat x, pke, c, .bytes label, .nat r] => match gE pke, gCtR c with
    | some pke, some c =>
      let (f, pf) := kmDecryptionFactor o x pke c label r; .ok (.list [vE f, vCPR pf])
    | _, _ => .badOp op
  | "km_joint_dec", [fs, c] => match gEs fs, gCtR c with
    | some fs, some c => match jointDec o fs c with | some e => okE e | none => .panic
    | _, _ => .badOp op
  | "km_joint_dec_many", [fss, cs] => match gEss fss, gCtsR cs with
    | some fss, some cs => match jointDecMany o fss cs with
      | some es => .ok (vEs es) | none => .panic
    | _, _ => .badOp op
  | "km_verify_factors", [pk, cts, fs, pfs, .bytes label] =>
    match gE pk, gCtsR cts, gEs fs, gCPsR pfs with
    | some pk, some cts, some fs, some pfs =>
      match verifyDecryptionFactors o pk cts fs pfs label with
      | some b => okBool b | none => .panic
    | _, _, _, _ => .badOp op
  -- threshold ----------------------------------------------------------------------------
  | "th_coeffs", [.nat t, tape] => match gNats tape with
    | some tape => match genCoefficients o t tape with
      | some ((cs, ms), _) => .ok (.list [vXs cs, vEs ms]) | none => .needTape
    | none => .badOp op
  | "th_eval", [.nat j, .nat t, coeffs] => match gNats coeffs with
    | some cs => match evalPoly o j t cs with | some x => okX x | none => .panic
    | none => .badOp op
  | "th_share", [.nat j, .nat t, coeffs] => match gNats coeffs with
    | some cs => match computePeerShare o j t cs with | some x => okX x | none => .panic
    | none => .badOp op
  | "th_vkf", [comms, .nat t, .nat j] => match gEs comms with
    | some cs => okE (verificationKeyFactor o cs t j) | none => .badOp op
  | "th_dfactor", [c, .nat share, vkey, .bytes label, .nat r] => match gCtR c, gE vkey with
    | some c, some vkey =>
      let (f, pf) := thDecryptionFactor o c share vkey label r; .ok (.list [vE f, vCPR pf])
    | _, _ => .badOp op
  | "th_lagrange", [.nat i, present] => match gNats present with
    | some ps => okX (lagrange o i ps) | none => .badOp op
  | _, _ => .badOp op

/-- shuffle, generators, samplers, vector codecs -/
def runCurveB (op : String) (args : List Val) : Out :=
  let o := ristrettoOps
  match op, args with
  | "apply_perm", [pk, perm, cts, tape] => match gE pk, gNats perm, gCtsR cts, gNats tape with
    | some pk, some perm, some cts, some tape =>
      resOut (applyPermutation o pk perm cts tape) fun ((outs, rs), _) => .list [vCtsR outs, vXs rs]
    | _, _, _, _ => .badOp op
  | "gen_commitments", [gens, perm, tape] => match gEs gens, gNats perm, gNats tape with
    | some gens, some perm, some tape =>
      resOut (genCommitments o gens perm tape) fun ((cs, rs), _) => .list [vEs cs, vXs rs]
    | _, _, _ => .badOp op
  | "gen_proof", [gens, pk, es, eps, rps, perm, .bytes label, tape] =>
    match gEs gens, gE pk, gCtsR es, gCtsR eps, gNats rps, gNats perm, gNats tape with
    | some gens, some pk, some es, some eps, some rps, some perm, some tape =>
      resOut (genProof o gens pk es eps rps perm label tape) fun (pf, _) => vProofR pf
    | _, _, _, _, _, _, _ => .badOp op
  | "gen_proof_ext", [gens, pk, es, eps, rps, perm, csP, rsP, .bytes label, tape] =>
    match gEs gens, gE pk, gCtsR es, gCtsR eps, gNats rps, gNats perm, gEs csP, gNats rsP,
      gNats tape with
    | some gens, some pk, some es, some eps, some rps, some perm, some csP, some rsP, some tape =>
      resOut (genProofExt o gens pk es eps rps perm csP rsP label tape) fun (pf, _) => vProofR pf
    | _, _, _, _, _, _, _, _, _ => .badOp op
  | "check_proof", [gens, pk, pf, es, eps, .bytes label] =>
    match gEs gens, gE pk, gProofR pf, gCtsR es, gCtsR eps with
    | some gens, some pk, some pf, some es, some eps =>
      okBool (checkProof o gens pk pf es eps label)
    | _, _, _, _, _ => .badOp op
  | "check_proof_bytes", [gens, pk, .bytes pfb, es, eps, .bytes label] =>
    match gEs gens, gE pk, gCtsR es, gCtsR eps with
    | some gens, some pk, some es, some eps => match tryFromSlice (codecShuffleProof o) pfb with
      | some pf => okBool (checkProof o gens pk pf es eps label)
      | none => .err
    | _, _, _, _ => .badOp op
  | "us", [es, eps, cs, .nat n, .bytes label] => match gCtsR es, gCtsR eps, gEs cs with
    | some es, some eps, some cs => .ok (vXs (shuffleUs o es eps cs n label))
    | _, _, _ => .badOp op
  | "us_prefix_bytes", [es, eps, cs, .bytes label] => match gCtsR es, gCtsR eps, gEs cs with
    | some es, some eps, some cs => .ok (.bytes (usPrefixBytes o es eps cs label))
    | _, _, _ => .badOp op
  | "chal", [es, eps, cs, ch, pk, t, .bytes label] =>
    match gCtsR es, gCtsR eps, gEs cs, gEs ch, gE pk, gCommitR t with
    | some es, some eps, some cs, some ch, some pk, some t =>
      okX (shuffleChallenge o es eps cs ch pk t label)
    | _, _, _, _, _, _ => .badOp op
  | "chal_bytes", [es, eps, cs, ch, pk, t, .bytes label] =>
    match gCtsR es, gCtsR eps, gEs cs, gEs ch, gE pk, gCommitR t with
    | some es, some eps, some cs, some ch, some pk, some t =>
      .ok (.bytes (shuffleChallengeBytes o es eps cs ch pk t label))
    | _, _, _, _, _, _ => .badOp op
  | "gens", [.nat size, .bytes seed] => .ok (vEs (ristrettoGenerators size seed))
  | "rnd_exp", [.bytes y] => match ristrettoRndExp y with
    | some (x, rest) => .ok (.list [vX x, .nat (y.length - rest.length)]) | none => .panic
  | "rnd_elem", [.bytes y] => match ristrettoRnd y with
    | some (e, rest) => .ok (.list [vE e, .nat (y.length - rest.length)]) | none => .panic
  | "rnd_pt", [.bytes y] => match ristrettoRndPlaintext y with
    | some (m, rest) => .ok (.list [.bytes m, .nat (y.length - rest.length)]) | none => .panic
  | "ser_proof", [pf] => match gProofR pf with
    | some pf => .ok (.bytes ((codecShuffleProof o).enc pf)) | none => .badOp op
  | "des_proof", [.bytes b] => match tryFromSlice (codecShuffleProof o) b with
    | some pf => .ok (vProofR pf) | none => .err
  | "ser_svec_e", [l] => match gEs l with
    | some l => .ok (.bytes ((vecE o).enc l)) | none => .badOp op
  | "ser_svec_x", [l] => match gNats l with
    | some l => .ok (.bytes ((vecX o).enc l)) | none => .badOp op
  | "ser_svec_c", [l] => match gCtsR l with
    | some l => .ok (.bytes ((vecC o).enc l)) | none => .badOp op
  | "ser_svec_cp", [l] => match gCPsR l with
    | some l => .ok (.bytes ((nested (codecCP o)).enc l)) | none => .badOp op
  | "ser_svec_p", [l] => match gBytess l with
    | some l => .ok (.bytes ((nested ristrettoCodecP).enc l)) | none => .badOp op
  | "ser_vec_e", [l] => match gEs l with
    | some l => .ok (.bytes ((vecOf o.codecE).enc l)) | none => .badOp op
  | "ser_vec_ct", [l] => match gCtsR l with
    | some l => .ok (.bytes ((vecOf (codecCt o)).enc l)) | none => .badOp op
  | "des_svec_e", [.bytes b] => match tryFromSlice (vecE o) b with
    | some l => .ok (vEs l) | none => .err
  | "des_svec_x", [.bytes b] => match tryFromSlice (vecX o) b with
    | some l => .ok (vXs l) | none => .err
  | "des_svec_c", [.bytes b] => match tryFromSlice (vecC o) b with
    | some l => .ok (vCtsR l) | none => .err
  | "des_svec_cp", [.bytes b] => match tryFromSlice (nested (codecCP o)) b with
    | some l => .ok (.list (l.map vCPR)) | none => .err
  | "des_svec_p", [.bytes b] => match tryFromSlice (nested ristrettoCodecP) b with
    | some l => .ok (.list (l.map .bytes)) | none => .err
  | "des_vec_e", [.bytes b] => match tryFromSlice (vecOf o.codecE) b with
    | some l => .ok (vEs l) | none => .err
  | "des_vec_ct", [.bytes b] => match tryFromSlice (vecOf (codecCt o)) b with
    | some l => .ok (vCtsR l) | none => .err
  | _, _ => .badOp op

/-- ctx `R255` -/
def runCurve (op : String) (args : List Val) : Out :=
  match runCurveA op args with
  | .badOp _ => runCurveB op args
  | r => r

/-- ctx `SIG` -/
def runSig (op : String) (args : List Val) : Out :=
  match op, args with
  | "b64enc", [.bytes b] => .ok (.bytes (b64encode b))
  | "b64dec", [.bytes s] => vOptBytes (b64decode s)
  | "ed_new", [.bytes tape] => match edGenerate tape with
    | some (k, rest) => .ok (.list [.bytes k, .nat (tape.length - rest.length)]) | none => .panic
  | "ed_pk", [.bytes seed] => if seed.length = 32 then .ok (.bytes (edPublicKey seed)) else .badOp op
  | "ed_sign", [.bytes seed, .bytes msg] =>
    if seed.length = 32 then .ok (.bytes (edSign seed msg)) else .badOp op
  | "ed_verify_z", [.bytes pk, .bytes sig, .bytes msg] => okBool (edVerifyZebra pk sig msg)
  | "ed_verify_d", [.bytes pk, .bytes sig, .bytes msg] => okBool (edVerifyDalek pk sig msg)
  | "des_sigpk_z", [.bytes b] => vOptBytes (desSigPkZ b)
  | "des_sigpk_d", [.bytes b] => vOptBytes (desSigPkD b)
  | "des_sigsk_z", [.bytes b] => vOptBytes (desSigSkZ b)
  | "des_sigsk_d", [.bytes b] => vOptBytes (desSigSkD b)
  | "des_sig_z", [.bytes b] => vOptBytes (desSigZ b)
  | "des_sig_d", [.bytes b] => vOptBytes (desSigD b)
  | _, _ => .badOp op

end Strand.Driver
