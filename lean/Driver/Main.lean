import Driver.NatShuffle
import Driver.Curve
/- strand_driver: evaluates the executable model on one request per line. -/
open Strand Strand.Proto Strand.Driver

def parseCtx (s : String) : Option (Params × Flavour) :=
  match s.splitOn ":" with
  | ["B2048"] => some (⟨Generated.P, Generated.Q, Generated.G, Generated.COFACTOR⟩, .bigint)
  | ["M2048"] => some (⟨Generated.P, Generated.Q, Generated.G, Generated.COFACTOR⟩, .malachite)
  | [k, p, q, g] =>
    match p.toNat?, q.toNat?, g.toNat? with
    | some p, some q, some g =>
      if k = "B" then some (⟨p, q, g, 2⟩, .bigint)
      else if k = "M" then some (⟨p, q, g, 2⟩, .malachite) else none
    | _, _, _ => none
  | _ => none

def handle (line : String) : String :=
  if line.startsWith "#" then line else
  match line.splitOn " " with
  | op :: ctx :: args =>
    match args.mapM parseTok with
    | none => "bad-op parse"
    | some vals =>
      if ctx = "R255" then (runCurve op vals).show
      else if ctx = "SIG" then (runSig op vals).show
      else
      match parseCtx ctx with
      | some (P, fl) =>
        match runNat P fl op vals with
        | .badOp _ => (runNatShuffle P fl op vals).show
        | r => r.show
      | none => "bad-op ctx"
  | _ => "bad-op line"

partial def loop (h : IO.FS.Stream) (out : IO.FS.Stream) : IO Unit := do
  let line ← h.getLine
  if line.isEmpty then return ()
  let l := (line.dropEndWhile (fun c => c == '\n' || c == '\r')).toString
  if l.isEmpty then loop h out else
  out.putStrLn (handle l)
  loop h out

def main : IO Unit := do
  let out ← IO.getStdout
  loop (← IO.getStdin) out
  out.flush
