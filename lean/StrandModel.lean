-- This module serves as the root of the `StrandModel` library.
-- Import modules here that should be built as part of the library.
import StrandModel.Basic
