def hello := "world"
