import Mathlib.Tactic.Ring
import Mathlib.Tactic.Linarith
import Mathlib.Data.Nat.Factorial.Basic
import Mathlib.Data.List.Permutation
import Mathlib.Data.List.Perm.Subperm
import Mathlib.Order.Interval.Finset.Nat
import Mathlib.SetTheory.Cardinal.Finite
import StrandModel.Model.Rng
import StrandModel.Lemmas.Transcript
import StrandModel.Lemmas.Encode
/-
Helper lemmas for C18: the random samplers of `Model/Rng.lean` as functions of the RNG bytes.
-/

namespace Strand

/-- number of bits `gen_biguint_below(bound)` asks for -/
def bitsOf (bound : Nat) : Nat := if bound = 0 then 0 else bound.log2 + 1
/-- bytes one candidate consumes -/
def needOf (bound : Nat) : Nat := 4 * ((bitsOf bound + 31) / 32)

theorem sampleBelowBigint_succ (bound fuel : Nat) (bs : Bytes) :
    sampleBelowBigint bound (fuel + 1) bs =
      if bs.length < needOf bound then none
      else if bigintCandidate (bitsOf bound) (bs.take (needOf bound)) < bound then
        some (bigintCandidate (bitsOf bound) (bs.take (needOf bound)), bs.drop (needOf bound))
      else sampleBelowBigint bound fuel (bs.drop (needOf bound)) := rfl

theorem sampleBelowBigint_lt {bound : Nat} : ∀ {fuel : Nat} {bs : Bytes} {n : Nat} {rest : Bytes},
    sampleBelowBigint bound fuel bs = some (n, rest) → n < bound
  | 0, _, _, _, h => by simp [sampleBelowBigint] at h
  | fuel + 1, bs, n, rest, h => by
    rw [sampleBelowBigint_succ] at h
    split_ifs at h with h1 h2
    · cases h; exact h2
    · exact sampleBelowBigint_lt h

/-- the unconsumed bytes are a suffix; the consumed length is `k * needOf bound` for some
    `1 ≤ k ≤ fuel` (k = number of candidates drawn) -/
theorem sampleBelowBigint_consumes {bound : Nat} :
    ∀ {fuel : Nat} {bs : Bytes} {n : Nat} {rest : Bytes},
    sampleBelowBigint bound fuel bs = some (n, rest) →
      ∃ k, 1 ≤ k ∧ k ≤ fuel ∧ k * needOf bound ≤ bs.length ∧ rest = bs.drop (k * needOf bound)
  | 0, _, _, _, h => by simp [sampleBelowBigint] at h
  | fuel + 1, bs, n, rest, h => by
    rw [sampleBelowBigint_succ] at h
    split_ifs at h with h1 h2
    · cases h
      exact ⟨1, le_refl _, by omega, by omega, by rw [Nat.one_mul]⟩
    · obtain ⟨k, hk1, hk2, hk3, hk4⟩ := sampleBelowBigint_consumes h
      rw [List.length_drop] at hk3
      refine ⟨k + 1, by omega, by omega, ?_, ?_⟩
      · rw [Nat.add_mul, Nat.one_mul]; omega
      · rw [hk4, List.drop_drop, Nat.add_mul, Nat.one_mul, Nat.add_comm]

/-- as an append decomposition -/
theorem sampleBelowBigint_suffix {bound fuel : Nat} {bs : Bytes} {n : Nat} {rest : Bytes}
    (h : sampleBelowBigint bound fuel bs = some (n, rest)) :
    ∃ k used, 1 ≤ k ∧ bs = used ++ rest ∧ used.length = k * needOf bound := by
  obtain ⟨k, hk1, _, hk3, rfl⟩ := sampleBelowBigint_consumes h
  exact ⟨k, bs.take (k * needOf bound), hk1, (List.take_append_drop _ _).symm, by
    rw [List.length_take]; omega⟩

end Strand

namespace Strand

/-! ### one candidate of `gen_biguint` -/

theorem natOfLE_take_drop (bs : Bytes) (k : Nat) (hk : k ≤ bs.length) :
    natOfLE (bs.take k) = natOfLE bs % 256 ^ k ∧ natOfLE (bs.drop k) = natOfLE bs / 256 ^ k := by
  have h1 := natOfLE_append (bs.take k) (bs.drop k)
  rw [List.take_append_drop, List.length_take, Nat.min_eq_left hk] at h1
  have h2 := natOfLE_lt (bs.take k)
  rw [List.length_take, Nat.min_eq_left hk] at h2
  have hpos : 0 < 256 ^ k := Nat.pow_pos (by norm_num)
  constructor
  · rw [h1, Nat.add_mul_mod_self_left, Nat.mod_eq_of_lt h2]
  · rw [h1, Nat.add_mul_div_left _ _ hpos, Nat.div_eq_of_lt h2, Nat.zero_add]

/-- the low bits of the top word that `gen_biguint` shifts out -/
def candDiscard (bits : Nat) (bs : Bytes) : Nat :=
  natOfLE (bs.drop (4 * ((bits + 31) / 32 - 1))) % 2 ^ (32 * ((bits + 31) / 32) - bits)

theorem arith_split {W S : Nat} (hW : 0 < W) (N : Nat) :
    (N % W + N / W / S * W) % W = N % W ∧ (N % W + N / W / S * W) / W = N / W / S := by
  constructor
  · rw [Nat.add_mul_mod_self_right, Nat.mod_mod]
  · rw [Nat.add_mul_div_right _ _ hW, Nat.div_eq_of_lt (Nat.mod_lt _ hW), Nat.zero_add]

theorem arith_join {W S : Nat} (hW : 0 < W) (hS : 0 < S) (n d : Nat) (hd : d < S) :
    (n % W + (n / W * S + d) * W) % W = n % W ∧
    (n % W + (n / W * S + d) * W) / W / S = n / W ∧
    (n % W + (n / W * S + d) * W) / W % S = d := by
  have h1 : (n % W + (n / W * S + d) * W) / W = n / W * S + d := by
    rw [Nat.add_mul_div_right _ _ hW, Nat.div_eq_of_lt (Nat.mod_lt _ hW), Nat.zero_add]
  refine ⟨?_, ?_, ?_⟩
  · rw [Nat.add_mul_mod_self_right, Nat.mod_mod]
  · rw [h1, Nat.add_comm, Nat.add_mul_div_right _ _ hS, Nat.div_eq_of_lt hd, Nat.zero_add]
  · rw [h1, Nat.add_comm, Nat.add_mul_mod_self_right, Nat.mod_eq_of_lt hd]

/-- shape of a candidate: with `N = natOfLE bs`, `W = 2^(32(len-1))`, `s = 32·len - bits`:
    candidate = `N % W + (N / W / 2^s) · W`, discarded = `N / W % 2^s` -/
theorem bigintCandidate_eq {bits : Nat} {bs : Bytes} (hb : 0 < bits)
    (hl : bs.length = 4 * ((bits + 31) / 32)) :
    bigintCandidate bits bs =
      natOfLE bs % 2 ^ (32 * ((bits + 31) / 32 - 1)) +
        natOfLE bs / 2 ^ (32 * ((bits + 31) / 32 - 1)) / 2 ^ (32 * ((bits + 31) / 32) - bits)
          * 2 ^ (32 * ((bits + 31) / 32 - 1)) ∧
    candDiscard bits bs =
      natOfLE bs / 2 ^ (32 * ((bits + 31) / 32 - 1)) % 2 ^ (32 * ((bits + 31) / 32) - bits) := by
  have hlen : 1 ≤ (bits + 31) / 32 := by omega
  have hk : 4 * ((bits + 31) / 32 - 1) ≤ bs.length := by omega
  obtain ⟨ht, hd⟩ := natOfLE_take_drop bs _ hk
  have hpow : (256 : Nat) ^ (4 * ((bits + 31) / 32 - 1)) = 2 ^ (32 * ((bits + 31) / 32 - 1)) := by
    rw [show (256 : Nat) = 2 ^ 8 by norm_num, ← Nat.pow_mul]; congr 1; omega
  rw [hpow] at ht hd
  have htake : (bs.drop (4 * ((bits + 31) / 32 - 1))).take 4 = bs.drop (4 * ((bits + 31) / 32 - 1)) :=
    List.take_of_length_le (by rw [List.length_drop]; omega)
  constructor
  · unfold bigintCandidate
    simp only [htake, ht, hd]
    by_cases hr : bits % 32 > 0
    · rw [if_pos hr]
      have : 32 * ((bits + 31) / 32) - bits = 32 - bits % 32 := by omega
      rw [this]
    · rw [if_neg hr]
      have : 32 * ((bits + 31) / 32) - bits = 0 := by omega
      rw [this, Nat.pow_zero, Nat.div_one]
  · unfold candDiscard
    rw [hd]

theorem pow_split {bits : Nat} (hb : 0 < bits) :
    2 ^ (32 * ((bits + 31) / 32 - 1)) * 2 ^ (32 - (32 * ((bits + 31) / 32) - bits)) = 2 ^ bits ∧
    2 ^ (32 - (32 * ((bits + 31) / 32) - bits)) * 2 ^ (32 * ((bits + 31) / 32) - bits) = 2 ^ 32 ∧
    2 ^ (32 * ((bits + 31) / 32 - 1)) * 2 ^ 32 = 256 ^ (4 * ((bits + 31) / 32)) := by
  refine ⟨?_, ?_, ?_⟩
  · rw [← Nat.pow_add]; congr 1; omega
  · rw [← Nat.pow_add]; congr 1; omega
  · rw [show (256 : Nat) = 2 ^ 8 by norm_num, ← Nat.pow_mul, ← Nat.pow_add]; congr 1; omega

/-- a candidate has at most `bits` bits -/
theorem bigintCandidate_lt {bits : Nat} {bs : Bytes} (hb : 0 < bits)
    (hl : bs.length = 4 * ((bits + 31) / 32)) : bigintCandidate bits bs < 2 ^ bits := by
  rw [(bigintCandidate_eq hb hl).1]
  obtain ⟨h1, h2, h3⟩ := pow_split hb
  have hN := natOfLE_lt bs
  rw [hl, ← h3] at hN
  set W := 2 ^ (32 * ((bits + 31) / 32 - 1)) with hW
  set S := 2 ^ (32 * ((bits + 31) / 32) - bits) with hS
  set T := 2 ^ (32 - (32 * ((bits + 31) / 32) - bits)) with hT
  have hWpos : 0 < W := Nat.pow_pos (by norm_num)
  have hSpos : 0 < S := Nat.pow_pos (by norm_num)
  have hH : natOfLE bs / W < 2 ^ 32 := by
    rw [Nat.div_lt_iff_lt_mul hWpos, Nat.mul_comm]; exact hN
  have hHS : natOfLE bs / W / S < T := by
    rw [Nat.div_lt_iff_lt_mul hSpos, h2]; exact hH
  have hL : natOfLE bs % W < W := Nat.mod_lt _ hWpos
  rw [← h1]
  calc natOfLE bs % W + natOfLE bs / W / S * W
      < W + natOfLE bs / W / S * W := by omega
    _ = (natOfLE bs / W / S + 1) * W := by ring
    _ ≤ T * W := Nat.mul_le_mul_right _ hHS
    _ = W * T := Nat.mul_comm _ _

theorem candDiscard_lt (bits : Nat) (bs : Bytes) :
    candDiscard bits bs < 2 ^ (32 * ((bits + 31) / 32) - bits) :=
  Nat.mod_lt _ (Nat.pow_pos (by norm_num))

/-- candidate and discarded bits determine the bytes read -/
theorem natOfLE_of_candidate {bits : Nat} {bs : Bytes} (hb : 0 < bits)
    (hl : bs.length = 4 * ((bits + 31) / 32)) :
    natOfLE bs =
      bigintCandidate bits bs % 2 ^ (32 * ((bits + 31) / 32 - 1)) +
        (bigintCandidate bits bs / 2 ^ (32 * ((bits + 31) / 32 - 1))
            * 2 ^ (32 * ((bits + 31) / 32) - bits) + candDiscard bits bs)
          * 2 ^ (32 * ((bits + 31) / 32 - 1)) := by
  obtain ⟨h1, h2⟩ := bigintCandidate_eq hb hl
  rw [h1, h2]
  set W := 2 ^ (32 * ((bits + 31) / 32 - 1)) with hW
  set S := 2 ^ (32 * ((bits + 31) / 32) - bits) with hS
  have hWpos : 0 < W := Nat.pow_pos (by norm_num)
  have hSpos : 0 < S := Nat.pow_pos (by norm_num)
  obtain ⟨h3, h4⟩ := arith_split (S := S) hWpos (natOfLE bs)
  rw [h3, h4, Nat.div_add_mod']
  rw [Nat.add_comm, Nat.div_add_mod']

/-- injectivity of `bs ↦ (candidate, discarded bits)` on strings of the consumed length -/
theorem candidate_discard_injective {bits : Nat} {bs bs' : Bytes} (hb : 0 < bits)
    (hl : bs.length = 4 * ((bits + 31) / 32)) (hl' : bs'.length = 4 * ((bits + 31) / 32))
    (hc : bigintCandidate bits bs = bigintCandidate bits bs')
    (hd : candDiscard bits bs = candDiscard bits bs') : bs = bs' := by
  apply natOfLE_injective_of_length_eq (hl.trans hl'.symm)
  rw [natOfLE_of_candidate hb hl, natOfLE_of_candidate hb hl', hc, hd]

/-- surjectivity: every `(n, d)` with `n < 2^bits`, `d < 2^(32·len - bits)` is produced by a
    byte string of the consumed length -/
theorem candidate_discard_surjective {bits : Nat} (hb : 0 < bits) {n d : Nat} (hn : n < 2 ^ bits)
    (hd : d < 2 ^ (32 * ((bits + 31) / 32) - bits)) :
    ∃ bs : Bytes, bs.length = 4 * ((bits + 31) / 32) ∧ bigintCandidate bits bs = n ∧
      candDiscard bits bs = d := by
  obtain ⟨h1, h2, h3⟩ := pow_split hb
  set W := 2 ^ (32 * ((bits + 31) / 32 - 1)) with hW
  set S := 2 ^ (32 * ((bits + 31) / 32) - bits) with hS
  set T := 2 ^ (32 - (32 * ((bits + 31) / 32) - bits)) with hT
  have hWpos : 0 < W := Nat.pow_pos (by norm_num)
  have hSpos : 0 < S := Nat.pow_pos (by norm_num)
  have hl : (leFixed (4 * ((bits + 31) / 32)) (n % W + (n / W * S + d) * W)).length
      = 4 * ((bits + 31) / 32) := leFixed_length _ _
  have hnW : n / W < T := by
    rw [Nat.div_lt_iff_lt_mul hWpos, Nat.mul_comm, h1]; exact hn
  have hbig : n % W + (n / W * S + d) * W < 256 ^ (4 * ((bits + 31) / 32)) := by
    rw [← h3]
    have hL : n % W < W := Nat.mod_lt _ hWpos
    have : n / W * S + d < 2 ^ 32 := by
      rw [← h2]
      calc n / W * S + d < n / W * S + S := by omega
        _ = (n / W + 1) * S := by ring
        _ ≤ T * S := Nat.mul_le_mul_right _ hnW
    calc n % W + (n / W * S + d) * W < W + (n / W * S + d) * W := by omega
      _ = (n / W * S + d + 1) * W := by ring
      _ ≤ 2 ^ 32 * W := Nat.mul_le_mul_right _ this
      _ = W * 2 ^ 32 := Nat.mul_comm _ _
  have hN : natOfLE (leFixed (4 * ((bits + 31) / 32)) (n % W + (n / W * S + d) * W))
      = n % W + (n / W * S + d) * W := by
    rw [natOfLE_leFixed, Nat.mod_eq_of_lt hbig]
  obtain ⟨e1, e2⟩ := bigintCandidate_eq hb hl
  obtain ⟨a1, a2, a3⟩ := arith_join hWpos hSpos n d hd
  refine ⟨_, hl, ?_, ?_⟩
  · rw [e1, hN, a1, a2, Nat.mod_add_div']
  · rw [e2, hN, a3]

end Strand

namespace Strand

/-- **uniformity of one candidate**: on byte strings of the consumed length,
    `bs ↦ (candidate, discarded bits)` is a bijection onto `[0, 2^bits) × [0, 2^(32·len-bits))` -/
theorem candidate_discard_bijective {bits : Nat} (hb : 0 < bits) :
    Function.Bijective
      (fun bs : {bs : Bytes // bs.length = 4 * ((bits + 31) / 32)} =>
        ((⟨bigintCandidate bits bs.1, bigintCandidate_lt hb bs.2⟩ : Fin (2 ^ bits)),
         (⟨candDiscard bits bs.1, candDiscard_lt bits bs.1⟩ :
            Fin (2 ^ (32 * ((bits + 31) / 32) - bits))))) := by
  constructor
  · rintro ⟨bs, hl⟩ ⟨bs', hl'⟩ h
    simp only [Prod.mk.injEq, Fin.mk.injEq] at h
    exact Subtype.ext (candidate_discard_injective hb hl hl' h.1 h.2)
  · rintro ⟨⟨n, hn⟩, ⟨d, hd⟩⟩
    obtain ⟨bs, hl, h1, h2⟩ := candidate_discard_surjective hb hn hd
    exact ⟨⟨bs, hl⟩, by simp only [h1, h2]⟩

/-- every value `n < 2^bits` is the candidate of exactly `2^(32·len - bits)` byte strings of the
    consumed length: uniform bytes give a uniform candidate -/
theorem candidate_fiber_card {bits : Nat} (hb : 0 < bits) {n : Nat} (hn : n < 2 ^ bits) :
    Nat.card {bs : Bytes // bs.length = 4 * ((bits + 31) / 32) ∧ bigintCandidate bits bs = n}
      = 2 ^ (32 * ((bits + 31) / 32) - bits) := by
  have hbij : Function.Bijective
      (fun bs : {bs : Bytes // bs.length = 4 * ((bits + 31) / 32) ∧ bigintCandidate bits bs = n} =>
        (⟨candDiscard bits bs.1, candDiscard_lt bits bs.1⟩ :
          Fin (2 ^ (32 * ((bits + 31) / 32) - bits)))) := by
    constructor
    · rintro ⟨bs, hl, hc⟩ ⟨bs', hl', hc'⟩ h
      simp only [Fin.mk.injEq] at h
      exact Subtype.ext (candidate_discard_injective hb hl hl' (hc.trans hc'.symm) h)
    · rintro ⟨d, hd⟩
      obtain ⟨bs, hl, h1, h2⟩ := candidate_discard_surjective hb hn hd
      exact ⟨⟨bs, hl, h1⟩, by simp only [h2]⟩
  rw [Nat.card_congr (Equiv.ofBijective _ hbij), Nat.card_eq_fintype_card, Fintype.card_fin]

theorem bitsOf_pos {bound : Nat} (h : 0 < bound) : 0 < bitsOf bound := by
  unfold bitsOf; rw [if_neg (by omega)]; omega

theorem lt_two_pow_bitsOf (bound : Nat) (h : 0 < bound) : bound < 2 ^ bitsOf bound := by
  unfold bitsOf; rw [if_neg (by omega)]; exact Nat.lt_log2_self

/-- the sampler does not over-draw: `2^(bits-1) ≤ bound`, i.e. each candidate is accepted with
    probability more than one half -/
theorem two_pow_bitsOf_le (bound : Nat) (h : 0 < bound) : 2 ^ (bitsOf bound - 1) ≤ bound := by
  unfold bitsOf; rw [if_neg (by omega), Nat.add_sub_cancel]; exact Nat.log2_self_le (by omega)

end Strand

namespace Strand

/-! ### full range of `gen_biguint_below` -/

/-- every `n < bound` is returned by the first candidate, for a suitable byte string of exactly
    the consumed length (the sampler reaches the whole of `[0, bound)`) -/
theorem sampleBelowBigint_full_range {bound n : Nat} (hn : n < bound) (fuel : Nat) (rest : Bytes) :
    ∃ bs : Bytes, bs.length = needOf bound ∧
      sampleBelowBigint bound (fuel + 1) (bs ++ rest) = some (n, rest) := by
  have hb : 0 < bound := by omega
  obtain ⟨bs, hl, hc, _⟩ := candidate_discard_surjective (bitsOf_pos hb) (n := n) (d := 0)
    (Nat.lt_trans hn (lt_two_pow_bitsOf bound hb)) (Nat.pow_pos (by norm_num))
  have hl' : bs.length = needOf bound := hl
  refine ⟨bs, hl', ?_⟩
  rw [sampleBelowBigint_succ, if_neg (by rw [List.length_append]; omega),
    List.take_left' hl', hc, if_pos hn, List.drop_left' hl']

/-- a candidate `≥ bound` is rejected and the next block of bytes is tried -/
theorem sampleBelowBigint_reject {bound : Nat} (fuel : Nat) (bs rest : Bytes)
    (hl : bs.length = needOf bound) (hc : bound ≤ bigintCandidate (bitsOf bound) bs) :
    sampleBelowBigint bound (fuel + 1) (bs ++ rest) = sampleBelowBigint bound fuel rest := by
  rw [sampleBelowBigint_succ, if_neg (by rw [List.length_append]; omega),
    List.take_left' hl, if_neg (by omega), List.drop_left' hl]

/-! ### `UniformInt<u32>::sample_single` -/

theorem sampleSingleU32_succ (range fuel : Nat) (a b c d : UInt8) (rest : Bytes) :
    sampleSingleU32 range (fuel + 1) (a :: b :: c :: d :: rest) =
      if natOfLE [a, b, c, d] * range % 2 ^ 32 ≤ (range * 2 ^ lz32 range) % 2 ^ 32 - 1 then
        some (natOfLE [a, b, c, d] * range / 2 ^ 32, rest)
      else sampleSingleU32 range fuel rest := rfl

theorem natOfLE4_lt (a b c d : UInt8) : natOfLE [a, b, c, d] < 2 ^ 32 := by
  have := natOfLE_lt [a, b, c, d]
  simpa using this

theorem mul_div_lt_of_lt {v range M : Nat} (hv : v < M) (hr : 0 < range) : v * range / M < range := by
  have hM : 0 < M := by omega
  rw [Nat.div_lt_iff_lt_mul hM, Nat.mul_comm range M]
  exact Nat.mul_lt_mul_of_pos_right hv hr

/-- the index returned is in `[0, range)`; only `0 < range` is needed -/
theorem sampleSingleU32_lt {range : Nat} (hr : 0 < range) :
    ∀ {fuel : Nat} {bs : Bytes} {j : Nat} {rest : Bytes},
      sampleSingleU32 range fuel bs = some (j, rest) → j < range
  | 0, _, _, _, h => by simp [sampleSingleU32] at h
  | fuel + 1, bs, j, rest, h => by
    match bs, h with
    | a :: b :: c :: d :: tl, h =>
      rw [sampleSingleU32_succ] at h
      split_ifs at h with h1
      · cases h
        exact mul_div_lt_of_lt (natOfLE4_lt a b c d) hr
      · exact sampleSingleU32_lt hr h
    | [], h => simp [sampleSingleU32] at h
    | [_], h => simp [sampleSingleU32] at h
    | [_, _], h => simp [sampleSingleU32] at h
    | [_, _, _], h => simp [sampleSingleU32] at h

/-- the unconsumed bytes are a suffix, `4k` bytes (`1 ≤ k ≤ fuel` words) were consumed -/
theorem sampleSingleU32_consumes {range : Nat} :
    ∀ {fuel : Nat} {bs : Bytes} {j : Nat} {rest : Bytes},
      sampleSingleU32 range fuel bs = some (j, rest) →
        ∃ k, 1 ≤ k ∧ k ≤ fuel ∧ 4 * k ≤ bs.length ∧ rest = bs.drop (4 * k)
  | 0, _, _, _, h => by simp [sampleSingleU32] at h
  | fuel + 1, bs, j, rest, h => by
    match bs, h with
    | a :: b :: c :: d :: tl, h =>
      rw [sampleSingleU32_succ] at h
      split_ifs at h with h1
      · cases h
        exact ⟨1, le_refl _, by omega, by simp, rfl⟩
      · obtain ⟨k, hk1, hk2, hk3, hk4⟩ := sampleSingleU32_consumes h
        refine ⟨k + 1, by omega, by omega, by simp only [List.length_cons]; omega, ?_⟩
        rw [hk4, show 4 * (k + 1) = 4 * k + 4 by ring]
        rfl
    | [], h => simp [sampleSingleU32] at h
    | [_], h => simp [sampleSingleU32] at h
    | [_, _], h => simp [sampleSingleU32] at h
    | [_, _, _], h => simp [sampleSingleU32] at h

/-- `range << range.leading_zeros()` keeps the top bit: it lies in `[2^31, 2^32)` -/
theorem shifted_range_bounds {range : Nat} (hr : 0 < range) (hr2 : range < 2 ^ 32) :
    2 ^ 31 ≤ range * 2 ^ lz32 range ∧ range * 2 ^ lz32 range < 2 ^ 32 := by
  have hne : range ≠ 0 := by omega
  have hk : range.log2 < 32 := (Nat.log2_lt hne).2 hr2
  have h1 : 2 ^ range.log2 ≤ range := Nat.log2_self_le hne
  have h2 : range < 2 ^ (range.log2 + 1) := Nat.lt_log2_self
  unfold lz32
  constructor
  · calc 2 ^ 31 = 2 ^ range.log2 * 2 ^ (31 - range.log2) := by
          rw [← Nat.pow_add]; congr 1; omega
      _ ≤ range * 2 ^ (31 - range.log2) := Nat.mul_le_mul_right _ h1
  · calc range * 2 ^ (31 - range.log2) < 2 ^ (range.log2 + 1) * 2 ^ (31 - range.log2) :=
          Nat.mul_lt_mul_of_pos_right h2 (Nat.pow_pos (by norm_num))
      _ = 2 ^ 32 := by rw [← Nat.pow_add]; congr 1; omega

/-- `zone + 1 = range · 2^lz` -/
theorem zone_succ {range : Nat} (hr : 0 < range) (hr2 : range < 2 ^ 32) :
    (range * 2 ^ lz32 range) % 2 ^ 32 - 1 + 1 = range * 2 ^ lz32 range := by
  obtain ⟨h1, h2⟩ := shifted_range_bounds hr hr2
  rw [Nat.mod_eq_of_lt h2]
  have : 0 < 2 ^ 31 := Nat.pow_pos (by norm_num)
  omega

theorem ceil_le_iff {range : Nat} (hr : 0 < range) (a x : Nat) :
    (a + range - 1) / range ≤ x ↔ a ≤ x * range := by
  rw [← Nat.lt_succ_iff, Nat.div_lt_iff_lt_mul hr, Nat.succ_mul]
  omega

/-- **the accepted words for the output `hi` form an interval of length `2^lz`**, whatever `hi` -/
theorem accepted_iff {range : Nat} (hr : 0 < range) (hr2 : range < 2 ^ 32) (hi v : Nat) :
    (v * range / 2 ^ 32 = hi ∧ v * range % 2 ^ 32 ≤ (range * 2 ^ lz32 range) % 2 ^ 32 - 1) ↔
      (hi * 2 ^ 32 + range - 1) / range ≤ v ∧
        v < (hi * 2 ^ 32 + range - 1) / range + 2 ^ lz32 range := by
  have hz := zone_succ hr hr2
  obtain ⟨hZ1, hZ2⟩ := shifted_range_bounds hr hr2
  set Z := range * 2 ^ lz32 range with hZ
  set M := 2 ^ 32 with hM
  have hMpos : 0 < M := Nat.pow_pos (by norm_num)
  have hceil : ∀ x, (hi * M + range - 1) / range ≤ x ↔ hi * M ≤ x * range :=
    fun x => ceil_le_iff hr _ x
  generalize (hi * M + range - 1) / range = c at hceil ⊢
  -- `v * range < hi * M + Z ↔ v < c + 2^lz`
  have hup : v * range < hi * M + Z ↔ v < c + 2 ^ lz32 range := by
    by_cases hv : v < 2 ^ lz32 range
    · constructor
      · intro _; omega
      · intro _
        have : v * range < 2 ^ lz32 range * range := Nat.mul_lt_mul_of_pos_right hv hr
        rw [Nat.mul_comm (2 ^ lz32 range)] at this
        omega
    · have hx := hceil (v - 2 ^ lz32 range)
      rw [Nat.sub_mul, Nat.mul_comm (2 ^ lz32 range) range] at hx
      have hle : Z ≤ v * range := by
        rw [hZ, Nat.mul_comm range]
        exact Nat.mul_le_mul_right _ (by omega)
      constructor
      · intro h
        by_contra hcon
        have := hx.1 (by omega)
        omega
      · intro h
        by_contra hcon
        have := hx.2 (by omega)
        omega
  rw [← hup, hceil v]
  constructor
  · rintro ⟨h1, h2⟩
    have := Nat.div_add_mod (v * range) M
    rw [h1] at this
    constructor
    · rw [Nat.mul_comm]; omega
    · rw [Nat.mul_comm hi M]; omega
  · rintro ⟨h1, h2⟩
    obtain ⟨r, hr'⟩ := Nat.exists_eq_add_of_le h1
    have hrM : r < M := by omega
    rw [hr', Nat.add_comm, Nat.add_mul_div_right _ _ hMpos, Nat.add_mul_mod_self_right,
      Nat.div_eq_of_lt hrM, Nat.mod_eq_of_lt hrM]
    constructor
    · omega
    · omega

/-- the accepted words are genuine u32 values -/
theorem accepted_lt {range : Nat} {hi v : Nat} (hhi : hi < range)
    (h : v * range / 2 ^ 32 = hi) : v < 2 ^ 32 := by
  by_contra hcon
  have h1 : 2 ^ 32 * range ≤ v * range := Nat.mul_le_mul_right _ (by omega)
  have h2 : range ≤ v * range / 2 ^ 32 := by
    rw [Nat.le_div_iff_mul_le (Nat.pow_pos (by norm_num)), Nat.mul_comm]; exact h1
  omega

/-- **uniformity of `sample_single`**: each output `hi < range` is produced by exactly `2^lz`
    of the `2^32` possible words (the others, `2^32 - range·2^lz` of them, are rejected) -/
theorem accepted_count {range : Nat} (hr : 0 < range) (hr2 : range < 2 ^ 32) {hi : Nat}
    (hhi : hi < range) :
    ((Finset.range (2 ^ 32)).filter (fun v =>
        v * range / 2 ^ 32 = hi ∧ v * range % 2 ^ 32 ≤ (range * 2 ^ lz32 range) % 2 ^ 32 - 1)).card
      = 2 ^ lz32 range := by
  have : (Finset.range (2 ^ 32)).filter (fun v =>
        v * range / 2 ^ 32 = hi ∧ v * range % 2 ^ 32 ≤ (range * 2 ^ lz32 range) % 2 ^ 32 - 1)
      = Finset.Ico ((hi * 2 ^ 32 + range - 1) / range)
          ((hi * 2 ^ 32 + range - 1) / range + 2 ^ lz32 range) := by
    ext v
    rw [Finset.mem_filter, Finset.mem_range, Finset.mem_Ico, ← accepted_iff hr hr2 hi v]
    constructor
    · exact fun h => h.2
    · exact fun h => ⟨accepted_lt hhi h.1, h⟩
  rw [this, Nat.card_Ico, Nat.add_sub_cancel_left]

end Strand

namespace Strand

/-! ### `swap` -/

theorem swapList_length (l : List Nat) (i j : Nat) : (swapList l i j).length = l.length := by
  unfold swapList
  split
  · simp only [List.length_set]
  · rfl

theorem count_swap_arith (c : Nat) (p q : Prop) [Decidable p] [Decidable q] (hp : p → 0 < c) :
    (((c - if p then 1 else 0) + if q then 1 else 0) - if q then 1 else 0) +
      (if p then 1 else 0) = c := by
  split_ifs with h1 h2 h2
  · have := hp h1; omega
  · have := hp h1; omega
  · omega
  · omega

theorem swapList_perm (l : List Nat) (i j : Nat) : (swapList l i j).Perm l := by
  unfold swapList
  split
  · next a b ha hb =>
    obtain ⟨hi, rfl⟩ := List.getElem?_eq_some_iff.1 ha
    obtain ⟨hj, rfl⟩ := List.getElem?_eq_some_iff.1 hb
    rw [List.perm_iff_count]
    intro x
    rw [List.count_set (by rw [List.length_set]; exact hj), List.count_set hi, List.getElem_set]
    have h1 : (l[i] == x) = true → 0 < l.count x := fun h => by
      rw [← eq_of_beq h]; exact List.count_pos_iff.2 (List.getElem_mem hi)
    by_cases hij : i = j
    · subst hij
      simp only [if_true]
      exact count_swap_arith _ _ _ h1
    · simp only [if_neg hij]
      exact count_swap_arith _ _ _ h1
  · exact List.Perm.refl _

/-- positions other than `i`, `j` are untouched -/
theorem swapList_getElem?_of_ne (l : List Nat) {i j k : Nat} (hi : k ≠ i) (hj : k ≠ j) :
    (swapList l i j)[k]? = l[k]? := by
  unfold swapList
  split
  · rw [List.getElem?_set_ne (Ne.symm hj), List.getElem?_set_ne (Ne.symm hi)]
  · rfl

/-- position `i` receives the old entry at `j` -/
theorem swapList_getElem?_left (l : List Nat) {i j : Nat} (hi : i < l.length) (hj : j < l.length) :
    (swapList l i j)[i]? = l[j]? := by
  unfold swapList
  rw [List.getElem?_eq_getElem hi, List.getElem?_eq_getElem hj]
  simp only
  by_cases hij : i = j
  · subst hij
    rw [List.getElem?_set_self (by rw [List.length_set]; exact hi)]
  · rw [List.getElem?_set_ne (Ne.symm hij), List.getElem?_set_self hi]

/-! ### the Fisher–Yates loop driven by explicit choices -/

/-- a legal choice vector for the loop started at `i`: `(j_i, …, j_1)` with `j_m ≤ m` -/
def ChoicesOK : Nat → List Nat → Prop
  | 0, js => js = []
  | _ + 1, [] => False
  | i + 1, j :: js => j ≤ i + 1 ∧ ChoicesOK i js

theorem fisherYatesChoices_length : ∀ (i : Nat) (arr js : List Nat),
    (fisherYatesChoices i arr js).length = arr.length
  | 0, _, _ => rfl
  | _ + 1, _, [] => rfl
  | i + 1, arr, j :: js => by
    rw [fisherYatesChoices, fisherYatesChoices_length i, swapList_length]

theorem fisherYatesChoices_perm' : ∀ (i : Nat) (arr js : List Nat),
    (fisherYatesChoices i arr js).Perm arr
  | 0, _, _ => List.Perm.refl _
  | _ + 1, _, [] => List.Perm.refl _
  | i + 1, arr, j :: js => by
    rw [fisherYatesChoices]
    exact (fisherYatesChoices_perm' i _ js).trans (swapList_perm arr (i + 1) j)

/-- the loop started at `i` never touches a position above `i` -/
theorem fisherYatesChoices_getElem?_high : ∀ (i : Nat) (arr js : List Nat), ChoicesOK i js →
    ∀ k, i < k → (fisherYatesChoices i arr js)[k]? = arr[k]?
  | 0, _, _, _, _, _ => rfl
  | _ + 1, _, [], h, _, _ => h.elim
  | i + 1, arr, j :: js, h, k, hk => by
    rw [fisherYatesChoices, fisherYatesChoices_getElem?_high i _ js h.2 k (by omega),
      swapList_getElem?_of_ne arr (by omega) (by have := h.1; omega)]

/-- after the step `i+1` with choice `j`, position `i+1` holds the old `arr[j]` for good -/
theorem fisherYatesChoices_getElem?_top (i : Nat) (arr : List Nat) (j : Nat) (js : List Nat)
    (h : ChoicesOK (i + 1) (j :: js)) (hl : i + 1 < arr.length) :
    (fisherYatesChoices (i + 1) arr (j :: js))[i + 1]? = arr[j]? := by
  rw [fisherYatesChoices, fisherYatesChoices_getElem?_high i _ js h.2 (i + 1) (by omega),
    swapList_getElem?_left arr hl (by have := h.1; omega)]

/-- **injectivity**: on an array without repetitions, different legal choice vectors give
    different results -/
theorem fisherYatesChoices_injective : ∀ (i : Nat) (arr js js' : List Nat), arr.Nodup →
    i < arr.length → ChoicesOK i js → ChoicesOK i js' →
    fisherYatesChoices i arr js = fisherYatesChoices i arr js' → js = js'
  | 0, _, js, js', _, _, h, h', _ => by rw [show js = [] from h, show js' = [] from h']
  | _ + 1, _, [], _, _, _, h, _, _ => h.elim
  | _ + 1, _, _ :: _, [], _, _, _, h', _ => h'.elim
  | i + 1, arr, j :: js, j' :: js', hnd, hl, h, h', heq => by
    have e1 := fisherYatesChoices_getElem?_top i arr j js h hl
    have e2 := fisherYatesChoices_getElem?_top i arr j' js' h' hl
    rw [heq, e2] at e1
    have hj : j < arr.length := by have := h.1; omega
    have hj' : j' < arr.length := by have := h'.1; omega
    rw [List.getElem?_eq_getElem hj, List.getElem?_eq_getElem hj', Option.some.injEq] at e1
    have hjj : j' = j := (List.Nodup.getElem_inj_iff hnd).1 e1
    subst hjj
    rw [fisherYatesChoices, fisherYatesChoices] at heq
    have := fisherYatesChoices_injective i (swapList arr (i + 1) j') js js'
      ((swapList_perm arr (i + 1) j').nodup_iff.2 hnd) (by rw [swapList_length]; omega) h.2 h'.2 heq
    rw [this]

/-! ### all legal choice vectors: there are `(i+1)!` of them -/

def allChoices : Nat → List (List Nat)
  | 0 => [[]]
  | i + 1 => ((List.range (i + 2)) ×ˢ (allChoices i)).map fun p => p.1 :: p.2

theorem mem_allChoices : ∀ (i : Nat) (js : List Nat), js ∈ allChoices i ↔ ChoicesOK i js
  | 0, js => by simp [allChoices, ChoicesOK]
  | i + 1, [] => by simp [allChoices, ChoicesOK]
  | i + 1, j :: js => by
    simp only [allChoices, List.mem_map, Prod.exists, List.cons.injEq, ChoicesOK]
    constructor
    · rintro ⟨a, b, hab, rfl, rfl⟩
      obtain ⟨h1, h2⟩ := List.mem_product.1 hab
      exact ⟨by have := List.mem_range.1 h1; omega, (mem_allChoices i _).1 h2⟩
    · rintro ⟨h1, h2⟩
      exact ⟨j, js, List.mem_product.2 ⟨List.mem_range.2 (by omega), (mem_allChoices i _).2 h2⟩,
        rfl, rfl⟩

theorem allChoices_length : ∀ i : Nat, (allChoices i).length = (i + 1).factorial
  | 0 => rfl
  | i + 1 => by
    rw [allChoices, List.length_map, List.length_product, List.length_range, allChoices_length i,
      Nat.factorial_succ (i + 1)]

theorem allChoices_nodup : ∀ i : Nat, (allChoices i).Nodup
  | 0 => by simp [allChoices]
  | i + 1 => by
    rw [allChoices]
    refine List.Nodup.map ?_ (List.Nodup.product List.nodup_range (allChoices_nodup i))
    rintro ⟨a, b⟩ ⟨a', b'⟩ h
    simp only [List.cons.injEq] at h
    rw [h.1, h.2]

end Strand

namespace Strand

/-! ### choice vectors ↔ permutations -/

/-- all outputs of the loop on `[0, …, n-1]`, one per legal choice vector -/
def fyOutputs (n : Nat) : List (List Nat) :=
  (allChoices (n - 1)).map (fisherYatesChoices (n - 1) (List.range n))

theorem fyOutputs_length (n : Nat) : (fyOutputs n).length = n.factorial := by
  unfold fyOutputs
  rw [List.length_map, allChoices_length]
  cases n with
  | zero => rfl
  | succ m => rfl

theorem fyOutputs_nodup (n : Nat) : (fyOutputs n).Nodup := by
  unfold fyOutputs
  cases n with
  | zero => simp [allChoices]
  | succ m =>
    apply List.Nodup.map_on _ (allChoices_nodup _)
    intro js hjs js' hjs' h
    exact fisherYatesChoices_injective _ _ js js' List.nodup_range
      (by rw [List.length_range]; omega) ((mem_allChoices _ _).1 hjs) ((mem_allChoices _ _).1 hjs') h

theorem fyOutputs_perm_permutations (n : Nat) :
    (fyOutputs n).Perm (List.range n).permutations := by
  apply List.Subperm.perm_of_length_le
  · apply List.subperm_of_subset (fyOutputs_nodup n)
    intro pm hpm
    unfold fyOutputs at hpm
    obtain ⟨js, _, rfl⟩ := List.mem_map.1 hpm
    exact List.mem_permutations.2 (fisherYatesChoices_perm' _ _ _)
  · rw [List.length_permutations, List.length_range, fyOutputs_length]

theorem mem_fyOutputs_iff (n : Nat) (pm : List Nat) :
    pm ∈ fyOutputs n ↔ pm.Perm (List.range n) := by
  rw [(fyOutputs_perm_permutations n).mem_iff, List.mem_permutations]

/-- every permutation of `[0, …, n-1]` is the output of exactly one legal choice vector -/
theorem fisherYatesChoices_existsUnique (n : Nat) (pm : List Nat) (h : pm.Perm (List.range n)) :
    ∃! js, ChoicesOK (n - 1) js ∧ fisherYatesChoices (n - 1) (List.range n) js = pm := by
  have hm := (mem_fyOutputs_iff n pm).2 h
  unfold fyOutputs at hm
  obtain ⟨js, hjs, rfl⟩ := List.mem_map.1 hm
  refine ⟨js, ⟨(mem_allChoices _ _).1 hjs, rfl⟩, ?_⟩
  rintro js' ⟨h1, h2⟩
  cases n with
  | zero => rw [show js' = [] from h1, show js = [] from (mem_allChoices _ _).1 hjs]
  | succ m =>
    exact fisherYatesChoices_injective _ _ js' js List.nodup_range
      (by rw [List.length_range]; omega) h1 ((mem_allChoices _ _).1 hjs) h2

/-! ### the byte-driven loop is the choice-driven loop -/

theorem fisherYatesLoop_succ (fuel i : Nat) (arr : List Nat) (bs : Bytes) :
    fisherYatesLoop fuel (i + 1) arr bs =
      match sampleSingleU32 (i + 2) fuel bs with
      | none => none
      | some (j, rest) => fisherYatesLoop fuel i (swapList arr (i + 1) j) rest := rfl

/-- a successful run used a legal choice vector, and consumed `4k` bytes, `k ≥ i` words -/
theorem fisherYatesLoop_eq_choices (fuel : Nat) : ∀ (i : Nat) (arr : List Nat) (bs : Bytes)
    (pm : List Nat) (rest : Bytes), fisherYatesLoop fuel i arr bs = some (pm, rest) →
    ∃ js, ChoicesOK i js ∧ pm = fisherYatesChoices i arr js ∧
      ∃ k, i ≤ k ∧ 4 * k ≤ bs.length ∧ rest = bs.drop (4 * k)
  | 0, arr, bs, pm, rest, h => by
    simp only [fisherYatesLoop, Option.some.injEq, Prod.mk.injEq] at h
    exact ⟨[], rfl, h.1.symm, 0, le_refl _, by omega, by rw [← h.2]; rfl⟩
  | i + 1, arr, bs, pm, rest, h => by
    rw [fisherYatesLoop_succ] at h
    split at h
    · cases h
    · next j r hs =>
      obtain ⟨js, h1, h2, k, hk1, hk2, hk3⟩ := fisherYatesLoop_eq_choices fuel i _ r pm rest h
      have hj := sampleSingleU32_lt (by omega) hs
      obtain ⟨k', hk'1, _, hk'3, hk'4⟩ := sampleSingleU32_consumes hs
      subst hk'4
      rw [List.length_drop] at hk2
      refine ⟨j :: js, ⟨by omega, h1⟩, by rw [fisherYatesChoices]; exact h2, k' + k, by omega,
        by omega, ?_⟩
      rw [hk3, List.drop_drop, Nat.mul_add]

theorem fisherYates_eq_choices {n : Nat} {bs : Bytes} {pm : List Nat} {rest : Bytes}
    (h : fisherYates n bs = some (pm, rest)) :
    ∃ js, ChoicesOK (n - 1) js ∧ pm = fisherYatesChoices (n - 1) (List.range n) js ∧
      ∃ k, n - 1 ≤ k ∧ 4 * k ≤ bs.length ∧ rest = bs.drop (4 * k) :=
  fisherYatesLoop_eq_choices 64 _ _ _ _ _ h

/-! ### every index / every permutation is reached -/

/-- every `j < range` is returned from a suitable 4-byte word -/
theorem sampleSingleU32_full_range {range j : Nat} (hr2 : range < 2 ^ 32) (hj : j < range) :
    ∃ w : Bytes, w.length = 4 ∧ ∀ (fuel : Nat) (rest : Bytes),
      sampleSingleU32 range (fuel + 1) (w ++ rest) = some (j, rest) := by
  have hr : 0 < range := by omega
  have hacc := (accepted_iff hr hr2 j ((j * 2 ^ 32 + range - 1) / range)).2
    ⟨le_refl _, Nat.lt_add_of_pos_right (Nat.pow_pos (by norm_num))⟩
  have hlt := accepted_lt hj hacc.1
  generalize (j * 2 ^ 32 + range - 1) / range = v at hacc hlt
  refine ⟨leFixed 4 v, leFixed_length 4 v, fun fuel rest => ?_⟩
  have hv : natOfLE (leFixed 4 v) = v := by
    rw [natOfLE_leFixed, Nat.mod_eq_of_lt (by simpa using hlt)]
  have hw : leFixed 4 v = [UInt8.ofNat (v % 256), UInt8.ofNat (v / 256 % 256),
      UInt8.ofNat (v / 256 / 256 % 256), UInt8.ofNat (v / 256 / 256 / 256 % 256)] := rfl
  rw [hw] at hv ⊢
  simp only [List.cons_append, List.nil_append]
  rw [sampleSingleU32_succ, hv, if_pos hacc.2, hacc.1]

/-- every legal choice vector is realised by a byte string of `4·i` bytes (no rejection) -/
theorem fisherYatesLoop_full_range (fuel : Nat) : ∀ (i : Nat) (arr js : List Nat) (rest : Bytes),
    i + 1 < 2 ^ 32 → ChoicesOK i js →
    ∃ bs : Bytes, bs.length = 4 * i ∧
      fisherYatesLoop (fuel + 1) i arr (bs ++ rest) = some (fisherYatesChoices i arr js, rest)
  | 0, arr, js, rest, _, h => by
    rw [show js = [] from h]
    exact ⟨[], rfl, rfl⟩
  | _ + 1, _, [], _, _, h => h.elim
  | i + 1, arr, j :: js, rest, hi, h => by
    obtain ⟨w, hw1, hw2⟩ := sampleSingleU32_full_range (range := i + 2) (j := j) hi
      (by have := h.1; omega)
    obtain ⟨bs, hb1, hb2⟩ := fisherYatesLoop_full_range fuel i (swapList arr (i + 1) j) js rest
      (by omega) h.2
    refine ⟨w ++ bs, by rw [List.length_append, hw1, hb1]; ring, ?_⟩
    rw [fisherYatesLoop_succ, List.append_assoc, hw2 fuel (bs ++ rest)]
    simp only
    rw [hb2, fisherYatesChoices]

end Strand

namespace Strand

/-- the only way to get `none` with enough bytes for `fuel` candidates is `fuel` rejections in a
    row (each has probability `< 1/2`, `two_pow_bitsOf_le`); there is no panicking branch -/
theorem sampleBelowBigint_eq_none {bound : Nat} : ∀ {fuel : Nat} {bs : Bytes},
    sampleBelowBigint bound fuel bs = none → fuel * needOf bound ≤ bs.length →
    ∀ k, k < fuel →
      bound ≤ bigintCandidate (bitsOf bound) ((bs.drop (k * needOf bound)).take (needOf bound))
  | 0, _, _, _, _, hk => by omega
  | fuel + 1, bs, h, hl, k, hk => by
    rw [sampleBelowBigint_succ] at h
    rw [Nat.add_mul, Nat.one_mul] at hl
    split_ifs at h with h1 h2
    · omega
    · cases k with
      | zero => rw [Nat.zero_mul, List.drop_zero]; omega
      | succ k =>
        have := sampleBelowBigint_eq_none h (by rw [List.length_drop]; omega) k (by omega)
        rw [List.drop_drop, Nat.add_comm, ← Nat.succ_mul] at this
        exact this

end Strand
