import Mathlib.Data.Nat.ModEq
import Mathlib.Tactic.Ring
import StrandModel.Model.NatBackend
/- `powm a e m = a ^ e % m` : the model's square-and-multiply is modular exponentiation. -/
namespace Strand

theorem powmAux_eq (fuel : Nat) : ∀ (a e m acc : Nat), e < 2 ^ fuel → acc % m = acc →
    powmAux fuel a e m acc = (acc * a ^ e) % m := by
  induction fuel with
  | zero =>
    intro a e m acc he hacc
    have : e = 0 := by simpa using he
    subst this
    simp [powmAux, hacc]
  | succ fuel ih =>
    intro a e m acc he hacc
    unfold powmAux
    by_cases h0 : e = 0
    · subst h0; simp [hacc]
    · simp only [h0, if_false]
      have he2 : e / 2 < 2 ^ fuel := by
        rw [Nat.div_lt_iff_lt_mul (by norm_num)]
        calc e < 2 ^ (fuel + 1) := he
          _ = 2 ^ fuel * 2 := by ring
      have hsq : ∀ k, (a * a % m) ^ k % m = a ^ (2 * k) % m := by
        intro k
        rw [Nat.pow_mod, Nat.mod_mod, ← Nat.pow_mod, ← pow_two, ← pow_mul]
      by_cases hodd : e % 2 = 1
      · simp only [hodd, if_true]
        rw [ih _ _ _ _ he2 (Nat.mod_mod _ _)]
        have hdecomp : a ^ e = a * a ^ (2 * (e / 2)) := by
          conv_lhs => rw [← Nat.div_add_mod e 2, hodd]
          rw [pow_add, pow_one, mul_comm]
        rw [Nat.mul_mod, hsq, Nat.mod_mod, ← Nat.mul_mod, hdecomp, mul_assoc]
      · have heven : e % 2 = 0 := by omega
        simp only [hodd, if_false]
        rw [ih _ _ _ _ he2 hacc]
        have hdecomp : a ^ e = a ^ (2 * (e / 2)) := by
          conv_lhs => rw [← Nat.div_add_mod e 2, heven, add_zero]
        rw [Nat.mul_mod, hsq, ← Nat.mul_mod, hdecomp]

theorem powm_eq (a e m : Nat) : powm a e m = a ^ e % m := by
  unfold powm
  rw [powmAux_eq _ _ _ _ _ (Nat.lt_log2_self) (Nat.mod_mod _ _)]
  rw [Nat.mul_mod, Nat.mod_mod, Nat.pow_mod, Nat.mod_mod, ← Nat.pow_mod, ← Nat.mul_mod, one_mul]

end Strand
