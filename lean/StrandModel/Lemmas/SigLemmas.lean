import StrandModel.Model.Ed25519
import StrandModel.Lemmas.Codec
import Mathlib.Algebra.Group.Basic
import Mathlib.Data.Nat.GCD.Basic
/-
Helper lemmas for property C20 (the two Ed25519 front-ends and their encodings):
  * base64 `STANDARD_NO_PAD`: symbol table facts (finite, by `decide`), the 6-bit value list of
    an encoding, and the per-group bit arithmetic in both directions;
  * shape facts about the executable Ed25519 model that need NO curve law (lengths, the
    canonical-`s` test, what makes the verifiers answer `false` outright);
  * two facts about scalar multiples in an arbitrary additive commutative group.
No statement here is about edwards25519 arithmetic.
-/
namespace Strand

/-! ### base64 -/

set_option maxRecDepth 8000 in
theorem b64Val_b64Sym_lt : ∀ n, n < 64 → b64Val (b64Sym n) = some n := by decide

theorem b64Sym_mod (n : Nat) : b64Sym (n % 64) = b64Sym n := by
  unfold b64Sym; rw [Nat.mod_mod]

theorem b64Val_b64Sym (n : Nat) : b64Val (b64Sym n) = some (n % 64) := by
  rw [← b64Sym_mod]; exact b64Val_b64Sym_lt _ (Nat.mod_lt _ (by decide))

set_option maxRecDepth 20000 in
theorem b64Val_some_aux : ∀ n, n < 256 → ∀ v, b64Val (UInt8.ofNat n) = some v →
    v < 64 ∧ b64Sym v = UInt8.ofNat n := by
  decide

theorem b64Val_some {c : UInt8} {v : Nat} (h : b64Val c = some v) : v < 64 ∧ b64Sym v = c := by
  have := b64Val_some_aux c.toNat (u8_toNat_lt c) v
  rw [ofNat_toNat_u8] at this
  exact this h

/-- the 6-bit values of the symbols `b64encode` emits -/
def b64Vals : Bytes → List Nat
  | a :: b :: c :: rest =>
    let n := a.toNat * 65536 + b.toNat * 256 + c.toNat
    (n / 262144 % 64) :: (n / 4096 % 64) :: (n / 64 % 64) :: (n % 64) :: b64Vals rest
  | [a, b] =>
    let n := a.toNat * 65536 + b.toNat * 256
    [n / 262144 % 64, n / 4096 % 64, n / 64 % 64]
  | [a] =>
    let n := a.toNat * 65536
    [n / 262144 % 64, n / 4096 % 64]
  | [] => []

theorem b64encode_eq_map (bs : Bytes) : b64encode bs = (b64Vals bs).map b64Sym := by
  induction bs using b64Vals.induct with
  | case1 a b c rest ih => simp only [b64encode, b64Vals, List.map_cons, b64Sym_mod, ih]
  | case2 a b => simp only [b64encode, b64Vals, List.map_cons, List.map_nil, b64Sym_mod]
  | case3 a => simp only [b64encode, b64Vals, List.map_cons, List.map_nil, b64Sym_mod]
  | case4 => rfl

theorem b64Vals_lt (bs : Bytes) : ∀ v ∈ b64Vals bs, v < 64 := by
  induction bs using b64Vals.induct with
  | case1 a b c rest ih =>
    intro v hv
    simp only [b64Vals, List.mem_cons] at hv
    rcases hv with rfl | rfl | rfl | rfl | hv
    · omega
    · omega
    · omega
    · omega
    · exact ih v hv
  | case2 a b => intro v hv; simp only [b64Vals, List.mem_cons, List.not_mem_nil, or_false] at hv; omega
  | case3 a => intro v hv; simp only [b64Vals, List.mem_cons, List.not_mem_nil, or_false] at hv; omega
  | case4 => intro v hv; cases hv

theorem mapOptB64_map_sym (vs : List Nat) (h : ∀ v ∈ vs, v < 64) :
    b64decode.mapOptB64 (vs.map b64Sym) = some vs := by
  induction vs with
  | nil => rfl
  | cons v vs ih =>
    simp only [List.map_cons, b64decode.mapOptB64]
    rw [b64Val_b64Sym_lt v (h v (List.mem_cons_self ..)), ih (fun w hw => h w (List.mem_cons_of_mem _ hw))]

theorem mapOptB64_eq_some {s : Bytes} {vs : List Nat} (h : b64decode.mapOptB64 s = some vs) :
    (∀ v ∈ vs, v < 64) ∧ s = vs.map b64Sym := by
  induction s generalizing vs with
  | nil =>
    simp only [b64decode.mapOptB64, Option.some.injEq] at h
    subst h; simp
  | cons c cs ih =>
    simp only [b64decode.mapOptB64] at h
    split at h
    · cases h
    · next v hv =>
      split at h
      · cases h
      · next ws hws =>
        simp only [Option.some.injEq] at h
        subst h
        obtain ⟨h1, h2⟩ := ih hws
        obtain ⟨h3, h4⟩ := b64Val_some hv
        refine ⟨?_, by rw [List.map_cons, h4, ← h2]⟩
        intro w hw
        rcases List.mem_cons.1 hw with rfl | hw
        · exact h3
        · exact h1 w hw

theorem u8_ofNat_eq {k : Nat} {a : UInt8} (h : k % 256 = a.toNat) : UInt8.ofNat k = a := by
  rw [← ofNat_toNat_u8 a, ← h]
  apply UInt8.toNat_inj.1
  simp

theorem b64Groups_b64Vals (bs : Bytes) : b64Groups (b64Vals bs) = some bs := by
  induction bs using b64Vals.induct with
  | case1 a b c rest ih =>
    simp only [b64Vals, b64Groups, ih]
    have ha := u8_toNat_lt a; have hb := u8_toNat_lt b; have hc := u8_toNat_lt c
    rw [u8_ofNat_eq (a := a) (by omega), u8_ofNat_eq (a := b) (by omega),
      u8_ofNat_eq (a := c) (by omega)]
  | case2 a b =>
    have ha := u8_toNat_lt a; have hb := u8_toNat_lt b
    simp only [b64Vals, b64Groups]
    rw [if_neg (by omega), u8_ofNat_eq (a := a) (by omega), u8_ofNat_eq (a := b) (by omega)]
  | case3 a =>
    have ha := u8_toNat_lt a
    simp only [b64Vals, b64Groups]
    rw [if_neg (by omega), u8_ofNat_eq (a := a) (by omega)]
  | case4 => rfl

theorem list_ind4 {α : Type} {P : List α → Prop} (h0 : P []) (h1 : ∀ a, P [a])
    (h2 : ∀ a b, P [a, b]) (h3 : ∀ a b c, P [a, b, c])
    (h4 : ∀ a b c d rest, P rest → P (a :: b :: c :: d :: rest)) : ∀ l, P l
  | [] => h0
  | [a] => h1 a
  | [a, b] => h2 a b
  | [a, b, c] => h3 a b c
  | a :: b :: c :: d :: rest => h4 a b c d rest (list_ind4 h0 h1 h2 h3 h4 rest)

theorem b64Vals_of_b64Groups (vs : List Nat) : ∀ bs, (∀ v ∈ vs, v < 64) →
    b64Groups vs = some bs → b64Vals bs = vs := by
  induction vs using list_ind4 with
  | h4 a b c d rest ih =>
    intro bs hv h
    simp only [b64Groups] at h
    split at h
    · cases h
    · next out ho =>
      simp only [Option.some.injEq] at h
      subst h
      have ha := hv a (by simp); have hb := hv b (by simp); have hc := hv c (by simp)
      have hd := hv d (by simp)
      have ih' := ih out (fun v hm => hv v (by simp [hm])) ho
      simp only [b64Vals, toNat_ofNat_u8, ih']
      congr 1
      · omega
      congr 1
      · omega
      congr 1
      · omega
      congr 1
      · omega
  | h3 a b c =>
    intro bs hv h
    have ha := hv a (by simp); have hb := hv b (by simp); have hc := hv c (by simp)
    simp only [b64Groups] at h
    split at h
    · cases h
    · next h4 =>
      simp only [Option.some.injEq] at h
      subst h
      simp only [b64Vals, toNat_ofNat_u8]
      congr 1
      · omega
      congr 1
      · omega
      congr 1
      · omega
  | h2 a b =>
    intro bs hv h
    have ha := hv a (by simp); have hb := hv b (by simp)
    simp only [b64Groups] at h
    split at h
    · cases h
    · next h4 =>
      simp only [Option.some.injEq] at h
      subst h
      simp only [b64Vals, toNat_ofNat_u8]
      congr 1
      · omega
      congr 1
      · omega
  | h1 a => intro bs _ h; simp [b64Groups] at h
  | h0 =>
    intro bs _ h
    simp only [b64Groups, Option.some.injEq] at h
    subst h; rfl

theorem mapOptB64_length {s : Bytes} {vs : List Nat} (h : b64decode.mapOptB64 s = some vs) :
    vs.length = s.length := by
  rw [(mapOptB64_eq_some h).2, List.length_map]

theorem b64Groups_len_mod4 (vs : List Nat) (h : vs.length % 4 = 1) : b64Groups vs = none := by
  induction vs using list_ind4 with
  | h4 a b c d rest ih =>
    simp only [b64Groups]
    rw [ih (by simp only [List.length_cons] at h; omega)]
  | h3 a b c => simp at h
  | h2 a b => simp at h
  | h1 a => rfl
  | h0 => simp at h

theorem mapOptB64_none_of_mem {s : Bytes} {c : UInt8} (hc : c ∈ s) (hv : b64Val c = none) :
    b64decode.mapOptB64 s = none := by
  induction s with
  | nil => cases hc
  | cons x xs ih =>
    simp only [b64decode.mapOptB64]
    rcases List.mem_cons.1 hc with rfl | hc
    · rw [hv]
    · rw [ih hc]; split <;> rfl


/-! ### the executable Ed25519 model: facts that need no curve law -/

open Strand.Ed Strand.Ed25519

theorem compress_length (P : Point) : (compress P).length = 32 := by
  unfold compress; exact leFixed_length _ _

theorem edPublicKey_length (seed : Bytes) : (edPublicKey seed).length = 32 :=
  compress_length _

theorem edSign_eq (seed msg : Bytes) :
    edSign seed msg =
      compress (smulBaseFast (hashScalar ((expand seed).2 ++ msg))) ++
        leFixed 32 ((hashScalar ((expand seed).2 ++ msg) +
          hashScalar (compress (smulBaseFast (hashScalar ((expand seed).2 ++ msg))) ++
            edPublicKey seed ++ msg) * (expand seed).1) % ell) := rfl

theorem edSign_length (seed msg : Bytes) : (edSign seed msg).length = 64 := by
  rw [edSign_eq, List.length_append, compress_length, leFixed_length]

theorem edSign_take (seed msg : Bytes) :
    (edSign seed msg).take 32 = compress (smulBaseFast (hashScalar ((expand seed).2 ++ msg))) := by
  rw [edSign_eq, List.take_left' (compress_length _)]

theorem edSign_drop (seed msg : Bytes) :
    (edSign seed msg).drop 32 = leFixed 32 ((hashScalar ((expand seed).2 ++ msg) +
          hashScalar ((edSign seed msg).take 32 ++ edPublicKey seed ++ msg) * (expand seed).1) % ell) := by
  rw [edSign_take, edSign_eq, List.drop_left' (compress_length _)]

private theorem natOfLE_leFixed' : ∀ (k n : Nat), natOfLE (leFixed k n) = n % 256 ^ k
  | 0, n => by simp [leFixed, natOfLE, Nat.mod_one]
  | k + 1, n => by
    rw [leFixed, natOfLE, toNat_ofNat_u8, natOfLE_leFixed' k, Nat.pow_succ,
      Nat.mul_comm (256 ^ k) 256, Nat.mod_mul, Nat.mod_mod]

theorem ell_lt_256_pow_32 : ell < 256 ^ 32 := by decide
theorem ell_pos : 0 < ell := by decide
theorem two_pow_252_lt_ell : 2 ^ 252 < ell := by decide
theorem ell_lt_two_pow_253 : ell < 2 ^ 253 := by decide
theorem ell_coprime_8 : Nat.Coprime ell 8 := by decide

theorem canonicalScalar_leFixed {n : Nat} (h : n < ell) :
    canonicalScalar (leFixed 32 n) = some n := by
  unfold canonicalScalar
  rw [if_neg (by rw [leFixed_length]; exact fun h => h rfl)]
  have : natOfLE (leFixed 32 n) = n := by
    rw [natOfLE_leFixed', Nat.mod_eq_of_lt (Nat.lt_trans h ell_lt_256_pow_32)]
  simp only [this, if_pos h]

theorem canonicalScalar_eq_some {bs : Bytes} {n : Nat} (h : canonicalScalar bs = some n) :
    bs.length = 32 ∧ n = natOfLE bs ∧ n < ell := by
  unfold canonicalScalar at h
  split at h
  · cases h
  · next hl =>
    simp only at h
    split at h
    · next hlt =>
      simp only [Option.some.injEq] at h
      exact ⟨by omega, h.symm, h ▸ hlt⟩
    · cases h

theorem canonicalScalar_none_of_ge {bs : Bytes} (h : ell ≤ natOfLE bs) : canonicalScalar bs = none := by
  unfold canonicalScalar
  split
  · rfl
  · simp only; rw [if_neg (by omega)]

theorem edVerifyZebra_false_of_noncanonical {pk sig msg : Bytes}
    (h : canonicalScalar (sig.drop 32) = none) : edVerifyZebra pk sig msg = false := by
  unfold edVerifyZebra
  split
  · rfl
  · split
    · rfl
    · simp only [h]

theorem edVerifyDalek_false_of_noncanonical {pk sig msg : Bytes}
    (h : canonicalScalar (sig.drop 32) = none) : edVerifyDalek pk sig msg = false := by
  unfold edVerifyDalek
  split
  · rfl
  · split
    · rfl
    · simp only [h]

theorem edVerifyZebra_false_of_decompress_none {pk sig msg : Bytes}
    (h : decompress pk = none) : edVerifyZebra pk sig msg = false := by
  unfold edVerifyZebra
  split
  · rfl
  · simp only [h]

theorem edVerifyDalek_false_of_decompress_none {pk sig msg : Bytes}
    (h : decompress pk = none) : edVerifyDalek pk sig msg = false := by
  unfold edVerifyDalek
  split
  · rfl
  · simp only [h]

theorem decompress_none_of_length {bs : Bytes} (h : bs.length ≠ 32) : decompress bs = none := by
  unfold decompress; rw [if_pos h]


/-! ### `[u8; n]` read with `try_from_slice` -/

theorem tryFromSlice_fixedBytes (n : Nat) (bs : Bytes) :
    tryFromSlice (fixedBytes n) bs = if bs.length = n then some bs else none := by
  split
  · next h =>
    have := (fixedBytes_lawful n).roundtrip (a := bs) h
    exact this
  · next h =>
    cases hx : tryFromSlice (fixedBytes n) bs with
    | none => rfl
    | some a =>
      exfalso
      rw [tryFromSlice_eq_some_iff] at hx
      simp only [fixedBytes] at hx
      split at hx
      · next hle =>
        simp only [Option.some.injEq, Prod.mk.injEq, List.drop_eq_nil_iff] at hx
        omega
      · cases hx

/-! ### scalar multiples in an abstract additive commutative group -/

section
variable {G : Type} [AddCommGroup G]

theorem mod_nsmul_of_nsmul_eq_zero {B : G} {l : ℕ} (hB : l • B = 0) (n : ℕ) :
    (n % l) • B = n • B := by
  conv_rhs => rw [← Nat.mod_add_div n l]
  rw [add_nsmul, mul_nsmul, hB, nsmul_zero, add_zero]

/-- in a group where `B` has order exactly `l`, scalars below `l` are determined by `[s]B` -/
theorem nsmul_inj_of_order {B : G} {l : ℕ} (hord : ∀ n : ℕ, n • B = 0 → l ∣ n)
    {s s' : ℕ} (hs : s < l) (hs' : s' < l) (h : s • B = s' • B) : s = s' := by
  wlog hle : s ≤ s' generalizing s s'
  · exact (this hs' hs h.symm (by omega)).symm
  have h0 : (s' - s) • B = 0 := by
    have : s' • B = (s' - s) • B + s • B := by rw [← add_nsmul]; congr 1; omega
    rw [this] at h
    have := congrArg (fun x => x - s • B) h
    simpa using this.symm
  rcases Nat.eq_zero_or_pos (s' - s) with h1 | h1
  · omega
  · have := Nat.le_of_dvd h1 (hord _ h0); omega

theorem nsmul_inj_of_order_cofactor {B : G} {l c : ℕ} (hord : ∀ n : ℕ, n • B = 0 → l ∣ n)
    (hc : Nat.Coprime l c)
    {s s' : ℕ} (hs : s < l) (hs' : s' < l) (h : c • (s • B) = c • (s' • B)) : s = s' := by
  wlog hle : s ≤ s' generalizing s s'
  · exact (this hs' hs h.symm (by omega)).symm
  have h0 : (c * (s' - s)) • B = 0 := by
    have : s' • B = (s' - s) • B + s • B := by rw [← add_nsmul]; congr 1; omega
    rw [this, nsmul_add] at h
    have := congrArg (fun x => x - c • s • B) h
    rw [mul_nsmul']
    simpa using this.symm
  rcases Nat.eq_zero_or_pos (s' - s) with h1 | h1
  · omega
  · have := Nat.le_of_dvd h1 (hc.dvd_of_dvd_mul_left (hord _ h0)); omega
end

end Strand
