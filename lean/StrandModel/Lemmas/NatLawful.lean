import Mathlib.Algebra.Module.ZMod
import Mathlib.Algebra.Group.Commute.Units
import Mathlib.Algebra.Group.Subgroup.Ker
import Mathlib.Data.ZMod.Basic
import Mathlib.FieldTheory.Finite.Basic
import Mathlib.Tactic.NormNum.Prime
import StrandModel.Lemmas.Lawful
import StrandModel.Lemmas.Powm
/-
The `Nat` back-end (`natOps P fl`) is `Lawful` for a safe-prime group: elements denote into
the subgroup `{u : (ZMod p)ˣ | u ^ q = 1}` written additively, exponents into `ZMod q`.
-/
namespace Strand

/-- arithmetic hypotheses on the group parameters -/
structure SafePrimeGroup (P : Params) : Prop where
  p_prime : Nat.Prime P.p
  q_prime : Nat.Prime P.q
  p_eq : P.p = 2 * P.q + 1
  g_gt : 1 < P.g
  g_lt : P.g < P.p
  /-- stated with the model's `powm` (= `g ^ q % p`, `powm_eq`) so that it can be checked by
      evaluation on 2048-bit literals -/
  g_order : powm P.g P.q P.p = 1

/-- the units of `ZMod p` of order dividing `q` -/
abbrev NatG (P : Params) : Subgroup (ZMod P.p)ˣ :=
  (powMonoidHom P.q : (ZMod P.p)ˣ →* (ZMod P.p)ˣ).ker

/-- ... viewed additively -/
abbrev NatA (P : Params) : Type := Additive (NatG P)

theorem NatG.mem_iff {P : Params} {u : (ZMod P.p)ˣ} : u ∈ NatG P ↔ u ^ P.q = 1 := by
  rw [MonoidHom.mem_ker, powMonoidHom_apply]

theorem NatA.nsmul_q (P : Params) (x : NatA P) : P.q • x = 0 := by
  induction x using Additive.rec with
  | ofMul u =>
    rw [← ofMul_pow, ← ofMul_one]
    congr 1
    exact Subtype.ext (NatG.mem_iff.mp u.2)

instance NatA.instModule (P : Params) : Module (ZMod P.q) (NatA P) :=
  AddCommGroup.zmodModule (NatA.nsmul_q P)

/-- the residue class mod `p` that an element of `NatA P` stands for -/
def NatA.val {P : Params} (x : NatA P) : ZMod P.p :=
  (((Additive.toMul x : NatG P) : (ZMod P.p)ˣ) : ZMod P.p)

namespace NatA
variable {P : Params}

theorem val_injective : Function.Injective (NatA.val (P := P)) := by
  intro x y h
  unfold NatA.val at h
  exact Additive.toMul.injective (Subtype.ext (Units.ext h))

@[simp] theorem val_zero : (0 : NatA P).val = 1 := rfl
@[simp] theorem val_add (x y : NatA P) : (x + y).val = x.val * y.val := rfl
@[simp] theorem val_nsmul (n : ℕ) (x : NatA P) : (n • x).val = x.val ^ n := by
  unfold NatA.val
  rw [toMul_nsmul, SubmonoidClass.coe_pow, Units.val_pow_eq_pow_val]
theorem val_natCast_smul (n : ℕ) (x : NatA P) : ((n : ZMod P.q) • x).val = x.val ^ n := by
  rw [Nat.cast_smul_eq_nsmul, val_nsmul]
theorem val_pow_q (x : NatA P) : x.val ^ P.q = 1 := by
  rw [← val_nsmul, NatA.nsmul_q, val_zero]
theorem eq_neg_of_val_mul {x y : NatA P} (h : x.val * y.val = 1) : x = -y := by
  rw [eq_neg_iff_add_eq_zero]
  apply val_injective
  rw [val_add, h, val_zero]

end NatA

/-- the validity predicate on natural numbers: the class of `a` mod `p` has order dividing `q` -/
def natValid (P : Params) (a : ℕ) : Prop := (a : ZMod P.p) ^ P.q = 1

instance (P : Params) (a : ℕ) : Decidable (natValid P a) := by
  unfold natValid; infer_instance

/-- denotation of a natural number: its class mod `p` if that lies in the group, else `0` -/
def natDen (P : Params) (a : ℕ) : NatA P :=
  if h : P.q ≠ 0 ∧ natValid P a then
    Additive.ofMul ⟨Units.ofPowEqOne (a : ZMod P.p) P.q h.2 h.1,
      NatG.mem_iff.mpr (Units.pow_ofPowEqOne h.2 h.1)⟩
  else 0

theorem natDen_val {P : Params} (hq : P.q ≠ 0) {a : ℕ} (ha : natValid P a) :
    (natDen P a).val = (a : ZMod P.p) := by
  unfold natDen
  rw [dif_pos ⟨hq, ha⟩]
  rfl

theorem natValid_of_pow (P : Params) (a : ℕ) (ha : a ^ P.q % P.p = 1) : natValid P a := by
  unfold natValid
  have := congrArg (Nat.cast : ℕ → ZMod P.p) ha
  rwa [ZMod.natCast_mod, Nat.cast_pow, Nat.cast_one] at this

theorem natValid_one (P : Params) : natValid P 1 := by
  unfold natValid; rw [Nat.cast_one, one_pow]

theorem natValid_mul {P : Params} {a b : ℕ} (ha : natValid P a) (hb : natValid P b) :
    natValid P (a * b) := by
  unfold natValid at *
  rw [Nat.cast_mul, mul_pow, ha, hb, one_mul]

theorem natValid_mod {P : Params} {a : ℕ} (ha : natValid P a) : natValid P (a % P.p) := by
  unfold natValid at *
  rwa [ZMod.natCast_mod]

theorem natValid_powm {P : Params} {a : ℕ} (x : ℕ) (ha : natValid P a) :
    natValid P (powm a x P.p) := by
  unfold natValid at *
  rw [powm_eq, ZMod.natCast_mod, Nat.cast_pow, ← pow_mul, mul_comm, pow_mul, ha, one_pow]

theorem natCast_powm (a x m : ℕ) : ((powm a x m : ℕ) : ZMod m) = (a : ZMod m) ^ x := by
  rw [powm_eq, ZMod.natCast_mod, Nat.cast_pow]

theorem natCast_inj_of_lt {m a b : ℕ} (ha : a < m) (hb : b < m)
    (h : (a : ZMod m) = (b : ZMod m)) : a = b := by
  rw [ZMod.natCast_eq_natCast_iff'] at h
  rwa [Nat.mod_eq_of_lt ha, Nat.mod_eq_of_lt hb] at h

theorem natSubMod_cast (P : Params) {x y : ℕ} (_hx : x < P.q) (hy : y < P.q) :
    ((Nat'.subMod P x y : ℕ) : ZMod P.q) = (x : ZMod P.q) - (y : ZMod P.q) := by
  unfold Nat'.subMod
  split_ifs with hxy
  · rw [ZMod.natCast_mod, Nat.cast_sub (le_of_lt hxy)]
  · rw [ZMod.natCast_mod, Nat.cast_sub (by omega), Nat.cast_add, ZMod.natCast_self, add_zero]

/-- the `Nat` back-end satisfies the abstract specification -/
def natLawful (P : Params) (fl : Flavour) (h : SafePrimeGroup P) :
    Lawful (natOps P fl) P.q (NatA P) :=
  have hq0 : P.q ≠ 0 := h.q_prime.ne_zero
  have hp0 : 0 < P.p := h.p_prime.pos
  { den := natDen P
    dx := fun x => (x : ZMod P.q)
    valid := natValid P
    canon := fun a => a < P.p
    xcanon := fun x => x < P.q
    gen_valid := natValid_of_pow P P.g (by rw [← powm_eq]; exact h.g_order)
    gen_canon := h.g_lt
    ident_valid := natValid_one P
    ident_canon := h.p_prime.one_lt
    ident_den := by
      apply NatA.val_injective
      show (natDen P 1).val = _
      rw [natDen_val hq0 (natValid_one P), NatA.val_zero]
      exact Nat.cast_one
    gmodPow_eq := fun _ => rfl
    emodPow_valid := fun x ha => natValid_powm x ha
    emodPow_canon := fun x _ => by
      show powm _ x P.p < P.p
      rw [powm_eq]; exact Nat.mod_lt _ hp0
    emodPow_den := fun {a} x ha => by
      apply NatA.val_injective
      show (natDen P (powm a x P.p)).val = _
      rw [natDen_val hq0 (natValid_powm x ha), NatA.val_natCast_smul, natDen_val hq0 ha,
        natCast_powm]
    mul_valid := fun ha hb => natValid_mul ha hb
    mul_den := fun {a b} ha hb => by
      apply NatA.val_injective
      show (natDen P (a * b)).val = _
      rw [natDen_val hq0 (natValid_mul ha hb), NatA.val_add, natDen_val hq0 ha,
        natDen_val hq0 hb, Nat.cast_mul]
    modp_valid := fun ha => natValid_mod ha
    modp_canon := fun _ => Nat.mod_lt _ hp0
    modp_den := fun {a} ha => by
      apply NatA.val_injective
      show (natDen P (a % P.p)).val = _
      rw [natDen_val hq0 (natValid_mod ha), natDen_val hq0 ha, ZMod.natCast_mod]
    invp_valid := fun ha => natValid_powm _ ha
    invp_canon := fun _ => by
      show powm _ _ P.p < P.p
      rw [powm_eq]; exact Nat.mod_lt _ hp0
    invp_den := fun {a} ha => by
      apply NatA.eq_neg_of_val_mul
      show (natDen P (powm a (P.p - 2) P.p)).val * _ = 1
      rw [natDen_val hq0 (natValid_powm _ ha), natDen_val hq0 ha, natCast_powm, ← pow_succ]
      have hq1 : 1 ≤ P.q := h.q_prime.pos
      have he : P.p - 2 + 1 = P.q * 2 := by have := h.p_eq; omega
      rw [he, pow_mul]
      have : (a : ZMod P.p) ^ P.q = 1 := ha
      rw [this, one_pow]
    den_inj := fun {a b} ha hb ca cb hab => by
      have := congrArg NatA.val hab
      rw [natDen_val hq0 ha, natDen_val hq0 hb] at this
      exact natCast_inj_of_lt ca cb this
    zeroX_dx := Nat.cast_zero
    oneX_dx := Nat.cast_one
    xadd_dx := fun x y => Nat.cast_add x y
    xmul_dx := fun x y => Nat.cast_mul x y
    modq_dx := fun x => ZMod.natCast_mod x P.q
    modq_xcanon := fun x => Nat.mod_lt x h.q_prime.pos
    dx_inj := fun hx hy hxy => natCast_inj_of_lt hx hy hxy
    fromU64_dx := fun _ => rfl
    fromU64_xcanon := fun _ hn => hn
    subMod_dx := fun hx hy => natSubMod_cast P hx hy
    invq_dx := fun {x} hx => by
      have : Fact P.q.Prime := ⟨h.q_prime⟩
      show ((powm x (P.q - 2) P.q : ℕ) : ZMod P.q) * (x : ZMod P.q) = 1
      rw [natCast_powm, ← pow_succ]
      have he : P.q - 2 + 1 = P.q - 1 := by have := h.q_prime.two_le; omega
      rw [he]
      exact ZMod.pow_card_sub_one_eq_one hx }

section
variable {P : Params} {fl : Flavour} {h : SafePrimeGroup P}

theorem natLawful_valid_iff {a : ℕ} :
    (natLawful P fl h).valid a ↔ (a : ZMod P.p) ^ P.q = 1 := Iff.rfl

theorem natLawful_valid_of_pow (P : Params) {fl : Flavour} (h : SafePrimeGroup P) (a : ℕ)
    (ha : a ^ P.q % P.p = 1) : (natLawful P fl h).valid a := natValid_of_pow P a ha

theorem natLawful_canon_iff {a : ℕ} : (natLawful P fl h).canon a ↔ a < P.p := Iff.rfl

theorem natLawful_xcanon_iff {x : ℕ} : (natLawful P fl h).xcanon x ↔ x < P.q := Iff.rfl

theorem natLawful_dx {x : ℕ} : (natLawful P fl h).dx x = (x : ZMod P.q) := rfl

theorem natLawful_den {a : ℕ} : (natLawful P fl h).den a = natDen P a := rfl

/-- the residue class of a valid element's denotation is the element itself mod `p` -/
theorem natLawful_den_val {a : ℕ} (ha : (natLawful P fl h).valid a) :
    ((natLawful P fl h).den a).val = (a : ZMod P.p) :=
  natDen_val h.q_prime.ne_zero ha

end

/-- non-vacuity: `p = 23`, `q = 11`, `g = 2` -/
example : SafePrimeGroup ⟨23, 11, 2, 2⟩ where
  p_prime := by norm_num
  q_prime := by norm_num
  p_eq := by norm_num
  g_gt := by norm_num
  g_lt := by norm_num
  g_order := by decide

end Strand
