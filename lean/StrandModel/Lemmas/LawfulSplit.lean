import Mathlib.FieldTheory.Finite.Basic
import StrandModel.Lemmas.Lawful
import StrandModel.Lemmas.NatLawful
import StrandModel.Lemmas.PrattCerts
import StrandModel.Model.Ristretto
/-
`Lawful o q A` split into its exponent-ring half `LawfulExp o q` (no group, no curve theory)
and its group half `LawfulGrp o q A dx`.  The exponent half is PROVED for the Ristretto model
(`ristrettoLawfulExp`), including the primality of ℓ (Pratt certificate, `R255.ell_prime`),
so that for Ristretto only `LawfulGrp` remains a hypothesis (`ristretto_reduction`).
`not_lawful_old_modq` records why `ristrettoOps.modq` must reduce.
-/
namespace Strand

/-- the exponent-ring half of `Lawful` -/
structure LawfulExp {E X : Type} (o : Ops E X) (q : ℕ) where
  dx : X → ZMod q
  xcanon : X → Prop
  zeroX_dx : dx o.zeroX = 0
  oneX_dx : dx o.oneX = 1
  xadd_dx : ∀ x y, dx (o.xadd x y) = dx x + dx y
  xmul_dx : ∀ x y, dx (o.xmul x y) = dx x * dx y
  modq_dx : ∀ x, dx (o.modq x) = dx x
  modq_xcanon : ∀ x, xcanon (o.modq x)
  dx_inj : ∀ {x y}, xcanon x → xcanon y → dx x = dx y → x = y
  fromU64_dx : ∀ n : ℕ, dx (o.fromU64 n) = (n : ZMod q)
  fromU64_xcanon : ∀ n : ℕ, n < q → xcanon (o.fromU64 n)
  subMod_dx : ∀ {x y}, xcanon x → xcanon y → dx (o.subMod x y) = dx x - dx y
  invq_dx : ∀ {x}, dx x ≠ 0 → dx (o.invq x) * dx x = 1

/-- the group half of `Lawful`, relative to a denotation `dx` of the exponents -/
structure LawfulGrp {E X : Type} (o : Ops E X) (q : ℕ) (A : Type) [AddCommGroup A]
    [Module (ZMod q) A] (dx : X → ZMod q) where
  den : E → A
  valid : E → Prop
  canon : E → Prop
  gen_valid : valid o.generator
  gen_canon : canon o.generator
  ident_valid : valid o.identE
  ident_canon : canon o.identE
  ident_den : den o.identE = 0
  gmodPow_eq : ∀ x, o.gmodPow x = o.emodPow o.generator x
  emodPow_valid : ∀ {a} x, valid a → valid (o.emodPow a x)
  emodPow_canon : ∀ {a} x, valid a → canon (o.emodPow a x)
  emodPow_den : ∀ {a} x, valid a → den (o.emodPow a x) = dx x • den a
  mul_valid : ∀ {a b}, valid a → valid b → valid (o.mul a b)
  mul_den : ∀ {a b}, valid a → valid b → den (o.mul a b) = den a + den b
  modp_valid : ∀ {a}, valid a → valid (o.modp a)
  modp_canon : ∀ {a}, valid a → canon (o.modp a)
  modp_den : ∀ {a}, valid a → den (o.modp a) = den a
  invp_valid : ∀ {a}, valid a → valid (o.invp a)
  invp_canon : ∀ {a}, valid a → canon (o.invp a)
  invp_den : ∀ {a}, valid a → den (o.invp a) = - den a
  den_inj : ∀ {a b}, valid a → valid b → canon a → canon b → den a = den b → a = b

namespace Lawful
variable {E X : Type} {o : Ops E X} {q : ℕ} {A : Type} [AddCommGroup A] [Module (ZMod q) A]

/-- the two halves make a `Lawful` -/
def ofParts (Xp : LawfulExp o q) (G : LawfulGrp o q A Xp.dx) : Lawful o q A where
  den := G.den
  dx := Xp.dx
  valid := G.valid
  canon := G.canon
  xcanon := Xp.xcanon
  gen_valid := G.gen_valid
  gen_canon := G.gen_canon
  ident_valid := G.ident_valid
  ident_canon := G.ident_canon
  ident_den := G.ident_den
  gmodPow_eq := G.gmodPow_eq
  emodPow_valid := G.emodPow_valid
  emodPow_canon := G.emodPow_canon
  emodPow_den := G.emodPow_den
  mul_valid := G.mul_valid
  mul_den := G.mul_den
  modp_valid := G.modp_valid
  modp_canon := G.modp_canon
  modp_den := G.modp_den
  invp_valid := G.invp_valid
  invp_canon := G.invp_canon
  invp_den := G.invp_den
  den_inj := G.den_inj
  zeroX_dx := Xp.zeroX_dx
  oneX_dx := Xp.oneX_dx
  xadd_dx := Xp.xadd_dx
  xmul_dx := Xp.xmul_dx
  modq_dx := Xp.modq_dx
  modq_xcanon := Xp.modq_xcanon
  dx_inj := Xp.dx_inj
  fromU64_dx := Xp.fromU64_dx
  fromU64_xcanon := Xp.fromU64_xcanon
  subMod_dx := Xp.subMod_dx
  invq_dx := Xp.invq_dx

/-- exponent half of a `Lawful` -/
def toExp (L : Lawful o q A) : LawfulExp o q where
  dx := L.dx
  xcanon := L.xcanon
  zeroX_dx := L.zeroX_dx
  oneX_dx := L.oneX_dx
  xadd_dx := L.xadd_dx
  xmul_dx := L.xmul_dx
  modq_dx := L.modq_dx
  modq_xcanon := L.modq_xcanon
  dx_inj := L.dx_inj
  fromU64_dx := L.fromU64_dx
  fromU64_xcanon := L.fromU64_xcanon
  subMod_dx := L.subMod_dx
  invq_dx := L.invq_dx

/-- group half of a `Lawful` -/
def toGrp (L : Lawful o q A) : LawfulGrp o q A L.dx where
  den := L.den
  valid := L.valid
  canon := L.canon
  gen_valid := L.gen_valid
  gen_canon := L.gen_canon
  ident_valid := L.ident_valid
  ident_canon := L.ident_canon
  ident_den := L.ident_den
  gmodPow_eq := L.gmodPow_eq
  emodPow_valid := L.emodPow_valid
  emodPow_canon := L.emodPow_canon
  emodPow_den := L.emodPow_den
  mul_valid := L.mul_valid
  mul_den := L.mul_den
  modp_valid := L.modp_valid
  modp_canon := L.modp_canon
  modp_den := L.modp_den
  invp_valid := L.invp_valid
  invp_canon := L.invp_canon
  invp_den := L.invp_den
  den_inj := L.den_inj

@[simp] theorem toExp_dx (L : Lawful o q A) : L.toExp.dx = L.dx := rfl

/-- splitting and re-assembling is the identity -/
theorem ofParts_toExp_toGrp (L : Lawful o q A) : ofParts L.toExp L.toGrp = L := rfl

theorem toExp_ofParts (Xp : LawfulExp o q) (G : LawfulGrp o q A Xp.dx) :
    (ofParts Xp G).toExp = Xp := rfl

theorem toGrp_ofParts (Xp : LawfulExp o q) (G : LawfulGrp o q A Xp.dx) :
    (ofParts Xp G).toGrp = G := rfl

/-- a `Lawful` is exactly a pair of the two halves -/
def equivParts : Lawful o q A ≃ (Xp : LawfulExp o q) × LawfulGrp o q A Xp.dx where
  toFun L := ⟨L.toExp, L.toGrp⟩
  invFun P := ofParts P.1 P.2
  left_inv _ := rfl
  right_inv _ := rfl

end Lawful

/-! ### the scalar field of Ristretto -/
namespace R255

theorem ell_pos : 0 < ell := by decide
theorem one_lt_ell : 1 < ell := by decide +kernel

/-- the model's square-and-multiply (modulus fixed to ℓ) is the generic `powmAux` -/
theorem spowAux_eq_powmAux (fuel : ℕ) : ∀ a e acc : ℕ,
    spowAux fuel a e acc = powmAux fuel a e ell acc := by
  induction fuel with
  | zero => intro a e acc; rfl
  | succ fuel ih =>
    intro a e acc
    unfold spowAux powmAux
    by_cases h0 : e = 0
    · simp only [h0, if_true]
    · simp only [h0, if_false]
      exact ih _ _ _

theorem ell_sub_two_lt : ell - 2 < 2 ^ 253 := by decide +kernel

/-- `Scalar::invert` computes `x^(ℓ-2) mod ℓ` -/
theorem scalarInvert_eq (x : ℕ) : scalarInvert x = x ^ (ell - 2) % ell := by
  unfold scalarInvert
  rw [spowAux_eq_powmAux, powmAux_eq 253 _ _ _ _ ell_sub_two_lt (Nat.mod_eq_of_lt one_lt_ell),
    one_mul, Nat.pow_mod, Nat.mod_mod, ← Nat.pow_mod]

attribute [local irreducible] scalarInvert

/-- ℓ is prime (Pratt certificate in `Lemmas/PrattCerts.lean`; no `native_decide`) -/
theorem ell_prime : Nat.Prime ell :=
  PrattCerts.prime_7237005577332262213973186563042994240857116359379907606001950938285454250989

theorem ssub_cast {x y : ℕ} : ((ssub x y : ℕ) : ZMod ell) = (x : ZMod ell) - (y : ZMod ell) := by
  unfold ssub
  have hy : y % ell ≤ ell := (Nat.mod_lt y ell_pos).le
  have hy' : y % ell ≤ x % ell + ell := le_trans hy (Nat.le_add_left _ _)
  rw [ZMod.natCast_mod, Nat.cast_sub hy', Nat.cast_add, ZMod.natCast_self, add_zero,
    ZMod.natCast_mod, ZMod.natCast_mod]

theorem scalarInvert_cast (x : ℕ) :
    ((scalarInvert x : ℕ) : ZMod ell) = (x : ZMod ell) ^ (ell - 2) := by
  rw [scalarInvert_eq, ZMod.natCast_mod, Nat.cast_pow]

theorem scalarInvert_mul_cast {x : ℕ} (hx : (x : ZMod ell) ≠ 0) :
    ((scalarInvert x : ℕ) : ZMod ell) * (x : ZMod ell) = 1 := by
  have : Fact ell.Prime := ⟨ell_prime⟩
  rw [scalarInvert_cast, ← pow_succ]
  have he : ell - 2 + 1 = ell - 1 := by have := ell_prime.two_le; omega
  rw [he]
  exact ZMod.pow_card_sub_one_eq_one hx

end R255

attribute [local irreducible] R255.scalarInvert

open R255 in
/-- the exponent-ring half of `Lawful` holds for the Ristretto model: scalars are `Nat`s
    denoting their class mod ℓ; canonical = reduced.  No hypothesis: the primality of ℓ is
    proved (`R255.ell_prime`). -/
def ristrettoLawfulExp : LawfulExp ristrettoOps R255.ell where
  dx := fun x => (x : ZMod R255.ell)
  xcanon := fun x => x < R255.ell
  zeroX_dx := Nat.cast_zero
  oneX_dx := Nat.cast_one
  xadd_dx := fun x y => by
    show (((x + y) % ell : ℕ) : ZMod ell) = _
    rw [ZMod.natCast_mod, Nat.cast_add]
  xmul_dx := fun x y => by
    show ((x * y % ell : ℕ) : ZMod ell) = _
    rw [ZMod.natCast_mod, Nat.cast_mul]
  modq_dx := fun x => ZMod.natCast_mod x ell
  modq_xcanon := fun x => Nat.mod_lt x ell_pos
  dx_inj := fun hx hy hxy => natCast_inj_of_lt hx hy hxy
  fromU64_dx := fun n => ZMod.natCast_mod n ell
  fromU64_xcanon := fun n _ => Nat.mod_lt n ell_pos
  subMod_dx := fun _ _ => ssub_cast
  invq_dx := fun {x} hx => scalarInvert_mul_cast hx

@[simp] theorem ristrettoLawfulExp_dx (x : ℕ) :
    ristrettoLawfulExp.dx x = (x : ZMod R255.ell) := rfl
theorem ristrettoLawfulExp_xcanon_iff (x : ℕ) :
    ristrettoLawfulExp.xcanon x ↔ x < R255.ell := Iff.rfl

open R255 in
/-- beyond the record: every scalar operation returns a reduced scalar, `xsub` is subtraction,
    and `subMod_dx` needs no canonicity of its arguments -/
theorem ristretto_exp_outputs_canon :
    (∀ x y, ristrettoOps.xadd x y < ell) ∧ (∀ x y, ristrettoOps.xmul x y < ell) ∧
    (∀ x y, ristrettoOps.subMod x y < ell) ∧ (∀ x y, ristrettoOps.xsub x y < ell) ∧
    (∀ x, ristrettoOps.invq x < ell) ∧ (∀ n, ristrettoOps.fromU64 n < ell) ∧
    (∀ x y, ((ristrettoOps.xsub x y : ℕ) : ZMod ell) = (x : ZMod ell) - (y : ZMod ell)) ∧
    (∀ x, x < ell → ristrettoOps.modq x = x) := by
  refine ⟨fun x y => Nat.mod_lt _ ell_pos, fun x y => Nat.mod_lt _ ell_pos,
    fun x y => Nat.mod_lt _ ell_pos, fun x y => Nat.mod_lt _ ell_pos, ?_,
    fun n => Nat.mod_lt n ell_pos, fun _ _ => ssub_cast, fun x hx => Nat.mod_eq_of_lt hx⟩
  intro x
  show scalarInvert x < ell
  rw [scalarInvert_eq]; exact Nat.mod_lt _ ell_pos

/-- for Ristretto only the curve-group half of `Lawful` is an assumption -/
theorem ristretto_reduction {A : Type} [AddCommGroup A] [Module (ZMod R255.ell) A]
    (G : LawfulGrp ristrettoOps R255.ell A ristrettoLawfulExp.dx) :
    Nonempty (Lawful ristrettoOps R255.ell A) :=
  ⟨Lawful.ofParts ristrettoLawfulExp G⟩

/-- ... and the resulting `Lawful` has the proved exponent half and the given group half -/
theorem ristretto_reduction_spec {A : Type} [AddCommGroup A] [Module (ZMod R255.ell) A]
    (G : LawfulGrp ristrettoOps R255.ell A ristrettoLawfulExp.dx) :
    ∃ L : Lawful ristrettoOps R255.ell A, L.toExp = ristrettoLawfulExp ∧ L.den = G.den ∧
      L.valid = G.valid ∧ L.canon = G.canon :=
  ⟨Lawful.ofParts ristrettoLawfulExp G, rfl, rfl, rfl, rfl⟩

/-! ### the lesson, kept machine-checked: with the OLD `modq` the hypothesis was unsatisfiable

Until the repair, `ristrettoOps.modq` was the identity on `X = ℕ` (faithful to the Rust, where
`Exponent::modq` is the identity on an always-reduced `Scalar`, but not on the model's carrier
`ℕ`).  Then `modq_xcanon` forces `xcanon x` for EVERY natural number `x`, and `dx_inj` makes
`dx : ℕ → ZMod ℓ` injective — impossible, `ZMod ℓ` is finite.  Concretely (`dx = Nat.cast`):
`0` and `ℓ` are both `modq` outputs, `dx 0 = dx ℓ`, `0 ≠ ℓ`.  No choice of `dx`, `xcanon`
helps, so `Lawful (old ristrettoOps) ℓ A` was false for every `A` and every theorem assuming it
was vacuous.  The argument uses nothing but `modq = id`, an infinite carrier and `q ≠ 0`
(`not_lawfulExp_of_modq_id`). -/

/-- generic form: an infinite exponent carrier with `modq = id` admits no `LawfulExp` -/
theorem not_lawfulExp_of_modq_id {E X : Type} [Infinite X] {o : Ops E X} {q : ℕ} [NeZero q]
    (hmodq : ∀ x, o.modq x = x) (Xp : LawfulExp o q) : False := by
  have hc : ∀ x, Xp.xcanon x := fun x => hmodq x ▸ Xp.modq_xcanon x
  have hinj : Function.Injective Xp.dx := fun x y h => Xp.dx_inj (hc x) (hc y) h
  have : Finite X := Finite.of_injective Xp.dx hinj
  exact not_finite X

/-- `ristrettoOps` as it was before the repair: `modq` the identity -/
def ristrettoOpsOldModq : Ops Nat Nat := { ristrettoOps with modq := fun x => x }

theorem not_lawfulExp_old_modq (Xp : LawfulExp ristrettoOpsOldModq R255.ell) : False :=
  have : NeZero R255.ell := ⟨R255.ell_pos.ne'⟩
  not_lawfulExp_of_modq_id (fun _ => rfl) Xp

theorem not_lawful_old_modq {A : Type} [AddCommGroup A] [Module (ZMod R255.ell) A]
    (L : Lawful ristrettoOpsOldModq R255.ell A) : False :=
  not_lawfulExp_old_modq L.toExp

/-- the old and the repaired `modq` agree on reduced scalars (all that the Rust can produce) -/
theorem ristrettoOpsOldModq_modq_of_lt {x : ℕ} (hx : x < R255.ell) :
    ristrettoOpsOldModq.modq x = ristrettoOps.modq x := (Nat.mod_eq_of_lt hx).symm

/-- sanity check of the split on the multiplicative back-ends: their exponent half -/
def natLawfulExp (P : Params) (fl : Flavour) (h : SafePrimeGroup P) :
    LawfulExp (natOps P fl) P.q := (natLawful P fl h).toExp

/-- the exponent half of the `Nat` back-ends needs only `q` prime (not `p`, not `g`) -/
def natLawfulExp_of_prime (P : Params) (fl : Flavour) (hq : Nat.Prime P.q) :
    LawfulExp (natOps P fl) P.q where
  dx := fun x => (x : ZMod P.q)
  xcanon := fun x => x < P.q
  zeroX_dx := Nat.cast_zero
  oneX_dx := Nat.cast_one
  xadd_dx := fun x y => Nat.cast_add x y
  xmul_dx := fun x y => Nat.cast_mul x y
  modq_dx := fun x => ZMod.natCast_mod x P.q
  modq_xcanon := fun x => Nat.mod_lt x hq.pos
  dx_inj := fun hx hy hxy => natCast_inj_of_lt hx hy hxy
  fromU64_dx := fun _ => rfl
  fromU64_xcanon := fun _ hn => hn
  subMod_dx := fun hx hy => natSubMod_cast P hx hy
  invq_dx := fun {x} hx => by
    have : Fact P.q.Prime := ⟨hq⟩
    show ((powm x (P.q - 2) P.q : ℕ) : ZMod P.q) * (x : ZMod P.q) = 1
    rw [natCast_powm, ← pow_succ]
    have he : P.q - 2 + 1 = P.q - 1 := by have := hq.two_le; omega
    rw [he]
    exact ZMod.pow_card_sub_one_eq_one hx

end Strand
