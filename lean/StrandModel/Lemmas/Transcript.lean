import StrandModel.Lemmas.CodecWire
import StrandModel.Model.Shuffle
/-
The Fiat–Shamir transcripts of the model, as byte strings.

* `bytesLt` is a strict total order; `mapOfList` (HashMap insertion followed by borsh's
  sort-by-key) yields the key-sorted permutation of its entries, hence does not depend on the
  insertion order (`mapOfList_eq_of_perm`).
* `encSortedMap` is injective on maps whose keys/values/size fit a `u32` (it is the `Vec<(Vec<u8>,
  Vec<u8>)>` codec), hence `encMap` over a FIXED list of distinct keys is injective in the list
  of values (`encMap_zip_injective`).
* instances: `schnorrBytes`, `cpBytes`, `ctxLabel`, `ctxMhr`, `usPrefixBytes`, `usInput`,
  `shuffleChallengeBytes` are injective in every item (`…_injective`), first at the level of the
  serialised items, then — through lawful codecs — at the level of the items themselves.
* the counter: `u64le` is injective below `2^64`.
* `natOfLE` / `natOfBE` are injective on byte strings of one length (no digest byte is dropped
  by `hash_to_exp` of the `Nat` back-ends before the reduction mod `q`).
Core Lean only.
-/
namespace Strand

/-! ### `bytesLt` is a strict total order -/

theorem bytesLt_cons_iff (a b : UInt8) (as bs : Bytes) :
    bytesLt (a :: as) (b :: bs) = true ↔
      a.toNat < b.toNat ∨ (a.toNat = b.toNat ∧ bytesLt as bs = true) := by
  rw [bytesLt]
  by_cases h1 : a < b
  · rw [if_pos h1]
    have := UInt8.lt_iff_toNat_lt.1 h1
    exact ⟨fun _ => Or.inl this, fun _ => rfl⟩
  · rw [if_neg h1]
    have n1 : ¬ a.toNat < b.toNat := fun h => h1 (UInt8.lt_iff_toNat_lt.2 h)
    by_cases h2 : b < a
    · rw [if_pos h2]
      have := UInt8.lt_iff_toNat_lt.1 h2
      constructor
      · intro h; cases h
      · rintro (h | ⟨h, _⟩) <;> omega
    · rw [if_neg h2]
      have n2 : ¬ b.toNat < a.toNat := fun h => h2 (UInt8.lt_iff_toNat_lt.2 h)
      constructor
      · intro h; exact Or.inr ⟨by omega, h⟩
      · rintro (h | ⟨_, h⟩)
        · omega
        · exact h

theorem bytesLt_irrefl : ∀ a : Bytes, bytesLt a a = false
  | [] => rfl
  | a :: as => by
    cases h : bytesLt (a :: as) (a :: as) with
    | false => rfl
    | true =>
      rcases (bytesLt_cons_iff a a as as).1 h with h' | ⟨_, h'⟩
      · omega
      · rw [bytesLt_irrefl as] at h'; cases h'

theorem bytesLt_trans : ∀ {a b c : Bytes}, bytesLt a b = true → bytesLt b c = true →
    bytesLt a c = true
  | [], [], _, h, _ => by cases h
  | [], _ :: _, [], _, h => by cases h
  | [], _ :: _, _ :: _, _, _ => rfl
  | _ :: _, [], _, h, _ => by cases h
  | _ :: _, _ :: _, [], _, h => by cases h
  | a :: as, b :: bs, c :: cs, h1, h2 => by
    rw [bytesLt_cons_iff] at h1 h2 ⊢
    rcases h1 with h1 | ⟨e1, h1⟩
    · rcases h2 with h2 | ⟨e2, _⟩
      · exact Or.inl (by omega)
      · exact Or.inl (by omega)
    · rcases h2 with h2 | ⟨e2, h2⟩
      · exact Or.inl (by omega)
      · exact Or.inr ⟨by omega, bytesLt_trans h1 h2⟩

theorem bytesLt_asymm {a b : Bytes} (h : bytesLt a b = true) : bytesLt b a = false := by
  cases h' : bytesLt b a with
  | false => rfl
  | true =>
    have := bytesLt_trans h h'
    rw [bytesLt_irrefl] at this; cases this

/-- trichotomy -/
theorem bytesLt_total : ∀ a b : Bytes, bytesLt a b = true ∨ a = b ∨ bytesLt b a = true
  | [], [] => Or.inr (Or.inl rfl)
  | [], _ :: _ => Or.inl rfl
  | _ :: _, [] => Or.inr (Or.inr rfl)
  | a :: as, b :: bs => by
    rw [bytesLt_cons_iff, bytesLt_cons_iff]
    rcases Nat.lt_trichotomy a.toNat b.toNat with h | h | h
    · exact Or.inl (Or.inl h)
    · have hab : a = b := UInt8.toNat_inj.1 h
      rcases bytesLt_total as bs with h' | h' | h'
      · exact Or.inl (Or.inr ⟨h, h'⟩)
      · exact Or.inr (Or.inl (by rw [hab, h']))
      · exact Or.inr (Or.inr (Or.inr ⟨h.symm, h'⟩))
    · exact Or.inr (Or.inr (Or.inl h))

theorem eq_of_not_bytesLt {a b : Bytes} (h1 : bytesLt a b = false) (h2 : bytesLt b a = false) :
    a = b := by
  rcases bytesLt_total a b with h | h | h
  · rw [h1] at h; cases h
  · exact h
  · rw [h2] at h; cases h

theorem bytesLt_ne {a b : Bytes} (h : bytesLt a b = true) : a ≠ b := by
  rintro rfl
  rw [bytesLt_irrefl] at h; cases h

/-! ### `mapInsert`, `mapOfList` -/

/-- strictly ascending keys -/
def KeysSorted (m : List (Bytes × Bytes)) : Prop :=
  m.Pairwise fun a b => bytesLt a.1 b.1 = true

theorem mapInsert_mem {k v : Bytes} : ∀ {m : List (Bytes × Bytes)} {x : Bytes × Bytes},
    x ∈ mapInsert k v m → x = (k, v) ∨ x ∈ m
  | [], x, h => by
    simp only [mapInsert, List.mem_singleton] at h
    exact Or.inl h
  | (k', v') :: rest, x, h => by
    rw [mapInsert] at h
    split at h
    · rcases List.mem_cons.1 h with h | h
      · exact Or.inl h
      · exact Or.inr h
    · split at h
      · rcases List.mem_cons.1 h with h | h
        · exact Or.inr (h ▸ List.mem_cons_self ..)
        · rcases mapInsert_mem h with h | h
          · exact Or.inl h
          · exact Or.inr (List.mem_cons_of_mem _ h)
      · rcases List.mem_cons.1 h with h | h
        · exact Or.inl h
        · exact Or.inr (List.mem_cons_of_mem _ h)

theorem mapInsert_keysSorted {k v : Bytes} : ∀ {m : List (Bytes × Bytes)},
    KeysSorted m → KeysSorted (mapInsert k v m)
  | [], _ => by simp [mapInsert, KeysSorted]
  | (k', v') :: rest, h => by
    obtain ⟨h1, h2⟩ := List.pairwise_cons.1 h
    rw [mapInsert]
    split
    · next hlt =>
      refine List.pairwise_cons.2 ⟨?_, h⟩
      intro x hx
      rcases List.mem_cons.1 hx with rfl | hx
      · exact hlt
      · exact bytesLt_trans hlt (h1 x hx)
    · next hnlt =>
      split
      · next hgt =>
        refine List.pairwise_cons.2 ⟨?_, mapInsert_keysSorted h2⟩
        intro x hx
        rcases mapInsert_mem hx with rfl | hx
        · exact hgt
        · exact h1 x hx
      · next hngt =>
        have hk : k = k' := eq_of_not_bytesLt (by simpa using hnlt) (by simpa using hngt)
        subst hk
        exact List.pairwise_cons.2 ⟨h1, h2⟩

/-- inserting a fresh key adds exactly that entry -/
theorem mapInsert_perm {k v : Bytes} : ∀ {m : List (Bytes × Bytes)}, (∀ x ∈ m, x.1 ≠ k) →
    (mapInsert k v m).Perm ((k, v) :: m)
  | [], _ => List.Perm.refl _
  | (k', v') :: rest, h => by
    rw [mapInsert]
    split
    · exact List.Perm.refl _
    · next hnlt =>
      split
      · exact ((mapInsert_perm (fun x hx => h x (List.mem_cons_of_mem _ hx))).cons _).trans
          (List.Perm.swap ..)
      · next hngt =>
        have hk : k = k' := eq_of_not_bytesLt (by simpa using hnlt) (by simpa using hngt)
        exact absurd hk.symm (h (k', v') (List.mem_cons_self ..))

/-- inserting a present key overwrites: the key set is unchanged -/
theorem mapInsert_keys_of_mem {k v : Bytes} : ∀ {m : List (Bytes × Bytes)}, KeysSorted m →
    k ∈ m.map Prod.fst → (mapInsert k v m).map Prod.fst = m.map Prod.fst
  | [], _, h => by cases h
  | (k', v') :: rest, hs, h => by
    obtain ⟨h1, h2⟩ := List.pairwise_cons.1 hs
    rw [mapInsert]
    split
    · next hlt =>
      exfalso
      rcases List.mem_cons.1 h with h | h
      · exact bytesLt_ne hlt h
      · obtain ⟨x, hx, rfl⟩ := List.mem_map.1 h
        have := bytesLt_trans hlt (h1 x hx)
        rw [bytesLt_irrefl] at this; cases this
    · next hnlt =>
      split
      · next hgt =>
        rcases List.mem_cons.1 h with h | h
        · exact absurd h.symm (bytesLt_ne hgt)
        · simp only [List.map_cons, mapInsert_keys_of_mem h2 h]
      · next hngt =>
        have hk : k = k' := eq_of_not_bytesLt (by simpa using hnlt) (by simpa using hngt)
        simp [hk]

theorem foldl_mapInsert_keysSorted : ∀ (es m : List (Bytes × Bytes)), KeysSorted m →
    KeysSorted (es.foldl (fun m (k, v) => mapInsert k v m) m)
  | [], _, h => h
  | (k, v) :: es, m, h => by
    rw [List.foldl_cons]
    exact foldl_mapInsert_keysSorted es _ (mapInsert_keysSorted h)

theorem foldl_mapInsert_perm : ∀ (es m : List (Bytes × Bytes)),
    (∀ x ∈ m, ∀ e ∈ es, x.1 ≠ e.1) → (es.map Prod.fst).Nodup →
    (es.foldl (fun m (k, v) => mapInsert k v m) m).Perm (m ++ es)
  | [], m, _, _ => by simp
  | (k, v) :: es, m, hd, hn => by
    rw [List.foldl_cons]
    rw [List.map_cons, List.nodup_cons] at hn
    have h1 : (mapInsert k v m).Perm ((k, v) :: m) :=
      mapInsert_perm (fun x hx => hd x hx (k, v) (List.mem_cons_self ..))
    refine (foldl_mapInsert_perm es (mapInsert k v m) ?_ hn.2).trans ?_
    · intro x hx e he
      rcases mapInsert_mem hx with rfl | hx
      · intro hke
        exact hn.1 (hke ▸ List.mem_map_of_mem (f := Prod.fst) he)
      · exact hd x hx e (List.mem_cons_of_mem _ he)
    · exact (h1.append_right es).trans List.perm_middle.symm

/-- whatever is inserted, in whatever order: the result has strictly ascending keys -/
theorem mapOfList_keysSorted (es : List (Bytes × Bytes)) : KeysSorted (mapOfList es) :=
  foldl_mapInsert_keysSorted es [] List.Pairwise.nil

/-- with pairwise distinct keys nothing is overwritten: the result is a permutation of the
    entries -/
theorem mapOfList_perm {es : List (Bytes × Bytes)} (h : (es.map Prod.fst).Nodup) :
    (mapOfList es).Perm es := by
  have := foldl_mapInsert_perm es [] (fun x hx => by cases hx) h
  rwa [List.nil_append] at this

/-- two key-sorted permutations of each other are equal -/
theorem keysSorted_perm_eq {m m' : List (Bytes × Bytes)} (h : KeysSorted m) (h' : KeysSorted m')
    (hp : m.Perm m') : m = m' :=
  List.Perm.eq_of_pairwise (le := fun (a b : Bytes × Bytes) => bytesLt a.1 b.1 = true)
    (fun a b _ _ h1 h2 => by rw [bytesLt_asymm h1] at h2; cases h2) h h' hp

/-- **independence of the insertion (hash-map iteration) order** -/
theorem mapOfList_eq_of_perm {es es' : List (Bytes × Bytes)} (h : (es.map Prod.fst).Nodup)
    (hp : es.Perm es') : mapOfList es = mapOfList es' := by
  have h' : (es'.map Prod.fst).Nodup := (hp.map Prod.fst).nodup_iff.1 h
  exact keysSorted_perm_eq (mapOfList_keysSorted es) (mapOfList_keysSorted es')
    (((mapOfList_perm h).trans hp).trans (mapOfList_perm h').symm)

theorem encMap_eq_of_perm {es es' : List (Bytes × Bytes)} (h : (es.map Prod.fst).Nodup)
    (hp : es.Perm es') : encMap es = encMap es' := by
  rw [encMap, encMap, mapOfList_eq_of_perm h hp]

/-- `mapOfList` is THE key-sorted permutation of the entries -/
theorem mapOfList_unique {es m : List (Bytes × Bytes)} (h : (es.map Prod.fst).Nodup)
    (hm : KeysSorted m) (hp : m.Perm es) : mapOfList es = m :=
  keysSorted_perm_eq (mapOfList_keysSorted es) hm ((mapOfList_perm h).trans hp.symm)

/-! ### `encSortedMap` is injective -/

/-- fits a borsh `u32` length prefix -/
def Short (bs : Bytes) : Prop := bs.length < 2 ^ 32

def AllShort (l : List Bytes) : Prop := ∀ b ∈ l, Short b

/-- keys, values and the number of entries fit `u32` -/
def ShortMap (m : List (Bytes × Bytes)) : Prop :=
  (∀ x ∈ m, Short x.1 ∧ Short x.2) ∧ m.length < 2 ^ 32

theorem encSortedMap_eq_vecOf (m : List (Bytes × Bytes)) :
    encSortedMap m = (vecOf (pair bytesVec bytesVec)).enc m := rfl

theorem encSortedMap_injective {m m' : List (Bytes × Bytes)} (hm : ShortMap m) (hm' : ShortMap m')
    (h : encSortedMap m = encSortedMap m') : m = m' :=
  (vecOf_lawful (pair_lawful bytesVec_lawful bytesVec_lawful)).enc_injective hm hm' h

theorem ShortMap.of_perm {m m' : List (Bytes × Bytes)} (h : ShortMap m) (hp : m'.Perm m) :
    ShortMap m' :=
  ⟨fun x hx => h.1 x (hp.mem_iff.1 hx), by rw [hp.length_eq]; exact h.2⟩

/-- equal encodings of two maps with distinct keys: the same entries -/
theorem encMap_injective {es es' : List (Bytes × Bytes)} (hk : (es.map Prod.fst).Nodup)
    (hk' : (es'.map Prod.fst).Nodup) (hs : ShortMap es) (hs' : ShortMap es')
    (h : encMap es = encMap es') : es.Perm es' := by
  have h1 := mapOfList_perm hk
  have h2 := mapOfList_perm hk'
  have := encSortedMap_injective (hs.of_perm h1) (hs'.of_perm h2) h
  exact (h1.symm.trans (this ▸ List.Perm.refl _)).trans h2

theorem zip_perm_zip_injective : ∀ {ks vs vs' : List Bytes}, ks.Nodup → vs.length = ks.length →
    vs'.length = ks.length → (ks.zip vs).Perm (ks.zip vs') → vs = vs'
  | [], [], [], _, _, _, _ => rfl
  | [], _ :: _, _, _, h, _, _ => by simp at h
  | [], _, _ :: _, _, _, h, _ => by simp at h
  | _ :: _, [], _, _, h, _, _ => by simp at h
  | _ :: _, _, [], _, _, h, _ => by simp at h
  | k :: ks, v :: vs, v' :: vs', hn, hl, hl', hp => by
    obtain ⟨hk, hn⟩ := List.nodup_cons.1 hn
    simp only [List.zip_cons_cons] at hp
    have hm : (k, v) ∈ (k, v') :: ks.zip vs' := hp.mem_iff.1 (List.mem_cons_self ..)
    have hv : v = v' := by
      rcases List.mem_cons.1 hm with h | h
      · exact (Prod.mk.inj h).2
      · exact absurd (List.of_mem_zip h).1 hk
    subst hv
    rw [zip_perm_zip_injective hn (by simpa using hl) (by simpa using hl') hp.cons_inv]

theorem shortMap_zip {ks vs : List Bytes} (hks : AllShort ks) (hkl : ks.length < 2 ^ 32)
    (hvs : AllShort vs) : ShortMap (ks.zip vs) := by
  refine ⟨?_, ?_⟩
  · rintro ⟨k, v⟩ hx
    exact ⟨hks k (List.of_mem_zip hx).1, hvs v (List.of_mem_zip hx).2⟩
  · rw [List.length_zip]
    exact Nat.lt_of_le_of_lt (Nat.min_le_left ..) hkl

theorem map_fst_zip {ks vs : List Bytes} (hl : vs.length = ks.length) :
    (ks.zip vs).map Prod.fst = ks :=
  List.map_fst_zip (by omega)

/-- **a map over a fixed list of distinct keys is injective in its values** -/
theorem encMap_zip_injective {ks vs vs' : List Bytes} (hk : ks.Nodup) (hks : AllShort ks)
    (hkl : ks.length < 2 ^ 32) (hl : vs.length = ks.length) (hl' : vs'.length = ks.length)
    (hv : AllShort vs) (hv' : AllShort vs') (h : encMap (ks.zip vs) = encMap (ks.zip vs')) :
    vs = vs' :=
  zip_perm_zip_injective hk hl hl' (encMap_injective (by rwa [map_fst_zip hl])
    (by rwa [map_fst_zip hl']) (shortMap_zip hks hkl hv) (shortMap_zip hks hkl hv') h)

/-- maps with key lists of different lengths have different encodings -/
theorem encMap_ne_of_length_ne {es es' : List (Bytes × Bytes)} (hk : (es.map Prod.fst).Nodup)
    (hk' : (es'.map Prod.fst).Nodup) (hs : ShortMap es) (hs' : ShortMap es')
    (hne : es.length ≠ es'.length) : encMap es ≠ encMap es' :=
  fun h => hne (encMap_injective hk hk' hs hs' h).length_eq

/-- length of the encoding (distinct keys) -/
theorem encMap_length {es : List (Bytes × Bytes)} (hk : (es.map Prod.fst).Nodup) :
    (encMap es).length = 4 + (es.map fun e => 8 + e.1.length + e.2.length).sum := by
  have hp := mapOfList_perm hk
  rw [encMap, encSortedMap, List.length_append, u32le_length, List.length_flatMap,
    ← (hp.map fun e => 8 + e.1.length + e.2.length).sum_nat]
  congr 2
  apply List.map_congr_left
  rintro ⟨k, v⟩ _
  simp only [List.length_append, encBytesVec_length]
  omega


/-! ### the key sets of the transcripts -/

/-- distinct keys, each (and their number) far below the `u32` bound; decidable on literals -/
structure GoodKeys (ks : List Bytes) : Prop where
  nodup : ks.Nodup
  short : ∀ k ∈ ks, k.length ≤ 16
  len : ks.length ≤ 16

theorem GoodKeys.allShort {ks : List Bytes} (h : GoodKeys ks) : AllShort ks := fun k hk => by
  have := h.short k hk
  unfold Short
  omega

theorem GoodKeys.injective {ks vs vs' : List Bytes} (hk : GoodKeys ks)
    (hl : vs.length = ks.length) (hl' : vs'.length = ks.length) (hv : AllShort vs)
    (hv' : AllShort vs') (h : encMap (ks.zip vs) = encMap (ks.zip vs')) : vs = vs' :=
  encMap_zip_injective hk.nodup hk.allShort (by have := hk.len; omega) hl hl' hv hv' h

theorem GoodKeys.length {ks vs : List Bytes} (hk : GoodKeys ks) (hl : vs.length = ks.length) :
    (encMap (ks.zip vs)).length
      = 4 + ((ks.zip vs).map fun e => 8 + e.1.length + e.2.length).sum :=
  encMap_length (by rw [map_fst_zip hl]; exact hk.nodup)

/-- maps built over DIFFERENT key sets never have the same encoding, whatever the values -/
theorem encMap_zip_ne_of_keys {ks ks' vs vs' : List Bytes} (hk : GoodKeys ks) (hk' : GoodKeys ks')
    (hl : vs.length = ks.length) (hl' : vs'.length = ks'.length) (hv : AllShort vs)
    (hv' : AllShort vs') (hne : ¬ ks.Perm ks') : encMap (ks.zip vs) ≠ encMap (ks'.zip vs') := by
  intro h
  have hp := encMap_injective (by rw [map_fst_zip hl]; exact hk.nodup)
    (by rw [map_fst_zip hl']; exact hk'.nodup)
    (shortMap_zip hk.allShort (by have := hk.len; omega) hv)
    (shortMap_zip hk'.allShort (by have := hk'.len; omega) hv') h
  have := hp.map Prod.fst
  rw [map_fst_zip hl, map_fst_zip hl'] at this
  exact hne this


def schnorrKeys : List Bytes := [tag "g", tag "public", tag "commitment", tag "context"]
def cpKeys : List Bytes :=
  [tag "g1", tag "g2", tag "public1", tag "public2", tag "commitment1", tag "commitment2",
   tag "context"]
def ctxLabelKeys : List Bytes := [tag "label"]
def ctxMhrKeys : List Bytes := [tag "mhr", tag "label"]
def usPrefixKeys : List Bytes := [tag "es", tag "e_primes", tag "cs", tag "label"]
def usInputKeys : List Bytes := [tag "prefix", tag "counter"]
def shuffleKeys : List Bytes :=
  [tag "t1", tag "t2", tag "t3", tag "t4_1", tag "t4_2", tag "es", tag "e_primes", tag "cs",
   tag "c_hats", tag "pk.element", tag "t_hats", tag "label"]

theorem schnorrKeys_good : GoodKeys schnorrKeys := ⟨by decide, by decide, by decide⟩
theorem cpKeys_good : GoodKeys cpKeys := ⟨by decide, by decide, by decide⟩
theorem ctxLabelKeys_good : GoodKeys ctxLabelKeys := ⟨by decide, by decide, by decide⟩
theorem ctxMhrKeys_good : GoodKeys ctxMhrKeys := ⟨by decide, by decide, by decide⟩
theorem usPrefixKeys_good : GoodKeys usPrefixKeys := ⟨by decide, by decide, by decide⟩
theorem usInputKeys_good : GoodKeys usInputKeys := ⟨by decide, by decide, by decide⟩
theorem shuffleKeys_good : GoodKeys shuffleKeys := ⟨by decide, by decide, by decide⟩

/-! ### the item lists of the transcripts -/
section items
variable {E X : Type}

def schnorrItems (o : Ops E X) (g pub commitment : E) (ctx : Bytes) : List Bytes :=
  [o.serE g, o.serE pub, o.serE commitment, ctx]

def cpItems (o : Ops E X) (g1 g2 pub1 pub2 c1 c2 : E) (ctx : Bytes) : List Bytes :=
  [o.serE g1, o.serE g2, o.serE pub1, o.serE pub2, o.serE c1, o.serE c2, ctx]

def ctxMhrItems (o : Ops E X) (mhr : E) (label : Bytes) : List Bytes :=
  [o.serE mhr, encBytesVec label]

def usPrefixItems (o : Ops E X) (es ePrimes : List (Ciphertext E)) (cs : List E)
    (label : Bytes) : List Bytes :=
  [(vecC o).enc es, (vecC o).enc ePrimes, (vecE o).enc cs, encBytesVec label]

def shuffleItems (o : Ops E X) (es ePrimes : List (Ciphertext E)) (cs cHats : List E) (pk : E)
    (t : Commitments E) (label : Bytes) : List Bytes :=
  [o.serE t.t1, o.serE t.t2, o.serE t.t3, o.serE t.t4_1, o.serE t.t4_2, (vecC o).enc es,
   (vecC o).enc ePrimes, (vecE o).enc cs, (vecE o).enc cHats, o.serE pk, (vecE o).enc t.tHats,
   label]

theorem schnorrBytes_eq_zip (o : Ops E X) (g y t : E) (ctx : Bytes) :
    schnorrBytes o g y t ctx = encMap (schnorrKeys.zip (schnorrItems o g y t ctx)) := rfl
theorem cpBytes_eq_zip (o : Ops E X) (g1 g2 y1 y2 t1 t2 : E) (ctx : Bytes) :
    cpBytes o g1 g2 y1 y2 t1 t2 ctx = encMap (cpKeys.zip (cpItems o g1 g2 y1 y2 t1 t2 ctx)) := rfl
theorem ctxLabel_eq_zip (label : Bytes) : ctxLabel label = encMap (ctxLabelKeys.zip [label]) := rfl
theorem ctxMhr_eq_zip (o : Ops E X) (mhr : E) (label : Bytes) :
    ctxMhr o mhr label = encMap (ctxMhrKeys.zip (ctxMhrItems o mhr label)) := rfl
theorem usPrefixBytes_eq_zip (o : Ops E X) (es ePrimes : List (Ciphertext E)) (cs : List E)
    (label : Bytes) :
    usPrefixBytes o es ePrimes cs label
      = encMap (usPrefixKeys.zip (usPrefixItems o es ePrimes cs label)) := rfl
theorem usInput_eq_zip (h : Bytes) (i : Nat) :
    usInput h i = encMap (usInputKeys.zip [h, u64le i]) := rfl
theorem shuffleChallengeBytes_eq_zip (o : Ops E X) (es ePrimes : List (Ciphertext E))
    (cs cHats : List E) (pk : E) (t : Commitments E) (label : Bytes) :
    shuffleChallengeBytes o es ePrimes cs cHats pk t label
      = encMap (shuffleKeys.zip (shuffleItems o es ePrimes cs cHats pk t label)) := rfl

/-! ### injectivity, level of the serialised items -/

theorem encBytesVec_injective {a b : Bytes} (h : encBytesVec a = encBytesVec b) : a = b :=
  (List.append_inj h (by rw [u32le_length, u32le_length])).2

theorem short_encBytesVec_iff (l : Bytes) : Short (encBytesVec l) ↔ l.length + 4 < 2 ^ 32 := by
  unfold Short
  rw [encBytesVec_length]
  omega

theorem schnorrBytes_injective {o : Ops E X} {g y t g' y' t' : E} {ctx ctx' : Bytes}
    (hs : AllShort (schnorrItems o g y t ctx)) (hs' : AllShort (schnorrItems o g' y' t' ctx'))
    (h : schnorrBytes o g y t ctx = schnorrBytes o g' y' t' ctx') :
    o.serE g = o.serE g' ∧ o.serE y = o.serE y' ∧ o.serE t = o.serE t' ∧ ctx = ctx' := by
  have := schnorrKeys_good.injective (vs := schnorrItems o g y t ctx)
    (vs' := schnorrItems o g' y' t' ctx') rfl rfl hs hs' h
  simpa [schnorrItems] using this

theorem cpBytes_injective {o : Ops E X} {g1 g2 y1 y2 t1 t2 g1' g2' y1' y2' t1' t2' : E}
    {ctx ctx' : Bytes} (hs : AllShort (cpItems o g1 g2 y1 y2 t1 t2 ctx))
    (hs' : AllShort (cpItems o g1' g2' y1' y2' t1' t2' ctx'))
    (h : cpBytes o g1 g2 y1 y2 t1 t2 ctx = cpBytes o g1' g2' y1' y2' t1' t2' ctx') :
    o.serE g1 = o.serE g1' ∧ o.serE g2 = o.serE g2' ∧ o.serE y1 = o.serE y1' ∧
      o.serE y2 = o.serE y2' ∧ o.serE t1 = o.serE t1' ∧ o.serE t2 = o.serE t2' ∧ ctx = ctx' := by
  have := cpKeys_good.injective (vs := cpItems o g1 g2 y1 y2 t1 t2 ctx)
    (vs' := cpItems o g1' g2' y1' y2' t1' t2' ctx') rfl rfl hs hs' h
  simpa [cpItems] using this

theorem ctxLabel_injective {l l' : Bytes} (hs : Short l) (hs' : Short l')
    (h : ctxLabel l = ctxLabel l') : l = l' := by
  have := ctxLabelKeys_good.injective (vs := [l]) (vs' := [l']) rfl rfl
    (by intro b hb; rw [List.mem_singleton.1 hb]; exact hs)
    (by intro b hb; rw [List.mem_singleton.1 hb]; exact hs') h
  simpa using this

theorem ctxMhr_injective {o : Ops E X} {m m' : E} {l l' : Bytes}
    (hs : AllShort (ctxMhrItems o m l)) (hs' : AllShort (ctxMhrItems o m' l'))
    (h : ctxMhr o m l = ctxMhr o m' l') : o.serE m = o.serE m' ∧ l = l' := by
  have := ctxMhrKeys_good.injective (vs := ctxMhrItems o m l) (vs' := ctxMhrItems o m' l')
    rfl rfl hs hs' h
  simp only [ctxMhrItems, List.cons.injEq, and_true] at this
  exact ⟨this.1, encBytesVec_injective this.2⟩

/-- the two kinds of context never coincide (one key against two) -/
theorem ctxLabel_ne_ctxMhr {o : Ops E X} {m : E} {l l' : Bytes} (hs : Short l)
    (hs' : AllShort (ctxMhrItems o m l')) : ctxLabel l ≠ ctxMhr o m l' := by
  refine encMap_ne_of_length_ne (es := ctxLabelKeys.zip [l])
    (es' := ctxMhrKeys.zip (ctxMhrItems o m l')) ?_ ?_ ?_ ?_
    (by show (1 : Nat) ≠ 2; decide)
  · rw [map_fst_zip (ks := ctxLabelKeys) (vs := [l]) rfl]; exact ctxLabelKeys_good.nodup
  · rw [map_fst_zip (ks := ctxMhrKeys) (vs := ctxMhrItems o m l') rfl]; exact ctxMhrKeys_good.nodup
  · exact shortMap_zip ctxLabelKeys_good.allShort (by decide)
      (by intro b hb; rw [List.mem_singleton.1 hb]; exact hs)
  · exact shortMap_zip ctxMhrKeys_good.allShort (by decide) hs'

theorem ctxLabel_length (l : Bytes) : (ctxLabel l).length = 17 + l.length := by
  rw [ctxLabel_eq_zip, ctxLabelKeys_good.length (vs := [l]) rfl]
  simp [ctxLabelKeys, tag, asciiBytes]
  omega

theorem ctxMhr_length (o : Ops E X) (m : E) (l : Bytes) :
    (ctxMhr o m l).length = 32 + (o.serE m).length + l.length := by
  rw [ctxMhr_eq_zip, ctxMhrKeys_good.length (vs := ctxMhrItems o m l) rfl]
  simp [ctxMhrKeys, ctxMhrItems, tag, asciiBytes, encBytesVec_length]
  omega

/-- a short `{label}` context has a short label -/
theorem short_label_of_ctxLabel {l : Bytes} (h : Short (ctxLabel l)) : Short l := by
  unfold Short at *
  rw [ctxLabel_length] at h
  omega

/-- a short `{mhr, label}` context has short items -/
theorem allShort_of_ctxMhr {o : Ops E X} {m : E} {l : Bytes} (h : Short (ctxMhr o m l)) :
    AllShort (ctxMhrItems o m l) := by
  unfold Short at h
  rw [ctxMhr_length] at h
  intro b hb
  simp only [ctxMhrItems, List.mem_cons, List.not_mem_nil, or_false] at hb
  rcases hb with rfl | rfl
  · unfold Short; omega
  · unfold Short; rw [encBytesVec_length]; omega

theorem usPrefixBytes_injective {o : Ops E X} {es eps es' eps' : List (Ciphertext E)}
    {cs cs' : List E} {l l' : Bytes} (hs : AllShort (usPrefixItems o es eps cs l))
    (hs' : AllShort (usPrefixItems o es' eps' cs' l'))
    (h : usPrefixBytes o es eps cs l = usPrefixBytes o es' eps' cs' l') :
    (vecC o).enc es = (vecC o).enc es' ∧ (vecC o).enc eps = (vecC o).enc eps' ∧
      (vecE o).enc cs = (vecE o).enc cs' ∧ l = l' := by
  have := usPrefixKeys_good.injective (vs := usPrefixItems o es eps cs l)
    (vs' := usPrefixItems o es' eps' cs' l') rfl rfl hs hs' h
  simp only [usPrefixItems, List.cons.injEq, and_true] at this
  exact ⟨this.1, this.2.1, this.2.2.1, encBytesVec_injective this.2.2.2⟩

theorem usInput_injective {h h' : Bytes} {i j : Nat} (hs : Short h) (hs' : Short h')
    (he : usInput h i = usInput h' j) : h = h' ∧ u64le i = u64le j := by
  have h8 : ∀ n, Short (u64le n) := fun n => by unfold Short; rw [u64le_length]; decide
  have := usInputKeys_good.injective (vs := [h, u64le i]) (vs' := [h', u64le j]) rfl rfl
    (by intro b hb
        rcases List.mem_cons.1 hb with rfl | hb
        · exact hs
        · rw [List.mem_singleton.1 hb]; exact h8 i)
    (by intro b hb
        rcases List.mem_cons.1 hb with rfl | hb
        · exact hs'
        · rw [List.mem_singleton.1 hb]; exact h8 j) he
  simpa using this

theorem shuffleChallengeBytes_injective {o : Ops E X} {es eps es' eps' : List (Ciphertext E)}
    {cs chs cs' chs' : List E} {pk pk' : E} {t t' : Commitments E} {l l' : Bytes}
    (hs : AllShort (shuffleItems o es eps cs chs pk t l))
    (hs' : AllShort (shuffleItems o es' eps' cs' chs' pk' t' l'))
    (h : shuffleChallengeBytes o es eps cs chs pk t l
      = shuffleChallengeBytes o es' eps' cs' chs' pk' t' l') :
    o.serE t.t1 = o.serE t'.t1 ∧ o.serE t.t2 = o.serE t'.t2 ∧ o.serE t.t3 = o.serE t'.t3 ∧
      o.serE t.t4_1 = o.serE t'.t4_1 ∧ o.serE t.t4_2 = o.serE t'.t4_2 ∧
      (vecC o).enc es = (vecC o).enc es' ∧ (vecC o).enc eps = (vecC o).enc eps' ∧
      (vecE o).enc cs = (vecE o).enc cs' ∧ (vecE o).enc chs = (vecE o).enc chs' ∧
      o.serE pk = o.serE pk' ∧ (vecE o).enc t.tHats = (vecE o).enc t'.tHats ∧ l = l' := by
  have := shuffleKeys_good.injective (vs := shuffleItems o es eps cs chs pk t l)
    (vs' := shuffleItems o es' eps' cs' chs' pk' t' l') rfl rfl hs hs' h
  simpa [shuffleItems] using this

/-! ### injectivity, level of the items (lawful element codec) -/

/-- what `nested c` can encode injectively: valid items, each encoding and the count fit `u32` -/
def NestedOK {α : Type} (c : Codec α) (V : α → Prop) (xs : List α) : Prop :=
  (∀ x ∈ xs, V x ∧ (c.enc x).length < 2 ^ 32) ∧ xs.length < 2 ^ 32

variable {o : Ops E X} {VE : E → Prop}

theorem serE_injective (hE : LawfulCodec o.codecE VE) {a b : E} (ha : VE a) (hb : VE b)
    (h : o.serE a = o.serE b) : a = b := hE.enc_injective ha hb h

theorem vecE_enc_injective (hE : LawfulCodec o.codecE VE) {xs ys : List E}
    (hx : NestedOK o.codecE VE xs) (hy : NestedOK o.codecE VE ys)
    (h : (vecE o).enc xs = (vecE o).enc ys) : xs = ys :=
  (nested_preLawful hE).enc_injective hx hy h

/-- validity of a ciphertext on the wire: both components valid -/
def VCt (VE : E → Prop) (c : Ciphertext E) : Prop := VE c.mhr ∧ VE c.gr

theorem vecC_enc_injective (hE : LawfulCodec o.codecE VE) {xs ys : List (Ciphertext E)}
    (hx : NestedOK (codecCt o) (VCt VE) xs) (hy : NestedOK (codecCt o) (VCt VE) ys)
    (h : (vecC o).enc xs = (vecC o).enc ys) : xs = ys :=
  (nested_preLawful (codecCt_lawful hE)).enc_injective hx hy h

end items

/-! ### the position counter -/

theorem natOfLE_leFixed : ∀ (k n : Nat), natOfLE (leFixed k n) = n % 256 ^ k
  | 0, n => by simp [leFixed, natOfLE, Nat.mod_one]
  | k + 1, n => by
    rw [leFixed, natOfLE, toNat_ofNat_u8, natOfLE_leFixed k, Nat.pow_succ,
      Nat.mul_comm (256 ^ k) 256, Nat.mod_mul, Nat.mod_mod]

theorem leFixed_injective {k n m : Nat} (hn : n < 256 ^ k) (hm : m < 256 ^ k)
    (h : leFixed k n = leFixed k m) : n = m := by
  have := congrArg natOfLE h
  rwa [natOfLE_leFixed, natOfLE_leFixed, Nat.mod_eq_of_lt hn, Nat.mod_eq_of_lt hm] at this

theorem u64le_injective {i j : Nat} (hi : i < 2 ^ 64) (hj : j < 2 ^ 64) (h : u64le i = u64le j) :
    i = j :=
  leFixed_injective (k := 8) (by simpa using hi) (by simpa using hj) h

theorem u32le_injective {i j : Nat} (hi : i < 2 ^ 32) (hj : j < 2 ^ 32) (h : u32le i = u32le j) :
    i = j :=
  leFixed_injective (k := 4) (by simpa using hi) (by simpa using hj) h

/-- distinct positions, distinct hash inputs -/
theorem counter_inputs_distinct {h : Bytes} {i j : Nat} (hs : Short h) (hi : i < 2 ^ 64)
    (hj : j < 2 ^ 64) (hij : i ≠ j) : usInput h i ≠ usInput h j :=
  fun he => hij (u64le_injective hi hj (usInput_injective hs hs he).2)

/-! ### the digest-to-integer maps are injective on strings of one length -/

theorem natOfLE_injective_of_length_eq : ∀ {xs ys : Bytes}, xs.length = ys.length →
    natOfLE xs = natOfLE ys → xs = ys
  | [], [], _, _ => rfl
  | [], _ :: _, h, _ => by simp at h
  | _ :: _, [], h, _ => by simp at h
  | x :: xs, y :: ys, hl, h => by
    simp only [natOfLE] at h
    have hx := u8_toNat_lt x
    have hy := u8_toNat_lt y
    have h1 : x.toNat = y.toNat := by omega
    have h2 : natOfLE xs = natOfLE ys := by omega
    rw [UInt8.toNat_inj.1 h1, natOfLE_injective_of_length_eq (by simpa using hl) h2]

theorem natOfBE_injective_of_length_eq {xs ys : Bytes} (hl : xs.length = ys.length)
    (h : natOfBE xs = natOfBE ys) : xs = ys := by
  rw [natOfBE_eq_natOfLE_reverse, natOfBE_eq_natOfLE_reverse] at h
  exact List.reverse_inj.1
    (natOfLE_injective_of_length_eq (by rw [List.length_reverse, List.length_reverse, hl]) h)

theorem natOfBytes_injective_of_length_eq (fl : Flavour) {xs ys : Bytes}
    (hl : xs.length = ys.length) (h : natOfBytes fl xs = natOfBytes fl ys) : xs = ys := by
  cases fl
  · exact natOfLE_injective_of_length_eq hl h
  · exact natOfBE_injective_of_length_eq hl h

end Strand
