import StrandModel.Lemmas.ShuffleVerify
import StrandModel.Lemmas.ShufflePerm
/-
Completeness of the Terelius–Wikström shuffle (used by C03): the proof `genProof` makes for the
output of `applyPermutation` satisfies the length conditions and the equations `TW` of
`Lemmas/ShuffleVerify.lean`, hence is accepted by `checkProof` (`check_accepts_iff`).

Structure:
* linear algebra on `List.zipWith` sums (`sum_resp`, `sum_shift`, `sum_mk`);
* re-indexing along the permutation (`sum_zipWith_gather`, on top of `Lemmas/ShufflePerm.lean`);
* the commitment chain (`chain_getElem?`, `chain_closed_form`, `suffixProds_head`);
* `core_TW`: the equations for `genProofCore`, from five "permutation facts" `PermFacts`;
* `permFacts_honest`: the permutation facts for the honest prover;
* `genProof_eq`, `applyPermutation_eq`: the guards of the model all pass.
-/
set_option linter.unusedSectionVars false
namespace Strand
open ShufflePerm
variable {E X : Type} {o : Ops E X} {q : ℕ} {A : Type} [AddCommGroup A] [Module (ZMod q) A]

/-! ### linear algebra on `zipWith` sums -/

namespace Lawful
variable (L : Lawful o q A)

/-- `Σ (w_i + c u_i)•a_i = Σ w_i•a_i + c•Σ u_i•a_i` for the responses `s'_i` -/
theorem sum_resp {α : Type} (pa : α → A) (c : X) :
    ∀ (as : List α) (ws us : List X), ws.length = us.length →
      (List.zipWith (fun a s => L.dx s • pa a) as
          (List.zipWith (fun w u => o.modq (o.xadd w (o.xmul c u))) ws us)).sum
        = (List.zipWith (fun a w => L.dx w • pa a) as ws).sum
          + L.dx c • (List.zipWith (fun a u => L.dx u • pa a) as us).sum
  | [], _, _, _ => by simp
  | _ :: _, [], [], _ => by simp
  | _ :: _, [], _ :: _, h => by simp at h
  | _ :: _, _ :: _, [], h => by simp at h
  | a :: as, w :: ws, u :: us, h => by
    simp only [List.zipWith_cons_cons, List.sum_cons]
    rw [sum_resp pa c as ws us (by simpa using h), L.modq_dx, L.xadd_dx, L.xmul_dx]
    module

/-- `Σ u_i•(a_i + r_i•B) = Σ u_i•a_i + (Σ r_i u_i)•B`, where `f (m a r) = pa a + r•B` -/
theorem sum_shift {α β : Type} (f : β → A) (pa : α → A) (m : α → X → β) (B : A) :
    ∀ (as : List α) (rs us : List X), (∀ a ∈ as, ∀ r, f (m a r) = pa a + L.dx r • B) →
      as.length = rs.length →
      (List.zipWith (fun b u => L.dx u • f b) (List.zipWith m as rs) us).sum
        = (List.zipWith (fun a u => L.dx u • pa a) as us).sum
          + (List.zipWith (fun r u => L.dx r * L.dx u) rs us).sum • B
  | [], [], _, _, _ => by simp
  | [], _ :: _, _, _, h => by simp at h
  | _ :: _, [], _, _, h => by simp at h
  | _ :: _, _ :: _, [], _, _ => by simp
  | a :: as, r :: rs, u :: us, hm, h => by
    simp only [List.zipWith_cons_cons, List.sum_cons]
    rw [sum_shift f pa m B as rs us (fun a' ha' => hm a' (by simp [ha'])) (by simpa using h),
      hm a (by simp)]
    module

/-- `Σ (a_i + r_i•B) = Σ a_i + (Σ r_i)•B` -/
theorem sum_mk {α β : Type} (f : β → A) (pa : α → A) (m : α → X → β) (B : A) :
    ∀ (as : List α) (rs : List X), (∀ a ∈ as, ∀ r, f (m a r) = pa a + L.dx r • B) →
      as.length = rs.length →
      ((List.zipWith m as rs).map f).sum = (as.map pa).sum + (rs.map L.dx).sum • B
  | [], [], _, _ => by simp
  | [], _ :: _, _, h => by simp at h
  | _ :: _, [], _, h => by simp at h
  | a :: as, r :: rs, hm, h => by
    simp only [List.zipWith_cons_cons, List.map_cons, List.sum_cons]
    rw [sum_mk f pa m B as rs (fun a' ha' => hm a' (by simp [ha'])) (by simpa using h),
      hm a (by simp)]
    module

end Lawful

/-! ### re-indexing along the permutation -/

theorem zipWith_map_same {α β γ ι : Type*} (f : α → β → γ) (g : ι → α) (h : ι → β) (l : List ι) :
    List.zipWith f (l.map g) (l.map h) = l.map (fun i => f (g i) (h i)) := by
  rw [List.zipWith_map, List.zipWith_self]

/-- gathering two lists along the same permutation does not change a `zipWith` sum -/
theorem sum_zipWith_gather {α β : Type} {M : Type*} [AddCommMonoid M] (f : α → β → M) {perm : List Nat}
    {l : List α} {l' : List β} (d : α) (d' : β) (hp : perm.Perm (List.range l.length))
    (hl : l'.length = l.length) :
    (List.zipWith f (perm.map (fun p => l.getD p d)) (perm.map (fun p => l'.getD p d'))).sum
      = (List.zipWith f l l').sum := by
  rw [zipWith_map_same, sum_map_perm_reindex hp,
    ← zipWith_map_same f (fun p => l.getD p d) (fun p => l'.getD p d'), map_range_getD l d, ← hl,
    map_range_getD l' d']

/-! ### the commitment chain -/

theorem chain_nil_left (prev : E) (rs : List X) : chain o prev [] rs = [] := by
  unfold chain; rfl
theorem chain_nil_right (prev : E) (us : List X) : chain o prev us [] = [] := by
  cases us <;> rfl
theorem chain_cons (prev : E) (u : X) (us : List X) (r : X) (rs : List X) :
    chain o prev (u :: us) (r :: rs)
      = o.modp (o.mul (o.gmodPow r) (o.emodPow prev u))
        :: chain o (o.modp (o.mul (o.gmodPow r) (o.emodPow prev u))) us rs := rfl

theorem chain_length : ∀ (prev : E) (us rs : List X),
    (chain o prev us rs).length = min us.length rs.length
  | _, [], _ => by simp [chain_nil_left]
  | _, _ :: _, [] => by simp [chain_nil_right]
  | prev, u :: us, r :: rs => by
    rw [chain_cons, List.length_cons, chain_length _ us rs]; simp

theorem Lawful.chain_V (L : Lawful o q A) : ∀ (prev : E) (us rs : List X), L.valid prev →
    ∀ x ∈ chain o prev us rs, L.V x
  | _, [], _, _ => by simp [chain_nil_left]
  | _, _ :: _, [], _ => by simp [chain_nil_right]
  | prev, u :: us, r :: rs, hp => by
    intro x hx
    have hc := L.modp_mul_V (L.gmodPow_valid r) (L.emodPow_valid u hp)
    rw [chain_cons, List.mem_cons] at hx
    rcases hx with rfl | hx
    · exact hc
    · exact L.chain_V _ us rs hc.1 x hx

/-- position `i` of the chain is `g^{r_i} · ĉ_{i-1}^{u_i}` -/
theorem chain_getElem? : ∀ (h0 : E) (us rs : List X) (i : ℕ) {prev ci : E} {u r : X},
    (h0 :: chain o h0 us rs)[i]? = some prev → (chain o h0 us rs)[i]? = some ci →
    us[i]? = some u → rs[i]? = some r →
    ci = o.modp (o.mul (o.gmodPow r) (o.emodPow prev u))
  | _, [], _, _, _, _, _, _ => by simp
  | _, _ :: _, [], _, _, _, _, _ => by simp
  | h0, u0 :: us, r0 :: rs, 0, prev, ci, u, r => by
    intro h1 h2 h3 h4
    rw [chain_cons] at h2
    simp only [List.getElem?_cons_zero, Option.some.injEq] at h1 h2 h3 h4
    subst h1 h3 h4
    exact h2.symm
  | h0, u0 :: us, r0 :: rs, i + 1, prev, ci, u, r => by
    intro h1 h2 h3 h4
    rw [chain_cons] at h1 h2
    simp only [List.getElem?_cons_succ] at h1 h2 h3 h4
    exact chain_getElem? _ us rs i h1 h2 h3 h4

/-- the head of `suffixProds (u :: us)` is the product of `us` -/
theorem Lawful.suffixProds_head (L : Lawful o q A) : ∀ (u : X) (us : List X),
    ∃ v vs, suffixProds o (u :: us) = v :: vs ∧ L.dx v = (us.map L.dx).prod
  | _, [] => ⟨o.oneX, [], rfl, by simp [L.oneX_dx]⟩
  | u, u' :: us => by
    obtain ⟨v, vs, hv, hd⟩ := L.suffixProds_head u' us
    refine ⟨o.modq (o.xmul u' v), v :: vs, ?_, ?_⟩
    · show (match suffixProds o (u' :: us) with
        | [] => []
        | v :: vs => o.modq (o.xmul u' v) :: v :: vs) = _
      rw [hv]
    · rw [L.modq_dx, L.xmul_dx, hd, List.map_cons, List.prod_cons]

/-- closed form of the last chain commitment:
    `ĉ_{N-1} = (Σ r̂_i v_i)•G + (Π u'_i)•h0` with `v = suffixProds u'` -/
theorem Lawful.chain_closed_form (L : Lawful o q A) : ∀ (prev : E) (us rs : List X),
    L.valid prev → us.length = rs.length →
    L.den ((chain o prev us rs).getLastD prev)
      = (List.zipWith (fun r v => L.dx r * L.dx v) rs (suffixProds o us)).sum • L.den o.generator
        + (us.map L.dx).prod • L.den prev
  | _, [], [], _, _ => by simp [chain_nil_left, suffixProds]
  | _, [], _ :: _, _, h => by simp at h
  | _, _ :: _, [], _, h => by simp at h
  | prev, u :: us, r :: rs, hp, h => by
    have hc := L.modp_mul_V (L.gmodPow_valid r) (L.emodPow_valid u hp)
    have ih := L.chain_closed_form (o.modp (o.mul (o.gmodPow r) (o.emodPow prev u))) us rs hc.1
      (by simpa using h)
    rw [chain_cons, List.getLastD_cons, ih,
      L.modp_mul_den (L.gmodPow_valid r) (L.emodPow_valid u hp), L.gmodPow_den,
      L.emodPow_den _ hp]
    cases us with
    | nil =>
      cases rs with
      | nil => simp [suffixProds, L.oneX_dx]
      | cons _ _ => simp at h
    | cons u' us =>
      obtain ⟨v, vs, hv, hd⟩ := L.suffixProds_head u' us
      have e : suffixProds o (u :: u' :: us) = o.modq (o.xmul u' v) :: v :: vs := by
        show (match suffixProds o (u' :: us) with
          | [] => []
          | v :: vs => o.modq (o.xmul u' v) :: v :: vs) = _
        rw [hv]
      rw [e, hv, List.zipWith_cons_cons, List.sum_cons, L.modq_dx, L.xmul_dx, hd]
      simp only [List.map_cons, List.prod_cons]
      module

/-- `dx (xsum (zipWith xmul as bs)) = Σ a_i b_i` -/
theorem Lawful.xsum_zipWith_dx (L : Lawful o q A) (as bs : List X) :
    L.dx (xsum o (List.zipWith o.xmul as bs))
      = (List.zipWith (fun a b => L.dx a * L.dx b) as bs).sum := by
  rw [L.xsum_dx, List.map_zipWith]
  congr 1
  exact zipWith_congr_mem as bs (fun a _ b _ => L.xmul_dx a b)

/-! ### the equations for `genProofCore` -/

/-- What the verification equations need to know about the permutation: five identities between
sums over the permuted commitments `csP`, `rsP` / the outputs `eps` / the permuted challenges
`usPrime` and sums over the generators `hs` / the inputs `es` / the challenges `us`. -/
structure PermFacts (L : Lawful o q A) (hs : List E) (pk : E) (es eps : List (Ciphertext E))
    (rPrimes usPrime us : List X) (csP : List E) (rsP : List X) : Prop where
  /-- `Σ⟦csP_j⟧ = Σ⟦h_i⟧ + (Σ rsP_j)•G` -/
  f1 : (csP.map L.den).sum = (hs.map L.den).sum + (rsP.map L.dx).sum • L.den o.generator
  /-- `Π u_j = Π u'_i` -/
  f2 : (us.map L.dx).prod = (usPrime.map L.dx).prod
  /-- `Σ u_j•⟦csP_j⟧ = Σ u'_i•⟦h_i⟧ + (Σ rsP_j u_j)•G` -/
  f3 : (List.zipWith (fun a u => L.dx u • L.den a) csP us).sum
      = (List.zipWith (fun h u => L.dx u • L.den h) hs usPrime).sum
        + (List.zipWith (fun r u => L.dx r * L.dx u) rsP us).sum • L.den o.generator
  /-- `Σ u'_i•⟦e'_i.mhr⟧ = Σ u_j•⟦e_j.mhr⟧ + (Σ r'_j u_j)•⟦pk⟧` -/
  f41 : (List.zipWith (fun (e : Ciphertext E) u => L.dx u • L.den e.mhr) eps usPrime).sum
      = (List.zipWith (fun (e : Ciphertext E) u => L.dx u • L.den e.mhr) es us).sum
        + (List.zipWith (fun r u => L.dx r * L.dx u) rPrimes us).sum • L.den pk
  /-- `Σ u'_i•⟦e'_i.gr⟧ = Σ u_j•⟦e_j.gr⟧ + (Σ r'_j u_j)•G` -/
  f42 : (List.zipWith (fun (e : Ciphertext E) u => L.dx u • L.den e.gr) eps usPrime).sum
      = (List.zipWith (fun (e : Ciphertext E) u => L.dx u • L.den e.gr) es us).sum
        + (List.zipWith (fun r u => L.dx r * L.dx u) rPrimes us).sum • L.den o.generator

section core
variable (L : Lawful o q A) (h0 : E) (hs : List E) (pk : E) (es eps : List (Ciphertext E))
  (rPrimes usPrime us : List X) (csP : List E) (rsP : List X) (label : Bytes) (tp : ProofTape X)

local notation "PF" => genProofCore o h0 hs pk es eps rPrimes usPrime us csP rsP label tp
local notation "CC" => shuffleChallenge o es eps csP (chain o h0 usPrime (ProofTape.rHats tp)) pk
  (ShuffleProof.t (genProofCore o h0 hs pk es eps rPrimes usPrime us csP rsP label tp)) label
local notation "RESP" => fun w r => Ops.modq o (Ops.xadd o w (Ops.xmul o
  (shuffleChallenge o es eps csP (chain o h0 usPrime (ProofTape.rHats tp)) pk
    (ShuffleProof.t (genProofCore o h0 hs pk es eps rPrimes usPrime us csP rsP label tp)) label) r))

theorem core_cs : (PF).cs = csP := rfl
theorem core_cHats : (PF).cHats = chain o h0 usPrime tp.rHats := rfl
theorem core_challenge :
    shuffleChallenge o es eps (PF).cs (PF).cHats pk (PF).t label = CC := rfl
theorem core_t1 : (PF).t.t1 = o.gmodPow (tp.omegas.getD 0 o.zeroX) := rfl
theorem core_t2 : (PF).t.t2 = o.gmodPow (tp.omegas.getD 1 o.zeroX) := rfl
theorem core_t3 : (PF).t.t3 = o.modp (o.mul (o.gmodPow (tp.omegas.getD 2 o.zeroX))
    (prodMod o (List.zipWith o.emodPow hs tp.omegaPrimes))) := rfl
theorem core_t4_1 : (PF).t.t4_1 = o.modp (o.mul (o.emodPow (o.invp pk) (tp.omegas.getD 3 o.zeroX))
    (prodMod o (List.zipWith (fun e w => o.emodPow e.mhr w) eps tp.omegaPrimes))) := rfl
theorem core_t4_2 : (PF).t.t4_2
    = o.modp (o.mul (o.emodPow (o.invp o.generator) (tp.omegas.getD 3 o.zeroX))
        (prodMod o (List.zipWith (fun e w => o.emodPow e.gr w) eps tp.omegaPrimes))) := rfl
theorem core_tHats : (PF).t.tHats
    = List.zipWith (fun (pw : E × X) wh => o.modp (o.mul (o.gmodPow wh) (o.emodPow pw.1 pw.2)))
        (List.zip (h0 :: chain o h0 usPrime tp.rHats) tp.omegaPrimes) tp.omegaHats := rfl
theorem core_s1 : (PF).s.s1 = (RESP) (tp.omegas.getD 0 o.zeroX) (o.modq (xsum o rsP)) := rfl
theorem core_s2 : (PF).s.s2 = (RESP) (tp.omegas.getD 1 o.zeroX)
    (o.modq (xsum o (List.zipWith o.xmul tp.rHats (suffixProds o usPrime)))) := rfl
theorem core_s3 : (PF).s.s3 = (RESP) (tp.omegas.getD 2 o.zeroX)
    (o.modq (xsum o (List.zipWith o.xmul rsP us))) := rfl
theorem core_s4 : (PF).s.s4 = (RESP) (tp.omegas.getD 3 o.zeroX)
    (o.modq (xsum o (List.zipWith o.xmul rPrimes us))) := rfl
theorem core_sHats : (PF).s.sHats = List.zipWith (RESP) tp.omegaHats tp.rHats := rfl
theorem core_sPrimes : (PF).s.sPrimes = List.zipWith (RESP) tp.omegaPrimes usPrime := rfl

theorem Lawful.resp_dx (c w r : X) :
    L.dx (o.modq (o.xadd w (o.xmul c r))) = L.dx w + L.dx c * L.dx r := by
  rw [L.modq_dx, L.xadd_dx, L.xmul_dx]

variable {hs pk es eps rPrimes usPrime us csP rsP}

theorem core_eq1 (F : PermFacts L hs pk es eps rPrimes usPrime us csP rsP) :
    L.dx (PF).s.s1 • L.den o.generator
      = L.den (PF).t.t1 + L.dx (CC) • (((PF).cs.map L.den).sum - (hs.map L.den).sum) := by
  rw [core_s1, core_t1, core_cs, L.resp_dx, L.modq_dx, L.xsum_dx, L.gmodPow_den, F.f1]
  module

theorem core_eq2 (F : PermFacts L hs pk es eps rPrimes usPrime us csP rsP) (hh0 : L.valid h0)
    (hlr : usPrime.length = tp.rHats.length) :
    L.dx (PF).s.s2 • L.den o.generator
      = L.den (PF).t.t2 + L.dx (CC) • (L.den ((PF).cHats.getLastD h0)
          - (us.map L.dx).prod • L.den h0) := by
  rw [core_s2, core_t2, core_cHats, L.resp_dx, L.modq_dx, L.xsum_zipWith_dx, L.gmodPow_den,
    L.chain_closed_form h0 usPrime tp.rHats hh0 hlr, F.f2]
  module

theorem core_eq3 (F : PermFacts L hs pk es eps rPrimes usPrime us csP rsP)
    (hhs : ∀ h ∈ hs, L.valid h) (hlw : tp.omegaPrimes.length = usPrime.length) :
    L.dx (PF).s.s3 • L.den o.generator
        + (List.zipWith (fun h s => L.dx s • L.den h) hs (PF).s.sPrimes).sum
      = L.den (PF).t.t3
        + L.dx (CC) • (List.zipWith (fun a u => L.dx u • L.den a) (PF).cs us).sum := by
  rw [core_s3, core_t3, core_cs, core_sPrimes, L.resp_dx, L.modq_dx, L.xsum_zipWith_dx,
    L.sum_resp L.den _ hs _ _ hlw,
    L.modp_mul_den (L.gmodPow_valid _) (L.prodMod_pow_valid' _ _ hhs), L.gmodPow_den,
    L.prodMod_pow_den' _ _ hhs, F.f3]
  module

theorem core_eq41 (F : PermFacts L hs pk es eps rPrimes usPrime us csP rsP) (hpk : L.valid pk)
    (heps : ∀ e ∈ eps, L.valid e.mhr ∧ L.valid e.gr)
    (hlw : tp.omegaPrimes.length = usPrime.length) :
    (List.zipWith (fun (e : Ciphertext E) s => L.dx s • L.den e.mhr) eps (PF).s.sPrimes).sum
        - L.dx (PF).s.s4 • L.den pk
      = L.den (PF).t.t4_1
        + L.dx (CC) • (List.zipWith (fun (e : Ciphertext E) u => L.dx u • L.den e.mhr) es us).sum := by
  have hv : ∀ e ∈ eps, L.valid e.mhr := fun e he => (heps e he).1
  rw [core_s4, core_t4_1, core_sPrimes, L.resp_dx, L.modq_dx, L.xsum_zipWith_dx,
    L.sum_resp (fun e : Ciphertext E => L.den e.mhr) _ eps _ _ hlw,
    L.modp_mul_den (L.emodPow_valid _ (L.invp_valid hpk))
      (L.prodMod_pow_valid Ciphertext.mhr _ _ hv),
    L.emodPow_den _ (L.invp_valid hpk), L.invp_den hpk,
    L.prodMod_pow_den Ciphertext.mhr _ _ hv, F.f41]
  module

theorem core_eq42 (F : PermFacts L hs pk es eps rPrimes usPrime us csP rsP)
    (heps : ∀ e ∈ eps, L.valid e.mhr ∧ L.valid e.gr)
    (hlw : tp.omegaPrimes.length = usPrime.length) :
    (List.zipWith (fun (e : Ciphertext E) s => L.dx s • L.den e.gr) eps (PF).s.sPrimes).sum
        - L.dx (PF).s.s4 • L.den o.generator
      = L.den (PF).t.t4_2
        + L.dx (CC) • (List.zipWith (fun (e : Ciphertext E) u => L.dx u • L.den e.gr) es us).sum := by
  have hv : ∀ e ∈ eps, L.valid e.gr := fun e he => (heps e he).2
  rw [core_s4, core_t4_2, core_sPrimes, L.resp_dx, L.modq_dx, L.xsum_zipWith_dx,
    L.sum_resp (fun e : Ciphertext E => L.den e.gr) _ eps _ _ hlw,
    L.modp_mul_den (L.emodPow_valid _ (L.invp_valid L.gen_valid))
      (L.prodMod_pow_valid Ciphertext.gr _ _ hv),
    L.emodPow_den _ (L.invp_valid L.gen_valid), L.invp_den L.gen_valid,
    L.prodMod_pow_den Ciphertext.gr _ _ hv, F.f42]
  module

theorem core_chain (hh0 : L.valid h0) (i : ℕ) (prev ci th : E) (sh sp : X)
    (h1 : (h0 :: (PF).cHats)[i]? = some prev) (h2 : (PF).cHats[i]? = some ci)
    (h3 : (PF).t.tHats[i]? = some th) (h4 : (PF).s.sHats[i]? = some sh)
    (h5 : (PF).s.sPrimes[i]? = some sp) :
    L.dx sh • L.den o.generator + L.dx sp • L.den prev = L.den th + L.dx (CC) • L.den ci := by
  rw [core_cHats] at h1 h2
  rw [core_tHats, List.getElem?_zipWith_eq_some] at h3
  rw [core_sHats, List.getElem?_zipWith_eq_some] at h4
  rw [core_sPrimes, List.getElem?_zipWith_eq_some] at h5
  obtain ⟨⟨prev', wp'⟩, wh', hz, hwh', rfl⟩ := h3
  obtain ⟨wh, rh, hwh, hrh, rfl⟩ := h4
  obtain ⟨wp, up, hwp, hup, rfl⟩ := h5
  rw [List.getElem?_zip_eq_some] at hz
  obtain ⟨hz1, hz2⟩ := hz
  simp only at hz1 hz2
  have e1 : prev' = prev := Option.some.inj (hz1.symm.trans h1)
  have e2 : wp' = wp := Option.some.inj (hz2.symm.trans hwp)
  have e3 : wh' = wh := Option.some.inj (hwh'.symm.trans hwh)
  subst e1 e2 e3
  have hprev : L.valid prev' := by
    rcases List.mem_cons.mp (List.mem_of_getElem? h1) with rfl | hm
    · exact hh0
    · exact (L.chain_V h0 usPrime tp.rHats hh0 _ hm).1
  rw [chain_getElem? h0 usPrime tp.rHats i h1 h2 hup hrh]
  simp only
  rw [L.resp_dx, L.resp_dx, L.modp_mul_den (L.gmodPow_valid _) (L.emodPow_valid _ hprev),
    L.modp_mul_den (L.gmodPow_valid _) (L.emodPow_valid _ hprev), L.gmodPow_den, L.gmodPow_den,
    L.emodPow_den _ hprev, L.emodPow_den _ hprev]
  module

/-- the honest proof satisfies every Terelius–Wikström equation -/
theorem core_TW (F : PermFacts L hs pk es eps rPrimes usPrime us csP rsP) (hh0 : L.valid h0)
    (hhs : ∀ h ∈ hs, L.valid h) (hpk : L.valid pk)
    (heps : ∀ e ∈ eps, L.valid e.mhr ∧ L.valid e.gr)
    (hlr : usPrime.length = tp.rHats.length) (hlw : tp.omegaPrimes.length = usPrime.length) :
    TWcore L (L.dx (shuffleChallenge o es eps (PF).cs (PF).cHats pk (PF).t label)) us h0 hs pk
      (PF) es eps :=
  { eq1 := core_eq1 L h0 label tp F
    eq2 := core_eq2 L h0 label tp F hh0 hlr
    eq3 := core_eq3 L h0 label tp F hhs hlw
    eq41 := core_eq41 L h0 label tp F hpk heps hlw
    eq42 := core_eq42 L h0 label tp F heps hlw
    chain := core_chain L h0 label tp hh0 }

end core

/-! ### the permutation facts for the honest prover -/

theorem Lawful.reenc_mhr_den (L : Lawful o q A) {pk : E} (hpk : L.valid pk) {e : Ciphertext E}
    (he : L.valid e.mhr) (r : X) :
    L.den (reenc o pk e r).mhr = L.den e.mhr + L.dx r • L.den pk := by
  unfold reenc
  rw [L.modp_mul_den he (L.emodPow_valid r hpk), L.emodPow_den _ hpk]

theorem Lawful.reenc_gr_den (L : Lawful o q A) (pk : E) {e : Ciphertext E}
    (he : L.valid e.gr) (r : X) :
    L.den (reenc o pk e r).gr = L.den e.gr + L.dx r • L.den o.generator := by
  unfold reenc
  rw [L.modp_mul_den he (L.gmodPow_valid r), L.gmodPow_den]

theorem Lawful.reenc_V (L : Lawful o q A) {pk : E} (hpk : L.valid pk) {e : Ciphertext E}
    (he : L.valid e.mhr ∧ L.valid e.gr) (r : X) :
    L.V (reenc o pk e r).mhr ∧ L.V (reenc o pk e r).gr :=
  ⟨L.modp_mul_V he.1 (L.emodPow_valid r hpk), L.modp_mul_V he.2 (L.gmodPow_valid r)⟩

/-- the commitment `h · g^r` -/
theorem Lawful.commit_den (L : Lawful o q A) {h : E} (hh : L.valid h) (r : X) :
    L.den (o.modp (o.mul h (o.gmodPow r))) = L.den h + L.dx r • L.den o.generator := by
  rw [L.modp_mul_den hh (L.gmodPow_valid r), L.gmodPow_den]

/-- The five permutation facts hold for: the outputs `eps` = the re-encryptions gathered along
`perm`, `usPrime` = the challenges gathered along `perm`, `csP` / `rsP` = the commitments
`h_i · g^{rc_i}` / their exponents scattered along `perm`. -/
theorem permFacts_honest (L : Lawful o q A) (hs : List E) (pk : E) (es : List (Ciphertext E))
    (perm : List Nat) (rPrimes rc us : List X) (N : ℕ) (dC : Ciphertext E) (dX : X)
    (hp : perm.Perm (List.range N)) (lhs : hs.length = N) (les : es.length = N)
    (lrp : rPrimes.length = N) (lrc : rc.length = N) (lus : us.length = N)
    (hhs : ∀ h ∈ hs, L.valid h) (hpk : L.valid pk)
    (hes : ∀ e ∈ es, L.valid e.mhr ∧ L.valid e.gr) :
    PermFacts L hs pk es
      (perm.map (fun p => (List.zipWith (reenc o pk) es rPrimes).getD p dC)) rPrimes
      (perm.map (fun p => us.getD p dX)) us
      (scatter perm (List.zipWith (fun h r => o.modp (o.mul h (o.gmodPow r))) hs rc)
        (List.replicate N o.identE))
      (scatter perm rc (List.replicate N o.oneX)) := by
  have lcs : (List.zipWith (fun h r => o.modp (o.mul h (o.gmodPow r))) hs rc).length = N := by
    rw [List.length_zipWith, lhs, lrc, Nat.min_self]
  have lE0 : (List.zipWith (reenc o pk) es rPrimes).length = N := by
    rw [List.length_zipWith, les, lrp, Nat.min_self]
  have lcsP : (scatter perm (List.zipWith (fun h r => o.modp (o.mul h (o.gmodPow r))) hs rc)
      (List.replicate N o.identE)).length = N := by rw [scatter_length, List.length_replicate]
  have lrsP : (scatter perm rc (List.replicate N o.oneX)).length = N := by
    rw [scatter_length, List.length_replicate]
  have pcs := scatter_perm (init := List.replicate N o.identE) hp lcs List.length_replicate
  have prs := scatter_perm (init := List.replicate N o.oneX) hp lrc List.length_replicate
  have gcs := map_getD_scatter (init := List.replicate N o.identE) hp lcs List.length_replicate
    o.identE
  have grs := map_getD_scatter (init := List.replicate N o.oneX) hp lrc List.length_replicate dX
  have hcommit : ∀ h ∈ hs, ∀ r, L.den (o.modp (o.mul h (o.gmodPow r)))
      = L.den h + L.dx r • L.den o.generator := fun h hh r => L.commit_den (hhs h hh) r
  refine ⟨?_, ?_, ?_, ?_, ?_⟩
  · rw [(pcs.map L.den).sum_eq, (prs.map L.dx).sum_eq]
    exact L.sum_mk L.den L.den _ _ hs rc hcommit (by rw [lhs, lrc])
  · exact ((perm_map_getD_perm dX (by rw [lus]; exact hp)).map L.dx).prod_eq.symm
  · rw [← sum_zipWith_gather (perm := perm) (fun a u => L.dx u • L.den a) o.identE dX (by rw [lcsP]; exact hp)
        (by rw [lus, lcsP]), gcs,
      ← sum_zipWith_gather (perm := perm) (fun r u => L.dx r * L.dx u) dX dX (by rw [lrsP]; exact hp)
        (by rw [lus, lrsP]), grs]
    exact L.sum_shift L.den L.den _ _ hs rc _ hcommit (by rw [lhs, lrc])
  · rw [sum_zipWith_gather (fun (e : Ciphertext E) u => L.dx u • L.den e.mhr) dC dX
      (by rw [lE0]; exact hp) (by rw [lus, lE0])]
    exact L.sum_shift (fun e : Ciphertext E => L.den e.mhr) (fun e : Ciphertext E => L.den e.mhr)
      (reenc o pk) _ es rPrimes us (fun e he r => L.reenc_mhr_den hpk (hes e he).1 r)
      (by rw [les, lrp])
  · rw [sum_zipWith_gather (fun (e : Ciphertext E) u => L.dx u • L.den e.gr) dC dX
      (by rw [lE0]; exact hp) (by rw [lus, lE0])]
    exact L.sum_shift (fun e : Ciphertext E => L.den e.gr) (fun e : Ciphertext E => L.den e.gr)
      (reenc o pk) _ es rPrimes us (fun e he r => L.reenc_gr_den pk (hes e he).2 r)
      (by rw [les, lrp])

/-! ### the guards of the model all pass -/

theorem shuffleUs_length (es ePrimes : List (Ciphertext E)) (cs : List E) (n : ℕ) (label : Bytes) :
    (shuffleUs o es ePrimes cs n label).length = n := by
  unfold shuffleUs; simp

/-- `apply_permutation` on a permutation of `range N` with enough randomness -/
theorem applyPermutation_eq (pk : E) (perm : List Nat) (es : List (Ciphertext E))
    (tape : List X) (dC : Ciphertext E) (hp : perm.Perm (List.range es.length))
    (ht : es.length ≤ tape.length) :
    applyPermutation o pk perm es tape
      = .ok ((perm.map (fun p =>
          (List.zipWith (reenc o pk) es (tape.take es.length)).getD p dC), tape.take es.length),
          tape.drop es.length) := by
  have hl : (List.zipWith (reenc o pk) es (tape.take es.length)).length = es.length := by
    rw [List.length_zipWith, List.length_take]; omega
  unfold applyPermutation
  rw [if_neg (by rw [perm_length hp]; simp), if_neg (by omega)]
  simp only [applyPermutationWith]
  rw [mapOpt_getElem?_eq_some _ dC perm (by rw [hl]; exact perm_lt hp)]

/-- `gen_proof` on a permutation of `range N` with enough randomness: every guard passes and the
result is `genProofCore` on the scattered commitments and the gathered challenges -/
theorem genProof_eq (h0 : E) (hs : List E) (pk : E) (es eps : List (Ciphertext E))
    (rPrimes : List X) (perm : List Nat) (label : Bytes) (tape : List X) (dX : X)
    (hN : 0 < es.length) (hp : perm.Perm (List.range es.length)) (lhs : hs.length = es.length)
    (leps : eps.length = es.length) (lrp : rPrimes.length = es.length)
    (ht : 4 * es.length + 4 ≤ tape.length) :
    ∃ tp rest,
      tp.rHats.length = es.length ∧ tp.omegaHats.length = es.length ∧
      tp.omegaPrimes.length = es.length ∧
      genProof o (h0 :: hs) pk es eps rPrimes perm label tape
        = .ok (genProofCore o h0 hs pk es eps rPrimes
            (perm.map (fun p => (shuffleUs o es eps
              (scatter perm (List.zipWith (fun h r => o.modp (o.mul h (o.gmodPow r))) hs
                (tape.take es.length)) (List.replicate es.length o.identE))
              es.length label).getD p dX))
            (shuffleUs o es eps
              (scatter perm (List.zipWith (fun h r => o.modp (o.mul h (o.gmodPow r))) hs
                (tape.take es.length)) (List.replicate es.length o.identE))
              es.length label)
            (scatter perm (List.zipWith (fun h r => o.modp (o.mul h (o.gmodPow r))) hs
                (tape.take es.length)) (List.replicate es.length o.identE))
            (scatter perm (tape.take es.length) (List.replicate es.length o.oneX))
            label tp, rest) := by
  have lperm := perm_length hp
  have hany : perm.any (fun p => decide (perm.length ≤ p)) = false := by
    rw [List.any_eq_false]
    intro p hpm
    have := perm_lt hp p hpm
    simp only [decide_eq_true_eq]; omega
  refine ⟨{ rHats := (tape.drop es.length).take es.length,
             omegas := ((tape.drop es.length).drop es.length).take 4,
             omegaHats := ((tape.drop es.length).drop (es.length + 4)).take es.length,
             omegaPrimes := ((tape.drop es.length).drop (2 * es.length + 4)).take es.length },
    (tape.drop es.length).drop (3 * es.length + 4), ?_, ?_, ?_, ?_⟩
  case refine_4 =>
    unfold genProof genCommitments
    simp only
    rw [if_neg (by omega), if_neg (by omega), hany]
    simp only [Bool.false_eq_true, if_false, genCommitmentsWith, lhs, lperm]
    unfold genProofExt
    simp only
    rw [if_neg (by omega)]
    rw [mapOpt_getElem?_eq_some _ dX perm (by rw [shuffleUs_length]; exact perm_lt hp)]
    simp only [splitProofTape]
    rw [if_neg (by rw [List.length_drop]; omega)]
    simp only
    rw [if_neg (by rw [scatter_length, List.length_replicate]; omega),
      List.take_of_length_le
        (l := scatter perm (tape.take es.length) (List.replicate es.length o.oneX))
        (by rw [scatter_length, List.length_replicate])]
  all_goals simp only [List.length_take, List.length_drop]; omega

/-! ### validity and lengths of the honest proof -/

section core2
variable (L : Lawful o q A) (h0 : E) (hs : List E) (pk : E) (es eps : List (Ciphertext E))
  (rPrimes usPrime us : List X) (csP : List E) (rsP : List X) (label : Bytes) (tp : ProofTape X)

local notation "PF" => genProofCore o h0 hs pk es eps rPrimes usPrime us csP rsP label tp

theorem core_ProofV (hh0 : L.valid h0) (hhs : ∀ h ∈ hs, L.valid h) (hpk : L.valid pk)
    (heps : ∀ e ∈ eps, L.valid e.mhr ∧ L.valid e.gr) (hcsP : ∀ x ∈ csP, L.valid x) :
    ProofV L (PF) where
  t1 := L.gmodPow_V _
  t2 := L.gmodPow_V _
  t3 := L.modp_mul_V (L.gmodPow_valid _) (L.prodMod_pow_valid' _ _ hhs)
  t4_1 := L.modp_mul_V (L.emodPow_valid _ (L.invp_valid hpk))
    (L.prodMod_pow_valid Ciphertext.mhr _ _ (fun e he => (heps e he).1))
  t4_2 := L.modp_mul_V (L.emodPow_valid _ (L.invp_valid L.gen_valid))
    (L.prodMod_pow_valid Ciphertext.gr _ _ (fun e he => (heps e he).2))
  tHats := by
    rw [core_tHats]
    apply forall_mem_zipWith (P := L.V)
    intro pw hpw wh _
    have hm : pw.1 ∈ h0 :: chain o h0 usPrime tp.rHats := (List.of_mem_zip hpw).1
    have hv : L.valid pw.1 := by
      rcases List.mem_cons.mp hm with h | h
      · rw [h]; exact hh0
      · exact (L.chain_V h0 usPrime tp.rHats hh0 _ h).1
    exact L.modp_mul_V (L.gmodPow_valid _) (L.emodPow_valid _ hv)
  cs := hcsP
  cHats := fun x hx => (L.chain_V h0 usPrime tp.rHats hh0 x hx).1

theorem core_LengthsOK (N : ℕ) (hN : 0 < N) (les : es.length = N) (leps : eps.length = N)
    (lhs : hs.length = N) (lcsP : csP.length = N) (lup : usPrime.length = N)
    (l1 : tp.rHats.length = N) (l2 : tp.omegaHats.length = N) (l3 : tp.omegaPrimes.length = N) :
    LengthsOK (h0 :: hs) (PF) es eps := by
  unfold LengthsOK
  rw [core_cs, core_cHats, core_tHats, core_sHats, core_sPrimes]
  simp only [List.length_zipWith, List.length_zip, List.length_cons, chain_length]
  omega

end core2

/-! ### completeness -/

/-- **Completeness of the shuffle**, generators given as `h0 :: hs`. -/
theorem shuffle_complete_cons [DecidableEq E] (L : Lawful o q A) (h0 : E) (hs : List E) (pk : E)
    (es : List (Ciphertext E)) (perm : List Nat) (tape1 tape2 : List X) (label : Bytes)
    (hN : 0 < es.length) (hperm : perm.Perm (List.range es.length))
    (lhs : hs.length = es.length) (hh0 : L.valid h0) (hhs : ∀ h ∈ hs, L.valid h)
    (hpk : L.valid pk) (hes : ∀ c ∈ es, L.valid c.mhr ∧ L.valid c.gr)
    (ht1 : es.length ≤ tape1.length) (ht2 : 4 * es.length + 4 ≤ tape2.length) :
    ∃ eps rs rest1 pf rest2,
      applyPermutation o pk perm es tape1 = .ok ((eps, rs), rest1) ∧
      genProof o (h0 :: hs) pk es eps rs perm label tape2 = .ok (pf, rest2) ∧
      checkProof o (h0 :: hs) pk pf es eps label = true := by
  have lperm := perm_length hperm
  have lrs : (tape1.take es.length).length = es.length := by rw [List.length_take]; omega
  have lrc : (tape2.take es.length).length = es.length := by rw [List.length_take]; omega
  -- the outputs
  have hE0 : ∀ e ∈ List.zipWith (reenc o pk) es (tape1.take es.length),
      L.valid e.mhr ∧ L.valid e.gr :=
    forall_mem_zipWith (P := fun e : Ciphertext E => L.valid e.mhr ∧ L.valid e.gr) _ _
      (fun e he r _ => ⟨(L.reenc_V hpk (hes e he) r).1.1, (L.reenc_V hpk (hes e he) r).2.1⟩)
  have lE0 : (List.zipWith (reenc o pk) es (tape1.take es.length)).length = es.length := by
    rw [List.length_zipWith, lrs, Nat.min_self]
  have pE0 := perm_map_getD_perm (l := List.zipWith (reenc o pk) es (tape1.take es.length))
    (perm := perm) ⟨o.identE, o.identE⟩ (by rw [lE0]; exact hperm)
  have heps : ∀ e ∈ perm.map (fun p =>
      (List.zipWith (reenc o pk) es (tape1.take es.length)).getD p ⟨o.identE, o.identE⟩),
      L.valid e.mhr ∧ L.valid e.gr := fun e he => hE0 e (pE0.mem_iff.mp he)
  have leps : (perm.map (fun p => (List.zipWith (reenc o pk) es
      (tape1.take es.length)).getD p ⟨o.identE, o.identE⟩)).length = es.length := by
    rw [List.length_map, lperm]
  -- the permuted commitments
  have lcs : (List.zipWith (fun h r => o.modp (o.mul h (o.gmodPow r))) hs
      (tape2.take es.length)).length = es.length := by
    rw [List.length_zipWith, lhs, lrc, Nat.min_self]
  have hcs : ∀ x ∈ List.zipWith (fun h r => o.modp (o.mul h (o.gmodPow r))) hs
      (tape2.take es.length), L.valid x :=
    forall_mem_zipWith (P := L.valid) _ _
      (fun h hh r _ => (L.modp_mul_V (hhs h hh) (L.gmodPow_valid r)).1)
  have pcs := scatter_perm (init := List.replicate es.length o.identE) hperm lcs
    List.length_replicate
  have hcsP : ∀ x ∈ scatter perm (List.zipWith (fun h r => o.modp (o.mul h (o.gmodPow r))) hs
      (tape2.take es.length)) (List.replicate es.length o.identE), L.valid x :=
    fun x hx => hcs x (pcs.mem_iff.mp hx)
  -- run the model
  obtain ⟨tp, rest2, l1, l2, l3, hgen⟩ := genProof_eq (o := o) h0 hs pk es _ (tape1.take es.length)
    perm label tape2 o.zeroX hN hperm lhs leps lrs ht2
  refine ⟨_, _, _, _, _, applyPermutation_eq pk perm es tape1 ⟨o.identE, o.identE⟩ hperm ht1,
    hgen, ?_⟩
  have lup : (perm.map (fun p => (shuffleUs o es (perm.map (fun p =>
      (List.zipWith (reenc o pk) es (tape1.take es.length)).getD p ⟨o.identE, o.identE⟩))
      (scatter perm (List.zipWith (fun h r => o.modp (o.mul h (o.gmodPow r))) hs
        (tape2.take es.length)) (List.replicate es.length o.identE))
      es.length label).getD p o.zeroX)).length = es.length := by
    rw [List.length_map, lperm]
  have F := permFacts_honest L hs pk es perm (tape1.take es.length) (tape2.take es.length)
    (shuffleUs o es (perm.map (fun p =>
      (List.zipWith (reenc o pk) es (tape1.take es.length)).getD p ⟨o.identE, o.identE⟩))
      (scatter perm (List.zipWith (fun h r => o.modp (o.mul h (o.gmodPow r))) hs
        (tape2.take es.length)) (List.replicate es.length o.identE)) es.length label)
    es.length ⟨o.identE, o.identE⟩ o.zeroX hperm lhs rfl lrs lrc (shuffleUs_length ..) hhs hpk hes
  have hgv : ∀ g ∈ h0 :: hs, L.valid g := by
    intro g hg
    rcases List.mem_cons.mp hg with rfl | hg
    · exact hh0
    · exact hhs g hg
  rw [check_accepts_iff L (h0 :: hs) pk _ es _ label hgv hpk hes heps
    (core_ProofV L h0 hs pk es _ _ _ _ _ _ label tp hh0 hhs hpk heps hcsP)]
  refine ⟨core_LengthsOK h0 hs pk es _ _ _ _ _ _ label tp es.length hN rfl leps lhs
    (by rw [scatter_length, List.length_replicate]) lup l1 l2 l3, ?_⟩
  exact core_TW L h0 label tp F hh0 hhs hpk heps (by rw [lup, l1]) (by rw [lup, l3])

end Strand
