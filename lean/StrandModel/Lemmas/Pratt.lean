import Mathlib.NumberTheory.LucasPrimality
import Mathlib.Algebra.BigOperators.Associated
import Mathlib.Data.Nat.Prime.Basic
import StrandModel.Lemmas.Powm
namespace Strand

theorem zmod_pow_eq_one_iff_powm {n : ℕ} (hn : 1 < n) (a e : ℕ) :
    ((a : ZMod n) ^ e = 1) ↔ powm a e n = 1 := by
  rw [powm_eq, ← Nat.cast_pow, ← Nat.cast_one (R := ZMod n), ZMod.natCast_eq_natCast_iff',
    Nat.mod_eq_of_lt hn]

/-- Pratt / Lucas step: `fs` is the list of prime factors of `n - 1` (with multiplicity),
    `a` is a primitive root mod `n`; all modular powers are stated with `powm`. -/
theorem pratt_step (n a : ℕ) (fs : List ℕ) (hn : 1 < n)
    (hprod : fs.prod = n - 1)
    (hprime : ∀ p ∈ fs, Nat.Prime p)
    (h1 : powm a (n - 1) n = 1)
    (hne : ∀ p ∈ fs, powm a ((n - 1) / p) n ≠ 1) : Nat.Prime n := by
  apply lucas_primality n (a : ZMod n)
  · exact (zmod_pow_eq_one_iff_powm hn a _).2 h1
  · intro q hq hdvd
    rw [← hprod, (Nat.Prime.prime hq).dvd_prod_iff] at hdvd
    obtain ⟨p, hp, hqp⟩ := hdvd
    have : q = p := (Nat.prime_dvd_prime_iff_eq hq (hprime p hp)).1 hqp
    subst this
    rw [Ne, zmod_pow_eq_one_iff_powm hn]
    exact hne q hp

end Strand
