import Mathlib.FieldTheory.Finite.Basic
import StrandModel.Lemmas.NatLawful
import StrandModel.Model.Generators
/-
Facts about `generators_fips` (`Model/Generators.lean`).  SHA-512 is never unfolded: everything
here holds for an arbitrary hash function in place of `natHashToElement`.
-/
set_option linter.unusedSectionVars false
namespace Strand

/-! ### `mapOpt` as a `map` -/

/-- `mapOpt f l` succeeds with `ys` iff `f` maps `l` pointwise onto `ys` -/
theorem mapOpt_eq_some_iff_map {α β : Type} {f : α → Option β} :
    ∀ {l : List α} {ys : List β}, mapOpt f l = some ys ↔ l.map f = ys.map some
  | [], ys => by
    rw [mapOpt, Option.some.injEq, List.map_nil]
    constructor
    · rintro rfl; rfl
    · intro h; exact (List.map_eq_nil_iff.mp h.symm).symm
  | a :: as, ys => by
    rw [mapOpt, List.map_cons]
    cases hfa : f a with
    | none =>
      constructor
      · intro h; cases h
      · intro h
        cases ys with
        | nil => cases h
        | cons y ys => rw [List.map_cons, List.cons.injEq] at h; cases h.1
    | some b =>
      cases has : mapOpt f as with
      | none =>
        constructor
        · intro h; cases h
        · intro h
          cases ys with
          | nil => cases h
          | cons y ys =>
            rw [List.map_cons, List.cons.injEq] at h
            rw [mapOpt_eq_some_iff_map.mpr h.2] at has
            cases has
      | some bs =>
        have ih := mapOpt_eq_some_iff_map.mp has
        constructor
        · intro h
          simp only [Option.some.injEq] at h
          rw [← h, List.map_cons, ih]
        · intro h
          cases ys with
          | nil => cases h
          | cons y ys =>
            rw [List.map_cons, List.cons.injEq, Option.some.injEq] at h
            rw [ih] at h
            have := List.map_injective_iff.mpr (Option.some_injective β) h.2
            rw [h.1, this]

theorem mapOpt_length {α β : Type} {f : α → Option β} {l : List α} {ys : List β}
    (h : mapOpt f l = some ys) : ys.length = l.length := by
  have := congrArg List.length (mapOpt_eq_some_iff_map.mp h)
  simpa using this.symm

theorem mapOpt_isSome_iff {α β : Type} {f : α → Option β} :
    ∀ {l : List α}, (∃ ys, mapOpt f l = some ys) ↔ ∀ a ∈ l, (f a).isSome
  | [] => by simp [mapOpt]
  | a :: as => by
    have ih := mapOpt_isSome_iff (f := f) (l := as)
    rw [mapOpt]
    cases hfa : f a with
    | none =>
      constructor
      · rintro ⟨_, h⟩; cases h
      · intro h
        have := h a (List.mem_cons_self ..)
        rw [hfa] at this; cases this
    | some b =>
      cases has : mapOpt f as with
      | none =>
        constructor
        · rintro ⟨_, h⟩; cases h
        · intro h
          obtain ⟨ys, hys⟩ := ih.mpr (fun x hx => h x (List.mem_cons_of_mem _ hx))
          rw [has] at hys; cases hys
      | some bs =>
        constructor
        · intro _ x hx
          rcases List.mem_cons.mp hx with rfl | hx
          · rw [hfa]; rfl
          · exact ih.mp ⟨bs, has⟩ x hx
        · intro _; exact ⟨_, rfl⟩

/-! ### the retry loop -/

/-- the hashed string after `c` rounds: the prefix followed by `index ‖ count` for
    `count = 1..c` (the Rust appends to `next` on every retry) -/
def genInput (pre : Bytes) (index : Nat) : Nat → Bytes
  | 0 => pre
  | c + 1 => genInput pre index c ++ u64le index ++ u64le (c + 1)

/-- the candidate of round `c`: hash to `[0,p)`, raise to the cofactor -/
def genCand (P : Params) (fl : Flavour) (pre : Bytes) (index c : Nat) : Nat :=
  powm (natHashToElement P fl (genInput pre index c)) P.cofactor P.p

/-- the loop returns the first candidate `≥ 2` among the rounds `c0+1 .. c0+fuel` -/
theorem genLoop_spec (P : Params) (fl : Flavour) (pre : Bytes) (index : Nat) :
    ∀ (fuel c0 g : Nat),
      genLoop P fl index fuel (genInput pre index c0) c0 = some g ↔
        ∃ c, c0 < c ∧ c ≤ c0 + fuel ∧ g = genCand P fl pre index c ∧ 2 ≤ g ∧
          ∀ j, c0 < j → j < c → genCand P fl pre index j < 2
  | 0, c0, g => by
    rw [genLoop]
    constructor
    · intro h; cases h
    · rintro ⟨c, h1, h2, _⟩; omega
  | fuel + 1, c0, g => by
    rw [genLoop]
    have hcand : powm (natHashToElement P fl (genInput pre index c0 ++ u64le index
        ++ u64le (c0 + 1))) P.cofactor P.p = genCand P fl pre index (c0 + 1) := rfl
    simp only [hcand]
    by_cases h2 : genCand P fl pre index (c0 + 1) ≥ 2
    · rw [if_pos h2, Option.some.injEq]
      constructor
      · intro h
        exact ⟨c0 + 1, by omega, by omega, h.symm, h ▸ h2, fun j h3 h4 => by omega⟩
      · rintro ⟨c, h3, _, h5, _, h7⟩
        by_cases hc : c = c0 + 1
        · rw [h5, hc]
        · have := h7 (c0 + 1) (by omega) (by omega)
          omega
    · rw [if_neg h2]
      have hin : genInput pre index c0 ++ u64le index ++ u64le (c0 + 1)
          = genInput pre index (c0 + 1) := rfl
      rw [hin, genLoop_spec P fl pre index fuel (c0 + 1) g]
      constructor
      · rintro ⟨c, h3, h4, h5, h6, h7⟩
        refine ⟨c, by omega, by omega, h5, h6, fun j h8 h9 => ?_⟩
        by_cases hj : j = c0 + 1
        · rw [hj]; omega
        · exact h7 j (by omega) h9
      · rintro ⟨c, h3, h4, h5, h6, h7⟩
        have hne : c ≠ c0 + 1 := by
          rintro rfl
          rw [h5] at h6
          exact h2 h6
        exact ⟨c, by omega, by omega, h5, h6, fun j h8 h9 => h7 j (by omega) h9⟩

/-- the documented derivation: `genAt` is the first candidate `≥ 2` -/
theorem genAt_spec (P : Params) (fl : Flavour) (seed : Bytes) (index g : Nat) :
    genAt P fl seed index = some g ↔
      ∃ c, 1 ≤ c ∧ c ≤ genFuel ∧ g = genCand P fl (seed ++ asciiBytes "ggen") index c ∧ 2 ≤ g ∧
        ∀ j, 1 ≤ j → j < c → genCand P fl (seed ++ asciiBytes "ggen") index j < 2 := by
  unfold genAt
  have := genLoop_spec P fl (seed ++ asciiBytes "ggen") index genFuel 0 g
  rw [show genInput (seed ++ asciiBytes "ggen") index 0 = seed ++ asciiBytes "ggen" from rfl] at this
  rw [this]
  constructor
  · rintro ⟨c, h1, h2, h3, h4, h5⟩
    exact ⟨c, by omega, by omega, h3, h4, fun j h6 h7 => h5 j (by omega) h7⟩
  · rintro ⟨c, h1, h2, h3, h4, h5⟩
    exact ⟨c, by omega, by omega, h3, h4, fun j h6 h7 => h5 j (by omega) h7⟩

/-- every output of the loop is a cofactor power that passed the `≥ 2` guard -/
theorem genAt_eq_powm {P : Params} {fl : Flavour} {seed : Bytes} {index g : Nat}
    (h : genAt P fl seed index = some g) :
    ∃ e, g = powm e P.cofactor P.p ∧ 2 ≤ g := by
  obtain ⟨c, _, _, h3, h4, _⟩ := (genAt_spec P fl seed index g).mp h
  exact ⟨_, h3, h4⟩

/-- a cofactor power `≥ 2` is a member of the order-`q` subgroup (`cofactor · q = p − 1`):
    the guard `g ≥ 2` excludes `e ≡ 0`, then Fermat -/
theorem natValid_cofactor_pow {P : Params} (hp : P.p.Prime) (hc : P.cofactor * P.q + 1 = P.p)
    {e g : Nat} (hg : g = powm e P.cofactor P.p) (h2 : 2 ≤ g) : natValid P g := by
  have : Fact P.p.Prime := ⟨hp⟩
  have hcof : P.cofactor ≠ 0 := by
    intro h0
    rw [h0, Nat.zero_mul] at hc
    exact hp.one_lt.ne hc
  have he : (e : ZMod P.p) ≠ 0 := by
    intro h0
    have : ((g : ℕ) : ZMod P.p) = 0 := by
      rw [hg, natCast_powm, h0, zero_pow hcof]
    rw [ZMod.natCast_eq_zero_iff] at this
    have hlt : g < P.p := by
      rw [hg, powm_eq]; exact Nat.mod_lt _ hp.pos
    have := Nat.le_of_dvd (by omega) this
    omega
  unfold natValid
  rw [hg, natCast_powm, ← pow_mul]
  have : P.cofactor * P.q = P.p - 1 := by omega
  rw [this]
  exact ZMod.pow_card_sub_one_eq_one he

end Strand
