import Mathlib.FieldTheory.Finite.Basic
import StrandModel.Lemmas.NatLawful
/-
Facts about the plaintext encoding (`Nat'.encode` / `Nat'.decode`) and the element / exponent
decoders (`Nat'.elementFromNat`, `Nat'.expFromNat`) of the `Nat` back-end.
-/
namespace Strand

/-! ### Euler's criterion value -/

/-- for `p = 2q+1` the exponent `(p-1)/2` of Euler's criterion is `q` -/
theorem euler_eq_pow (P : Params) (hp : P.p = 2 * P.q + 1) (a : ℕ) :
    euler a P.p = a ^ P.q % P.p := by
  have hq : (P.p - 1) / 2 = P.q := by omega
  unfold euler
  rw [hq, powm_eq]

/-- `a ^ q % p = 1` is the same as `natValid P a`, as soon as `1 < p` -/
theorem natValid_iff_pow (P : Params) (hp1 : 1 < P.p) (a : ℕ) :
    natValid P a ↔ a ^ P.q % P.p = 1 := by
  constructor
  · intro h
    unfold natValid at h
    apply natCast_inj_of_lt (Nat.mod_lt _ (by omega)) hp1
    rw [ZMod.natCast_mod, Nat.cast_pow, Nat.cast_one, h]
  · exact natValid_of_pow P a

/-! ### the element decoder -/

/-- membership characterisation of the element decoder (no primality needed) -/
theorem elementFromNat_eq_some_iff (P : Params) (hp : P.p = 2 * P.q + 1) (n e : ℕ) :
    Nat'.elementFromNat P n = some e ↔ e = n ∧ 1 ≤ n ∧ n < P.p ∧ n ^ P.q % P.p = 1 := by
  unfold Nat'.elementFromNat
  rw [euler_eq_pow P hp]
  split_ifs with h1 h2
  · constructor
    · intro h; cases h
    · rintro ⟨_, h3, h4, _⟩; omega
  · constructor
    · intro h; cases h
    · rintro ⟨_, _, _, h5⟩; exact absurd h5 h2
  · rw [Option.some.injEq]
    constructor
    · intro h; exact ⟨h.symm, by omega, by omega, not_not.mp h2⟩
    · rintro ⟨h, _⟩; exact h.symm

/-- whatever the element decoder accepts is a canonical group member -/
theorem elementFromNat_valid (P : Params) (hp : P.p = 2 * P.q + 1) (n e : ℕ)
    (h : Nat'.elementFromNat P n = some e) : natValid P e ∧ e < P.p := by
  obtain ⟨rfl, _, hlt, hpow⟩ := (elementFromNat_eq_some_iff P hp n e).mp h
  exact ⟨natValid_of_pow P e hpow, hlt⟩

/-- the element decoder is the identity on what it accepts, and it accepts exactly the canonical
    members different from `0` -/
theorem elementFromNat_eq_some_iff_valid (P : Params) (hp : P.p = 2 * P.q + 1) (n e : ℕ) :
    Nat'.elementFromNat P n = some e ↔ e = n ∧ 1 ≤ n ∧ n < P.p ∧ natValid P n := by
  rw [elementFromNat_eq_some_iff P hp]
  constructor
  · rintro ⟨h1, h2, h3, h4⟩; exact ⟨h1, h2, h3, natValid_of_pow P n h4⟩
  · rintro ⟨h1, h2, h3, h4⟩; exact ⟨h1, h2, h3, (natValid_iff_pow P (by omega) n).mp h4⟩

theorem elementFromNat_zero (P : Params) : Nat'.elementFromNat P 0 = none := by
  unfold Nat'.elementFromNat
  rw [if_pos (Or.inl Nat.zero_lt_one)]

theorem elementFromNat_ge (P : Params) (n : ℕ) (h : P.p ≤ n) :
    Nat'.elementFromNat P n = none := by
  unfold Nat'.elementFromNat
  rw [if_pos (Or.inr h)]

/-- `p - 1 ≡ -1` is not a member when `q` is odd: `(-1)^q = -1 ≠ 1` since `p > 2` -/
theorem elementFromNat_p_sub_one (P : Params) (h : SafePrimeGroup P) (hq : P.q % 2 = 1) :
    Nat'.elementFromNat P (P.p - 1) = none := by
  have hp := h.p_eq
  have hq2 := h.q_prime.two_le
  have : Fact P.p.Prime := ⟨h.p_prime⟩
  cases hres : Nat'.elementFromNat P (P.p - 1) with
  | none => rfl
  | some e =>
    exfalso
    obtain ⟨_, _, _, hpow⟩ := (elementFromNat_eq_some_iff P hp _ e).mp hres
    have hv : natValid P (P.p - 1) := natValid_of_pow P _ hpow
    unfold natValid at hv
    rw [Nat.cast_sub (by omega), ZMod.natCast_self, zero_sub, Nat.cast_one,
      (Nat.odd_iff.mpr hq).neg_one_pow] at hv
    -- `-1 = 1` in `ZMod p` forces `p ∣ 2`
    have h2 : ((2 : ℕ) : ZMod P.p) = 0 := by
      have : (1 : ZMod P.p) + 1 = 0 := by
        nth_rewrite 1 [← hv]
        exact neg_add_cancel 1
      rw [Nat.cast_ofNat, ← one_add_one_eq_two]; exact this
    rw [ZMod.natCast_eq_zero_iff] at h2
    have := Nat.le_of_dvd (by norm_num) h2
    omega

/-- the hypothesis `q` odd cannot be dropped in `elementFromNat_p_sub_one`: `p = 5`, `q = 2`,
    `g = 4` is a `SafePrimeGroup` and `4 = p - 1` is accepted -/
example : SafePrimeGroup ⟨5, 2, 4, 2⟩ ∧ Nat'.elementFromNat ⟨5, 2, 4, 2⟩ (5 - 1) = some 4 :=
  ⟨{ p_prime := by norm_num
     q_prime := by norm_num
     p_eq := by norm_num
     g_gt := by norm_num
     g_lt := by norm_num
     g_order := by decide }, by decide⟩

/-- `element_from_bytes` accepts exactly the byte strings denoting a canonical member -/
theorem elementFromBytes_eq_some_iff (P : Params) (hp : P.p = 2 * P.q + 1) (fl : Flavour)
    (bs : Bytes) (e : ℕ) :
    elementFromBytes P fl bs = some e ↔
      e = natOfBytes fl bs ∧ 1 ≤ e ∧ e < P.p ∧ natValid P e := by
  unfold elementFromBytes
  rw [elementFromNat_eq_some_iff_valid P hp]
  constructor
  · rintro ⟨rfl, h2, h3, h4⟩; exact ⟨rfl, h2, h3, h4⟩
  · rintro ⟨rfl, h2, h3, h4⟩; exact ⟨rfl, h2, h3, h4⟩

/-! ### the exponent decoder -/

theorem expFromNat_eq_some_iff (P : Params) (n e : ℕ) :
    Nat'.expFromNat P n = some e ↔ e = n ∧ n < P.q := by
  unfold Nat'.expFromNat
  split_ifs with h
  · constructor
    · intro h'; cases h'
    · rintro ⟨_, h'⟩; omega
  · rw [Option.some.injEq]
    constructor
    · intro h'; exact ⟨h'.symm, by omega⟩
    · rintro ⟨h', _⟩; exact h'.symm

theorem expFromNat_ge (P : Params) (n : ℕ) (h : P.q ≤ n) : Nat'.expFromNat P n = none := by
  unfold Nat'.expFromNat
  rw [if_pos h]

theorem expFromNat_lt (P : Params) (n : ℕ) (h : n < P.q) : Nat'.expFromNat P n = some n := by
  rw [expFromNat_eq_some_iff]; exact ⟨rfl, h⟩

theorem expFromBytes_eq_some_iff (P : Params) (fl : Flavour) (bs : Bytes) (e : ℕ) :
    expFromBytes P fl bs = some e ↔ e = natOfBytes fl bs ∧ e < P.q := by
  unfold expFromBytes
  rw [expFromNat_eq_some_iff]
  constructor
  · rintro ⟨rfl, h⟩; exact ⟨rfl, h⟩
  · rintro ⟨rfl, h⟩; exact ⟨rfl, h⟩

/-! ### the plaintext encoding -/

/-- refusal outside the plaintext space `[0, q-1)`; no hypotheses -/
theorem encode_none_of_ge (P : Params) (m : ℕ) (h : P.q - 1 ≤ m) : Nat'.encode P m = none := by
  unfold Nat'.encode
  rw [if_pos h]

/-- the encoder, spelled out (only `p = 2q+1` needed) -/
theorem encode_eq_some_iff (P : Params) (hp : P.p = 2 * P.q + 1) (m e : ℕ) :
    Nat'.encode P m = some e ↔
      m < P.q - 1 ∧ (m + 1) ^ P.q % P.p ≠ 0 ∧
        e = if (m + 1) ^ P.q % P.p = 1 then m + 1 else P.p - (m + 1) := by
  unfold Nat'.encode
  simp only [euler_eq_pow P hp]
  by_cases h1 : m ≥ P.q - 1
  · rw [if_pos h1]
    constructor
    · intro h; cases h
    · rintro ⟨h, _⟩; omega
  · rw [if_neg h1]
    by_cases h2 : (m + 1) ^ P.q % P.p = 0
    · rw [if_pos h2]
      constructor
      · intro h; cases h
      · rintro ⟨_, h, _⟩; exact absurd h2 h
    · rw [if_neg h2]
      have hlt : (if (m + 1) ^ P.q % P.p = 1 then m + 1 else P.p - (m + 1)) < P.p := by
        split_ifs <;> omega
      rw [Nat.mod_eq_of_lt hlt, Option.some.injEq]
      constructor
      · intro h; exact ⟨by omega, h2, h.symm⟩
      · rintro ⟨_, _, h⟩; exact h.symm

/-- for a prime `p`, the Euler value of `x ∈ [1, p)` is never `0` -/
theorem pow_mod_ne_zero_of_prime {p : ℕ} (hp : p.Prime) {x : ℕ} (hx1 : 1 ≤ x) (hxp : x < p)
    (k : ℕ) : x ^ k % p ≠ 0 := by
  intro h0
  have hdvd : p ∣ x ^ k := Nat.dvd_of_mod_eq_zero h0
  have := Nat.le_of_dvd (by omega) (hp.dvd_of_dvd_pow hdvd)
  omega

/-- encoding succeeds exactly on the plaintext space -/
theorem encode_isSome_iff (P : Params) (h : SafePrimeGroup P) (m : ℕ) :
    (∃ e, Nat'.encode P m = some e) ↔ m < P.q - 1 := by
  constructor
  · rintro ⟨e, he⟩
    exact ((encode_eq_some_iff P h.p_eq m e).mp he).1
  · intro hm
    have hp := h.p_eq
    exact ⟨_, (encode_eq_some_iff P hp m _).mpr
      ⟨hm, pow_mod_ne_zero_of_prime h.p_prime (by omega) (by omega) _, rfl⟩⟩

/-- in the field `ZMod p`, `p = 2q+1` prime: `x ^ q = ±1` for `x ≠ 0` -/
theorem zmod_pow_q_eq_one_or_neg_one (P : Params) (hp : P.p = 2 * P.q + 1)
    (hprime : P.p.Prime) {a : ZMod P.p} (ha : a ≠ 0) : a ^ P.q = 1 ∨ a ^ P.q = -1 := by
  have : Fact P.p.Prime := ⟨hprime⟩
  have h1 : a ^ (P.p - 1) = 1 := ZMod.pow_card_sub_one_eq_one ha
  have he : P.p - 1 = P.q * 2 := by omega
  rw [he, pow_mul, pow_two] at h1
  exact mul_self_eq_one_iff.mp h1

/-- encoded plaintexts are canonical members, `q` odd -/
theorem encode_valid (P : Params) (h : SafePrimeGroup P) (hq : P.q % 2 = 1) (m e : ℕ)
    (he : Nat'.encode P m = some e) : 1 ≤ e ∧ e < P.p ∧ natValid P e := by
  have hp := h.p_eq
  have : Fact P.p.Prime := ⟨h.p_prime⟩
  obtain ⟨hm, _, rfl⟩ := (encode_eq_some_iff P hp m e).mp he
  split_ifs with hl
  · exact ⟨by omega, by omega, natValid_of_pow P _ hl⟩
  · refine ⟨by omega, by omega, ?_⟩
    have hx0 : ((m + 1 : ℕ) : ZMod P.p) ≠ 0 := by
      rw [Ne, ZMod.natCast_eq_zero_iff]
      intro hd
      have := Nat.le_of_dvd (by omega) hd
      omega
    have hneg : ((m + 1 : ℕ) : ZMod P.p) ^ P.q = -1 := by
      rcases zmod_pow_q_eq_one_or_neg_one P hp h.p_prime hx0 with h1 | h1
      · exact absurd ((natValid_iff_pow P (by omega) (m + 1)).mp h1) hl
      · exact h1
    unfold natValid
    rw [Nat.cast_sub (by omega), ZMod.natCast_self, zero_sub, (Nat.odd_iff.mpr hq).neg_pow, hneg,
      neg_neg]

/-- encoded plaintexts are canonical members; `q` odd is in fact not needed: the only even
    prime is `q = 2` (`p = 5`), whose plaintext space is `{0}`, and `0` encodes to `1` -/
theorem encode_valid' (P : Params) (h : SafePrimeGroup P) (m e : ℕ)
    (he : Nat'.encode P m = some e) : 1 ≤ e ∧ e < P.p ∧ natValid P e := by
  rcases h.q_prime.eq_two_or_odd with hq2 | hq
  · have hp := h.p_eq
    obtain ⟨hm, _, rfl⟩ := (encode_eq_some_iff P hp m e).mp he
    have hm0 : m = 0 := by omega
    subst hm0
    have h1 : (0 + 1) ^ P.q % P.p = 1 := by
      rw [Nat.zero_add, Nat.one_pow, Nat.mod_eq_of_lt (by omega)]
    rw [if_pos h1]
    exact ⟨by omega, by omega, natValid_one P⟩
  · exact encode_valid P h hq m e he

/-- `decode` inverts `encode` on the whole plaintext space; needs only `p = 2q+1` -/
theorem decode_encode' (P : Params) (hp : P.p = 2 * P.q + 1) (m e : ℕ)
    (h : Nat'.encode P m = some e) : Nat'.decode P e = m := by
  obtain ⟨hm, _, rfl⟩ := (encode_eq_some_iff P hp m e).mp h
  unfold Nat'.decode
  split_ifs with hl hgt hgt
  · omega
  · omega
  · omega
  · omega

theorem encode_injective (P : Params) (hp : P.p = 2 * P.q + 1) (m₁ m₂ e : ℕ)
    (h₁ : Nat'.encode P m₁ = some e) (h₂ : Nat'.encode P m₂ = some e) : m₁ = m₂ := by
  rw [← decode_encode' P hp m₁ e h₁, ← decode_encode' P hp m₂ e h₂]

/-- every accepted encoding is accepted back by the element decoder -/
theorem elementFromNat_encode (P : Params) (h : SafePrimeGroup P) (m e : ℕ)
    (he : Nat'.encode P m = some e) : Nat'.elementFromNat P e = some e := by
  obtain ⟨h1, h2, h3⟩ := encode_valid' P h m e he
  exact (elementFromNat_eq_some_iff_valid P h.p_eq e e).mpr ⟨rfl, h1, h2, h3⟩

/-! ### non-vacuity on `p = 23`, `q = 11`, `g = 2` -/

-- residues mod 23: 1 2 3 4 6 8 9 12 13 16 18
example : Nat'.encode ⟨23, 11, 2, 2⟩ 0 = some 1 := by decide
example : Nat'.encode ⟨23, 11, 2, 2⟩ 4 = some 18 := by decide
example : Nat'.encode ⟨23, 11, 2, 2⟩ 5 = some 6 := by decide
example : Nat'.encode ⟨23, 11, 2, 2⟩ 9 = some 13 := by decide
example : Nat'.encode ⟨23, 11, 2, 2⟩ 10 = none := by decide
example : Nat'.decode ⟨23, 11, 2, 2⟩ 18 = 4 := by decide
example : Nat'.decode ⟨23, 11, 2, 2⟩ 13 = 9 := by decide
example : Nat'.elementFromNat ⟨23, 11, 2, 2⟩ 18 = some 18 := by decide
example : Nat'.elementFromNat ⟨23, 11, 2, 2⟩ 5 = none := by decide
example : Nat'.elementFromNat ⟨23, 11, 2, 2⟩ 0 = none := by decide
example : Nat'.elementFromNat ⟨23, 11, 2, 2⟩ 22 = none := by decide
example : Nat'.elementFromNat ⟨23, 11, 2, 2⟩ 23 = none := by decide
example : Nat'.elementFromNat ⟨23, 11, 2, 2⟩ 24 = none := by decide
example : Nat'.expFromNat ⟨23, 11, 2, 2⟩ 10 = some 10 := by decide
example : Nat'.expFromNat ⟨23, 11, 2, 2⟩ 11 = none := by decide

/-- `p = 5`, `q = 2` (the only safe-prime group with `q` even) is NOT a counterexample to
    `encode_valid` without `hq`: its only plaintext `0` encodes to the member `1` -/
example : Nat'.encode ⟨5, 2, 4, 2⟩ 0 = some 1 ∧ natValid ⟨5, 2, 4, 2⟩ 1 ∧
    Nat'.encode ⟨5, 2, 4, 2⟩ 1 = none := by
  refine ⟨by decide, natValid_one _, by decide⟩

/-- the image of `encode`, from the other side: every canonical member except the single one that
    decodes to `q - 1` (it is `q` or `q + 1`, whichever is the residue) is the encoding of its own
    decoding.  `q` odd. -/
theorem encode_decode_of_member (P : Params) (h : SafePrimeGroup P) (hq : P.q % 2 = 1) (e : ℕ)
    (h1 : 1 ≤ e) (hlt : e < P.p) (hv : natValid P e) (hne : e ≠ P.q) (hne' : e ≠ P.q + 1) :
    Nat'.encode P (Nat'.decode P e) = some e := by
  have hp := h.p_eq
  have : Fact P.p.Prime := ⟨h.p_prime⟩
  have hq2 : 2 ≤ P.q := h.q_prime.two_le
  have : Fact (2 < P.p) := ⟨by omega⟩
  have hpow : e ^ P.q % P.p = 1 := (natValid_iff_pow P (by omega) e).mp hv
  unfold Nat'.decode
  by_cases hgt : e > P.q
  · -- upper half: `m + 1 = p - e`, a non-residue
    rw [if_pos hgt, encode_eq_some_iff P hp]
    have hm1 : P.p - e - 1 + 1 = P.p - e := by omega
    rw [hm1]
    have hnv : ¬ (P.p - e) ^ P.q % P.p = 1 := by
      intro hc
      have hc' := natValid_of_pow P _ hc
      unfold natValid at hc' hv
      rw [Nat.cast_sub (by omega), ZMod.natCast_self, zero_sub, (Nat.odd_iff.mpr hq).neg_pow, hv]
        at hc'
      exact ZMod.neg_one_ne_one hc'
    refine ⟨by omega, pow_mod_ne_zero_of_prime h.p_prime (by omega) (by omega) _, ?_⟩
    rw [if_neg hnv]; omega
  · rw [if_neg hgt, encode_eq_some_iff P hp]
    have hm1 : e - 1 + 1 = e := by omega
    rw [hm1]
    refine ⟨by omega, by omega, ?_⟩
    rw [if_pos hpow]

/-- conversely the member that decodes to `q - 1` is not an encoding -/
theorem encode_decode_exceptional (P : Params) (h : SafePrimeGroup P) (e : ℕ)
    (he : e = P.q ∨ e = P.q + 1) : Nat'.encode P (Nat'.decode P e) = none := by
  have hp := h.p_eq
  have hq2 : 2 ≤ P.q := h.q_prime.two_le
  apply encode_none_of_ge
  unfold Nat'.decode
  rcases he with rfl | rfl
  · rw [if_neg (by omega)]
  · rw [if_pos (by omega)]; omega

example : Nat'.encode ⟨23, 11, 2, 2⟩ (Nat'.decode ⟨23, 11, 2, 2⟩ 13) = some 13 ∧
    Nat'.encode ⟨23, 11, 2, 2⟩ (Nat'.decode ⟨23, 11, 2, 2⟩ 12) = none := by decide

end Strand
