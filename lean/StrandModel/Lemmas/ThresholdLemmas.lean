import Mathlib.Algebra.Module.ZMod
import Mathlib.Algebra.Field.ZMod
import Mathlib.Algebra.BigOperators.Group.Finset.Basic
import Mathlib.Algebra.BigOperators.GroupWithZero.Action
import Mathlib.LinearAlgebra.Lagrange
import Mathlib.Tactic.Module
import Mathlib.Tactic.Ring
import StrandModel.Lemmas.Lawful
import StrandModel.Model.Threshold
/-
Helper lemmas about the model of threshold.rs (`Model/Threshold.lean`): the folds of
`eval_poly`, `verification_key_factor` and `lagrange` in closed form, against an arbitrary
`Lawful` back-end.
-/
namespace Strand

/-! ### Horner sums -/
section horner
variable {R M : Type*} [CommRing R] [AddCommGroup M] [Module R M]

/-- `d₀ + τ • (d₁ + τ • (d₂ + …))` -/
def horner (τ : R) : List M → M
  | [] => 0
  | d :: ds => d + τ • horner τ ds

@[simp] theorem horner_nil (τ : R) : horner τ ([] : List M) = 0 := rfl
@[simp] theorem horner_cons (τ : R) (d : M) (ds : List M) :
    horner τ (d :: ds) = d + τ • horner τ ds := rfl

/-- the Horner sum is `Σ_{i < length} τ^i • dᵢ` -/
theorem horner_eq_sum (τ : R) (ds : List M) :
    horner τ ds = ∑ i ∈ Finset.range ds.length, τ ^ i • ds.getD i 0 := by
  induction ds with
  | nil => simp
  | cons d ds ih =>
    rw [horner_cons, ih, List.length_cons, Finset.sum_range_succ', Finset.smul_sum]
    simp only [List.getD_cons_succ, List.getD_cons_zero, pow_zero, one_smul, pow_succ', mul_smul]
    rw [add_comm]

/-- scalars come out of a Horner sum -/
theorem horner_map_smul (τ : R) (cs : List R) (g : M) :
    horner τ (cs.map fun c => c • g) = horner τ cs • g := by
  induction cs with
  | nil => simp
  | cons c cs ih =>
    rw [List.map_cons, horner_cons, horner_cons, ih, smul_eq_mul, add_smul, mul_smul]

end horner

/-! ### coefficient lists as polynomials -/
section poly
open Polynomial
variable {F : Type*} [CommRing F]

/-- the polynomial `Σ cᵢ Xⁱ` of a coefficient list -/
noncomputable def polyOfList (cs : List F) : F[X] := horner (X : F[X]) (cs.map C)

theorem polyOfList_cons (c : F) (cs : List F) :
    polyOfList (c :: cs) = C c + X * polyOfList cs := rfl

theorem eval_polyOfList (τ : F) (cs : List F) : (polyOfList cs).eval τ = horner τ cs := by
  induction cs with
  | nil => simp [polyOfList]
  | cons c cs ih =>
    rw [polyOfList_cons, eval_add, eval_C, eval_mul, eval_X, ih, horner_cons, smul_eq_mul]

theorem coeff_polyOfList (cs : List F) (n : ℕ) : (polyOfList cs).coeff n = cs.getD n 0 := by
  induction cs generalizing n with
  | nil => simp [polyOfList]
  | cons c cs ih =>
    rw [polyOfList_cons, coeff_add]
    cases n with
    | zero => simp
    | succ n => rw [coeff_C_succ, coeff_X_mul, ih, zero_add, List.getD_cons_succ]

theorem degree_polyOfList_lt (cs : List F) : (polyOfList cs).degree < cs.length := by
  rw [degree_lt_iff_coeff_zero]
  intro m hm
  rw [coeff_polyOfList, List.getD_eq_getElem?_getD, List.getElem?_eq_none hm, Option.getD_none]

theorem eval_zero_polyOfList_cons (c : F) (cs : List F) : (polyOfList (c :: cs)).eval 0 = c := by
  rw [eval_polyOfList, horner_cons, zero_smul, add_zero]

end poly

/-- `Σ_{i < min t length} f (l.getD i z)`-style sums only see `l.take t` -/
theorem getD_map_take {α β : Type*} (f : α → β) (l : List α) (t i : ℕ) (z : α) (b : β)
    (hi : i < min t l.length) : ((l.take t).map f).getD i b = f (l.getD i z) := by
  have h1 : i < l.length := lt_of_lt_of_le hi (min_le_right _ _)
  have h2 : i < ((l.take t).map f).length := by
    rw [List.length_map, List.length_take]; exact hi
  have h3 : i < t := lt_of_lt_of_le hi (min_le_left _ _)
  simp [List.getD_eq_getElem?_getD, h1, h3]

section lawful
variable {E X : Type} {o : Ops E X} {q : ℕ} {A : Type} [AddCommGroup A] [Module (ZMod q) A]
variable (L : Lawful o q A)

/-! ### `eval_poly` -/

theorem evalPolyLoop_cons (t c : X) (cs : List X) (s p : X) :
    evalPolyLoop o t (c :: cs) s p =
      evalPolyLoop o t cs (o.xadd s (o.modq (o.xmul c (o.modq (o.xmul p t)))))
        (o.modq (o.xmul p t)) := rfl

/-- the loop of `eval_poly` with arbitrary initial accumulators -/
theorem evalPolyLoop_dx (t : X) (cs : List X) (s p : X) :
    L.dx (evalPolyLoop o t cs s p).1 =
      L.dx s + L.dx p * L.dx t * horner (L.dx t) (cs.map L.dx) := by
  induction cs generalizing s p with
  | nil => simp [evalPolyLoop]
  | cons c cs ih =>
    rw [evalPolyLoop_cons, ih, List.map_cons, horner_cons]
    simp only [L.xadd_dx, L.modq_dx, L.xmul_dx, smul_eq_mul]
    ring

/-- `eval_poly` on a non-empty coefficient list with `threshold ≥ 1`: the Horner value of
    the first `threshold` coefficients at the trustee index -/
theorem evalPoly_spec (n t : ℕ) (ht : 1 ≤ t) (c0 : X) (rest : List X) :
    ∃ s, evalPoly o n t (c0 :: rest) = some s ∧ L.xcanon s ∧
      L.dx s = horner ((n : ℕ) : ZMod q) (((c0 :: rest).take t).map L.dx) := by
  refine ⟨_, rfl, L.modq_xcanon _, ?_⟩
  obtain ⟨t', rfl⟩ : ∃ t', t = t' + 1 := ⟨t - 1, by omega⟩
  rw [L.modq_dx, evalPolyLoop_dx, L.oneX_dx, L.fromU64_dx, List.take_succ_cons, List.drop_one,
    List.tail_cons, List.map_cons, horner_cons, smul_eq_mul, one_mul]

/-- `eval_poly` with `threshold = 0` returns the reduced constant coefficient -/
theorem evalPoly_zero (n : ℕ) (c0 : X) (rest : List X) :
    evalPoly o n 0 (c0 :: rest) = some (o.modq c0) := rfl

/-! ### `verification_key_factor` -/

/-- the loop of `verification_key_factor` with arbitrary initial accumulators -/
theorem vkfFold_spec (t : X) (cs : List E) (hcs : ∀ c ∈ cs, L.valid c) (acc : E) (p : X)
    (hacc : L.V acc) :
    L.V (cs.foldl (fun (st : E × X) c =>
        (o.modp (o.mul st.1 (o.emodPow c st.2)), o.modq (o.xmul st.2 t))) (acc, p)).1 ∧
    L.den (cs.foldl (fun (st : E × X) c =>
        (o.modp (o.mul st.1 (o.emodPow c st.2)), o.modq (o.xmul st.2 t))) (acc, p)).1 =
      L.den acc + L.dx p • horner (L.dx t) (cs.map L.den) := by
  induction cs generalizing acc p with
  | nil => simp [hacc]
  | cons c cs ih =>
    have hc : L.valid c := hcs c (List.mem_cons_self ..)
    have hcs' : ∀ c ∈ cs, L.valid c := fun c h => hcs c (List.mem_cons_of_mem _ h)
    have he := L.emodPow_valid p hc
    have hV := L.modp_mul_V hacc.1 he
    rw [List.foldl_cons]
    refine ⟨(ih hcs' _ _ hV).1, ?_⟩
    rw [(ih hcs' _ _ hV).2, L.modp_mul_den hacc.1 he, L.emodPow_den _ hc, L.modq_dx, L.xmul_dx,
      List.map_cons, horner_cons]
    module

theorem verificationKeyFactor_spec (comms : List E) (hc : ∀ c ∈ comms, L.valid c) (t j : ℕ) :
    L.V (verificationKeyFactor o comms t j) ∧
    L.den (verificationKeyFactor o comms t j) =
      horner (((j + 1 : ℕ)) : ZMod q) ((comms.take t).map L.den) := by
  have h := vkfFold_spec L (o.fromU64 (j + 1)) (comms.take t)
    (fun c h => hc c (List.mem_of_mem_take h)) o.identE o.oneX L.ident_V
  refine ⟨h.1, ?_⟩
  unfold verificationKeyFactor
  rw [h.2, L.ident_den, L.oneX_dx, L.fromU64_dx, zero_add, one_smul]

/-! ### `lagrange` -/

/-- the loop of `lagrange` with arbitrary initial accumulators -/
theorem lagrangeFold_dx (i : ℕ) (hi : i < q) (ps : List ℕ) (hps : ∀ p ∈ ps, p < q) (n d : X) :
    L.dx (ps.foldl (fun (nd : X × X) p =>
        if p = i then nd
        else (o.modq (o.xmul nd.1 (o.fromU64 p)),
              o.modq (o.xmul nd.2 (o.modq (o.subMod (o.fromU64 p) (o.fromU64 i)))))) (n, d)).1 =
      L.dx n * ((ps.filter (· ≠ i)).map fun p : ℕ => (p : ZMod q)).prod ∧
    L.dx (ps.foldl (fun (nd : X × X) p =>
        if p = i then nd
        else (o.modq (o.xmul nd.1 (o.fromU64 p)),
              o.modq (o.xmul nd.2 (o.modq (o.subMod (o.fromU64 p) (o.fromU64 i)))))) (n, d)).2 =
      L.dx d * ((ps.filter (· ≠ i)).map fun p : ℕ => (p : ZMod q) - (i : ZMod q)).prod := by
  induction ps generalizing n d with
  | nil => simp
  | cons p ps ih =>
    have hps' : ∀ p ∈ ps, p < q := fun p h => hps p (List.mem_cons_of_mem _ h)
    rw [List.foldl_cons]
    by_cases hp : p = i
    · rw [if_pos hp, List.filter_cons_of_neg (by simpa using hp)]
      exact ih hps' n d
    · rw [if_neg hp, List.filter_cons_of_pos (by simpa using hp), List.map_cons, List.map_cons,
        List.prod_cons, List.prod_cons]
      obtain ⟨h1, h2⟩ := ih hps' (o.modq (o.xmul n (o.fromU64 p)))
        (o.modq (o.xmul d (o.modq (o.subMod (o.fromU64 p) (o.fromU64 i)))))
      rw [h1, h2]
      simp only [L.modq_dx, L.xmul_dx, L.fromU64_dx,
        L.subMod_dx (L.fromU64_xcanon p (hps p (List.mem_cons_self ..))) (L.fromU64_xcanon i hi)]
      exact ⟨by ring, by ring⟩

/-- the Lagrange coefficient of `i` for the list `present`, as a product over the entries
    different from `i` (in a field; no distinctness needed here, only `p ≠ i → p ≢ i`) -/
theorem lagrange_dx_list [Fact q.Prime] (i : ℕ) (hi : i < q) (present : List ℕ)
    (hps : ∀ p ∈ present, p < q) :
    L.dx (lagrange o i present) =
      ((present.filter (· ≠ i)).map fun p : ℕ =>
        (p : ZMod q) / ((p : ZMod q) - (i : ZMod q))).prod := by
  obtain ⟨h1, h2⟩ := lagrangeFold_dx L i hi present hps o.oneX o.oneX
  have hne : ∀ p ∈ present.filter (· ≠ i), (p : ZMod q) - (i : ZMod q) ≠ 0 := by
    intro p hp
    rw [List.mem_filter] at hp
    intro h0
    have hpi : p ≠ i := by simpa using hp.2
    apply hpi
    have := sub_eq_zero.mp h0
    rw [ZMod.natCast_eq_natCast_iff'] at this
    rwa [Nat.mod_eq_of_lt (hps p hp.1), Nat.mod_eq_of_lt hi] at this
  have hd0 : ((present.filter (· ≠ i)).map fun p : ℕ => (p : ZMod q) - (i : ZMod q)).prod ≠ 0 := by
    rw [Ne, List.prod_eq_zero_iff, List.mem_map]
    rintro ⟨p, hp, h0⟩
    exact hne p hp h0
  unfold lagrange Ops.divq
  rw [L.xmul_dx, h1, L.oneX_dx, one_mul]
  have hinv := L.invq_dx (x := _) (by rw [h2, L.oneX_dx, one_mul]; exact hd0)
  rw [h2, L.oneX_dx, one_mul] at hinv
  rw [eq_inv_of_mul_eq_one_left hinv, ← div_eq_mul_inv]
  generalize present.filter (· ≠ i) = l
  induction l with
  | nil => simp
  | cons p l ih =>
    simp only [List.map_cons, List.prod_cons]
    rw [← ih, mul_div_mul_comm]

/-! ### combining decryption factors (the loop of the threshold tests in threshold.rs) -/

/-- `divider = Π_{i ∈ present} factorᵢ ^ lagrange(i, present)`, accumulated as the callers of
    `threshold::lagrange` do: `divider = divider.mul(&emod_pow(&base, &lagrange)).modp()` -/
def thCombine (o : Ops E X) (factor : ℕ → E) (present : List ℕ) : E :=
  present.foldl (fun acc i => o.modp (o.mul acc (o.emodPow (factor i) (lagrange o i present))))
    o.identE

theorem thCombineFold_spec (factor : ℕ → E) (lam : ℕ → X) (ps : List ℕ)
    (hf : ∀ i ∈ ps, L.valid (factor i)) (acc : E) (hacc : L.V acc) :
    L.V (ps.foldl (fun acc i => o.modp (o.mul acc (o.emodPow (factor i) (lam i)))) acc) ∧
    L.den (ps.foldl (fun acc i => o.modp (o.mul acc (o.emodPow (factor i) (lam i)))) acc) =
      L.den acc + (ps.map fun i => L.dx (lam i) • L.den (factor i)).sum := by
  induction ps generalizing acc with
  | nil => simp [hacc]
  | cons p ps ih =>
    have hp := hf p (List.mem_cons_self ..)
    have hf' : ∀ i ∈ ps, L.valid (factor i) := fun i h => hf i (List.mem_cons_of_mem _ h)
    have he := L.emodPow_valid (lam p) hp
    have hV := L.modp_mul_V hacc.1 he
    rw [List.foldl_cons]
    refine ⟨(ih hf' _ hV).1, ?_⟩
    rw [(ih hf' _ hV).2, L.modp_mul_den hacc.1 he, L.emodPow_den _ hp, List.map_cons,
      List.sum_cons, add_assoc]

theorem thCombine_spec (factor : ℕ → E) (present : List ℕ)
    (hf : ∀ i ∈ present, L.valid (factor i)) :
    L.V (thCombine o factor present) ∧
    L.den (thCombine o factor present) =
      (present.map fun i => L.dx (lagrange o i present) • L.den (factor i)).sum := by
  have h := thCombineFold_spec L factor (fun i => lagrange o i present) present hf o.identE
    L.ident_V
  refine ⟨h.1, ?_⟩
  unfold thCombine
  rw [h.2, L.ident_den, zero_add]

end lawful
end Strand
