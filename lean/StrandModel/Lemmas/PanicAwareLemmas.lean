import Mathlib.FieldTheory.Finite.Basic
import Mathlib.Data.Nat.Prime.Basic
import StrandModel.Lemmas.NatLawful
import StrandModel.Lemmas.Encode
import StrandModel.Lemmas.Codec
import StrandModel.Lemmas.CodecWire
import StrandModel.Lemmas.ShuffleVerify
import StrandModel.Model.PanicAware
/-
Lemmas about the panic-aware layer (`Model/PanicAware.lean`), used by `Props/C13.lean`.
-/
set_option linter.unusedSectionVars false
namespace Strand

/-! ### the Euler value for a prime modulus -/

/-- for a prime `p = 2q+1` the Euler value of `n ∈ [1,p)` is `1` or `p-1` -/
theorem euler_eq_one_or_pred (P : Params) (hprime : P.p.Prime) (hp : P.p = 2 * P.q + 1) {n : ℕ}
    (h1 : 1 ≤ n) (h2 : n < P.p) : euler n P.p = 1 ∨ euler n P.p + 1 = P.p := by
  have : Fact P.p.Prime := ⟨hprime⟩
  have hp1 : 1 < P.p := hprime.one_lt
  rw [euler_eq_pow P hp]
  have hn0 : (n : ZMod P.p) ≠ 0 := by
    rw [Ne, ZMod.natCast_eq_zero_iff]
    intro hd
    have := Nat.le_of_dvd (by omega) hd
    omega
  rcases zmod_pow_q_eq_one_or_neg_one P hp hprime hn0 with h | h
  · left
    exact (natValid_iff_pow P hp1 n).mp h
  · right
    have hlt : n ^ P.q % P.p < P.p := Nat.mod_lt _ (by omega)
    have hz : ((n ^ P.q % P.p + 1 : ℕ) : ZMod P.p) = 0 := by
      rw [Nat.cast_add, ZMod.natCast_mod, Nat.cast_pow, h, Nat.cast_one, neg_add_cancel]
    rw [ZMod.natCast_eq_zero_iff] at hz
    have := Nat.le_of_dvd (by omega) hz
    omega

/-- the Legendre symbol never panics for a prime `p = 2q+1` and an argument in `[1,p)` -/
theorem legendreR_ok (P : Params) (hprime : P.p.Prime) (hp : P.p = 2 * P.q + 1) (fl : Flavour)
    {n : ℕ} (h1 : 1 ≤ n) (h2 : n < P.p) : legendreR fl n P.p = .ok (euler n P.p) := by
  have hp0 : P.p ≠ 0 := hprime.ne_zero
  unfold legendreR
  cases fl with
  | bigint =>
    simp only
    rw [if_neg hp0, if_pos]
    rcases euler_eq_one_or_pred P hprime hp h1 h2 with h | h
    · exact Or.inr (Or.inl h)
    · exact Or.inr (Or.inr h)
  | malachite =>
    simp only
    rw [if_neg]
    omega

/-! ### element / exponent / plaintext decoding agree with the pure model -/

theorem elementFromNatR_eq (P : Params) (hprime : P.p.Prime) (hp : P.p = 2 * P.q + 1)
    (fl : Flavour) (n : ℕ) : elementFromNatR P fl n = optR (Nat'.elementFromNat P n) := by
  unfold elementFromNatR Nat'.elementFromNat
  by_cases hr : n < 1 ∨ n ≥ P.p
  · rw [if_pos hr, if_pos hr]; rfl
  · rw [if_neg hr, if_neg hr, legendreR_ok P hprime hp fl (by omega) (by omega)]
    simp only
    by_cases hl : euler n P.p ≠ 1
    · rw [if_pos hl, if_pos hl]; rfl
    · rw [if_neg hl, if_neg hl]; rfl

theorem elementFromBytesR_eq (P : Params) (hprime : P.p.Prime) (hp : P.p = 2 * P.q + 1)
    (fl : Flavour) (bs : Bytes) : elementFromBytesR P fl bs = optR (elementFromBytes P fl bs) :=
  elementFromNatR_eq P hprime hp fl _

theorem expFromBytesR_eq (P : Params) (fl : Flavour) (bs : Bytes) :
    expFromBytesR P fl bs = optR (expFromBytes P fl bs) := by
  unfold expFromBytesR expFromBytes Nat'.expFromNat
  simp only
  split_ifs <;> rfl

theorem natCodecPR_eq (fl : Flavour) (bs : Bytes) :
    natCodecPR fl bs = optR ((natCodecP fl).dec bs) := by
  cases fl with
  | bigint =>
    simp only [natCodecPR, natCodecP]
    cases decBytesVec bs with
    | none => rfl
    | some x => rfl
  | malachite =>
    simp only [natCodecPR, natCodecP]
    cases decU32 bs with
    | none => rfl
    | some x =>
      obtain ⟨n, rest⟩ := x
      simp only
      cases decU16s n rest with
      | none => rfl
      | some y =>
        obtain ⟨ds, r⟩ := y
        simp only
        split_ifs <;> rfl

theorem natCodecER_eq (P : Params) (hprime : P.p.Prime) (hp : P.p = 2 * P.q + 1)
    (fl : Flavour) : natCodecER P fl = liftDec (natCodecE P fl) := by
  funext bs
  simp only [natCodecER, liftDec, natCodecE]
  cases decBytesVec bs with
  | none => rfl
  | some x =>
    obtain ⟨b, rest⟩ := x
    simp only
    rw [elementFromBytesR_eq P hprime hp]
    cases elementFromBytes P fl b with
    | none => rfl
    | some a => rfl

theorem natCodecXR_eq (P : Params) (fl : Flavour) : natCodecXR P fl = liftDec (natCodecX P fl) := by
  funext bs
  simp only [natCodecXR, liftDec, natCodecX]
  cases decBytesVec bs with
  | none => rfl
  | some x =>
    obtain ⟨b, rest⟩ := x
    simp only
    rw [expFromBytesR_eq]
    cases expFromBytes P fl b with
    | none => rfl
    | some a => rfl

theorem optR_ne_panic {α : Type} (o : Option α) : optR o ≠ .error .panic := by
  cases o <;> intro h <;> cases h

theorem optR_eq_ok_iff {α : Type} {o : Option α} {a : α} : optR o = .ok a ↔ o = some a := by
  cases o with
  | none => constructor <;> intro h <;> cases h
  | some b =>
    constructor
    · intro h; cases h; rfl
    · intro h; cases h; rfl

theorem optR_eq_err_iff {α : Type} {o : Option α} : optR o = .error .err ↔ o = none := by
  cases o with
  | none => exact ⟨fun _ => rfl, fun _ => rfl⟩
  | some b => constructor <;> intro h <;> cases h

/-! ### the plaintext encoding -/

theorem encodeR_eq (P : Params) (hprime : P.p.Prime) (hp : P.p = 2 * P.q + 1) (fl : Flavour)
    (m : ℕ) : encodeR P fl m = optR (Nat'.encode P m) := by
  have hp2 := hprime.two_le
  unfold encodeR Nat'.encode
  rw [if_neg (by omega)]
  by_cases hm : m ≥ P.q - 1
  · rw [if_pos hm, if_pos hm]; rfl
  · rw [if_neg hm, if_neg hm]
    simp only
    rw [legendreR_ok P hprime hp fl (by omega) (by omega)]
    simp only
    by_cases h0 : euler (m + 1) P.p = 0
    · rw [if_pos h0, if_pos h0]; rfl
    · rw [if_neg h0, if_neg h0]
      by_cases h1 : euler (m + 1) P.p = 1
      · rw [if_pos h1, if_pos h1]; rfl
      · rw [if_neg h1, if_neg h1, if_neg (by omega)]; rfl

theorem decodeR_eq (P : Params) {e : ℕ} (h1 : 1 ≤ e) (h2 : e < P.p) :
    decodeR P e = .ok (Nat'.decode P e) := by
  unfold decodeR Nat'.decode
  by_cases hq : e > P.q
  · rw [if_pos hq, if_pos hq, if_neg (by omega), if_neg (by omega)]
  · rw [if_neg hq, if_neg hq, if_neg (by omega)]

/-- `decode` panics exactly on `0` and on values `≥ p` above `q` -/
theorem decodeR_panic_iff (P : Params) (hqp : P.q < P.p) (e : ℕ) :
    decodeR P e = .error .panic ↔ e = 0 ∨ P.p ≤ e := by
  unfold decodeR
  by_cases hq : e > P.q
  · rw [if_pos hq]
    by_cases h1 : P.p < e
    · rw [if_pos h1]; exact ⟨fun _ => Or.inr (by omega), fun _ => rfl⟩
    · rw [if_neg h1]
      by_cases h2 : P.p - e < 1
      · rw [if_pos h2]; exact ⟨fun _ => Or.inr (by omega), fun _ => rfl⟩
      · rw [if_neg h2]
        constructor
        · intro h; cases h
        · intro h; omega
  · rw [if_neg hq]
    by_cases h1 : e < 1
    · rw [if_pos h1]; exact ⟨fun _ => Or.inl (by omega), fun _ => rfl⟩
    · rw [if_neg h1]
      constructor
      · intro h; cases h
      · intro h; omega

/-! ### inversion -/

/-- a valid canonical member is invertible: non-zero mod the prime `p`, hence coprime to it -/
theorem invpR_ok_of_valid {P : Params} (h : SafePrimeGroup P) (fl : Flavour) {a : ℕ}
    (ha : natValid P a) (hlt : a < P.p) : invpR P fl a = .ok (Nat'.invp P a) := by
  have hprime := h.p_prime
  have : Fact P.p.Prime := ⟨hprime⟩
  have ha0 : a ≠ 0 := by
    rintro rfl
    unfold natValid at ha
    rw [Nat.cast_zero, zero_pow h.q_prime.ne_zero] at ha
    exact zero_ne_one ha
  have hndvd : ¬ P.p ∣ a := fun hd => by
    have := Nat.le_of_dvd (by omega) hd
    omega
  have hcop : Nat.gcd a P.p = 1 := by
    rw [Nat.gcd_comm]
    exact (Nat.Prime.coprime_iff_not_dvd hprime).mpr hndvd
  unfold invpR
  cases fl with
  | bigint =>
    simp only
    rw [if_neg]
    rw [Nat.mod_eq_of_lt hlt]
    rintro (h0 | h1)
    · exact hprime.ne_zero h0
    · exact h1 hcop
  | malachite =>
    simp only
    rw [if_neg]
    rintro (h0 | h1 | h2)
    · exact ha0 h0
    · omega
    · exact h2 hcop

theorem invpR_ok_of_V {P : Params} (h : SafePrimeGroup P) (fl : Flavour) {a : ℕ}
    (ha : (natLawful P fl h).V a) : invpR P fl a = .ok ((natOps P fl).invp a) :=
  invpR_ok_of_valid h fl ha.1 ha.2

/-- for the bigint flavour validity alone suffices (`invm` reduces its argument first) -/
theorem invpR_bigint_ok_of_valid {P : Params} (h : SafePrimeGroup P) {a : ℕ}
    (ha : natValid P a) : invpR P .bigint a = .ok (Nat'.invp P a) := by
  have h1 := invpR_ok_of_valid h .bigint (natValid_mod ha) (Nat.mod_lt _ h.p_prime.pos)
  unfold invpR at h1 ⊢
  simp only at h1 ⊢
  rw [Nat.mod_mod] at h1
  split_ifs at h1 ⊢ with hc
  · rfl

/-- the inverse of `0` panics in both flavours (`p > 1`) -/
theorem invpR_zero_panics (P : Params) (hp : 1 < P.p) (fl : Flavour) :
    invpR P fl 0 = .error .panic := by
  unfold invpR
  cases fl with
  | bigint =>
    simp only
    rw [if_pos]
    right
    rw [Nat.zero_mod, Nat.gcd_zero_left]
    omega
  | malachite =>
    simp only
    rw [if_pos (Or.inl trivial)]

/-! ### `mapR`, `idxR`, `takeR` -/

theorem mapR_ok_of_forall {α β : Type} {f : α → Res β} {g : α → β} :
    ∀ l : List α, (∀ a ∈ l, f a = .ok (g a)) → mapR f l = .ok (l.map g)
  | [], _ => rfl
  | a :: as, h => by
    rw [mapR, h a (List.mem_cons_self ..),
      mapR_ok_of_forall as (fun x hx => h x (List.mem_cons_of_mem _ hx))]
    rfl

theorem mapR_length {α β : Type} {f : α → Res β} :
    ∀ {l : List α} {ys : List β}, mapR f l = .ok ys → ys.length = l.length
  | [], ys, h => by
    rw [mapR] at h
    cases h; rfl
  | a :: as, ys, h => by
    rw [mapR] at h
    cases hfa : f a with
    | error e => rw [hfa] at h; cases h
    | ok b =>
      rw [hfa] at h
      simp only at h
      cases has : mapR f as with
      | error e => rw [has] at h; cases h
      | ok bs =>
        rw [has] at h
        simp only at h
        cases h
        rw [List.length_cons, List.length_cons, mapR_length has]

/-- `mapR (optR ∘ f)` is `optR (mapOpt f)` -/
theorem mapR_optR {α β : Type} (f : α → Option β) :
    ∀ l : List α, mapR (fun a => optR (f a)) l = optR (mapOpt f l)
  | [] => rfl
  | a :: as => by
    rw [mapR, mapOpt, mapR_optR f as]
    cases f a with
    | none => rfl
    | some b =>
      cases mapOpt f as with
      | none => rfl
      | some bs => rfl

theorem idxR_of_lt {α : Type} {l : List α} {i : ℕ} (h : i < l.length) : idxR l i = .ok l[i] := by
  unfold idxR
  rw [List.getElem?_eq_getElem h]

theorem idxR_of_ge {α : Type} {l : List α} {i : ℕ} (h : l.length ≤ i) :
    idxR l i = .error .panic := by
  unfold idxR
  rw [List.getElem?_eq_none h]

theorem mapR_idxR_range' {α : Type} (l : List α) :
    ∀ k s, s + k ≤ l.length → mapR (idxR l) (List.range' s k) = .ok ((l.drop s).take k)
  | 0, s, _ => by rw [List.range'_zero, List.take_zero]; rfl
  | k + 1, s, h => by
    rw [List.range'_succ, mapR, idxR_of_lt (by omega), mapR_idxR_range' l k (s + 1) (by omega),
      List.drop_eq_getElem_cons (by omega : s < l.length), List.take_succ_cons]

theorem mapR_idxR_range'_panic {α : Type} (l : List α) :
    ∀ k s, s ≤ l.length → l.length < s + k → mapR (idxR l) (List.range' s k) = .error .panic
  | 0, s, h1, h2 => by omega
  | k + 1, s, h1, h2 => by
    rw [List.range'_succ, mapR]
    by_cases hs : s < l.length
    · rw [idxR_of_lt hs, mapR_idxR_range'_panic l k (s + 1) (by omega) (by omega)]
    · rw [idxR_of_ge (by omega)]

theorem takeR_of_le {α : Type} {l : List α} {n : ℕ} (h : n ≤ l.length) :
    takeR l n = .ok (l.take n) := by
  unfold takeR
  rw [List.range_eq_range', mapR_idxR_range' l n 0 (by omega), List.drop_zero]

theorem takeR_of_lt {α : Type} {l : List α} {n : ℕ} (h : l.length < n) :
    takeR l n = .error .panic := by
  unfold takeR
  rw [List.range_eq_range', mapR_idxR_range'_panic l n 0 (by omega) (by omega)]

theorem takeR_length {α : Type} {l : List α} {n : ℕ} (h : l.length = n) : takeR l n = .ok l := by
  rw [takeR_of_le (by omega), List.take_of_length_le (by omega)]

theorem takeR_eq_ok_length {α : Type} {l r : List α} {n : ℕ} (h : takeR l n = .ok r) :
    r.length = n ∧ n ≤ l.length := by
  by_cases hn : n ≤ l.length
  · rw [takeR_of_le hn] at h
    cases h
    exact ⟨by rw [List.length_take]; omega, hn⟩
  · rw [takeR_of_lt (by omega)] at h
    cases h

theorem idxPredR_eq {α : Type} {l : List α} {n : ℕ} {x : α} (hn : n ≠ 0)
    (hx : l[n - 1]? = some x) : idxPredR l n = .ok x := by
  unfold idxPredR idxR
  rw [if_neg hn, hx]

theorem idxPredR_panic {α : Type} {l : List α} {n : ℕ} (h : n = 0 ∨ l.length < n) :
    idxPredR l n = .error .panic := by
  unfold idxPredR
  by_cases hn : n = 0
  · rw [if_pos hn]
  · rw [if_neg hn, idxR_of_ge]
    omega

/-- the final loop of `check_proof` on lists of equal length is list equality -/
theorem zip_all_eq : ∀ {l₁ l₂ : List ℕ}, l₁.length = l₂.length →
    (List.zip l₁ l₂).all (fun p => decide (p.1 = p.2)) = decide (l₁ = l₂)
  | [], [], _ => by simp
  | [], _ :: _, h => by simp at h
  | _ :: _, [], h => by simp at h
  | a :: as, b :: bs, h => by
    rw [List.zip_cons_cons, List.all_cons, zip_all_eq (by simpa using h)]
    simp only [List.cons.injEq, Bool.decide_and]

/-! ### the shuffle verifier never panics on decoded data -/

theorem tHatPrimesR_ok {P : Params} {fl : Flavour} (c h0 : ℕ) (cHats sHats sPrimes : List ℕ)
    (hinv : ∀ a ∈ cHats, invpR P fl a = .ok ((natOps P fl).invp a)) :
    tHatPrimesR P fl c h0 cHats sHats sPrimes
      = .ok (tHatPrimes (natOps P fl) c h0 cHats sHats sPrimes) := by
  unfold tHatPrimesR tHatPrimes
  simp only
  rw [mapR_ok_of_forall (g := fun (x : (ℕ × ℕ) × (ℕ × ℕ)) =>
      (natOps P fl).modp ((natOps P fl).mul ((natOps P fl).mul
        ((natOps P fl).emodPow ((natOps P fl).invp x.1.2) c) ((natOps P fl).gmodPow x.2.1))
        ((natOps P fl).emodPow x.1.1 x.2.2)))]
  · rw [List.map_zip_eq_zipWith]
    rfl
  · rintro ⟨⟨a, b⟩, ss⟩ hx
    have hb : b ∈ cHats := (List.of_mem_zip (List.of_mem_zip hx).1).2
    simp only
    rw [hinv b hb]

/-- the body of the verifier on well-formed lengths and decoded (valid, canonical) data -/
theorem checkProofR_eq_checkProof {P : Params} (h : SafePrimeGroup P) (fl : Flavour)
    (gens : List ℕ) (pk : ℕ) (pf : ShuffleProof ℕ ℕ) (es ePrimes : List (Ciphertext ℕ))
    (label : Bytes)
    (hgens : ∀ g ∈ gens, natValid P g)
    (hpk : natValid P pk ∧ pk < P.p)
    (hcs : ∀ a ∈ pf.cs, natValid P a)
    (hch : ∀ a ∈ pf.cHats, natValid P a ∧ a < P.p)
    (hes : ∀ e ∈ es, natValid P e.mhr ∧ natValid P e.gr) :
    checkProofR P fl gens pk pf es ePrimes label
      = .ok (checkProof (natOps P fl) gens pk pf es ePrimes label) := by
  simp only [checkProofR, checkProof]
  by_cases hg : es.length = 0 ∨ ePrimes.length ≠ es.length ∨ gens.length ≠ es.length + 1 ∨
      pf.cs.length ≠ es.length ∨ pf.cHats.length ≠ es.length ∨ pf.t.tHats.length ≠ es.length ∨
      pf.s.sHats.length ≠ es.length ∨ pf.s.sPrimes.length ≠ es.length
  · rw [if_pos hg, if_pos hg]
  · rw [if_neg hg, if_neg hg]
    simp only [not_or, not_not] at hg
    obtain ⟨hn, h1, h2, h3, h4, h5, h6, h7⟩ := hg
    cases gens with
    | nil => simp at h2
    | cons h0 hs =>
      have hhs : hs.length = es.length := by simpa using h2
      obtain ⟨x, hx⟩ : ∃ x, pf.cHats[es.length - 1]? = some x :=
        ⟨pf.cHats[es.length - 1]'(by omega), List.getElem?_eq_getElem (by omega)⟩
      have hlast : pf.cHats.getLast? = some x := by
        rw [List.getLast?_eq_getElem?, h4]; exact hx
      have hxmem : x ∈ pf.cHats := List.mem_of_getElem? hx
      rw [hlast]
      simp only [checkProofCoreR, takeR_length h3, takeR_length hhs, takeR_length h7,
        takeR_length h1, takeR_length h4, takeR_length h6, idxPredR_eq hn hx, Ops.divp]
      -- every inverted value is a canonical member
      have hh0 : natValid P h0 := hgens h0 (List.mem_cons_self ..)
      have hhsv : ∀ g ∈ hs, natValid P g := fun g hg => hgens g (List.mem_cons_of_mem _ hg)
      have e1 := invpR_ok_of_V h fl ((natLawful P fl h).prodMod_V (xs := hs) hhsv)
      have e2 : ∀ u, invpR P fl ((natOps P fl).emodPow h0 u)
          = .ok ((natOps P fl).invp ((natOps P fl).emodPow h0 u)) :=
        fun u => invpR_ok_of_V h fl ((natLawful P fl h).emodPow_V u hh0)
      have e3 := invpR_ok_of_V h fl ((natLawful P fl h).modp_V
        ((natLawful P fl h).mul_valid ((natLawful P fl h).prodMod_valid (xs := pf.cs) hcs)
          ((natLawful P fl h).invp_valid ((natLawful P fl h).prodMod_valid (xs := hs) hhsv))))
      have e4 : ∀ u, invpR P fl ((natOps P fl).modp ((natOps P fl).mul x
            ((natOps P fl).invp ((natOps P fl).emodPow h0 u))))
          = .ok ((natOps P fl).invp ((natOps P fl).modp ((natOps P fl).mul x
            ((natOps P fl).invp ((natOps P fl).emodPow h0 u))))) :=
        fun u => invpR_ok_of_V h fl ((natLawful P fl h).modp_V
          ((natLawful P fl h).mul_valid (hch x hxmem).1
            ((natLawful P fl h).invp_valid ((natLawful P fl h).emodPow_valid u hh0))))
      have e5 : ∀ us : List ℕ, invpR P fl (prodMod (natOps P fl)
            (List.zipWith (natOps P fl).emodPow pf.cs us))
          = .ok ((natOps P fl).invp (prodMod (natOps P fl)
            (List.zipWith (natOps P fl).emodPow pf.cs us))) :=
        fun us => invpR_ok_of_V h fl ((natLawful P fl h).prodMod_V
          (forall_mem_zipWith (P := (natLawful P fl h).valid) pf.cs us
            (fun a ha u _ => (natLawful P fl h).emodPow_valid u (hcs a ha))))
      have e6 : ∀ us : List ℕ, invpR P fl (prodMod (natOps P fl)
            (List.zipWith (fun e x => (natOps P fl).emodPow e.mhr x) es us))
          = .ok ((natOps P fl).invp (prodMod (natOps P fl)
            (List.zipWith (fun e x => (natOps P fl).emodPow e.mhr x) es us))) :=
        fun us => invpR_ok_of_V h fl ((natLawful P fl h).prodMod_V
          (forall_mem_zipWith (P := (natLawful P fl h).valid) es us
            (fun e he u _ => (natLawful P fl h).emodPow_valid u (hes e he).1)))
      have e7 := invpR_ok_of_V h fl (a := pk) hpk
      have e8 : ∀ us : List ℕ, invpR P fl (prodMod (natOps P fl)
            (List.zipWith (fun e x => (natOps P fl).emodPow e.gr x) es us))
          = .ok ((natOps P fl).invp (prodMod (natOps P fl)
            (List.zipWith (fun e x => (natOps P fl).emodPow e.gr x) es us))) :=
        fun us => invpR_ok_of_V h fl ((natLawful P fl h).prodMod_V
          (forall_mem_zipWith (P := (natLawful P fl h).valid) es us
            (fun e he u _ => (natLawful P fl h).emodPow_valid u (hes e he).2)))
      have e9 := invpR_ok_of_V h fl (natLawful P fl h).gen_V
      have e10 : ∀ c, tHatPrimesR P fl c h0 pf.cHats pf.s.sHats pf.s.sPrimes
          = .ok (tHatPrimes (natOps P fl) c h0 pf.cHats pf.s.sHats pf.s.sPrimes) :=
        fun c => tHatPrimesR_ok c h0 _ _ _ (fun a ha => invpR_ok_of_V h fl (hch a ha))
      simp only [e1, e2, e3, e4, e5, e6, e7, e8, e9, e10, checksR]
      rw [zip_all_eq (by rw [tHatPrimes_length]; omega)]
      rfl

/-! ### the pinned verifier -/

/-- the failure of a result, if any -/
def errOf {α : Type} : Res α → Option Fail
  | .ok _ => none
  | .error e => some e

theorem errOf_mapR {α β : Type} (f : α → Res β) :
    ∀ l : List α, errOf (mapR f l) = l.findSome? (fun a => errOf (f a))
  | [] => rfl
  | a :: as => by
    rw [mapR, List.findSome?_cons]
    cases hfa : f a with
    | error e => rfl
    | ok b =>
      have ih := errOf_mapR f as
      simp only [errOf]
      cases has : mapR f as with
      | error e => rw [has] at ih; exact ih
      | ok bs => rw [has] at ih; exact ih

/-- whether (and how) `t_hat_primes` fails depends on the chain commitments only -/
theorem errOf_tHatPrimesR {P : Params} {fl : Flavour} (c h0 : ℕ) (cH sH sP : List ℕ)
    (h1 : cH.length ≤ sH.length) (h2 : cH.length ≤ sP.length) :
    errOf (tHatPrimesR P fl c h0 cH sH sP)
      = (List.zip (h0 :: cH) cH).findSome? (fun y => errOf (invpR P fl y.2)) := by
  unfold tHatPrimesR
  simp only
  rw [errOf_mapR]
  have hlen : ((h0 :: cH).zip cH).length ≤ (sH.zip sP).length := by
    simp only [List.length_zip, List.length_cons]
    omega
  conv_rhs => rw [← List.map_fst_zip hlen, List.findSome?_map]
  congr 1
  funext a
  simp only [Function.comp]
  cases invpR P fl a.1.2 <;> rfl

theorem checksR_nil (five : Bool) (t : Res (List ℕ)) :
    checksR five [] t = match errOf t with
      | none => .ok five
      | some e => .error e := by
  cases t with
  | error e => rfl
  | ok l => simp [checksR, errOf]

theorem invpR_one (P : Params) (hp : 1 < P.p) (fl : Flavour) :
    invpR P fl 1 = .ok (Nat'.invp P 1) := by
  unfold invpR
  cases fl with
  | bigint =>
    simp only
    rw [if_neg]
    rw [Nat.mod_eq_of_lt hp, Nat.gcd_one_left]
    omega
  | malachite =>
    simp only
    rw [if_neg]
    rw [Nat.gcd_one_left]
    omega

/-- `&self.generators[1..]` on an empty generator list -/
theorem checkProofR_prefix_nil_gens (P : Params) (fl : Flavour) (pk : ℕ) (pf : ShuffleProof ℕ ℕ)
    (es ePrimes : List (Ciphertext ℕ)) (label : Bytes) :
    checkProofR_prefix P fl [] pk pf es ePrimes label = .error .panic := rfl

/-- the pinned verifier indexes `proof.cs.0[i]` for `i < N` without a length check -/
theorem checkProofR_prefix_short_cs (P : Params) (fl : Flavour) (gens : List ℕ) (pk : ℕ)
    (pf : ShuffleProof ℕ ℕ) (es ePrimes : List (Ciphertext ℕ)) (label : Bytes)
    (h : pf.cs.length < es.length) :
    checkProofR_prefix P fl gens pk pf es ePrimes label = .error .panic := by
  unfold checkProofR_prefix
  cases gens with
  | nil => rfl
  | cons h0 hs =>
    simp only
    split_ifs
    · rfl
    · rfl
    · simp only [checkProofCoreR, takeR_of_lt h]

/-- an empty ballot box panics the pinned verifier (`proof.c_hats.0[N - 1]`) even with a
    well-formed empty proof -/
theorem checkProofR_prefix_empty (P : Params) (hp : 1 < P.p) (fl : Flavour) (h0 pk : ℕ)
    (pf : ShuffleProof ℕ ℕ) (label : Bytes) :
    checkProofR_prefix P fl [h0] pk pf [] [] label = .error .panic := by
  have e1 : invpR P fl (prodMod (natOps P fl) []) = .ok (Nat'.invp P 1) := invpR_one P hp fl
  simp only [checkProofR_prefix, checkProofCoreR, List.length_nil, takeR, List.range_zero, mapR,
    ne_eq, not_true_eq_false, if_false, e1, idxPredR, if_true]

/-- F1 in the pinned verifier: with an EMPTY `t_hats` vector the chain responses `s_hats` are
    never inspected (any two vectors of length `≥ N` give the same outcome) -/
theorem checkProofR_prefix_ignores_sHats (P : Params) (fl : Flavour) (gens : List ℕ) (pk : ℕ)
    (pf : ShuffleProof ℕ ℕ) (es ePrimes : List (Ciphertext ℕ)) (label : Bytes) (sh' : List ℕ)
    (ht : pf.t.tHats = []) (h1 : es.length ≤ pf.s.sHats.length) (h2 : es.length ≤ sh'.length) :
    checkProofR_prefix P fl gens pk pf es ePrimes label
      = checkProofR_prefix P fl gens pk { pf with s := { pf.s with sHats := sh' } } es ePrimes
          label := by
  unfold checkProofR_prefix
  cases gens with
  | nil => rfl
  | cons h0 hs =>
    simp only
    split_ifs
    · rfl
    · rfl
    · simp only [checkProofCoreR, ht, takeR_of_le h1, takeR_of_le h2, checksR_nil]
      by_cases hsp : es.length ≤ pf.s.sPrimes.length
      · by_cases hch : es.length ≤ pf.cHats.length
        · have eA : ∀ c, errOf (tHatPrimesR P fl c h0 (pf.cHats.take es.length)
              (pf.s.sHats.take es.length) (pf.s.sPrimes.take es.length))
              = (List.zip (h0 :: pf.cHats.take es.length) (pf.cHats.take es.length)).findSome?
                  (fun y => errOf (invpR P fl y.2)) :=
            fun c => errOf_tHatPrimesR c h0 _ _ _
              (by simp only [List.length_take]; omega) (by simp only [List.length_take]; omega)
          have eB : ∀ c, errOf (tHatPrimesR P fl c h0 (pf.cHats.take es.length)
              (sh'.take es.length) (pf.s.sPrimes.take es.length))
              = (List.zip (h0 :: pf.cHats.take es.length) (pf.cHats.take es.length)).findSome?
                  (fun y => errOf (invpR P fl y.2)) :=
            fun c => errOf_tHatPrimesR c h0 _ _ _
              (by simp only [List.length_take]; omega) (by simp only [List.length_take]; omega)
          simp only [takeR_of_le hsp, takeR_of_le hch, eA, eB]
        · simp only [takeR_of_le hsp, takeR_of_lt (Nat.lt_of_not_le hch)]
      · simp only [takeR_of_lt (Nat.lt_of_not_le hsp)]

/-! ### keymaker -/

theorem verifyDecryptionFactorsR_eq {E X : Type} [DecidableEq E] [DecidableEq X] (o : Ops E X)
    (pk : E) (cts : List (Ciphertext E)) (decs : List E) (proofs : List (ChaumPedersen E X))
    (label : Bytes) :
    verifyDecryptionFactorsR o pk cts decs proofs label
      = match verifyDecryptionFactors o pk cts decs proofs label with
        | none => .error .panic
        | some b => .ok b := by
  unfold verifyDecryptionFactorsR verifyDecryptionFactors
  by_cases h1 : decs.length ≠ proofs.length
  · rw [if_pos h1, if_pos (Or.inl h1)]
  · by_cases h2 : decs.length ≠ cts.length
    · rw [if_neg h1, if_pos h2, if_pos (Or.inr h2)]
    · rw [if_neg h1, if_neg h2, if_neg (by rintro (h | h); exact h1 h; exact h2 h)]

/-! ### the composite decoders agree with the pure codecs -/
set_option linter.unusedSimpArgs false

theorem tryFromSliceR_lift {α : Type} (c : Codec α) (bs : Bytes) :
    tryFromSliceR (liftDec c) bs = optR (tryFromSlice c bs) := by
  unfold tryFromSliceR liftDec tryFromSlice
  cases c.dec bs with
  | none => rfl
  | some x =>
    obtain ⟨a, r⟩ := x
    cases r <;> rfl

theorem seqR_lift {α β : Type} (a : Codec α) (b : Codec β) :
    seqR (liftDec a) (liftDec b) = liftDec (pair a b) := by
  funext bs
  simp only [seqR, liftDec, pair]
  cases a.dec bs with
  | none => rfl
  | some x =>
    obtain ⟨x, r⟩ := x
    simp only [optR]
    cases b.dec r with
    | none => rfl
    | some y => rfl

theorem nestedR_lift {α : Type} (c : Codec α) : nestedR (liftDec c) = liftDec (nested c) := by
  funext bs
  simp only [nestedR, liftDec, nested]
  cases (vecOf bytesVec).dec bs with
  | none => rfl
  | some x =>
    obtain ⟨items, rest⟩ := x
    simp only
    have : tryFromSliceR (liftDec c) = fun i => optR (tryFromSlice c i) :=
      funext (tryFromSliceR_lift c)
    rw [this, mapR_optR]
    cases mapOpt (tryFromSlice c) items <;> rfl

theorem ctDecR_lift (o : Ops ℕ ℕ) : ctDecR (liftDec o.codecE) = liftDec (codecCt o) := by
  funext bs
  simp only [ctDecR, seqR, liftDec, codecCt]
  cases (o.codecE.dec bs) with
  | none => rfl
  | some p0 =>
  obtain ⟨a0, r0⟩ := p0
  simp only [optR]
  cases (o.codecE.dec r0) with
  | none => rfl
  | some p1 =>
  obtain ⟨a1, r1⟩ := p1
  rfl

theorem schnorrDecR_lift (o : Ops ℕ ℕ) :
    schnorrDecR (liftDec o.codecE) (liftDec o.codecX) = liftDec (codecSchnorr o) := by
  funext bs
  simp only [schnorrDecR, seqR, liftDec, codecSchnorr]
  cases (o.codecE.dec bs) with
  | none => rfl
  | some p0 =>
  obtain ⟨a0, r0⟩ := p0
  simp only [optR]
  cases (o.codecX.dec r0) with
  | none => rfl
  | some p1 =>
  obtain ⟨a1, r1⟩ := p1
  simp only [optR]
  cases (o.codecX.dec r1) with
  | none => rfl
  | some p2 =>
  obtain ⟨a2, r2⟩ := p2
  rfl

theorem cpDecR_lift (o : Ops ℕ ℕ) :
    cpDecR (liftDec o.codecE) (liftDec o.codecX) = liftDec (codecCP o) := by
  funext bs
  simp only [cpDecR, seqR, liftDec, codecCP]
  cases (o.codecE.dec bs) with
  | none => rfl
  | some p0 =>
  obtain ⟨a0, r0⟩ := p0
  simp only [optR]
  cases (o.codecE.dec r0) with
  | none => rfl
  | some p1 =>
  obtain ⟨a1, r1⟩ := p1
  simp only [optR]
  cases (o.codecX.dec r1) with
  | none => rfl
  | some p2 =>
  obtain ⟨a2, r2⟩ := p2
  simp only [optR]
  cases (o.codecX.dec r2) with
  | none => rfl
  | some p3 =>
  obtain ⟨a3, r3⟩ := p3
  rfl

theorem commitmentsDecR_lift (o : Ops ℕ ℕ) :
    commitmentsDecR (liftDec o.codecE) = liftDec (codecCommitments o) := by
  funext bs
  simp only [commitmentsDecR, seqR, nestedR_lift, liftDec, codecCommitments, decE5, vecE]
  cases (o.codecE.dec bs) with
  | none => rfl
  | some p0 =>
  obtain ⟨a0, r0⟩ := p0
  simp only [optR]
  cases (o.codecE.dec r0) with
  | none => rfl
  | some p1 =>
  obtain ⟨a1, r1⟩ := p1
  simp only [optR]
  cases (o.codecE.dec r1) with
  | none => rfl
  | some p2 =>
  obtain ⟨a2, r2⟩ := p2
  simp only [optR]
  cases (o.codecE.dec r2) with
  | none => rfl
  | some p3 =>
  obtain ⟨a3, r3⟩ := p3
  simp only [optR]
  cases (o.codecE.dec r3) with
  | none => rfl
  | some p4 =>
  obtain ⟨a4, r4⟩ := p4
  simp only [optR]
  cases ((nested o.codecE).dec r4) with
  | none => rfl
  | some p5 =>
  obtain ⟨a5, r5⟩ := p5
  rfl

theorem responsesDecR_lift (o : Ops ℕ ℕ) :
    responsesDecR (liftDec o.codecX) = liftDec (codecResponses o) := by
  funext bs
  simp only [responsesDecR, seqR, nestedR_lift, liftDec, codecResponses, decX4, vecX]
  cases (o.codecX.dec bs) with
  | none => rfl
  | some p0 =>
  obtain ⟨a0, r0⟩ := p0
  simp only [optR]
  cases (o.codecX.dec r0) with
  | none => rfl
  | some p1 =>
  obtain ⟨a1, r1⟩ := p1
  simp only [optR]
  cases (o.codecX.dec r1) with
  | none => rfl
  | some p2 =>
  obtain ⟨a2, r2⟩ := p2
  simp only [optR]
  cases (o.codecX.dec r2) with
  | none => rfl
  | some p3 =>
  obtain ⟨a3, r3⟩ := p3
  simp only [optR]
  cases ((nested o.codecX).dec r3) with
  | none => rfl
  | some p4 =>
  obtain ⟨a4, r4⟩ := p4
  simp only [optR]
  cases ((nested o.codecX).dec r4) with
  | none => rfl
  | some p5 =>
  obtain ⟨a5, r5⟩ := p5
  rfl

theorem shuffleProofDecR_lift (o : Ops ℕ ℕ) :
    shuffleProofDecR (liftDec o.codecE) (liftDec o.codecX) = liftDec (codecShuffleProof o) := by
  funext bs
  simp only [shuffleProofDecR, commitmentsDecR_lift, responsesDecR_lift, nestedR_lift, seqR, liftDec,
    codecShuffleProof, vecE]
  cases ((codecCommitments o).dec bs) with
  | none => rfl
  | some p0 =>
  obtain ⟨a0, r0⟩ := p0
  simp only [optR]
  cases ((codecResponses o).dec r0) with
  | none => rfl
  | some p1 =>
  obtain ⟨a1, r1⟩ := p1
  simp only [optR]
  cases ((nested o.codecE).dec r1) with
  | none => rfl
  | some p2 =>
  obtain ⟨a2, r2⟩ := p2
  simp only [optR]
  cases ((nested o.codecE).dec r2) with
  | none => rfl
  | some p3 =>
  obtain ⟨a3, r3⟩ := p3
  rfl

/-! ### the decoders of `natOps P fl` -/

section NatDecoders
variable (P : Params) (hprime : P.p.Prime) (hp : P.p = 2 * P.q + 1) (fl : Flavour)
include hprime hp

theorem pkFromBytesR_eq (bs : Bytes) :
    tryFromSliceR (natCodecER P fl) bs = optR (tryFromSlice (natOps P fl).codecE bs) := by
  rw [natCodecER_eq P hprime hp, tryFromSliceR_lift]; rfl

theorem ctFromBytesR_eq (bs : Bytes) :
    ctFromBytesR P fl bs = optR (tryFromSlice (codecCt (natOps P fl)) bs) := by
  unfold ctFromBytesR
  rw [natCodecER_eq P hprime hp]
  exact (congrArg (fun d => tryFromSliceR d bs) (ctDecR_lift (natOps P fl))).trans
    (tryFromSliceR_lift _ bs)

theorem ctsFromBytesR_eq (bs : Bytes) :
    ctsFromBytesR P fl bs = optR (tryFromSlice (vecC (natOps P fl)) bs) := by
  unfold ctsFromBytesR
  rw [natCodecER_eq P hprime hp]
  exact (congrArg (fun d => tryFromSliceR (nestedR d) bs) (ctDecR_lift (natOps P fl))).trans
    ((congrArg (fun d => tryFromSliceR d bs) (nestedR_lift _)).trans (tryFromSliceR_lift _ bs))

theorem schnorrFromBytesR_eq (bs : Bytes) :
    schnorrFromBytesR P fl bs = optR (tryFromSlice (codecSchnorr (natOps P fl)) bs) := by
  unfold schnorrFromBytesR
  rw [natCodecER_eq P hprime hp, natCodecXR_eq]
  exact (congrArg (fun d => tryFromSliceR d bs) (schnorrDecR_lift (natOps P fl))).trans
    (tryFromSliceR_lift _ bs)

theorem cpFromBytesR_eq (bs : Bytes) :
    cpFromBytesR P fl bs = optR (tryFromSlice (codecCP (natOps P fl)) bs) := by
  unfold cpFromBytesR
  rw [natCodecER_eq P hprime hp, natCodecXR_eq]
  exact (congrArg (fun d => tryFromSliceR d bs) (cpDecR_lift (natOps P fl))).trans
    (tryFromSliceR_lift _ bs)

theorem shuffleProofFromBytesR_eq (bs : Bytes) :
    shuffleProofFromBytesR P fl bs
      = optR (tryFromSlice (codecShuffleProof (natOps P fl)) bs) := by
  unfold shuffleProofFromBytesR
  rw [natCodecER_eq P hprime hp, natCodecXR_eq]
  exact (congrArg (fun d => tryFromSliceR d bs) (shuffleProofDecR_lift (natOps P fl))).trans
    (tryFromSliceR_lift _ bs)

end NatDecoders

/-! ### what decoding guarantees (the part of C11 needed here) -/

theorem natCodecE_dec_valid (P : Params) (hp : P.p = 2 * P.q + 1) (fl : Flavour) {bs r : Bytes}
    {a : ℕ} (h : (natCodecE P fl).dec bs = some (a, r)) : natValid P a ∧ a < P.p := by
  simp only [natCodecE] at h
  cases hd : decBytesVec bs with
  | none => rw [hd] at h; cases h
  | some x =>
    obtain ⟨b, rest⟩ := x
    rw [hd] at h
    simp only at h
    cases he : elementFromBytes P fl b with
    | none => rw [he] at h; cases h
    | some e =>
      rw [he] at h
      simp only [Option.some.injEq, Prod.mk.injEq] at h
      obtain ⟨rfl, _⟩ := h
      exact elementFromNat_valid P hp _ _ he

theorem nested_dec_mem {α : Type} {c : Codec α} {bs r : Bytes} {xs : List α}
    (h : (nested c).dec bs = some (xs, r)) : ∀ x ∈ xs, ∃ item, c.dec item = some (x, []) := by
  simp only [nested] at h
  cases hd : (vecOf bytesVec).dec bs with
  | none => rw [hd] at h; cases h
  | some p =>
    obtain ⟨items, rest⟩ := p
    rw [hd] at h
    simp only at h
    cases hm : mapOpt (tryFromSlice c) items with
    | none => rw [hm] at h; cases h
    | some ys =>
      rw [hm] at h
      simp only [Option.some.injEq, Prod.mk.injEq] at h
      obtain ⟨rfl, _⟩ := h
      intro x hx
      obtain ⟨i, _, hi⟩ := (mapOpt_mem items ys hm).2 x hx
      exact ⟨i, tryFromSlice_eq_some_iff.mp hi⟩

theorem codecShuffleProof_dec_vectors {E X : Type} (o : Ops E X) {bs r : Bytes}
    {pf : ShuffleProof E X} (h : (codecShuffleProof o).dec bs = some (pf, r)) :
    ∃ r2 r3 r4, (vecE o).dec r2 = some (pf.cs, r3) ∧ (vecE o).dec r3 = some (pf.cHats, r4) := by
  simp only [codecShuffleProof] at h
  cases h1 : (codecCommitments o).dec bs with
  | none => rw [h1] at h; cases h
  | some p1 =>
    obtain ⟨t, r1⟩ := p1
    rw [h1] at h
    simp only at h
    cases h2 : (codecResponses o).dec r1 with
    | none => rw [h2] at h; cases h
    | some p2 =>
      obtain ⟨s, r2⟩ := p2
      rw [h2] at h
      simp only at h
      cases h3 : (vecE o).dec r2 with
      | none => rw [h3] at h; cases h
      | some p3 =>
        obtain ⟨cs, r3⟩ := p3
        rw [h3] at h
        simp only at h
        cases h4 : (vecE o).dec r3 with
        | none => rw [h4] at h; cases h
        | some p4 =>
          obtain ⟨ch, r4⟩ := p4
          rw [h4] at h
          simp only [Option.some.injEq, Prod.mk.injEq] at h
          obtain ⟨rfl, _⟩ := h
          exact ⟨r2, r3, r4, h3, h4⟩

/-- the shuffle verifier on BYTES never panics: decoding does not panic and yields canonical
    members, on which `check_proof` does not panic -/
theorem verifyShuffleBytesR_eq {P : Params} (h : SafePrimeGroup P) (fl : Flavour)
    (gens : List ℕ) (hgens : ∀ g ∈ gens, natValid P g) (pkB pfB esB ePrimesB label : Bytes) :
    verifyShuffleBytesR P fl gens pkB pfB esB ePrimesB label
      = match tryFromSlice (natOps P fl).codecE pkB,
              tryFromSlice (codecShuffleProof (natOps P fl)) pfB,
              tryFromSlice (vecC (natOps P fl)) esB,
              tryFromSlice (vecC (natOps P fl)) ePrimesB with
        | some pk, some pf, some es, some ePrimes =>
          .ok (checkProof (natOps P fl) gens pk pf es ePrimes label)
        | _, _, _, _ => .error .err := by
  have hprime := h.p_prime
  have hp := h.p_eq
  unfold verifyShuffleBytesR
  rw [pkFromBytesR_eq P hprime hp, shuffleProofFromBytesR_eq P hprime hp,
    ctsFromBytesR_eq P hprime hp, ctsFromBytesR_eq P hprime hp]
  cases hpk : tryFromSlice (natOps P fl).codecE pkB with
  | none => rfl
  | some pk =>
    cases hpf : tryFromSlice (codecShuffleProof (natOps P fl)) pfB with
    | none => rfl
    | some pf =>
      cases hes : tryFromSlice (vecC (natOps P fl)) esB with
      | none => rfl
      | some es =>
        cases hep : tryFromSlice (vecC (natOps P fl)) ePrimesB with
        | none => rfl
        | some ePrimes =>
          simp only [optR]
          have hE : ∀ {bs r : Bytes} {a : ℕ}, (natOps P fl).codecE.dec bs = some (a, r) →
              natValid P a ∧ a < P.p := fun hd => natCodecE_dec_valid P hp fl hd
          obtain ⟨r2, r3, r4, hcs, hch⟩ :=
            codecShuffleProof_dec_vectors _ (tryFromSlice_eq_some_iff.mp hpf)
          refine checkProofR_eq_checkProof h fl gens pk pf es ePrimes label hgens
            (hE (tryFromSlice_eq_some_iff.mp hpk)) ?_ ?_ ?_
          · intro a ha
            obtain ⟨item, hi⟩ := nested_dec_mem hcs a ha
            exact (hE hi).1
          · intro a ha
            obtain ⟨item, hi⟩ := nested_dec_mem hch a ha
            exact hE hi
          · intro e he
            obtain ⟨item, hi⟩ := nested_dec_mem (tryFromSlice_eq_some_iff.mp hes) e he
            obtain ⟨r1, h1, h2⟩ := codecCt_dec_eq_some_iff.mp hi
            exact ⟨(hE h1).1, (hE h2).1⟩

/-! ### sizes -/

/-- a decoded `Vec<u8>` and the rest account for the whole input minus the 4-byte prefix -/
theorem decBytesVec_size {bs a r : Bytes} (h : decBytesVec bs = some (a, r)) :
    a.length + r.length + 4 = bs.length := by
  obtain ⟨n, rest, h1, h2, rfl, rfl⟩ := decBytesVec_eq_some_iff.1 h
  obtain ⟨a, b, c, d, rfl, _⟩ := decU32_eq_some_iff.1 h1
  simp only [List.length_take, List.length_drop, List.length_cons]
  omega

/-- `n` decoded items, each consuming at least one byte, need at least `n` bytes -/
theorem decItems_size {α : Type} {c : Codec α}
    (hc : ∀ bs a r, c.dec bs = some (a, r) → r.length < bs.length) :
    ∀ (n : ℕ) (bs : Bytes) (xs : List α) (r : Bytes), decItems c n bs = some (xs, r) →
      xs.length = n ∧ n + r.length ≤ bs.length
  | 0, bs, xs, r, h => by
    rw [decItems] at h
    simp only [Option.some.injEq, Prod.mk.injEq] at h
    obtain ⟨rfl, rfl⟩ := h
    simp
  | n + 1, bs, xs, r, h => by
    obtain ⟨a, r1, as, h1, h2, rfl⟩ := decItems_succ_eq_some_iff.1 h
    have := hc bs a r1 h1
    obtain ⟨h3, h4⟩ := decItems_size hc n r1 as r h2
    exact ⟨by rw [List.length_cons, h3], by omega⟩

theorem vecOf_size {α : Type} {c : Codec α}
    (hc : ∀ bs a r, c.dec bs = some (a, r) → r.length < bs.length) {bs r : Bytes} {xs : List α}
    (h : (vecOf c).dec bs = some (xs, r)) : xs.length + r.length + 4 ≤ bs.length := by
  obtain ⟨n, rest, h1, h2⟩ := vecOf_dec_eq_some_iff.1 h
  obtain ⟨a, b, c', d, rfl, _⟩ := decU32_eq_some_iff.1 h1
  obtain ⟨h3, h4⟩ := decItems_size hc n rest xs r h2
  simp only [List.length_cons]
  omega

/-- borsh's only speculative allocation is bounded by 4096 bytes (or one item) -/
theorem prealloc_le (sz len : ℕ) : cautious sz len * sz ≤ max 4096 sz := by
  unfold cautious
  by_cases h1 : 1 ≤ min len (4096 / sz)
  · rw [Nat.max_eq_left h1]
    calc min len (4096 / sz) * sz ≤ 4096 / sz * sz := Nat.mul_le_mul_right _ (Nat.min_le_right _ _)
      _ ≤ 4096 := Nat.div_mul_le_self _ _
      _ ≤ max 4096 sz := Nat.le_max_left _ _
  · rw [Nat.max_eq_right (by omega), Nat.one_mul]
    exact Nat.le_max_right _ _

end Strand
