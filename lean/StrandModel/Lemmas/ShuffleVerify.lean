import Mathlib.Algebra.BigOperators.Group.List.Basic
import StrandModel.Lemmas.Lawful
import StrandModel.Model.Shuffle
/-
The shuffle verifier `checkProof`, characterised (used by C04 and C03).

* generic lemmas on the folds of the model (`prodMod`, the `modq ∘ xmul` fold, `xsum`);
* the textbook Terelius–Wikström predicate `TW` (in denotations);
* `check_accepts_iff`: `checkProof = true ↔ lengths ∧ TW`.
-/
set_option linter.unusedSectionVars false
namespace Strand
variable {E X : Type} {o : Ops E X} {q : ℕ} {A : Type} [AddCommGroup A] [Module (ZMod q) A]

/-! ### generic list lemmas -/

theorem zipWith_congr_mem {α β γ : Type*} {f g : α → β → γ} :
    ∀ (as : List α) (bs : List β), (∀ a ∈ as, ∀ b ∈ bs, f a b = g a b) →
      List.zipWith f as bs = List.zipWith g as bs
  | [], _, _ => by simp
  | _ :: _, [], _ => by simp
  | a :: as, b :: bs, h => by
    rw [List.zipWith_cons_cons, List.zipWith_cons_cons, h a (by simp) b (by simp),
      zipWith_congr_mem as bs (fun a' ha' b' hb' => h a' (by simp [ha']) b' (by simp [hb']))]

theorem forall_mem_zipWith {α β γ : Type*} {f : α → β → γ} {P : γ → Prop} :
    ∀ (as : List α) (bs : List β), (∀ a ∈ as, ∀ b ∈ bs, P (f a b)) →
      ∀ c ∈ List.zipWith f as bs, P c
  | [], _, _ => by simp
  | _ :: _, [], _ => by simp
  | a :: as, b :: bs, h => by
    intro c hc
    rw [List.zipWith_cons_cons, List.mem_cons] at hc
    rcases hc with rfl | hc
    · exact h a (by simp) b (by simp)
    · exact forall_mem_zipWith as bs
        (fun a' ha' b' hb' => h a' (by simp [ha']) b' (by simp [hb'])) c hc

namespace Lawful
variable (L : Lawful o q A)

/-! ### `prodMod` : the reduced running product -/

theorem prodMod_foldl_valid (xs : List E) (acc : E) (hacc : L.valid acc)
    (hxs : ∀ x ∈ xs, L.valid x) :
    L.valid (xs.foldl (fun acc x => o.modp (o.mul acc x)) acc) := by
  induction xs generalizing acc with
  | nil => exact hacc
  | cons x xs ih =>
    rw [List.foldl_cons]
    exact ih _ (L.modp_valid (L.mul_valid hacc (hxs x (by simp))))
      (fun y hy => hxs y (by simp [hy]))

theorem prodMod_foldl_canon (xs : List E) (acc : E) (hacc : L.V acc)
    (hxs : ∀ x ∈ xs, L.valid x) :
    L.canon (xs.foldl (fun acc x => o.modp (o.mul acc x)) acc) := by
  induction xs generalizing acc with
  | nil => exact hacc.2
  | cons x xs ih =>
    rw [List.foldl_cons]
    exact ih _ (L.modp_mul_V hacc.1 (hxs x (by simp))) (fun y hy => hxs y (by simp [hy]))

theorem prodMod_foldl_den (xs : List E) (acc : E) (hacc : L.valid acc)
    (hxs : ∀ x ∈ xs, L.valid x) :
    L.den (xs.foldl (fun acc x => o.modp (o.mul acc x)) acc)
      = L.den acc + (xs.map L.den).sum := by
  induction xs generalizing acc with
  | nil => simp
  | cons x xs ih =>
    have hx := hxs x (by simp)
    rw [List.foldl_cons, ih _ (L.modp_valid (L.mul_valid hacc hx))
      (fun y hy => hxs y (by simp [hy])), L.modp_mul_den hacc hx, List.map_cons, List.sum_cons,
      add_assoc]

theorem prodMod_valid {xs : List E} (hxs : ∀ x ∈ xs, L.valid x) : L.valid (prodMod o xs) :=
  L.prodMod_foldl_valid xs _ L.ident_valid hxs
theorem prodMod_canon {xs : List E} (hxs : ∀ x ∈ xs, L.valid x) : L.canon (prodMod o xs) :=
  L.prodMod_foldl_canon xs _ L.ident_V hxs
theorem prodMod_V {xs : List E} (hxs : ∀ x ∈ xs, L.valid x) : L.V (prodMod o xs) :=
  ⟨L.prodMod_valid hxs, L.prodMod_canon hxs⟩
/-- the reduced running product denotes the sum of the denotations -/
theorem prodMod_den {xs : List E} (hxs : ∀ x ∈ xs, L.valid x) :
    L.den (prodMod o xs) = (xs.map L.den).sum := by
  unfold prodMod
  rw [L.prodMod_foldl_den xs _ L.ident_valid hxs, L.ident_den, zero_add]

/-- `prodMod` of `zipWith (fun a x => emodPow (p a) x)` (the multi-exponentiations) -/
theorem prodMod_pow_valid {α : Type} (p : α → E) (as : List α) (xs : List X)
    (has : ∀ a ∈ as, L.valid (p a)) :
    L.valid (prodMod o (List.zipWith (fun a x => o.emodPow (p a) x) as xs)) :=
  L.prodMod_valid (forall_mem_zipWith (P := L.valid) as xs
    (fun a ha x _ => L.emodPow_valid x (has a ha)))

theorem prodMod_pow_den {α : Type} (p : α → E) (as : List α) (xs : List X)
    (has : ∀ a ∈ as, L.valid (p a)) :
    L.den (prodMod o (List.zipWith (fun a x => o.emodPow (p a) x) as xs))
      = (List.zipWith (fun a x => L.dx x • L.den (p a)) as xs).sum := by
  rw [L.prodMod_den (forall_mem_zipWith (P := L.valid) as xs
    (fun a ha x _ => L.emodPow_valid x (has a ha))), List.map_zipWith]
  congr 1
  exact zipWith_congr_mem as xs (fun a ha x _ => L.emodPow_den x (has a ha))

theorem prodMod_pow_valid' (as : List E) (xs : List X) (has : ∀ a ∈ as, L.valid a) :
    L.valid (prodMod o (List.zipWith o.emodPow as xs)) :=
  L.prodMod_pow_valid id as xs has

theorem prodMod_pow_den' (as : List E) (xs : List X) (has : ∀ a ∈ as, L.valid a) :
    L.den (prodMod o (List.zipWith o.emodPow as xs))
      = (List.zipWith (fun a x => L.dx x • L.den a) as xs).sum :=
  L.prodMod_pow_den id as xs has

/-! ### the exponent folds -/

theorem xprod_foldl_dx (us : List X) (acc : X) :
    L.dx (us.foldl (fun acc x => o.modq (o.xmul acc x)) acc)
      = L.dx acc * (us.map L.dx).prod := by
  induction us generalizing acc with
  | nil => simp
  | cons u us ih =>
    rw [List.foldl_cons, ih, L.modq_dx, L.xmul_dx, List.map_cons, List.prod_cons, mul_assoc]

/-- the verifier's `u = Π u_i` -/
theorem xprod_dx (us : List X) :
    L.dx (us.foldl (fun acc x => o.modq (o.xmul acc x)) o.oneX) = (us.map L.dx).prod := by
  rw [L.xprod_foldl_dx, L.oneX_dx, one_mul]

theorem xsum_foldl_dx (xs : List X) (acc : X) :
    L.dx (xs.foldl o.xadd acc) = L.dx acc + (xs.map L.dx).sum := by
  induction xs generalizing acc with
  | nil => simp
  | cons x xs ih =>
    rw [List.foldl_cons, ih, L.xadd_dx, List.map_cons, List.sum_cons, add_assoc]

theorem xsum_dx (xs : List X) : L.dx (xsum o xs) = (xs.map L.dx).sum := by
  unfold xsum
  rw [L.xsum_foldl_dx, L.zeroX_dx, zero_add]

/-! ### the shapes of the verifier's comparisons -/

/-- `t = a^{-c} · g^s`  ⟺  `s•G = t + c•a` -/
theorem verif2 {a t : E} (c s : X) (ha : L.valid a) (ht : L.V t) :
    t = o.modp (o.mul (o.emodPow (o.invp a) c) (o.gmodPow s)) ↔
      L.dx s • L.den o.generator = L.den t + L.dx c • L.den a := by
  have h1 := L.emodPow_valid c (L.invp_valid ha)
  rw [L.eq_iff ht (L.modp_mul_V h1 (L.gmodPow_valid s)), L.modp_mul_den h1 (L.gmodPow_valid s),
    L.emodPow_den _ (L.invp_valid ha), L.invp_den ha, L.gmodPow_den]
  constructor
  · intro h; rw [h]; module
  · intro h; rw [h]; module

/-- `t = a^{-c} · b · d`  ⟺  `b + d = t + c•a` -/
theorem verif3 {a b d t : E} (c : X) (ha : L.valid a) (hb : L.valid b) (hd : L.valid d)
    (ht : L.V t) :
    t = o.modp (o.mul (o.mul (o.emodPow (o.invp a) c) b) d) ↔
      L.den b + L.den d = L.den t + L.dx c • L.den a := by
  have h1 := L.emodPow_valid c (L.invp_valid ha)
  have h2 := L.mul_valid h1 hb
  rw [L.eq_iff ht (L.modp_mul_V h2 hd), L.modp_mul_den h2 hd, L.mul_den h1 hb,
    L.emodPow_den _ (L.invp_valid ha), L.invp_den ha]
  constructor
  · intro h; rw [h]; module
  · intro h
    have : L.den t = (L.den b + L.den d) - L.dx c • L.den a := by rw [h]; module
    rw [this]; module

end Lawful

/-! ### the Terelius–Wikström verification equations -/

/-- every element carried by a shuffle proof is a group member, and the proof-commitments `t`
    (which the verifier compares for equality) are in canonical form.  True of anything that
    was deserialised (C11). -/
structure ProofV (L : Lawful o q A) (pf : ShuffleProof E X) : Prop where
  t1 : L.V pf.t.t1
  t2 : L.V pf.t.t2
  t3 : L.V pf.t.t3
  t4_1 : L.V pf.t.t4_1
  t4_2 : L.V pf.t.t4_2
  tHats : ∀ x ∈ pf.t.tHats, L.V x
  cs : ∀ x ∈ pf.cs, L.valid x
  cHats : ∀ x ∈ pf.cHats, L.valid x

/-- The six families of verification equations of the Terelius–Wikström proof of a shuffle, for a
challenge `c : ZMod q` and per-ciphertext challenges `us`, in additive notation
(`⟦a⟧ = L.den a`, `G = ⟦g⟧`, exponents through `L.dx`).  `h0 :: hs` are the generators, `pf`
the proof `(t, s, cs, ĉ)`, `es` / `ePrimes` the input / output ciphertexts.
Sums of products `Σ x_i • ⟦a_i⟧` are written `(List.zipWith (fun a x => dx x • ⟦a⟧) as xs).sum`. -/
structure TWcore (L : Lawful o q A) (c : ZMod q) (us : List X) (h0 : E) (hs : List E) (pk : E)
    (pf : ShuffleProof E X) (es ePrimes : List (Ciphertext E)) : Prop where
  /-- `s1•G = ⟦t1⟧ + c•(Σ⟦cs_j⟧ − Σ⟦h_i⟧)` -/
  eq1 : L.dx pf.s.s1 • L.den o.generator
      = L.den pf.t.t1 + c • ((pf.cs.map L.den).sum - (hs.map L.den).sum)
  /-- `s2•G = ⟦t2⟧ + c•(⟦ĉ_{N-1}⟧ − (Π u_j)•⟦h0⟧)`  (`ĉ_{-1} = h0`) -/
  eq2 : L.dx pf.s.s2 • L.den o.generator
      = L.den pf.t.t2 + c • (L.den (pf.cHats.getLastD h0) - (us.map L.dx).prod • L.den h0)
  /-- `s3•G + Σ s'_i•⟦h_i⟧ = ⟦t3⟧ + c•Σ u_j•⟦cs_j⟧` -/
  eq3 : L.dx pf.s.s3 • L.den o.generator
        + (List.zipWith (fun h s => L.dx s • L.den h) hs pf.s.sPrimes).sum
      = L.den pf.t.t3 + c • (List.zipWith (fun a u => L.dx u • L.den a) pf.cs us).sum
  /-- `Σ s'_i•⟦e'_i.mhr⟧ − s4•⟦pk⟧ = ⟦t4_1⟧ + c•Σ u_i•⟦e_i.mhr⟧` -/
  eq41 : (List.zipWith (fun (e : Ciphertext E) s => L.dx s • L.den e.mhr) ePrimes pf.s.sPrimes).sum
        - L.dx pf.s.s4 • L.den pk
      = L.den pf.t.t4_1
        + c • (List.zipWith (fun (e : Ciphertext E) u => L.dx u • L.den e.mhr) es us).sum
  /-- `Σ s'_i•⟦e'_i.gr⟧ − s4•G = ⟦t4_2⟧ + c•Σ u_i•⟦e_i.gr⟧` -/
  eq42 : (List.zipWith (fun (e : Ciphertext E) s => L.dx s • L.den e.gr) ePrimes pf.s.sPrimes).sum
        - L.dx pf.s.s4 • L.den o.generator
      = L.den pf.t.t4_2
        + c • (List.zipWith (fun (e : Ciphertext E) u => L.dx u • L.den e.gr) es us).sum
  /-- for every position `i`:  `ŝ_i•G + s'_i•⟦ĉ_{i-1}⟧ = ⟦t̂_i⟧ + c•⟦ĉ_i⟧`  (`ĉ_{-1} = h0`) -/
  chain : ∀ (i : ℕ) (prev ci th : E) (sh sp : X),
      (h0 :: pf.cHats)[i]? = some prev → pf.cHats[i]? = some ci → pf.t.tHats[i]? = some th →
      pf.s.sHats[i]? = some sh → pf.s.sPrimes[i]? = some sp →
      L.dx sh • L.den o.generator + L.dx sp • L.den prev = L.den th + c • L.den ci

/-- `TWcore` for the challenges the verifier recomputes from the complete statement
    (inputs, outputs, commitments, public key, label); `gens = h0 :: hs`. -/
def TW (L : Lawful o q A) (o' : Ops E X) (gens : List E) (pk : E) (pf : ShuffleProof E X)
    (es ePrimes : List (Ciphertext E)) (label : Bytes) : Prop :=
  match gens with
  | [] => False
  | h0 :: hs =>
    TWcore L (L.dx (shuffleChallenge o' es ePrimes pf.cs pf.cHats pk pf.t label))
      (shuffleUs o' es ePrimes pf.cs es.length label) h0 hs pk pf es ePrimes

/-- the five length conditions on the proof, and the three on the statement -/
def LengthsOK (gens : List E) (pf : ShuffleProof E X) (es ePrimes : List (Ciphertext E)) : Prop :=
  0 < es.length ∧ ePrimes.length = es.length ∧ gens.length = es.length + 1 ∧
  pf.cs.length = es.length ∧ pf.cHats.length = es.length ∧ pf.t.tHats.length = es.length ∧
  pf.s.sHats.length = es.length ∧ pf.s.sPrimes.length = es.length

/-! ### the recomputed chain commitments -/

theorem tHatPrimes_length (c : X) (h0 : E) (cHats : List E) (sHats sPrimes : List X) :
    (tHatPrimes o c h0 cHats sHats sPrimes).length
      = min cHats.length (min sHats.length sPrimes.length) := by
  unfold tHatPrimes
  simp only [List.length_zipWith, List.length_zip, List.length_cons]
  omega

theorem tHatPrimes_getElem? (c : X) (h0 : E) (cHats : List E) (sHats sPrimes : List X) (i : ℕ)
    {prev ci : E} {sh sp : X} (h1 : (h0 :: cHats)[i]? = some prev) (h2 : cHats[i]? = some ci)
    (h3 : sHats[i]? = some sh) (h4 : sPrimes[i]? = some sp) :
    (tHatPrimes o c h0 cHats sHats sPrimes)[i]?
      = some (o.modp (o.mul (o.mul (o.emodPow (o.invp ci) c) (o.gmodPow sh)) (o.emodPow prev sp))) := by
  unfold tHatPrimes
  have e1 : (List.zip (h0 :: cHats) cHats)[i]? = some (prev, ci) :=
    List.getElem?_zip_eq_some.mpr ⟨h1, h2⟩
  have e2 : (List.zip sHats sPrimes)[i]? = some (sh, sp) :=
    List.getElem?_zip_eq_some.mpr ⟨h3, h4⟩
  simp only [List.getElem?_zipWith, e1, e2]

/-- one recomputed chain commitment -/
theorem Lawful.chain_elem_iff (L : Lawful o q A) {prev ci th : E} (c sh sp : X)
    (hp : L.valid prev) (hci : L.valid ci) (hth : L.V th) :
    th = o.modp (o.mul (o.mul (o.emodPow (o.invp ci) c) (o.gmodPow sh)) (o.emodPow prev sp)) ↔
      L.dx sh • L.den o.generator + L.dx sp • L.den prev = L.den th + L.dx c • L.den ci := by
  rw [L.verif3 c hci (L.gmodPow_valid sh) (L.emodPow_valid sp hp) hth, L.gmodPow_den,
    L.emodPow_den _ hp]

/-- the comparison of the chain proof-commitments, position by position -/
theorem tHats_eq_iff (L : Lawful o q A) (c : X) (h0 : E) (cHats tHats : List E)
    (sHats sPrimes : List X) (n : ℕ) (hc : cHats.length = n) (ht : tHats.length = n)
    (hsh : sHats.length = n) (hsp : sPrimes.length = n) (hh0 : L.valid h0)
    (hcv : ∀ x ∈ cHats, L.valid x) (htv : ∀ x ∈ tHats, L.V x) :
    tHats = tHatPrimes o c h0 cHats sHats sPrimes ↔
      ∀ (i : ℕ) (prev ci th : E) (sh sp : X),
        (h0 :: cHats)[i]? = some prev → cHats[i]? = some ci → tHats[i]? = some th →
        sHats[i]? = some sh → sPrimes[i]? = some sp →
        L.dx sh • L.den o.generator + L.dx sp • L.den prev = L.den th + L.dx c • L.den ci := by
  have hpv : ∀ x ∈ h0 :: cHats, L.valid x := by
    intro x hx
    rcases List.mem_cons.mp hx with rfl | hx
    · exact hh0
    · exact hcv x hx
  constructor
  · intro h i prev ci th sh sp h1 h2 h3 h4 h5
    have e := tHatPrimes_getElem? (o := o) c h0 cHats sHats sPrimes i h1 h2 h4 h5
    rw [← h, h3] at e
    exact (L.chain_elem_iff c sh sp (hpv _ (List.mem_of_getElem? h1))
      (hcv _ (List.mem_of_getElem? h2)) (htv _ (List.mem_of_getElem? h3))).mp (Option.some.inj e)
  · intro h
    apply List.ext_getElem?
    intro i
    by_cases hi : i < n
    · have h1 : (h0 :: cHats)[i]? = some ((h0 :: cHats)[i]'(by simp; omega)) :=
        List.getElem?_eq_getElem _
      have h2 : cHats[i]? = some (cHats[i]'(by omega)) := List.getElem?_eq_getElem _
      have h3 : tHats[i]? = some (tHats[i]'(by omega)) := List.getElem?_eq_getElem _
      have h4 : sHats[i]? = some (sHats[i]'(by omega)) := List.getElem?_eq_getElem _
      have h5 : sPrimes[i]? = some (sPrimes[i]'(by omega)) := List.getElem?_eq_getElem _
      rw [tHatPrimes_getElem? (o := o) c h0 cHats sHats sPrimes i h1 h2 h4 h5, h3]
      congr 1
      exact (L.chain_elem_iff c _ _ (hpv _ (List.mem_of_getElem? h1))
        (hcv _ (List.mem_of_getElem? h2)) (htv _ (List.mem_of_getElem? h3))).mpr
        (h i _ _ _ _ _ h1 h2 h3 h4 h5)
    · rw [List.getElem?_eq_none (by omega), List.getElem?_eq_none]
      rw [tHatPrimes_length]; omega

/-! ### the verifier's decision -/

theorem checkProof_false_of_not_lengths [DecidableEq E] (gens : List E) (pk : E)
    (pf : ShuffleProof E X) (es ePrimes : List (Ciphertext E)) (label : Bytes)
    (h : ¬ LengthsOK gens pf es ePrimes) : checkProof o gens pk pf es ePrimes label = false := by
  unfold checkProof
  simp only []
  rw [if_pos]
  unfold LengthsOK at h
  by_contra hc
  apply h
  simp only [not_or, not_not] at hc
  exact ⟨by omega, hc.2.1, hc.2.2.1, hc.2.2.2.1, hc.2.2.2.2.1, hc.2.2.2.2.2.1, hc.2.2.2.2.2.2.1,
    hc.2.2.2.2.2.2.2⟩

/-- **The verifier accepts iff the proof has exactly one entry per ciphertext in each of its five
vectors (and the statement is well-formed) and every Terelius–Wikström equation holds for the
recomputed challenges.** -/
theorem check_accepts_iff [DecidableEq E] (L : Lawful o q A) (gens : List E) (pk : E)
    (pf : ShuffleProof E X) (es ePrimes : List (Ciphertext E)) (label : Bytes)
    (hgens : ∀ g ∈ gens, L.valid g) (hpk : L.valid pk)
    (hes : ∀ e ∈ es, L.valid e.mhr ∧ L.valid e.gr)
    (heps : ∀ e ∈ ePrimes, L.valid e.mhr ∧ L.valid e.gr) (hpf : ProofV L pf) :
    checkProof o gens pk pf es ePrimes label = true ↔
      LengthsOK gens pf es ePrimes ∧ TW L o gens pk pf es ePrimes label := by
  by_cases hl : LengthsOK gens pf es ePrimes
  swap
  · rw [checkProof_false_of_not_lengths gens pk pf es ePrimes label hl]
    simp [hl]
  obtain ⟨hN, hle, hlg, hlcs, hlch, hlth, hlsh, hlsp⟩ := hl
  have hl : LengthsOK gens pf es ePrimes := ⟨hN, hle, hlg, hlcs, hlch, hlth, hlsh, hlsp⟩
  -- the generators and the last chain commitment
  obtain ⟨h0, hs, rfl⟩ : ∃ h0 hs, gens = h0 :: hs := by
    cases gens with
    | nil => simp at hlg
    | cons a l => exact ⟨a, l, rfl⟩
  have hne : pf.cHats ≠ [] := by
    intro h; rw [h] at hlch; simp at hlch; omega
  have hcl : pf.cHats.getLast? = some (pf.cHats.getLast hne) := List.getLast?_eq_some_getLast hne
  have hclD : pf.cHats.getLastD h0 = pf.cHats.getLast hne := by
    rw [List.getLastD_eq_getLast?, hcl]; rfl
  have hh0 : L.valid h0 := hgens h0 (by simp)
  have hhs : ∀ h ∈ hs, L.valid h := fun h hh => hgens h (by simp [hh])
  have hclv : L.valid (pf.cHats.getLast hne) := hpf.cHats _ (List.getLast_mem hne)
  -- unfold the verifier
  unfold checkProof
  simp only []
  rw [if_neg (by omega), hcl]
  simp only [Bool.and_eq_true, decide_eq_true_eq, hl, true_and, TW]
  -- validity of the recomputed values
  have vNum := L.prodMod_valid hpf.cs
  have vDen := L.prodMod_valid hhs
  have vBar := L.modp_valid (L.divp_valid vNum vDen)
  have vHat := L.modp_valid (L.divp_valid hclv (L.emodPow_valid
    ((shuffleUs o es ePrimes pf.cs es.length label).foldl
      (fun acc x => o.modq (o.xmul acc x)) o.oneX) hh0))
  rw [L.verif2 _ _ vBar hpf.t1, L.verif2 _ _ vHat hpf.t2,
    L.verif3 _ (L.prodMod_pow_valid' _ _ hpf.cs) (L.gmodPow_valid _)
      (L.prodMod_pow_valid' _ _ hhs) hpf.t3,
    L.verif3 _ (L.prodMod_pow_valid Ciphertext.mhr _ _ (fun e he => (hes e he).1))
      (L.emodPow_valid _ (L.invp_valid hpk))
      (L.prodMod_pow_valid Ciphertext.mhr _ _ (fun e he => (heps e he).1)) hpf.t4_1,
    L.verif3 _ (L.prodMod_pow_valid Ciphertext.gr _ _ (fun e he => (hes e he).2))
      (L.emodPow_valid _ (L.invp_valid L.gen_valid))
      (L.prodMod_pow_valid Ciphertext.gr _ _ (fun e he => (heps e he).2)) hpf.t4_2,
    tHats_eq_iff L _ h0 pf.cHats pf.t.tHats pf.s.sHats pf.s.sPrimes es.length hlch hlth hlsh hlsp
      hh0 hpf.cHats hpf.tHats]
  -- denotations of the recomputed values
  rw [L.modp_den (L.divp_valid vNum vDen), L.divp_den vNum vDen, L.prodMod_den hpf.cs,
    L.prodMod_den hhs, L.modp_den (L.divp_valid hclv (L.emodPow_valid _ hh0)),
    L.divp_den hclv (L.emodPow_valid _ hh0), L.emodPow_den _ hh0, L.xprod_dx,
    L.prodMod_pow_den' _ _ hpf.cs, L.prodMod_pow_den' _ _ hhs, L.gmodPow_den,
    L.prodMod_pow_den Ciphertext.mhr _ _ (fun e he => (hes e he).1),
    L.prodMod_pow_den Ciphertext.mhr _ _ (fun e he => (heps e he).1),
    L.prodMod_pow_den Ciphertext.gr _ _ (fun e he => (hes e he).2),
    L.prodMod_pow_den Ciphertext.gr _ _ (fun e he => (heps e he).2),
    L.emodPow_den _ (L.invp_valid hpk), L.invp_den hpk,
    L.emodPow_den _ (L.invp_valid L.gen_valid), L.invp_den L.gen_valid, ← hclD]
  constructor
  · rintro ⟨⟨⟨⟨⟨e1, e2⟩, e3⟩, e41⟩, e42⟩, ech⟩
    refine ⟨e1, e2, e3, ?_, ?_, ech⟩
    · rw [← e41]; module
    · rw [← e42]; module
  · intro h
    refine ⟨⟨⟨⟨⟨h.eq1, h.eq2⟩, h.eq3⟩, ?_⟩, ?_⟩, h.chain⟩
    · rw [← h.eq41]; module
    · rw [← h.eq42]; module

end Strand
