import Mathlib.Algebra.BigOperators.Group.List.Basic
import StrandModel.Model.Shuffle
/-
List-level facts about permutations given as `List Nat` (a rearrangement of `List.range N`),
as the shuffler uses them: gathering (`perm.map (l[·])`, the `mapOpt (l[·]?)` of the model) and
scattering (`scatter`, the `out[perm[i]] = xs[i]` loop).  No back-end involved.
-/
namespace Strand
namespace ShufflePerm

variable {α β : Type}

/-! ### what `perm ~ range N` gives -/

theorem perm_lt {perm : List Nat} {N : Nat} (h : perm.Perm (List.range N)) :
    ∀ p ∈ perm, p < N := fun _ hp => List.mem_range.1 (h.mem_iff.1 hp)

theorem perm_length {perm : List Nat} {N : Nat} (h : perm.Perm (List.range N)) :
    perm.length = N := by rw [h.length_eq, List.length_range]

theorem perm_nodup {perm : List Nat} {N : Nat} (h : perm.Perm (List.range N)) : perm.Nodup :=
  h.symm.nodup List.nodup_range

/-! ### gathering: `mapOpt (l[·]?) perm` -/

/-- default-free form: every index in range ⇒ the gather succeeds with `l[p]` at each place -/
theorem mapOpt_getElem?_eq_pmap (l : List α) :
    ∀ (perm : List Nat) (h : ∀ p ∈ perm, p < l.length),
      mapOpt (fun p => l[p]?) perm = some (perm.pmap (fun p hp => l[p]'hp) h) := by
  intro perm
  induction perm with
  | nil => intro _; rfl
  | cons p ps ih =>
    intro h
    have hp : p < l.length := h p List.mem_cons_self
    have ih' := ih (fun x hx => h x (List.mem_cons_of_mem _ hx))
    simp only [mapOpt, List.getElem?_eq_getElem hp, ih', List.pmap]

/-- for any default `d` -/
theorem mapOpt_getElem?_eq_some (l : List α) (d : α) :
    ∀ (perm : List Nat), (∀ p ∈ perm, p < l.length) →
      mapOpt (fun p => l[p]?) perm = some (perm.map (fun p => l.getD p d)) := by
  intro perm
  induction perm with
  | nil => intro _; rfl
  | cons p ps ih =>
    intro h
    have hp : p < l.length := h p List.mem_cons_self
    have ih' := ih (fun x hx => h x (List.mem_cons_of_mem _ hx))
    simp only [mapOpt, List.getElem?_eq_getElem hp, ih', List.map_cons, List.getD_eq_getElem?_getD,
      Option.getD_some]

/-- existence form with honest bounds -/
theorem mapOpt_getElem?_spec (l : List α) (perm : List Nat) (h : ∀ p ∈ perm, p < l.length) :
    ∃ outs, mapOpt (fun p => l[p]?) perm = some outs ∧ ∃ hl : outs.length = perm.length,
      ∀ k (hk : k < perm.length),
        outs[k]'(hl ▸ hk) = l[perm[k]]'(h _ (List.getElem_mem hk)) := by
  refine ⟨_, mapOpt_getElem?_eq_pmap l perm h, List.length_pmap .., ?_⟩
  intro k hk
  rw [List.getElem_pmap]

/-- one index out of range ⇒ the gather fails (the Rust index panics) -/
theorem mapOpt_getElem?_eq_none (l : List α) :
    ∀ (perm : List Nat), (∃ p ∈ perm, l.length ≤ p) → mapOpt (fun p => l[p]?) perm = none := by
  intro perm
  induction perm with
  | nil => rintro ⟨p, hp, _⟩; cases hp
  | cons p ps ih =>
    rintro ⟨x, hx, hle⟩
    rcases List.mem_cons.1 hx with rfl | hx'
    · simp only [mapOpt, List.getElem?_eq_none hle]
    · have := ih ⟨x, hx', hle⟩
      simp only [mapOpt, this]
      cases l[p]? <;> rfl

theorem mapOpt_getElem?_isSome_iff (l : List α) (perm : List Nat) :
    (mapOpt (fun p => l[p]?) perm).isSome = true ↔ ∀ p ∈ perm, p < l.length := by
  constructor
  · intro h p hp
    by_contra hlt
    rw [mapOpt_getElem?_eq_none l perm ⟨p, hp, Nat.le_of_not_lt hlt⟩] at h
    cases h
  · intro h
    rw [mapOpt_getElem?_eq_pmap l perm h]; rfl

/-! ### a gather along a permutation is a permutation -/

theorem map_range_getD (l : List α) (d : α) :
    (List.range l.length).map (fun p => l.getD p d) = l := by
  apply List.ext_getElem
  · simp
  · intro i h1 h2
    simp [List.getD_eq_getElem?_getD, List.getElem?_eq_getElem h2]

/-- nothing dropped, duplicated or altered: gathering `l` along `perm ~ range l.length` -/
theorem perm_map_getD_perm {l : List α} {perm : List Nat} (d : α)
    (h : perm.Perm (List.range l.length)) : (perm.map (fun p => l.getD p d)).Perm l := by
  have := h.map (fun p => l.getD p d)
  rwa [map_range_getD] at this

theorem perm_map_getElem_perm {l : List α} {perm : List Nat} (d : α)
    (h : perm.Perm (List.range l.length)) : (perm.map (fun p => l.getD p d)).Perm l :=
  perm_map_getD_perm d h

/-- the same for the model's `mapOpt (l[·]?)` -/
theorem mapOpt_getElem?_perm {l : List α} {perm : List Nat}
    (h : perm.Perm (List.range l.length)) :
    ∃ outs, mapOpt (fun p => l[p]?) perm = some outs ∧ outs.Perm l := by
  cases l with
  | nil =>
    have : perm = [] := List.perm_nil.1 (by simpa using h)
    subst this
    exact ⟨[], rfl, List.Perm.refl _⟩
  | cons d t =>
    exact ⟨_, mapOpt_getElem?_eq_some (d :: t) d perm (perm_lt h), perm_map_getD_perm d h⟩

/-- `perm` as the list of its entries -/
theorem map_range_getD_self (perm : List Nat) (N : Nat) (hN : perm.length = N) (d : Nat) :
    (List.range N).map (fun i => perm.getD i d) = perm := by
  subst hN; exact map_range_getD perm d

/-- re-indexing a sum along a permutation -/
theorem sum_map_perm_reindex {M : Type*} [AddCommMonoid M] {perm : List Nat} {N : Nat}
    (h : perm.Perm (List.range N)) (f : Nat → M) :
    (perm.map f).sum = ((List.range N).map f).sum := (h.map f).sum_eq

/-- … in the form `Σ_i f perm[i] = Σ_j f j` -/
theorem sum_range_perm_reindex {M : Type*} [AddCommMonoid M] {perm : List Nat} {N : Nat}
    (h : perm.Perm (List.range N)) (f : Nat → M) (d : Nat) :
    ((List.range N).map (fun i => f (perm.getD i d))).sum = ((List.range N).map f).sum := by
  rw [← sum_map_perm_reindex h f]
  congr 1
  conv_rhs => rw [← map_range_getD_self perm N (perm_length h) d]
  rw [List.map_map]; rfl

/-! ### scattering: `out[perm[i]] = xs[i]` -/

theorem scatter_nil_left (xs init : List α) : scatter [] xs init = init := rfl
theorem scatter_nil_right (perm : List Nat) (init : List α) : scatter perm [] init = init := by
  unfold scatter; rw [List.zip_nil_right]; rfl
theorem scatter_cons (p : Nat) (ps : List Nat) (x : α) (xs init : List α) :
    scatter (p :: ps) (x :: xs) init = scatter ps xs (init.set p x) := rfl

/-- `scatter` never changes the length (no hypothesis) -/
theorem scatter_length : ∀ (perm : List Nat) (xs init : List α),
    (scatter perm xs init).length = init.length := by
  intro perm
  induction perm with
  | nil => intro xs init; rfl
  | cons p ps ih =>
    intro xs init
    cases xs with
    | nil => rw [scatter_nil_right]
    | cons x xt => rw [scatter_cons, ih, List.length_set]

/-- positions not named by `perm` keep their initial value -/
theorem scatter_getElem?_of_not_mem : ∀ (perm : List Nat) (xs init : List α) (j : Nat),
    j ∉ perm → (scatter perm xs init)[j]? = init[j]? := by
  intro perm
  induction perm with
  | nil => intro xs init j _; rfl
  | cons p ps ih =>
    intro xs init j hj
    cases xs with
    | nil => rw [scatter_nil_right]
    | cons x xt =>
      have hjp : p ≠ j := fun h => hj (h ▸ List.mem_cons_self)
      have hjps : j ∉ ps := fun h => hj (List.mem_cons_of_mem _ h)
      rw [scatter_cons, ih xt _ j hjps, List.getElem?_set_ne hjp]

/-- position `perm[i]` receives `xs[i]` (`perm` without repetition, indices in range) -/
theorem scatter_getElem?_perm : ∀ (perm : List Nat) (xs init : List α), perm.Nodup →
    (∀ p ∈ perm, p < init.length) → ∀ i (hi : i < perm.length) (hx : i < xs.length),
      (scatter perm xs init)[perm[i]]? = some xs[i] := by
  intro perm
  induction perm with
  | nil => intro xs init _ _ i hi; cases hi
  | cons p ps ih =>
    intro xs init hnd hb i hi hx
    cases xs with
    | nil => cases hx
    | cons x xt =>
      rw [scatter_cons]
      have hnd' := List.nodup_cons.1 hnd
      cases i with
      | zero =>
        simp only [List.getElem_cons_zero]
        rw [scatter_getElem?_of_not_mem ps xt _ p hnd'.1,
          List.getElem?_set_self (hb p List.mem_cons_self)]
      | succ i =>
        simp only [List.getElem_cons_succ]
        exact ih xt _ hnd'.2 (fun q hq => by
          rw [List.length_set]; exact hb q (List.mem_cons_of_mem _ hq)) i
          (Nat.lt_of_succ_lt_succ hi) (Nat.lt_of_succ_lt_succ hx)

/-- the specification of `scatter` for a permutation of `range N` -/
theorem scatter_getElem {perm : List Nat} {xs init : List α} {N : Nat}
    (h : perm.Perm (List.range N)) (hx : xs.length = N) (hi : init.length = N) :
    ∃ hl : (scatter perm xs init).length = N, ∀ i (hiN : i < N),
      (scatter perm xs init)[perm[i]'(by rw [perm_length h]; exact hiN)]'(by
          rw [hl]; exact perm_lt h _ (List.getElem_mem _))
        = xs[i]'(by rw [hx]; exact hiN) := by
  have hl : (scatter perm xs init).length = N := by rw [scatter_length, hi]
  refine ⟨hl, fun i hiN => ?_⟩
  have hpl := perm_length h
  have := scatter_getElem?_perm perm xs init (perm_nodup h)
    (fun p hp => by rw [hi]; exact perm_lt h p hp) i (by rw [hpl]; exact hiN)
    (by rw [hx]; exact hiN)
  rw [List.getElem?_eq_some_iff] at this
  obtain ⟨_, h2⟩ := this
  exact h2

/-- `getD` form of the same -/
theorem scatter_getD {perm : List Nat} {xs init : List α} {N : Nat}
    (h : perm.Perm (List.range N)) (hx : xs.length = N) (hi : init.length = N) (d : α) (dn : Nat)
    (i : Nat) (hiN : i < N) :
    (scatter perm xs init).getD (perm.getD i dn) d = xs.getD i d := by
  have hpl := perm_length h
  have := scatter_getElem?_perm perm xs init (perm_nodup h)
    (fun p hp => by rw [hi]; exact perm_lt h p hp) i (by rw [hpl]; exact hiN)
    (by rw [hx]; exact hiN)
  have hpi : perm.getD i dn = perm[i]'(by rw [hpl]; exact hiN) := by
    rw [List.getD_eq_getElem?_getD, List.getElem?_eq_getElem (by rw [hpl]; exact hiN)]; rfl
  rw [hpi, List.getD_eq_getElem?_getD, this, List.getD_eq_getElem?_getD,
    List.getElem?_eq_getElem (by rw [hx]; exact hiN)]

/-- gathering the scattered list along `perm` gives `xs` back -/
theorem map_getD_scatter {perm : List Nat} {xs init : List α} {N : Nat}
    (h : perm.Perm (List.range N)) (hx : xs.length = N) (hi : init.length = N) (d : α) :
    perm.map (fun p => (scatter perm xs init).getD p d) = xs := by
  have hpl := perm_length h
  apply List.ext_getElem
  · rw [List.length_map, hpl, hx]
  · intro i h1 h2
    have hiN : i < N := by rw [← hx]; exact h2
    rw [List.getElem_map]
    have := scatter_getD h hx hi d 0 i hiN
    rw [List.getD_eq_getElem?_getD (l := perm), List.getElem?_eq_getElem (by rw [hpl]; exact hiN),
      Option.getD_some] at this
    rw [this, List.getD_eq_getElem?_getD, List.getElem?_eq_getElem h2]; rfl

/-- the scattered list is a permutation of `xs` (whatever `init` held) -/
theorem scatter_perm {perm : List Nat} {xs init : List α} {N : Nat}
    (h : perm.Perm (List.range N)) (hx : xs.length = N) (hi : init.length = N) :
    (scatter perm xs init).Perm xs := by
  cases xs with
  | nil =>
    have hl : (scatter perm [] init).length = 0 := by rw [scatter_length, hi, ← hx]; rfl
    rw [List.length_eq_zero_iff.1 hl]
  | cons d t =>
    have hl : (scatter perm (d :: t) init).length = N := by rw [scatter_length, hi]
    have h1 := perm_map_getD_perm (l := scatter perm (d :: t) init) (perm := perm) d (by rw [hl]; exact h)
    rw [map_getD_scatter h hx hi d] at h1
    exact h1.symm

/-- `Σ_j f j out[j] = Σ_i f perm[i] xs[i]` for `out = scatter perm xs init` -/
theorem sum_scatter_reindex {M : Type*} [AddCommMonoid M] {perm : List Nat} {xs init : List α}
    {N : Nat} (h : perm.Perm (List.range N)) (hx : xs.length = N) (hi : init.length = N)
    (f : Nat → α → M) (d : α) :
    ((List.range N).map (fun j => f j ((scatter perm xs init).getD j d))).sum
      = ((List.range N).map (fun i => f (perm.getD i 0) (xs.getD i d))).sum := by
  rw [← sum_range_perm_reindex h (fun j => f j ((scatter perm xs init).getD j d)) 0]
  congr 1
  apply List.map_congr_left
  intro i hi'
  rw [scatter_getD h hx hi d 0 i (List.mem_range.1 hi')]

end ShufflePerm
end Strand
