import StrandModel.Lemmas.Codec
import StrandModel.Model.Zkp
import StrandModel.Model.NatBackend
/-
Lawful codecs, continued: the number codecs of the `Nat` back-end (both byte flavours) and the
wire types `Ciphertext`, `PublicKey`, `PrivateKey`, `Schnorr`, `ChaumPedersen` over ANY back-end
whose element and exponent codecs are lawful.  Core Lean only.
-/
namespace Strand

/-! ### `natOfBytes` / `natToBytes` -/

theorem natOfBytes_natToBytes (fl : Flavour) (n : Nat) : natOfBytes fl (natToBytes fl n) = n := by
  cases fl
  · exact natOfLE_natToLE n
  · exact natOfBE_natToBE n

theorem natOfBytes_lt (fl : Flavour) (bs : Bytes) : natOfBytes fl bs < 256 ^ bs.length := by
  cases fl
  · exact natOfLE_lt bs
  · exact natOfBE_lt bs

theorem natOfBytes_nil (fl : Flavour) : natOfBytes fl [] = 0 := by
  cases fl <;> rfl

/-- a number below `256^k` occupies at most `k` bytes (`k = 0` excluded: bigint writes `0` as `[0]`) -/
theorem natToBytes_length_le (fl : Flavour) (n k : Nat) (hk : 0 < k) (h : n < 256 ^ k) :
    (natToBytes fl n).length ≤ k := by
  cases fl
  · simp only [natToBytes, natToLE]
    split
    · simp only [List.length_cons, List.length_nil]; omega
    · exact natToLEDigits_length_le k n h
  · simp only [natToBytes, natToBE, List.length_reverse]
    exact natToLEDigits_length_le k n h

/-- re-encoding a decoded number never needs `2^32` bytes or more -/
theorem natToBytes_natOfBytes_length_lt (fl : Flavour) (bs : Bytes) (h : bs.length < 2 ^ 32) :
    (natToBytes fl (natOfBytes fl bs)).length < 2 ^ 32 := by
  cases bs with
  | nil =>
    rw [natOfBytes_nil]
    have := natToBytes_length_le fl 0 1 (by omega) (by omega)
    omega
  | cons b bs =>
    have := natToBytes_length_le fl _ (b :: bs).length (by simp) (natOfBytes_lt fl (b :: bs))
    omega

/-! ### elements and exponents -/

theorem elementFromNat_eq {P : Params} {a e : Nat} (h : Nat'.elementFromNat P a = some e) :
    e = a := by
  unfold Nat'.elementFromNat at h
  split at h
  · cases h
  · split at h
    · cases h
    · exact (Option.some.inj h).symm

theorem expFromNat_eq_some_iff_cw {P : Params} {x e : Nat} :
    Nat'.expFromNat P x = some e ↔ e = x ∧ x < P.q := by
  unfold Nat'.expFromNat
  split
  · next h => simp only [reduceCtorEq, false_iff]; omega
  · next h => simp only [Option.some.injEq]; omega

theorem natCodecE_eq_refine (P : Params) (fl : Flavour) :
    natCodecE P fl = Codec.refine bytesVec (natToBytes fl) (elementFromBytes P fl) := by
  unfold natCodecE Codec.refine
  congr 1
  funext bs
  simp only [bytesVec]
  cases decBytesVec bs with
  | none => rfl
  | some p =>
    obtain ⟨b, rest⟩ := p
    dsimp only
    cases elementFromBytes P fl b <;> rfl

theorem natCodecX_eq_refine (P : Params) (fl : Flavour) :
    natCodecX P fl = Codec.refine bytesVec (natToBytes fl) (expFromBytes P fl) := by
  unfold natCodecX Codec.refine
  congr 1
  funext bs
  simp only [bytesVec]
  cases decBytesVec bs with
  | none => rfl
  | some p =>
    obtain ⟨b, rest⟩ := p
    dsimp only
    cases expFromBytes P fl b <;> rfl

theorem natCodecE_lawful (P : Params) (fl : Flavour) :
    LawfulCodec (natCodecE P fl)
      (fun a => (∃ e, Nat'.elementFromNat P a = some e) ∧ (natToBytes fl a).length < 2 ^ 32) := by
  rw [natCodecE_eq_refine]
  refine Codec.refine_lawful bytesVec_lawful ?_ ?_
  · rintro a ⟨⟨e, he⟩, hl⟩
    refine ⟨hl, ?_⟩
    rw [elementFromBytes, natOfBytes_natToBytes, he, elementFromNat_eq he]
  · intro b a hb hf
    rw [elementFromBytes] at hf
    have := elementFromNat_eq hf
    subst this
    exact ⟨⟨_, hf⟩, natToBytes_natOfBytes_length_lt fl b hb⟩

theorem natCodecX_lawful (P : Params) (fl : Flavour) :
    LawfulCodec (natCodecX P fl) (fun x => x < P.q ∧ (natToBytes fl x).length < 2 ^ 32) := by
  rw [natCodecX_eq_refine]
  refine Codec.refine_lawful bytesVec_lawful ?_ ?_
  · rintro x ⟨hx, hl⟩
    refine ⟨hl, ?_⟩
    rw [expFromBytes, natOfBytes_natToBytes, expFromNat_eq_some_iff_cw]
    exact ⟨rfl, hx⟩
  · intro b x hb hf
    rw [expFromBytes, expFromNat_eq_some_iff_cw] at hf
    obtain ⟨rfl, hq⟩ := hf
    exact ⟨hq, natToBytes_natOfBytes_length_lt fl b hb⟩

/-! ### plaintexts -/

theorem natCodecP_bigint_eq_refine :
    natCodecP .bigint = Codec.refine bytesVec natToLE (fun b => some (natOfLE b)) := by
  simp only [natCodecP, Codec.refine]
  congr 1
  funext bs
  simp only [bytesVec]
  cases decBytesVec bs with
  | none => rfl
  | some p => rfl

theorem natCodecP_bigint_lawful :
    LawfulCodec (natCodecP .bigint) (fun m => (natToBytes .bigint m).length < 2 ^ 32) := by
  rw [natCodecP_bigint_eq_refine]
  refine Codec.refine_lawful bytesVec_lawful ?_ ?_
  · intro m hl
    exact ⟨hl, by rw [natOfLE_natToLE]⟩
  · intro b m hb hf
    simp only [Option.some.injEq] at hf
    subst hf
    exact natToBytes_natOfBytes_length_lt .bigint b hb

theorem decU16s_succ_eq_some_iff {n : Nat} {bs : Bytes} {ds : List Nat} {r : Bytes} :
    decU16s (n + 1) bs = some (ds, r) ↔
      ∃ a b rest ds', bs = a :: b :: rest ∧ decU16s n rest = some (ds', r) ∧
        ds = (a.toNat + 256 * b.toNat) :: ds' := by
  constructor
  · intro h
    match bs, h with
    | a :: b :: rest, h =>
      rw [decU16s] at h
      split at h
      · cases h
      · next ds' r' h2 =>
        simp only [Option.some.injEq, Prod.mk.injEq] at h
        obtain ⟨rfl, rfl⟩ := h
        exact ⟨a, b, rest, ds', rfl, h2, rfl⟩
    | [], h => simp [decU16s] at h
    | [a], h => simp [decU16s] at h
  · rintro ⟨a, b, rest, ds', rfl, h2, rfl⟩
    rw [decU16s, h2]

theorem decU16s_enc : ∀ (ds rest : Bytes),
    decU16s ds.length (ds.flatMap (fun d => u16le d.toNat) ++ rest)
      = some (ds.map UInt8.toNat, rest) := by
  intro ds
  induction ds with
  | nil => intro rest; rfl
  | cons d ds ih =>
    intro rest
    rw [List.length_cons, decU16s_succ_eq_some_iff]
    refine ⟨d, 0, ds.flatMap (fun d => u16le d.toNat) ++ rest, ds.map UInt8.toNat, ?_, ih rest, ?_⟩
    · have hd := u8_toNat_lt d
      have h1 : d.toNat % 256 = d.toNat := Nat.mod_eq_of_lt hd
      have h2 : d.toNat / 256 % 256 = 0 := by omega
      simp only [List.flatMap_cons, u16le, leFixed, List.cons_append, List.nil_append, h1, h2,
        ofNat_toNat_u8]
      rfl
    · simp

theorem decU16s_append (t : Bytes) : ∀ (n : Nat) (bs : Bytes) (ds : List Nat) (r : Bytes),
    decU16s n bs = some (ds, r) → decU16s n (bs ++ t) = some (ds, r ++ t) := by
  intro n
  induction n with
  | zero =>
    intro bs ds r h
    simp only [decU16s, Option.some.injEq, Prod.mk.injEq] at h ⊢
    exact ⟨h.1, by rw [h.2]⟩
  | succ n ih =>
    intro bs ds r h
    obtain ⟨a, b, rest, ds', rfl, h2, rfl⟩ := decU16s_succ_eq_some_iff.1 h
    exact decU16s_succ_eq_some_iff.2 ⟨a, b, rest ++ t, ds', rfl, ih _ _ _ h2, rfl⟩

theorem decU16s_length : ∀ (n : Nat) (bs : Bytes) (ds : List Nat) (r : Bytes),
    decU16s n bs = some (ds, r) → ds.length = n := by
  intro n
  induction n with
  | zero =>
    intro bs ds r h
    simp only [decU16s, Option.some.injEq, Prod.mk.injEq] at h
    rw [← h.1]; rfl
  | succ n ih =>
    intro bs ds r h
    obtain ⟨a, b, rest, ds', rfl, h2, rfl⟩ := decU16s_succ_eq_some_iff.1 h
    simp [ih _ _ _ h2]

/-- base-256 digits fold to a number below `256 ^ (number of digits)` -/
theorem foldl_digits_lt : ∀ (ds : List Nat) (acc : Nat), (∀ d ∈ ds, d < 256) →
    ds.foldl (fun acc d => acc * 256 + d) acc < (acc + 1) * 256 ^ ds.length := by
  intro ds
  induction ds with
  | nil => intro acc _; simp
  | cons d ds ih =>
    intro acc hd
    have h1 := ih (acc * 256 + d) (fun x hx => hd x (List.mem_cons_of_mem _ hx))
    have h2 : d < 256 := hd d (List.mem_cons_self ..)
    have h3 : (acc * 256 + d + 1) * 256 ^ ds.length ≤ ((acc + 1) * 256) * 256 ^ ds.length :=
      Nat.mul_le_mul_right _ (by omega)
    rw [List.foldl_cons, List.length_cons, Nat.pow_succ, Nat.mul_comm (256 ^ ds.length) 256,
      ← Nat.mul_assoc]
    omega

theorem natCodecP_malachite_dec_eq_some_iff {bs : Bytes} {m : Nat} {r : Bytes} :
    (natCodecP .malachite).dec bs = some (m, r) ↔
      ∃ n rest ds, decU32 bs = some (n, rest) ∧ decU16s n rest = some (ds, r) ∧
        (∀ d ∈ ds, d < 256) ∧ m = ds.foldl (fun acc d => acc * 256 + d) 0 := by
  simp only [natCodecP]
  cases h1 : decU32 bs with
  | none => simp
  | some p =>
    obtain ⟨n, rest⟩ := p
    dsimp only
    cases h2 : decU16s n rest with
    | none => simp [h2]
    | some q =>
      obtain ⟨ds, r'⟩ := q
      dsimp only
      by_cases hall : ds.all (· < 256) = true
      · rw [if_pos hall]
        have hall' : ∀ d ∈ ds, d < 256 := by simpa using hall
        constructor
        · intro h
          simp only [Option.some.injEq, Prod.mk.injEq] at h
          exact ⟨n, rest, ds, rfl, by rw [h2, h.2], hall', h.1.symm⟩
        · rintro ⟨n', rest', ds', h3, h4, _, h6⟩
          simp only [Option.some.injEq, Prod.mk.injEq] at h3
          obtain ⟨rfl, rfl⟩ := h3
          rw [h2] at h4
          simp only [Option.some.injEq, Prod.mk.injEq] at h4
          obtain ⟨rfl, rfl⟩ := h4
          rw [h6]
      · rw [if_neg hall]
        constructor
        · intro h; cases h
        · rintro ⟨n', rest', ds', h3, h4, h5, _⟩
          simp only [Option.some.injEq, Prod.mk.injEq] at h3
          obtain ⟨rfl, rfl⟩ := h3
          rw [h2] at h4
          simp only [Option.some.injEq, Prod.mk.injEq] at h4
          obtain ⟨rfl, rfl⟩ := h4
          exact absurd (by simpa using h5) hall

theorem natCodecP_malachite_lawful :
    LawfulCodec (natCodecP .malachite) (fun m => (natToBytes .malachite m).length < 2 ^ 32) where
  dec_enc := by
    intro m rest hl
    rw [natCodecP_malachite_dec_eq_some_iff]
    refine ⟨(natToBE m).length, (natToBE m).flatMap (fun d => u16le d.toNat) ++ rest,
      (natToBE m).map UInt8.toNat, ?_, decU16s_enc _ rest, ?_, ?_⟩
    · show decU32 ((u32le (natToBE m).length ++ _) ++ rest) = _
      rw [List.append_assoc]
      exact decU32_u32le _ _ hl
    · intro d hd
      obtain ⟨b, _, rfl⟩ := List.mem_map.1 hd
      exact u8_toNat_lt b
    · rw [List.foldl_map]
      exact (natOfBE_natToBE m).symm
  dec_append := by
    intro bs m r t h
    obtain ⟨n, rest, ds, h1, h2, h3, h4⟩ := natCodecP_malachite_dec_eq_some_iff.1 h
    exact natCodecP_malachite_dec_eq_some_iff.2
      ⟨n, rest ++ t, ds, decU32_append t h1, decU16s_append t _ _ _ _ h2, h3, h4⟩
  dec_valid := by
    intro bs m r h
    obtain ⟨n, rest, ds, h1, h2, h3, rfl⟩ := natCodecP_malachite_dec_eq_some_iff.1 h
    have hn := decU32_lt h1
    have hlen := decU16s_length _ _ _ _ h2
    have hlt := foldl_digits_lt ds 0 h3
    rw [Nat.zero_add, Nat.one_mul, hlen] at hlt
    have := natToLEDigits_length_le n _ hlt
    show (natToBE _).length < 2 ^ 32
    rw [natToBE, List.length_reverse]
    omega

theorem natCodecP_lawful (fl : Flavour) :
    LawfulCodec (natCodecP fl) (fun m => (natToBytes fl m).length < 2 ^ 32) := by
  cases fl
  · exact natCodecP_bigint_lawful
  · exact natCodecP_malachite_lawful

/-! ### wire types over an arbitrary back-end -/

section Wire
variable {E X : Type} {o : Ops E X} {VE : E → Prop} {VX : X → Prop}

theorem codecCt_dec_eq_some_iff {bs : Bytes} {ct : Ciphertext E} {r : Bytes} :
    (codecCt o).dec bs = some (ct, r) ↔
      ∃ r1, o.codecE.dec bs = some (ct.mhr, r1) ∧ o.codecE.dec r1 = some (ct.gr, r) := by
  obtain ⟨m, g⟩ := ct
  simp only [codecCt]
  cases h1 : o.codecE.dec bs with
  | none => simp
  | some p =>
    obtain ⟨a, r1⟩ := p
    dsimp only
    cases h2 : o.codecE.dec r1 with
    | none =>
      simp only [reduceCtorEq, Option.some.injEq, Prod.mk.injEq, false_iff, not_exists, not_and]
      rintro r1' ⟨-, rfl⟩
      simp [h2]
    | some q =>
      obtain ⟨b, r2⟩ := q
      simp only [Option.some.injEq, Prod.mk.injEq, Ciphertext.mk.injEq]
      constructor
      · rintro ⟨⟨rfl, rfl⟩, rfl⟩
        exact ⟨r1, ⟨rfl, rfl⟩, by simp [h2]⟩
      · rintro ⟨r1', ⟨rfl, rfl⟩, h3⟩
        rw [h2] at h3
        simp only [Option.some.injEq, Prod.mk.injEq] at h3
        exact ⟨⟨rfl, h3.1⟩, h3.2⟩

/-- `Ciphertext` -/
theorem codecCt_lawful (hE : LawfulCodec o.codecE VE) :
    LawfulCodec (codecCt o) (fun c => VE c.mhr ∧ VE c.gr) where
  dec_enc := by
    rintro ct rest ⟨h1, h2⟩
    rw [codecCt_dec_eq_some_iff]
    refine ⟨o.serE ct.gr ++ rest, ?_, hE.dec_enc _ rest h2⟩
    show o.codecE.dec ((o.codecE.enc ct.mhr ++ o.codecE.enc ct.gr) ++ rest) = _
    rw [List.append_assoc]
    exact hE.dec_enc _ _ h1
  dec_append := by
    intro bs ct r t h
    obtain ⟨r1, h1, h2⟩ := codecCt_dec_eq_some_iff.1 h
    exact codecCt_dec_eq_some_iff.2 ⟨r1 ++ t, hE.dec_append _ _ _ t h1, hE.dec_append _ _ _ t h2⟩
  dec_valid := by
    intro bs ct r h
    obtain ⟨r1, h1, h2⟩ := codecCt_dec_eq_some_iff.1 h
    exact ⟨hE.dec_valid _ _ _ h1, hE.dec_valid _ _ _ h2⟩

/-- `PublicKey` -/
theorem codecPk_lawful (hE : LawfulCodec o.codecE VE) : LawfulCodec (codecPk o) VE := hE

/-- `PrivateKey` -/
theorem codecSk_lawful (hE : LawfulCodec o.codecE VE) (hX : LawfulCodec o.codecX VX) :
    LawfulCodec (codecSk o) (fun p => VX p.1 ∧ VE p.2) :=
  pair_lawful hX hE

theorem codecSchnorr_dec_eq_some_iff {bs : Bytes} {pf : Schnorr E X} {r : Bytes} :
    (codecSchnorr o).dec bs = some (pf, r) ↔
      ∃ r1 r2, o.codecE.dec bs = some (pf.commitment, r1) ∧
        o.codecX.dec r1 = some (pf.challenge, r2) ∧ o.codecX.dec r2 = some (pf.response, r) := by
  obtain ⟨t, c, s⟩ := pf
  simp only [codecSchnorr]
  cases h1 : o.codecE.dec bs with
  | none => simp
  | some p1 =>
    obtain ⟨t', r1⟩ := p1
    dsimp only
    cases h2 : o.codecX.dec r1 with
    | none =>
      simp only [reduceCtorEq, Option.some.injEq, Prod.mk.injEq, false_iff, not_exists, not_and]
      rintro r1' r2' ⟨-, rfl⟩
      simp [h2]
    | some p2 =>
      obtain ⟨c', r2⟩ := p2
      dsimp only
      cases h3 : o.codecX.dec r2 with
      | none =>
        simp only [reduceCtorEq, Option.some.injEq, Prod.mk.injEq, false_iff, not_exists, not_and]
        rintro r1' r2' ⟨-, rfl⟩ h2'
        rw [h2] at h2'
        simp only [Option.some.injEq, Prod.mk.injEq] at h2'
        obtain ⟨-, rfl⟩ := h2'
        simp [h3]
      | some p3 =>
        obtain ⟨s', r3⟩ := p3
        simp only [Option.some.injEq, Prod.mk.injEq, Schnorr.mk.injEq]
        constructor
        · rintro ⟨⟨rfl, rfl, rfl⟩, rfl⟩
          exact ⟨r1, r2, ⟨rfl, rfl⟩, h2, by simp [h3]⟩
        · rintro ⟨r1', r2', ⟨rfl, rfl⟩, h2', h3'⟩
          rw [h2] at h2'
          simp only [Option.some.injEq, Prod.mk.injEq] at h2'
          obtain ⟨rfl, rfl⟩ := h2'
          rw [h3] at h3'
          simp only [Option.some.injEq, Prod.mk.injEq] at h3'
          exact ⟨⟨rfl, rfl, h3'.1⟩, h3'.2⟩

/-- `Schnorr` -/
theorem codecSchnorr_lawful (hE : LawfulCodec o.codecE VE) (hX : LawfulCodec o.codecX VX) :
    LawfulCodec (codecSchnorr o)
      (fun p => VE p.commitment ∧ VX p.challenge ∧ VX p.response) where
  dec_enc := by
    rintro pf rest ⟨h1, h2, h3⟩
    rw [codecSchnorr_dec_eq_some_iff]
    refine ⟨o.serX pf.challenge ++ (o.serX pf.response ++ rest), o.serX pf.response ++ rest,
      ?_, hX.dec_enc _ _ h2, hX.dec_enc _ _ h3⟩
    show o.codecE.dec ((o.codecE.enc pf.commitment ++ o.serX pf.challenge ++ o.serX pf.response)
      ++ rest) = _
    rw [List.append_assoc, List.append_assoc]
    exact hE.dec_enc _ _ h1
  dec_append := by
    intro bs pf r t h
    obtain ⟨r1, r2, h1, h2, h3⟩ := codecSchnorr_dec_eq_some_iff.1 h
    exact codecSchnorr_dec_eq_some_iff.2 ⟨r1 ++ t, r2 ++ t, hE.dec_append _ _ _ t h1,
      hX.dec_append _ _ _ t h2, hX.dec_append _ _ _ t h3⟩
  dec_valid := by
    intro bs pf r h
    obtain ⟨r1, r2, h1, h2, h3⟩ := codecSchnorr_dec_eq_some_iff.1 h
    exact ⟨hE.dec_valid _ _ _ h1, hX.dec_valid _ _ _ h2, hX.dec_valid _ _ _ h3⟩

theorem codecCP_dec_eq_some_iff {bs : Bytes} {pf : ChaumPedersen E X} {r : Bytes} :
    (codecCP o).dec bs = some (pf, r) ↔
      ∃ r1 r2 r3, o.codecE.dec bs = some (pf.commitment1, r1) ∧
        o.codecE.dec r1 = some (pf.commitment2, r2) ∧
        o.codecX.dec r2 = some (pf.challenge, r3) ∧ o.codecX.dec r3 = some (pf.response, r) := by
  obtain ⟨t1, t2, c, s⟩ := pf
  simp only [codecCP]
  cases h1 : o.codecE.dec bs with
  | none => simp
  | some p1 =>
    obtain ⟨t1', r1⟩ := p1
    dsimp only
    cases h2 : o.codecE.dec r1 with
    | none =>
      simp only [reduceCtorEq, Option.some.injEq, Prod.mk.injEq, false_iff, not_exists, not_and]
      rintro r1' r2' r3' ⟨-, rfl⟩
      simp [h2]
    | some p2 =>
      obtain ⟨t2', r2⟩ := p2
      dsimp only
      cases h3 : o.codecX.dec r2 with
      | none =>
        simp only [reduceCtorEq, Option.some.injEq, Prod.mk.injEq, false_iff, not_exists, not_and]
        rintro r1' r2' r3' ⟨-, rfl⟩ h2'
        rw [h2] at h2'
        simp only [Option.some.injEq, Prod.mk.injEq] at h2'
        obtain ⟨-, rfl⟩ := h2'
        simp [h3]
      | some p3 =>
        obtain ⟨c', r3⟩ := p3
        dsimp only
        cases h4 : o.codecX.dec r3 with
        | none =>
          simp only [reduceCtorEq, Option.some.injEq, Prod.mk.injEq, false_iff, not_exists,
            not_and]
          rintro r1' r2' r3' ⟨-, rfl⟩ h2' h3'
          rw [h2] at h2'
          simp only [Option.some.injEq, Prod.mk.injEq] at h2'
          obtain ⟨-, rfl⟩ := h2'
          rw [h3] at h3'
          simp only [Option.some.injEq, Prod.mk.injEq] at h3'
          obtain ⟨-, rfl⟩ := h3'
          simp [h4]
        | some p4 =>
          obtain ⟨s', r4⟩ := p4
          simp only [Option.some.injEq, Prod.mk.injEq, ChaumPedersen.mk.injEq]
          constructor
          · rintro ⟨⟨rfl, rfl, rfl, rfl⟩, rfl⟩
            exact ⟨r1, r2, r3, ⟨rfl, rfl⟩, h2, h3, by simp [h4]⟩
          · rintro ⟨r1', r2', r3', ⟨rfl, rfl⟩, h2', h3', h4'⟩
            rw [h2] at h2'
            simp only [Option.some.injEq, Prod.mk.injEq] at h2'
            obtain ⟨rfl, rfl⟩ := h2'
            rw [h3] at h3'
            simp only [Option.some.injEq, Prod.mk.injEq] at h3'
            obtain ⟨rfl, rfl⟩ := h3'
            rw [h4] at h4'
            simp only [Option.some.injEq, Prod.mk.injEq] at h4'
            exact ⟨⟨rfl, rfl, rfl, h4'.1⟩, h4'.2⟩

/-- `ChaumPedersen` -/
theorem codecCP_lawful (hE : LawfulCodec o.codecE VE) (hX : LawfulCodec o.codecX VX) :
    LawfulCodec (codecCP o)
      (fun p => VE p.commitment1 ∧ VE p.commitment2 ∧ VX p.challenge ∧ VX p.response) where
  dec_enc := by
    rintro pf rest ⟨h1, h2, h3, h4⟩
    rw [codecCP_dec_eq_some_iff]
    refine ⟨o.serE pf.commitment2 ++ (o.serX pf.challenge ++ (o.serX pf.response ++ rest)),
      o.serX pf.challenge ++ (o.serX pf.response ++ rest), o.serX pf.response ++ rest,
      ?_, hE.dec_enc _ _ h2, hX.dec_enc _ _ h3, hX.dec_enc _ _ h4⟩
    show o.codecE.dec ((o.codecE.enc pf.commitment1 ++ o.serE pf.commitment2 ++
      o.serX pf.challenge ++ o.serX pf.response) ++ rest) = _
    rw [List.append_assoc, List.append_assoc, List.append_assoc]
    exact hE.dec_enc _ _ h1
  dec_append := by
    intro bs pf r t h
    obtain ⟨r1, r2, r3, h1, h2, h3, h4⟩ := codecCP_dec_eq_some_iff.1 h
    exact codecCP_dec_eq_some_iff.2 ⟨r1 ++ t, r2 ++ t, r3 ++ t, hE.dec_append _ _ _ t h1,
      hE.dec_append _ _ _ t h2, hX.dec_append _ _ _ t h3, hX.dec_append _ _ _ t h4⟩
  dec_valid := by
    intro bs pf r h
    obtain ⟨r1, r2, r3, h1, h2, h3, h4⟩ := codecCP_dec_eq_some_iff.1 h
    exact ⟨hE.dec_valid _ _ _ h1, hE.dec_valid _ _ _ h2, hX.dec_valid _ _ _ h3,
      hX.dec_valid _ _ _ h4⟩

end Wire

/-! ### the `Nat` back-end, assembled

With a size bound on the group (`P.p ≤ 256 ^ k`, `P.q ≤ 256 ^ k`) the length side conditions
disappear from `Valid`, and the side condition of `nested` is discharged by
`natToBytes_length_le`. -/

theorem elementFromNat_lt {P : Params} {a e : Nat} (h : Nat'.elementFromNat P a = some e) :
    1 ≤ a ∧ a < P.p := by
  unfold Nat'.elementFromNat at h
  split at h
  · cases h
  · omega

theorem natCodecE_enc_length_le (P : Params) (fl : Flavour) {a k : Nat} (hk : 0 < k)
    (hp : P.p ≤ 256 ^ k) (ha : ∃ e, Nat'.elementFromNat P a = some e) :
    ((natCodecE P fl).enc a).length ≤ 4 + k := by
  obtain ⟨e, he⟩ := ha
  have h1 := natToBytes_length_le fl a k hk (Nat.lt_of_lt_of_le (elementFromNat_lt he).2 hp)
  show (encBytesVec (natToBytes fl a)).length ≤ 4 + k
  rw [encBytesVec_length]
  omega

theorem natCodecX_enc_length_le (P : Params) (fl : Flavour) {x k : Nat} (hk : 0 < k)
    (hq : P.q ≤ 256 ^ k) (hx : x < P.q) : ((natCodecX P fl).enc x).length ≤ 4 + k := by
  have h1 := natToBytes_length_le fl x k hk (Nat.lt_of_lt_of_le hx hq)
  show (encBytesVec (natToBytes fl x)).length ≤ 4 + k
  rw [encBytesVec_length]
  omega

theorem natCodecE_lawful_of_bound (P : Params) (fl : Flavour) {k : Nat} (hk : 0 < k)
    (hk32 : k < 2 ^ 32) (hp : P.p ≤ 256 ^ k) :
    LawfulCodec (natCodecE P fl) (fun a => ∃ e, Nat'.elementFromNat P a = some e) :=
  (natCodecE_lawful P fl).congr fun a => ⟨fun h => h.1, fun h => ⟨h, by
    obtain ⟨e, he⟩ := h
    have := natToBytes_length_le fl a k hk (Nat.lt_of_lt_of_le (elementFromNat_lt he).2 hp)
    omega⟩⟩

theorem natCodecX_lawful_of_bound (P : Params) (fl : Flavour) {k : Nat} (hk : 0 < k)
    (hk32 : k < 2 ^ 32) (hq : P.q ≤ 256 ^ k) :
    LawfulCodec (natCodecX P fl) (fun x => x < P.q) :=
  (natCodecX_lawful P fl).congr fun x => ⟨fun h => h.1, fun h => ⟨h, by
    have := natToBytes_length_le fl x k hk (Nat.lt_of_lt_of_le h hq)
    omega⟩⟩

/-- composition check: `Ciphertext` over the `Nat` back-end -/
theorem natCt_lawful (P : Params) (fl : Flavour) :
    LawfulCodec (codecCt (natOps P fl)) (fun c =>
      ((∃ e, Nat'.elementFromNat P c.mhr = some e) ∧ (natToBytes fl c.mhr).length < 2 ^ 32) ∧
      ((∃ e, Nat'.elementFromNat P c.gr = some e) ∧ (natToBytes fl c.gr).length < 2 ^ 32)) :=
  codecCt_lawful (o := natOps P fl) (natCodecE_lawful P fl)

/-- composition check: `StrandVector<Ciphertext>` over the `Nat` back-end with a group of at
    most `k` bytes -/
theorem natCtVec_lawful (P : Params) (fl : Flavour) {k : Nat} (hk : 0 < k)
    (hk32 : 2 * (4 + k) < 2 ^ 32) (hp : P.p ≤ 256 ^ k) :
    LawfulCodec (nested (codecCt (natOps P fl))) (fun cs =>
      (∀ c ∈ cs, (∃ e, Nat'.elementFromNat P c.mhr = some e) ∧
        (∃ e, Nat'.elementFromNat P c.gr = some e)) ∧ cs.length < 2 ^ 32) := by
  refine nested_lawful_of_enc_bound
    (codecCt_lawful (o := natOps P fl) (natCodecE_lawful_of_bound P fl hk (by omega) hp)) ?_
  rintro c ⟨h1, h2⟩
  have l1 := natCodecE_enc_length_le P fl hk hp h1
  have l2 := natCodecE_enc_length_le P fl hk hp h2
  show ((natCodecE P fl).enc c.mhr ++ (natCodecE P fl).enc c.gr).length < 2 ^ 32
  rw [List.length_append]
  omega

end Strand
