import Mathlib.Algebra.Module.ZMod
import Mathlib.Tactic.Module
import Mathlib.Tactic.Ring
import StrandModel.Model.Zkp
/-
The abstract specification of a back-end: its elements denote into an additive commutative
group `A` that is a module over `ZMod q` (every element is killed by `q`), its exponents
denote into `ZMod q`, and every operation of `Ops` is the corresponding group / ring
operation up to the stated reductions.  `mul` yields a valid but NOT necessarily canonical
value; `modp`, `emodPow`, `invp` yield canonical values; canonical valid values are equal
iff their denotations are.

The protocol theorems are proved once against this record; `natLawful`
(`Lemmas/NatLawful.lean`) proves it for the multiplicative back-ends from arithmetic
hypotheses.  For Ristretto it is a hypothesis.
-/
namespace Strand

structure Lawful {E X : Type} (o : Ops E X) (q : ℕ) (A : Type) [AddCommGroup A]
    [Module (ZMod q) A] where
  den : E → A
  dx : X → ZMod q
  valid : E → Prop
  canon : E → Prop
  xcanon : X → Prop
  gen_valid : valid o.generator
  gen_canon : canon o.generator
  ident_valid : valid o.identE
  ident_canon : canon o.identE
  ident_den : den o.identE = 0
  gmodPow_eq : ∀ x, o.gmodPow x = o.emodPow o.generator x
  emodPow_valid : ∀ {a} x, valid a → valid (o.emodPow a x)
  emodPow_canon : ∀ {a} x, valid a → canon (o.emodPow a x)
  emodPow_den : ∀ {a} x, valid a → den (o.emodPow a x) = dx x • den a
  mul_valid : ∀ {a b}, valid a → valid b → valid (o.mul a b)
  mul_den : ∀ {a b}, valid a → valid b → den (o.mul a b) = den a + den b
  modp_valid : ∀ {a}, valid a → valid (o.modp a)
  modp_canon : ∀ {a}, valid a → canon (o.modp a)
  modp_den : ∀ {a}, valid a → den (o.modp a) = den a
  invp_valid : ∀ {a}, valid a → valid (o.invp a)
  invp_canon : ∀ {a}, valid a → canon (o.invp a)
  invp_den : ∀ {a}, valid a → den (o.invp a) = - den a
  den_inj : ∀ {a b}, valid a → valid b → canon a → canon b → den a = den b → a = b
  zeroX_dx : dx o.zeroX = 0
  oneX_dx : dx o.oneX = 1
  xadd_dx : ∀ x y, dx (o.xadd x y) = dx x + dx y
  xmul_dx : ∀ x y, dx (o.xmul x y) = dx x * dx y
  modq_dx : ∀ x, dx (o.modq x) = dx x
  modq_xcanon : ∀ x, xcanon (o.modq x)
  dx_inj : ∀ {x y}, xcanon x → xcanon y → dx x = dx y → x = y
  fromU64_dx : ∀ n : ℕ, dx (o.fromU64 n) = (n : ZMod q)
  fromU64_xcanon : ∀ n : ℕ, n < q → xcanon (o.fromU64 n)
  subMod_dx : ∀ {x y}, xcanon x → xcanon y → dx (o.subMod x y) = dx x - dx y
  invq_dx : ∀ {x}, dx x ≠ 0 → dx (o.invq x) * dx x = 1

namespace Lawful
variable {E X : Type} {o : Ops E X} {q : ℕ} {A : Type} [AddCommGroup A] [Module (ZMod q) A]
variable (L : Lawful o q A)

/-- member of the group in canonical form -/
def V (a : E) : Prop := L.valid a ∧ L.canon a

theorem gen_V : L.V o.generator := ⟨L.gen_valid, L.gen_canon⟩
theorem ident_V : L.V o.identE := ⟨L.ident_valid, L.ident_canon⟩

theorem gmodPow_valid (x : X) : L.valid (o.gmodPow x) := by
  rw [L.gmodPow_eq]; exact L.emodPow_valid x L.gen_valid
theorem gmodPow_canon (x : X) : L.canon (o.gmodPow x) := by
  rw [L.gmodPow_eq]; exact L.emodPow_canon x L.gen_valid
theorem gmodPow_V (x : X) : L.V (o.gmodPow x) := ⟨L.gmodPow_valid x, L.gmodPow_canon x⟩
theorem gmodPow_den (x : X) : L.den (o.gmodPow x) = L.dx x • L.den o.generator := by
  rw [L.gmodPow_eq]; exact L.emodPow_den x L.gen_valid
theorem emodPow_V {a : E} (x : X) (h : L.valid a) : L.V (o.emodPow a x) :=
  ⟨L.emodPow_valid x h, L.emodPow_canon x h⟩
theorem modp_V {a : E} (h : L.valid a) : L.V (o.modp a) := ⟨L.modp_valid h, L.modp_canon h⟩
theorem invp_V {a : E} (h : L.valid a) : L.V (o.invp a) := ⟨L.invp_valid h, L.invp_canon h⟩

theorem divp_valid {a b : E} (ha : L.valid a) (hb : L.valid b) : L.valid (o.divp a b) :=
  L.mul_valid ha (L.invp_valid hb)
theorem divp_den {a b : E} (ha : L.valid a) (hb : L.valid b) :
    L.den (o.divp a b) = L.den a - L.den b := by
  unfold Ops.divp
  rw [L.mul_den ha (L.invp_valid hb), L.invp_den hb, sub_eq_add_neg]

/-- two canonical members are equal iff they denote the same group element -/
theorem eq_iff {a b : E} (ha : L.V a) (hb : L.V b) : a = b ↔ L.den a = L.den b :=
  ⟨fun h => h ▸ rfl, L.den_inj ha.1 hb.1 ha.2 hb.2⟩

/-- `modp (mul a b)` : the reduced product -/
theorem modp_mul_V {a b : E} (ha : L.valid a) (hb : L.valid b) : L.V (o.modp (o.mul a b)) :=
  L.modp_V (L.mul_valid ha hb)
theorem modp_mul_den {a b : E} (ha : L.valid a) (hb : L.valid b) :
    L.den (o.modp (o.mul a b)) = L.den a + L.den b := by
  rw [L.modp_den (L.mul_valid ha hb), L.mul_den ha hb]

theorem powBase_valid (g : Option E) (hg : ∀ b, g = some b → L.valid b) (r : X) :
    L.valid (powBase o g r) := by
  cases g with
  | none => exact L.gmodPow_valid r
  | some b => exact L.emodPow_valid r (hg b rfl)
theorem powBase_canon (g : Option E) (hg : ∀ b, g = some b → L.valid b) (r : X) :
    L.canon (powBase o g r) := by
  cases g with
  | none => exact L.gmodPow_canon r
  | some b => exact L.emodPow_canon r (hg b rfl)
theorem powBase_den (g : Option E) (hg : ∀ b, g = some b → L.valid b) (r : X) :
    L.den (powBase o g r) = L.dx r • L.den (baseOr o g) := by
  cases g with
  | none => exact L.gmodPow_den r
  | some b => exact L.emodPow_den r (hg b rfl)
theorem baseOr_valid (g : Option E) (hg : ∀ b, g = some b → L.valid b) : L.valid (baseOr o g) := by
  cases g with
  | none => exact L.gen_valid
  | some b => exact hg b rfl

end Lawful
end Strand
