import Mathlib.Algebra.BigOperators.Group.List.Basic
import StrandModel.Lemmas.Lawful
import StrandModel.Model.Keymaker
/-
Helper lemmas on the accumulation loop `mulAll` (`acc = acc.mul(x).modp()`) of keymaker.rs,
on `jointDec`, and on the position-by-position loop `jointDecAt` / `jointDecMany`.
-/
namespace Strand
variable {E X : Type} {o : Ops E X} {q : ℕ} {A : Type} [AddCommGroup A] [Module (ZMod q) A]

@[simp] theorem mulAll_nil (first : E) : mulAll o first [] = first := rfl
@[simp] theorem mulAll_cons (first x : E) (rest : List E) :
    mulAll o first (x :: rest) = mulAll o (o.modp (o.mul first x)) rest := rfl

namespace Lawful
variable (L : Lawful o q A)

theorem mulAll_valid {first : E} {rest : List E} (hf : L.valid first)
    (hr : ∀ x ∈ rest, L.valid x) : L.valid (mulAll o first rest) := by
  induction rest generalizing first with
  | nil => exact hf
  | cons x rest ih =>
    rw [mulAll_cons]
    exact ih (L.modp_valid (L.mul_valid hf (hr x List.mem_cons_self)))
      (fun y hy => hr y (List.mem_cons_of_mem _ hy))

/-- the loop result is canonical as soon as its start value is -/
theorem mulAll_canon_of_canon {first : E} {rest : List E} (hf : L.valid first)
    (hc : L.canon first) (hr : ∀ x ∈ rest, L.valid x) : L.canon (mulAll o first rest) := by
  induction rest generalizing first with
  | nil => exact hc
  | cons x rest ih =>
    rw [mulAll_cons]
    have hx := hr x List.mem_cons_self
    exact ih (L.modp_valid (L.mul_valid hf hx)) (L.modp_canon (L.mul_valid hf hx))
      (fun y hy => hr y (List.mem_cons_of_mem _ hy))

/-- ... and also as soon as the loop body ran at least once -/
theorem mulAll_canon_of_ne_nil {first : E} {rest : List E} (hf : L.valid first)
    (hr : ∀ x ∈ rest, L.valid x) (hne : rest ≠ []) : L.canon (mulAll o first rest) := by
  cases rest with
  | nil => exact absurd rfl hne
  | cons x rest =>
    rw [mulAll_cons]
    have hx := hr x List.mem_cons_self
    exact L.mulAll_canon_of_canon (L.modp_valid (L.mul_valid hf hx))
      (L.modp_canon (L.mul_valid hf hx)) (fun y hy => hr y (List.mem_cons_of_mem _ hy))

theorem mulAll_V {first : E} {rest : List E} (hf : L.V first) (hr : ∀ x ∈ rest, L.valid x) :
    L.V (mulAll o first rest) :=
  ⟨L.mulAll_valid hf.1 hr, L.mulAll_canon_of_canon hf.1 hf.2 hr⟩

/-- the loop computes the group product (additively: the sum) of all its inputs -/
theorem mulAll_den {first : E} {rest : List E} (hf : L.valid first)
    (hr : ∀ x ∈ rest, L.valid x) :
    L.den (mulAll o first rest) = L.den first + (rest.map L.den).sum := by
  induction rest generalizing first with
  | nil => simp
  | cons x rest ih =>
    have hx := hr x List.mem_cons_self
    rw [mulAll_cons, ih (L.modp_valid (L.mul_valid hf hx))
      (fun y hy => hr y (List.mem_cons_of_mem _ hy)), L.modp_mul_den hf hx, List.map_cons,
      List.sum_cons, add_assoc]

theorem mulAll_den' {first : E} {rest : List E} (hf : L.valid first)
    (hr : ∀ x ∈ rest, L.valid x) :
    L.den (mulAll o first rest) = ((first :: rest).map L.den).sum := by
  rw [L.mulAll_den hf hr, List.map_cons, List.sum_cons]

/-- `Σ (xᵢ • a) = (Σ xᵢ) • a` -/
theorem sum_map_smul (xs : List X) (a : A) :
    (xs.map fun x => L.dx x • a).sum = (xs.map L.dx).sum • a := by
  induction xs with
  | nil => simp
  | cons x xs ih => simp only [List.map_cons, List.sum_cons, ih, add_smul]

/-- `joint_dec` on a non-empty list of group members: a canonical member denoting
    `c.mhr / Π factors` -/
theorem jointDec_spec {d : E} {ds : List E} {c : Ciphertext E} (hm : L.valid c.mhr)
    (hd : ∀ x ∈ d :: ds, L.valid x) :
    ∃ r, jointDec o (d :: ds) c = some r ∧ L.V r ∧
      L.den r = L.den c.mhr - ((d :: ds).map L.den).sum := by
  have h0 := hd d List.mem_cons_self
  have hr : ∀ x ∈ ds, L.valid x := fun y hy => hd y (List.mem_cons_of_mem _ hy)
  have hv := L.mulAll_valid h0 hr
  refine ⟨_, rfl, L.modp_V (L.divp_valid hm hv), ?_⟩
  rw [L.modp_den (L.divp_valid hm hv), L.divp_den hm hv, L.mulAll_den' h0 hr]

end Lawful

/-! ### the position-by-position loop -/

/-- the column `i` of a matrix given as a list of rows; `none` if some row is too short -/
def column (decs : List (List E)) (i : Nat) : Option (List E) := decs.mapM (fun d => d[i]?)

@[simp] theorem column_nil (i : Nat) : column ([] : List (List E)) i = some [] := rfl

theorem column_cons (d : List E) (ds : List (List E)) (i : Nat) :
    column (d :: ds) i = (d[i]?).bind fun x => (column ds i).bind fun xs => some (x :: xs) := by
  unfold column
  rw [List.mapM_cons]
  cases d[i]? <;> cases List.mapM (fun d => d[i]?) ds <;> rfl

/-- the inner fold of `joint_dec_many` -/
theorem jointDecAt_fold (ds : List (List E)) (i : Nat) (acc : Option E) :
    ds.foldl (fun acc d => match acc, d[i]? with
        | some a, some x => some (o.modp (o.mul a x))
        | _, _ => none) acc
      = acc.bind fun a => (column ds i).bind fun xs => some (mulAll o a xs) := by
  induction ds generalizing acc with
  | nil => cases acc <;> rfl
  | cons d ds ih =>
    rw [List.foldl_cons, ih, column_cons]
    cases acc with
    | none => rfl
    | some a =>
      cases hd : d[i]? with
      | none => rfl
      | some x =>
        cases column ds i <;> rfl

/-- `jointDecAt` restated with this file's matchers -/
theorem jointDecAt_cons (d0 : List E) (ds : List (List E)) (i : Nat) (c : Ciphertext E) :
    jointDecAt o (d0 :: ds) i c = match d0[i]? with
      | none => none
      | some first =>
        match ds.foldl (fun acc d => match acc, d[i]? with
            | some a, some x => some (o.modp (o.mul a x))
            | _, _ => none) (some first) with
        | none => none
        | some acc => some (o.modp (o.divp c.mhr acc)) := rfl

/-- the body of `joint_dec_many` at position `i` is `joint_dec` on the `i`-th column of the
    factor matrix; it panics (`none`) iff the matrix is empty or a row is shorter than `i+1` -/
theorem jointDecAt_eq (decs : List (List E)) (i : Nat) (c : Ciphertext E) :
    jointDecAt o decs i c = (column decs i).bind fun col => jointDec o col c := by
  cases decs with
  | nil => rfl
  | cons d0 ds =>
    rw [column_cons, jointDecAt_cons]
    cases h0 : d0[i]? with
    | none => rfl
    | some first =>
      simp only [jointDecAt_fold]
      cases column ds i <;> rfl

theorem jointDecManyFrom_eq_some (decs : List (List E)) (k : Nat) (cs : List (Ciphertext E))
    (out : List E) :
    jointDecManyFrom o decs k cs = some out ↔
      out.length = cs.length ∧
        ∀ i (h : i < cs.length), jointDecAt o decs (k + i) cs[i] = out[i]? := by
  induction cs generalizing k out with
  | nil =>
    simp only [jointDecManyFrom, Option.some.injEq, List.length_nil, List.length_eq_zero_iff,
      Nat.not_lt_zero, forall_false, forall_const, and_true]
    exact eq_comm
  | cons c cs ih =>
    unfold jointDecManyFrom
    constructor
    · intro h
      cases h1 : jointDecAt o decs k c with
      | none => rw [h1] at h; cases h
      | some e =>
        rw [h1] at h
        cases h2 : jointDecManyFrom o decs (k + 1) cs with
        | none => rw [h2] at h; cases h
        | some es =>
          rw [h2] at h
          cases h
          obtain ⟨hl, hi⟩ := (ih (k + 1) es).mp h2
          refine ⟨by simp [hl], ?_⟩
          intro i hi'
          cases i with
          | zero => simpa using h1
          | succ j =>
            have := hi j (by simpa using hi')
            simpa [Nat.add_assoc, Nat.add_comm 1 j] using this
    · rintro ⟨hl, hi⟩
      cases out with
      | nil => simp at hl
      | cons e es =>
        have h1 : jointDecAt o decs k c = some e := by
          have := hi 0 (by simp)
          simpa using this
        have h2 : jointDecManyFrom o decs (k + 1) cs = some es := by
          refine (ih (k + 1) es).mpr ⟨by simpa using hl, ?_⟩
          intro i hi'
          have := hi (i + 1) (by simpa using hi')
          simpa [Nat.add_assoc, Nat.add_comm 1 i] using this
        rw [h1, h2]

end Strand
