import StrandModel.Model.Borsh
/-
Lawful codecs for the model's borsh layer: the three laws, their generic consequences
(round trip, injectivity, strictness), the byte-level facts about the positional number
encodings, and one instance per combinator of `Model/Borsh.lean`.
The number codecs of the `Nat` back-end and the wire types are in `Lemmas/CodecWire.lean`.
Core Lean only.
-/

namespace Strand

/-- `Valid` = the values that are wire values of this type. -/
structure LawfulCodec {α : Type} (c : Codec α) (Valid : α → Prop) : Prop where
  /-- decoding an encoding followed by anything returns the value and exactly the rest -/
  dec_enc : ∀ a rest, Valid a → c.dec (c.enc a ++ rest) = some (a, rest)
  /-- extension stability: a decoder never looks past what it consumes -/
  dec_append : ∀ bs a r t, c.dec bs = some (a, r) → c.dec (bs ++ t) = some (a, r ++ t)
  /-- whatever decodes is a valid value -/
  dec_valid : ∀ bs a r, c.dec bs = some (a, r) → Valid a

theorem tryFromSlice_eq_some_iff {α : Type} {c : Codec α} {bs : Bytes} {a : α} :
    tryFromSlice c bs = some a ↔ c.dec bs = some (a, []) := by
  unfold tryFromSlice
  split
  · next a' h => simp [h]
  · next h =>
    constructor
    · intro h'; cases h'
    · intro h'; exact absurd h' (h a)

/-- the first two laws only; they already give round trip, injectivity and strictness -/
structure PreLawfulCodec {α : Type} (c : Codec α) (Valid : α → Prop) : Prop where
  dec_enc : ∀ a rest, Valid a → c.dec (c.enc a ++ rest) = some (a, rest)
  dec_append : ∀ bs a r t, c.dec bs = some (a, r) → c.dec (bs ++ t) = some (a, r ++ t)

namespace PreLawfulCodec
variable {α : Type} {c : Codec α} {Valid : α → Prop}

theorem dec_enc_nil (h : PreLawfulCodec c Valid) {a : α} (ha : Valid a) :
    c.dec (c.enc a) = some (a, []) := by
  have := h.dec_enc a [] ha
  rwa [List.append_nil] at this

theorem roundtrip (h : PreLawfulCodec c Valid) {a : α} (ha : Valid a) :
    tryFromSlice c (c.enc a) = some a :=
  tryFromSlice_eq_some_iff.2 (h.dec_enc_nil ha)

theorem enc_injective (h : PreLawfulCodec c Valid) {a b : α} (ha : Valid a) (hb : Valid b)
    (hab : c.enc a = c.enc b) : a = b := by
  have h1 := h.roundtrip ha
  have h2 := h.roundtrip hb
  rw [hab, h2] at h1
  exact (Option.some.inj h1).symm

theorem trailing_rejected (h : PreLawfulCodec c Valid) {a : α} {extra : Bytes} (ha : Valid a)
    (hne : extra ≠ []) : tryFromSlice c (c.enc a ++ extra) = none := by
  cases hx : tryFromSlice c (c.enc a ++ extra) with
  | none => rfl
  | some b =>
    rw [tryFromSlice_eq_some_iff, h.dec_enc a extra ha] at hx
    simp only [Option.some.injEq, Prod.mk.injEq] at hx
    exact absurd hx.2 hne

theorem truncated_rejected (h : PreLawfulCodec c Valid) {a : α} {k : Nat} (ha : Valid a)
    (hk : k < (c.enc a).length) : tryFromSlice c ((c.enc a).take k) = none := by
  cases hx : tryFromSlice c ((c.enc a).take k) with
  | none => rfl
  | some b =>
    rw [tryFromSlice_eq_some_iff] at hx
    have h1 := h.dec_append _ _ _ ((c.enc a).drop k) hx
    rw [List.take_append_drop, h.dec_enc_nil ha] at h1
    simp only [Option.some.injEq, Prod.mk.injEq, List.nil_append] at h1
    have h2 : ((c.enc a).drop k).length = 0 := by rw [← h1.2]; rfl
    rw [List.length_drop] at h2
    omega

end PreLawfulCodec

namespace LawfulCodec
variable {α : Type} {c : Codec α} {Valid : α → Prop}

theorem toPre (h : LawfulCodec c Valid) : PreLawfulCodec c Valid := ⟨h.dec_enc, h.dec_append⟩

theorem dec_enc_nil (h : LawfulCodec c Valid) {a : α} (ha : Valid a) :
    c.dec (c.enc a) = some (a, []) := h.toPre.dec_enc_nil ha

/-- `try_from_slice (serialize a) = Ok a` -/
theorem roundtrip (h : LawfulCodec c Valid) {a : α} (ha : Valid a) :
    tryFromSlice c (c.enc a) = some a := h.toPre.roundtrip ha

theorem enc_injective (h : LawfulCodec c Valid) {a b : α} (ha : Valid a) (hb : Valid b)
    (hab : c.enc a = c.enc b) : a = b := h.toPre.enc_injective ha hb hab

/-- strictness: trailing bytes are an error -/
theorem trailing_rejected (h : LawfulCodec c Valid) {a : α} {extra : Bytes} (ha : Valid a)
    (hne : extra ≠ []) : tryFromSlice c (c.enc a ++ extra) = none :=
  h.toPre.trailing_rejected ha hne

/-- strictness: every proper prefix of an encoding is an error -/
theorem truncated_rejected (h : LawfulCodec c Valid) {a : α} {k : Nat} (ha : Valid a)
    (hk : k < (c.enc a).length) : tryFromSlice c ((c.enc a).take k) = none :=
  h.toPre.truncated_rejected ha hk

theorem tryFromSlice_valid (h : LawfulCodec c Valid) {bs : Bytes} {a : α}
    (hx : tryFromSlice c bs = some a) : Valid a :=
  h.dec_valid bs a [] (tryFromSlice_eq_some_iff.1 hx)

/-- `Valid` can be replaced by any equivalent predicate. -/
theorem congr (h : LawfulCodec c Valid) {Valid' : α → Prop} (hv : ∀ a, Valid a ↔ Valid' a) :
    LawfulCodec c Valid' :=
  ⟨fun a rest ha => h.dec_enc a rest ((hv a).2 ha), h.dec_append,
   fun bs a r hd => (hv a).1 (h.dec_valid bs a r hd)⟩

end LawfulCodec

theorem toNat_ofNat_u8 (k : Nat) : (UInt8.ofNat k).toNat = k % 256 := by
  simp

theorem u8_toNat_lt (b : UInt8) : b.toNat < 256 := by
  have := UInt8.toNat_lt b
  simpa using this

theorem ofNat_toNat_u8 (b : UInt8) : UInt8.ofNat b.toNat = b := by simp

theorem natOfLE_natToLEDigits (n : Nat) : natOfLE (natToLEDigits n) = n := by
  induction n using Nat.strongRecOn with
  | _ n ih =>
    rw [natToLEDigits]
    split
    · next h => simp [natOfLE, h]
    · next h =>
      simp only [natOfLE, toNat_ofNat_u8]
      rw [ih (n / 256) (by omega)]; omega

theorem natOfLE_natToLE (n : Nat) : natOfLE (natToLE n) = n := by
  unfold natToLE
  split
  · next h => subst h; rfl
  · exact natOfLE_natToLEDigits n

theorem natOfLE_append (xs ys : Bytes) :
    natOfLE (xs ++ ys) = natOfLE xs + 256 ^ xs.length * natOfLE ys := by
  induction xs with
  | nil => simp [natOfLE]
  | cons x xs ih =>
    simp only [List.cons_append, natOfLE, ih, List.length_cons, Nat.pow_succ]
    rw [Nat.mul_add, Nat.add_assoc, ← Nat.mul_assoc, Nat.mul_comm 256 (256 ^ xs.length)]

theorem natOfBE_foldl (bs : Bytes) (acc : Nat) :
    bs.foldl (fun acc b => acc * 256 + b.toNat) acc
      = acc * 256 ^ bs.length + natOfLE bs.reverse := by
  induction bs generalizing acc with
  | nil => simp [natOfLE]
  | cons b bs ih =>
    simp only [List.foldl_cons, ih, List.reverse_cons, natOfLE_append, List.length_cons,
      List.length_reverse, natOfLE, Nat.pow_succ]
    rw [Nat.add_mul, Nat.mul_assoc, Nat.mul_comm 256 (256 ^ bs.length), Nat.mul_zero,
      Nat.add_zero, Nat.add_assoc, Nat.mul_comm b.toNat,
      Nat.add_comm (256 ^ bs.length * b.toNat)]

theorem natOfBE_eq_natOfLE_reverse (bs : Bytes) : natOfBE bs = natOfLE bs.reverse := by
  unfold natOfBE
  rw [natOfBE_foldl]; simp

theorem natOfBE_natToBE (n : Nat) : natOfBE (natToBE n) = n := by
  rw [natOfBE_eq_natOfLE_reverse, natToBE, List.reverse_reverse, natOfLE_natToLEDigits]

theorem natOfLE_lt (bs : Bytes) : natOfLE bs < 256 ^ bs.length := by
  induction bs with
  | nil => simp [natOfLE]
  | cons b bs ih =>
    simp only [natOfLE, List.length_cons, Nat.pow_succ]
    have := u8_toNat_lt b
    generalize 256 ^ bs.length = m at *
    omega

theorem natOfBE_lt (bs : Bytes) : natOfBE bs < 256 ^ bs.length := by
  rw [natOfBE_eq_natOfLE_reverse]
  have := natOfLE_lt bs.reverse
  rwa [List.length_reverse] at this

theorem natToLEDigits_length_le (k : Nat) : ∀ n, n < 256 ^ k → (natToLEDigits n).length ≤ k := by
  induction k with
  | zero =>
    intro n h
    have : n = 0 := by simpa using h
    subst this
    rw [natToLEDigits]; simp
  | succ k ih =>
    intro n h
    rw [natToLEDigits]
    split
    · simp
    · have h' : n / 256 < 256 ^ k := by
        rw [Nat.pow_succ] at h
        rw [Nat.div_lt_iff_lt_mul (by decide)]
        exact h
      have := ih _ h'
      simp only [List.length_cons]
      omega

/-! ### fixed-width integers -/

theorem leFixed_length (k n : Nat) : (leFixed k n).length = k := by
  induction k generalizing n with
  | zero => rfl
  | succ k ih => simp [leFixed, ih]

theorem u16le_length (n : Nat) : (u16le n).length = 2 := leFixed_length 2 n
theorem u32le_length (n : Nat) : (u32le n).length = 4 := leFixed_length 4 n
theorem u64le_length (n : Nat) : (u64le n).length = 8 := leFixed_length 8 n

theorem decU32_eq_some_iff {bs : Bytes} {n : Nat} {r : Bytes} :
    decU32 bs = some (n, r) ↔ ∃ a b c d, bs = a :: b :: c :: d :: r ∧ n = natOfLE [a, b, c, d] := by
  unfold decU32
  split
  · next a b c d rest =>
    constructor
    · intro h
      simp only [Option.some.injEq, Prod.mk.injEq] at h
      exact ⟨a, b, c, d, by rw [h.2], h.1.symm⟩
    · rintro ⟨a', b', c', d', h1, h2⟩
      simp only [List.cons.injEq] at h1
      obtain ⟨rfl, rfl, rfl, rfl, rfl⟩ := h1
      rw [h2]
  · next hno =>
    constructor
    · intro h; cases h
    · rintro ⟨a, b, c, d, h1, _⟩
      exact absurd h1 (hno a b c d r)

theorem decU32_u32le (n : Nat) (rest : Bytes) (h : n < 2 ^ 32) :
    decU32 (u32le n ++ rest) = some (n, rest) := by
  simp only [u32le, leFixed, List.cons_append, List.nil_append, decU32, natOfLE,
    toNat_ofNat_u8, Option.some.injEq, Prod.mk.injEq, and_true]
  omega

theorem decU32_append {bs : Bytes} {n : Nat} {r : Bytes} (t : Bytes)
    (h : decU32 bs = some (n, r)) : decU32 (bs ++ t) = some (n, r ++ t) := by
  obtain ⟨a, b, c, d, rfl, rfl⟩ := decU32_eq_some_iff.1 h
  rfl

theorem decU32_lt {bs : Bytes} {n : Nat} {r : Bytes} (h : decU32 bs = some (n, r)) :
    n < 2 ^ 32 := by
  obtain ⟨a, b, c, d, rfl, rfl⟩ := decU32_eq_some_iff.1 h
  have := natOfLE_lt [a, b, c, d]
  simpa using this


/-! ### `Vec<u8>` and `[u8; n]` -/

theorem decBytesVec_eq_some_iff {bs a r : Bytes} :
    decBytesVec bs = some (a, r) ↔
      ∃ n rest, decU32 bs = some (n, rest) ∧ n ≤ rest.length ∧ a = rest.take n ∧ r = rest.drop n := by
  unfold decBytesVec
  split
  · next h => simp [h]
  · next len rest h =>
    split
    · next hle =>
      constructor
      · intro h'
        simp only [Option.some.injEq, Prod.mk.injEq] at h'
        exact ⟨len, rest, h, hle, h'.1.symm, h'.2.symm⟩
      · rintro ⟨n, rest', h1, _, h3, h4⟩
        rw [h] at h1
        simp only [Option.some.injEq, Prod.mk.injEq] at h1
        obtain ⟨rfl, rfl⟩ := h1
        rw [h3, h4]
    · next hle =>
      constructor
      · intro h'; cases h'
      · rintro ⟨n, rest', h1, h2, _, _⟩
        rw [h] at h1
        simp only [Option.some.injEq, Prod.mk.injEq] at h1
        obtain ⟨rfl, rfl⟩ := h1
        exact absurd h2 hle

theorem decBytesVec_enc (bs rest : Bytes) (h : bs.length < 2 ^ 32) :
    decBytesVec (encBytesVec bs ++ rest) = some (bs, rest) := by
  rw [decBytesVec_eq_some_iff]
  refine ⟨bs.length, bs ++ rest, ?_, ?_, ?_, ?_⟩
  · rw [encBytesVec, List.append_assoc]; exact decU32_u32le _ _ h
  · simp
  · simp
  · simp

theorem decBytesVec_append {bs a r : Bytes} (t : Bytes) (h : decBytesVec bs = some (a, r)) :
    decBytesVec (bs ++ t) = some (a, r ++ t) := by
  obtain ⟨n, rest, h1, h2, rfl, rfl⟩ := decBytesVec_eq_some_iff.1 h
  rw [decBytesVec_eq_some_iff]
  refine ⟨n, rest ++ t, decU32_append t h1, ?_, ?_, ?_⟩
  · simp; omega
  · rw [List.take_append_of_le_length h2]
  · rw [List.drop_append_of_le_length h2]

theorem decBytesVec_length_lt {bs a r : Bytes} (h : decBytesVec bs = some (a, r)) :
    a.length < 2 ^ 32 := by
  obtain ⟨n, rest, h1, h2, rfl, rfl⟩ := decBytesVec_eq_some_iff.1 h
  have := decU32_lt h1
  rw [List.length_take]
  omega

theorem encBytesVec_length (bs : Bytes) : (encBytesVec bs).length = 4 + bs.length := by
  simp [encBytesVec, u32le_length]

theorem bytesVec_lawful : LawfulCodec bytesVec (fun bs => bs.length < 2 ^ 32) where
  dec_enc := fun a rest h => decBytesVec_enc a rest h
  dec_append := fun _ _ _ t h => decBytesVec_append t h
  dec_valid := fun _ _ _ h => decBytesVec_length_lt h

theorem fixedBytes_lawful (n : Nat) : LawfulCodec (fixedBytes n) (fun bs => bs.length = n) where
  dec_enc := by
    intro a rest h
    subst h
    simp [fixedBytes]
  dec_append := by
    intro bs a r t h
    simp only [fixedBytes] at h ⊢
    split at h
    · next hle =>
      simp only [Option.some.injEq, Prod.mk.injEq] at h
      obtain ⟨rfl, rfl⟩ := h
      have hle' : n ≤ (bs ++ t).length := by simp; omega
      rw [if_pos hle', List.take_append_of_le_length hle, List.drop_append_of_le_length hle]
    · cases h
  dec_valid := by
    intro bs a r h
    simp only [fixedBytes] at h
    split at h
    · next hle =>
      simp only [Option.some.injEq, Prod.mk.injEq] at h
      rw [← h.1, List.length_take]; omega
    · cases h

/-! ### pairs -/

theorem pair_dec_eq_some_iff {α β : Type} {a : Codec α} {b : Codec β} {bs : Bytes} {x : α} {y : β}
    {r : Bytes} :
    (pair a b).dec bs = some ((x, y), r) ↔
      ∃ r1, a.dec bs = some (x, r1) ∧ b.dec r1 = some (y, r) := by
  simp only [pair]
  split
  · next h => simp [h]
  · next x' r1 h =>
    split
    · next h2 => simp [h, h2]
    · next y' r' h2 =>
      constructor
      · intro h'
        simp only [Option.some.injEq, Prod.mk.injEq] at h'
        obtain ⟨⟨rfl, rfl⟩, rfl⟩ := h'
        exact ⟨r1, h, h2⟩
      · rintro ⟨r1', h1, h3⟩
        rw [h] at h1
        simp only [Option.some.injEq, Prod.mk.injEq] at h1
        obtain ⟨rfl, rfl⟩ := h1
        rw [h2] at h3
        simp only [Option.some.injEq, Prod.mk.injEq] at h3
        obtain ⟨rfl, rfl⟩ := h3
        rfl

theorem pair_lawful {α β : Type} {a : Codec α} {b : Codec β} {Va : α → Prop} {Vb : β → Prop}
    (ha : LawfulCodec a Va) (hb : LawfulCodec b Vb) :
    LawfulCodec (pair a b) (fun p => Va p.1 ∧ Vb p.2) where
  dec_enc := by
    rintro ⟨x, y⟩ rest ⟨hx, hy⟩
    rw [pair_dec_eq_some_iff]
    refine ⟨b.enc y ++ rest, ?_, hb.dec_enc y rest hy⟩
    show a.dec ((a.enc x ++ b.enc y) ++ rest) = _
    rw [List.append_assoc]
    exact ha.dec_enc x _ hx
  dec_append := by
    rintro bs ⟨x, y⟩ r t h
    obtain ⟨r1, h1, h2⟩ := pair_dec_eq_some_iff.1 h
    exact pair_dec_eq_some_iff.2 ⟨r1 ++ t, ha.dec_append _ _ _ t h1, hb.dec_append _ _ _ t h2⟩
  dec_valid := by
    rintro bs ⟨x, y⟩ r h
    obtain ⟨r1, h1, h2⟩ := pair_dec_eq_some_iff.1 h
    exact ⟨ha.dec_valid _ _ _ h1, hb.dec_valid _ _ _ h2⟩

/-! ### `Vec<T>` -/

theorem decItems_succ_eq_some_iff {α : Type} {c : Codec α} {n : Nat} {bs : Bytes} {xs : List α}
    {r : Bytes} :
    decItems c (n + 1) bs = some (xs, r) ↔
      ∃ a r1 as, c.dec bs = some (a, r1) ∧ decItems c n r1 = some (as, r) ∧ xs = a :: as := by
  rw [decItems]
  split
  · next h => simp [h]
  · next a r1 h =>
    split
    · next h2 => simp [h, h2]
    · next as r' h2 =>
      constructor
      · intro h'
        simp only [Option.some.injEq, Prod.mk.injEq] at h'
        obtain ⟨rfl, rfl⟩ := h'
        exact ⟨a, r1, as, h, h2, rfl⟩
      · rintro ⟨a', r1', as', h1, h3, rfl⟩
        rw [h] at h1
        simp only [Option.some.injEq, Prod.mk.injEq] at h1
        obtain ⟨rfl, rfl⟩ := h1
        rw [h2] at h3
        simp only [Option.some.injEq, Prod.mk.injEq] at h3
        obtain ⟨rfl, rfl⟩ := h3
        rfl

theorem decItems_enc {α : Type} {c : Codec α} {V : α → Prop} (h : LawfulCodec c V) :
    ∀ (xs : List α) (rest : Bytes), (∀ x ∈ xs, V x) →
      decItems c xs.length (xs.flatMap c.enc ++ rest) = some (xs, rest) := by
  intro xs
  induction xs with
  | nil => intro rest _; rfl
  | cons x xs ih =>
    intro rest hv
    rw [List.length_cons, decItems_succ_eq_some_iff]
    refine ⟨x, xs.flatMap c.enc ++ rest, xs, ?_, ih rest (fun y hy => hv y (List.mem_cons_of_mem _ hy)), rfl⟩
    rw [List.flatMap_cons, List.append_assoc]
    exact h.dec_enc x _ (hv x (List.mem_cons_self ..))

theorem decItems_append {α : Type} {c : Codec α} {V : α → Prop} (h : LawfulCodec c V) (t : Bytes) :
    ∀ (n : Nat) (bs : Bytes) (xs : List α) (r : Bytes), decItems c n bs = some (xs, r) →
      decItems c n (bs ++ t) = some (xs, r ++ t) := by
  intro n
  induction n with
  | zero =>
    intro bs xs r hd
    simp only [decItems, Option.some.injEq, Prod.mk.injEq] at hd ⊢
    exact ⟨hd.1, by rw [hd.2]⟩
  | succ n ih =>
    intro bs xs r hd
    obtain ⟨a, r1, as, h1, h2, rfl⟩ := decItems_succ_eq_some_iff.1 hd
    exact decItems_succ_eq_some_iff.2 ⟨a, r1 ++ t, as, h.dec_append _ _ _ t h1, ih _ _ _ h2, rfl⟩

theorem decItems_valid {α : Type} {c : Codec α} {V : α → Prop} (h : LawfulCodec c V) :
    ∀ (n : Nat) (bs : Bytes) (xs : List α) (r : Bytes), decItems c n bs = some (xs, r) →
      (∀ x ∈ xs, V x) ∧ xs.length = n := by
  intro n
  induction n with
  | zero =>
    intro bs xs r hd
    simp only [decItems, Option.some.injEq, Prod.mk.injEq] at hd
    rw [← hd.1]; simp
  | succ n ih =>
    intro bs xs r hd
    obtain ⟨a, r1, as, h1, h2, rfl⟩ := decItems_succ_eq_some_iff.1 hd
    obtain ⟨hv, hl⟩ := ih _ _ _ h2
    refine ⟨?_, by simp [hl]⟩
    intro x hx
    rcases List.mem_cons.1 hx with rfl | hx
    · exact h.dec_valid _ _ _ h1
    · exact hv x hx

theorem vecOf_dec_eq_some_iff {α : Type} {c : Codec α} {bs : Bytes} {xs : List α} {r : Bytes} :
    (vecOf c).dec bs = some (xs, r) ↔
      ∃ n rest, decU32 bs = some (n, rest) ∧ decItems c n rest = some (xs, r) := by
  simp only [vecOf]
  split
  · next h => simp [h]
  · next n rest h =>
    constructor
    · intro h'; exact ⟨n, rest, h, h'⟩
    · rintro ⟨n', rest', h1, h2⟩
      rw [h] at h1
      simp only [Option.some.injEq, Prod.mk.injEq] at h1
      obtain ⟨rfl, rfl⟩ := h1
      exact h2

theorem vecOf_lawful {α : Type} {c : Codec α} {V : α → Prop} (h : LawfulCodec c V) :
    LawfulCodec (vecOf c) (fun xs => (∀ x ∈ xs, V x) ∧ xs.length < 2 ^ 32) where
  dec_enc := by
    rintro xs rest ⟨hv, hl⟩
    rw [vecOf_dec_eq_some_iff]
    refine ⟨xs.length, xs.flatMap c.enc ++ rest, ?_, decItems_enc h xs rest hv⟩
    show decU32 ((u32le xs.length ++ xs.flatMap c.enc) ++ rest) = _
    rw [List.append_assoc]
    exact decU32_u32le _ _ hl
  dec_append := by
    intro bs xs r t hd
    obtain ⟨n, rest, h1, h2⟩ := vecOf_dec_eq_some_iff.1 hd
    exact vecOf_dec_eq_some_iff.2 ⟨n, rest ++ t, decU32_append t h1, decItems_append h t _ _ _ _ h2⟩
  dec_valid := by
    intro bs xs r hd
    obtain ⟨n, rest, h1, h2⟩ := vecOf_dec_eq_some_iff.1 hd
    obtain ⟨hv, hl⟩ := decItems_valid h _ _ _ _ h2
    exact ⟨hv, by rw [hl]; exact decU32_lt h1⟩

/-! ### refinement of a codec by a partial map -/

/-- decode with `c₀`, then validate / convert with `f`; encode through `g`.  `natCodecE`,
    `natCodecX`, `natCodecP .bigint` and `nested` all have this shape (definitionally). -/
def Codec.refine {α β : Type} (c₀ : Codec β) (g : α → β) (f : β → Option α) : Codec α :=
  ⟨fun a => c₀.enc (g a),
   fun bs => match c₀.dec bs with
     | none => none
     | some (b, rest) => match f b with
       | none => none
       | some a => some (a, rest)⟩

theorem Codec.refine_dec_eq_some_iff {α β : Type} {c₀ : Codec β} {g : α → β} {f : β → Option α}
    {bs : Bytes} {a : α} {r : Bytes} :
    (Codec.refine c₀ g f).dec bs = some (a, r) ↔ ∃ b, c₀.dec bs = some (b, r) ∧ f b = some a := by
  simp only [Codec.refine]
  split
  · next h => simp [h]
  · next b rest h =>
    split
    · next h2 =>
      constructor
      · intro h'; cases h'
      · rintro ⟨b', h1, h3⟩
        rw [h] at h1
        simp only [Option.some.injEq, Prod.mk.injEq] at h1
        obtain ⟨rfl, rfl⟩ := h1
        rw [h2] at h3; cases h3
    · next a' h2 =>
      constructor
      · intro h'
        simp only [Option.some.injEq, Prod.mk.injEq] at h'
        obtain ⟨rfl, rfl⟩ := h'
        exact ⟨b, h, h2⟩
      · rintro ⟨b', h1, h3⟩
        rw [h] at h1
        simp only [Option.some.injEq, Prod.mk.injEq] at h1
        obtain ⟨rfl, rfl⟩ := h1
        rw [h2] at h3
        simp only [Option.some.injEq] at h3
        rw [h3]

theorem Codec.refine_lawful {α β : Type} {c₀ : Codec β} {V₀ : β → Prop} (h₀ : LawfulCodec c₀ V₀)
    {g : α → β} {f : β → Option α} {V : α → Prop}
    (hg : ∀ a, V a → V₀ (g a) ∧ f (g a) = some a)
    (hf : ∀ b a, V₀ b → f b = some a → V a) :
    LawfulCodec (Codec.refine c₀ g f) V where
  dec_enc := by
    intro a rest ha
    exact Codec.refine_dec_eq_some_iff.2 ⟨g a, h₀.dec_enc _ rest (hg a ha).1, (hg a ha).2⟩
  dec_append := by
    intro bs a r t hd
    obtain ⟨b, h1, h2⟩ := Codec.refine_dec_eq_some_iff.1 hd
    exact Codec.refine_dec_eq_some_iff.2 ⟨b, h₀.dec_append _ _ _ t h1, h2⟩
  dec_valid := by
    intro bs a r hd
    obtain ⟨b, h1, h2⟩ := Codec.refine_dec_eq_some_iff.1 hd
    exact hf b a (h₀.dec_valid _ _ _ h1) h2

/-! ### `Vec<Vec<u8>>` of individually serialised items -/

theorem mapOpt_cons_eq_some_iff {α β : Type} {f : α → Option β} {a : α} {as : List α}
    {ys : List β} :
    mapOpt f (a :: as) = some ys ↔ ∃ b bs, f a = some b ∧ mapOpt f as = some bs ∧ ys = b :: bs := by
  rw [mapOpt]
  split
  · next h => simp [h]
  · next b h =>
    split
    · next h2 => simp [h, h2]
    · next bs h2 =>
      constructor
      · intro h'
        simp only [Option.some.injEq] at h'
        exact ⟨b, bs, h, h2, h'.symm⟩
      · rintro ⟨b', bs', h1, h3, rfl⟩
        rw [h] at h1; rw [h2] at h3
        simp only [Option.some.injEq] at h1 h3
        rw [h1, h3]

theorem mapOpt_map_of_forall {α β : Type} {f : β → Option α} {g : α → β} :
    ∀ xs : List α, (∀ x ∈ xs, f (g x) = some x) → mapOpt f (xs.map g) = some xs := by
  intro xs
  induction xs with
  | nil => intro _; rfl
  | cons x xs ih =>
    intro hv
    rw [List.map_cons, mapOpt_cons_eq_some_iff]
    exact ⟨x, xs, hv x (List.mem_cons_self ..), ih (fun y hy => hv y (List.mem_cons_of_mem _ hy)), rfl⟩

theorem mapOpt_mem {α β : Type} {f : α → Option β} :
    ∀ (items : List α) (ys : List β), mapOpt f items = some ys →
      ys.length = items.length ∧ ∀ y ∈ ys, ∃ i ∈ items, f i = some y := by
  intro items
  induction items with
  | nil =>
    intro ys h
    simp only [mapOpt, Option.some.injEq] at h
    subst h; simp
  | cons a as ih =>
    intro ys h
    obtain ⟨b, bs, h1, h2, rfl⟩ := mapOpt_cons_eq_some_iff.1 h
    obtain ⟨hl, hm⟩ := ih bs h2
    refine ⟨by simp [hl], ?_⟩
    intro y hy
    rcases List.mem_cons.1 hy with rfl | hy
    · exact ⟨a, List.mem_cons_self .., h1⟩
    · obtain ⟨i, hi, hfi⟩ := hm y hy
      exact ⟨i, List.mem_cons_of_mem _ hi, hfi⟩


theorem nested_eq_refine {α : Type} (c : Codec α) :
    nested c = Codec.refine (vecOf bytesVec) (List.map c.enc) (mapOpt (tryFromSlice c)) := by
  unfold nested Codec.refine
  congr 1
  funext bs
  cases h : (vecOf bytesVec).dec bs with
  | none => rfl
  | some p => 
    obtain ⟨items, rest⟩ := p
    simp only
    cases mapOpt (tryFromSlice c) items <;> rfl

/-- The first two laws hold for `nested c` with no further hypothesis on `c`. -/
theorem nested_preLawful {α : Type} {c : Codec α} {V : α → Prop} (h : LawfulCodec c V) :
    PreLawfulCodec (nested c)
      (fun xs => (∀ x ∈ xs, V x ∧ (c.enc x).length < 2 ^ 32) ∧ xs.length < 2 ^ 32) where
  dec_enc := by
    rintro xs rest ⟨hv, hl⟩
    rw [nested_eq_refine, Codec.refine_dec_eq_some_iff]
    refine ⟨xs.map c.enc, ?_, mapOpt_map_of_forall xs (fun x hx => h.roundtrip (hv x hx).1)⟩
    refine (vecOf_lawful bytesVec_lawful).dec_enc _ rest ⟨?_, by simpa using hl⟩
    intro e he
    obtain ⟨x, hx, rfl⟩ := List.mem_map.1 he
    exact (hv x hx).2
  dec_append := by
    intro bs xs r t hd
    rw [nested_eq_refine, Codec.refine_dec_eq_some_iff] at hd ⊢
    obtain ⟨b, h1, h2⟩ := hd
    exact ⟨b, (vecOf_lawful bytesVec_lawful).dec_append _ _ _ t h1, h2⟩

/-- What `nested c` guarantees about a decoded vector with no further hypothesis on `c`:
    fewer than `2^32` items, each of which is the strict decoding of a byte string shorter
    than `2^32` (hence valid).  NOTE: this does not bound `(c.enc x).length`; see
    `nested_not_lawful_in_general`. -/
theorem nested_dec_valid_weak {α : Type} {c : Codec α} {V : α → Prop} (h : LawfulCodec c V)
    {bs : Bytes} {xs : List α} {r : Bytes} (hd : (nested c).dec bs = some (xs, r)) :
    (∀ x ∈ xs, V x ∧ ∃ item : Bytes, item.length < 2 ^ 32 ∧ tryFromSlice c item = some x) ∧
      xs.length < 2 ^ 32 := by
  rw [nested_eq_refine, Codec.refine_dec_eq_some_iff] at hd
  obtain ⟨items, h1, h2⟩ := hd
  obtain ⟨hiv, hil⟩ := (vecOf_lawful bytesVec_lawful).dec_valid _ _ _ h1
  obtain ⟨hl, hm⟩ := mapOpt_mem items xs h2
  refine ⟨?_, by rw [hl]; exact hil⟩
  intro x hx
  obtain ⟨i, hi, hfi⟩ := hm x hx
  exact ⟨h.tryFromSlice_valid hfi, i, hiv i hi, hfi⟩

/-- `nested c` is lawful for the stated `Valid` PROVIDED strict decoding of a short byte string
    never yields a value whose own encoding is `2^32` bytes or longer.  Without `hshort` the
    third law fails: `nested_not_lawful_in_general`. -/
theorem nested_lawful {α : Type} {c : Codec α} {V : α → Prop} (h : LawfulCodec c V)
    (hshort : ∀ bs a, tryFromSlice c bs = some a → bs.length < 2 ^ 32 →
      (c.enc a).length < 2 ^ 32) :
    LawfulCodec (nested c)
      (fun xs => (∀ x ∈ xs, V x ∧ (c.enc x).length < 2 ^ 32) ∧ xs.length < 2 ^ 32) where
  dec_enc := (nested_preLawful h).dec_enc
  dec_append := (nested_preLawful h).dec_append
  dec_valid := by
    intro bs xs r hd
    obtain ⟨hv, hl⟩ := nested_dec_valid_weak h hd
    refine ⟨fun x hx => ?_, hl⟩
    obtain ⟨hvx, i, hi, hfi⟩ := hv x hx
    exact ⟨hvx, hshort i x hfi hi⟩

/-- the usual way to discharge `hshort`: every valid value has a short encoding
    (e.g. by `natToBytes_length_le` for a concrete group size) -/
theorem nested_lawful_of_enc_bound {α : Type} {c : Codec α} {V : α → Prop} (h : LawfulCodec c V)
    (hb : ∀ a, V a → (c.enc a).length < 2 ^ 32) :
    LawfulCodec (nested c) (fun xs => (∀ x ∈ xs, V x) ∧ xs.length < 2 ^ 32) :=
  (nested_lawful h (fun _ a ha _ => hb a (h.tryFromSlice_valid ha))).congr
    (fun _ => ⟨fun hx => ⟨fun x hm => (hx.1 x hm).1, hx.2⟩,
                fun hx => ⟨fun x hm => ⟨hx.1 x hm, hb x (hx.1 x hm)⟩, hx.2⟩⟩)

/-! ### a lawful codec `c` for which `nested c` violates `dec_valid` -/

/-- one value with a long canonical encoding (`0` then `N` zeros) and a one-byte alias
    (any non-zero byte) -/
def aliasCodec (N : Nat) : Codec Unit :=
  ⟨fun _ => 0 :: List.replicate N 0,
   fun bs => match bs with
     | [] => none
     | b :: r =>
       if b = 0 then (if r.take N = List.replicate N 0 then some ((), r.drop N) else none)
       else some ((), r)⟩

theorem aliasCodec_lawful (N : Nat) : LawfulCodec (aliasCodec N) (fun _ => True) where
  dec_enc := by
    intro a rest _
    simp [aliasCodec]
  dec_append := by
    intro bs a r t hd
    cases bs with
    | nil => simp [aliasCodec] at hd
    | cons b bs =>
      simp only [aliasCodec, List.cons_append] at hd ⊢
      by_cases hb : b = 0
      · simp only [hb, if_true] at hd ⊢
        split at hd
        · next htk =>
          have hlen : N ≤ bs.length := by
            have := congrArg List.length htk
            simp only [List.length_take, List.length_replicate] at this
            omega
          have hr : List.drop N bs = r := by simpa using hd
          rw [List.take_append_of_le_length hlen, if_pos htk,
            List.drop_append_of_le_length hlen, hr]
        · cases hd
      · have hr : bs = r := by simpa [hb] using hd
        simp [hb, hr]
  dec_valid := fun _ _ _ _ => trivial

theorem aliasCodec_enc_length (N : Nat) (u : Unit) : ((aliasCodec N).enc u).length = N + 1 := by
  simp [aliasCodec]

theorem aliasCodec_tryFromSlice_one (N : Nat) : tryFromSlice (aliasCodec N) [1] = some () := by
  rw [tryFromSlice_eq_some_iff]
  simp [aliasCodec]

/-- the 9 bytes `01 00 00 00 | 01 00 00 00 | 01` decode, under `nested (aliasCodec N)`, to `[()]` -/
theorem nested_aliasCodec_dec (N : Nat) :
    (nested (aliasCodec N)).dec ((vecOf bytesVec).enc [[1]]) = some ([()], []) := by
  rw [nested_eq_refine, Codec.refine_dec_eq_some_iff]
  refine ⟨[[1]], ?_, ?_⟩
  · exact (vecOf_lawful bytesVec_lawful).dec_enc_nil ⟨by simp, by simp⟩
  · rw [mapOpt_cons_eq_some_iff]
    exact ⟨(), [], aliasCodec_tryFromSlice_one N, rfl, rfl⟩

/-- COUNTEREXAMPLE.  Lawfulness of `c` does not imply lawfulness of `nested c` for
    `Valid xs := (∀ x ∈ xs, V x ∧ (c.enc x).length < 2^32) ∧ xs.length < 2^32`: a strictly
    decodable short item may denote a value whose own encoding is too long to be re-encoded.
    (`dec_enc` and `dec_append` do hold: `nested_preLawful`.) -/
theorem nested_not_lawful_in_general :
    ∃ (c : Codec Unit) (V : Unit → Prop), LawfulCodec c V ∧
      ¬ LawfulCodec (nested c)
        (fun xs => (∀ x ∈ xs, V x ∧ (c.enc x).length < 2 ^ 32) ∧ xs.length < 2 ^ 32) := by
  refine ⟨aliasCodec (2 ^ 32), fun _ => True, aliasCodec_lawful _, fun hl => ?_⟩
  have h1 := (hl.dec_valid _ _ _ (nested_aliasCodec_dec (2 ^ 32))).1 () (List.mem_singleton.2 rfl)
  have h2 := h1.2
  rw [aliasCodec_enc_length] at h2
  omega

end Strand
