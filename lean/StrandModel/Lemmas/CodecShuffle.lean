import StrandModel.Lemmas.CodecWire
import StrandModel.Lemmas.Encode
import StrandModel.Model.Shuffle
/-
Lawful codecs, part three: the strand vector wrappers (`vecE`, `vecX`, `vecC`) and the shuffle
proof wire types (`Commitments`, `Responses`, `ShuffleProof`) over ANY back-end whose element and
exponent codecs are lawful and whose encodings are shorter than `2^32` bytes; then every wire type
of the `Nat` back-end under one size hypothesis (`WireSize P k`: the group fits in `k` bytes).
-/
namespace Strand

theorem PreLawfulCodec.mono {α : Type} {c : Codec α} {V V' : α → Prop} (h : PreLawfulCodec c V)
    (hv : ∀ a, V' a → V a) : PreLawfulCodec c V' :=
  ⟨fun a rest ha => h.dec_enc a rest (hv a ha), h.dec_append⟩

section Generic
variable {E X : Type} {o : Ops E X} {VE : E → Prop} {VX : X → Prop}

/-! ### the vector wrappers -/

/-- `StrandVector<Element>` -/
theorem vecE_lawful (hE : LawfulCodec o.codecE VE)
    (bE : ∀ a, VE a → (o.codecE.enc a).length < 2 ^ 32) :
    LawfulCodec (vecE o) (fun xs => (∀ x ∈ xs, VE x) ∧ xs.length < 2 ^ 32) :=
  nested_lawful_of_enc_bound hE bE

/-- `StrandVector<Exponent>` -/
theorem vecX_lawful (hX : LawfulCodec o.codecX VX)
    (bX : ∀ x, VX x → (o.codecX.enc x).length < 2 ^ 32) :
    LawfulCodec (vecX o) (fun xs => (∀ x ∈ xs, VX x) ∧ xs.length < 2 ^ 32) :=
  nested_lawful_of_enc_bound hX bX

theorem codecCt_enc_length (c : Ciphertext E) :
    ((codecCt o).enc c).length = (o.codecE.enc c.mhr).length + (o.codecE.enc c.gr).length := by
  show (o.codecE.enc c.mhr ++ o.codecE.enc c.gr).length = _
  rw [List.length_append]

/-- `StrandVector<Ciphertext>` -/
theorem vecC_lawful (hE : LawfulCodec o.codecE VE)
    (bC : ∀ c : Ciphertext E, VE c.mhr ∧ VE c.gr → ((codecCt o).enc c).length < 2 ^ 32) :
    LawfulCodec (vecC o) (fun cs => (∀ c ∈ cs, VE c.mhr ∧ VE c.gr) ∧ cs.length < 2 ^ 32) :=
  nested_lawful_of_enc_bound (codecCt_lawful hE) bC

/-- `StrandVector<Ciphertext>`, from a uniform bound `K` on element encodings with `2K < 2^32` -/
theorem vecC_lawful_of_bound (hE : LawfulCodec o.codecE VE) {K : Nat}
    (bE : ∀ a, VE a → (o.codecE.enc a).length ≤ K) (hK : 2 * K < 2 ^ 32) :
    LawfulCodec (vecC o) (fun cs => (∀ c ∈ cs, VE c.mhr ∧ VE c.gr) ∧ cs.length < 2 ^ 32) := by
  refine vecC_lawful hE ?_
  rintro c ⟨h1, h2⟩
  rw [codecCt_enc_length]
  have := bE _ h1
  have := bE _ h2
  omega

/-! ### five elements / four exponents in a row -/

theorem decE5_eq_some_iff {bs : Bytes} {a b c d e : E} {r : Bytes} :
    decE5 o bs = some ((a, b, c, d, e), r) ↔
      ∃ r1 r2 r3 r4, o.codecE.dec bs = some (a, r1) ∧ o.codecE.dec r1 = some (b, r2) ∧
        o.codecE.dec r2 = some (c, r3) ∧ o.codecE.dec r3 = some (d, r4) ∧
        o.codecE.dec r4 = some (e, r) := by
  constructor
  · intro h
    unfold decE5 at h
    split at h
    · cases h
    · next a' r1 h1 =>
      split at h
      · cases h
      · next b' r2 h2 =>
        split at h
        · cases h
        · next c' r3 h3 =>
          split at h
          · cases h
          · next d' r4 h4 =>
            split at h
            · cases h
            · next e' r5 h5 =>
              simp only [Option.some.injEq, Prod.mk.injEq] at h
              obtain ⟨⟨rfl, rfl, rfl, rfl, rfl⟩, rfl⟩ := h
              exact ⟨r1, r2, r3, r4, h1, h2, h3, h4, h5⟩
  · rintro ⟨r1, r2, r3, r4, h1, h2, h3, h4, h5⟩
    simp only [decE5, h1, h2, h3, h4, h5]

theorem decX4_eq_some_iff {bs : Bytes} {a b c d : X} {r : Bytes} :
    decX4 o bs = some ((a, b, c, d), r) ↔
      ∃ r1 r2 r3, o.codecX.dec bs = some (a, r1) ∧ o.codecX.dec r1 = some (b, r2) ∧
        o.codecX.dec r2 = some (c, r3) ∧ o.codecX.dec r3 = some (d, r) := by
  constructor
  · intro h
    unfold decX4 at h
    split at h
    · cases h
    · next a' r1 h1 =>
      split at h
      · cases h
      · next b' r2 h2 =>
        split at h
        · cases h
        · next c' r3 h3 =>
          split at h
          · cases h
          · next d' r4 h4 =>
            simp only [Option.some.injEq, Prod.mk.injEq] at h
            obtain ⟨⟨rfl, rfl, rfl, rfl⟩, rfl⟩ := h
            exact ⟨r1, r2, r3, h1, h2, h3, h4⟩
  · rintro ⟨r1, r2, r3, h1, h2, h3, h4⟩
    simp only [decX4, h1, h2, h3, h4]

/-! ### `Commitments` -/

theorem codecCommitments_dec_eq_some_iff {bs : Bytes} {t : Commitments E} {r : Bytes} :
    (codecCommitments o).dec bs = some (t, r) ↔
      ∃ r5, decE5 o bs = some ((t.t1, t.t2, t.t3, t.t4_1, t.t4_2), r5) ∧
        (vecE o).dec r5 = some (t.tHats, r) := by
  constructor
  · intro h
    simp only [codecCommitments] at h
    split at h
    · cases h
    · next a b c d e r5 h1 =>
      split at h
      · cases h
      · next th r' h2 =>
        simp only [Option.some.injEq, Prod.mk.injEq] at h
        obtain ⟨rfl, rfl⟩ := h
        exact ⟨r5, h1, h2⟩
  · rintro ⟨r5, h1, h2⟩
    obtain ⟨t1, t2, t3, t41, t42, th⟩ := t
    simp only [codecCommitments, h1, h2]

/-- `Commitments`, for any lawful `vecE` -/
theorem codecCommitments_lawful' {VL : List E → Prop} (hE : LawfulCodec o.codecE VE)
    (hL : LawfulCodec (vecE o) VL) :
    LawfulCodec (codecCommitments o) (fun t =>
      VE t.t1 ∧ VE t.t2 ∧ VE t.t3 ∧ VE t.t4_1 ∧ VE t.t4_2 ∧ VL t.tHats) where
  dec_enc := by
    rintro t rest ⟨h1, h2, h3, h4, h5, h6⟩
    rw [codecCommitments_dec_eq_some_iff]
    refine ⟨(vecE o).enc t.tHats ++ rest, ?_, hL.dec_enc _ rest h6⟩
    rw [decE5_eq_some_iff]
    refine ⟨_, _, _, _, ?_, hE.dec_enc _ _ h2, hE.dec_enc _ _ h3, hE.dec_enc _ _ h4,
      hE.dec_enc _ _ h5⟩
    show o.codecE.dec ((o.codecE.enc t.t1 ++ o.codecE.enc t.t2 ++ o.codecE.enc t.t3 ++
      o.codecE.enc t.t4_1 ++ o.codecE.enc t.t4_2 ++ (vecE o).enc t.tHats) ++ rest) = _
    simp only [List.append_assoc]
    exact hE.dec_enc _ _ h1
  dec_append := by
    intro bs t r x h
    obtain ⟨r5, h1, h2⟩ := codecCommitments_dec_eq_some_iff.1 h
    obtain ⟨r1, r2, r3, r4, e1, e2, e3, e4, e5⟩ := decE5_eq_some_iff.1 h1
    exact codecCommitments_dec_eq_some_iff.2 ⟨r5 ++ x, decE5_eq_some_iff.2
      ⟨r1 ++ x, r2 ++ x, r3 ++ x, r4 ++ x, hE.dec_append _ _ _ x e1, hE.dec_append _ _ _ x e2,
        hE.dec_append _ _ _ x e3, hE.dec_append _ _ _ x e4, hE.dec_append _ _ _ x e5⟩,
      hL.dec_append _ _ _ x h2⟩
  dec_valid := by
    intro bs t r h
    obtain ⟨r5, h1, h2⟩ := codecCommitments_dec_eq_some_iff.1 h
    obtain ⟨r1, r2, r3, r4, e1, e2, e3, e4, e5⟩ := decE5_eq_some_iff.1 h1
    exact ⟨hE.dec_valid _ _ _ e1, hE.dec_valid _ _ _ e2, hE.dec_valid _ _ _ e3,
      hE.dec_valid _ _ _ e4, hE.dec_valid _ _ _ e5, hL.dec_valid _ _ _ h2⟩

/-! ### `Responses` -/

theorem codecResponses_dec_eq_some_iff {bs : Bytes} {s : Responses X} {r : Bytes} :
    (codecResponses o).dec bs = some (s, r) ↔
      ∃ r4 r5, decX4 o bs = some ((s.s1, s.s2, s.s3, s.s4), r4) ∧
        (vecX o).dec r4 = some (s.sHats, r5) ∧ (vecX o).dec r5 = some (s.sPrimes, r) := by
  constructor
  · intro h
    simp only [codecResponses] at h
    split at h
    · cases h
    · next a b c d r4 h1 =>
      split at h
      · cases h
      · next sh r5 h2 =>
        split at h
        · cases h
        · next sp r6 h3 =>
          simp only [Option.some.injEq, Prod.mk.injEq] at h
          obtain ⟨rfl, rfl⟩ := h
          exact ⟨r4, r5, h1, h2, h3⟩
  · rintro ⟨r4, r5, h1, h2, h3⟩
    obtain ⟨s1, s2, s3, s4, sh, sp⟩ := s
    simp only [codecResponses, h1, h2, h3]

/-- `Responses`, for any lawful `vecX` -/
theorem codecResponses_lawful' {VL : List X → Prop} (hX : LawfulCodec o.codecX VX)
    (hL : LawfulCodec (vecX o) VL) :
    LawfulCodec (codecResponses o) (fun s =>
      VX s.s1 ∧ VX s.s2 ∧ VX s.s3 ∧ VX s.s4 ∧ VL s.sHats ∧ VL s.sPrimes) where
  dec_enc := by
    rintro s rest ⟨h1, h2, h3, h4, h5, h6⟩
    rw [codecResponses_dec_eq_some_iff]
    refine ⟨(vecX o).enc s.sHats ++ ((vecX o).enc s.sPrimes ++ rest), (vecX o).enc s.sPrimes ++ rest,
      ?_, hL.dec_enc _ _ h5, hL.dec_enc _ _ h6⟩
    rw [decX4_eq_some_iff]
    refine ⟨_, _, _, ?_, hX.dec_enc _ _ h2, hX.dec_enc _ _ h3, hX.dec_enc _ _ h4⟩
    show o.codecX.dec ((o.codecX.enc s.s1 ++ o.codecX.enc s.s2 ++ o.codecX.enc s.s3 ++
      o.codecX.enc s.s4 ++ (vecX o).enc s.sHats ++ (vecX o).enc s.sPrimes) ++ rest) = _
    simp only [List.append_assoc]
    exact hX.dec_enc _ _ h1
  dec_append := by
    intro bs s r x h
    obtain ⟨r4, r5, h1, h2, h3⟩ := codecResponses_dec_eq_some_iff.1 h
    obtain ⟨r1, r2, r3, e1, e2, e3, e4⟩ := decX4_eq_some_iff.1 h1
    exact codecResponses_dec_eq_some_iff.2 ⟨r4 ++ x, r5 ++ x, decX4_eq_some_iff.2
      ⟨r1 ++ x, r2 ++ x, r3 ++ x, hX.dec_append _ _ _ x e1, hX.dec_append _ _ _ x e2,
        hX.dec_append _ _ _ x e3, hX.dec_append _ _ _ x e4⟩,
      hL.dec_append _ _ _ x h2, hL.dec_append _ _ _ x h3⟩
  dec_valid := by
    intro bs s r h
    obtain ⟨r4, r5, h1, h2, h3⟩ := codecResponses_dec_eq_some_iff.1 h
    obtain ⟨r1, r2, r3, e1, e2, e3, e4⟩ := decX4_eq_some_iff.1 h1
    exact ⟨hX.dec_valid _ _ _ e1, hX.dec_valid _ _ _ e2, hX.dec_valid _ _ _ e3,
      hX.dec_valid _ _ _ e4, hL.dec_valid _ _ _ h2, hL.dec_valid _ _ _ h3⟩

/-! ### `ShuffleProof` -/

theorem codecShuffleProof_dec_eq_some_iff {bs : Bytes} {p : ShuffleProof E X} {r : Bytes} :
    (codecShuffleProof o).dec bs = some (p, r) ↔
      ∃ r1 r2 r3, (codecCommitments o).dec bs = some (p.t, r1) ∧
        (codecResponses o).dec r1 = some (p.s, r2) ∧ (vecE o).dec r2 = some (p.cs, r3) ∧
        (vecE o).dec r3 = some (p.cHats, r) := by
  constructor
  · intro h
    simp only [codecShuffleProof] at h
    split at h
    · cases h
    · next t r1 h1 =>
      split at h
      · cases h
      · next s r2 h2 =>
        split at h
        · cases h
        · next cs r3 h3 =>
          split at h
          · cases h
          · next ch r4 h4 =>
            simp only [Option.some.injEq, Prod.mk.injEq] at h
            obtain ⟨rfl, rfl⟩ := h
            exact ⟨r1, r2, r3, h1, h2, h3, h4⟩
  · rintro ⟨r1, r2, r3, h1, h2, h3, h4⟩
    obtain ⟨t, s, cs, ch⟩ := p
    simp only [codecShuffleProof, h1, h2, h3, h4]

/-- `ShuffleProof`, from lawful parts -/
theorem codecShuffleProof_lawful' {VT : Commitments E → Prop} {VS : Responses X → Prop}
    {VL : List E → Prop} (hT : LawfulCodec (codecCommitments o) VT)
    (hS : LawfulCodec (codecResponses o) VS) (hL : LawfulCodec (vecE o) VL) :
    LawfulCodec (codecShuffleProof o) (fun p => VT p.t ∧ VS p.s ∧ VL p.cs ∧ VL p.cHats) where
  dec_enc := by
    rintro p rest ⟨h1, h2, h3, h4⟩
    rw [codecShuffleProof_dec_eq_some_iff]
    refine ⟨_, _, _, ?_, hS.dec_enc _ _ h2, hL.dec_enc _ _ h3, hL.dec_enc _ _ h4⟩
    show (codecCommitments o).dec (((codecCommitments o).enc p.t ++ (codecResponses o).enc p.s ++
      (vecE o).enc p.cs ++ (vecE o).enc p.cHats) ++ rest) = _
    simp only [List.append_assoc]
    exact hT.dec_enc _ _ h1
  dec_append := by
    intro bs p r x h
    obtain ⟨r1, r2, r3, h1, h2, h3, h4⟩ := codecShuffleProof_dec_eq_some_iff.1 h
    exact codecShuffleProof_dec_eq_some_iff.2 ⟨r1 ++ x, r2 ++ x, r3 ++ x,
      hT.dec_append _ _ _ x h1, hS.dec_append _ _ _ x h2, hL.dec_append _ _ _ x h3,
      hL.dec_append _ _ _ x h4⟩
  dec_valid := by
    intro bs p r h
    obtain ⟨r1, r2, r3, h1, h2, h3, h4⟩ := codecShuffleProof_dec_eq_some_iff.1 h
    exact ⟨hT.dec_valid _ _ _ h1, hS.dec_valid _ _ _ h2, hL.dec_valid _ _ _ h3,
      hL.dec_valid _ _ _ h4⟩

/-! ### the componentwise `Valid` predicates -/

/-- a vector on the wire: every item valid, fewer than `2^32` items -/
def VecValid {α : Type} (V : α → Prop) (xs : List α) : Prop := (∀ x ∈ xs, V x) ∧ xs.length < 2 ^ 32

def CtValid (VE : E → Prop) (c : Ciphertext E) : Prop := VE c.mhr ∧ VE c.gr

def SchnorrValid (VE : E → Prop) (VX : X → Prop) (p : Schnorr E X) : Prop :=
  VE p.commitment ∧ VX p.challenge ∧ VX p.response

def CPValid (VE : E → Prop) (VX : X → Prop) (p : ChaumPedersen E X) : Prop :=
  VE p.commitment1 ∧ VE p.commitment2 ∧ VX p.challenge ∧ VX p.response

def CommitmentsValid (VE : E → Prop) (t : Commitments E) : Prop :=
  VE t.t1 ∧ VE t.t2 ∧ VE t.t3 ∧ VE t.t4_1 ∧ VE t.t4_2 ∧ VecValid VE t.tHats

def ResponsesValid (VX : X → Prop) (s : Responses X) : Prop :=
  VX s.s1 ∧ VX s.s2 ∧ VX s.s3 ∧ VX s.s4 ∧ VecValid VX s.sHats ∧ VecValid VX s.sPrimes

def ShuffleProofValid (VE : E → Prop) (VX : X → Prop) (p : ShuffleProof E X) : Prop :=
  CommitmentsValid VE p.t ∧ ResponsesValid VX p.s ∧ VecValid VE p.cs ∧ VecValid VE p.cHats

/-- `Commitments`: five valid elements and a valid vector of elements -/
theorem codecCommitments_lawful (hE : LawfulCodec o.codecE VE)
    (bE : ∀ a, VE a → (o.codecE.enc a).length < 2 ^ 32) :
    LawfulCodec (codecCommitments o) (CommitmentsValid VE) :=
  codecCommitments_lawful' hE (vecE_lawful hE bE)

/-- `Responses`: four valid exponents and two valid vectors of exponents -/
theorem codecResponses_lawful (hX : LawfulCodec o.codecX VX)
    (bX : ∀ x, VX x → (o.codecX.enc x).length < 2 ^ 32) :
    LawfulCodec (codecResponses o) (ResponsesValid VX) :=
  codecResponses_lawful' hX (vecX_lawful hX bX)

/-- `ShuffleProof` -/
theorem codecShuffleProof_lawful (hE : LawfulCodec o.codecE VE) (hX : LawfulCodec o.codecX VX)
    (bE : ∀ a, VE a → (o.codecE.enc a).length < 2 ^ 32)
    (bX : ∀ x, VX x → (o.codecX.enc x).length < 2 ^ 32) :
    LawfulCodec (codecShuffleProof o) (ShuffleProofValid VE VX) :=
  codecShuffleProof_lawful' (codecCommitments_lawful hE bE) (codecResponses_lawful hX bX)
    (vecE_lawful hE bE)

/-! ### monotonicity of the `Valid` predicates -/

theorem VecValid.mono {α : Type} {V V' : α → Prop} (hv : ∀ a, V a → V' a) {xs : List α}
    (h : VecValid V xs) : VecValid V' xs :=
  ⟨fun x hx => hv x (h.1 x hx), h.2⟩

theorem CtValid.mono {VE VE' : E → Prop} (hv : ∀ a, VE a → VE' a) {c : Ciphertext E}
    (h : CtValid VE c) : CtValid VE' c :=
  ⟨hv _ h.1, hv _ h.2⟩

theorem SchnorrValid.mono {VE VE' : E → Prop} {VX VX' : X → Prop} (hv : ∀ a, VE a → VE' a)
    (hx : ∀ a, VX a → VX' a) {p : Schnorr E X} (h : SchnorrValid VE VX p) :
    SchnorrValid VE' VX' p :=
  ⟨hv _ h.1, hx _ h.2.1, hx _ h.2.2⟩

theorem CPValid.mono {VE VE' : E → Prop} {VX VX' : X → Prop} (hv : ∀ a, VE a → VE' a)
    (hx : ∀ a, VX a → VX' a) {p : ChaumPedersen E X} (h : CPValid VE VX p) :
    CPValid VE' VX' p :=
  ⟨hv _ h.1, hv _ h.2.1, hx _ h.2.2.1, hx _ h.2.2.2⟩

theorem CommitmentsValid.mono {VE VE' : E → Prop} (hv : ∀ a, VE a → VE' a) {t : Commitments E}
    (h : CommitmentsValid VE t) : CommitmentsValid VE' t :=
  ⟨hv _ h.1, hv _ h.2.1, hv _ h.2.2.1, hv _ h.2.2.2.1, hv _ h.2.2.2.2.1, h.2.2.2.2.2.mono hv⟩

theorem ResponsesValid.mono {VX VX' : X → Prop} (hx : ∀ a, VX a → VX' a) {s : Responses X}
    (h : ResponsesValid VX s) : ResponsesValid VX' s :=
  ⟨hx _ h.1, hx _ h.2.1, hx _ h.2.2.1, hx _ h.2.2.2.1, h.2.2.2.2.1.mono hx, h.2.2.2.2.2.mono hx⟩

theorem ShuffleProofValid.mono {VE VE' : E → Prop} {VX VX' : X → Prop} (hv : ∀ a, VE a → VE' a)
    (hx : ∀ a, VX a → VX' a) {p : ShuffleProof E X} (h : ShuffleProofValid VE VX p) :
    ShuffleProofValid VE' VX' p :=
  ⟨h.1.mono hv, h.2.1.mono hx, h.2.2.1.mono hv, h.2.2.2.mono hv⟩

/-! ### what decodes is valid, with NO bound on encoding lengths

`nested c` is not lawful without a length bound (`nested_not_lawful_in_general`), but the
"decodes only if every component does" direction needs none. -/

theorem nested_dec_vecValid {α : Type} {c : Codec α} {V : α → Prop} (h : LawfulCodec c V)
    {bs : Bytes} {xs : List α} {r : Bytes} (hd : (nested c).dec bs = some (xs, r)) :
    VecValid V xs :=
  ⟨fun x hx => ((nested_dec_valid_weak h hd).1 x hx).1, (nested_dec_valid_weak h hd).2⟩

theorem codecCommitments_dec_valid (hE : LawfulCodec o.codecE VE) {bs : Bytes}
    {t : Commitments E} {r : Bytes} (hd : (codecCommitments o).dec bs = some (t, r)) :
    CommitmentsValid VE t := by
  obtain ⟨r5, h1, h2⟩ := codecCommitments_dec_eq_some_iff.1 hd
  obtain ⟨r1, r2, r3, r4, e1, e2, e3, e4, e5⟩ := decE5_eq_some_iff.1 h1
  exact ⟨hE.dec_valid _ _ _ e1, hE.dec_valid _ _ _ e2, hE.dec_valid _ _ _ e3,
    hE.dec_valid _ _ _ e4, hE.dec_valid _ _ _ e5, nested_dec_vecValid hE h2⟩

theorem codecResponses_dec_valid (hX : LawfulCodec o.codecX VX) {bs : Bytes}
    {s : Responses X} {r : Bytes} (hd : (codecResponses o).dec bs = some (s, r)) :
    ResponsesValid VX s := by
  obtain ⟨r4, r5, h1, h2, h3⟩ := codecResponses_dec_eq_some_iff.1 hd
  obtain ⟨r1, r2, r3, e1, e2, e3, e4⟩ := decX4_eq_some_iff.1 h1
  exact ⟨hX.dec_valid _ _ _ e1, hX.dec_valid _ _ _ e2, hX.dec_valid _ _ _ e3,
    hX.dec_valid _ _ _ e4, nested_dec_vecValid hX h2, nested_dec_vecValid hX h3⟩

theorem codecShuffleProof_dec_valid (hE : LawfulCodec o.codecE VE) (hX : LawfulCodec o.codecX VX)
    {bs : Bytes} {p : ShuffleProof E X} {r : Bytes}
    (hd : (codecShuffleProof o).dec bs = some (p, r)) : ShuffleProofValid VE VX p := by
  obtain ⟨r1, r2, r3, h1, h2, h3, h4⟩ := codecShuffleProof_dec_eq_some_iff.1 hd
  exact ⟨codecCommitments_dec_valid hE h1, codecResponses_dec_valid hX h2,
    nested_dec_vecValid hE h3, nested_dec_vecValid hE h4⟩

end Generic

/-! ### the `Nat` back-end -/

/-- a canonical non-zero member of the order-`q` subgroup: `a ∈ [1, p)` and `a ^ q = 1 (mod p)` -/
def NatMember (P : Params) (a : ℕ) : Prop := natValid P a ∧ 1 ≤ a ∧ a < P.p

instance (P : Params) (a : ℕ) : Decidable (NatMember P a) := by
  unfold NatMember; infer_instance

theorem natMember_iff_pow (P : Params) (hp : P.p = 2 * P.q + 1) (a : ℕ) :
    NatMember P a ↔ 1 ≤ a ∧ a < P.p ∧ a ^ P.q % P.p = 1 := by
  unfold NatMember
  constructor
  · rintro ⟨h1, h2, h3⟩; exact ⟨h2, h3, (natValid_iff_pow P (by omega) a).1 h1⟩
  · rintro ⟨h2, h3, h1⟩; exact ⟨natValid_of_pow P a h1, h2, h3⟩

/-- the members are exactly what the element decoder accepts -/
theorem natMember_iff_accepts (P : Params) (hp : P.p = 2 * P.q + 1) (a : ℕ) :
    NatMember P a ↔ ∃ e, Nat'.elementFromNat P a = some e := by
  rw [natMember_iff_pow P hp]
  constructor
  · intro h; exact ⟨a, (elementFromNat_eq_some_iff P hp a a).2 ⟨rfl, h⟩⟩
  · rintro ⟨e, he⟩; exact ((elementFromNat_eq_some_iff P hp a e).1 he).2

/-- the group fits in `k` bytes, and four `k`-byte numbers with their length prefixes (the longest
    item of a strand vector, a Chaum-Pedersen proof) are shorter than `2^32` bytes
    (for the 2048-bit groups: `k = 256`) -/
structure WireSize (P : Params) (k : ℕ) : Prop where
  k_pos : 0 < k
  k_small : 4 * (4 + k) < 2 ^ 32
  p_le : P.p ≤ 256 ^ k
  q_le : P.q ≤ 256 ^ k

theorem WireSize.of_p {P : Params} {k : ℕ} (hp : P.p = 2 * P.q + 1) (hk : 0 < k)
    (hk32 : 4 * (4 + k) < 2 ^ 32) (hle : P.p ≤ 256 ^ k) : WireSize P k :=
  ⟨hk, hk32, hle, by omega⟩

section NatWire
set_option linter.unusedSectionVars false
variable (P : Params) (fl : Flavour) {k : ℕ} (hp : P.p = 2 * P.q + 1) (W : WireSize P k)
include hp W

/-- elements (`= PublicKey`) -/
theorem natE_lawful : LawfulCodec (natCodecE P fl) (NatMember P) :=
  (natCodecE_lawful_of_bound P fl W.k_pos (by have := W.k_small; omega) W.p_le).congr
    (fun a => (natMember_iff_accepts P hp a).symm)

/-- exponents -/
theorem natX_lawful : LawfulCodec (natCodecX P fl) (fun x => x < P.q) :=
  natCodecX_lawful_of_bound P fl W.k_pos (by have := W.k_small; omega) W.q_le

theorem natE_enc_le {a : ℕ} (ha : NatMember P a) : ((natCodecE P fl).enc a).length ≤ 4 + k :=
  natCodecE_enc_length_le P fl W.k_pos W.p_le ((natMember_iff_accepts P hp a).1 ha)

theorem natX_enc_le {x : ℕ} (hx : x < P.q) : ((natCodecX P fl).enc x).length ≤ 4 + k :=
  natCodecX_enc_length_le P fl W.k_pos W.q_le hx

theorem natE_enc_lt (a : ℕ) (ha : NatMember P a) : ((natCodecE P fl).enc a).length < 2 ^ 32 := by
  have := natE_enc_le P fl hp W ha
  have := W.k_small
  omega

theorem natX_enc_lt (x : ℕ) (hx : x < P.q) : ((natCodecX P fl).enc x).length < 2 ^ 32 := by
  have := natX_enc_le P fl hp W hx
  have := W.k_small
  omega

/-- `Ciphertext` -/
theorem natCt_lawful' : LawfulCodec (codecCt (natOps P fl)) (CtValid (NatMember P)) :=
  codecCt_lawful (o := natOps P fl) (natE_lawful P fl hp W)

theorem natCt_enc_lt (c : Ciphertext ℕ) (hc : CtValid (NatMember P) c) :
    ((codecCt (natOps P fl)).enc c).length < 2 ^ 32 := by
  rw [codecCt_enc_length]
  have := natE_enc_le P fl hp W hc.1
  have := natE_enc_le P fl hp W hc.2
  have := W.k_small
  show ((natCodecE P fl).enc c.mhr).length + ((natCodecE P fl).enc c.gr).length < 2 ^ 32
  omega

/-- `PublicKey` -/
theorem natPk_lawful : LawfulCodec (codecPk (natOps P fl)) (NatMember P) :=
  codecPk_lawful (o := natOps P fl) (natE_lawful P fl hp W)

/-- `PrivateKey` = (exponent, public element) -/
theorem natSk_lawful :
    LawfulCodec (codecSk (natOps P fl)) (fun s => s.1 < P.q ∧ NatMember P s.2) :=
  codecSk_lawful (o := natOps P fl) (natE_lawful P fl hp W) (natX_lawful P fl hp W)

/-- `Schnorr` -/
theorem natSchnorr_lawful :
    LawfulCodec (codecSchnorr (natOps P fl)) (SchnorrValid (NatMember P) (fun x => x < P.q)) :=
  codecSchnorr_lawful (o := natOps P fl) (natE_lawful P fl hp W) (natX_lawful P fl hp W)

/-- `ChaumPedersen` -/
theorem natCP_lawful :
    LawfulCodec (codecCP (natOps P fl)) (CPValid (NatMember P) (fun x => x < P.q)) :=
  codecCP_lawful (o := natOps P fl) (natE_lawful P fl hp W) (natX_lawful P fl hp W)

/-- `StrandVector<Element>` -/
theorem natVecE_lawful : LawfulCodec (vecE (natOps P fl)) (VecValid (NatMember P)) :=
  vecE_lawful (o := natOps P fl) (natE_lawful P fl hp W) (natE_enc_lt P fl hp W)

/-- `StrandVector<Exponent>` -/
theorem natVecX_lawful : LawfulCodec (vecX (natOps P fl)) (VecValid (fun x => x < P.q)) :=
  vecX_lawful (o := natOps P fl) (natX_lawful P fl hp W) (natX_enc_lt P fl hp W)

/-- `StrandVector<Ciphertext>` -/
theorem natVecC_lawful :
    LawfulCodec (vecC (natOps P fl)) (VecValid (CtValid (NatMember P))) :=
  vecC_lawful (o := natOps P fl) (natE_lawful P fl hp W) (natCt_enc_lt P fl hp W)

/-- `StrandVector<ChaumPedersen>` -/
theorem natVecCP_lawful :
    LawfulCodec (nested (codecCP (natOps P fl)))
      (VecValid (CPValid (NatMember P) (fun x => x < P.q))) := by
  refine nested_lawful_of_enc_bound (natCP_lawful P fl hp W) ?_
  rintro pf ⟨h1, h2, h3, h4⟩
  have l1 := natE_enc_le P fl hp W h1
  have l2 := natE_enc_le P fl hp W h2
  have l3 := natX_enc_le P fl hp W h3
  have l4 := natX_enc_le P fl hp W h4
  have := W.k_small
  show ((natCodecE P fl).enc pf.commitment1 ++ (natCodecE P fl).enc pf.commitment2 ++
    (natCodecX P fl).enc pf.challenge ++ (natCodecX P fl).enc pf.response).length < 2 ^ 32
  simp only [List.length_append]
  omega

/-- plain borsh `Vec<Element>` -/
theorem natPlainVecE_lawful :
    LawfulCodec (vecOf (natOps P fl).codecE) (VecValid (NatMember P)) :=
  vecOf_lawful (natE_lawful P fl hp W)

/-- plain borsh `Vec<Ciphertext>` -/
theorem natPlainVecCt_lawful :
    LawfulCodec (vecOf (codecCt (natOps P fl))) (VecValid (CtValid (NatMember P))) :=
  vecOf_lawful (natCt_lawful' P fl hp W)

/-- `Commitments` -/
theorem natCommitments_lawful :
    LawfulCodec (codecCommitments (natOps P fl)) (CommitmentsValid (NatMember P)) :=
  codecCommitments_lawful (o := natOps P fl) (natE_lawful P fl hp W) (natE_enc_lt P fl hp W)

/-- `Responses` -/
theorem natResponses_lawful :
    LawfulCodec (codecResponses (natOps P fl)) (ResponsesValid (fun x => x < P.q)) :=
  codecResponses_lawful (o := natOps P fl) (natX_lawful P fl hp W) (natX_enc_lt P fl hp W)

/-- `ShuffleProof` -/
theorem natShuffleProof_lawful :
    LawfulCodec (codecShuffleProof (natOps P fl))
      (ShuffleProofValid (NatMember P) (fun x => x < P.q)) :=
  codecShuffleProof_lawful (o := natOps P fl) (natE_lawful P fl hp W) (natX_lawful P fl hp W)
    (natE_enc_lt P fl hp W) (natX_enc_lt P fl hp W)

end NatWire

/-! ### plaintexts of the `Nat` back-end -/

theorem flatMap_u16le_length (ds : Bytes) :
    (ds.flatMap fun d => u16le d.toNat).length = 2 * ds.length := by
  induction ds with
  | nil => rfl
  | cons d ds ih =>
    simp only [List.flatMap_cons, List.length_append, u16le_length, ih, List.length_cons]
    omega

theorem natCodecP_enc_length (fl : Flavour) (m : ℕ) :
    ((natCodecP fl).enc m).length =
      4 + (match fl with | .bigint => 1 | .malachite => 2) * (natToBytes fl m).length := by
  cases fl
  · show (encBytesVec (natToLE m)).length = _
    rw [encBytesVec_length]
    simp only [natToBytes]
    omega
  · show (u32le (natToBE m).length ++ (natToBE m).flatMap fun d => u16le d.toNat).length = _
    rw [List.length_append, u32le_length, flatMap_u16le_length]
    simp only [natToBytes]

/-- a plaintext below `256^k` has an encoding of at most `4 + 2k` bytes -/
theorem natCodecP_enc_le (fl : Flavour) {m k : ℕ} (hk : 0 < k) (hm : m < 256 ^ k) :
    (natToBytes fl m).length ≤ k ∧ ((natCodecP fl).enc m).length ≤ 4 + 2 * k := by
  have h1 := natToBytes_length_le fl m k hk hm
  refine ⟨h1, ?_⟩
  rw [natCodecP_enc_length]
  cases fl <;> simp only <;> omega

/-- plaintexts below `256^k`: the two laws behind round trip / injectivity / strictness -/
theorem natP_preLawful (fl : Flavour) {k : ℕ} (hk : 0 < k) (hk32 : 2 * (4 + k) < 2 ^ 32) :
    PreLawfulCodec (natCodecP fl) (fun m => m < 256 ^ k) :=
  (natCodecP_lawful fl).toPre.mono fun m hm => by
    have := (natCodecP_enc_le fl hk hm).1
    omega

/-- `StrandVector<Plaintext>` for plaintexts below `256^k` -/
theorem natVecP_preLawful (fl : Flavour) {k : ℕ} (hk : 0 < k) (hk32 : 2 * (4 + k) < 2 ^ 32) :
    PreLawfulCodec (nested (natCodecP fl)) (VecValid (fun m => m < 256 ^ k)) :=
  (nested_preLawful (natCodecP_lawful fl)).mono fun ms hms =>
    ⟨fun m hm => by
      have h := natCodecP_enc_le fl hk (hms.1 m hm)
      exact ⟨by have := h.1; omega, by have := h.2; omega⟩, hms.2⟩

end Strand
