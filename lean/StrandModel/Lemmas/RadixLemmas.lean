import StrandModel.Model.Radix
import Mathlib.Tactic.Ring
import Mathlib.Tactic.Linarith

/-! Helper lemmas for `Model/Radix.lean`: printing then parsing a number is the identity. -/
namespace Strand

theorem digitVal_digitChar : ∀ d, d < 36 → digitVal (digitChar d) = some d := by decide

theorem digitChar_not_special : ∀ d, d < 36 → digitChar d ≠ 43 ∧ digitChar d ≠ 95 := by decide

theorem digitBelow_digitChar {radix d : Nat} (hr : radix ≤ 36) (hd : d < radix) :
    digitBelow radix (digitChar d) = some d := by
  unfold digitBelow
  rw [digitVal_digitChar d (by omega)]
  simp [hd]

theorem digitsOf_map_digitChar {radix : Nat} (hr : radix ≤ 36) (ds : List Nat)
    (h : ∀ d ∈ ds, d < radix) : digitsOf radix (ds.map digitChar) = some ds := by
  induction ds with
  | nil => rfl
  | cons d ds ih =>
    have h1 := digitBelow_digitChar hr (h d (by simp))
    have h2 := ih (fun x hx => h x (by simp [hx]))
    simp only [List.map_cons, digitsOf, h1, h2]

theorem foldl_digits (radix : Nat) (l : List Nat) (init : Nat) :
    l.foldl (fun acc d => acc * radix + d) init
      = init * radix ^ l.length + l.foldl (fun acc d => acc * radix + d) 0 := by
  induction l generalizing init with
  | nil => simp
  | cons d l ih =>
    simp only [List.foldl_cons, List.length_cons]
    rw [ih (init * radix + d), ih (0 * radix + d)]
    ring

theorem digitsValue_cons (radix d : Nat) (l : List Nat) :
    digitsValue radix (d :: l) = d * radix ^ l.length + digitsValue radix l := by
  unfold digitsValue
  simp only [List.foldl_cons]
  rw [foldl_digits]
  ring_nf

theorem toDigitsAux_value {radix : Nat} (hr : 2 ≤ radix) (fuel n : Nat) (acc : List Nat)
    (hf : n ≤ fuel) :
    digitsValue radix (toDigitsAux radix fuel n acc) = n * radix ^ acc.length + digitsValue radix acc := by
  induction fuel generalizing n acc with
  | zero =>
    have : n = 0 := by omega
    subst this
    simp [toDigitsAux]
  | succ fuel ih =>
    unfold toDigitsAux
    split
    · next h0 => subst h0; simp
    · next h0 =>
      have hlt : n / radix < n := Nat.div_lt_self (by omega) (by omega)
      rw [ih (n / radix) _ (by omega), digitsValue_cons, List.length_cons, pow_succ]
      have := Nat.div_add_mod n radix
      calc n / radix * (radix ^ acc.length * radix) + (n % radix * radix ^ acc.length + digitsValue radix acc)
          = (radix * (n / radix) + n % radix) * radix ^ acc.length + digitsValue radix acc := by ring
        _ = n * radix ^ acc.length + digitsValue radix acc := by rw [this]

theorem toDigitsAux_lt {radix : Nat} (hr : 0 < radix) (fuel n : Nat) (acc : List Nat)
    (h : ∀ d ∈ acc, d < radix) : ∀ d ∈ toDigitsAux radix fuel n acc, d < radix := by
  induction fuel generalizing n acc with
  | zero => simpa [toDigitsAux] using h
  | succ fuel ih =>
    unfold toDigitsAux
    split
    · exact h
    · apply ih
      intro d hd
      rcases List.mem_cons.1 hd with rfl | hd
      · exact Nat.mod_lt _ hr
      · exact h d hd

theorem toDigitsAux_ne_nil {radix : Nat} (fuel n : Nat) (acc : List Nat)
    (h : acc ≠ [] ∨ (n ≠ 0 ∧ fuel ≠ 0)) : toDigitsAux radix fuel n acc ≠ [] := by
  induction fuel generalizing n acc with
  | zero =>
    rcases h with h | ⟨_, h⟩
    · simpa [toDigitsAux] using h
    · exact absurd rfl h
  | succ fuel ih =>
    unfold toDigitsAux
    split
    · next h0 =>
      rcases h with h | ⟨h, _⟩
      · exact h
      · exact absurd h0 h
    · exact ih _ _ (Or.inl (by simp))

/-- the printed string: non-empty, and every character is `digitChar d` for a digit below the radix -/
theorem toRadix_shape {radix : Nat} (hr : 2 ≤ radix) (n : Nat) :
    ∃ ds : List Nat, ds ≠ [] ∧ (∀ d ∈ ds, d < radix) ∧ toRadix radix n = ds.map digitChar ∧
      digitsValue radix ds = n := by
  unfold toRadix
  split
  · next h0 =>
    subst h0
    exact ⟨[0], by simp, by simp; omega, by decide, by simp [digitsValue]⟩
  · next h0 =>
    refine ⟨toDigitsAux radix n n [], toDigitsAux_ne_nil _ _ _ (Or.inr ⟨h0, h0⟩),
      toDigitsAux_lt (by omega) _ _ _ (by simp), rfl, ?_⟩
    rw [toDigitsAux_value hr n n [] (le_refl _)]
    simp [digitsValue]

theorem parseStrict_toRadix {radix : Nat} (hr : 2 ≤ radix) (hr2 : radix ≤ 36) (n : Nat) :
    parseStrict radix (toRadix radix n) = some n := by
  obtain ⟨ds, hne, hlt, hs, hv⟩ := toRadix_shape hr n
  unfold parseStrict
  rw [hs, if_neg (by simpa using hne), digitsOf_map_digitChar hr2 ds hlt]
  simp [hv]

theorem parseBigint_toRadix {radix : Nat} (hr : 2 ≤ radix) (hr2 : radix ≤ 36) (n : Nat) :
    parseBigint radix (toRadix radix n) = some n := by
  obtain ⟨ds, hne, hlt, hs, hv⟩ := toRadix_shape hr n
  have hsp : ∀ c ∈ ds.map digitChar, c ≠ 43 ∧ c ≠ 95 := by
    intro c hc
    obtain ⟨d, hd, rfl⟩ := List.mem_map.1 hc
    exact digitChar_not_special d (by have := hlt d hd; omega)
  rw [hs]
  obtain ⟨d, ds', rfl⟩ := List.exists_cons_of_ne_nil hne
  have hc := hsp (digitChar d) (by simp)
  have hfilter : (List.map digitChar (d :: ds')).filter (· ≠ 95) = List.map digitChar (d :: ds') := by
    rw [List.filter_eq_self]
    intro c hc'
    simpa using (hsp c hc').2
  have hstrip : stripPlus (List.map digitChar (d :: ds')) = List.map digitChar (d :: ds') := by
    simp only [List.map_cons]
    unfold stripPlus
    split
    · next heq => simp only [List.cons.injEq] at heq; exact absurd heq.1 hc.1
    · next heq => simp only [List.cons.injEq] at heq; exact absurd heq.1 hc.1
    · rfl
  unfold parseBigint
  simp only [hstrip, hfilter]
  rw [if_neg (by simp), if_neg (by simpa using hc.2), digitsOf_map_digitChar hr2 _ hlt]
  simp [hv]

theorem parseRadix_toRadix (fl : Flavour) {radix : Nat} (hr : 2 ≤ radix) (hr2 : radix ≤ 36) (n : Nat) :
    parseRadix fl radix (toRadix radix n) = some n := by
  cases fl
  · exact parseBigint_toRadix hr hr2 n
  · exact parseStrict_toRadix hr hr2 n

/-- printing is injective (distinct numbers print differently) -/
theorem toRadix_injective {radix : Nat} (hr : 2 ≤ radix) (hr2 : radix ≤ 36) {a b : Nat}
    (h : toRadix radix a = toRadix radix b) : a = b := by
  have ha := parseStrict_toRadix hr hr2 a
  rw [h, parseStrict_toRadix hr hr2 b] at ha
  exact (Option.some.inj ha).symm

end Strand
