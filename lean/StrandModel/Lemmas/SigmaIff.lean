import Mathlib.Algebra.Field.ZMod
import Mathlib.Algebra.Module.Torsion.Field
import StrandModel.Lemmas.Lawful
/-
The verifiers of the two sigma protocols, characterised: a Schnorr / Chaum-Pedersen proof is
accepted iff its challenge is the hash of the transcript and the verification equation(s) hold
in the group.  From the algebraic part: special soundness (two accepting transcripts with
the same commitments and different challenges yield the witness), for a prime group order.
Shared by C06 and C07.
-/
set_option linter.unusedSectionVars false
namespace Strand
variable {E X : Type} [DecidableEq E] [DecidableEq X] {o : Ops E X} {q : ℕ} {A : Type}
  [AddCommGroup A] [Module (ZMod q) A]

namespace Lawful
variable (L : Lawful o q A)

theorem valid_of_baseOr {g : Option E} (hb : L.valid (baseOr o g)) :
    ∀ b, g = some b → L.valid b := by
  intro b h; subst h; exact hb

/-- the group equation checked by the verifiers, `base^z = t * y^c`, in denotations -/
theorem verify_eq_iff {g : Option E} {t y : E} {z c : X} (hb : L.valid (baseOr o g))
    (ht : L.valid t) (hy : L.valid y) :
    powBase o g z = o.modp (o.mul t (o.emodPow y c)) ↔
      L.dx z • L.den (baseOr o g) = L.den t + L.dx c • L.den y := by
  have hg := L.valid_of_baseOr hb
  have hyc := L.emodPow_valid c hy
  rw [L.eq_iff ⟨L.powBase_valid g hg z, L.powBase_canon g hg z⟩ (L.modp_mul_V ht hyc),
    L.powBase_den g hg, L.modp_mul_den ht hyc, L.emodPow_den _ hy]

theorem verify_eq_iff' {g t y : E} {z c : X} (hg : L.valid g) (ht : L.valid t)
    (hy : L.valid y) :
    o.emodPow g z = o.modp (o.mul t (o.emodPow y c)) ↔
      L.dx z • L.den g = L.den t + L.dx c • L.den y :=
  L.verify_eq_iff (g := some g) hg ht hy

end Lawful

variable (L : Lawful o q A)

/-- `schnorr_verify_private` accepts iff the challenge is the transcript hash and
    `base^response = commitment * public^challenge` holds in the group -/
theorem schnorr_verify_iff {y : E} {g : Option E} {pf : Schnorr E X} (ctx : Bytes)
    (hb : L.valid (baseOr o g)) (hy : L.valid y) (ht : L.valid pf.commitment) :
    schnorrVerifyCtx o y g pf ctx = true ↔
      pf.challenge = schnorrChallenge o (baseOr o g) y pf.commitment ctx ∧
      L.dx pf.response • L.den (baseOr o g)
        = L.den pf.commitment + L.dx pf.challenge • L.den y := by
  unfold schnorrVerifyCtx
  simp only [Bool.and_eq_true, decide_eq_true_eq]
  rw [L.verify_eq_iff hb ht hy]
  exact and_congr_left' eq_comm

/-- `cp_verify_private` accepts iff the challenge is the transcript hash and both
    verification equations hold in the group -/
theorem cp_verify_iff {y1 y2 g2 : E} {g1 : Option E} {pf : ChaumPedersen E X} (ctx : Bytes)
    (hb : L.valid (baseOr o g1)) (hg2 : L.valid g2) (hy1 : L.valid y1) (hy2 : L.valid y2)
    (ht1 : L.valid pf.commitment1) (ht2 : L.valid pf.commitment2) :
    cpVerifyCtx o y1 y2 g1 g2 pf ctx = true ↔
      pf.challenge = cpChallenge o (baseOr o g1) g2 y1 y2 pf.commitment1 pf.commitment2 ctx ∧
      L.dx pf.response • L.den (baseOr o g1)
        = L.den pf.commitment1 + L.dx pf.challenge • L.den y1 ∧
      L.dx pf.response • L.den g2 = L.den pf.commitment2 + L.dx pf.challenge • L.den y2 := by
  unfold cpVerifyCtx
  simp only [Bool.and_eq_true, decide_eq_true_eq]
  rw [L.verify_eq_iff hb ht1 hy1, L.verify_eq_iff' hg2 ht2 hy2, and_assoc]
  exact and_congr_left' eq_comm

/-- a proof whose challenge is not the hash of the transcript it is checked against is
    rejected (whatever the rest of it is) -/
theorem schnorr_rejects_of_challenge_ne {y : E} {g : Option E} {pf : Schnorr E X} (ctx : Bytes)
    (h : schnorrChallenge o (baseOr o g) y pf.commitment ctx ≠ pf.challenge) :
    schnorrVerifyCtx o y g pf ctx = false := by
  unfold schnorrVerifyCtx
  simp [h]

theorem cp_rejects_of_challenge_ne {y1 y2 g2 : E} {g1 : Option E} {pf : ChaumPedersen E X}
    (ctx : Bytes)
    (h : cpChallenge o (baseOr o g1) g2 y1 y2 pf.commitment1 pf.commitment2 ctx ≠ pf.challenge) :
    cpVerifyCtx o y1 y2 g1 g2 pf ctx = false := by
  unfold cpVerifyCtx
  simp [h]

/-! ### special soundness (prime group order) -/
section sound
variable [Fact q.Prime]

/-- the extractor: two accepting equations with the same commitment and different challenges -/
theorem extract {b t y : A} {z z' c c' : ZMod q} (hc : c ≠ c')
    (h : z • b = t + c • y) (h' : z' • b = t + c' • y) :
    y = ((c - c')⁻¹ * (z - z')) • b := by
  have hne : c - c' ≠ 0 := sub_ne_zero.mpr hc
  have hd : (c - c') • y = (z - z') • b := by
    rw [sub_smul, sub_smul, h, h']; abel
  rw [mul_smul, ← hd, inv_smul_smul₀ hne]

/-- Schnorr: two accepted proofs with the same commitment and different challenges give the
    discrete logarithm of the public value -/
theorem schnorr_special_sound_alg {b t y : A} {z z' c c' : ZMod q} (hc : c ≠ c')
    (h : z • b = t + c • y) (h' : z' • b = t + c' • y) : ∃ w : ZMod q, y = w • b :=
  ⟨_, extract hc h h'⟩

/-- Chaum-Pedersen: ... give ONE exponent `w` with `y1 = base1^w` and `y2 = g2^w` -/
theorem cp_special_sound_alg {b1 b2 t1 t2 y1 y2 : A} {z z' c c' : ZMod q} (hc : c ≠ c')
    (h1 : z • b1 = t1 + c • y1) (h1' : z' • b1 = t1 + c' • y1)
    (h2 : z • b2 = t2 + c • y2) (h2' : z' • b2 = t2 + c' • y2) :
    ∃ w : ZMod q, y1 = w • b1 ∧ y2 = w • b2 :=
  ⟨_, extract hc h1 h1', extract hc h2 h2'⟩

/-- `w • a = w' • a` and `a ≠ 0` force `w = w'` (prime order) -/
theorem smul_left_cancel_of_ne_zero {a : A} {w w' : ZMod q} (ha : a ≠ 0) (h : w • a = w' • a) :
    w = w' := by
  have h0 : (w - w') • a = 0 := by rw [sub_smul, h, sub_self]
  rcases smul_eq_zero.mp h0 with h | h
  · exact sub_eq_zero.mp h
  · exact absurd h ha

end sound
end Strand
