import StrandModel.Model.Bytes
/-
base64 0.21 `general_purpose::STANDARD_NO_PAD` : the RFC 4648 standard alphabet, no padding
on encode; on decode padding is REJECTED (`DecodePaddingMode::RequireNone`) and so are
non-zero trailing bits (`decode_allow_trailing_bits = false`).  Core Lean only.

Acceptance rule of `decode` (engine/general_purpose/decode.rs, decode_suffix.rs):
  * every input byte must be a symbol of the alphabet ('=' is not: wherever it occurs the
    decoder answers `InvalidByte` or `InvalidPadding`);
  * `len % 4 = 1` is `InvalidLength` (the check is on `len % 8 ∈ {1, 5}`);
  * with `len % 4 = 2` the last symbol's low 4 bits, with `len % 4 = 3` its low 2 bits must
    be zero (`InvalidLastSymbol`);
  * everything else decodes.  Only acceptance and the decoded bytes are modelled, not which
    `DecodeError` is returned (strand maps all of them to `StrandError`).
-/
namespace Strand

def b64Alphabet : Array UInt8 :=
  (asciiBytes "ABCDEFGHIJKLMNOPQRSTUVWXYZabcdefghijklmnopqrstuvwxyz0123456789+/").toArray

def b64Sym (n : Nat) : UInt8 := b64Alphabet[n % 64]!

/-- `STANDARD_NO_PAD.encode` (as ASCII bytes) -/
def b64encode : Bytes → Bytes
  | a :: b :: c :: rest =>
    let n := a.toNat * 65536 + b.toNat * 256 + c.toNat
    b64Sym (n / 262144) :: b64Sym (n / 4096) :: b64Sym (n / 64) :: b64Sym n :: b64encode rest
  | [a, b] =>
    let n := a.toNat * 65536 + b.toNat * 256
    [b64Sym (n / 262144), b64Sym (n / 4096), b64Sym (n / 64)]
  | [a] =>
    let n := a.toNat * 65536
    [b64Sym (n / 262144), b64Sym (n / 4096)]
  | [] => []

/-- value of a symbol of the standard alphabet -/
def b64Val (c : UInt8) : Option Nat :=
  let n := c.toNat
  if 65 ≤ n ∧ n ≤ 90 then some (n - 65)
  else if 97 ≤ n ∧ n ≤ 122 then some (n - 71)
  else if 48 ≤ n ∧ n ≤ 57 then some (n + 4)
  else if n = 43 then some 62
  else if n = 47 then some 63
  else none

/-- decode a list of 6-bit values -/
def b64Groups : List Nat → Option Bytes
  | a :: b :: c :: d :: rest =>
    match b64Groups rest with
    | none => none
    | some out =>
      let n := a * 262144 + b * 4096 + c * 64 + d
      some (UInt8.ofNat (n / 65536) :: UInt8.ofNat (n / 256 % 256) :: UInt8.ofNat (n % 256) :: out)
  | [a, b, c] =>
    if c % 4 ≠ 0 then none
    else
      let n := a * 262144 + b * 4096 + c * 64
      some [UInt8.ofNat (n / 65536), UInt8.ofNat (n / 256 % 256)]
  | [a, b] =>
    if b % 16 ≠ 0 then none
    else some [UInt8.ofNat ((a * 262144 + b * 4096) / 65536)]
  | [_] => none
  | [] => some []

/-- `STANDARD_NO_PAD.decode` (`none` = any `DecodeError`) -/
def b64decode (s : Bytes) : Option Bytes :=
  match mapOptB64 s with
  | none => none
  | some vals => b64Groups vals
where
  mapOptB64 : Bytes → Option (List Nat)
    | [] => some []
    | c :: cs => match b64Val c with
      | none => none
      | some v => match mapOptB64 cs with
        | none => none
        | some vs => some (v :: vs)

end Strand
