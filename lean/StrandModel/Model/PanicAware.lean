import StrandModel.Model.Shuffle
import StrandModel.Model.Keymaker
import StrandModel.Model.NatBackend
import StrandModel.Model.Res
/-
The panic-aware layer of the model (property C13).  `Res α = Except Fail α`:
`.ok a` = the Rust returns normally (`Ok(a)` / `a`), `.error .err` = it returns `Err(..)`,
`.error .panic` = it panics.  Every definition mirrors, IN SOURCE ORDER, the places where the
Rust of the multiplicative back-ends (`backend/num_bigint.rs`, `backend/malachite.rs`) and of the
verifiers can panic on untrusted data:

* `BigUint::legendre` (num-modular 0.5.1) = `checked_legendre(..).expect("n shoud be a prime")`,
  where `checked_legendre` computes `r = self^((n-1)/2) mod n` and answers `Some(0)`, `Some(1)`,
  `Some(-1)` for `r = 0`, `r = 1`, `r + 1 = n` and `None` otherwise: a PANIC for any other
  residue (possible only for a composite modulus).  `Natural::legendre_symbol` (malachite 0.3.2)
  is a Jacobi-symbol routine: it asserts that the modulus is non-zero and odd and cannot panic
  otherwise.
* `invm` (num-modular) returns `None` iff `gcd(a mod m, m) ≠ 1`; `mod_inverse` (malachite)
  asserts `a ≠ 0 ∧ a < m` and returns `None` iff `gcd(a, m) ≠ 1`; strand `expect`s both.
* `BigUint` / `Natural` subtraction panics on underflow.
* slice indexing, `&v[1..]`, `assert!`, `assert_eq!`.

Values are the ones of the pure model (`Nat'.invp`, `euler`, …), which are the values of the
Rust for a prime modulus.  The sigma-protocol verifiers (`schnorr_verify`, `cp_verify`,
`verify_decryption`, `encryption_popk_verify`) contain NO panic source (only `mod_pow`, `mul`,
`modp`, hashing and `eq`; the one `expect("impossible")` is guarded by `is_err()`), so their
`Res` form is `.ok` of the pure verifier and is not repeated here.
Core Lean only.
-/
namespace Strand

/-! ### generic helpers -/

/-- `Option` as `Result`: `None ↦ Err` -/
def optR {α : Type} : Option α → Res α
  | some a => .ok a
  | none => .error .err

/-- `l[i]` : out of bounds is a panic -/
def idxR {α : Type} (l : List α) (i : Nat) : Res α :=
  match l[i]? with
  | some a => .ok a
  | none => .error .panic

/-- `l[n - 1]` on `usize`: the subtraction underflows for `n = 0` (debug: overflow panic;
    release: wraps to `usize::MAX`, out of bounds) -/
def idxPredR {α : Type} (l : List α) (n : Nat) : Res α :=
  if n = 0 then .error .panic else idxR l (n - 1)

/-- sequential map that stops at the first failure -/
def mapR {α β : Type} (f : α → Res β) : List α → Res (List β)
  | [] => .ok []
  | a :: as => match f a with
    | .error e => .error e
    | .ok b => match mapR f as with
      | .error e => .error e
      | .ok bs => .ok (b :: bs)

/-- the accesses `l[0], …, l[n-1]` of a `for i in 0..n` loop -/
def takeR {α : Type} (l : List α) (n : Nat) : Res (List α) := mapR (idxR l) (List.range n)

/-! ### Legendre symbol, element / exponent / plaintext conversion -/

/-- `a.legendre(p)` (num-bigint flavour) / `a.legendre_symbol(p)` (malachite flavour), returned
    as the Euler value `a^((p-1)/2) mod p ∈ {0, 1, p-1}` (the Rust `-1` is `p-1` here).
    bigint: `n - 1` underflows / `modpow` refuses a zero modulus for `p = 0`; any residue other
    than `0, 1, p-1` hits the `expect`.  malachite: asserts `p ≠ 0` and `p` odd; for an odd prime
    `p` (the only case in which the pure model is used) Jacobi = Euler. -/
def legendreR (fl : Flavour) (a p : Nat) : Res Nat :=
  let r := euler a p
  match fl with
  | .bigint =>
    if p = 0 then .error .panic
    else if r = 0 ∨ r = 1 ∨ r + 1 = p then .ok r
    else .error .panic
  | .malachite =>
    if p = 0 ∨ p % 2 = 0 then .error .panic else .ok r

/-- `element_from_biguint` / `element_from_natural`: range test first, then the symbol -/
def elementFromNatR (P : Params) (fl : Flavour) (n : Nat) : Res Nat :=
  if n < 1 ∨ n ≥ P.p then .error .err
  else match legendreR fl n P.p with
    | .error e => .error e
    | .ok l => if l ≠ 1 then .error .err else .ok n

/-- `Ctx::element_from_bytes` (`from_bytes_le` / `from_digits_desc(&256, bytes)`: the digits are
    bytes, the `expect("impossible")` there cannot fire) -/
def elementFromBytesR (P : Params) (fl : Flavour) (bs : Bytes) : Res Nat :=
  elementFromNatR P fl (natOfBytes fl bs)

/-- `Ctx::exp_from_bytes`: a comparison only -/
def expFromBytesR (P : Params) (_fl : Flavour) (bs : Bytes) : Res Nat :=
  let n := natOfBytes _fl bs
  if n ≥ P.q then .error .err else .ok n

/-- `Ctx::encode` -/
def encodeR (P : Params) (fl : Flavour) (m : Nat) : Res Nat :=
  if P.q < 1 then .error .panic                       -- `exp_modulus - one` underflows
  else if m ≥ P.q - 1 then .error .err
  else
    let x := m + 1
    match legendreR fl x P.p with
    | .error e => .error e
    | .ok l =>
      if l = 0 then .error .err
      else if l = 1 then .ok (x % P.p)
      else if P.p < x then .error .panic              -- `modulus - notzero` underflows
      else .ok ((P.p - x) % P.p)

/-- `Ctx::decode` (both flavours): `(p - e) - 1` resp. `e - 1` on unsigned big integers -/
def decodeR (P : Params) (e : Nat) : Res Nat :=
  if e > P.q then
    if P.p < e then .error .panic                     -- `modulus - element` underflows
    else if P.p - e < 1 then .error .panic            -- `.. - one` underflows (`e = p`)
    else .ok ((P.p - e) - 1)
  else if e < 1 then .error .panic                    -- `element - one` underflows (`e = 0`)
  else .ok (e - 1)

/-- `Element::inv(modulus)` / `invp`.
    bigint: `(self % m)` then extended Euclid, `None` iff `gcd(a mod p, p) ≠ 1`, `expect`ed.
    malachite: `mod_inverse` asserts `a ≠ 0` and `a < p`, `None` iff `gcd(a, p) ≠ 1`, `expect`ed.
    The value is the pure model's (`a^(p-2) mod p`), the inverse for a prime `p`. -/
def invpR (P : Params) (fl : Flavour) (a : Nat) : Res Nat :=
  match fl with
  | .bigint =>
    if P.p = 0 ∨ Nat.gcd (a % P.p) P.p ≠ 1 then .error .panic else .ok (Nat'.invp P a)
  | .malachite =>
    if a = 0 ∨ a ≥ P.p ∨ Nat.gcd a P.p ≠ 1 then .error .panic else .ok (Nat'.invp P a)

/-- `Element::div(other, modulus)` / `divp`: UNREDUCED product with the inverse -/
def divpR (P : Params) (fl : Flavour) (a b : Nat) : Res Nat :=
  match invpR P fl b with
  | .error e => .error e
  | .ok i => .ok (a * i)

/-- `Exponent::sub` : unsigned subtraction -/
def xsubR (a b : Nat) : Res Nat := if a < b then .error .panic else .ok (a - b)

/-- `exp_sub_mod`: `value - other` if `value > other`, else `value + q - other`
    (underflows iff `other > value + q`, impossible for a reduced `other`) -/
def subModR (P : Params) (a b : Nat) : Res Nat :=
  if a > b then .ok ((a - b) % P.q)
  else if a + P.q < b then .error .panic
  else .ok ((a + P.q - b) % P.q)

/-! ### decoders -/

/-- a decoder in `Res` form: value and unconsumed rest -/
abbrev DecR (α : Type) := Bytes → Res (α × Bytes)

/-- `BorshDeserialize for BigUintE / NaturalE`: `Vec<u8>`, then `element_from_bytes`
    (a panic inside the Legendre symbol propagates) -/
def natCodecER (P : Params) (fl : Flavour) : DecR Nat := fun bs =>
  match decBytesVec bs with
  | none => .error .err
  | some (b, rest) => match elementFromBytesR P fl b with
    | .error e => .error e
    | .ok a => .ok (a, rest)

/-- `BorshDeserialize for BigUintX / NaturalX` -/
def natCodecXR (P : Params) (fl : Flavour) : DecR Nat := fun bs =>
  match decBytesVec bs with
  | none => .error .err
  | some (b, rest) => match expFromBytesR P fl b with
    | .error e => .error e
    | .ok a => .ok (a, rest)

/-- `BorshDeserialize for BigUintP / NaturalP` (repaired, F3: a malachite digit `≥ 256` is
    `Err`) -/
def natCodecPR (fl : Flavour) : DecR Nat := fun bs =>
  match fl with
  | .bigint => match decBytesVec bs with
    | none => .error .err
    | some (b, rest) => .ok (natOfLE b, rest)
  | .malachite => match decU32 bs with
    | none => .error .err
    | some (n, rest) => match decU16s n rest with
      | none => .error .err
      | some (ds, r) =>
        if ds.all (· < 256) then .ok (ds.foldl (fun acc d => acc * 256 + d) 0, r)
        else .error .err

/-- the PINNED plaintext decoder (before the repair of F3):
    `Natural::from_digits_desc(&256u16, digits).expect("impossible")` panics on a digit `≥ 256` -/
def natCodecPR_prefix (fl : Flavour) : DecR Nat := fun bs =>
  match fl with
  | .bigint => match decBytesVec bs with
    | none => .error .err
    | some (b, rest) => .ok (natOfLE b, rest)
  | .malachite => match decU32 bs with
    | none => .error .err
    | some (n, rest) => match decU16s n rest with
      | none => .error .err
      | some (ds, r) =>
        if ds.all (· < 256) then .ok (ds.foldl (fun acc d => acc * 256 + d) 0, r)
        else .error .panic

/-- a pure codec as a `Res` decoder -/
def liftDec {α : Type} (c : Codec α) : DecR α := fun bs => optR (c.dec bs)

/-- `try_from_slice`: trailing bytes are an error -/
def tryFromSliceR {α : Type} (d : DecR α) (bs : Bytes) : Res α :=
  match d bs with
  | .error e => .error e
  | .ok (a, []) => .ok a
  | .ok (_, _ :: _) => .error .err

/-- two consecutive fields -/
def seqR {α β : Type} (a : DecR α) (b : DecR β) : DecR (α × β) := fun bs =>
  match a bs with
  | .error e => .error e
  | .ok (x, r) => match b r with
    | .error e => .error e
    | .ok (y, r') => .ok ((x, y), r')

/-- the `StrandVector*` wrappers: `Vec<Vec<u8>>`, each item decoded with `try_from_slice` -/
def nestedR {α : Type} (d : DecR α) : DecR (List α) := fun bs =>
  match (vecOf bytesVec).dec bs with
  | none => .error .err
  | some (items, rest) => match mapR (tryFromSliceR d) items with
    | .error e => .error e
    | .ok xs => .ok (xs, rest)

/-- `Ciphertext` -/
def ctDecR (dE : DecR Nat) : DecR (Ciphertext Nat) := fun bs =>
  match seqR dE dE bs with
  | .error e => .error e
  | .ok ((a, b), r) => .ok (⟨a, b⟩, r)

/-- `Schnorr` -/
def schnorrDecR (dE dX : DecR Nat) : DecR (Schnorr Nat Nat) := fun bs =>
  match seqR dE (seqR dX dX) bs with
  | .error e => .error e
  | .ok ((t, c, s), r) => .ok (⟨t, c, s⟩, r)

/-- `ChaumPedersen` -/
def cpDecR (dE dX : DecR Nat) : DecR (ChaumPedersen Nat Nat) := fun bs =>
  match seqR dE (seqR dE (seqR dX dX)) bs with
  | .error e => .error e
  | .ok ((t1, t2, c, s), r) => .ok (⟨t1, t2, c, s⟩, r)

/-- `Commitments` -/
def commitmentsDecR (dE : DecR Nat) : DecR (Commitments Nat) := fun bs =>
  match seqR dE (seqR dE (seqR dE (seqR dE (seqR dE (nestedR dE))))) bs with
  | .error e => .error e
  | .ok ((a, b, c, d, e, th), r) => .ok (⟨a, b, c, d, e, th⟩, r)

/-- `Responses` -/
def responsesDecR (dX : DecR Nat) : DecR (Responses Nat) := fun bs =>
  match seqR dX (seqR dX (seqR dX (seqR dX (seqR (nestedR dX) (nestedR dX))))) bs with
  | .error e => .error e
  | .ok ((a, b, c, d, sh, sp), r) => .ok (⟨a, b, c, d, sh, sp⟩, r)

/-- `ShuffleProof` -/
def shuffleProofDecR (dE dX : DecR Nat) : DecR (ShuffleProof Nat Nat) := fun bs =>
  match seqR (commitmentsDecR dE) (seqR (responsesDecR dX) (seqR (nestedR dE) (nestedR dE))) bs with
  | .error e => .error e
  | .ok ((t, s, cs, ch), r) => .ok (⟨t, s, cs, ch⟩, r)

/-- `Ciphertext::strand_deserialize`, `ShuffleProof::strand_deserialize`, … for `natOps P fl` -/
def ctFromBytesR (P : Params) (fl : Flavour) (bs : Bytes) : Res (Ciphertext Nat) :=
  tryFromSliceR (ctDecR (natCodecER P fl)) bs
def ctsFromBytesR (P : Params) (fl : Flavour) (bs : Bytes) : Res (List (Ciphertext Nat)) :=
  tryFromSliceR (nestedR (ctDecR (natCodecER P fl))) bs
def schnorrFromBytesR (P : Params) (fl : Flavour) (bs : Bytes) : Res (Schnorr Nat Nat) :=
  tryFromSliceR (schnorrDecR (natCodecER P fl) (natCodecXR P fl)) bs
def cpFromBytesR (P : Params) (fl : Flavour) (bs : Bytes) : Res (ChaumPedersen Nat Nat) :=
  tryFromSliceR (cpDecR (natCodecER P fl) (natCodecXR P fl)) bs
def shuffleProofFromBytesR (P : Params) (fl : Flavour) (bs : Bytes) :
    Res (ShuffleProof Nat Nat) :=
  tryFromSliceR (shuffleProofDecR (natCodecER P fl) (natCodecXR P fl)) bs

/-! ### the shuffle verifier -/

/-- the recomputed chain commitments `t_hat_primes` (`(0..N).map(|i| ..)`), every
    `proof.c_hats.0[i].invp(ctx)` through `invpR` -/
def tHatPrimesR (P : Params) (fl : Flavour) (c h0 : Nat) (cHats sHats sPrimes : List Nat) :
    Res (List Nat) :=
  let o := natOps P fl
  mapR (fun (x : (Nat × Nat) × (Nat × Nat)) =>
      match invpR P fl x.1.2 with
      | .error e => .error e
      | .ok inv =>
        .ok (o.modp (o.mul (o.mul (o.emodPow inv c) (o.gmodPow x.2.1)) (o.emodPow x.1.1 x.2.2))))
    (List.zip (List.zip (h0 :: cHats) cHats) (List.zip sHats sPrimes))

/-- the tail of `check_proof`: the five checks pushed first, then
    `for (i, t_hat) in proof.t.t_hats.0.iter().enumerate().take(N)`: `t_hat == t_hat_primes[i]`
    (`t_hat_primes` has exactly `N` entries, so `zip` is the truncation `take(N)`; a `t_hats`
    vector SHORTER than `N` just yields fewer checks), and `!checks.contains(&false)` -/
def checksR (five : Bool) (tHats : List Nat) (tHatPrimes : Res (List Nat)) : Res Bool :=
  match tHatPrimes with
  | .error e => .error e
  | .ok tHat' => .ok (five && (List.zip tHats tHat').all (fun p => decide (p.1 = p.2)))

/-- the body of `check_proof` from `shuffle_proof_us` on (identical in the pinned and in the
    repaired source), `h0 = generators[0]`, `hs = &generators[1..]`, `N = es.len()`.
    Index accesses of the `0..N` loops are `takeR` (`l[i]?`, `none ↦ panic`), every `invp` /
    `divp` goes through `invpR`, in source order.  The `?` on the challenge computations can
    only fire on a serialisation failure, which does not exist for these types. -/
def checkProofCoreR (P : Params) (fl : Flavour) (h0 : Nat) (hs : List Nat) (pk : Nat)
    (pf : ShuffleProof Nat Nat) (es ePrimes : List (Ciphertext Nat)) (label : Bytes) : Res Bool :=
  let o := natOps P fl
  let n := es.length
  let us := shuffleUs o es ePrimes pf.cs n label
  -- `values` and the accumulation loop: `proof.cs.0[i]`, `h_generators[i]`,
  -- `proof.s.s_primes.0[i]`, `e_primes[i]` for `i` in `0..N`  (`es[i]`, `us[i]` are in range)
  match takeR pf.cs n with
  | .error e => .error e
  | .ok cs =>
  match takeR hs n with
  | .error e => .error e
  | .ok hsN =>
  match takeR pf.s.sPrimes n with
  | .error e => .error e
  | .ok sPrimes =>
  match takeR ePrimes n with
  | .error e => .error e
  | .ok ePrimesN =>
  let cBarNum := prodMod o cs
  let cBarDen := prodMod o hsN
  let u := us.foldl (fun acc x => o.modq (o.xmul acc x)) o.oneX
  let cTilde := prodMod o (List.zipWith o.emodPow cs us)
  let aPrime := prodMod o (List.zipWith (fun e x => o.emodPow e.mhr x) es us)
  let bPrime := prodMod o (List.zipWith (fun e x => o.emodPow e.gr x) es us)
  let t3Temp := prodMod o (List.zipWith o.emodPow hsN sPrimes)
  let t41Temp := prodMod o (List.zipWith (fun e x => o.emodPow e.mhr x) ePrimesN sPrimes)
  let t42Temp := prodMod o (List.zipWith (fun e x => o.emodPow e.gr x) ePrimesN sPrimes)
  -- `c_bar_num.divp(&c_bar_den, ctx).modp(ctx)`
  match invpR P fl cBarDen with
  | .error e => .error e
  | .ok iDen =>
  let cBar := o.modp (o.mul cBarNum iDen)
  -- `proof.c_hats.0[N - 1].divp(&ctx.emod_pow(h_initial, &u), ctx).modp(ctx)`
  match idxPredR pf.cHats n with
  | .error e => .error e
  | .ok cHatLast =>
  match invpR P fl (o.emodPow h0 u) with
  | .error e => .error e
  | .ok iH =>
  let cHat := o.modp (o.mul cHatLast iH)
  let c := shuffleChallenge o es ePrimes pf.cs pf.cHats pk pf.t label
  match invpR P fl cBar with
  | .error e => .error e
  | .ok iCBar =>
  let t1' := o.modp (o.mul (o.emodPow iCBar c) (o.gmodPow pf.s.s1))
  match invpR P fl cHat with
  | .error e => .error e
  | .ok iCHat =>
  let t2' := o.modp (o.mul (o.emodPow iCHat c) (o.gmodPow pf.s.s2))
  match invpR P fl cTilde with
  | .error e => .error e
  | .ok iCTilde =>
  let t3' := o.modp (o.mul (o.mul (o.emodPow iCTilde c) (o.gmodPow pf.s.s3)) t3Temp)
  match invpR P fl aPrime with
  | .error e => .error e
  | .ok iA =>
  match invpR P fl pk with
  | .error e => .error e
  | .ok iPk =>
  let t41' := o.modp (o.mul (o.mul (o.emodPow iA c) (o.emodPow iPk pf.s.s4)) t41Temp)
  match invpR P fl bPrime with
  | .error e => .error e
  | .ok iB =>
  match invpR P fl o.generator with
  | .error e => .error e
  | .ok iG =>
  let t42' := o.modp (o.mul (o.mul (o.emodPow iB c) (o.emodPow iG pf.s.s4)) t42Temp)
  -- `t_hat_primes`: `proof.c_hats.0[i - 1]`, `proof.c_hats.0[i].invp`, `proof.s.s_hats.0[i]`,
  -- `proof.s.s_primes.0[i]` for `i` in `0..N`
  match takeR pf.cHats n with
  | .error e => .error e
  | .ok cHats =>
  match takeR pf.s.sHats n with
  | .error e => .error e
  | .ok sHats =>
  checksR (decide (pf.t.t1 = t1') && decide (pf.t.t2 = t2') && decide (pf.t.t3 = t3')
        && decide (pf.t.t4_1 = t41') && decide (pf.t.t4_2 = t42'))
    pf.t.tHats (tHatPrimesR P fl c h0 cHats sHats sPrimes)

/-- the REPAIRED `check_proof` (commit 54805ce): the up-front length guard returns `Ok(false)` -/
def checkProofR (P : Params) (fl : Flavour) (gens : List Nat) (pk : Nat)
    (pf : ShuffleProof Nat Nat) (es ePrimes : List (Ciphertext Nat)) (label : Bytes) : Res Bool :=
  let n := es.length
  if n = 0 ∨ ePrimes.length ≠ n ∨ gens.length ≠ n + 1 ∨ pf.cs.length ≠ n ∨ pf.cHats.length ≠ n
      ∨ pf.t.tHats.length ≠ n ∨ pf.s.sHats.length ≠ n ∨ pf.s.sPrimes.length ≠ n then .ok false
  else
    match gens with
    | [] => .error .panic                                 -- `&self.generators[1..]`
    | h0 :: hs => checkProofCoreR P fl h0 hs pk pf es ePrimes label

/-- the PINNED `check_proof` (before the repair; `git show 54805ce^:src/shuffler.rs`):
    `&self.generators[1..]` / `[0]`, the two `assert!`s, then the same body.  A `t_hats` vector
    SHORTER than `N` just means fewer checks (the soundness defect F1); short `cs`, `c_hats`,
    `s_hats`, `s_primes` are index panics. -/
def checkProofR_prefix (P : Params) (fl : Flavour) (gens : List Nat) (pk : Nat)
    (pf : ShuffleProof Nat Nat) (es ePrimes : List (Ciphertext Nat)) (label : Bytes) : Res Bool :=
  match gens with
  | [] => .error .panic                                   -- `&self.generators[1..]`
  | h0 :: hs =>
    if es.length ≠ ePrimes.length then .error .panic      -- `assert!(N == e_primes.len())`
    else if es.length ≠ hs.length then .error .panic      -- `assert!(N == h_generators.len())`
    else checkProofCoreR P fl h0 hs pk pf es ePrimes label

/-- what a verifying party does with a shuffle received as bytes: decode the public key, the
    proof and the two ciphertext vectors (`strand_deserialize`), then `check_proof`.  The
    generators are derived locally (`Ctx::generators`). -/
def verifyShuffleBytesR (P : Params) (fl : Flavour) (gens : List Nat)
    (pkB pfB esB ePrimesB label : Bytes) : Res Bool :=
  match tryFromSliceR (natCodecER P fl) pkB with
  | .error e => .error e
  | .ok pk =>
  match shuffleProofFromBytesR P fl pfB with
  | .error e => .error e
  | .ok pf =>
  match ctsFromBytesR P fl esB with
  | .error e => .error e
  | .ok es =>
  match ctsFromBytesR P fl ePrimesB with
  | .error e => .error e
  | .ok ePrimes => checkProofR P fl gens pk pf es ePrimes label

/-! ### keymaker -/

/-- `Keymaker::verify_decryption_factors`: the two `assert_eq!` on the lengths, then the pure
    per-item verifier (`decs[i]`, `ciphertexts[i]`, `proofs[i]` are in range afterwards) -/
def verifyDecryptionFactorsR {E X : Type} [DecidableEq E] [DecidableEq X] (o : Ops E X) (pk : E)
    (cts : List (Ciphertext E)) (decs : List E) (proofs : List (ChaumPedersen E X))
    (label : Bytes) : Res Bool :=
  if decs.length ≠ proofs.length then .error .panic       -- `assert_eq!(decs.len(), proofs.len())`
  else if decs.length ≠ cts.length then .error .panic     -- `assert_eq!(decs.len(), ciphertexts.len())`
  else .ok ((List.zip cts (List.zip decs proofs)).all fun (c, d, pf) =>
    verifyDecryption o pk d c.mhr c.gr pf label)

/-- `Keymaker::joint_dec`: `decs[0]` on an empty vector, then `divp` -/
def jointDecR (P : Params) (fl : Flavour) (decs : List Nat) (c : Ciphertext Nat) : Res Nat :=
  match decs with
  | [] => .error .panic
  | d :: ds =>
    match divpR P fl c.mhr (mulAll (natOps P fl) d ds) with
    | .error e => .error e
    | .ok x => .ok (Nat'.modp P x)

/-- `PrivateKey::decrypt`: `c.mhr.divp(&c.gr.mod_pow(sk), ctx).modp(ctx)` -/
def decryptR (P : Params) (fl : Flavour) (sk : Nat) (c : Ciphertext Nat) : Res Nat :=
  match divpR P fl c.mhr (Nat'.emodPow P c.gr sk) with
  | .error e => .error e
  | .ok x => .ok (Nat'.modp P x)

end Strand
