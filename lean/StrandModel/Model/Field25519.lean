import StrandModel.Model.Bytes
/-
Arithmetic in GF(p), p = 2^255 - 19, on `Nat` (every value is the canonical representative
in [0, p)).  Mirrors `curve25519_dalek::field::FieldElement` (4.1.3 and 3.2.0 agree on
everything modelled here).  Core Lean only; executable.

The `Nat` functions (`fadd` … `finv`, `powP58`, `sqrtRatioM1`) are the definitions of record.
`Fe` (10 limbs in `UInt64`) is an equivalent fast path used only inside the two long loops
(the exponentiation chain of `sqrtRatioM1` / inversion, and scalar multiplication in
Edwards.lean); `finvFast = finv`, `powP58Fast = powP58` (checked by evaluation and by the
differential tests against curve25519-dalek).
-/
namespace Strand.F25519
open Strand

/-- p = 2^255 - 19 -/
def p : Nat := 57896044618658097711785492504343953926634992332820282019728792003956564819949

/-- 2^255 -/
def two255 : Nat := 57896044618658097711785492504343953926634992332820282019728792003956564819968

/-! All arguments are assumed reduced (`< p`); results are reduced.  Addition, subtraction and
negation use a comparison instead of a division (they are the hot path of point arithmetic). -/
@[inline] def fadd (a b : Nat) : Nat := let s := a + b; if s < p then s else s - p
@[inline] def fsub (a b : Nat) : Nat := if b ≤ a then a - b else a + p - b
@[inline] def fneg (a : Nat) : Nat := if a = 0 then 0 else p - a
@[inline] def fmul (a b : Nat) : Nat := a * b % p
@[inline] def fsq (a : Nat) : Nat := a * a % p

/-- square-and-multiply, structural on the fuel -/
def fpowAux : Nat → Nat → Nat → Nat → Nat
  | 0, _, _, acc => acc
  | fuel + 1, a, e, acc =>
    if e = 0 then acc
    else fpowAux fuel (fsq a) (e / 2) (if e % 2 = 1 then fmul acc a else acc)

/-- `a^e mod p` -/
def fpow (a e : Nat) : Nat := fpowAux (e.log2 + 1) (a % p) e 1

/-- `FieldElement::pow2k` : `a^(2^k)` by `k` squarings -/
def pow2k (a : Nat) : Nat → Nat
  | 0 => a
  | k + 1 => pow2k (fsq a) k

/-- `FieldElement::pow22501` : `(a^(2^250 - 1), a^11)`, dalek's addition chain
    (249 squarings + 11 multiplications more than halve the cost of square-and-multiply
    on these dense exponents) -/
def pow22501 (z : Nat) : Nat × Nat :=
  let t0 := fsq z
  let t1 := pow2k t0 2
  let t2 := fmul z t1
  let t3 := fmul t0 t2
  let t4 := fsq t3
  let t5 := fmul t2 t4
  let t7 := fmul (pow2k t5 5) t5
  let t9 := fmul (pow2k t7 10) t7
  let t11 := fmul (pow2k t9 20) t9
  let t13 := fmul (pow2k t11 10) t7
  let t15 := fmul (pow2k t13 50) t13
  let t17 := fmul (pow2k t15 100) t15
  let t19 := fmul (pow2k t17 50) t13
  (t19, t3)

/-- `FieldElement::invert` : `a^(p-2) = a^(2^255 - 21)`; `invert(0) = 0` -/
def finv (a : Nat) : Nat :=
  let (t19, t3) := pow22501 a
  fmul (pow2k t19 5) t3

/-- `FieldElement::pow_p58` : `a^((p-5)/8) = a^(2^252 - 3)` -/
def powP58 (a : Nat) : Nat :=
  let (t19, _) := pow22501 a
  fmul a (pow2k t19 2)

/-- `FieldElement::is_negative` : low bit of the canonical representative -/
@[inline] def isNegative (a : Nat) : Bool := a % 2 == 1

/-- RFC 9496 `CT_ABS` -/
@[inline] def fabs (a : Nat) : Nat := if isNegative a then fneg a else a

/-- Edwards `d = -121665/121666` -/
def d : Nat := 37095705934669439343138083508754565189542113879843219016388785533085940283555
/-- `2 d` -/
def d2 : Nat := 16295367250680780974490674513165176452449235426866156013048779062215315747161
/-- `SQRT_M1` : the non-negative square root of -1, `2^((p-1)/4)` -/
def sqrtM1 : Nat := 19681161376707505956807079304988542015446066515923890162744021073123829784752
/-- `SQRT_AD_MINUS_ONE` = sqrt(a d - 1), a = -1 -/
def sqrtAdMinusOne : Nat :=
  25063068953384623474111414158702152701244531502492656460079210482610430750235
/-- `INVSQRT_A_MINUS_D` = 1/sqrt(a - d) -/
def invsqrtAMinusD : Nat :=
  54469307008909316920995813868745141605393597292927456921205312896311721017578
/-- `ONE_MINUS_EDWARDS_D_SQUARED` = 1 - d^2 -/
def oneMinusDSq : Nat :=
  1159843021668779879193775521855586647937357759715417654439879720876111806838
/-- `EDWARDS_D_MINUS_ONE_SQUARED` = (d - 1)^2 -/
def dMinusOneSq : Nat :=
  40440834346308536858101042469323190826248399146238708352240133220865137265952
/-- `MINUS_ONE` -/
def minusOne : Nat := 57896044618658097711785492504343953926634992332820282019728792003956564819948

/-- `(p-5)/8 = 2^252 - 3` -/
def p58 : Nat := 7237005577332262213973186563042994240829374041602535252466099000494570602493


/-! ### fast path: 10 limbs of 26/25 bits in `UInt64` (radix 2^25.5, the representation of
curve25519-dalek's `FieldElement2625`).  Used ONLY inside the long loops (the inversion /
square-root chain and scalar multiplication); results are converted back to the canonical `Nat`.
A value is Σ lᵢ · 2^⌈25.5 i⌉.  Bounds: "reduced" = every limb < 2^26 + 2^18; `Fe.add` does not
carry, so its result has limbs < 2^27 + 2^19; `Fe.mul` / `Fe.sub` accept such arguments
(10 terms · 2·2^27.01 · 19·2^27.01 < 2^62.6, no overflow) and return reduced results. -/

structure Fe where
  l0 : UInt64
  l1 : UInt64
  l2 : UInt64
  l3 : UInt64
  l4 : UInt64
  l5 : UInt64
  l6 : UInt64
  l7 : UInt64
  l8 : UInt64
  l9 : UInt64
deriving Inhabited

namespace Fe

def m26 : UInt64 := 0x3ffffff
def m25 : UInt64 := 0x1ffffff

/-- limbs of a natural number `< 2^255` -/
def ofNat (n : Nat) : Fe :=
  ⟨UInt64.ofNat ((n >>> 0) % 67108864),
   UInt64.ofNat ((n >>> 26) % 33554432),
   UInt64.ofNat ((n >>> 51) % 67108864),
   UInt64.ofNat ((n >>> 77) % 33554432),
   UInt64.ofNat ((n >>> 102) % 67108864),
   UInt64.ofNat ((n >>> 128) % 33554432),
   UInt64.ofNat ((n >>> 153) % 67108864),
   UInt64.ofNat ((n >>> 179) % 33554432),
   UInt64.ofNat ((n >>> 204) % 67108864),
   UInt64.ofNat ((n >>> 230) % 33554432)⟩

/-- the canonical representative (any limb sizes) -/
def toNat (a : Fe) : Nat :=
  (a.l0.toNat + (a.l1.toNat <<< 26) + (a.l2.toNat <<< 51) + (a.l3.toNat <<< 77) + (a.l4.toNat <<< 102) + (a.l5.toNat <<< 128) + (a.l6.toNat <<< 153) + (a.l7.toNat <<< 179) + (a.l8.toNat <<< 204) + (a.l9.toNat <<< 230)) % p

/-- carry chain 0 → 1 → … → 9 → (×19) 0 → 1 (`FieldElement2625::reduce`, sequential order).
    Input limbs < 2^63; output reduced. -/
@[inline] def carry (z0 z1 z2 z3 z4 z5 z6 z7 z8 z9 : UInt64) : Fe :=
  let z1 := z1 + (z0 >>> 26); let z0 := z0 &&& m26
  let z2 := z2 + (z1 >>> 25); let z1 := z1 &&& m25
  let z3 := z3 + (z2 >>> 26); let z2 := z2 &&& m26
  let z4 := z4 + (z3 >>> 25); let z3 := z3 &&& m25
  let z5 := z5 + (z4 >>> 26); let z4 := z4 &&& m26
  let z6 := z6 + (z5 >>> 25); let z5 := z5 &&& m25
  let z7 := z7 + (z6 >>> 26); let z6 := z6 &&& m26
  let z8 := z8 + (z7 >>> 25); let z7 := z7 &&& m25
  let z9 := z9 + (z8 >>> 26); let z8 := z8 &&& m26
  let z0 := z0 + (19 : UInt64) * (z9 >>> 25); let z9 := z9 &&& m25
  let z1 := z1 + (z0 >>> 26); let z0 := z0 &&& m26
  ⟨z0, z1, z2, z3, z4, z5, z6, z7, z8, z9⟩

/-- limb-wise addition, no carry -/
@[inline] def add (a b : Fe) : Fe :=
  ⟨a.l0 + b.l0, a.l1 + b.l1, a.l2 + b.l2, a.l3 + b.l3, a.l4 + b.l4,
   a.l5 + b.l5, a.l6 + b.l6, a.l7 + b.l7, a.l8 + b.l8, a.l9 + b.l9⟩

/-- `a - b` as `a + 16 p - b`, carried (limbs of `b` < 2^29) -/
@[inline] def sub (a b : Fe) : Fe :=
  carry (a.l0 + 0x3ffffed0 - b.l0) (a.l1 + 0x1ffffff0 - b.l1) (a.l2 + 0x3ffffff0 - b.l2)
        (a.l3 + 0x1ffffff0 - b.l3) (a.l4 + 0x3ffffff0 - b.l4) (a.l5 + 0x1ffffff0 - b.l5)
        (a.l6 + 0x3ffffff0 - b.l6) (a.l7 + 0x1ffffff0 - b.l7) (a.l8 + 0x3ffffff0 - b.l8)
        (a.l9 + 0x1ffffff0 - b.l9)

/-- `-(a)` -/
@[inline] def neg (a : Fe) : Fe := sub ⟨0, 0, 0, 0, 0, 0, 0, 0, 0, 0⟩ a

/-- schoolbook product with the wrap-around factors 19 (i + j ≥ 10) and 2 (i, j both odd) -/
def mul (x y : Fe) : Fe :=
  let y1_19 := 19 * y.l1
  let y2_19 := 19 * y.l2
  let y3_19 := 19 * y.l3
  let y4_19 := 19 * y.l4
  let y5_19 := 19 * y.l5
  let y6_19 := 19 * y.l6
  let y7_19 := 19 * y.l7
  let y8_19 := 19 * y.l8
  let y9_19 := 19 * y.l9
  let x1_2 := 2 * x.l1
  let x3_2 := 2 * x.l3
  let x5_2 := 2 * x.l5
  let x7_2 := 2 * x.l7
  let x9_2 := 2 * x.l9
  let z0 := x.l0 * y.l0 + x1_2 * y9_19 + x.l2 * y8_19 + x3_2 * y7_19 + x.l4 * y6_19 + x5_2 * y5_19 + x.l6 * y4_19 + x7_2 * y3_19 + x.l8 * y2_19 + x9_2 * y1_19
  let z1 := x.l0 * y.l1 + x.l1 * y.l0 + x.l2 * y9_19 + x.l3 * y8_19 + x.l4 * y7_19 + x.l5 * y6_19 + x.l6 * y5_19 + x.l7 * y4_19 + x.l8 * y3_19 + x.l9 * y2_19
  let z2 := x.l0 * y.l2 + x1_2 * y.l1 + x.l2 * y.l0 + x3_2 * y9_19 + x.l4 * y8_19 + x5_2 * y7_19 + x.l6 * y6_19 + x7_2 * y5_19 + x.l8 * y4_19 + x9_2 * y3_19
  let z3 := x.l0 * y.l3 + x.l1 * y.l2 + x.l2 * y.l1 + x.l3 * y.l0 + x.l4 * y9_19 + x.l5 * y8_19 + x.l6 * y7_19 + x.l7 * y6_19 + x.l8 * y5_19 + x.l9 * y4_19
  let z4 := x.l0 * y.l4 + x1_2 * y.l3 + x.l2 * y.l2 + x3_2 * y.l1 + x.l4 * y.l0 + x5_2 * y9_19 + x.l6 * y8_19 + x7_2 * y7_19 + x.l8 * y6_19 + x9_2 * y5_19
  let z5 := x.l0 * y.l5 + x.l1 * y.l4 + x.l2 * y.l3 + x.l3 * y.l2 + x.l4 * y.l1 + x.l5 * y.l0 + x.l6 * y9_19 + x.l7 * y8_19 + x.l8 * y7_19 + x.l9 * y6_19
  let z6 := x.l0 * y.l6 + x1_2 * y.l5 + x.l2 * y.l4 + x3_2 * y.l3 + x.l4 * y.l2 + x5_2 * y.l1 + x.l6 * y.l0 + x7_2 * y9_19 + x.l8 * y8_19 + x9_2 * y7_19
  let z7 := x.l0 * y.l7 + x.l1 * y.l6 + x.l2 * y.l5 + x.l3 * y.l4 + x.l4 * y.l3 + x.l5 * y.l2 + x.l6 * y.l1 + x.l7 * y.l0 + x.l8 * y9_19 + x.l9 * y8_19
  let z8 := x.l0 * y.l8 + x1_2 * y.l7 + x.l2 * y.l6 + x3_2 * y.l5 + x.l4 * y.l4 + x5_2 * y.l3 + x.l6 * y.l2 + x7_2 * y.l1 + x.l8 * y.l0 + x9_2 * y9_19
  let z9 := x.l0 * y.l9 + x.l1 * y.l8 + x.l2 * y.l7 + x.l3 * y.l6 + x.l4 * y.l5 + x.l5 * y.l4 + x.l6 * y.l3 + x.l7 * y.l2 + x.l8 * y.l1 + x.l9 * y.l0
  carry z0 z1 z2 z3 z4 z5 z6 z7 z8 z9


@[inline] def sq (a : Fe) : Fe := mul a a

def pow2k (a : Fe) : Nat → Fe
  | 0 => a
  | k + 1 => pow2k (sq a) k

/-- `(a^(2^250 - 1), a^11)` -/
def pow22501 (z : Fe) : Fe × Fe :=
  let t0 := sq z
  let t1 := pow2k t0 2
  let t2 := mul z t1
  let t3 := mul t0 t2
  let t4 := sq t3
  let t5 := mul t2 t4
  let t7 := mul (pow2k t5 5) t5
  let t9 := mul (pow2k t7 10) t7
  let t11 := mul (pow2k t9 20) t9
  let t13 := mul (pow2k t11 10) t7
  let t15 := mul (pow2k t13 50) t13
  let t17 := mul (pow2k t15 100) t15
  let t19 := mul (pow2k t17 50) t13
  (t19, t3)

end Fe

/-- `a^(p-2)` computed in limbs -/
def finvFast (a : Nat) : Nat :=
  let (t19, t3) := Fe.pow22501 (Fe.ofNat a)
  (Fe.mul (Fe.pow2k t19 5) t3).toNat

/-- `a^((p-5)/8)` computed in limbs -/
def powP58Fast (a : Nat) : Nat :=
  let z := Fe.ofNat a
  let (t19, _) := Fe.pow22501 z
  (Fe.mul z (Fe.pow2k t19 2)).toNat

/-- `FieldElement::sqrt_ratio_i(u, v)` = RFC 9496 §4.2 `SQRT_RATIO_M1`:
    `(true, +sqrt(u/v))` if `v ≠ 0` and `u/v` is square; `(true, 0)` if `u = 0`;
    `(false, 0)` if `v = 0 ≠ u`; `(false, +sqrt(i u/v))` if `u/v` is a non-square. -/
def sqrtRatioM1 (u v : Nat) : Bool × Nat :=
  let v3 := fmul (fsq v) v
  let v7 := fmul (fsq v3) v
  let r := fmul (fmul u v3) (powP58Fast (fmul u v7))
  let check := fmul v (fsq r)
  let nu := fneg u
  let correctSign := check == u
  let flippedSign := check == nu
  let flippedSignI := check == fmul nu sqrtM1
  let r := if flippedSign || flippedSignI then fmul sqrtM1 r else r
  (correctSign || flippedSign, fabs r)

/-- `FieldElement::invsqrt` -/
def invsqrt (v : Nat) : Bool × Nat := sqrtRatioM1 1 v

/-- `FieldElement::from_bytes` : 32 little-endian bytes, bit 255 IGNORED, reduced mod p
    (so non-canonical encodings `p ≤ n < 2^255` are accepted and reduced) -/
def feOfBytes (bs : Bytes) : Nat := (natOfLE (bs.take 32) % two255) % p

/-- `FieldElement::as_bytes` : the canonical 32-byte little-endian encoding -/
def feToBytes (a : Nat) : Bytes := leFixed 32 a

end Strand.F25519
