/- Outcome of a library call in the panic-aware layer of the model. -/
namespace Strand

inductive Fail where
  | err      -- the Rust returns `Err(..)`
  | panic    -- the Rust panics (assert!, index out of bounds, expect, unsigned underflow)
  | tape     -- the model ran out of injected randomness (a harness error, never a verdict)
deriving DecidableEq, Repr

abbrev Res (α : Type) := Except Fail α

end Strand
