import StrandModel.Model.Borsh
/-
The operations of the three Rust traits `Ctx`, `Element`, `Exponent` that the protocol
code of strand calls.  The protocol layer of the model is generic over this record exactly
as the Rust is generic over `C : Ctx`.
-/
namespace Strand

structure Ops (E X : Type) where
  /-- `Ctx::generator` -/
  generator : E
  /-- `Element::mul_identity` -/
  identE : E
  /-- `Ctx::gmod_pow` -/
  gmodPow : X → E
  /-- `Ctx::emod_pow` -/
  emodPow : E → X → E
  /-- `Element::mul` (multiplicative back-ends: UNREDUCED integer product) -/
  mul : E → E → E
  /-- `Element::modp` -/
  modp : E → E
  /-- `Element::invp` -/
  invp : E → E
  /-- `Exponent::add_identity`, `mul_identity` -/
  zeroX : X
  oneX : X
  /-- `Exponent::add`, `sub`, `mul` (multiplicative back-ends: UNREDUCED) -/
  xadd : X → X → X
  xsub : X → X → X
  xmul : X → X → X
  /-- `Exponent::modq`, `invq`, `sub_mod` -/
  modq : X → X
  invq : X → X
  subMod : X → X → X
  /-- `Ctx::exp_from_u64` -/
  fromU64 : Nat → X
  /-- `Ctx::hash_to_exp` -/
  hashToExp : Bytes → X
  /-- `util::hasher()` applied to a byte string (SHA-512 for every back-end) -/
  hash : Bytes → Bytes
  /-- borsh codecs of elements and exponents (decoding validates) -/
  codecE : Codec E
  codecX : Codec X

variable {E X : Type}

/-- `Element::divp` : `a * b^-1`, unreduced product with the reduced inverse -/
def Ops.divp (o : Ops E X) (a b : E) : E := o.mul a (o.invp b)
/-- `Exponent::divq` -/
def Ops.divq (o : Ops E X) (a b : X) : X := o.xmul a (o.invq b)
def Ops.serE (o : Ops E X) (a : E) : Bytes := o.codecE.enc a
def Ops.serX (o : Ops E X) (x : X) : Bytes := o.codecX.enc x

end Strand
