import StrandModel.Model.Bytes
/-
Keccak-f[1600] and the SHAKE-256 extendable-output function (FIPS 202), executable.
`sha3::Shake256` : rate 136 bytes, domain-separation suffix 0x1f, final bit 0x80.
Core Lean only.  State = 25 lanes, lane (x, y) at index x + 5 y.
-/
namespace Strand.Keccak

def RC : Array UInt64 := #[
  0x0000000000000001, 0x0000000000008082, 0x800000000000808a, 0x8000000080008000,
  0x000000000000808b, 0x0000000080000001, 0x8000000080008081, 0x8000000000008009,
  0x000000000000008a, 0x0000000000000088, 0x0000000080008009, 0x000000008000000a,
  0x000000008000808b, 0x800000000000008b, 0x8000000000008089, 0x8000000000008003,
  0x8000000000008002, 0x8000000000000080, 0x000000000000800a, 0x800000008000000a,
  0x8000000080008081, 0x8000000000008080, 0x0000000080000001, 0x8000000080008008]

/-- rotation offsets, index x + 5 y -/
def ROT : Array UInt64 := #[
  0, 1, 62, 28, 27,
  36, 44, 6, 55, 20,
  3, 10, 43, 25, 39,
  41, 45, 15, 21, 8,
  18, 2, 61, 56, 14]

@[inline] def rotl (x : UInt64) (n : UInt64) : UInt64 :=
  if n == 0 then x else (x <<< n) ||| (x >>> (64 - n))

/-- one round: θ, ρ, π, χ, ι -/
def round (a : Array UInt64) (rc : UInt64) : Array UInt64 := Id.run do
  -- θ
  let mut c : Array UInt64 := Array.mkEmpty 5
  for x in [0:5] do
    c := c.push (a[x]! ^^^ a[x + 5]! ^^^ a[x + 10]! ^^^ a[x + 15]! ^^^ a[x + 20]!)
  let mut dd : Array UInt64 := Array.mkEmpty 5
  for x in [0:5] do
    dd := dd.push (c[(x + 4) % 5]! ^^^ rotl c[(x + 1) % 5]! 1)
  -- ρ and π : B[y, 2x+3y] = rot(A[x,y] ^ D[x], r[x,y])
  let mut b : Array UInt64 := Array.replicate 25 0
  for y in [0:5] do
    for x in [0:5] do
      let v := rotl (a[x + 5 * y]! ^^^ dd[x]!) ROT[x + 5 * y]!
      b := b.set! (y + 5 * ((2 * x + 3 * y) % 5)) v
  -- χ
  let mut out : Array UInt64 := Array.mkEmpty 25
  for y in [0:5] do
    for x in [0:5] do
      out := out.push (b[x + 5 * y]! ^^^ ((~~~ b[(x + 1) % 5 + 5 * y]!) &&& b[(x + 2) % 5 + 5 * y]!))
  -- ι
  out := out.set! 0 (out[0]! ^^^ rc)
  return out

/-- Keccak-f[1600] : 24 rounds -/
def keccakF (a : Array UInt64) : Array UInt64 := Id.run do
  let mut s := a
  for i in [0:24] do
    s := round s RC[i]!
  return s

/-- little-endian lane from 8 bytes at `off` -/
def le64 (bs : Array UInt8) (off : Nat) : UInt64 := Id.run do
  let mut r : UInt64 := 0
  for i in [0:8] do
    r := r ||| ((bs[off + i]!).toUInt64 <<< (UInt64.ofNat (8 * i)))
  return r

/-- xor one rate-sized block (rate bytes, rate % 8 = 0) into the state -/
def absorbBlock (s : Array UInt64) (blk : Array UInt8) (off rate : Nat) : Array UInt64 := Id.run do
  let mut s := s
  for i in [0:rate / 8] do
    s := s.set! i (s[i]! ^^^ le64 blk (off + 8 * i))
  return s

/-- pad10*1 with a domain suffix byte -/
def pad (msg : Strand.Bytes) (rate : Nat) (suffix : UInt8) : Array UInt8 := Id.run do
  let mut a : Array UInt8 := msg.toArray
  let padLen := rate - msg.length % rate      -- 1 ≤ padLen ≤ rate
  if padLen == 1 then
    a := a.push (suffix ||| 0x80)
  else
    a := a.push suffix
    for _ in [0:padLen - 2] do
      a := a.push 0
    a := a.push 0x80
  return a

/-- the first `rate` bytes of the state -/
def squeezeBlock (s : Array UInt64) (rate : Nat) : Array UInt8 := Id.run do
  let mut out : Array UInt8 := Array.mkEmpty rate
  for i in [0:rate / 8] do
    let lane := s[i]!
    for j in [0:8] do
      out := out.push (lane >>> (UInt64.ofNat (8 * j))).toUInt8
  return out

/-- sponge with the given rate and suffix, `outLen` output bytes -/
def sponge (rate : Nat) (suffix : UInt8) (input : Strand.Bytes) (outLen : Nat) : Strand.Bytes :=
  Id.run do
    let padded := pad input rate suffix
    let mut s : Array UInt64 := Array.replicate 25 0
    for i in [0:padded.size / rate] do
      s := keccakF (absorbBlock s padded (rate * i) rate)
    let mut out : Array UInt8 := Array.mkEmpty (outLen + rate)
    let blocks := (outLen + rate - 1) / rate
    for i in [0:blocks] do
      if i > 0 then s := keccakF s
      out := out ++ squeezeBlock s rate
    return (out.extract 0 outLen).toList

end Strand.Keccak

namespace Strand
/-- SHAKE-256 : `Shake256::default().update(input).finalize_xof().read(outLen bytes)`; the XOF
    stream is prefix-stable, so successive `read`s are consecutive slices of it -/
def shake256 (input : Bytes) (outLen : Nat) : Bytes := Keccak.sponge 136 0x1f input outLen

/-- SHA3-256 (for self-checks of the permutation against known digests) -/
def sha3_256 (input : Bytes) : Bytes := Keccak.sponge 136 0x06 input 32
end Strand
