import StrandModel.Model.Zkp
import StrandModel.Model.Res
/-
shuffler.rs: the Terelius–Wikström shuffle.  One definition per Rust function, same order of
reductions, same order of random draws (`tape`).  `par()` is `List.map` (C19 justifies).
-/
namespace Strand

structure Commitments (E : Type) where
  t1 : E
  t2 : E
  t3 : E
  t4_1 : E
  t4_2 : E
  tHats : List E
deriving DecidableEq, Repr

structure Responses (X : Type) where
  s1 : X
  s2 : X
  s3 : X
  s4 : X
  sHats : List X
  sPrimes : List X
deriving DecidableEq, Repr

structure ShuffleProof (E X : Type) where
  t : Commitments E
  s : Responses X
  cs : List E
  cHats : List E
deriving DecidableEq, Repr

variable {E X : Type}

/-- re-encryption of `c` with exponent `r`: component-wise product with an encryption of 1 -/
def reenc (o : Ops E X) (pk : E) (c : Ciphertext E) (r : X) : Ciphertext E :=
  { mhr := o.modp (o.mul c.mhr (o.emodPow pk r)), gr := o.modp (o.mul c.gr (o.gmodPow r)) }

/-- the deterministic part of `apply_permutation`, given the N exponents -/
def applyPermutationWith (o : Ops E X) (pk : E) (perm : List Nat) (cts : List (Ciphertext E))
    (rs : List X) : Option (List (Ciphertext E)) :=
  let ePrimes := List.zipWith (reenc o pk) cts rs
  mapOpt (fun p => ePrimes[p]?) perm

/-- `Shuffler::apply_permutation`: N draws, in input order -/
def applyPermutation (o : Ops E X) (pk : E) (perm : List Nat) (cts : List (Ciphertext E))
    (tape : List X) : Res ((List (Ciphertext E) × List X) × List X) :=
  if perm.length ≠ cts.length then .error .panic
  else if tape.length < cts.length then .error .tape
  else
    let rs := tape.take cts.length
    match applyPermutationWith o pk perm cts rs with
    | none => .error .panic                         -- index out of bounds
    | some outs => .ok ((outs, rs), tape.drop cts.length)

/-- `cs_permuted[perm[i]] = cs[i]` for i ascending, starting from `init` -/
def scatter {α : Type} (perm : List Nat) (xs : List α) (init : List α) : List α :=
  (List.zip perm xs).foldl (fun acc (px : Nat × α) => acc.set px.1 px.2) init

/-- the deterministic part of `gen_commitments`, given the N exponents -/
def genCommitmentsWith (o : Ops E X) (hs : List E) (perm : List Nat) (rs : List X) :
    List E × List X :=
  let cs := List.zipWith (fun h r => o.modp (o.mul h (o.gmodPow r))) hs rs
  (scatter perm cs (List.replicate perm.length o.identE),
   scatter perm rs (List.replicate perm.length o.oneX))

/-- `Shuffler::gen_commitments` (`hs` = generators[1..]): N draws -/
def genCommitments (o : Ops E X) (gens : List E) (perm : List Nat) (tape : List X) :
    Res ((List E × List X) × List X) :=
  match gens with
  | [] => .error .panic                               -- `&self.generators[1..]`
  | _ :: hs =>
    if hs.length ≠ perm.length then .error .panic
    else if tape.length < hs.length then .error .tape
    else if perm.any (fun p => decide (perm.length ≤ p)) then .error .panic   -- index out of bounds
    else .ok (genCommitmentsWith o hs perm (tape.take hs.length), tape.drop hs.length)

/-- `gen_commitment_chain`: ĉ_i = g^{r̂_i} · ĉ_{i-1}^{u'_i},  ĉ_{-1} = h₀ -/
def chain (o : Ops E X) : E → List X → List X → List E
  | _, [], _ => []
  | _, _, [] => []
  | prev, u :: us, r :: rs =>
    let c := o.modp (o.mul (o.gmodPow r) (o.emodPow prev u))
    c :: chain o c us rs

/-- the strand vector wrappers on the wire -/
def vecE (o : Ops E X) : Codec (List E) := nested o.codecE
def vecX (o : Ops E X) : Codec (List X) := nested o.codecX
def vecC (o : Ops E X) : Codec (List (Ciphertext E)) := nested (codecCt o)

/-- bytes whose SHA-512 is the prefix of every per-ciphertext challenge -/
def usPrefixBytes (o : Ops E X) (es ePrimes : List (Ciphertext E)) (cs : List E) (label : Bytes) :
    Bytes :=
  encMap [(tag "es", (vecC o).enc es), (tag "e_primes", (vecC o).enc ePrimes),
          (tag "cs", (vecE o).enc cs), (tag "label", encBytesVec label)]

/-- bytes hashed for `u_i`: {prefix: digest, counter: i as 8 LE bytes} -/
def usInput (prefixHash : Bytes) (i : Nat) : Bytes :=
  encMap [(tag "prefix", prefixHash), (tag "counter", u64le i)]

/-- `shuffle_proof_us` -/
def shuffleUs (o : Ops E X) (es ePrimes : List (Ciphertext E)) (cs : List E) (n : Nat)
    (label : Bytes) : List X :=
  let prefixHash := o.hash (usPrefixBytes o es ePrimes cs label)
  (List.range n).map fun i => o.hashToExp (usInput prefixHash i)

/-- bytes hashed by `shuffle_proof_challenge` -/
def shuffleChallengeBytes (o : Ops E X) (es ePrimes : List (Ciphertext E)) (cs cHats : List E)
    (pk : E) (t : Commitments E) (label : Bytes) : Bytes :=
  encMap [(tag "t1", o.serE t.t1), (tag "t2", o.serE t.t2), (tag "t3", o.serE t.t3),
          (tag "t4_1", o.serE t.t4_1), (tag "t4_2", o.serE t.t4_2),
          (tag "es", (vecC o).enc es), (tag "e_primes", (vecC o).enc ePrimes),
          (tag "cs", (vecE o).enc cs), (tag "c_hats", (vecE o).enc cHats),
          (tag "pk.element", o.serE pk), (tag "t_hats", (vecE o).enc t.tHats),
          (tag "label", label)]

def shuffleChallenge (o : Ops E X) (es ePrimes : List (Ciphertext E)) (cs cHats : List E)
    (pk : E) (t : Commitments E) (label : Bytes) : X :=
  o.hashToExp (shuffleChallengeBytes o es ePrimes cs cHats pk t label)

/-- v_{N-1} = 1, v_i = modq (u'_{i+1} · v_{i+1}) -/
def suffixProds (o : Ops E X) : List X → List X
  | [] => []
  | [_] => [o.oneX]
  | _ :: u :: us =>
    match suffixProds o (u :: us) with
    | [] => []
    | v :: vs => o.modq (o.xmul u v) :: v :: vs

/-- unreduced sum from `add_identity` -/
def xsum (o : Ops E X) (xs : List X) : X := xs.foldl o.xadd o.zeroX

/-- the accumulation `acc = acc.mul(x).modp()` from the identity -/
def prodMod (o : Ops E X) (xs : List E) : E := xs.foldl (fun acc x => o.modp (o.mul acc x)) o.identE

/-- the N draws of the chain, the 4 + N + N nonces, in source order -/
structure ProofTape (X : Type) where
  rHats : List X
  omegas : List X      -- 4
  omegaHats : List X
  omegaPrimes : List X

def splitProofTape (n : Nat) (tape : List X) : Option (ProofTape X × List X) :=
  if tape.length < 3 * n + 4 then none
  else some ({ rHats := tape.take n,
               omegas := (tape.drop n).take 4,
               omegaHats := (tape.drop (n + 4)).take n,
               omegaPrimes := (tape.drop (2 * n + 4)).take n }, tape.drop (3 * n + 4))

/-- the deterministic body of `gen_proof_ext` once all lengths are N ≥ 1 and the draws are
    given.  `us'` = u_{perm[i]} -/
def genProofCore (o : Ops E X) (h0 : E) (hs : List E) (pk : E) (es ePrimes : List (Ciphertext E))
    (rPrimes : List X) (usPrime : List X) (us : List X) (csP : List E) (rsP : List X)
    (label : Bytes) (tp : ProofTape X) : ShuffleProof E X :=
  let cHats := chain o h0 usPrime tp.rHats
  let vs := suffixProds o usPrime
  let rBar := o.modq (xsum o rsP)
  let rHat := o.modq (xsum o (List.zipWith o.xmul tp.rHats vs))
  let rTilde := o.modq (xsum o (List.zipWith o.xmul rsP us))
  let rPrime := o.modq (xsum o (List.zipWith o.xmul rPrimes us))
  let w0 := tp.omegas.getD 0 o.zeroX
  let w1 := tp.omegas.getD 1 o.zeroX
  let w2 := tp.omegas.getD 2 o.zeroX
  let w3 := tp.omegas.getD 3 o.zeroX
  let t1 := o.gmodPow w0
  let t2 := o.gmodPow w1
  let t3Temp := prodMod o (List.zipWith o.emodPow hs tp.omegaPrimes)
  let t41Temp := prodMod o (List.zipWith (fun e w => o.emodPow e.mhr w) ePrimes tp.omegaPrimes)
  let t42Temp := prodMod o (List.zipWith (fun e w => o.emodPow e.gr w) ePrimes tp.omegaPrimes)
  let t3 := o.modp (o.mul (o.gmodPow w2) t3Temp)
  let t4_1 := o.modp (o.mul (o.emodPow (o.invp pk) w3) t41Temp)
  let t4_2 := o.modp (o.mul (o.emodPow (o.invp o.generator) w3) t42Temp)
  let prevs := h0 :: cHats
  let tHats := List.zipWith (fun (pw : E × X) wh => o.modp (o.mul (o.gmodPow wh) (o.emodPow pw.1 pw.2)))
      (List.zip prevs tp.omegaPrimes) tp.omegaHats
  let t : Commitments E := { t1, t2, t3, t4_1, t4_2, tHats }
  let c := shuffleChallenge o es ePrimes csP cHats pk t label
  let resp := fun w r => o.modq (o.xadd w (o.xmul c r))
  { t := t,
    s := { s1 := resp w0 rBar, s2 := resp w1 rHat, s3 := resp w2 rTilde, s4 := resp w3 rPrime,
           sHats := List.zipWith resp tp.omegaHats tp.rHats,
           sPrimes := List.zipWith resp tp.omegaPrimes usPrime },
    cs := csP, cHats := cHats }

/-- `gen_proof_ext` : guards (asserts / index accesses) in source order, then the body -/
def genProofExt (o : Ops E X) (gens : List E) (pk : E) (es ePrimes : List (Ciphertext E))
    (rPrimes : List X) (perm : List Nat) (csP : List E) (rsP : List X) (label : Bytes)
    (tape : List X) : Res (ShuffleProof E X × List X) :=
  match gens with
  | [] => .error .panic
  | h0 :: hs =>
    let n := es.length
    if n ≠ ePrimes.length ∨ n ≠ rPrimes.length ∨ n ≠ perm.length ∨ n ≠ hs.length ∨ n = 0 then
      .error .panic
    else
      let us := shuffleUs o es ePrimes csP n label
      match mapOpt (fun p => us[p]?) perm with
      | none => .error .panic
      | some usPrime =>
        match splitProofTape n tape with
        | none => .error .tape
        | some (tp, rest) =>
          if rsP.length < n then .error .panic
          else .ok (genProofCore o h0 hs pk es ePrimes rPrimes usPrime us csP (rsP.take n) label tp,
                    rest)

/-- `gen_proof` = `gen_commitments` then `gen_proof_ext` -/
def genProof (o : Ops E X) (gens : List E) (pk : E) (es ePrimes : List (Ciphertext E))
    (rPrimes : List X) (perm : List Nat) (label : Bytes) (tape : List X) :
    Res (ShuffleProof E X × List X) :=
  match genCommitments o gens perm tape with
  | .error e => .error e
  | .ok ((csP, rsP), tape') => genProofExt o gens pk es ePrimes rPrimes perm csP rsP label tape'

/-- the recomputed chain commitments t̂'_i of the verifier -/
def tHatPrimes (o : Ops E X) (c : X) (h0 : E) (cHats : List E) (sHats sPrimes : List X) : List E :=
  List.zipWith (fun (pc : E × E) (ss : X × X) =>
      o.modp (o.mul (o.mul (o.emodPow (o.invp pc.2) c) (o.gmodPow ss.1)) (o.emodPow pc.1 ss.2)))
    (List.zip (h0 :: cHats) cHats) (List.zip sHats sPrimes)

/-- `check_proof` (repaired form, F1): every length is validated first; `false` = rejected -/
def checkProof [DecidableEq E] (o : Ops E X) (gens : List E) (pk : E) (pf : ShuffleProof E X)
    (es ePrimes : List (Ciphertext E)) (label : Bytes) : Bool :=
  let n := es.length
  if n = 0 ∨ ePrimes.length ≠ n ∨ gens.length ≠ n + 1 ∨ pf.cs.length ≠ n ∨ pf.cHats.length ≠ n
      ∨ pf.t.tHats.length ≠ n ∨ pf.s.sHats.length ≠ n ∨ pf.s.sPrimes.length ≠ n then false
  else
    match gens, pf.cHats.getLast? with
    | h0 :: hs, some cHatLast =>
      let us := shuffleUs o es ePrimes pf.cs n label
      let cBarNum := prodMod o pf.cs
      let cBarDen := prodMod o hs
      let u := us.foldl (fun acc x => o.modq (o.xmul acc x)) o.oneX
      let cTilde := prodMod o (List.zipWith o.emodPow pf.cs us)
      let aPrime := prodMod o (List.zipWith (fun e x => o.emodPow e.mhr x) es us)
      let bPrime := prodMod o (List.zipWith (fun e x => o.emodPow e.gr x) es us)
      let t3Temp := prodMod o (List.zipWith o.emodPow hs pf.s.sPrimes)
      let t41Temp := prodMod o (List.zipWith (fun e x => o.emodPow e.mhr x) ePrimes pf.s.sPrimes)
      let t42Temp := prodMod o (List.zipWith (fun e x => o.emodPow e.gr x) ePrimes pf.s.sPrimes)
      let cBar := o.modp (o.divp cBarNum cBarDen)
      let cHat := o.modp (o.divp cHatLast (o.emodPow h0 u))
      let c := shuffleChallenge o es ePrimes pf.cs pf.cHats pk pf.t label
      let t1' := o.modp (o.mul (o.emodPow (o.invp cBar) c) (o.gmodPow pf.s.s1))
      let t2' := o.modp (o.mul (o.emodPow (o.invp cHat) c) (o.gmodPow pf.s.s2))
      let t3' := o.modp (o.mul (o.mul (o.emodPow (o.invp cTilde) c) (o.gmodPow pf.s.s3)) t3Temp)
      let t41' := o.modp (o.mul (o.mul (o.emodPow (o.invp aPrime) c)
        (o.emodPow (o.invp pk) pf.s.s4)) t41Temp)
      let t42' := o.modp (o.mul (o.mul (o.emodPow (o.invp bPrime) c)
        (o.emodPow (o.invp o.generator) pf.s.s4)) t42Temp)
      let tHat' := tHatPrimes o c h0 pf.cHats pf.s.sHats pf.s.sPrimes
      decide (pf.t.t1 = t1') && decide (pf.t.t2 = t2') && decide (pf.t.t3 = t3')
        && decide (pf.t.t4_1 = t41') && decide (pf.t.t4_2 = t42') && decide (pf.t.tHats = tHat')
    | _, _ => false

/-! wire formats -/
def decE5 (o : Ops E X) (bs : Bytes) : Option ((E × E × E × E × E) × Bytes) :=
  match o.codecE.dec bs with
  | none => none
  | some (a, r1) => match o.codecE.dec r1 with
    | none => none
    | some (b, r2) => match o.codecE.dec r2 with
      | none => none
      | some (c, r3) => match o.codecE.dec r3 with
        | none => none
        | some (d, r4) => match o.codecE.dec r4 with
          | none => none
          | some (e, r5) => some ((a, b, c, d, e), r5)

def codecCommitments (o : Ops E X) : Codec (Commitments E) :=
  ⟨fun t => o.serE t.t1 ++ o.serE t.t2 ++ o.serE t.t3 ++ o.serE t.t4_1 ++ o.serE t.t4_2
      ++ (vecE o).enc t.tHats,
   fun bs => match decE5 o bs with
     | none => none
     | some ((a, b, c, d, e), r) => match (vecE o).dec r with
       | none => none
       | some (th, r') => some (⟨a, b, c, d, e, th⟩, r')⟩

def decX4 (o : Ops E X) (bs : Bytes) : Option ((X × X × X × X) × Bytes) :=
  match o.codecX.dec bs with
  | none => none
  | some (a, r1) => match o.codecX.dec r1 with
    | none => none
    | some (b, r2) => match o.codecX.dec r2 with
      | none => none
      | some (c, r3) => match o.codecX.dec r3 with
        | none => none
        | some (d, r4) => some ((a, b, c, d), r4)

def codecResponses (o : Ops E X) : Codec (Responses X) :=
  ⟨fun s => o.serX s.s1 ++ o.serX s.s2 ++ o.serX s.s3 ++ o.serX s.s4 ++ (vecX o).enc s.sHats
      ++ (vecX o).enc s.sPrimes,
   fun bs => match decX4 o bs with
     | none => none
     | some ((a, b, c, d), r) => match (vecX o).dec r with
       | none => none
       | some (sh, r1) => match (vecX o).dec r1 with
         | none => none
         | some (sp, r2) => some (⟨a, b, c, d, sh, sp⟩, r2)⟩

def codecShuffleProof (o : Ops E X) : Codec (ShuffleProof E X) :=
  ⟨fun p => (codecCommitments o).enc p.t ++ (codecResponses o).enc p.s ++ (vecE o).enc p.cs
      ++ (vecE o).enc p.cHats,
   fun bs => match (codecCommitments o).dec bs with
     | none => none
     | some (t, r1) => match (codecResponses o).dec r1 with
       | none => none
       | some (s, r2) => match (vecE o).dec r2 with
         | none => none
         | some (cs, r3) => match (vecE o).dec r3 with
           | none => none
           | some (ch, r4) => some (⟨t, s, cs, ch⟩, r4)⟩

end Strand
