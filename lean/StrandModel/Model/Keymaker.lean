import StrandModel.Model.Zkp
/- keymaker.rs: n-of-n distributed keys. -/
namespace Strand
variable {E X : Type}

/-- the accumulation loop shared by `combine_pks`, `joint_dec`: `acc = acc.mul(x).modp()` -/
def mulAll (o : Ops E X) (first : E) (rest : List E) : E :=
  rest.foldl (fun acc x => o.modp (o.mul acc x)) first

/-- `Keymaker::share`: the public share and a Schnorr proof of its secret (one draw) -/
def kmShare (o : Ops E X) (sk : X) (label : Bytes) (r : X) : E × Schnorr E X :=
  (pkOf o sk, schnorrProve o sk (pkOf o sk) none label r)

/-- `Keymaker::verify_share` -/
def kmVerifyShare [DecidableEq E] [DecidableEq X] (o : Ops E X) (pk : E) (pf : Schnorr E X)
    (label : Bytes) : Bool := schnorrVerify o pk none pf label

/-- `Keymaker::combine_pks` (`none` = index panic on the empty list) -/
def combinePks (o : Ops E X) : List E → Option E
  | [] => none
  | pk :: pks => some (mulAll o pk pks)

/-- `Keymaker::decryption_factor` (one draw) -/
def kmDecryptionFactor (o : Ops E X) (sk : X) (pkElement : E) (c : Ciphertext E) (label : Bytes)
    (r : X) : E × ChaumPedersen E X :=
  let f := decryptionFactor o sk c
  (f, decryptionProof o sk pkElement f c.mhr c.gr label r)

/-- `Keymaker::joint_dec` (`none` = index panic on the empty list) -/
def jointDec (o : Ops E X) (decs : List E) (c : Ciphertext E) : Option E :=
  match decs with
  | [] => none
  | d :: ds => some (o.modp (o.divp c.mhr (mulAll o d ds)))

/-- the per-position body of `joint_dec_many`; `none` = index panic -/
def jointDecAt (o : Ops E X) (decs : List (List E)) (i : Nat) (c : Ciphertext E) : Option E :=
  match decs with
  | [] => none
  | d0 :: ds => match d0[i]? with
    | none => none
    | some first =>
      match ds.foldl (fun acc d => match acc, d[i]? with
          | some a, some x => some (o.modp (o.mul a x))
          | _, _ => none) (some first) with
      | none => none
      | some acc => some (o.modp (o.divp c.mhr acc))

def jointDecManyFrom (o : Ops E X) (decs : List (List E)) : Nat → List (Ciphertext E) → Option (List E)
  | _, [] => some []
  | i, c :: cs => match jointDecAt o decs i c with
    | none => none
    | some e => match jointDecManyFrom o decs (i + 1) cs with
      | none => none
      | some es => some (e :: es)

/-- `Keymaker::joint_dec_many` -/
def jointDecMany (o : Ops E X) (decs : List (List E)) (cs : List (Ciphertext E)) :
    Option (List E) := jointDecManyFrom o decs 0 cs

/-- `Keymaker::verify_decryption_factors` (`none` = the `assert_eq!` on lengths fires) -/
def verifyDecryptionFactors [DecidableEq E] [DecidableEq X] (o : Ops E X) (pk : E)
    (cts : List (Ciphertext E)) (decs : List E) (proofs : List (ChaumPedersen E X))
    (label : Bytes) : Option Bool :=
  if decs.length ≠ proofs.length ∨ decs.length ≠ cts.length then none
  else some ((List.zip cts (List.zip decs proofs)).all fun (c, d, pf) =>
    verifyDecryption o pk d c.mhr c.gr pf label)

end Strand
