import StrandModel.Model.Edwards
import StrandModel.Model.Sha512
import StrandModel.Model.Base64
/-
The two Ed25519 front-ends of strand:
  src/signature.rs  = ed25519-zebra 3.1.0 (over curve25519-dalek 3.2.0)  — ZIP-215 verification
  src/signature2.rs = ed25519-dalek 2.2.0 (over curve25519-dalek 4.1.3)  — `Verifier::verify`
Key generation and signing are RFC 8032 §5.1.5–5.1.6 in both (deterministic; both produce the
same bytes).  Core Lean only; executable.
-/
namespace Strand
open Strand.F25519 Strand.Ed

namespace Ed25519

/-- ℓ, the order of the basepoint -/
def ell : Nat := 7237005577332262213973186563042994240857116359379907606001950938285454250989

/-- `Scalar::from_hash(Sha512)` = `from_bytes_mod_order_wide` of the digest -/
def hashScalar (bs : Bytes) : Nat := natOfLE (sha512 bs) % ell

/-- clamped secret scalar (as an integer in [2^254, 2^255), multiple of 8) and the prefix.
    zebra keeps the clamped 255-bit integer (`Scalar::from_bits`), dalek 2.x reduces it mod ℓ
    (`from_bytes_mod_order(clamp_integer(..))`); `[s]B` and `r + k s mod ℓ` do not notice. -/
def expand (seed : Bytes) : Nat × Bytes :=
  let h := sha512 seed
  let a := natOfLE (h.take 32)
  let a := a % two255                       -- bytes[31] &= 127
  let a := a - a % 8                        -- bytes[0]  &= 248
  let a := if a / (two255 / 2) = 0 then a + two255 / 2 else a   -- bytes[31] |= 64
  (a, (h.drop 32).take 32)

/-- canonical-scalar test used on `s`: zebra `Scalar::from_canonical_bytes` (dalek 3.2.0: high
    bit clear and `is_canonical`), dalek `check_scalar` without `legacy_compatibility`
    (`Scalar::from_canonical_bytes` of 4.1.3).  Both: exactly `s < ℓ`. -/
def canonicalScalar (bs : Bytes) : Option Nat :=
  if bs.length ≠ 32 then none
  else let n := natOfLE bs; if n < ell then some n else none

end Ed25519

open Ed25519

/-- public key of a 32-byte seed (`VerificationKey::from(&SigningKey)`,
    `SigningKey::verifying_key().to_bytes()`) -/
def edPublicKey (seed : Bytes) : Bytes := compress (smulBaseFast (expand seed).1)

/-- RFC 8032 signature (`SigningKey::sign` of both libraries) -/
def edSign (seed msg : Bytes) : Bytes :=
  let (a, pre) := expand seed
  let A := compress (smulBaseFast a)
  let r := hashScalar (pre ++ msg)
  let R := compress (smulBaseFast r)
  let k := hashScalar (R ++ A ++ msg)
  R ++ leFixed 32 ((r + k * a) % ell)

/-- ed25519-zebra 3.1.0 `VerificationKey::try_from(pk)` followed by `verify(sig, msg)`:
    * A: permissive decompression (non-canonical y accepted, "negative zero" x accepted);
      `k` is hashed over the GIVEN bytes of R and A;
    * s must be canonical (`< ℓ`);  R: permissive decompression;
    * accept iff [8](R - ([s]B - [k]A)) is the identity.
    A `pk` that does not decompress or a wrong length gives `false` (in the Rust the key /
    signature object could not have been built). -/
def edVerifyZebra (pk sig msg : Bytes) : Bool :=
  if pk.length ≠ 32 ∨ sig.length ≠ 64 then false
  else match decompress pk with
    | none => false
    | some A =>
      let Rb := sig.take 32
      let k := hashScalar (Rb ++ pk ++ msg)
      match canonicalScalar (sig.drop 32) with
      | none => false
      | some s => match decompress Rb with
        | none => false
        | some R =>
          let R' := add (smulFast k (neg A)) (smulBaseFast s)
          isIdentity (mulByCofactor (sub R R'))

/-- ed25519-dalek 2.2.0 `VerifyingKey::from_bytes(pk)` followed by `Verifier::verify(msg, sig)`
    (= `raw_verify::<Sha512>`; NOT `verify_strict`: small-order A and R are not rejected):
    * A: the same permissive decompression; s must be canonical (`InternalSignature::try_from`);
    * R' = [s]B - [k]A is COMPRESSED and compared with the 32 given bytes of R — no cofactor,
      R is never decompressed, and a non-canonical encoding of R can never match. -/
def edVerifyDalek (pk sig msg : Bytes) : Bool :=
  if pk.length ≠ 32 ∨ sig.length ≠ 64 then false
  else match decompress pk with
    | none => false
    | some A =>
      let Rb := sig.take 32
      match canonicalScalar (sig.drop 32) with
      | none => false
      | some s =>
        let k := hashScalar (Rb ++ pk ++ msg)
        let R' := add (smulFast k (neg A)) (smulBaseFast s)
        compress R' == Rb

/-! ### what strand's `BorshDeserialize` impls accept (via `strand_deserialize` =
`try_from_slice`: exact length).  The result is the canonical re-serialisation. -/

/-- `StrandSignaturePk` (zebra): 32 bytes that decompress permissively; the ORIGINAL bytes are
    kept (`A_bytes`) and re-serialised, also when they are a non-canonical encoding -/
def desSigPkZ (bs : Bytes) : Option Bytes :=
  if bs.length ≠ 32 then none
  else match decompress bs with
    | none => none
    | some _ => some bs

/-- `StrandSignaturePk` (dalek): `VerifyingKey::from_bytes` — same acceptance, the original
    bytes are kept (`compressed`); weak (small-order) keys are accepted -/
def desSigPkD (bs : Bytes) : Option Bytes := desSigPkZ bs

/-- `StrandSignatureSk` (both): any 32 bytes (the seed) -/
def desSigSkZ (bs : Bytes) : Option Bytes := if bs.length = 32 then some bs else none
def desSigSkD (bs : Bytes) : Option Bytes := desSigSkZ bs

/-- `StrandSignatureSk::new(rng)` of both front-ends (`SigningKey::new` of ed25519-zebra,
    `SigningKey::generate` of ed25519-dalek): ONE `fill_bytes` of 32 bytes, the bytes are the seed.
    `none` = the tape ran out (the harness never lets that happen). -/
def edGenerate (tape : Bytes) : Option (Bytes × Bytes) :=
  if 32 ≤ tape.length then some (tape.take 32, tape.drop 32) else none

/-- `StrandSignature` (both): any 64 bytes — `Signature::try_from([u8; 64])` is the blanket
    impl over the infallible `From<[u8; 64]>`; neither R nor s is inspected before `verify` -/
def desSigZ (bs : Bytes) : Option Bytes := if bs.length = 64 then some bs else none
def desSigD (bs : Bytes) : Option Bytes := desSigZ bs

/-- `String::try_from(key)` / `TryFrom<String>` : base64 without padding around the borsh bytes -/
def sigPkOfStringZ (s : Bytes) : Option Bytes := (b64decode s).bind desSigPkZ
def sigPkOfStringD (s : Bytes) : Option Bytes := (b64decode s).bind desSigPkD
def sigSkOfString (s : Bytes) : Option Bytes := (b64decode s).bind desSigSkZ
def sigOfString (s : Bytes) : Option Bytes := (b64decode s).bind desSigZ

end Strand
