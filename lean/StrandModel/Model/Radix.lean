import StrandModel.Model.NatBackend
/-!
# Radix-string entry points of the multiplicative back-ends

`BigintCtx::element_from_string_radix` / `MalachiteCtx::element_from_string_radix` (a string in
radix 2..36 → big integer → `element_from_biguint` / `element_from_natural`, i.e. the same range and
Legendre tests as the byte decoder) and `to_string_radix` of elements and exponents.

The string → integer step is the dependency's (`BigUint::from_str_radix` of num-bigint 0.4.8,
`Natural::from_string_base` of malachite-nz 0.3.2).  Modelled by their documented grammar:

* num-bigint: one optional leading `+` (not followed by another `+`), then a non-empty string that does
  not start with `_`; `_` is skipped anywhere else; every other character must be an alphanumeric digit
  below the radix (either case).
* malachite: non-empty, alphanumeric digits below the radix (either case), nothing else.
  (malachite 0.3.2 deviates from its documentation on inputs the harness therefore does not send to it:
  radix 2/8/16 strings short enough for a machine word go through `u64::from_str_radix`, which accepts
  a leading `+`, and LONG radix-8/16 strings do not compare digits against the radix.  Either way the
  integer then passes through `element_from_natural`, so membership of an accepted element does not
  depend on the parser: theorem `C11.element_from_string_sound` is stated for an arbitrary parser.)
-/
namespace Strand

/-- value of an alphanumeric digit character (`digit_from_display_byte`) -/
def digitVal (b : UInt8) : Option Nat :=
  if 48 ≤ b ∧ b ≤ 57 then some (b.toNat - 48)
  else if 97 ≤ b ∧ b ≤ 122 then some (b.toNat - 87)
  else if 65 ≤ b ∧ b ≤ 90 then some (b.toNat - 55)
  else none

/-- big-endian digits to number -/
def digitsValue (radix : Nat) (ds : List Nat) : Nat := ds.foldl (fun acc d => acc * radix + d) 0

def digitBelow (radix : Nat) (b : UInt8) : Option Nat :=
  match digitVal b with
  | some d => if d < radix then some d else none
  | none => none

/-- every character a digit below the radix, or `none` -/
def digitsOf (radix : Nat) : Bytes → Option (List Nat)
  | [] => some []
  | b :: bs => match digitBelow radix b, digitsOf radix bs with
    | some d, some ds => some (d :: ds)
    | _, _ => none

/-- malachite's documented grammar -/
def parseStrict (radix : Nat) (s : Bytes) : Option Nat :=
  if s = [] then none else (digitsOf radix s).map (digitsValue radix)

/-- one leading `+` (43) is dropped unless another `+` follows -/
def stripPlus : Bytes → Bytes
  | 43 :: 43 :: rest => 43 :: 43 :: rest
  | 43 :: tail => tail
  | s => s

/-- num-bigint's grammar (`+` = 43, `_` = 95) -/
def parseBigint (radix : Nat) (s : Bytes) : Option Nat :=
  let s := stripPlus s
  if s = [] then none
  else if s.head? = some 95 then none
  else (digitsOf radix (s.filter (· ≠ 95))).map (digitsValue radix)

def parseRadix (fl : Flavour) (radix : Nat) (s : Bytes) : Option Nat :=
  match fl with
  | .bigint => parseBigint radix s
  | .malachite => parseStrict radix s

/-- lower-case digit character -/
def digitChar (d : Nat) : UInt8 := if d < 10 then (48 + d).toUInt8 else (87 + d).toUInt8

/-- big-endian digits of a positive number, accumulated -/
def toDigitsAux (radix : Nat) : Nat → Nat → List Nat → List Nat
  | 0, _, acc => acc
  | fuel + 1, n, acc => if n = 0 then acc else toDigitsAux radix fuel (n / radix) (n % radix :: acc)

/-- `to_string_radix` (both libraries print lower case, `0` as "0") -/
def toRadix (radix n : Nat) : Bytes :=
  if n = 0 then [48] else (toDigitsAux radix n n []).map digitChar

/-- `element_from_string_radix` with the parser as a parameter -/
def elementFromStringWith (P : Params) (parse : Bytes → Option Nat) (s : Bytes) : Option Nat :=
  match parse s with
  | none => none
  | some n => Nat'.elementFromNat P n

def elementFromStringRadix (P : Params) (fl : Flavour) (radix : Nat) (s : Bytes) : Option Nat :=
  elementFromStringWith P (parseRadix fl radix) s

end Strand
