import StrandModel.Model.Ops
/- elgamal.rs, one definition per Rust function. Randomness is an explicit argument. -/
namespace Strand

structure Ciphertext (E : Type) where
  mhr : E
  gr : E
deriving DecidableEq, Repr

variable {E X : Type}

/-- `PrivateKey::from(secret).pk_element` -/
def pkOf (o : Ops E X) (sk : X) : E := o.gmodPow sk

/-- `PublicKey::encrypt_with_randomness` -/
def encryptWith (o : Ops E X) (pk : E) (m : E) (r : X) : Ciphertext E :=
  { mhr := o.modp (o.mul m (o.emodPow pk r)), gr := o.gmodPow r }

/-- `PublicKey::encrypt`: one draw -/
def encrypt (o : Ops E X) (pk m : E) : List X → Option (Ciphertext E × List X)
  | [] => none
  | r :: tape => some (encryptWith o pk m r, tape)

/-- `PublicKey::encrypt_exponential`: one draw -/
def encryptExponential (o : Ops E X) (pk : E) (x : X) (tape : List X) :=
  encrypt o pk (o.gmodPow x) tape

/-- `PrivateKey::decrypt` -/
def decrypt (o : Ops E X) (sk : X) (c : Ciphertext E) : E :=
  o.modp (o.divp c.mhr (o.emodPow c.gr sk))

/-- `PrivateKey::decryption_factor` -/
def decryptionFactor (o : Ops E X) (sk : X) (c : Ciphertext E) : E := o.emodPow c.gr sk

/-- what every caller does with a factor: `c.mhr.divp(factor).modp()` -/
def divideByFactor (o : Ops E X) (c : Ciphertext E) (f : E) : E := o.modp (o.divp c.mhr f)

/-- component-wise product of two ciphertexts, reduced -/
def ctMul (o : Ops E X) (a b : Ciphertext E) : Ciphertext E :=
  { mhr := o.modp (o.mul a.mhr b.mhr), gr := o.modp (o.mul a.gr b.gr) }

/-- component-wise product of two ciphertexts with the raw `Element::mul` -/
def ctMulRaw (o : Ops E X) (a b : Ciphertext E) : Ciphertext E :=
  { mhr := o.mul a.mhr b.mhr, gr := o.mul a.gr b.gr }

/-- borsh of `Ciphertext` = field concatenation -/
def codecCt (o : Ops E X) : Codec (Ciphertext E) :=
  ⟨fun c => o.serE c.mhr ++ o.serE c.gr,
   fun bs => match o.codecE.dec bs with
     | none => none
     | some (a, r) => match o.codecE.dec r with
       | none => none
       | some (b, r') => some (⟨a, b⟩, r')⟩

/-- `PublicKey` on the wire: the element. -/
def codecPk (o : Ops E X) : Codec E := o.codecE

/-- `PrivateKey` on the wire: value, then pk_element. -/
def codecSk (o : Ops E X) : Codec (X × E) := pair o.codecX o.codecE

end Strand
