import StrandModel.Model.Bytes
/-
A tiny codec algebra for borsh 0.9.3 as used by strand.
`dec` returns the decoded value and the unconsumed rest; `tryFromSlice` is
`BorshDeserialize::try_from_slice` (fails on trailing bytes).
-/
namespace Strand

structure Codec (α : Type) where
  enc : α → Bytes
  dec : Bytes → Option (α × Bytes)

def tryFromSlice (c : Codec α) (bs : Bytes) : Option α :=
  match c.dec bs with
  | some (a, []) => some a
  | _ => none

/-- read a little-endian u32 -/
def decU32 (bs : Bytes) : Option (Nat × Bytes) :=
  match bs with
  | a :: b :: c :: d :: rest => some (natOfLE [a, b, c, d], rest)
  | _ => none

/-- `Vec<u8>` : u32 length, then the bytes; decoding checks `len ≤ remaining` -/
def encBytesVec (bs : Bytes) : Bytes := u32le bs.length ++ bs

def decBytesVec (bs : Bytes) : Option (Bytes × Bytes) :=
  match decU32 bs with
  | none => none
  | some (len, rest) => if len ≤ rest.length then some (rest.take len, rest.drop len) else none

def bytesVec : Codec Bytes := ⟨encBytesVec, decBytesVec⟩

/-- `[u8; n]` : no prefix -/
def fixedBytes (n : Nat) : Codec Bytes :=
  ⟨fun bs => bs, fun bs => if n ≤ bs.length then some (bs.take n, bs.drop n) else none⟩

def pair (a : Codec α) (b : Codec β) : Codec (α × β) :=
  ⟨fun (x, y) => a.enc x ++ b.enc y,
   fun bs => match a.dec bs with
     | none => none
     | some (x, r) => match b.dec r with
       | none => none
       | some (y, r') => some ((x, y), r')⟩

/-- decode `n` consecutive items -/
def decItems (c : Codec α) : Nat → Bytes → Option (List α × Bytes)
  | 0, bs => some ([], bs)
  | n + 1, bs => match c.dec bs with
    | none => none
    | some (a, r) => match decItems c n r with
      | none => none
      | some (as, r') => some (a :: as, r')

/-- generic `Vec<T>` : u32 count, then the items -/
def vecOf (c : Codec α) : Codec (List α) :=
  ⟨fun xs => u32le xs.length ++ xs.flatMap c.enc,
   fun bs => match decU32 bs with
     | none => none
     | some (n, rest) => decItems c n rest⟩

def mapOpt (f : α → Option β) : List α → Option (List β)
  | [] => some []
  | a :: as => match f a with
    | none => none
    | some b => match mapOpt f as with
      | none => none
      | some bs => some (b :: bs)

/-- the `StrandVector*` wrappers: `Vec<Vec<u8>>` of individually serialised items,
    each of which must decode with nothing left over -/
def nested (c : Codec α) : Codec (List α) :=
  ⟨fun xs => (vecOf bytesVec).enc (xs.map c.enc),
   fun bs => match (vecOf bytesVec).dec bs with
     | none => none
     | some (items, rest) => match mapOpt (tryFromSlice c) items with
       | none => none
       | some xs => some (xs, rest)⟩

/-- Insert with overwrite into an association list kept sorted by key bytes:
    `HashMap::insert` followed by borsh's sort-by-key at serialisation time. -/
def mapInsert (k v : Bytes) : List (Bytes × Bytes) → List (Bytes × Bytes)
  | [] => [(k, v)]
  | (k', v') :: rest =>
    if bytesLt k k' then (k, v) :: (k', v') :: rest
    else if bytesLt k' k then (k', v') :: mapInsert k v rest
    else (k, v) :: rest

def mapOfList (entries : List (Bytes × Bytes)) : List (Bytes × Bytes) :=
  entries.foldl (fun m (k, v) => mapInsert k v m) []

/-- borsh of a `HashMap<String, Vec<u8>>` given its (sorted) association list -/
def encSortedMap (m : List (Bytes × Bytes)) : Bytes :=
  u32le m.length ++ m.flatMap fun (k, v) => encBytesVec k ++ encBytesVec v

/-- borsh of the `HashMap<String, Vec<u8>>` built by inserting `entries` in order -/
def encMap (entries : List (Bytes × Bytes)) : Bytes := encSortedMap (mapOfList entries)

/-- borsh `hint::cautious`: the only speculative allocation of the generic `Vec<T>` decoder -/
def cautious (sizeOfT len : Nat) : Nat :=
  max (min len (4096 / sizeOfT)) 1

end Strand
