import StrandModel.Model.Edwards
import StrandModel.Model.Keccak
import StrandModel.Model.Sha512
import StrandModel.Model.ElGamal
/-
The Ristretto back-end of strand (src/backend/ristretto.rs over curve25519-dalek 4.1.3).

* ristretto255 group (RFC 9496): an element is represented by its canonical 32-byte encoding,
  read as a little-endian `Nat`; so equality of `Nat`s is equality of group elements
  (`RistrettoPoint::eq` is equality of cosets, `compress` is a bijection cosets → encodings).
* scalars: `Nat` in [0, ℓ) (a dalek `Scalar` reachable from strand is always reduced).

Core Lean only; executable; every function total.
-/
namespace Strand.R255
open Strand Strand.F25519 Strand.Ed

/-- ℓ = 2^252 + 27742317777372353535851937790883648493 -/
def ell : Nat := 7237005577332262213973186563042994240857116359379907606001950938285454250989

/-! ### encoding / decoding (RFC 9496 §4.3.1, §4.3.2) -/

/-- `CompressedRistretto::decompress` on the little-endian value `n` of the 32 bytes.
    Checks, in dalek's order: s canonical (`n < p`; this includes "bit 255 clear"), s
    non-negative (even); then `ok` (the inverse square root exists), `t` non-negative, `y ≠ 0`. -/
def decodeNat (n : Nat) : Option Point :=
  if n ≥ p then none
  else if isNegative n then none
  else
    let s := n
    let ss := fsq s
    let u1 := fsub 1 ss
    let u2 := fadd 1 ss
    let u2sq := fsq u2
    let v := fsub (fmul (fneg d) (fsq u1)) u2sq
    let (ok, I) := invsqrt (fmul v u2sq)
    let Dx := fmul I u2
    let Dy := fmul I (fmul Dx v)
    let x := fabs (fmul (fadd s s) Dx)
    let y := fmul u1 Dy
    let t := fmul x y
    if !ok || isNegative t || y == 0 then none else some ⟨x, y, 1, t⟩

/-- `CompressedRistretto(bytes).decompress()`; any length other than 32 is rejected -/
def decodeBytes (bs : Bytes) : Option Point :=
  if bs.length ≠ 32 then none else decodeNat (natOfLE bs)

/-- `RistrettoPoint::compress`, as the little-endian value of the 32 bytes (always `< p`, even) -/
def encodeNat (P : Point) : Nat :=
  let u1 := fmul (fadd P.Z P.Y) (fsub P.Z P.Y)
  let u2 := fmul P.X P.Y
  let (_, isr) := invsqrt (fmul u1 (fsq u2))
  let i1 := fmul isr u1
  let i2 := fmul isr u2
  let zInv := fmul i1 (fmul i2 P.T)
  let iX := fmul P.X sqrtM1
  let iY := fmul P.Y sqrtM1
  let enchanted := fmul i1 invsqrtAMinusD
  let rotate := isNegative (fmul P.T zInv)
  let X := if rotate then iY else P.X
  let Y := if rotate then iX else P.Y
  let denInv := if rotate then enchanted else i2
  let Y := if isNegative (fmul X zInv) then fneg Y else Y
  fabs (fmul denInv (fsub P.Z Y))

def encodeBytes (P : Point) : Bytes := leFixed 32 (encodeNat P)

/-- ristretto equality of two Edwards representatives (`RistrettoPoint::ct_eq`):
    X1 Y2 = Y1 X2  or  X1 X2 = Y1 Y2.  Agrees with equality of encodings. -/
def req (P Q : Point) : Bool :=
  fmul P.X Q.Y == fmul P.Y Q.X || fmul P.X Q.X == fmul P.Y Q.Y

/-! ### one-way map (RFC 9496 §4.3.4) -/

/-- `RistrettoPoint::elligator_ristretto_flavor` (RFC 9496 `MAP`) -/
def elligator (r0 : Nat) : Point :=
  let r := fmul sqrtM1 (fsq r0)
  let Ns := fmul (fadd r 1) oneMinusDSq
  let c := minusOne
  let D := fmul (fsub c (fmul d r)) (fadd r d)
  let (isSq, s) := sqrtRatioM1 Ns D
  let sPrime := fmul s r0
  let sPrime := if !isNegative sPrime then fneg sPrime else sPrime     -- -|s r0|
  let s := if !isSq then sPrime else s
  let c := if !isSq then r else c
  let Nt := fsub (fmul (fmul c (fsub r 1)) dMinusOneSq) D
  let sSq := fsq s
  -- CompletedPoint { X, Y, Z, T }.as_extended() = (X T, Y Z, Z T, X Y)
  let cX := fmul (fadd s s) D
  let cZ := fmul Nt sqrtAdMinusOne
  let cY := fsub 1 sSq
  let cT := fadd 1 sSq
  ⟨fmul cX cT, fmul cY cZ, fmul cZ cT, fmul cX cY⟩

/-- `RistrettoPoint::from_uniform_bytes` on 64 bytes: both halves are read with
    `FieldElement::from_bytes` (bit 255 dropped, reduced mod p), mapped, and added -/
def fromUniformPoint (bs : Bytes) : Point :=
  add (elligator (feOfBytes (bs.take 32))) (elligator (feOfBytes ((bs.drop 32).take 32)))

def fromUniformBytes (bs : Bytes) : Nat := encodeNat (fromUniformPoint bs)

/-! ### scalars mod ℓ -/

/-- `Scalar::from_bytes_mod_order_wide` : 64 little-endian bytes mod ℓ -/
def scalarOfWide (bs : Bytes) : Nat := natOfLE (bs.take 64) % ell

/-- `Scalar::from_bytes_mod_order` : 32 little-endian bytes mod ℓ -/
def scalarOfBytesModOrder (bs : Bytes) : Nat := natOfLE (bs.take 32) % ell

/-- `Scalar::from_canonical_bytes` (4.1.3): `high_bit_unset & is_canonical`, where
    `is_canonical` is `self == self.reduce()`.  Together: exactly the values `< ℓ`
    (ℓ < 2^253, so a canonical value never has bit 255 set). -/
def scalarFromCanonical (bs : Bytes) : Option Nat :=
  if bs.length ≠ 32 then none
  else
    let n := natOfLE bs
    if n / two255 ≠ 0 then none       -- high bit set
    else if n < ell then some n else none

def scalarToBytes (x : Nat) : Bytes := leFixed 32 x

def spowAux : Nat → Nat → Nat → Nat → Nat
  | 0, _, _, acc => acc
  | fuel + 1, a, e, acc =>
    if e = 0 then acc
    else spowAux fuel (a * a % ell) (e / 2) (if e % 2 = 1 then acc * a % ell else acc)

/-- `Scalar::invert` : `x^(ℓ-2) mod ℓ` (Montgomery ladder in dalek); `invert(0) = 0`, no panic -/
def scalarInvert (x : Nat) : Nat := spowAux 253 (x % ell) (ell - 2) 1

@[inline] def sadd (a b : Nat) : Nat := (a + b) % ell
@[inline] def ssub (a b : Nat) : Nat := (a % ell + ell - b % ell) % ell
@[inline] def smulq (a b : Nat) : Nat := a * b % ell

/-! ### the back-end record -/

/-- the point encoded by `e`.  A value that is not a valid encoding cannot come from the Rust
    (a `RistrettoPointS` always holds a valid point); for totality it is read as the identity. -/
def pt (e : Nat) : Point := (decodeNat e).getD identity

/-- `CompressedRistretto` of `RISTRETTO_BASEPOINT_POINT`:
    e2f2ae0a6abc4e71a884a961c500515f58e30b6aa582dd8db6a65945e08d2d76 -/
def generatorE : Nat := encodeNat basepoint

def codecE : Codec Nat :=
  ⟨fun a => leFixed 32 a,
   fun bs =>
     if bs.length < 32 then none
     else match decodeNat (natOfLE (bs.take 32)) with
       | none => none
       | some _ => some (natOfLE (bs.take 32), bs.drop 32)⟩

def codecX : Codec Nat :=
  ⟨fun x => leFixed 32 x,
   fun bs =>
     if bs.length < 32 then none
     else match scalarFromCanonical (bs.take 32) with
       | none => none
       | some x => some (x, bs.drop 32)⟩

end Strand.R255

namespace Strand
open Strand.R255 Strand.Ed

/-- `RistrettoCtx` as an `Ops` record.  E = canonical encoding as LE `Nat`; X = `Nat < ℓ`.
    Arguments that are not valid encodings / not reduced cannot come from the Rust; elements
    are then read as the identity (encoding 0) and exponents are reduced. -/
def ristrettoOps : Ops Nat Nat where
  generator := generatorE
  identE := 0
  gmodPow := fun x => encodeNat (smulBaseFast x)
  emodPow := fun a x => encodeNat (smulFast x (pt a))
  mul := fun a b => encodeNat (add (pt a) (pt b))
  modp := fun a => a
  invp := fun a => encodeNat (neg (pt a))
  zeroX := 0
  oneX := 1
  xadd := sadd
  xsub := ssub
  xmul := smulq
  -- `Exponent::modq` is the identity on `Scalar`, which is always reduced; the model's exponent
  -- type is `Nat`, so reduce here (agrees with the identity on every value the Rust can hold;
  -- without it `Lawful ristrettoOps` would be unsatisfiable: Lemmas/LawfulSplit.lean)
  modq := fun x => x % R255.ell
  invq := scalarInvert
  subMod := ssub
  fromU64 := fun n => n % ell
  hashToExp := fun bs => scalarOfWide (sha512 bs)
  hash := sha512
  codecE := R255.codecE
  codecX := R255.codecX

/-- `Ctx::element_from_bytes` -/
def ristrettoElementFromBytes (bs : Bytes) : Option Nat :=
  match decodeBytes bs with
  | none => none
  | some _ => some (natOfLE bs)

/-- `Ctx::exp_from_bytes` -/
def ristrettoExpFromBytes (bs : Bytes) : Option Nat := scalarFromCanonical bs

/-- the search of `Ctx::encode`: candidate number `k` has byte 31 = k / 128 and byte 0 =
    2 (k % 128); the first candidate that decodes wins.  `n` = candidates still to try. -/
def ristrettoEncodeSearch (mid : Nat) : Nat → Nat → Option Nat
  | 0, _ => none
  | n + 1, k =>
    let v := 2 * (k % 128) + 256 * mid + (k / 128) * 2 ^ 248
    match decodeNat v with
    | some _ => some v
    | none => ristrettoEncodeSearch mid n (k + 1)

/-- `Ctx::encode` of a 30-byte plaintext (`none` = `Err`; also for a wrong length, which the
    type `[u8; 30]` excludes): outer loop j in 0..64 sets byte 31, inner loop i in 0..128 sets
    byte 0 = 2 i, bytes 1..=30 carry the data -/
def ristrettoEncode (data : Bytes) : Option Nat :=
  if data.length ≠ 30 then none else ristrettoEncodeSearch (natOfLE data) 8192 0

/-- `Ctx::decode` : bytes 1..=30 of the encoding -/
def ristrettoDecode (e : Nat) : Bytes := ((leFixed 32 e).drop 1).take 30

/-- the plaintext type `[u8; 30]` on the wire: 30 raw bytes -/
def ristrettoCodecP : Codec Bytes := fixedBytes 30

/-- `Ctx::encrypt_exp`.  Outer `none` = the tape ran dry.  Inner `none` = `Err`.
    Order of effects in the Rust: both encodings are computed; `first?`; draw r1 (encrypt);
    `second?`; draw r2; serialise the `Vec` of the two ciphertexts. -/
def ristrettoEncryptExp (x pk : Nat) (tape : List Nat) : Option (Option Bytes × List Nat) :=
  let bytes := leFixed 32 x
  let first := ristrettoEncode (bytes.take 16 ++ List.replicate 14 0)
  let second := ristrettoEncode ((bytes.drop 16).take 16 ++ List.replicate 14 0)
  match first with
  | none => some (none, tape)
  | some m1 => match tape with
    | [] => none
    | r1 :: tape => match second with
      | none => some (none, tape)
      | some m2 => match tape with
        | [] => none
        | r2 :: tape =>
          let c1 := encryptWith ristrettoOps pk m1 r1
          let c2 := encryptWith ristrettoOps pk m2 r2
          some (some ((vecOf (codecCt ristrettoOps)).enc [c1, c2]), tape)

/-- `Ctx::decrypt_exp` (`none` = `Err`) -/
def ristrettoDecryptExp (bs : Bytes) (sk : Nat) : Option Nat :=
  match tryFromSlice (vecOf (codecCt ristrettoOps)) bs with
  | some [c1, c2] =>
    let first := ristrettoDecode (decrypt ristrettoOps sk c1)
    let second := ristrettoDecode (decrypt ristrettoOps sk c2)
    ristrettoExpFromBytes (first.take 16 ++ second.take 16)
  | _ => none

/-- `split64 n bs` : the first `n` 64-byte chunks of `bs` -/
def split64 : Nat → Bytes → List Bytes
  | 0, _ => []
  | n + 1, bs => bs.take 64 :: split64 n (bs.drop 64)

/-- `Ctx::generators(size, seed)` = `generators_shake`: one SHAKE-256 stream over the seed,
    64 bytes per point, `from_uniform_bytes`.  (Unlike the multiplicative back-ends there is no
    "ggen" suffix, no index and no retry.) -/
def ristrettoGenerators (size : Nat) (seed : Bytes) : List Nat :=
  (split64 size (shake256 seed (64 * size))).map fromUniformBytes

/-- `rnd_exp` from RNG bytes: 64 bytes, `from_bytes_mod_order_wide` -/
def ristrettoRndExp (tape : Bytes) : Option (Nat × Bytes) :=
  if tape.length < 64 then none else some (scalarOfWide (tape.take 64), tape.drop 64)

/-- `rnd` from RNG bytes: 64 bytes, `from_uniform_bytes` -/
def ristrettoRnd (tape : Bytes) : Option (Nat × Bytes) :=
  if tape.length < 64 then none else some (fromUniformBytes (tape.take 64), tape.drop 64)

/-- `rnd_plaintext` from RNG bytes: 30 bytes -/
def ristrettoRndPlaintext (tape : Bytes) : Option (Bytes × Bytes) :=
  if tape.length < 30 then none else some (tape.take 30, tape.drop 30)

end Strand
