import StrandModel.Model.ElGamal
/- zkp.rs, one definition per Rust function; byte-exact transcripts. -/
namespace Strand

structure Schnorr (E X : Type) where
  commitment : E
  challenge : X
  response : X
deriving DecidableEq, Repr

structure ChaumPedersen (E X : Type) where
  commitment1 : E
  commitment2 : E
  challenge : X
  response : X
deriving DecidableEq, Repr

variable {E X : Type}

def tag (s : String) : Bytes := asciiBytes s

/-- context of `schnorr_prove/verify`, `cp_prove/verify`: {label: raw label bytes} -/
def ctxLabel (label : Bytes) : Bytes := encMap [(tag "label", label)]

/-- context of the ciphertext-bound proofs: {mhr: borsh(E), label: borsh(Vec<u8>)} -/
def ctxMhr (o : Ops E X) (mhr : E) (label : Bytes) : Bytes :=
  encMap [(tag "mhr", o.serE mhr), (tag "label", encBytesVec label)]

/-- bytes hashed by `schnorr_proof_challenge` -/
def schnorrBytes (o : Ops E X) (g pub commitment : E) (ctx : Bytes) : Bytes :=
  encMap [(tag "g", o.serE g), (tag "public", o.serE pub), (tag "commitment", o.serE commitment),
          (tag "context", ctx)]

def schnorrChallenge (o : Ops E X) (g pub commitment : E) (ctx : Bytes) : X :=
  o.hashToExp (schnorrBytes o g pub commitment ctx)

/-- bytes hashed by `cp_proof_challenge` -/
def cpBytes (o : Ops E X) (g1 g2 pub1 pub2 c1 c2 : E) (ctx : Bytes) : Bytes :=
  encMap [(tag "g1", o.serE g1), (tag "g2", o.serE g2), (tag "public1", o.serE pub1),
          (tag "public2", o.serE pub2), (tag "commitment1", o.serE c1),
          (tag "commitment2", o.serE c2), (tag "context", ctx)]

def cpChallenge (o : Ops E X) (g1 g2 pub1 pub2 c1 c2 : E) (ctx : Bytes) : X :=
  o.hashToExp (cpBytes o g1 g2 pub1 pub2 c1 c2 ctx)

/-- `g^r` with the optional base: `emod_pow(g, r)` or `gmod_pow(r)` -/
def powBase (o : Ops E X) (g : Option E) (r : X) : E :=
  match g with
  | some g => o.emodPow g r
  | none => o.gmodPow r

def baseOr (o : Ops E X) (g : Option E) : E := g.getD o.generator

/-- `schnorr_prove_private` with its single draw `r` -/
def schnorrProveWith (o : Ops E X) (secret : X) (pub : E) (g : Option E) (ctx : Bytes) (r : X) :
    Schnorr E X :=
  let commitment := powBase o g r
  let challenge := schnorrChallenge o (baseOr o g) pub commitment ctx
  { commitment, challenge, response := o.modq (o.xadd r (o.xmul challenge secret)) }

/-- `schnorr_verify_private` -/
def schnorrVerifyCtx [DecidableEq E] [DecidableEq X] (o : Ops E X) (pub : E) (g : Option E)
    (pf : Schnorr E X) (ctx : Bytes) : Bool :=
  let ok1 := decide (schnorrChallenge o (baseOr o g) pub pf.commitment ctx = pf.challenge)
  let lhs := powBase o g pf.response
  let rhs := o.modp (o.mul pf.commitment (o.emodPow pub pf.challenge))
  ok1 && decide (lhs = rhs)

/-- `cp_prove_private` with its single draw `r` -/
def cpProveWith (o : Ops E X) (secret : X) (pub1 pub2 : E) (g1 : Option E) (g2 : E) (ctx : Bytes)
    (r : X) : ChaumPedersen E X :=
  let commitment1 := powBase o g1 r
  let commitment2 := o.emodPow g2 r
  let challenge := cpChallenge o (baseOr o g1) g2 pub1 pub2 commitment1 commitment2 ctx
  { commitment1, commitment2, challenge, response := o.modq (o.xadd r (o.xmul challenge secret)) }

/-- `cp_verify_private` -/
def cpVerifyCtx [DecidableEq E] [DecidableEq X] (o : Ops E X) (pub1 pub2 : E) (g1 : Option E)
    (g2 : E) (pf : ChaumPedersen E X) (ctx : Bytes) : Bool :=
  let ok1 := decide (cpChallenge o (baseOr o g1) g2 pub1 pub2 pf.commitment1 pf.commitment2 ctx
      = pf.challenge)
  let lhs1 := powBase o g1 pf.response
  let rhs1 := o.modp (o.mul pf.commitment1 (o.emodPow pub1 pf.challenge))
  let lhs2 := o.emodPow g2 pf.response
  let rhs2 := o.modp (o.mul pf.commitment2 (o.emodPow pub2 pf.challenge))
  ok1 && decide (lhs1 = rhs1) && decide (lhs2 = rhs2)

/-! the public entry points -/

def schnorrProve (o : Ops E X) (secret : X) (pub : E) (g : Option E) (label : Bytes) (r : X) :=
  schnorrProveWith o secret pub g (ctxLabel label) r

def schnorrVerify [DecidableEq E] [DecidableEq X] (o : Ops E X) (pub : E) (g : Option E)
    (pf : Schnorr E X) (label : Bytes) : Bool :=
  schnorrVerifyCtx o pub g pf (ctxLabel label)

def cpProve (o : Ops E X) (secret : X) (pub1 pub2 : E) (g1 : Option E) (g2 : E) (label : Bytes)
    (r : X) := cpProveWith o secret pub1 pub2 g1 g2 (ctxLabel label) r

def cpVerify [DecidableEq E] [DecidableEq X] (o : Ops E X) (pub1 pub2 : E) (g1 : Option E)
    (g2 : E) (pf : ChaumPedersen E X) (label : Bytes) : Bool :=
  cpVerifyCtx o pub1 pub2 g1 g2 pf (ctxLabel label)

/-- `encryption_popk` -/
def encryptionPopk (o : Ops E X) (secret : X) (mhr gr : E) (label : Bytes) (r : X) :=
  schnorrProveWith o secret gr none (ctxMhr o mhr label) r

/-- `encryption_popk_verify` -/
def encryptionPopkVerify [DecidableEq E] [DecidableEq X] (o : Ops E X) (mhr gr : E)
    (pf : Schnorr E X) (label : Bytes) : Bool :=
  schnorrVerifyCtx o gr none pf (ctxMhr o mhr label)

/-- `decryption_proof` -/
def decryptionProof (o : Ops E X) (secret : X) (pk decFactor mhr gr : E) (label : Bytes) (r : X) :=
  cpProveWith o secret pk decFactor none gr (ctxMhr o mhr label) r

/-- `verify_decryption` -/
def verifyDecryption [DecidableEq E] [DecidableEq X] (o : Ops E X) (pk decFactor mhr gr : E)
    (pf : ChaumPedersen E X) (label : Bytes) : Bool :=
  cpVerifyCtx o pk decFactor none gr pf (ctxMhr o mhr label)

/-- `PublicKey::encrypt_and_pok`: draws the encryption randomness, then the proof nonce -/
def encryptAndPok (o : Ops E X) (pk m : E) (label : Bytes) :
    List X → Option ((Ciphertext E × Schnorr E X × X) × List X)
  | r :: n :: tape =>
    let c := encryptWith o pk m r
    some ((c, encryptionPopk o r c.mhr c.gr label n, r), tape)
  | _ => none

/-- `PrivateKey::decrypt_and_prove`: one draw -/
def decryptAndProve (o : Ops E X) (sk : X) (pkElement : E) (c : Ciphertext E) (label : Bytes) :
    List X → Option ((E × ChaumPedersen E X) × List X)
  | n :: tape =>
    let f := o.emodPow c.gr sk
    some ((o.modp (o.divp c.mhr f), decryptionProof o sk pkElement f c.mhr c.gr label n), tape)
  | _ => none

/-! wire formats -/
def codecSchnorr (o : Ops E X) : Codec (Schnorr E X) :=
  ⟨fun p => o.serE p.commitment ++ o.serX p.challenge ++ o.serX p.response,
   fun bs => match o.codecE.dec bs with
     | none => none
     | some (t, r1) => match o.codecX.dec r1 with
       | none => none
       | some (c, r2) => match o.codecX.dec r2 with
         | none => none
         | some (s, r3) => some (⟨t, c, s⟩, r3)⟩

def codecCP (o : Ops E X) : Codec (ChaumPedersen E X) :=
  ⟨fun p => o.serE p.commitment1 ++ o.serE p.commitment2 ++ o.serX p.challenge ++ o.serX p.response,
   fun bs => match o.codecE.dec bs with
     | none => none
     | some (t1, r1) => match o.codecE.dec r1 with
       | none => none
       | some (t2, r2) => match o.codecX.dec r2 with
         | none => none
         | some (c, r3) => match o.codecX.dec r3 with
           | none => none
           | some (s, r4) => some (⟨t1, t2, c, s⟩, r4)⟩

end Strand
