/-
Byte strings and the positional number encodings used by the two multiplicative
back-ends of strand (num-bigint: little-endian, zero = [0]; malachite: big-endian
digits, zero = []).  Core Lean only.
-/
namespace Strand

abbrev Bytes := List UInt8

/-- little-endian base-256 digits, most significant digit non-zero, `0 ↦ []` -/
def natToLEDigits (n : Nat) : Bytes :=
  if h : n = 0 then [] else UInt8.ofNat (n % 256) :: natToLEDigits (n / 256)
termination_by n
decreasing_by omega

/-- `BigUint::to_bytes_le` : minimal little-endian bytes, `0 ↦ [0]` -/
def natToLE (n : Nat) : Bytes := if n = 0 then [0] else natToLEDigits n

/-- `Natural::to_digits_desc(&256)` : minimal big-endian digits, `0 ↦ []` -/
def natToBE (n : Nat) : Bytes := (natToLEDigits n).reverse

/-- `BigUint::from_bytes_le` (any length, any padding) -/
def natOfLE : Bytes → Nat
  | [] => 0
  | b :: bs => b.toNat + 256 * natOfLE bs

/-- `Natural::from_digits_desc(&256, ..)` on byte-sized digits -/
def natOfBE (bs : Bytes) : Nat := bs.foldl (fun acc b => acc * 256 + b.toNat) 0

/-- fixed-width little-endian encodings (borsh integers, counters) -/
def leFixed : Nat → Nat → Bytes
  | 0, _ => []
  | k + 1, n => UInt8.ofNat (n % 256) :: leFixed k (n / 256)

def u16le (n : Nat) : Bytes := leFixed 2 n
def u32le (n : Nat) : Bytes := leFixed 4 n
def u64le (n : Nat) : Bytes := leFixed 8 n

def hexDigit (n : Nat) : Char :=
  if n < 10 then Char.ofNat (48 + n) else Char.ofNat (87 + n)

def bytesToHex (bs : Bytes) : String :=
  String.ofList (bs.flatMap fun b => [hexDigit (b.toNat / 16), hexDigit (b.toNat % 16)])

def asciiBytes (s : String) : Bytes := s.toList.map fun c => UInt8.ofNat c.toNat

/-- lexicographic order on byte strings (Rust `str`/`[u8]` ordering) -/
def bytesLt : Bytes → Bytes → Bool
  | [], [] => false
  | [], _ :: _ => true
  | _ :: _, [] => false
  | a :: as, b :: bs => if a < b then true else if b < a then false else bytesLt as bs

end Strand
