import StrandModel.Model.Res
/-
util::Par : with the `rayon` feature `x.par()` is `into_par_iter()`, otherwise `into_iter()`.
A parallel map over an indexed iterator splits the input recursively into pieces, maps the
pieces independently and concatenates the results in order.  `Split` describes one such
schedule; the sequential build is the schedule `leaf`.
-/
namespace Strand

inductive Split where
  | leaf
  | node (k : Nat) (l r : Split)
deriving Repr

/-- `xs.par().map(f).collect()` under the schedule `s` -/
def parMap {α β : Type} : Split → (α → β) → List α → List β
  | .leaf, f, xs => xs.map f
  | .node k l r, f, xs => parMap l f (xs.take k) ++ parMap r f (xs.drop k)

/-- `xs.par().enumerate().map(f).collect()`: indices are positions in the whole input -/
def parMapIdx {α β : Type} : Split → Nat → (Nat → α → β) → List α → List β
  | .leaf, off, f, xs => (xs.zipIdx off).map fun (x, i) => f i x
  | .node k l r, off, f, xs =>
    parMapIdx l off f (xs.take k) ++ parMapIdx r (off + min k xs.length) f (xs.drop k)

/-- `xs.par().map(f).unzip()` -/
def parUnzip {α β γ : Type} (s : Split) (f : α → β × γ) (xs : List α) : List β × List γ :=
  (parMap s f xs).unzip

/-- sequential `collect::<Result<Vec<_>, _>>()`: first error wins -/
def collectResult {β : Type} : List (Res β) → Res (List β)
  | [] => .ok []
  | .ok b :: rest => match collectResult rest with
    | .ok bs => .ok (b :: bs)
    | .error e => .error e
  | .error e :: _ => .error e

/-- parallel `collect::<Result<Vec<_>, _>>()`: pieces are collected independently; SOME error
    is returned if any piece fails (which one depends on the schedule) -/
def parCollectResult {β : Type} : Split → List (Res β) → Res (List β)
  | .leaf, rs => collectResult rs
  | .node k l r, rs =>
    match parCollectResult l (rs.take k), parCollectResult r (rs.drop k) with
    | .ok a, .ok b => .ok (a ++ b)
    | .error e, _ => .error e
    | .ok _, .error e => .error e

/-- `xs.par().fold(init, step).reduce(op)` under the schedule `s`: rayon calls `init` once PER PIECE.
    (The library only uses `map`/`enumerate`/`collect`/`unzip`; this is here because the natural
    "optimisation" of the product loops in `gen_proof_ext` / `check_proof` is a fold + reduce.) -/
def parFold {α β : Type} : Split → β → (β → α → β) → (β → β → β) → List α → β
  | .leaf, init, step, _, xs => xs.foldl step init
  | .node k l r, init, step, op, xs =>
    op (parFold l init step op (xs.take k)) (parFold r init step op (xs.drop k))

end Strand
