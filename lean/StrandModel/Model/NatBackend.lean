import StrandModel.Model.ElGamal
import StrandModel.Model.Sha512
/-
The two multiplicative back-ends (num-bigint, malachite) as ONE arithmetic model on `Nat`
with two byte flavours.  External bigint calls are modelled by their mathematical
specification: `modpow`/`mod_pow` ↦ `powm`, `invm`/`mod_inverse` ↦ `invm`,
`legendre`/`legendre_symbol` ↦ Euler's criterion.
-/
namespace Strand

structure Params where
  p : Nat
  q : Nat
  g : Nat
  cofactor : Nat
deriving Repr, DecidableEq

inductive Flavour | bigint | malachite
deriving Repr, DecidableEq

/-- square-and-multiply with explicit fuel (kernel-friendly: structural on the fuel) -/
def powmAux : Nat → Nat → Nat → Nat → Nat → Nat
  | 0, _, _, _, acc => acc
  | fuel + 1, a, e, m, acc =>
    if e = 0 then acc
    else powmAux fuel (a * a % m) (e / 2) m (if e % 2 = 1 then acc * a % m else acc)

/-- `a^e mod m` (`BigUint::modpow`, `Natural::mod_pow`) -/
def powm (a e m : Nat) : Nat := powmAux (e.log2 + 1) (a % m) e m (1 % m)

/-- modular inverse for a prime modulus: `a^(m-2) mod m` (`invm`, `mod_inverse`) -/
def invm (a m : Nat) : Nat := powm a (m - 2) m

/-- Euler's criterion value `a^((p-1)/2) mod p` -/
def euler (a p : Nat) : Nat := powm a ((p - 1) / 2) p

namespace Nat'
variable (P : Params)

def modp (a : Nat) : Nat := a % P.p
def modq (x : Nat) : Nat := x % P.q
def emodPow (a x : Nat) : Nat := powm a x P.p
def gmodPow (x : Nat) : Nat := powm P.g x P.p
def invp (a : Nat) : Nat := invm a P.p
def invq (x : Nat) : Nat := invm x P.q

/-- `exp_sub_mod` -/
def subMod (a b : Nat) : Nat := if a > b then (a - b) % P.q else (a + P.q - b) % P.q

/-- `element_from_biguint` / `element_from_natural`: range test, then Legendre symbol = 1 -/
def elementFromNat (n : Nat) : Option Nat :=
  if n < 1 ∨ n ≥ P.p then none
  else if euler n P.p ≠ 1 then none
  else some n

def expFromNat (n : Nat) : Option Nat := if n ≥ P.q then none else some n

/-- `Ctx::encode` (`none` = `Err`) -/
def encode (m : Nat) : Option Nat :=
  if m ≥ P.q - 1 then none
  else
    let x := m + 1
    let l := euler x P.p
    if l = 0 then none
    else some ((if l = 1 then x else P.p - x) % P.p)

/-- `Ctx::decode` -/
def decode (e : Nat) : Nat := if e > P.q then (P.p - e) - 1 else e - 1

end Nat'

def natOfBytes (fl : Flavour) (bs : Bytes) : Nat :=
  match fl with
  | .bigint => natOfLE bs
  | .malachite => natOfBE bs

def natToBytes (fl : Flavour) (n : Nat) : Bytes :=
  match fl with
  | .bigint => natToLE n
  | .malachite => natToBE n

/-- `element_from_bytes` -/
def elementFromBytes (P : Params) (fl : Flavour) (bs : Bytes) : Option Nat :=
  Nat'.elementFromNat P (natOfBytes fl bs)

/-- `exp_from_bytes` -/
def expFromBytes (P : Params) (fl : Flavour) (bs : Bytes) : Option Nat :=
  Nat'.expFromNat P (natOfBytes fl bs)

/-- `hash_to_exp`: the whole SHA-512 digest as an integer (LE / BE) mod q -/
def natHashToExp (P : Params) (fl : Flavour) (bs : Bytes) : Nat :=
  natOfBytes fl (sha512 bs) % P.q

/-- `hash_to_element`: the digest as an integer mod p -/
def natHashToElement (P : Params) (fl : Flavour) (bs : Bytes) : Nat :=
  natOfBytes fl (sha512 bs) % P.p

def natCodecE (P : Params) (fl : Flavour) : Codec Nat :=
  ⟨fun a => encBytesVec (natToBytes fl a),
   fun bs => match decBytesVec bs with
     | none => none
     | some (b, rest) => match elementFromBytes P fl b with
       | none => none
       | some a => some (a, rest)⟩

def natCodecX (P : Params) (fl : Flavour) : Codec Nat :=
  ⟨fun a => encBytesVec (natToBytes fl a),
   fun bs => match decBytesVec bs with
     | none => none
     | some (b, rest) => match expFromBytes P fl b with
       | none => none
       | some a => some (a, rest)⟩

/-- decode `n` u16 digits; `none` if too short -/
def decU16s : Nat → Bytes → Option (List Nat × Bytes)
  | 0, bs => some ([], bs)
  | n + 1, a :: b :: rest => match decU16s n rest with
    | none => none
    | some (ds, r) => some ((a.toNat + 256 * b.toNat) :: ds, r)
  | _ + 1, _ => none

/-- plaintexts on the wire: num-bigint `Vec<u8>` LE; malachite `Vec<u16>` of base-256 digits
    (big-endian).  Decoding a malachite digit ≥ 256 is an error (after the repair F3). -/
def natCodecP (fl : Flavour) : Codec Nat :=
  match fl with
  | .bigint => ⟨fun a => encBytesVec (natToLE a),
      fun bs => match decBytesVec bs with
        | none => none
        | some (b, rest) => some (natOfLE b, rest)⟩
  | .malachite => ⟨fun a => let ds := natToBE a; u32le ds.length ++ ds.flatMap fun d => u16le d.toNat,
      fun bs => match decU32 bs with
        | none => none
        | some (n, rest) => match decU16s n rest with
          | none => none
          | some (ds, r) =>
            if ds.all (· < 256) then some (ds.foldl (fun acc d => acc * 256 + d) 0, r) else none⟩

def natOps (P : Params) (fl : Flavour) : Ops Nat Nat where
  generator := P.g
  identE := 1
  gmodPow := Nat'.gmodPow P
  emodPow := Nat'.emodPow P
  mul := fun a b => a * b
  modp := Nat'.modp P
  invp := Nat'.invp P
  zeroX := 0
  oneX := 1
  xadd := fun a b => a + b
  xsub := fun a b => a - b
  xmul := fun a b => a * b
  modq := Nat'.modq P
  invq := Nat'.invq P
  subMod := Nat'.subMod P
  fromU64 := fun n => n
  hashToExp := natHashToExp P fl
  hash := sha512
  codecE := natCodecE P fl
  codecX := natCodecX P fl

/-- `encrypt_exp`: encode the exponent as a plaintext, encrypt, serialise (one draw) -/
def natEncryptExp (P : Params) (fl : Flavour) (x pk : Nat) (tape : List Nat) :
    Option (Option Bytes × List Nat) :=
  match Nat'.encode P x with
  | none => some (none, tape)           -- `?` returns before the draw
  | some m => match tape with
    | [] => none
    | r :: tape =>
      some (some ((codecCt (natOps P fl)).enc (encryptWith (natOps P fl) pk m r)), tape)

/-- `decrypt_exp` -/
def natDecryptExp (P : Params) (fl : Flavour) (bs : Bytes) (sk : Nat) : Option Nat :=
  match tryFromSlice (codecCt (natOps P fl)) bs with
  | none => none
  | some c => some (Nat'.decode P (decrypt (natOps P fl) sk c))

end Strand
