import StrandModel.Model.Zkp
/- threshold.rs (non-test part): Feldman VSS pieces and Lagrange coefficients. -/
namespace Strand
variable {E X : Type}

/-- `gen_coefficients`: `threshold` draws, each committed with `gmod_pow` -/
def genCoefficients (o : Ops E X) (threshold : Nat) (tape : List X) :
    Option ((List X × List E) × List X) :=
  if tape.length < threshold then none
  else some ((tape.take threshold, (tape.take threshold).map o.gmodPow), tape.drop threshold)

/-- the loop of `eval_poly`: state = (sum, power) -/
def evalPolyLoop (o : Ops E X) (t : X) (cs : List X) (sum power : X) : X × X :=
  cs.foldl (fun (sp : X × X) c =>
    let power := o.modq (o.xmul sp.2 t)
    (o.xadd sp.1 (o.modq (o.xmul c power)), power)) (sum, power)

/-- `eval_poly` (`none` = index panic on empty coefficients) -/
def evalPoly (o : Ops E X) (trustee threshold : Nat) (coeffs : List X) : Option X :=
  match coeffs with
  | [] => none
  | c0 :: _ =>
    some (o.modq (evalPolyLoop o (o.fromU64 trustee) ((coeffs.take threshold).drop 1) c0 o.oneX).1)

/-- `compute_peer_share` -/
def computePeerShare (o : Ops E X) (target threshold : Nat) (coeffs : List X) : Option X :=
  evalPoly o (target + 1) threshold coeffs

/-- `verification_key_factor` (repaired form, F2): the power of the receiver index is
    accumulated in the exponent ring, as `eval_poly` does. state = (accum, power) -/
def verificationKeyFactor (o : Ops E X) (comms : List E) (threshold receiver : Nat) : E :=
  let t := o.fromU64 (receiver + 1)
  ((comms.take threshold).foldl (fun (st : E × X) c =>
      (o.modp (o.mul st.1 (o.emodPow c st.2)), o.modq (o.xmul st.2 t)))
    (o.identE, o.oneX)).1

/-- the pinned form of `verification_key_factor`: `t.pow(i)` in a 64-bit machine integer
    (release build: wrapping).  Kept to recognise a regression to the known defect F2. -/
def verificationKeyFactorPrefix (o : Ops E X) (comms : List E) (threshold receiver : Nat) : E :=
  let t := receiver + 1
  ((comms.take threshold).foldl (fun (st : E × Nat) c =>
      let power := (t ^ st.2) % 2 ^ 64
      (o.modp (o.mul st.1 (o.emodPow c (o.fromU64 power))), st.2 + 1))
    (o.identE, 0)).1

/-- threshold `decryption_factor` (one draw) -/
def thDecryptionFactor (o : Ops E X) (c : Ciphertext E) (share : X) (vkey : E) (label : Bytes)
    (r : X) : E × ChaumPedersen E X :=
  let f := o.emodPow c.gr share
  (f, decryptionProof o share vkey f c.mhr c.gr label r)

/-- `lagrange`: state = (numerator, denominator) -/
def lagrange (o : Ops E X) (trustee : Nat) (present : List Nat) : X :=
  let t := o.fromU64 trustee
  let nd := present.foldl (fun (nd : X × X) p =>
    if p = trustee then nd
    else
      let pe := o.fromU64 p
      let diff := o.modq (o.subMod pe t)
      (o.modq (o.xmul nd.1 pe), o.modq (o.xmul nd.2 diff))) (o.oneX, o.oneX)
  o.divq nd.1 nd.2

end Strand
