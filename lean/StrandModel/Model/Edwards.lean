import StrandModel.Model.Field25519
/-
The twisted Edwards curve edwards25519 : -x² + y² = 1 + d x² y² over GF(2^255 - 19), points in
extended coordinates (X : Y : Z : T), x = X/Z, y = Y/Z, x y = T/Z
(`curve25519_dalek::edwards::EdwardsPoint`).  Core Lean only; executable.
-/
namespace Strand.Ed
open Strand Strand.F25519

structure Point where
  X : Nat
  Y : Nat
  Z : Nat
  T : Nat
deriving Repr, Inhabited

/-- the neutral element (0, 1) -/
def identity : Point := ⟨0, 1, 1, 0⟩

def baseX : Nat := 15112221349535400772501151409588531511454012693041857206046113283949847762202
def baseY : Nat := 46316835694926478169428394003475163141307993866256225615783033603165251855960

/-- `ED25519_BASEPOINT_POINT` (y = 4/5, x even) = `RISTRETTO_BASEPOINT_POINT` -/
def basepoint : Point := ⟨baseX, baseY, 1, fmul baseX baseY⟩

/-- 2p, used for subtraction without intermediate reduction -/
def twoP : Nat := 115792089237316195423570985008687907853269984665640564039457584007913129639898

/-- unified addition for a = -1 (Hisil–Wong–Carter–Dawson, "add-2008-hwcd-3"); complete on
    edwards25519 because -1 is a square and d a non-square mod p.
    Coordinates of the arguments are reduced; sums / differences that only feed a
    multiplication are left unreduced (`x + p - y` for `x - y`), every output is reduced. -/
def add (P Q : Point) : Point :=
  let A := fmul (P.Y + p - P.X) (Q.Y + p - Q.X)
  let B := fmul (P.Y + P.X) (Q.Y + Q.X)
  let C := fmul (fmul P.T d2) Q.T
  let D := fmul (P.Z + P.Z) Q.Z
  let E := B + p - A
  let F := D + p - C
  let G := D + C
  let H := B + A
  ⟨fmul E F, fmul G H, fmul F G, fmul E H⟩

/-- doubling ("dbl-2008-hwcd", a = -1):
    A = X², B = Y², C = 2Z², D = -A, E = (X+Y)² - A - B, G = D + B, F = G - C, H = D - B -/
def double (P : Point) : Point :=
  let A := fsq P.X
  let B := fsq P.Y
  let zz := fsq P.Z
  let C := zz + zz
  let E := fsq (P.X + P.Y) + twoP - A - B
  let G := B + p - A
  let F := G + twoP - C
  let H := twoP - A - B
  ⟨fmul E F, fmul G H, fmul F G, fmul E H⟩

def neg (P : Point) : Point := ⟨fneg P.X, P.Y, P.Z, fneg P.T⟩

def sub (P Q : Point) : Point := add P (neg Q)

/-- double-and-add over bits `i-1 … 0` of `k`, most significant first -/
def smulAux (P : Point) (k : Nat) : Nat → Point → Point
  | 0, acc => acc
  | i + 1, acc =>
    let acc2 := double acc
    smulAux P k i (if k.testBit i then add acc2 P else acc2)

/-- `[k]P` (any natural `k`, not reduced) -/
def smul (k : Nat) (P : Point) : Point := smulAux P k (k.log2 + 1) identity

/-- `[k]B` -/
def smulBase (k : Nat) : Point := smul k basepoint

/-! #### faster scalar multiplication (same functions; this is what the back-end record runs)
* coordinates in the limb representation `Fe` (no big-number allocation in the inner loop);
* 4-bit fixed windows; for the basepoint a table of `j · 16^i · B` (i < 64, j < 16) computed
  once, so that `[k]B` is 64 additions and no doubling (dalek's `EdwardsBasepointTable` idea). -/

structure PointL where
  X : Fe
  Y : Fe
  Z : Fe
  T : Fe
deriving Inhabited

def PointL.ofPoint (P : Point) : PointL := ⟨Fe.ofNat P.X, Fe.ofNat P.Y, Fe.ofNat P.Z, Fe.ofNat P.T⟩
def PointL.toPoint (P : PointL) : Point := ⟨P.X.toNat, P.Y.toNat, P.Z.toNat, P.T.toNat⟩

def identityL : PointL := PointL.ofPoint identity
def d2L : Fe := Fe.ofNat d2

/-- `add` in limbs -/
def addL (P Q : PointL) : PointL :=
  let A := Fe.mul (Fe.sub P.Y P.X) (Fe.sub Q.Y Q.X)
  let B := Fe.mul (Fe.add P.Y P.X) (Fe.add Q.Y Q.X)
  let C := Fe.mul (Fe.mul P.T d2L) Q.T
  let D := Fe.mul (Fe.add P.Z P.Z) Q.Z
  let E := Fe.sub B A
  let F := Fe.sub D C
  let G := Fe.add D C
  let H := Fe.add B A
  ⟨Fe.mul E F, Fe.mul G H, Fe.mul F G, Fe.mul E H⟩

/-- `double` in limbs (E = 2XY = (X+Y)² - X² - Y²) -/
def doubleL (P : PointL) : PointL :=
  let A := Fe.sq P.X
  let B := Fe.sq P.Y
  let zz := Fe.sq P.Z
  let C := Fe.add zz zz
  let E := Fe.mul (Fe.add P.X P.X) P.Y
  let G := Fe.sub B A
  let F := Fe.sub G C
  let H := Fe.neg (Fe.add A B)
  ⟨Fe.mul E F, Fe.mul G H, Fe.mul F G, Fe.mul E H⟩

/-- `#[0P, 1P, …, 15P]` -/
def multiplesL (P : PointL) : Array PointL :=
  ((List.range 15).foldl (fun (st : Array PointL × PointL) _ =>
      let nxt := addL st.2 P
      (st.1.push nxt, nxt)) (#[identityL], identityL)).1

def smulFastAux (tbl : Array PointL) (k : Nat) : Nat → PointL → PointL
  | 0, acc => acc
  | i + 1, acc =>
    let acc := doubleL (doubleL (doubleL (doubleL acc)))
    let nib := (k >>> (4 * i)) % 16
    smulFastAux tbl k i (if nib = 0 then acc else addL acc tbl[nib]!)

/-- `[k]P` with 4-bit windows, most significant nibble first -/
def smulFast (k : Nat) (P : Point) : Point :=
  (smulFastAux (multiplesL (PointL.ofPoint P)) k (k.log2 / 4 + 1) identityL).toPoint

def baseTableAux : Nat → PointL → List (Array PointL)
  | 0, _ => []
  | n + 1, Q => multiplesL Q :: baseTableAux n (doubleL (doubleL (doubleL (doubleL Q))))

/-- row `i` = `#[j · 16^i · B | j < 16]` -/
def baseTable : Array (Array PointL) := (baseTableAux 64 (PointL.ofPoint basepoint)).toArray

def smulBaseFastAux : Nat → Nat → Nat → PointL → PointL
  | 0, _, _, acc => acc
  | n + 1, i, k, acc =>
    let nib := k % 16
    smulBaseFastAux n (i + 1) (k / 16)
      (if nib = 0 then acc else addL acc (baseTable[i]!)[nib]!)

/-- `[k]B` from the table (any `k`; beyond 256 bits the generic routine is used) -/
def smulBaseFast (k : Nat) : Point :=
  if k.log2 ≥ 256 then smulFast k basepoint else (smulBaseFastAux 64 0 k identityL).toPoint

/-- `EdwardsPoint::mul_by_cofactor` -/
def mulByCofactor (P : Point) : Point := double (double (double P))

/-- projective equality (`EdwardsPoint::ct_eq`) -/
def peq (P Q : Point) : Bool :=
  fmul P.X Q.Z == fmul Q.X P.Z && fmul P.Y Q.Z == fmul Q.Y P.Z

/-- `IsIdentity::is_identity` -/
def isIdentity (P : Point) : Bool := peq P identity

/-- does (X:Y:Z:T) satisfy the curve equation and T Z = X Y ? (used only for self-checks) -/
def onCurve (P : Point) : Bool :=
  let xx := fsq P.X
  let yy := fsq P.Y
  let zz := fsq P.Z
  P.Z != 0
    && fmul (fsub yy xx) zz == fadd (fsq zz) (fmul d (fmul xx yy))
    && fmul P.T P.Z == fmul P.X P.Y

/-- `EdwardsPoint::compress` (RFC 8032 §5.1.2): canonical y, bit 255 = sign of x -/
def compress (P : Point) : Bytes :=
  let recip := finvFast P.Z
  let x := fmul P.X recip
  let y := fmul P.Y recip
  leFixed 32 (y + (if isNegative x then two255 else 0))

/-- `CompressedEdwardsY::decompress` of curve25519-dalek (3.2.0 and 4.1.3): the PERMISSIVE
    decoder needed for ZIP-215.  It ignores bit 255 when reading y, accepts non-canonical
    y (p ≤ y < 2^255, reduced mod p), and accepts x = 0 with the sign bit set ("negative
    zero").  `none` iff (y²-1)/(d y²+1) is not a square. -/
def decompress (bs : Bytes) : Option Point :=
  if bs.length ≠ 32 then none
  else
    let n := natOfLE bs
    let y := (n % two255) % p
    let yy := fsq y
    let u := fsub yy 1
    let v := fadd (fmul yy d) 1
    let (ok, x) := sqrtRatioM1 u v
    if !ok then none
    else
      let x := if n ≥ two255 then fneg x else x
      some ⟨x, y, 1, fmul x y⟩

/-- RFC 8032 §5.1.3 decoding (STRICT): additionally rejects y ≥ p and x = 0 with sign bit 1.
    Not used by either front-end of strand; given for comparison. -/
def decompressStrict (bs : Bytes) : Option Point :=
  if bs.length ≠ 32 then none
  else
    let n := natOfLE bs
    if n % two255 ≥ p then none
    else match decompress bs with
      | none => none
      | some P => if P.X == 0 && n ≥ two255 then none else some P

/-- `EdwardsPoint::is_small_order` -/
def isSmallOrder (P : Point) : Bool := isIdentity (mulByCofactor P)

end Strand.Ed
