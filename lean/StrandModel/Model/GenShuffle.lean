import StrandModel.Model.Shuffle
import StrandModel.Model.Rng
/- `Shuffler::gen_shuffle` = `gen_permutation` (from RNG bytes) followed by `apply_permutation`. -/
namespace Strand
variable {E X : Type}

/-- `gen_shuffle`: the permutation comes from the RNG byte stream, the N exponents from the tape -/
def genShuffle (o : Ops E X) (pk : E) (cts : List (Ciphertext E)) (rng : Bytes) (tape : List X) :
    Res ((List (Ciphertext E) × List X × List Nat) × Bytes × List X) :=
  match fisherYates cts.length rng with
  | none => .error .tape
  | some (perm, rng') =>
    match applyPermutation o pk perm cts tape with
    | .error e => .error e
    | .ok ((outs, rs), tape') => .ok ((outs, rs, perm), rng', tape')

end Strand
