import StrandModel.Model.NatBackend
/-
`generators_fips` of the multiplicative back-ends: FIPS 186-4 A.2.3 style derivation.
prefix = seed ‖ "ggen"; for index = 1..size: next = prefix; repeat { count += 1;
next ‖= index_le8 ‖ count_le8 (appended on EVERY retry: retries hash a growing string);
e = SHA-512(next) as integer mod p; g = e^cofactor mod p } until g ≥ 2.
-/
namespace Strand

/-- the retry loop for one index; `fuel` bounds the retries (the Rust asserts after 2^64) -/
def genLoop (P : Params) (fl : Flavour) (index : Nat) : Nat → Bytes → Nat → Option Nat
  | 0, _, _ => none
  | fuel + 1, next, count =>
    let count := count + 1
    let next := next ++ u64le index ++ u64le count
    let g := powm (natHashToElement P fl next) P.cofactor P.p
    if g ≥ 2 then some g else genLoop P fl index fuel next count

def genFuel : Nat := 256

/-- the generator with 1-based index `index` for `seed`: a function of (seed, index) only -/
def genAt (P : Params) (fl : Flavour) (seed : Bytes) (index : Nat) : Option Nat :=
  genLoop P fl index genFuel (seed ++ asciiBytes "ggen") 0

/-- `Ctx::generators(size, seed)` -/
def generators (P : Params) (fl : Flavour) (size : Nat) (seed : Bytes) : Option (List Nat) :=
  mapOpt (fun i => genAt P fl seed (i + 1)) (List.range size)

end Strand
