import StrandModel.Model.NatBackend
/-
The random samplers, as deterministic functions of the bytes the RNG returns.
* num-bigint `gen_biguint_below` (rejection sampling on 32-bit words, top word shifted),
* rand 0.8 `UniformInt<u32>::sample_single` (widening multiply + conservative zone) and
  `SliceRandom::shuffle` (Durstenfeld / Fisher–Yates, i from n-1 down to 1),
* curve25519 wide reduction (64 bytes little-endian mod ℓ).
malachite's sampler is an external PRNG seeded with 32 RNG bytes: only the bounds the library
passes to it are modelled (`malachiteExpBound`, …).
-/
namespace Strand

/-- one candidate of `gen_biguint(bits)`: `len = ⌈bits/32⌉` words from `4*len` bytes, the last
    word shifted right by `32 - bits % 32` when `bits % 32 ≠ 0` -/
def bigintCandidate (bits : Nat) (bs : Bytes) : Nat :=
  let len := (bits + 31) / 32
  let rem := bits % 32
  let lowWords := natOfLE (bs.take (4 * (len - 1)))
  let last := natOfLE ((bs.drop (4 * (len - 1))).take 4)
  let last' := if rem > 0 then last / 2 ^ (32 - rem) else last
  lowWords + last' * 2 ^ (32 * (len - 1))

/-- `gen_biguint_below(bound)`: returns the value and the unconsumed bytes -/
def sampleBelowBigint (bound : Nat) : Nat → Bytes → Option (Nat × Bytes)
  | 0, _ => none
  | fuel + 1, bs =>
    let bits := if bound = 0 then 0 else bound.log2 + 1
    let need := 4 * ((bits + 31) / 32)
    if bs.length < need then none
    else
      let n := bigintCandidate bits (bs.take need)
      if n < bound then some (n, bs.drop need)
      else sampleBelowBigint bound fuel (bs.drop need)

/-- number of leading zero bits of a non-zero u32 -/
def lz32 (r : Nat) : Nat := 31 - r.log2

/-- `UniformInt<u32>::sample_single_inclusive(0, range-1)` for `0 < range < 2^32` -/
def sampleSingleU32 (range : Nat) : Nat → Bytes → Option (Nat × Bytes)
  | 0, _ => none
  | fuel + 1, bs =>
    match bs with
    | a :: b :: c :: d :: rest =>
      let v := natOfLE [a, b, c, d]
      let zone := (range * 2 ^ lz32 range) % 2 ^ 32 - 1
      let m := v * range
      if m % 2 ^ 32 ≤ zone then some (m / 2 ^ 32, rest)
      else sampleSingleU32 range fuel rest
    | _ => none

def swapList (l : List Nat) (i j : Nat) : List Nat :=
  match l[i]?, l[j]? with
  | some a, some b => (l.set i b).set j a
  | _, _ => l

/-- the loop of `shuffle`: for i = k, k-1, …, 1: swap(i, gen_index(i+1)) -/
def fisherYatesLoop (fuel : Nat) : Nat → List Nat → Bytes → Option (List Nat × Bytes)
  | 0, arr, bs => some (arr, bs)
  | i + 1, arr, bs =>
    match sampleSingleU32 (i + 2) fuel bs with
    | none => none
    | some (j, rest) => fisherYatesLoop fuel i (swapList arr (i + 1) j) rest

/-- `gen_permutation(n)` from RNG bytes -/
def fisherYates (n : Nat) (bs : Bytes) : Option (List Nat × Bytes) :=
  fisherYatesLoop 64 (n - 1) (List.range n) bs

/-- the same loop driven by explicit index choices `j_i ≤ i` (for the bijection theorem) -/
def fisherYatesChoices : Nat → List Nat → List Nat → List Nat
  | 0, arr, _ => arr
  | _ + 1, arr, [] => arr
  | i + 1, arr, j :: js => fisherYatesChoices i (swapList arr (i + 1) j) js

/-- the bounds the multiplicative back-ends pass to their samplers (after the repairs F4, F5) -/
def rndExpBound (P : Params) : Nat := P.q          -- exclusive: exponents 0..q-1
def rndPlaintextBoundX (P : Params) : Nat := P.q - 1  -- exclusive: plaintexts 0..q-2
/-- malachite's inclusive upper bounds -/
def malachiteExpUpper (P : Params) : Nat := P.q - 1
def malachitePlaintextUpper (P : Params) : Nat := P.q - 2

/-- `rnd_exp` of num-bigint from RNG bytes -/
def bigintRndExp (P : Params) (bs : Bytes) := sampleBelowBigint (rndExpBound P) 64 bs
/-- `rnd_plaintext` of num-bigint from RNG bytes -/
def bigintRndPlaintext (P : Params) (bs : Bytes) := sampleBelowBigint (rndPlaintextBoundX P) 64 bs
/-- `rnd` of num-bigint: a random plaintext, encoded (`none` inside = the `expect` would fire) -/
def bigintRnd (P : Params) (bs : Bytes) : Option (Option Nat × Bytes) :=
  match sampleBelowBigint (rndPlaintextBoundX P) 64 bs with
  | none => none
  | some (m, rest) => some (Nat'.encode P m, rest)

/-- `PrivateKey::gen(ctx)` of num-bigint from RNG bytes: one `rnd_exp`, public element `g^sk`;
    result (sk, pk element, remaining bytes) -/
def bigintKeyGen (P : Params) (fl : Flavour) (bs : Bytes) : Option (Nat × Nat × Bytes) :=
  match bigintRndExp P bs with
  | none => none
  | some (x, rest) => some (x, pkOf (natOps P fl) x, rest)

/-- `util::random_ciphertexts(n, ctx)` (sequential build): n times (mhr := rnd(), gr := rnd()),
    in this order; the inner `none` of `bigintRnd` is the `expect` panic -/
def bigintRandomCts (P : Params) : Nat → Bytes → Option (List (Ciphertext Nat) × Bytes)
  | 0, bs => some ([], bs)
  | n + 1, bs =>
    match bigintRnd P bs with
    | some (some a, r1) =>
      match bigintRnd P r1 with
      | some (some b, r2) =>
        match bigintRandomCts P n r2 with
        | some (cs, r3) => some ({ mhr := a, gr := b } :: cs, r3)
        | none => none
      | _ => none
    | _ => none

/-- number of `rnd_exp` draws of each randomised operation (N = number of ciphertexts) -/
def drawCount : String → Nat → Nat
  | "encrypt", _ => 1
  | "encrypt_and_pok", _ => 2
  | "schnorr_prove", _ => 1
  | "cp_prove", _ => 1
  | "decrypt_and_prove", _ => 1
  | "apply_permutation", n => n
  | "gen_commitments", n => n
  | "gen_proof_ext", n => 3 * n + 4
  | "gen_proof", n => 4 * n + 4
  | "gen_coefficients", t => t
  | _, _ => 0

end Strand
