import StrandModel.Model.Bytes
/-
SHA-512 (FIPS 180-4), executable.  No theorem is proved about it: in every theorem the
hash is an arbitrary function; this definition is what the driver runs and what the
definition of `hashToExp` / the generator derivation of the concrete back-ends refers to.
-/
namespace Strand.Sha512

def K : Array UInt64 := #[
  0x428a2f98d728ae22, 0x7137449123ef65cd, 0xb5c0fbcfec4d3b2f, 0xe9b5dba58189dbbc,
  0x3956c25bf348b538, 0x59f111f1b605d019, 0x923f82a4af194f9b, 0xab1c5ed5da6d8118,
  0xd807aa98a3030242, 0x12835b0145706fbe, 0x243185be4ee4b28c, 0x550c7dc3d5ffb4e2,
  0x72be5d74f27b896f, 0x80deb1fe3b1696b1, 0x9bdc06a725c71235, 0xc19bf174cf692694,
  0xe49b69c19ef14ad2, 0xefbe4786384f25e3, 0x0fc19dc68b8cd5b5, 0x240ca1cc77ac9c65,
  0x2de92c6f592b0275, 0x4a7484aa6ea6e483, 0x5cb0a9dcbd41fbd4, 0x76f988da831153b5,
  0x983e5152ee66dfab, 0xa831c66d2db43210, 0xb00327c898fb213f, 0xbf597fc7beef0ee4,
  0xc6e00bf33da88fc2, 0xd5a79147930aa725, 0x06ca6351e003826f, 0x142929670a0e6e70,
  0x27b70a8546d22ffc, 0x2e1b21385c26c926, 0x4d2c6dfc5ac42aed, 0x53380d139d95b3df,
  0x650a73548baf63de, 0x766a0abb3c77b2a8, 0x81c2c92e47edaee6, 0x92722c851482353b,
  0xa2bfe8a14cf10364, 0xa81a664bbc423001, 0xc24b8b70d0f89791, 0xc76c51a30654be30,
  0xd192e819d6ef5218, 0xd69906245565a910, 0xf40e35855771202a, 0x106aa07032bbd1b8,
  0x19a4c116b8d2d0c8, 0x1e376c085141ab53, 0x2748774cdf8eeb99, 0x34b0bcb5e19b48a8,
  0x391c0cb3c5c95a63, 0x4ed8aa4ae3418acb, 0x5b9cca4f7763e373, 0x682e6ff3d6b2b8a3,
  0x748f82ee5defb2fc, 0x78a5636f43172f60, 0x84c87814a1f0ab72, 0x8cc702081a6439ec,
  0x90befffa23631e28, 0xa4506cebde82bde9, 0xbef9a3f7b2c67915, 0xc67178f2e372532b,
  0xca273eceea26619c, 0xd186b8c721c0c207, 0xeada7dd6cde0eb1e, 0xf57d4f7fee6ed178,
  0x06f067aa72176fba, 0x0a637dc5a2c898a6, 0x113f9804bef90dae, 0x1b710b35131c471b,
  0x28db77f523047d84, 0x32caab7b40c72493, 0x3c9ebe0a15c9bebc, 0x431d67c49c100d4c,
  0x4cc5d4becb3e42b6, 0x597f299cfc657e2a, 0x5fcb6fab3ad6faec, 0x6c44198c4a475817]

def H0 : Array UInt64 := #[
  0x6a09e667f3bcc908, 0xbb67ae8584caa73b, 0x3c6ef372fe94f82b, 0xa54ff53a5f1d36f1,
  0x510e527fade682d1, 0x9b05688c2b3e6c1f, 0x1f83d9abfb41bd6b, 0x5be0cd19137e2179]

@[inline] def rotr (x : UInt64) (n : UInt64) : UInt64 := (x >>> n) ||| (x <<< (64 - n))
@[inline] def bsig0 (x : UInt64) := rotr x 28 ^^^ rotr x 34 ^^^ rotr x 39
@[inline] def bsig1 (x : UInt64) := rotr x 14 ^^^ rotr x 18 ^^^ rotr x 41
@[inline] def ssig0 (x : UInt64) := rotr x 1 ^^^ rotr x 8 ^^^ (x >>> 7)
@[inline] def ssig1 (x : UInt64) := rotr x 19 ^^^ rotr x 61 ^^^ (x >>> 6)
@[inline] def ch (x y z : UInt64) := (x &&& y) ^^^ ((~~~ x) &&& z)
@[inline] def maj (x y z : UInt64) := (x &&& y) ^^^ (x &&& z) ^^^ (y &&& z)

def be64 (bs : Array UInt8) (off : Nat) : UInt64 := Id.run do
  let mut r : UInt64 := 0
  for i in [0:8] do
    r := (r <<< 8) ||| (bs[off + i]!).toUInt64
  return r

def pad (msg : Bytes) : Array UInt8 := Id.run do
  let len := msg.length
  let mut a : Array UInt8 := msg.toArray
  a := a.push 0x80
  let zeros := (240 - (len + 1) % 128) % 128   -- so that (len+1+zeros) % 128 = 112
  for _ in [0:zeros] do
    a := a.push 0
  let bits := len * 8
  for i in [0:16] do
    a := a.push (UInt8.ofNat ((bits >>> (8 * (15 - i))) % 256))
  return a

def compress (h : Array UInt64) (blk : Array UInt8) (off : Nat) : Array UInt64 := Id.run do
  let mut w : Array UInt64 := Array.mkEmpty 80
  for t in [0:16] do
    w := w.push (be64 blk (off + 8 * t))
  for t in [16:80] do
    w := w.push (ssig1 w[t - 2]! + w[t - 7]! + ssig0 w[t - 15]! + w[t - 16]!)
  let mut a := h[0]!
  let mut b := h[1]!
  let mut c := h[2]!
  let mut d := h[3]!
  let mut e := h[4]!
  let mut f := h[5]!
  let mut g := h[6]!
  let mut hh := h[7]!
  for t in [0:80] do
    let t1 := hh + bsig1 e + ch e f g + K[t]! + w[t]!
    let t2 := bsig0 a + maj a b c
    hh := g; g := f; f := e; e := d + t1; d := c; c := b; b := a; a := t1 + t2
  return #[h[0]! + a, h[1]! + b, h[2]! + c, h[3]! + d, h[4]! + e, h[5]! + f, h[6]! + g, h[7]! + hh]

def digest (msg : Bytes) : Bytes := Id.run do
  let p := pad msg
  let mut h := H0
  for i in [0:p.size / 128] do
    h := compress h p (128 * i)
  let mut out : Array UInt8 := Array.mkEmpty 64
  for x in h do
    for i in [0:8] do
      out := out.push (x >>> (UInt64.ofNat (8 * (7 - i)))).toUInt8
  return out.toList

end Strand.Sha512

namespace Strand
def sha512 (msg : Bytes) : Bytes := Sha512.digest msg
end Strand
