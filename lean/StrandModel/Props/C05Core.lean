import StrandModel.Lemmas.Lawful
import StrandModel.Lemmas.NatLawful
/-
C05 — honest Schnorr, Chaum-Pedersen, plaintext-knowledge and decryption proofs verify.
Generic over every lawful back-end, every secret, nonce, base, label / context and every
hash function (`o.hashToExp` is arbitrary).  Wire corollaries are in C12.
-/
set_option linter.unusedSectionVars false
namespace Strand.C05
open Strand

variable {E X : Type} [DecidableEq E] [DecidableEq X] {o : Ops E X} {q : ℕ} {A : Type}
  [AddCommGroup A] [Module (ZMod q) A]

/-- Completeness of `schnorr_prove_private` / `schnorr_verify_private` for every context. -/
theorem schnorr_complete_ctx (L : Lawful o q A) (x r : X) (g : Option E) (ctx : Bytes)
    (hg : ∀ b, g = some b → L.valid b) :
    schnorrVerifyCtx o (o.emodPow (baseOr o g) x) g
      (schnorrProveWith o x (o.emodPow (baseOr o g) x) g ctx r) ctx = true := by
  have hb := L.baseOr_valid g hg
  have hy := L.emodPow_valid x hb
  simp only [schnorrVerifyCtx, schnorrProveWith, decide_true, Bool.true_and]
  apply decide_eq_true
  apply L.den_inj (L.powBase_valid g hg _) (L.modp_valid (L.mul_valid (L.powBase_valid g hg _)
    (L.emodPow_valid _ hy))) (L.powBase_canon g hg _) (L.modp_canon (L.mul_valid
    (L.powBase_valid g hg _) (L.emodPow_valid _ hy)))
  rw [L.powBase_den g hg, L.modp_mul_den (L.powBase_valid g hg _) (L.emodPow_valid _ hy),
    L.powBase_den g hg, L.emodPow_den _ hy, L.emodPow_den _ hb, L.modq_dx, L.xadd_dx, L.xmul_dx]
  module

/-- `schnorr_prove` / `schnorr_verify`: every secret (0, 1, q-1 are not special), every
    nonce, default or caller-supplied base, every label. -/
theorem schnorr_complete (L : Lawful o q A) (x r : X) (g : Option E) (label : Bytes)
    (hg : ∀ b, g = some b → L.valid b) :
    schnorrVerify o (o.emodPow (baseOr o g) x) g
      (schnorrProve o x (o.emodPow (baseOr o g) x) g label r) label = true :=
  schnorr_complete_ctx L x r g _ hg

/-- Completeness of the Chaum-Pedersen pair for every context. -/
theorem cp_complete_ctx (L : Lawful o q A) (x r : X) (g1 : Option E) (g2 : E) (ctx : Bytes)
    (hg1 : ∀ b, g1 = some b → L.valid b) (hg2 : L.valid g2) :
    cpVerifyCtx o (o.emodPow (baseOr o g1) x) (o.emodPow g2 x) g1 g2
      (cpProveWith o x (o.emodPow (baseOr o g1) x) (o.emodPow g2 x) g1 g2 ctx r) ctx = true := by
  have hb := L.baseOr_valid g1 hg1
  have hy1 := L.emodPow_valid x hb
  have hy2 := L.emodPow_valid x hg2
  simp only [cpVerifyCtx, cpProveWith, decide_true, Bool.true_and, Bool.and_eq_true]
  refine ⟨decide_eq_true ?_, decide_eq_true ?_⟩
  · apply L.den_inj (L.powBase_valid g1 hg1 _) (L.modp_valid (L.mul_valid
      (L.powBase_valid g1 hg1 _) (L.emodPow_valid _ hy1))) (L.powBase_canon g1 hg1 _)
      (L.modp_canon (L.mul_valid (L.powBase_valid g1 hg1 _) (L.emodPow_valid _ hy1)))
    rw [L.powBase_den g1 hg1, L.modp_mul_den (L.powBase_valid g1 hg1 _) (L.emodPow_valid _ hy1),
      L.powBase_den g1 hg1, L.emodPow_den _ hy1, L.emodPow_den _ hb, L.modq_dx, L.xadd_dx,
      L.xmul_dx]
    module
  · apply L.den_inj (L.emodPow_valid _ hg2) (L.modp_valid (L.mul_valid
      (L.emodPow_valid _ hg2) (L.emodPow_valid _ hy2))) (L.emodPow_canon _ hg2)
      (L.modp_canon (L.mul_valid (L.emodPow_valid _ hg2) (L.emodPow_valid _ hy2)))
    rw [L.emodPow_den _ hg2, L.modp_mul_den (L.emodPow_valid _ hg2) (L.emodPow_valid _ hy2),
      L.emodPow_den _ hg2, L.emodPow_den _ hy2, L.emodPow_den _ hg2, L.modq_dx, L.xadd_dx,
      L.xmul_dx]
    module

/-- `cp_prove` / `cp_verify` -/
theorem cp_complete (L : Lawful o q A) (x r : X) (g1 : Option E) (g2 : E) (label : Bytes)
    (hg1 : ∀ b, g1 = some b → L.valid b) (hg2 : L.valid g2) :
    cpVerify o (o.emodPow (baseOr o g1) x) (o.emodPow g2 x) g1 g2
      (cpProve o x (o.emodPow (baseOr o g1) x) (o.emodPow g2 x) g1 g2 label r) label = true :=
  cp_complete_ctx L x r g1 g2 _ hg1 hg2

/-- `encryption_popk` / `encryption_popk_verify`: the proof of plaintext knowledge made for the
    ciphertext `encryptWith pk m r` with its randomness `r` verifies (any `pk`, `m`, label). -/
theorem popk_complete (L : Lawful o q A) (pk m : E) (r n : X) (label : Bytes) :
    encryptionPopkVerify o (encryptWith o pk m r).mhr (encryptWith o pk m r).gr
      (encryptionPopk o r (encryptWith o pk m r).mhr (encryptWith o pk m r).gr label n) label
      = true := by
  have h := schnorr_complete_ctx L r n (none : Option E)
    (ctxMhr o (encryptWith o pk m r).mhr label) (by intro b hb; cases hb)
  simpa [encryptionPopkVerify, encryptionPopk, encryptWith, baseOr, L.gmodPow_eq] using h

/-- `decryption_proof` / `verify_decryption`: the proof released with the decryption factor
    `gr^sk` verifies against `pk = g^sk`, that factor and the ciphertext. -/
theorem decryption_proof_complete (L : Lawful o q A) (sk n : X) (c : Ciphertext E) (label : Bytes)
    (hgr : L.valid c.gr) :
    verifyDecryption o (pkOf o sk) (decryptionFactor o sk c) c.mhr c.gr
      (decryptionProof o sk (pkOf o sk) (decryptionFactor o sk c) c.mhr c.gr label n) label
      = true := by
  have h := cp_complete_ctx L sk n (none : Option E) c.gr (ctxMhr o c.mhr label)
    (by intro b hb; cases hb) hgr
  simpa [verifyDecryption, decryptionProof, decryptionFactor, pkOf, baseOr, L.gmodPow_eq] using h

/-- `PrivateKey::decrypt_and_prove`: the proof it returns verifies. -/
theorem decrypt_and_prove_verifies (L : Lawful o q A) (sk n : X) (c : Ciphertext E)
    (label : Bytes) (tape : List X) (hgr : L.valid c.gr) :
    ∃ d pf, decryptAndProve o sk (pkOf o sk) c label (n :: tape) = some ((d, pf), tape) ∧
      d = decrypt o sk c ∧
      verifyDecryption o (pkOf o sk) (decryptionFactor o sk c) c.mhr c.gr pf label = true :=
  ⟨_, _, rfl, rfl, decryption_proof_complete L sk n c label hgr⟩

/-- A proof made with the default generator verifies when that generator is passed
    explicitly, and vice versa: prover and verifier are the same functions either way. -/
theorem schnorr_default_base_interchange (L : Lawful o q A) (y : E) (x r : X)
    (pf : Schnorr E X) (ctx : Bytes) :
    schnorrVerifyCtx o y none pf ctx = schnorrVerifyCtx o y (some o.generator) pf ctx ∧
    schnorrProveWith o x y none ctx r = schnorrProveWith o x y (some o.generator) ctx r := by
  constructor
  · unfold schnorrVerifyCtx powBase baseOr
    rw [L.gmodPow_eq]; rfl
  · unfold schnorrProveWith powBase baseOr
    rw [L.gmodPow_eq]; rfl

theorem cp_default_base_interchange (L : Lawful o q A) (y1 y2 g2 : E) (x r : X)
    (pf : ChaumPedersen E X) (ctx : Bytes) :
    cpVerifyCtx o y1 y2 none g2 pf ctx = cpVerifyCtx o y1 y2 (some o.generator) g2 pf ctx ∧
    cpProveWith o x y1 y2 none g2 ctx r = cpProveWith o x y1 y2 (some o.generator) g2 ctx r := by
  constructor
  · unfold cpVerifyCtx powBase baseOr
    rw [L.gmodPow_eq]; rfl
  · unfold cpProveWith powBase baseOr
    rw [L.gmodPow_eq]; rfl

/-! ### the multiplicative back-ends (num-bigint, malachite) on every safe-prime parameter set -/

/-- Schnorr completeness for the concrete `Nat` back-ends: every secret, nonce, label, default or
    explicit base that is a subgroup member; real SHA-512 challenges. -/
theorem schnorr_complete_nat (P : Params) (fl : Flavour) (h : SafePrimeGroup P) (x r : Nat)
    (g : Option Nat) (label : Bytes) (hg : ∀ b, g = some b → b ^ P.q % P.p = 1) :
    schnorrVerify (natOps P fl) ((natOps P fl).emodPow (baseOr (natOps P fl) g) x) g
      (schnorrProve (natOps P fl) x ((natOps P fl).emodPow (baseOr (natOps P fl) g) x) g label r)
      label = true :=
  schnorr_complete (natLawful P fl h) x r g label (fun b hb => natValid_of_pow P b (hg b hb))

theorem cp_complete_nat (P : Params) (fl : Flavour) (h : SafePrimeGroup P) (x r : Nat)
    (g1 : Option Nat) (g2 : Nat) (label : Bytes) (hg1 : ∀ b, g1 = some b → b ^ P.q % P.p = 1)
    (hg2 : g2 ^ P.q % P.p = 1) :
    cpVerify (natOps P fl) ((natOps P fl).emodPow (baseOr (natOps P fl) g1) x)
      ((natOps P fl).emodPow g2 x) g1 g2
      (cpProve (natOps P fl) x ((natOps P fl).emodPow (baseOr (natOps P fl) g1) x)
        ((natOps P fl).emodPow g2 x) g1 g2 label r) label = true :=
  cp_complete (natLawful P fl h) x r g1 g2 label (fun b hb => natValid_of_pow P b (hg1 b hb))
    (natValid_of_pow P g2 hg2)

/-! ### non-vacuity: the hypotheses are met by concrete, non-trivial values -/
def P23 : Params := ⟨23, 11, 2, 2⟩
theorem P23_safe : SafePrimeGroup P23 :=
  ⟨by norm_num [P23], by norm_num [P23], by norm_num [P23], by norm_num [P23], by norm_num [P23],
   by decide⟩
/-- secret 7, nonce 0 (a boundary nonce OS randomness never yields), explicit base 13, label "ab" -/
example : schnorrVerify (natOps P23 .bigint) ((natOps P23 .bigint).emodPow 13 7) (some 13)
    (schnorrProve (natOps P23 .bigint) 7 ((natOps P23 .bigint).emodPow 13 7) (some 13) [97, 98] 0)
    [97, 98] = true :=
  schnorr_complete_nat P23 .bigint P23_safe 7 0 (some 13) [97, 98]
    (by intro b hb; cases hb; norm_num [P23])
/-- secret q-1 = 10, nonce q-1, default base, malachite flavour, two bases -/
example : cpVerify (natOps P23 .malachite) ((natOps P23 .malachite).emodPow 2 10)
    ((natOps P23 .malachite).emodPow 9 10) none 9
    (cpProve (natOps P23 .malachite) 10 ((natOps P23 .malachite).emodPow 2 10)
      ((natOps P23 .malachite).emodPow 9 10) none 9 [] 10) [] = true :=
  cp_complete_nat P23 .malachite P23_safe 10 10 none 9 [] (by intro b hb; cases hb)
    (by norm_num [P23])

end Strand.C05
