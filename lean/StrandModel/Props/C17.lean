import StrandModel.Lemmas.GeneratorsLemmas
import StrandModel.Props.C15
/-
C17 — independent generators (`Ctx::generators(size, seed)` of the multiplicative back-ends,
`generators_fips`, FIPS 186-4 A.2.3 style).

What IS proved here (for every parameter set, seed, size; SHA-512 is never unfolded, i.e. the
statements hold for any hash function in place of `natHashToElement`):

* the list has the requested length, its `i`-th entry is `genAt P fl seed (i+1)`: a function
  of the seed and the (1-based) index ONLY, not of `size` (`generators_index`);
* prefix stability: the first `k` of `n` are the `k`-list (`generators_prefix_stable`);
* `genAt` is the documented derivation: the first `count ≥ 1` for which
  `SHA-512(seed ‖ "ggen" ‖ (index‖1) ‖ … ‖ (index‖count)) mod p` raised to the cofactor
  (mod `p`) is `≥ 2` (`genAt_derivation`; the retries hash a GROWING string: the Rust
  appends to `next` on every retry instead of restarting from the prefix);
* every generator is `≥ 2` (so neither `0` nor the identity `1`) and `< p`
  (`genAt_ge_two`), and is a member of the prime-order subgroup when `p` is prime and
  `cofactor · q + 1 = p` (`generators_members`).

What is NOT a theorem (and cannot be one: these are properties of SHA-512, an uninterpreted
function here; a constant hash would falsify each of them):

* pairwise distinctness of the generators of one list;
* that they differ from the standard generator `g`;
* that different seeds give different lists (seed sensitivity);
* that nobody knows discrete logarithms between them (or w.r.t. `g`).

The retry loop of the Rust is unbounded (it asserts after 2^64 rounds); the model gives up
after `genFuel = 256` rounds (`none`).  A round fails only if the cofactor power is 0 or 1,
i.e. (for a safe prime) iff the hash value is ≡ 0, 1 or −1 mod p.
-/
set_option linter.unusedSectionVars false
namespace Strand.C17
open Strand

variable (P : Params) (fl : Flavour)

/-- the list has the requested length -/
theorem generators_length {n : ℕ} {seed : Bytes} {gs : List ℕ}
    (h : generators P fl n seed = some gs) : gs.length = n := by
  have := mapOpt_length h
  rwa [List.length_range] at this

/-- the `i`-th generator is a function of the seed and the index only -/
theorem generators_index {n : ℕ} {seed : Bytes} {gs : List ℕ}
    (h : generators P fl n seed = some gs) :
    ∀ (i : ℕ) (hi : i < n),
      some (gs[i]'(by rw [generators_length P fl h]; exact hi)) = genAt P fl seed (i + 1) := by
  intro i hi
  have hl := generators_length P fl h
  have hm := mapOpt_eq_some_iff_map.mp h
  have := congrArg (fun l => l[i]?) hm
  simp only [List.getElem?_map, List.getElem?_range hi, Option.map_some] at this
  rw [List.getElem?_eq_getElem (by omega), Option.map_some] at this
  exact (Option.some.inj this).symm

/-- determinism in the strong form: two calls (any sizes) agree on every common index -/
theorem generators_agree {n m : ℕ} {seed : Bytes} {gs gs' : List ℕ}
    (h : generators P fl n seed = some gs) (h' : generators P fl m seed = some gs')
    (i : ℕ) (hi : i < n) (hi' : i < m) :
    gs[i]'(by rw [generators_length P fl h]; exact hi)
      = gs'[i]'(by rw [generators_length P fl h']; exact hi') := by
  have h1 := generators_index P fl h i hi
  have h2 := generators_index P fl h' i hi'
  rw [← h2] at h1
  exact Option.some.inj h1

/-- prefix stability: the first `k` of `n` are exactly the `k`-list -/
theorem generators_prefix_stable {k n : ℕ} {seed : Bytes} {gs : List ℕ} (hk : k ≤ n)
    (h : generators P fl n seed = some gs) :
    generators P fl k seed = some (gs.take k) := by
  unfold generators at *
  rw [mapOpt_eq_some_iff_map] at *
  rw [List.map_take, ← h, ← List.map_take, List.take_range, Nat.min_eq_left hk]

/-- the call succeeds iff every per-index retry loop does -/
theorem generators_succeeds_iff {n : ℕ} {seed : Bytes} :
    (∃ gs, generators P fl n seed = some gs) ↔ ∀ i < n, (genAt P fl seed (i + 1)).isSome := by
  unfold generators
  rw [mapOpt_isSome_iff]
  simp only [List.mem_range]

/-- the documented derivation (`genInput`, `genCand` in `Lemmas/GeneratorsLemmas.lean`):
    `genAt` is the first candidate `≥ 2`, the candidate of round `c` being
    `H(seed ‖ "ggen" ‖ (index‖1) ‖ … ‖ (index‖c))^cofactor mod p` -/
theorem genAt_derivation (seed : Bytes) (index g : ℕ) :
    genAt P fl seed index = some g ↔
      ∃ c, 1 ≤ c ∧ c ≤ genFuel ∧
        g = powm (natHashToElement P fl (genInput (seed ++ asciiBytes "ggen") index c))
              P.cofactor P.p ∧
        2 ≤ g ∧
        ∀ j, 1 ≤ j → j < c →
          powm (natHashToElement P fl (genInput (seed ++ asciiBytes "ggen") index j))
            P.cofactor P.p < 2 :=
  genAt_spec P fl seed index g

/-- the hashed string of round `c`, spelled out -/
theorem genInput_succ (pre : Bytes) (index c : ℕ) :
    genInput pre index (c + 1) = genInput pre index c ++ u64le index ++ u64le (c + 1) := rfl
theorem genInput_zero (pre : Bytes) (index : ℕ) : genInput pre index 0 = pre := rfl

/-- a generator is neither `0` nor the identity, and it is reduced -/
theorem genAt_ge_two {seed : Bytes} {i g : ℕ} (hp : 0 < P.p)
    (h : genAt P fl seed i = some g) : 2 ≤ g ∧ g < P.p := by
  obtain ⟨e, he, h2⟩ := genAt_eq_powm h
  refine ⟨h2, ?_⟩
  rw [he, powm_eq]
  exact Nat.mod_lt _ hp

/-- membership, from primality of `p` and `cofactor · q = p − 1` only -/
theorem genAt_member (hp : P.p.Prime) (hc : P.cofactor * P.q + 1 = P.p) {seed : Bytes} {i g : ℕ}
    (h : genAt P fl seed i = some g) : 2 ≤ g ∧ g < P.p ∧ natValid P g := by
  obtain ⟨e, he, h2⟩ := genAt_eq_powm h
  exact ⟨h2, (genAt_ge_two P fl hp.pos h).2, natValid_cofactor_pow hp hc he h2⟩

/-- every derived generator is a non-identity canonical member of the order-`q` subgroup -/
theorem generators_members (h : SafePrimeGroup P) (hc : P.cofactor * P.q + 1 = P.p) {n : ℕ}
    {seed : Bytes} {gs : List ℕ} (hg : generators P fl n seed = some gs) :
    ∀ g ∈ gs, 2 ≤ g ∧ g < P.p ∧ natValid P g := by
  intro g hmem
  obtain ⟨i, hi, rfl⟩ := List.getElem_of_mem hmem
  have hl := generators_length P fl hg
  have := generators_index P fl hg i (by omega)
  exact genAt_member P fl h.p_prime hc this.symm

/-- … hence usable wherever the protocol needs `L.V` (valid and canonical) elements -/
theorem generators_V (h : SafePrimeGroup P) (hc : P.cofactor * P.q + 1 = P.p) {n : ℕ}
    {seed : Bytes} {gs : List ℕ} (hg : generators P fl n seed = some gs) :
    ∀ g ∈ gs, (natLawful P fl h).V g := by
  intro g hmem
  obtain ⟨_, h2, h3⟩ := generators_members P fl h hc hg g hmem
  exact ⟨h3, h2⟩

/-! ### non-vacuity -/

/-- the hypotheses of `generators_members` are satisfiable: `p = 23`, `q = 11`, cofactor `2` -/
example : SafePrimeGroup C15.P23 ∧ C15.P23.cofactor * C15.P23.q + 1 = C15.P23.p :=
  ⟨C15.P23_safe, by decide⟩

/-- size `0` always succeeds, with the empty list (SHA-512 is not evaluated) -/
example (seed : Bytes) : generators C15.P23 .bigint 0 seed = some [] := rfl

/-- the membership argument on a concrete candidate: hash value `5` gives `5² mod 23 = 2`,
    which passes the guard and is a member; hash values `0`, `1`, `22` give `0`, `1`, `1`,
    which the guard rejects -/
example : powm 5 C15.P23.cofactor C15.P23.p = 2 ∧ natValid C15.P23 2 :=
  ⟨by decide, natValid_cofactor_pow C15.P23_safe.p_prime (by decide) (e := 5) (by decide)
    (by decide)⟩
example : powm 0 C15.P23.cofactor C15.P23.p = 0 ∧ powm 1 C15.P23.cofactor C15.P23.p = 1 ∧
    powm 22 C15.P23.cofactor C15.P23.p = 1 := by decide

end Strand.C17
