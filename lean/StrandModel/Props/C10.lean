import StrandModel.Lemmas.ThresholdLemmas
import StrandModel.Props.C01Core
import StrandModel.Props.C15
/-
C10 — threshold decryption (threshold.rs): the library's Lagrange coefficients for a set of
distinct present trustees, listed in any order, interpolate every polynomial of degree
`< |present|` at 0; hence raising the decryption factors of at least `t` trustees to these
coefficients and multiplying gives the factor of the joint secret and the ciphertext decrypts
to its plaintext.  With fewer than `t` trustees the shares do not determine the secret.
`q` is prime throughout (`ZMod q` is a field).
-/
set_option linter.unusedSectionVars false
namespace Strand.C10
open Strand Polynomial

section generic
variable {E X : Type} [DecidableEq E] [DecidableEq X] {o : Ops E X} {q : ℕ} {A : Type}
  [AddCommGroup A] [Module (ZMod q) A] (L : Lawful o q A) [Fact q.Prime]
include L

/-- the index ↦ residue map is injective on indices `< q` -/
theorem cast_injOn (present : List ℕ) (hlt : ∀ p ∈ present, p < q) :
    Set.InjOn (fun n : ℕ => (n : ZMod q)) (present.toFinset : Set ℕ) := by
  intro a ha b hb hab
  rw [Finset.mem_coe, List.mem_toFinset] at ha hb
  have := (ZMod.natCast_eq_natCast_iff' a b q).mp hab
  rwa [Nat.mod_eq_of_lt (hlt a ha), Nat.mod_eq_of_lt (hlt b hb)] at this

/-- `lagrange(i, present)` is `Π_{j ∈ present, j ≠ i} j / (j - i)` in `Z_q` -/
theorem lagrange_dx (present : List ℕ) (hlt : ∀ p ∈ present, p < q) (hnd : present.Nodup)
    (i : ℕ) (hi : i ∈ present) :
    L.dx (lagrange o i present) =
      ∏ j ∈ present.toFinset.erase i, (j : ZMod q) / ((j : ZMod q) - (i : ZMod q)) := by
  rw [lagrange_dx_list L i (hlt i hi) present hlt,
    ← List.prod_toFinset _ (hnd.filter _), List.toFinset_filter]
  congr 1
  ext a
  simp [and_comm]

/-- … which is the Lagrange basis polynomial of Mathlib at the nodes `present`, evaluated at 0 -/
theorem lagrange_dx_eq_basis (present : List ℕ) (hlt : ∀ p ∈ present, p < q)
    (hnd : present.Nodup) (i : ℕ) (hi : i ∈ present) :
    L.dx (lagrange o i present) =
      (Lagrange.basis present.toFinset (fun n : ℕ => (n : ZMod q)) i).eval 0 := by
  rw [lagrange_dx L present hlt hnd i hi, Lagrange.basis, eval_prod]
  apply Finset.prod_congr rfl
  intro j _
  rw [Lagrange.basisDivisor, eval_mul, eval_C, eval_sub, eval_X, eval_C, zero_sub,
    div_eq_mul_inv, ← neg_sub (i : ZMod q) (j : ZMod q), inv_neg]
  ring

/-- the coefficient does not depend on the order in which the present trustees are listed -/
theorem lagrange_dx_perm (present present' : List ℕ) (hlt : ∀ p ∈ present, p < q)
    (hnd : present.Nodup) (hperm : present.Perm present') (i : ℕ) (hi : i ∈ present) :
    L.dx (lagrange o i present) = L.dx (lagrange o i present') := by
  rw [lagrange_dx L present hlt hnd i hi,
    lagrange_dx L present' (fun p hp => hlt p (hperm.mem_iff.mpr hp)) (hperm.nodup_iff.mp hnd) i
      (hperm.mem_iff.mp hi), List.toFinset_eq_of_perm _ _ hperm]

/-- C10, the interpolation identity: `Σ_{i ∈ present} λᵢ P(i) = P(0)` for every polynomial of
    degree `< |present|`, `present` distinct indices `< q` in any order -/
theorem lagrange_interpolates (present : List ℕ) (hlt : ∀ p ∈ present, p < q)
    (hnd : present.Nodup) (P : (ZMod q)[X]) (hdeg : P.degree < present.length) :
    (present.map fun i => L.dx (lagrange o i present) * P.eval (i : ZMod q)).sum = P.eval 0 := by
  have hinj := cast_injOn L present hlt
  have hcard : present.toFinset.card = present.length := List.toFinset_card_of_nodup hnd
  have h := Lagrange.eq_interpolate (f := P) hinj (by rw [hcard]; exact hdeg)
  have h0 := congrArg (eval 0) h
  rw [Lagrange.interpolate_apply, eval_finsetSum] at h0
  rw [h0, ← List.sum_toFinset _ hnd]
  apply Finset.sum_congr rfl
  intro i hi
  rw [eval_mul, eval_C, lagrange_dx_eq_basis L present hlt hnd i (List.mem_toFinset.mp hi),
    mul_comm]

/-- the same as a sum over the set of present trustees -/
theorem lagrange_interpolates_finset (present : List ℕ) (hlt : ∀ p ∈ present, p < q)
    (hnd : present.Nodup) (P : (ZMod q)[X]) (hdeg : P.degree < present.length) :
    ∑ i ∈ present.toFinset, L.dx (lagrange o i present) * P.eval (i : ZMod q) = P.eval 0 := by
  rw [List.sum_toFinset _ hnd]
  exact lagrange_interpolates L present hlt hnd P hdeg

/-- … in particular for every polynomial of degree `< t` when at least `t` trustees are present -/
theorem lagrange_interpolates_threshold (t : ℕ) (present : List ℕ) (hlt : ∀ p ∈ present, p < q)
    (hnd : present.Nodup) (ht : t ≤ present.length) (P : (ZMod q)[X]) (hdeg : P.degree < t) :
    (present.map fun i => L.dx (lagrange o i present) * P.eval (i : ZMod q)).sum = P.eval 0 :=
  lagrange_interpolates L present hlt hnd P
    (lt_of_lt_of_le hdeg (by exact_mod_cast ht))

private theorem sum_map_smul_smul (l : List ℕ) (f g : ℕ → ZMod q) (a : A) :
    (l.map fun i => f i • (g i • a)).sum = (l.map fun i => f i * g i).sum • a := by
  induction l with
  | nil => simp
  | cons x l ih => simp only [List.map_cons, List.sum_cons, ih, add_smul, mul_smul]

/-- C10, the algebraic core: dealer polynomials `Ps` (each of degree `< t`), trustee `i` holds
    the share `Σ_d P_d(i)`, at least `t` distinct trustees present in any order: the
    Lagrange-weighted sum of the factors `sᵢ • gr` is the factor of the joint secret
    `Σ_d P_d(0)` -/
theorem threshold_factor_den (t : ℕ) (Ps : List (ZMod q)[X]) (hdeg : ∀ P ∈ Ps, P.degree < t)
    (present : List ℕ) (hlt : ∀ p ∈ present, p < q) (hnd : present.Nodup)
    (ht : t ≤ present.length) (share : ℕ → X)
    (hshare : ∀ i ∈ present, L.dx (share i) = (Ps.map fun P => P.eval (i : ZMod q)).sum)
    (gr : E) :
    (present.map fun i => L.dx (lagrange o i present) • (L.dx (share i) • L.den gr)).sum =
      (Ps.map fun P => P.eval 0).sum • L.den gr := by
  have hsum : Ps.sum.degree < t := by
    rw [← mem_degreeLT]
    exact list_sum_mem fun P hP => mem_degreeLT.mpr (hdeg P hP)
  rw [sum_map_smul_smul L, ← eval_listSum,
    ← lagrange_interpolates_threshold L t present hlt hnd ht Ps.sum hsum]
  congr 2
  apply List.map_congr_left
  intro i hi
  rw [hshare i hi, eval_listSum]

/-- the combined divider `Π factorᵢ^λᵢ` computed by the callers' loop (`thCombine`) from the
    decryption factors `decryption_factor(c, shareᵢ).0 = c.gr^shareᵢ`: a canonical member
    denoting the factor of the joint secret -/
theorem threshold_combine (t : ℕ) (Ps : List (ZMod q)[X]) (hdeg : ∀ P ∈ Ps, P.degree < t)
    (present : List ℕ) (hlt : ∀ p ∈ present, p < q) (hnd : present.Nodup)
    (ht : t ≤ present.length) (share : ℕ → X)
    (hshare : ∀ i ∈ present, L.dx (share i) = (Ps.map fun P => P.eval (i : ZMod q)).sum)
    (c : Ciphertext E) (hgr : L.valid c.gr) (vk : ℕ → E) (label : Bytes) (rs : ℕ → X) :
    L.V (thCombine o (fun i => (thDecryptionFactor o c (share i) (vk i) label (rs i)).1)
      present) ∧
    L.den (thCombine o (fun i => (thDecryptionFactor o c (share i) (vk i) label (rs i)).1)
      present) = (Ps.map fun P => P.eval 0).sum • L.den c.gr := by
  have hf : ∀ i ∈ present,
      L.valid ((fun i => (thDecryptionFactor o c (share i) (vk i) label (rs i)).1) i) :=
    fun i _ => L.emodPow_valid (share i) hgr
  obtain ⟨hV, hd⟩ := thCombine_spec L _ present hf
  refine ⟨hV, ?_⟩
  rw [hd, ← threshold_factor_den L t Ps hdeg present hlt hnd ht share hshare c.gr]
  apply congrArg
  apply List.map_congr_left
  intro i _
  show _ • L.den (o.emodPow c.gr (share i)) = _
  rw [L.emodPow_den _ hgr]

/-- threshold decryption of ANY ciphertext (valid components) is decryption under the joint
    secret `Σ_d P_d(0)` -/
theorem threshold_eq_decrypt (t : ℕ) (Ps : List (ZMod q)[X]) (hdeg : ∀ P ∈ Ps, P.degree < t)
    (present : List ℕ) (hlt : ∀ p ∈ present, p < q) (hnd : present.Nodup)
    (ht : t ≤ present.length) (share : ℕ → X)
    (hshare : ∀ i ∈ present, L.dx (share i) = (Ps.map fun P => P.eval (i : ZMod q)).sum)
    (c : Ciphertext E) (hc : L.valid c.mhr ∧ L.valid c.gr) (vk : ℕ → E) (label : Bytes)
    (rs : ℕ → X) (sk : X) (hsk : L.dx sk = (Ps.map fun P => P.eval 0).sum) :
    divideByFactor o c
      (thCombine o (fun i => (thDecryptionFactor o c (share i) (vk i) label (rs i)).1) present)
      = decrypt o sk c := by
  obtain ⟨hV, hd⟩ := threshold_combine L t Ps hdeg present hlt hnd ht share hshare c hc.2 vk
    label rs
  have he := L.emodPow_valid sk hc.2
  unfold divideByFactor decrypt
  rw [L.eq_iff (L.modp_V (L.divp_valid hc.1 hV.1)) (L.modp_V (L.divp_valid hc.1 he)),
    L.modp_den (L.divp_valid hc.1 hV.1), L.modp_den (L.divp_valid hc.1 he),
    L.divp_den hc.1 hV.1, L.divp_den hc.1 he, hd, L.emodPow_den _ hc.2, hsk]

/-- C10: the ciphertext decrypts to the original plaintext.  `pk` is the joint public key
    (`pk = g^(Σ_d P_d(0))`, e.g. the product of the dealers' constant commitments), `m` any
    canonical member, `r` any randomness -/
theorem threshold_decrypts (t : ℕ) (Ps : List (ZMod q)[X]) (hdeg : ∀ P ∈ Ps, P.degree < t)
    (present : List ℕ) (hlt : ∀ p ∈ present, p < q) (hnd : present.Nodup)
    (ht : t ≤ present.length) (share : ℕ → X)
    (hshare : ∀ i ∈ present, L.dx (share i) = (Ps.map fun P => P.eval (i : ZMod q)).sum)
    (pk : E) (hpk : L.valid pk)
    (hpkd : L.den pk = (Ps.map fun P => P.eval 0).sum • L.den o.generator)
    (m : E) (hm : L.V m) (r : X) (vk : ℕ → E) (label : Bytes) (rs : ℕ → X) :
    divideByFactor o (encryptWith o pk m r)
      (thCombine o (fun i =>
        (thDecryptionFactor o (encryptWith o pk m r) (share i) (vk i) label (rs i)).1) present)
      = m := by
  have hpkr := L.emodPow_valid r hpk
  have hmhr : L.valid (encryptWith o pk m r).mhr := L.modp_valid (L.mul_valid hm.1 hpkr)
  have hgr : L.valid (encryptWith o pk m r).gr := L.gmodPow_valid r
  obtain ⟨hV, hd⟩ := threshold_combine L t Ps hdeg present hlt hnd ht share hshare
    (encryptWith o pk m r) hgr vk label rs
  unfold divideByFactor
  rw [L.eq_iff (L.modp_V (L.divp_valid hmhr hV.1)) hm, L.modp_den (L.divp_valid hmhr hV.1),
    L.divp_den hmhr hV.1, hd]
  show L.den (o.modp (o.mul m (o.emodPow pk r))) - _ • L.den (o.gmodPow r) = _
  rw [L.modp_mul_den hm.1 hpkr, L.emodPow_den _ hpk, L.gmodPow_den, hpkd]
  module

/-! ### the dealers' polynomials are those of `compute_peer_share` -/

/-- the share `compute_peer_share` computes for trustee `j + 1` is the value at `j + 1` of the
    polynomial whose coefficients are the dealer's first `t` coefficients; its degree is `< t` -/
theorem share_is_eval (j t : ℕ) (ht : 1 ≤ t) (coeffs : List X) (s : X)
    (hs : computePeerShare o j t coeffs = some s) :
    L.dx s = (polyOfList ((coeffs.take t).map L.dx)).eval ((j + 1 : ℕ) : ZMod q) := by
  cases coeffs with
  | nil => cases hs
  | cons c0 rest =>
    obtain ⟨s', hs', -, hd⟩ := evalPoly_spec L (j + 1) t ht c0 rest
    have : s = s' := Option.some.inj (hs.symm.trans hs')
    subst this
    rw [hd, eval_polyOfList]

theorem dealer_poly_degree (t : ℕ) (coeffs : List X) :
    (polyOfList ((coeffs.take t).map L.dx)).degree < t := by
  refine lt_of_lt_of_le (degree_polyOfList_lt _) ?_
  rw [List.length_map, List.length_take]
  exact_mod_cast min_le_left _ _

theorem dealer_poly_eval_zero (t : ℕ) (ht : 1 ≤ t) (coeffs : List X) (hne : coeffs ≠ []) :
    (polyOfList ((coeffs.take t).map L.dx)).eval 0 = L.dx (coeffs.headD o.zeroX) := by
  obtain ⟨c0, rest, rfl⟩ := List.exists_cons_of_ne_nil hne
  obtain ⟨t', rfl⟩ : ∃ t', t = t' + 1 := ⟨t - 1, by omega⟩
  rw [List.take_succ_cons, List.map_cons, eval_zero_polyOfList_cons, List.headD_cons]

private theorem shares_sum_eval (j t : ℕ) (ht : 1 ≤ t) (dealers : List (List X)) (ss : List X)
    (hF : List.Forall₂ (fun cs s => computePeerShare o j t cs = some s) dealers ss) :
    (ss.map L.dx).sum = (dealers.map fun cs =>
      (polyOfList ((cs.take t).map L.dx)).eval ((j + 1 : ℕ) : ZMod q)).sum := by
  induction hF with
  | nil => rfl
  | cons h _ ih =>
    rw [List.map_cons, List.map_cons, List.sum_cons, List.sum_cons, ih,
      share_is_eval L j t ht _ _ h]

/-- C10 end to end on the model's own functions: every dealer `d` has a non-empty coefficient
    list, trustee `i` (1-based, as in `present`) holds an exponent congruent to the sum of the
    `compute_peer_share(i - 1, t, coeffs_d)`; the public key is `g^(Σ_d coeffs_d[0])`; at least
    `t` distinct trustees `1 ≤ i < q` are present, in any order: combining their decryption
    factors with `lagrange` and dividing yields the plaintext -/
theorem threshold_decrypts_dealers (t : ℕ) (ht1 : 1 ≤ t) (dealers : List (List X))
    (hne : ∀ cs ∈ dealers, cs ≠ [])
    (present : List ℕ) (hpos : ∀ p ∈ present, 0 < p ∧ p < q) (hnd : present.Nodup)
    (ht : t ≤ present.length) (share : ℕ → X)
    (hshare : ∀ i ∈ present, ∃ ss : List X,
      List.Forall₂ (fun cs s => computePeerShare o (i - 1) t cs = some s) dealers ss ∧
      L.dx (share i) = (ss.map L.dx).sum)
    (pk : E) (hpk : L.valid pk)
    (hpkd : L.den pk =
      (dealers.map fun cs => L.dx (cs.headD o.zeroX)).sum • L.den o.generator)
    (m : E) (hm : L.V m) (r : X) (vk : ℕ → E) (label : Bytes) (rs : ℕ → X) :
    divideByFactor o (encryptWith o pk m r)
      (thCombine o (fun i =>
        (thDecryptionFactor o (encryptWith o pk m r) (share i) (vk i) label (rs i)).1) present)
      = m := by
  refine threshold_decrypts L t (dealers.map fun cs => polyOfList ((cs.take t).map L.dx)) ?_
    present (fun p hp => (hpos p hp).2) hnd ht share ?_ pk hpk ?_ m hm r vk label rs
  · intro P hP
    obtain ⟨cs, -, rfl⟩ := List.mem_map.mp hP
    exact dealer_poly_degree L t cs
  · intro i hi
    obtain ⟨ss, hF, hd⟩ := hshare i hi
    rw [hd, List.map_map]
    have hi1 : i - 1 + 1 = i := Nat.sub_add_cancel (hpos i hi).1
    rw [shares_sum_eval L (i - 1) t ht1 dealers ss hF, hi1]
    rfl
  · rw [hpkd, List.map_map]
    congr 2
    apply List.map_congr_left
    intro cs hcs
    exact (dealer_poly_eval_zero L t ht1 cs (hne cs hcs)).symm

/-! ### fewer than `t` trustees -/

/-- the nodes as residues are non-zero when the indices are in `1 … q-1` -/
private theorem zero_ne_cast (present : List ℕ) (hpos : ∀ p ∈ present, 0 < p ∧ p < q) :
    ∀ i ∈ present.toFinset, (0 : ZMod q) ≠ (fun n : ℕ => (n : ZMod q)) i := by
  intro i hi h0
  have hi' := hpos i (List.mem_toFinset.mp hi)
  have := (ZMod.natCast_eq_zero_iff i q).mp h0.symm
  exact absurd (Nat.le_of_dvd hi'.1 this) (not_le.mpr hi'.2)

/-- C10, fewer than `t` trustees: ANY value `v` of the joint secret is consistent with the
    shares they hold — for every polynomial `P` of degree `< t` there is another one with the
    same values at all present indices and value `v` at 0 -/
theorem fewer_than_t_any_secret (t : ℕ) (present : List ℕ)
    (hpos : ∀ p ∈ present, 0 < p ∧ p < q) (hlen : present.length < t)
    (P : (ZMod q)[X]) (hP : P.degree < t) (v : ZMod q) :
    ∃ P' : (ZMod q)[X], P'.degree < t ∧
      (∀ i ∈ present, P'.eval (i : ZMod q) = P.eval (i : ZMod q)) ∧ P'.eval 0 = v := by
  set N := Lagrange.nodal present.toFinset (fun n : ℕ => (n : ZMod q)) with hN
  have hN0 : N.eval 0 ≠ 0 := Lagrange.eval_nodal_not_at_node (zero_ne_cast L present hpos)
  have hNdeg : N.degree < t := by
    rw [hN, Lagrange.degree_nodal]
    exact_mod_cast lt_of_le_of_lt (List.toFinset_card_le present) hlen
  refine ⟨P + C ((v - P.eval 0) / N.eval 0) * N, ?_, ?_, ?_⟩
  · refine lt_of_le_of_lt (degree_add_le _ _) (max_lt hP ?_)
    rw [C_mul']
    exact lt_of_le_of_lt (degree_smul_le _ _) hNdeg
  · intro i hi
    rw [eval_add, eval_mul, hN, Lagrange.eval_nodal_at_node (List.mem_toFinset.mpr hi), mul_zero,
      add_zero]
  · rw [eval_add, eval_mul, eval_C, div_mul_cancel₀ _ hN0]
    ring

/-- … so the shares of fewer than `t` trustees do not determine the secret -/
theorem fewer_than_t_undetermined (t : ℕ) (present : List ℕ)
    (hpos : ∀ p ∈ present, 0 < p ∧ p < q) (hlen : present.length < t) :
    ∃ P P' : (ZMod q)[X], P.degree < t ∧ P'.degree < t ∧
      (∀ i ∈ present, P.eval (i : ZMod q) = P'.eval (i : ZMod q)) ∧ P.eval 0 ≠ P'.eval 0 := by
  have h0 : (0 : (ZMod q)[X]).degree < t := by rw [degree_zero]; exact WithBot.bot_lt_coe _
  obtain ⟨P', hd, hag, hv⟩ := fewer_than_t_any_secret L t present hpos hlen 0 h0 1
  refine ⟨0, P', h0, hd, fun i hi => (hag i hi).symm, ?_⟩
  rw [hv, eval_zero]
  exact zero_ne_one

/-- … and the library's combination itself is wrong for some dealer polynomial of degree
    `< t`: `Σ_{i ∈ present} λᵢ P(i) ≠ P(0)` -/
theorem fewer_than_t_combination_wrong (t : ℕ) (present : List ℕ)
    (hpos : ∀ p ∈ present, 0 < p ∧ p < q) (hlen : present.length < t) :
    ∃ P : (ZMod q)[X], P.degree < t ∧
      (present.map fun i => L.dx (lagrange o i present) * P.eval (i : ZMod q)).sum ≠ P.eval 0 := by
  refine ⟨Lagrange.nodal present.toFinset (fun n : ℕ => (n : ZMod q)), ?_, ?_⟩
  · rw [Lagrange.degree_nodal]
    exact_mod_cast lt_of_le_of_lt (List.toFinset_card_le present) hlen
  · have hz : (present.map fun i => L.dx (lagrange o i present) *
        (Lagrange.nodal present.toFinset (fun n : ℕ => (n : ZMod q))).eval (i : ZMod q)).sum
        = 0 := by
      apply List.sum_eq_zero
      intro x hx
      obtain ⟨i, hi, rfl⟩ := List.mem_map.mp hx
      rw [Lagrange.eval_nodal_at_node (List.mem_toFinset.mpr hi), mul_zero]
    rw [hz]
    exact (Lagrange.eval_nodal_not_at_node (zero_ne_cast L present hpos)).symm

end generic

/-! ### the Nat back-end -/
section nat
open Strand.C15

/-- every safe-prime parameter set: the library's coefficients interpolate at 0 -/
theorem lagrange_interpolates_nat (P : Params) (fl : Flavour) (h : SafePrimeGroup P)
    (present : List ℕ) (hlt : ∀ p ∈ present, p < P.q) (hnd : present.Nodup)
    (Q : (ZMod P.q)[X]) (hdeg : Q.degree < present.length) :
    (present.map fun i =>
      ((lagrange (natOps P fl) i present : ℕ) : ZMod P.q) * Q.eval (i : ZMod P.q)).sum =
      Q.eval 0 := by
  have : Fact P.q.Prime := ⟨h.q_prime⟩
  exact lagrange_interpolates (natLawful P fl h) present hlt hnd Q hdeg

/-- every safe-prime parameter set, any number of dealers with coefficient lists of any
    length, any threshold `t ≥ 1`, any `≥ t` distinct present trustees in `1 … q-1` in any
    order: threshold decryption returns the plaintext -/
theorem threshold_decrypts_dealers_nat (P : Params) (fl : Flavour) (h : SafePrimeGroup P)
    (t : ℕ) (ht1 : 1 ≤ t) (dealers : List (List ℕ)) (hne : ∀ cs ∈ dealers, cs ≠ [])
    (present : List ℕ) (hpos : ∀ p ∈ present, 0 < p ∧ p < P.q) (hnd : present.Nodup)
    (ht : t ≤ present.length) (share : ℕ → ℕ)
    (hshare : ∀ i ∈ present, ∃ ss : List ℕ,
      List.Forall₂ (fun cs s => computePeerShare (natOps P fl) (i - 1) t cs = some s) dealers ss ∧
      share i % P.q = ss.sum % P.q)
    (m : ℕ) (hm : natValid P m ∧ m < P.p) (r : ℕ) (vk : ℕ → ℕ) (label : Bytes) (rs : ℕ → ℕ) :
    divideByFactor (natOps P fl)
      (encryptWith (natOps P fl) ((natOps P fl).gmodPow (dealers.map fun cs => cs.headD 0).sum) m r)
      (thCombine (natOps P fl) (fun i => (thDecryptionFactor (natOps P fl)
        (encryptWith (natOps P fl) ((natOps P fl).gmodPow (dealers.map fun cs => cs.headD 0).sum)
          m r) (share i) (vk i) label (rs i)).1) present) = m := by
  have : Fact P.q.Prime := ⟨h.q_prime⟩
  have hcast : ∀ l : List ℕ, (l.map fun x : ℕ => (x : ZMod P.q)).sum = ((l.sum : ℕ) : ZMod P.q) := by
    intro l
    induction l with
    | nil => simp
    | cons x l ih => rw [List.map_cons, List.sum_cons, List.sum_cons, ih, Nat.cast_add]
  refine threshold_decrypts_dealers (natLawful P fl h) t ht1 dealers hne present hpos hnd ht share
    ?_ _ ((natLawful P fl h).gmodPow_valid _) ?_ m hm r vk label rs
  · intro i hi
    obtain ⟨ss, hF, hs⟩ := hshare i hi
    refine ⟨ss, hF, ?_⟩
    show ((share i : ℕ) : ZMod P.q) = (ss.map fun x : ℕ => (x : ZMod P.q)).sum
    rw [hcast, ZMod.natCast_eq_natCast_iff']
    exact hs
  · rw [(natLawful P fl h).gmodPow_den]
    congr 1
    show (((dealers.map fun cs => cs.headD 0).sum : ℕ) : ZMod P.q) =
      (dealers.map fun cs => ((cs.headD 0 : ℕ) : ZMod P.q)).sum
    rw [← hcast, List.map_map]
    rfl

/-! ### non-vacuity (p = 23, q = 11, g = 2) -/

/-- the coefficients for the present set {1,2,3} (3, 8, 1 mod 11; `divq` does not reduce) … -/
example : [1, 2, 3].map (fun i => lagrange (natOps P23 .bigint) i [1, 2, 3]) = [36, 30, 12] := by
  decide
/-- … are the same whatever the order of the list -/
example : [3, 1, 2].map (fun i => lagrange (natOps P23 .bigint) i [3, 1, 2]) = [12, 36, 30] := by
  decide
/-- P = 3 + 5x + 7x²: shares P(1), P(2), P(3) = 4, 8, 4 and Σ λᵢ P(i) ≡ 3 = P(0) (mod 11) -/
example : [1, 2, 3].map (fun i => computePeerShare (natOps P23 .bigint) (i - 1) 3 [3, 5, 7]) =
    [some 4, some 8, some 4] := by decide
example : (36 * 4 + 30 * 8 + 12 * 4) % 11 = 3 := by decide
/-- the hypotheses of `lagrange_interpolates` are satisfiable -/
example (Q : (ZMod P23.q)[X]) (hQ : Q.degree < 3) :
    ([3, 1, 2].map fun i => ((lagrange (natOps P23 .bigint) i [3, 1, 2] : ℕ) : ZMod P23.q) *
      Q.eval (i : ZMod P23.q)).sum = Q.eval 0 :=
  lagrange_interpolates_nat P23 .bigint P23_safe [3, 1, 2] (by decide) (by decide) Q hQ

/-- the shares of the dealer polynomial 3 + 5x + 7x² (secret 3, public key 2³ = 8) -/
def share357 (i : ℕ) : ℕ := (computePeerShare (natOps P23 .bigint) (i - 1) 3 [3, 5, 7]).getD 0
/-- an encryption of the group member 13 under that key -/
def ct13 : Ciphertext ℕ := encryptWith (natOps P23 .bigint) 8 13 7

/-- three trustees in any order, or three others, recover the plaintext (executed) -/
example : divideByFactor (natOps P23 .bigint) ct13 (thCombine (natOps P23 .bigint)
    (fun i => (thDecryptionFactor (natOps P23 .bigint) ct13 (share357 i) 1 [] 1).1) [3, 1, 2])
    = 13 := by decide
example : divideByFactor (natOps P23 .bigint) ct13 (thCombine (natOps P23 .bigint)
    (fun i => (thDecryptionFactor (natOps P23 .bigint) ct13 (share357 i) 1 [] 1).1) [2, 5, 7])
    = 13 := by decide
/-- … and so does the general theorem, all of whose hypotheses hold here -/
example : divideByFactor (natOps P23 .bigint)
    (encryptWith (natOps P23 .bigint) ((natOps P23 .bigint).gmodPow ([[3, 5, 7]].map fun cs => cs.headD 0).sum) 13 7)
    (thCombine (natOps P23 .bigint) (fun i => (thDecryptionFactor (natOps P23 .bigint)
      (encryptWith (natOps P23 .bigint) ((natOps P23 .bigint).gmodPow ([[3, 5, 7]].map fun cs => cs.headD 0).sum) 13 7)
      (share357 i) 1 [] 1).1) [2, 5, 7]) = 13 :=
  threshold_decrypts_dealers_nat P23 .bigint P23_safe 3 (by decide) [[3, 5, 7]] (by decide)
    [2, 5, 7] (by decide) (by decide) (by decide) share357
    (fun i _ => ⟨[share357 i], List.Forall₂.cons rfl List.Forall₂.nil, by simp⟩)
    13 ⟨natValid_of_pow P23 13 (by norm_num [P23]), by norm_num [P23]⟩ 7 _ _ _
/-- two trustees of a 3-threshold do not (here) -/
example : divideByFactor (natOps P23 .bigint) ct13 (thCombine (natOps P23 .bigint)
    (fun i => (thDecryptionFactor (natOps P23 .bigint) ct13 (share357 i) 1 [] 1).1) [1, 2])
    ≠ 13 := by decide
/-- the hypotheses on `present` are needed: indices congruent mod q (12 ≡ 1) give a zero
    denominator, whose `invq` is 0; a repeated index changes the coefficient -/
example : lagrange (natOps P23 .bigint) 1 [1, 12] = 0 := by decide
example : lagrange (natOps P23 .bigint) 1 [1, 2, 2] % 11 ≠ lagrange (natOps P23 .bigint) 1 [1, 2] % 11 := by
  decide

end nat
end Strand.C10
