import StrandModel.Model.Par
/-
C19 — the parallel (rayon) build is observably equivalent to the sequential build.
What is proved: for EVERY schedule (split tree) the parallel adaptors used by the library
(`par().map().collect()`, `.enumerate()`, `.unzip()`, `collect::<Result<_,_>>()`) produce
exactly what the sequential iterator produces, position-aligned with the input; only WHICH
error is reported may depend on the schedule, never whether one is reported.
Not provable here (named in DESIGN.md sec. 8): that rayon's indexed `collect` really realises
some split tree for every schedule, and data-race freedom (`Send + Sync` typing).
-/
namespace Strand.C19
open Strand

variable {α β γ : Type}

/-- every schedule computes the sequential map, in order -/
theorem parMap_eq_map (s : Split) (f : α → β) (xs : List α) : parMap s f xs = xs.map f := by
  induction s generalizing xs with
  | leaf => rfl
  | node k l r ihl ihr =>
    simp only [parMap, ihl, ihr]
    rw [← List.map_append, List.take_append_drop]

/-- results stay position-aligned with their inputs -/
theorem parMap_getElem (s : Split) (f : α → β) (xs : List α) (i : Nat) (h : i < xs.length) :
    (parMap s f xs)[i]'(by rw [parMap_eq_map]; simpa using h) = f xs[i] := by
  simp [parMap_eq_map]

theorem parMap_length (s : Split) (f : α → β) (xs : List α) :
    (parMap s f xs).length = xs.length := by
  rw [parMap_eq_map]; simp

theorem zipIdx_take_drop (xs : List α) (k off : Nat) :
    (xs.take k).zipIdx off ++ (xs.drop k).zipIdx (off + min k xs.length) = xs.zipIdx off := by
  rw [← List.length_take, ← List.zipIdx_append, List.take_append_drop]

/-- `enumerate()` under any schedule numbers the items by their position in the whole input -/
theorem parMapIdx_eq (s : Split) (off : Nat) (f : Nat → α → β) (xs : List α) :
    parMapIdx s off f xs = (xs.zipIdx off).map fun (x, i) => f i x := by
  induction s generalizing xs off with
  | leaf => rfl
  | node k l r ihl ihr =>
    simp only [parMapIdx, ihl, ihr]
    rw [← List.map_append, zipIdx_take_drop]

/-- `unzip()` under any schedule -/
theorem parUnzip_eq (s : Split) (f : α → β × γ) (xs : List α) :
    parUnzip s f xs = (xs.map f).unzip := by
  unfold parUnzip; rw [parMap_eq_map]

theorem collectResult_ok_iff (rs : List (Res β)) (v : List β) :
    collectResult rs = .ok v ↔ rs = v.map .ok := by
  induction rs generalizing v with
  | nil => cases v <;> simp [collectResult]
  | cons r rs ih =>
    cases r with
    | error e => cases v <;> simp [collectResult]
    | ok b =>
      cases h : collectResult rs with
      | error e =>
        simp only [collectResult, h]
        constructor
        · intro h'; cases h'
        · intro h'
          cases v with
          | nil => simp at h'
          | cons b' v' =>
            simp only [List.map_cons, List.cons.injEq] at h'
            have := (ih v').mpr h'.2
            rw [h] at this; cases this
      | ok bs =>
        simp only [collectResult, h]
        have hbs := (ih bs).mp h
        constructor
        · intro h'; cases h'; simp [hbs]
        · intro h'
          cases v with
          | nil => simp at h'
          | cons b' v' =>
            simp only [List.map_cons, List.cons.injEq, Except.ok.injEq] at h'
            obtain ⟨rfl, h2⟩ := h'
            have := (ih v').mpr h2
            rw [h] at this; cases this; rfl

theorem collectResult_append_ok (a b : List (Res β)) (va vb : List β)
    (ha : collectResult a = .ok va) (hb : collectResult b = .ok vb) :
    collectResult (a ++ b) = .ok (va ++ vb) := by
  rw [collectResult_ok_iff] at *
  simp [ha, hb]

/-- the parallel collect succeeds exactly when the sequential one does, with the same vector -/
theorem parCollectResult_ok_iff (s : Split) (rs : List (Res β)) (v : List β) :
    parCollectResult s rs = .ok v ↔ collectResult rs = .ok v := by
  induction s generalizing rs v with
  | leaf => rfl
  | node k l r ihl ihr =>
    simp only [parCollectResult]
    constructor
    · intro h
      cases hl : parCollectResult l (rs.take k) with
      | error e => simp [hl] at h
      | ok a =>
        cases hr : parCollectResult r (rs.drop k) with
        | error e => simp [hl, hr] at h
        | ok b =>
          simp only [hl, hr, Except.ok.injEq] at h
          subst h
          have := collectResult_append_ok _ _ _ _ ((ihl _ _).mp hl) ((ihr _ _).mp hr)
          rwa [List.take_append_drop] at this
    · intro h
      rw [collectResult_ok_iff] at h
      have hl : parCollectResult l (rs.take k) = .ok (v.take k) := by
        rw [ihl, collectResult_ok_iff, h, List.map_take]
      have hr : parCollectResult r (rs.drop k) = .ok (v.drop k) := by
        rw [ihr, collectResult_ok_iff, h, List.map_drop]
      simp [hl, hr]

/-- … and fails exactly when the sequential one fails (which error may differ) -/
theorem parCollectResult_error_iff (s : Split) (rs : List (Res β)) :
    (∃ e, parCollectResult s rs = .error e) ↔ (∃ e, collectResult rs = .error e) := by
  constructor
  · intro ⟨e, h⟩
    cases hc : collectResult rs with
    | error e' => exact ⟨e', rfl⟩
    | ok v => rw [← parCollectResult_ok_iff s] at hc; rw [hc] at h; cases h
  · intro ⟨e, h⟩
    cases hc : parCollectResult s rs with
    | error e' => exact ⟨e', rfl⟩
    | ok v => rw [parCollectResult_ok_iff] at hc; rw [hc] at h; cases h

/-- every `par()` pipeline of the library with a pure closure is schedule-independent -/
theorem par_pipeline_schedule_independent (s s' : Split) (f : α → β) (xs : List α) :
    parMap s f xs = parMap s' f xs := by
  rw [parMap_eq_map, parMap_eq_map]

/-! ### fold + reduce (not used by the library today; the law a parallel product loop must satisfy) -/

/-- a parallel fold equals the sequential one under EVERY schedule when the step is "combine with the
    image", the combiner is associative and the initial accumulator is its identity -/
theorem parFold_eq_foldl {γ : Type} (s : Split) (e : γ) (op : γ → γ → γ) (g : α → γ)
    (assoc : ∀ a b c, op (op a b) c = op a (op b c)) (idl : ∀ a, op e a = a) (idr : ∀ a, op a e = a)
    (xs : List α) :
    parFold s e (fun acc x => op acc (g x)) op xs = xs.foldl (fun acc x => op acc (g x)) e := by
  have key : ∀ (ys : List α) (a : γ),
      ys.foldl (fun acc x => op acc (g x)) a = op a (ys.foldl (fun acc x => op acc (g x)) e) := by
    intro ys
    induction ys with
    | nil => intro a; simp [idr]
    | cons y ys ih => intro a; simp only [List.foldl_cons]; rw [ih (op a (g y)), ih (op e (g y)), idl, assoc]
  induction s generalizing xs with
  | leaf => rfl
  | node k l r ihl ihr =>
    simp only [parFold]
    rw [ihl, ihr, ← key, ← List.foldl_append, List.take_append_drop]

/-- …and NOT when the initial accumulator is not the identity: it is folded in once per piece
    (the shape of the seeded change S1-m1) -/
theorem parFold_init_not_identity :
    parFold (.node 1 .leaf .leaf) 2 (fun acc x => acc * x) (· * ·) [3, 5]
      ≠ [3, 5].foldl (fun acc x => acc * x) 2 := by decide

/-! non-vacuity: a concrete three-level schedule on a concrete list -/
example : parMap (.node 2 (.node 1 .leaf .leaf) (.node 5 .leaf .leaf)) (· * 2) [1, 2, 3, 4, 5]
    = [2, 4, 6, 8, 10] := by decide
example : parCollectResult (.node 1 .leaf .leaf) [.ok 1, .error Fail.err, .error Fail.panic]
    = (.error Fail.err : Res (List Nat)) := rfl
example : parMapIdx (.node 2 .leaf .leaf) 0 (fun i x => i + x) [10, 20, 30] = [10, 21, 32] := by
  decide

end Strand.C19
