import StrandModel.Lemmas.ThresholdLemmas
import StrandModel.Props.C15
/-
C09 — Feldman VSS share verification (threshold.rs): for every threshold `t ≥ 1`, every
receiver `j` and every non-empty dealer coefficient list, the generator raised to the share
`compute_peer_share` equals `verification_key_factor` of the dealer's commitments; a share
altered by a non-zero amount fails the comparison.  No bound on `t`, `j` or the list.
The pinned pre-repair form (`t.pow(i)` in a wrapping 64-bit integer) is refuted by a closed
witness with 17 coefficients.
-/
set_option linter.unusedSectionVars false
namespace Strand.C09
open Strand

section generic
variable {E X : Type} [DecidableEq E] [DecidableEq X] {o : Ops E X} {q : ℕ} {A : Type}
  [AddCommGroup A] [Module (ZMod q) A] (L : Lawful o q A)
include L

/-- the share in closed form: `Σ_{i < min t len} cᵢ (j+1)^i` in `Z_q`, reduced.
    Needs `1 ≤ t` (see `share_threshold_zero`). -/
theorem share_closed_form (j t : ℕ) (ht : 1 ≤ t) (coeffs : List X) (hne : coeffs ≠ []) :
    ∃ s, computePeerShare o j t coeffs = some s ∧ L.xcanon s ∧
      L.dx s = ∑ i ∈ Finset.range (min t coeffs.length),
        L.dx (coeffs.getD i o.zeroX) * ((j + 1 : ℕ) : ZMod q) ^ i := by
  obtain ⟨c0, rest, rfl⟩ := List.exists_cons_of_ne_nil hne
  obtain ⟨s, hs, hx, hd⟩ := evalPoly_spec L (j + 1) t ht c0 rest
  refine ⟨s, hs, hx, ?_⟩
  rw [hd, horner_eq_sum, List.length_map, List.length_take]
  apply Finset.sum_congr rfl
  intro i hi
  rw [getD_map_take L.dx _ t i o.zeroX 0 (Finset.mem_range.mp hi), smul_eq_mul, mul_comm]

/-- with `threshold = 0` `eval_poly` still starts from `coefficients[0]`: the share is the
    reduced constant coefficient, not the empty sum -/
theorem share_threshold_zero (j : ℕ) (c0 : X) (rest : List X) :
    computePeerShare o j 0 (c0 :: rest) = some (o.modq c0) := rfl

/-- `verification_key_factor` in closed form: `Π_{i < min t len} commsᵢ^((j+1)^i)`, a
    canonical member (the identity when `min t len = 0`) -/
theorem vkf_closed_form (comms : List E) (hc : ∀ c ∈ comms, L.valid c) (t j : ℕ) :
    L.V (verificationKeyFactor o comms t j) ∧
    L.den (verificationKeyFactor o comms t j) =
      ∑ i ∈ Finset.range (min t comms.length),
        ((j + 1 : ℕ) : ZMod q) ^ i • L.den (comms.getD i o.identE) := by
  obtain ⟨hV, hd⟩ := verificationKeyFactor_spec L comms hc t j
  refine ⟨hV, ?_⟩
  rw [hd, horner_eq_sum, List.length_map, List.length_take]
  apply Finset.sum_congr rfl
  intro i hi
  rw [getD_map_take L.den _ t i o.identE 0 (Finset.mem_range.mp hi)]

theorem vkf_empty (t j : ℕ) : verificationKeyFactor o ([] : List E) t j = o.identE := by
  unfold verificationKeyFactor; rw [List.take_nil]; rfl

theorem vkf_threshold_zero (comms : List E) (j : ℕ) :
    verificationKeyFactor o comms 0 j = o.identE := rfl

/-- the denotations agree -/
theorem feldman_den (t j : ℕ) (ht : 1 ≤ t) (c0 : X) (rest : List X) (s : X)
    (hs : computePeerShare o j t (c0 :: rest) = some s) :
    L.dx s • L.den o.generator =
      L.den (verificationKeyFactor o ((c0 :: rest).map o.gmodPow) t j) := by
  obtain ⟨s', hs', -, hd⟩ := evalPoly_spec L (j + 1) t ht c0 rest
  have : s = s' := Option.some.inj (hs.symm.trans hs')
  subst this
  have hc : ∀ c ∈ (c0 :: rest).map o.gmodPow, L.valid c := by
    intro c h
    obtain ⟨x, -, rfl⟩ := List.mem_map.mp h
    exact L.gmodPow_valid x
  rw [(verificationKeyFactor_spec L _ hc t j).2, hd, ← List.map_take, List.map_map,
    ← horner_map_smul]
  congr 1
  rw [List.map_map]
  apply List.map_congr_left
  intro x _
  exact (L.gmodPow_den x).symm

/-- C09, completeness: an honest dealer's share is never rejected — for every threshold
    `t ≥ 1`, every receiver `j`, every non-empty coefficient list (of any length) -/
theorem feldman (t j : ℕ) (ht : 1 ≤ t) (coeffs : List X) (hne : coeffs ≠ []) :
    ∃ s, computePeerShare o j t coeffs = some s ∧
      o.gmodPow s = verificationKeyFactor o (coeffs.map o.gmodPow) t j := by
  obtain ⟨c0, rest, rfl⟩ := List.exists_cons_of_ne_nil hne
  obtain ⟨s, hs, -, -⟩ := evalPoly_spec L (j + 1) t ht c0 rest
  refine ⟨s, hs, ?_⟩
  have hc : ∀ c ∈ (c0 :: rest).map o.gmodPow, L.valid c := by
    intro c h
    obtain ⟨x, -, rfl⟩ := List.mem_map.mp h
    exact L.gmodPow_valid x
  rw [L.eq_iff (L.gmodPow_V s) (verificationKeyFactor_spec L _ hc t j).1, L.gmodPow_den]
  exact feldman_den L t j ht c0 rest s hs

/-- the `t = 0` corner (never used by the Rust callers, which pass `t = coeffs.length ≥ 1`):
    the share is `c₀ mod q` but the factor is the identity, so the comparison holds iff
    `g^c₀ = 1` -/
theorem feldman_threshold_zero (j : ℕ) (c0 : X) (rest : List X) :
    ∃ s, computePeerShare o j 0 (c0 :: rest) = some s ∧
      (o.gmodPow s = verificationKeyFactor o ((c0 :: rest).map o.gmodPow) 0 j ↔
        L.dx c0 • L.den o.generator = 0) := by
  refine ⟨o.modq c0, rfl, ?_⟩
  rw [vkf_threshold_zero L, L.eq_iff (L.gmodPow_V _) L.ident_V, L.gmodPow_den, L.modq_dx,
    L.ident_den]

/-- C09, soundness of the comparison: a share altered by any amount that is non-zero in
    `Z_q` is rejected (generator of order `q`, i.e. not the identity) -/
theorem altered_share_rejected [Fact q.Prime] (hg : L.den o.generator ≠ 0) (t j : ℕ)
    (ht : 1 ≤ t) (coeffs : List X) (hne : coeffs ≠ []) (s δ : X)
    (hs : computePeerShare o j t coeffs = some s) (hδ : L.dx δ ≠ 0) :
    o.gmodPow (o.modq (o.xadd s δ)) ≠ verificationKeyFactor o (coeffs.map o.gmodPow) t j := by
  obtain ⟨s', hs', heq⟩ := feldman L t j ht coeffs hne
  have : s = s' := Option.some.inj (hs.symm.trans hs')
  subst this
  rw [← heq, Ne, L.eq_iff (L.gmodPow_V _) (L.gmodPow_V _), L.gmodPow_den, L.gmodPow_den,
    L.modq_dx, L.xadd_dx, add_smul, add_eq_left]
  intro h
  apply hg
  have := congrArg (fun a => (L.dx δ)⁻¹ • a) h
  simpa [smul_smul, inv_mul_cancel₀ hδ] using this

end generic

/-! ### the Nat back-end -/
section nat
open Strand.C15

/-- every safe-prime parameter set: honest shares verify -/
theorem feldman_nat (P : Params) (fl : Flavour) (h : SafePrimeGroup P) (t j : ℕ) (ht : 1 ≤ t)
    (coeffs : List ℕ) (hne : coeffs ≠ []) :
    ∃ s, computePeerShare (natOps P fl) j t coeffs = some s ∧
      (natOps P fl).gmodPow s =
        verificationKeyFactor (natOps P fl) (coeffs.map (natOps P fl).gmodPow) t j :=
  feldman (natLawful P fl h) t j ht coeffs hne

def ones17 : List ℕ := List.replicate 17 1

/-- F2, the pinned defect: 17 coefficients (all 1), threshold 17, receiver 15 (index 16):
    `16^16 = 2^64` wraps to 0 in the machine integer, the last commitment is dropped and the
    honest share is REJECTED by the pre-repair form … -/
theorem feldman_prefix_counterexample :
    ∃ s, computePeerShare (natOps P23 .bigint) 15 17 ones17 = some s ∧
      verificationKeyFactorPrefix (natOps P23 .bigint)
        (ones17.map (natOps P23 .bigint).gmodPow) 17 15 ≠ (natOps P23 .bigint).gmodPow s ∧
      verificationKeyFactor (natOps P23 .bigint)
        (ones17.map (natOps P23 .bigint).gmodPow) 17 15 = (natOps P23 .bigint).gmodPow s :=
  ⟨_, rfl, by decide, by decide⟩

/-- the generator of a safe-prime group does not denote the neutral element -/
theorem gen_den_ne_zero (P : Params) (fl : Flavour) (h : SafePrimeGroup P) :
    (natLawful P fl h).den (natOps P fl).generator ≠ 0 := by
  intro h0
  apply generator_ne_one P fl h
  rw [(natLawful P fl h).eq_iff (natLawful P fl h).gen_V (natLawful P fl h).ident_V, h0,
    (natLawful P fl h).ident_den]

/-- every safe-prime parameter set: a share altered by `δ ≢ 0 (mod q)` is rejected -/
theorem altered_share_rejected_nat (P : Params) (fl : Flavour) (h : SafePrimeGroup P) (t j : ℕ)
    (ht : 1 ≤ t) (coeffs : List ℕ) (hne : coeffs ≠ []) (s δ : ℕ)
    (hs : computePeerShare (natOps P fl) j t coeffs = some s) (hδ : δ % P.q ≠ 0) :
    (natOps P fl).gmodPow ((s + δ) % P.q) ≠
      verificationKeyFactor (natOps P fl) (coeffs.map (natOps P fl).gmodPow) t j := by
  have : Fact P.q.Prime := ⟨h.q_prime⟩
  refine altered_share_rejected (natLawful P fl h) (gen_den_ne_zero P fl h) t j ht coeffs hne s δ
    hs ?_
  show ((δ : ℕ) : ZMod P.q) ≠ 0
  rw [Ne, ZMod.natCast_eq_zero_iff, Nat.dvd_iff_mod_eq_zero]
  exact hδ

/-! ### non-vacuity (p = 23, q = 11, g = 2) -/

/-- the polynomial 3 + 5x + 7x², receiver 1 (index 2): share 3 + 10 + 28 = 41 ≡ 8 -/
example : computePeerShare (natOps P23 .bigint) 1 3 [3, 5, 7] = some 8 := by decide
example : (natOps P23 .bigint).gmodPow 8 = 3 := by decide
example : verificationKeyFactor (natOps P23 .bigint)
    ([3, 5, 7].map (natOps P23 .bigint).gmodPow) 3 1 = 3 := by decide
/-- on small inputs the pinned form agrees with the repaired one -/
example : verificationKeyFactorPrefix (natOps P23 .bigint)
    ([3, 5, 7].map (natOps P23 .bigint).gmodPow) 3 1 = 3 := by decide
/-- a threshold below the list length only reads the prefix: 3 + 5·2 = 13 ≡ 2 -/
example : computePeerShare (natOps P23 .malachite) 1 2 [3, 5, 7] = some 2 ∧
    (natOps P23 .malachite).gmodPow 2 = verificationKeyFactor (natOps P23 .malachite)
      ([3, 5, 7].map (natOps P23 .malachite).gmodPow) 2 1 := by decide
/-- the altered share 8 + 1 is rejected -/
example : (natOps P23 .bigint).gmodPow ((8 + 1) % 11) ≠ verificationKeyFactor
    (natOps P23 .bigint) ([3, 5, 7].map (natOps P23 .bigint).gmodPow) 3 1 :=
  altered_share_rejected_nat P23 .bigint P23_safe 3 1 (by decide) [3, 5, 7] (by decide) 8 1
    (by decide) (by decide)
/-- … an alteration by a multiple of `q` is the same share (hence the hypothesis `δ ≢ 0`) -/
example : (natOps P23 .bigint).gmodPow ((8 + 11) % 11) = verificationKeyFactor
    (natOps P23 .bigint) ([3, 5, 7].map (natOps P23 .bigint).gmodPow) 3 1 := by decide
/-- the `t = 0` corner is false in general: share `c₀ = 1`, factor = identity -/
example : computePeerShare (natOps P23 .bigint) 0 0 [1] = some 1 ∧
    (natOps P23 .bigint).gmodPow 1 ≠ verificationKeyFactor (natOps P23 .bigint)
      ([1].map (natOps P23 .bigint).gmodPow) 0 0 := by decide
/-- the 17-coefficient witness: share Σ_{i<17} 16^i ≡ 6 (mod 11), `g^6 = 18`; the pinned form
    drops the last commitment (exponent `16^16 mod 2^64 = 0` instead of `16^16 ≡ 5`): `g^1 = 2` -/
example : computePeerShare (natOps P23 .bigint) 15 17 ones17 = some 6 := by decide
example : verificationKeyFactor (natOps P23 .bigint)
    (ones17.map (natOps P23 .bigint).gmodPow) 17 15 = 18 := by decide
example : verificationKeyFactorPrefix (natOps P23 .bigint)
    (ones17.map (natOps P23 .bigint).gmodPow) 17 15 = 2 := by decide

end nat
end Strand.C09
