import StrandModel.Lemmas.ShuffleVerify
import StrandModel.Props.C15
/-
C04 — the shuffle verifier answers "accepted" only if the proof carries exactly one
permutation commitment, one chain commitment, one chain proof-commitment and one pair of
responses per ciphertext, and every verification equation of the Terelius–Wikström protocol
holds for challenges recomputed from the complete statement.

`check_accepts_iff` is an equivalence: acceptance ⟺ lengths ∧ `TW` (the textbook equations in
the group, `Lemmas/ShuffleVerify.lean`).  Generic over every lawful back-end and every hash
function (`o.hash`, `o.hashToExp` are arbitrary).
-/
set_option linter.unusedSectionVars false
namespace Strand.C04
open Strand

variable {E X : Type} [DecidableEq E] {o : Ops E X} {q : ℕ} {A : Type}
  [AddCommGroup A] [Module (ZMod q) A]

/-- The verifier's decision, characterised.  Hypotheses: the elements of the statement and of the
proof are group members, the proof-commitments `pf.t` in canonical form (all true of anything
that was deserialised, C11). -/
theorem check_accepts_iff (L : Lawful o q A) (gens : List E) (pk : E) (pf : ShuffleProof E X)
    (es ePrimes : List (Ciphertext E)) (label : Bytes)
    (hgens : ∀ g ∈ gens, L.valid g) (hpk : L.valid pk)
    (hes : ∀ e ∈ es, L.valid e.mhr ∧ L.valid e.gr)
    (heps : ∀ e ∈ ePrimes, L.valid e.mhr ∧ L.valid e.gr) (hpf : ProofV L pf) :
    checkProof o gens pk pf es ePrimes label = true ↔
      (0 < es.length ∧ ePrimes.length = es.length ∧ gens.length = es.length + 1 ∧
        pf.cs.length = es.length ∧ pf.cHats.length = es.length ∧
        pf.t.tHats.length = es.length ∧ pf.s.sHats.length = es.length ∧
        pf.s.sPrimes.length = es.length) ∧
      TW L o gens pk pf es ePrimes label :=
  Strand.check_accepts_iff L gens pk pf es ePrimes label hgens hpk hes heps hpf

/-- The same under the hypotheses "everything is valid AND canonical" (`L.V`). -/
theorem check_accepts_iff_V (L : Lawful o q A) (gens : List E) (pk : E) (pf : ShuffleProof E X)
    (es ePrimes : List (Ciphertext E)) (label : Bytes)
    (hgens : ∀ g ∈ gens, L.V g) (hpk : L.V pk)
    (hes : ∀ e ∈ es, L.V e.mhr ∧ L.V e.gr) (heps : ∀ e ∈ ePrimes, L.V e.mhr ∧ L.V e.gr)
    (ht : L.V pf.t.t1 ∧ L.V pf.t.t2 ∧ L.V pf.t.t3 ∧ L.V pf.t.t4_1 ∧ L.V pf.t.t4_2)
    (hth : ∀ x ∈ pf.t.tHats, L.V x) (hcs : ∀ x ∈ pf.cs, L.V x) (hch : ∀ x ∈ pf.cHats, L.V x) :
    checkProof o gens pk pf es ePrimes label = true ↔
      (0 < es.length ∧ ePrimes.length = es.length ∧ gens.length = es.length + 1 ∧
        pf.cs.length = es.length ∧ pf.cHats.length = es.length ∧
        pf.t.tHats.length = es.length ∧ pf.s.sHats.length = es.length ∧
        pf.s.sPrimes.length = es.length) ∧
      TW L o gens pk pf es ePrimes label :=
  check_accepts_iff L gens pk pf es ePrimes label (fun g hg => (hgens g hg).1) hpk.1
    (fun e he => ⟨(hes e he).1.1, (hes e he).2.1⟩) (fun e he => ⟨(heps e he).1.1, (heps e he).2.1⟩)
    ⟨ht.1, ht.2.1, ht.2.2.1, ht.2.2.2.1, ht.2.2.2.2, hth, fun x hx => (hcs x hx).1,
      fun x hx => (hch x hx).1⟩

/-- A proof with a missing or surplus entry in any of its five vectors, or a statement with no
ciphertext, a different number of outputs, or a wrong number of generators, is rejected —
whatever the elements are (no validity hypothesis). -/
theorem missing_or_surplus_rejected (gens : List E) (pk : E) (pf : ShuffleProof E X)
    (es ePrimes : List (Ciphertext E)) (label : Bytes)
    (h : es.length = 0 ∨ ePrimes.length ≠ es.length ∨ gens.length ≠ es.length + 1 ∨
      pf.cs.length ≠ es.length ∨ pf.cHats.length ≠ es.length ∨ pf.t.tHats.length ≠ es.length ∨
      pf.s.sHats.length ≠ es.length ∨ pf.s.sPrimes.length ≠ es.length) :
    checkProof o gens pk pf es ePrimes label = false := by
  apply checkProof_false_of_not_lengths
  rintro ⟨h0, h1, h2, h3, h4, h5, h6, h7⟩
  rcases h with h | h | h | h | h | h | h | h
  · omega
  all_goals exact h (by assumption)

/-- With all lengths right, a single failing verification equation rejects the proof. -/
theorem one_failing_equation_rejected (L : Lawful o q A) (gens : List E) (pk : E)
    (pf : ShuffleProof E X) (es ePrimes : List (Ciphertext E)) (label : Bytes)
    (hgens : ∀ g ∈ gens, L.valid g) (hpk : L.valid pk)
    (hes : ∀ e ∈ es, L.valid e.mhr ∧ L.valid e.gr)
    (heps : ∀ e ∈ ePrimes, L.valid e.mhr ∧ L.valid e.gr) (hpf : ProofV L pf)
    (h : ¬ TW L o gens pk pf es ePrimes label) :
    checkProof o gens pk pf es ePrimes label = false := by
  rw [← Bool.not_eq_true, check_accepts_iff L gens pk pf es ePrimes label hgens hpk hes heps hpf]
  exact fun hc => h hc.2

/-- … in particular each named equation: e.g. a proof whose `eq1` fails is rejected (the other
    five families are the other fields of `TWcore`). -/
theorem failing_eq1_rejected (L : Lawful o q A) (h0 : E) (hs : List E) (pk : E)
    (pf : ShuffleProof E X) (es ePrimes : List (Ciphertext E)) (label : Bytes)
    (hgens : ∀ g ∈ h0 :: hs, L.valid g) (hpk : L.valid pk)
    (hes : ∀ e ∈ es, L.valid e.mhr ∧ L.valid e.gr)
    (heps : ∀ e ∈ ePrimes, L.valid e.mhr ∧ L.valid e.gr) (hpf : ProofV L pf)
    (h : L.dx pf.s.s1 • L.den o.generator
      ≠ L.den pf.t.t1 + L.dx (shuffleChallenge o es ePrimes pf.cs pf.cHats pk pf.t label)
          • ((pf.cs.map L.den).sum - (hs.map L.den).sum)) :
    checkProof o (h0 :: hs) pk pf es ePrimes label = false :=
  one_failing_equation_rejected L _ pk pf es ePrimes label hgens hpk hes heps hpf
    (fun hc : TWcore L _ _ h0 hs pk pf es ePrimes => h hc.eq1)

theorem accepted_implies_TW (L : Lawful o q A) (gens : List E) (pk : E) (pf : ShuffleProof E X)
    (es ePrimes : List (Ciphertext E)) (label : Bytes)
    (hgens : ∀ g ∈ gens, L.valid g) (hpk : L.valid pk)
    (hes : ∀ e ∈ es, L.valid e.mhr ∧ L.valid e.gr)
    (heps : ∀ e ∈ ePrimes, L.valid e.mhr ∧ L.valid e.gr) (hpf : ProofV L pf)
    (h : checkProof o gens pk pf es ePrimes label = true) :
    TW L o gens pk pf es ePrimes label :=
  ((check_accepts_iff L gens pk pf es ePrimes label hgens hpk hes heps hpf).mp h).2

/-- acceptance forces the exact vector lengths (no validity hypothesis) -/
theorem accepted_implies_lengths (gens : List E) (pk : E) (pf : ShuffleProof E X)
    (es ePrimes : List (Ciphertext E)) (label : Bytes)
    (h : checkProof o gens pk pf es ePrimes label = true) :
    0 < es.length ∧ ePrimes.length = es.length ∧ gens.length = es.length + 1 ∧
      pf.cs.length = es.length ∧ pf.cHats.length = es.length ∧ pf.t.tHats.length = es.length ∧
      pf.s.sHats.length = es.length ∧ pf.s.sPrimes.length = es.length := by
  by_contra hc
  rw [checkProof_false_of_not_lengths gens pk pf es ePrimes label hc] at h
  exact Bool.false_ne_true h

/-! ### non-vacuity: the hypotheses are satisfiable on the 23-element toy group, and the
rejection theorems apply to concrete proofs (that an ACCEPTED proof exists for every lawful
back-end is C03) -/
open Strand.C15
private theorem v23 (a : ℕ) (h : a ^ 11 % 23 = 1 := by norm_num) (h' : a < 23 := by norm_num) :
    (natLawful P23 .bigint P23_safe).V a :=
  ⟨natValid_of_pow P23 a h, h'⟩

def pfEx : ShuffleProof ℕ ℕ :=
  { t := ⟨2, 3, 4, 6, 8, [9, 12]⟩, s := ⟨1, 2, 3, 4, [5, 6], [7, 8]⟩, cs := [13, 16], cHats := [18, 2] }

example : ProofV (natLawful P23 .bigint P23_safe) pfEx where
  t1 := v23 2
  t2 := v23 3
  t3 := v23 4
  t4_1 := v23 6
  t4_2 := v23 8
  tHats := by
    intro x hx
    simp only [pfEx, List.mem_cons, List.not_mem_nil, or_false] at hx
    rcases hx with rfl | rfl
    · exact v23 9
    · exact v23 12
  cs := by
    intro x hx
    simp only [pfEx, List.mem_cons, List.not_mem_nil, or_false] at hx
    rcases hx with rfl | rfl
    · exact (v23 13).1
    · exact (v23 16).1
  cHats := by
    intro x hx
    simp only [pfEx, List.mem_cons, List.not_mem_nil, or_false] at hx
    rcases hx with rfl | rfl
    · exact (v23 18).1
    · exact (v23 2).1

-- a proof for two ciphertexts checked against three: rejected
example (label : Bytes) :
    checkProof (natOps P23 .bigint) [2, 3, 4, 6] 2 pfEx [⟨2, 3⟩, ⟨4, 6⟩, ⟨8, 9⟩]
      [⟨2, 3⟩, ⟨4, 6⟩, ⟨8, 9⟩] label = false :=
  missing_or_surplus_rejected _ _ _ _ _ _ (by simp [pfEx])

end Strand.C04
