import StrandModel.Lemmas.CodecShuffle
import StrandModel.Props.C15
/-
C12 — for every value of every wire type (elements, exponents, plaintexts, ciphertexts, public and
private keys, Schnorr and Chaum-Pedersen proofs, shuffle proofs and the vector wrappers), decoding
its encoding succeeds and gives an equal value, encoding is a deterministic function of the value,
and distinct values have distinct encodings.  An encoding with bytes appended or removed is
rejected.

Reading of the last sentence: bytes appended AT THE END / removed FROM THE END (every proper
prefix).  Removing an interior byte cannot always be rejected: `interior_deletion_accepted`.

Shape: `Laws c V` packages the four statements for one codec `c` and its set `V` of wire values;
`wire_laws` derives them from the two decoder laws `PreLawfulCodec c V` (`Lemmas/Codec.lean`); then
one theorem per wire type of the `Nat` back-end (both byte flavours `fl`) gives the lawful codec
with its concrete `V`; `all_wire_types` collects the 18 instances.

Hypotheses: `hp : P.p = 2 * P.q + 1` and `W : WireSize P k` — the group fits in `k` bytes and
`4 * (4 + k) < 2^32` (so that no item of a strand vector needs a `u32` length it cannot have).
For the 2048-bit groups `k = 256`.
-/
set_option linter.unusedSectionVars false
namespace Strand.C12
open Strand

/-! ### the four laws, generically -/

/-- C12 for one wire type: round trip, injectivity, trailing bytes rejected, truncation rejected;
    all for every value satisfying `V` -/
def Laws {α : Type} (c : Codec α) (V : α → Prop) : Prop :=
  (∀ a, V a → tryFromSlice c (c.enc a) = some a) ∧
  (∀ a b, V a → V b → c.enc a = c.enc b → a = b) ∧
  (∀ a extra, V a → extra ≠ [] → tryFromSlice c (c.enc a ++ extra) = none) ∧
  (∀ a k, V a → k < (c.enc a).length → tryFromSlice c ((c.enc a).take k) = none)

theorem wire_laws {α : Type} {c : Codec α} {V : α → Prop} (h : PreLawfulCodec c V) : Laws c V :=
  ⟨fun _ ha => h.roundtrip ha,
   fun _ _ ha hb hab => h.enc_injective ha hb hab,
   fun _ _ ha hne => h.trailing_rejected ha hne,
   fun _ _ ha hk => h.truncated_rejected ha hk⟩

theorem wire_laws' {α : Type} {c : Codec α} {V : α → Prop} (h : LawfulCodec c V) : Laws c V :=
  wire_laws h.toPre

/-- "encoding is a deterministic function of the value": in the model `Codec.enc : α → Bytes` is a
    function, so this holds by construction (the Rust serialisers take no randomness, no
    ambient state; the one place where a `HashMap` is serialised is made order-independent by
    borsh's sort, see `encMap`) -/
theorem ser_deterministic {α : Type} (c : Codec α) (a b : α) (h : a = b) : c.enc a = c.enc b :=
  congrArg c.enc h

/-- the four named corollaries, for any lawful codec -/
theorem roundtrip {α : Type} {c : Codec α} {V : α → Prop} (h : Laws c V) {a : α} (ha : V a) :
    tryFromSlice c (c.enc a) = some a := h.1 a ha

theorem ser_injective {α : Type} {c : Codec α} {V : α → Prop} (h : Laws c V) {a b : α}
    (ha : V a) (hb : V b) (hab : c.enc a = c.enc b) : a = b := h.2.1 a b ha hb hab

theorem trailing_rejected {α : Type} {c : Codec α} {V : α → Prop} (h : Laws c V) {a : α}
    {extra : Bytes} (ha : V a) (hne : extra ≠ []) : tryFromSlice c (c.enc a ++ extra) = none :=
  h.2.2.1 a extra ha hne

theorem truncated_rejected {α : Type} {c : Codec α} {V : α → Prop} (h : Laws c V) {a : α}
    {k : ℕ} (ha : V a) (hk : k < (c.enc a).length) : tryFromSlice c ((c.enc a).take k) = none :=
  h.2.2.2 a k ha hk

/-- distinct values have distinct encodings (contrapositive form) -/
theorem distinct_encodings {α : Type} {c : Codec α} {V : α → Prop} (h : Laws c V) {a b : α}
    (ha : V a) (hb : V b) (hne : a ≠ b) : c.enc a ≠ c.enc b :=
  fun hab => hne (ser_injective h ha hb hab)

/-! ### one theorem per wire type of the `Nat` back-end

`NatMember P a` is `natValid P a ∧ 1 ≤ a ∧ a < P.p`; exponents are valid iff `< P.q`; vectors iff
every item is valid and there are fewer than `2^32` items (`VecValid`). -/

section instances
variable (P : Params) (fl : Flavour) {k : ℕ} (hp : P.p = 2 * P.q + 1) (W : WireSize P k)
include hp W

theorem element_wire : LawfulCodec (natCodecE P fl) (NatMember P) := natE_lawful P fl hp W

theorem exponent_wire : LawfulCodec (natCodecX P fl) (fun x => x < P.q) := natX_lawful P fl hp W

omit hp W in
/-- plaintexts on the wire are arbitrary naturals whose byte string has a `u32` length (no range
    check happens at this level; C14 is about `encode`) -/
theorem plaintext_wire :
    LawfulCodec (natCodecP fl) (fun m => (natToBytes fl m).length < 2 ^ 32) :=
  natCodecP_lawful fl

omit hp in
/-- in particular every plaintext below `256^k` -/
theorem plaintext_wire_bounded : PreLawfulCodec (natCodecP fl) (fun m => m < 256 ^ k) :=
  natP_preLawful fl W.k_pos (by have := W.k_small; omega)

theorem ciphertext_wire : LawfulCodec (codecCt (natOps P fl)) (CtValid (NatMember P)) :=
  natCt_lawful' P fl hp W

theorem public_key_wire : LawfulCodec (codecPk (natOps P fl)) (NatMember P) :=
  natPk_lawful P fl hp W

theorem private_key_wire :
    LawfulCodec (codecSk (natOps P fl)) (fun s => s.1 < P.q ∧ NatMember P s.2) :=
  natSk_lawful P fl hp W

theorem schnorr_wire :
    LawfulCodec (codecSchnorr (natOps P fl)) (SchnorrValid (NatMember P) (fun x => x < P.q)) :=
  natSchnorr_lawful P fl hp W

theorem cp_wire :
    LawfulCodec (codecCP (natOps P fl)) (CPValid (NatMember P) (fun x => x < P.q)) :=
  natCP_lawful P fl hp W

theorem commitments_wire :
    LawfulCodec (codecCommitments (natOps P fl)) (CommitmentsValid (NatMember P)) :=
  natCommitments_lawful P fl hp W

theorem responses_wire :
    LawfulCodec (codecResponses (natOps P fl)) (ResponsesValid (fun x => x < P.q)) :=
  natResponses_lawful P fl hp W

theorem shuffle_proof_wire :
    LawfulCodec (codecShuffleProof (natOps P fl))
      (ShuffleProofValid (NatMember P) (fun x => x < P.q)) :=
  natShuffleProof_lawful P fl hp W

/-- `StrandVector<Element>` -/
theorem vec_e_wire : LawfulCodec (vecE (natOps P fl)) (VecValid (NatMember P)) :=
  natVecE_lawful P fl hp W

/-- `StrandVector<Exponent>` -/
theorem vec_x_wire : LawfulCodec (vecX (natOps P fl)) (VecValid (fun x => x < P.q)) :=
  natVecX_lawful P fl hp W

/-- `StrandVector<Ciphertext>` -/
theorem vec_c_wire : LawfulCodec (vecC (natOps P fl)) (VecValid (CtValid (NatMember P))) :=
  natVecC_lawful P fl hp W

/-- `StrandVector<ChaumPedersen>` -/
theorem vec_cp_wire :
    LawfulCodec (nested (codecCP (natOps P fl)))
      (VecValid (CPValid (NatMember P) (fun x => x < P.q))) :=
  natVecCP_lawful P fl hp W

omit hp in
/-- `StrandVector<Plaintext>`, plaintexts below `256^k` -/
theorem vec_p_wire : PreLawfulCodec (nested (natCodecP fl)) (VecValid (fun m => m < 256 ^ k)) :=
  natVecP_preLawful fl W.k_pos (by have := W.k_small; omega)

/-- plain borsh `Vec<Element>` -/
theorem plain_vec_e_wire : LawfulCodec (vecOf (natOps P fl).codecE) (VecValid (NatMember P)) :=
  natPlainVecE_lawful P fl hp W

/-- plain borsh `Vec<Ciphertext>` -/
theorem plain_vec_ct_wire :
    LawfulCodec (vecOf (codecCt (natOps P fl))) (VecValid (CtValid (NatMember P))) :=
  natPlainVecCt_lawful P fl hp W

/-- C12 for all eighteen wire types -/
theorem all_wire_types :
    Laws (natCodecE P fl) (NatMember P) ∧
    Laws (natCodecX P fl) (fun x => x < P.q) ∧
    Laws (natCodecP fl) (fun m => (natToBytes fl m).length < 2 ^ 32) ∧
    Laws (codecCt (natOps P fl)) (CtValid (NatMember P)) ∧
    Laws (codecPk (natOps P fl)) (NatMember P) ∧
    Laws (codecSk (natOps P fl)) (fun s => s.1 < P.q ∧ NatMember P s.2) ∧
    Laws (codecSchnorr (natOps P fl)) (SchnorrValid (NatMember P) (fun x => x < P.q)) ∧
    Laws (codecCP (natOps P fl)) (CPValid (NatMember P) (fun x => x < P.q)) ∧
    Laws (codecCommitments (natOps P fl)) (CommitmentsValid (NatMember P)) ∧
    Laws (codecResponses (natOps P fl)) (ResponsesValid (fun x => x < P.q)) ∧
    Laws (codecShuffleProof (natOps P fl)) (ShuffleProofValid (NatMember P) (fun x => x < P.q)) ∧
    Laws (vecE (natOps P fl)) (VecValid (NatMember P)) ∧
    Laws (vecX (natOps P fl)) (VecValid (fun x => x < P.q)) ∧
    Laws (vecC (natOps P fl)) (VecValid (CtValid (NatMember P))) ∧
    Laws (nested (codecCP (natOps P fl))) (VecValid (CPValid (NatMember P) (fun x => x < P.q))) ∧
    Laws (nested (natCodecP fl)) (VecValid (fun m => m < 256 ^ k)) ∧
    Laws (vecOf (natOps P fl).codecE) (VecValid (NatMember P)) ∧
    Laws (vecOf (codecCt (natOps P fl))) (VecValid (CtValid (NatMember P))) :=
  ⟨wire_laws' (element_wire P fl hp W), wire_laws' (exponent_wire P fl hp W),
   wire_laws' (plaintext_wire fl), wire_laws' (ciphertext_wire P fl hp W),
   wire_laws' (public_key_wire P fl hp W), wire_laws' (private_key_wire P fl hp W),
   wire_laws' (schnorr_wire P fl hp W), wire_laws' (cp_wire P fl hp W),
   wire_laws' (commitments_wire P fl hp W), wire_laws' (responses_wire P fl hp W),
   wire_laws' (shuffle_proof_wire P fl hp W), wire_laws' (vec_e_wire P fl hp W),
   wire_laws' (vec_x_wire P fl hp W), wire_laws' (vec_c_wire P fl hp W),
   wire_laws' (vec_cp_wire P fl hp W), wire_laws (vec_p_wire P fl W),
   wire_laws' (plain_vec_e_wire P fl hp W), wire_laws' (plain_vec_ct_wire P fl hp W)⟩

end instances

/-! ### non-vacuity; boundary values are ordinary values -/

open Strand.C15 (P23 P23_safe)

theorem P23_size : WireSize P23 1 := ⟨by decide, by decide, by decide, by decide⟩
theorem P23_eq : P23.p = 2 * P23.q + 1 := by decide

/-- the identity element -/
example : NatMember P23 1 := ⟨natValid_one _, by decide, by decide⟩
example (P : Params) (h : 1 < P.p) : NatMember P 1 := ⟨natValid_one _, Nat.le_refl 1, h⟩
example : NatMember P23 2 := ⟨natValid_of_pow P23 2 (by decide), by decide, by decide⟩
example : NatMember P23 18 := ⟨natValid_of_pow P23 18 (by decide), by decide, by decide⟩
/-- exponents `0` and `q - 1` -/
example : (0 : ℕ) < P23.q := by decide
example : P23.q - 1 < P23.q := by decide
/-- plaintext `0` -/
example : (natToBytes .bigint 0).length < 2 ^ 32 := by decide
example : (natToBytes .malachite 0).length < 2 ^ 32 := by
  simp [natToBytes, natToBE, natToLEDigits]
example : (0 : ℕ) < 256 ^ 1 := by decide
/-- the empty vector, of anything -/
example {α : Type} (V : α → Prop) : VecValid V [] := ⟨by simp, by simp⟩
/-- a proof whose challenge is `0` and whose response is `q - 1` -/
example : SchnorrValid (NatMember P23) (fun x => x < P23.q) ⟨1, 0, 10⟩ :=
  ⟨⟨natValid_one _, by decide, by decide⟩, by decide, by decide⟩
/-- a shuffle proof with empty vectors -/
example : ShuffleProofValid (NatMember P23) (fun x => x < P23.q)
    ⟨⟨1, 1, 1, 1, 1, []⟩, ⟨0, 0, 0, 10, [], []⟩, [], []⟩ := by
  have h1 : NatMember P23 1 := ⟨natValid_one _, by decide, by decide⟩
  have hv : ∀ {α : Type} (V : α → Prop), VecValid V [] := fun V => ⟨by simp, by simp⟩
  exact ⟨⟨h1, h1, h1, h1, h1, hv _⟩, ⟨by decide, by decide, by decide, by decide, hv _, hv _⟩,
    hv _, hv _⟩

/-- the laws, instantiated: round trip of the identity ciphertext, both flavours -/
example (fl : Flavour) :
    tryFromSlice (codecCt (natOps P23 fl)) ((codecCt (natOps P23 fl)).enc ⟨1, 1⟩) = some ⟨1, 1⟩ :=
  roundtrip (wire_laws' (ciphertext_wire P23 fl P23_eq P23_size))
    ⟨⟨natValid_one _, by decide, by decide⟩, ⟨natValid_one _, by decide, by decide⟩⟩

/-- one trailing zero byte after the empty `StrandVector<Element>` is rejected -/
example (fl : Flavour) :
    tryFromSlice (vecE (natOps P23 fl)) ((vecE (natOps P23 fl)).enc [] ++ [0]) = none :=
  trailing_rejected (wire_laws' (vec_e_wire P23 fl P23_eq P23_size)) ⟨by simp, by simp⟩
    (by simp)

/-! ### what C12 does NOT say -/

private theorem natToLE_small (n : ℕ) (h0 : n ≠ 0) (h : n < 256) :
    natToLE n = [UInt8.ofNat n] := by
  rw [natToLE, if_neg h0, natToLEDigits, dif_neg h0, natToLEDigits, dif_pos (by omega),
    Nat.mod_eq_of_lt h]

/-- the num-bigint encoding of the Schnorr proof `(t, c, s) = (2, 0, 5)` over `p = 23`:
    `01000000 02 | 01000000 00 | 01000000 05` -/
theorem schnorr_205_enc :
    (codecSchnorr (natOps P23 .bigint)).enc ⟨2, 0, 5⟩
      = [1, 0, 0, 0, 2, 1, 0, 0, 0, 0, 1, 0, 0, 0, 5] := by
  show encBytesVec (natToLE 2) ++ encBytesVec (natToLE 0) ++ encBytesVec (natToLE 5) = _
  rw [natToLE_small 2 (by decide) (by decide), natToLE_small 5 (by decide) (by decide)]
  decide

theorem schnorr_205_valid : SchnorrValid (NatMember P23) (fun x => x < P23.q) ⟨2, 0, 5⟩ :=
  ⟨⟨natValid_of_pow P23 2 (by decide), by decide, by decide⟩, by decide, by decide⟩

/-- COUNTEREXAMPLE to the reading "an encoding with ANY byte removed is rejected": deleting the
    interior byte at index 4 (the payload `02` of the commitment) from the 15-byte encoding of the
    valid proof `(2, 0, 5)` leaves 14 bytes `01000000 01 | 00000000 | 01000000 05` that decode,
    strictly, to the DIFFERENT valid proof `(1, 0, 5)`: the next length prefix supplies the payload
    byte `01`, and the remaining `00000000` is the empty byte string, accepted as the exponent 0. -/
theorem interior_deletion_accepted :
    tryFromSlice (codecSchnorr (natOps P23 .bigint))
      (((codecSchnorr (natOps P23 .bigint)).enc ⟨2, 0, 5⟩).eraseIdx 4) = some ⟨1, 0, 5⟩ := by
  rw [schnorr_205_enc]
  decide

/-- every deletion at the END of the same encoding is rejected, as C12 says -/
example (k : ℕ) (hk : k < 15) :
    tryFromSlice (codecSchnorr (natOps P23 .bigint))
      (((codecSchnorr (natOps P23 .bigint)).enc ⟨2, 0, 5⟩).take k) = none :=
  truncated_rejected (wire_laws' (schnorr_wire P23 .bigint P23_eq P23_size)) schnorr_205_valid
    (by rw [schnorr_205_enc]; exact hk)

/-- REMARK (decoding is not injective; C12 claims injectivity of ENCODING only).  Deleting index 5
    instead (the payload `00` of the challenge) leaves a 14-byte string that decodes to the SAME
    proof `(2, 0, 5)`: the exponent 0 has the two accepted encodings `01000000 00` and `00000000`,
    of which the serialiser only ever produces the first. -/
theorem second_encoding_accepted :
    tryFromSlice (codecSchnorr (natOps P23 .bigint))
      (((codecSchnorr (natOps P23 .bigint)).enc ⟨2, 0, 5⟩).eraseIdx 5) = some ⟨2, 0, 5⟩ ∧
    ((codecSchnorr (natOps P23 .bigint)).enc ⟨2, 0, 5⟩).eraseIdx 5
      ≠ (codecSchnorr (natOps P23 .bigint)).enc ⟨2, 0, 5⟩ := by
  rw [schnorr_205_enc]
  decide

/-- likewise elements: zero padding (at the most significant end) is accepted by both flavours -/
example : tryFromSlice (natCodecE P23 .bigint) [2, 0, 0, 0, 13, 0] = some 13 ∧
    tryFromSlice (natCodecE P23 .bigint) [1, 0, 0, 0, 13] = some 13 ∧
    tryFromSlice (natCodecE P23 .malachite) [2, 0, 0, 0, 0, 13] = some 13 ∧
    tryFromSlice (natCodecE P23 .malachite) [1, 0, 0, 0, 13] = some 13 := by decide

end Strand.C12
