import StrandModel.Lemmas.KeymakerLemmas
import StrandModel.Lemmas.SigmaIff
import StrandModel.Model.Threshold
import StrandModel.Props.C05Core
import StrandModel.Props.C15
/-
C07 — verifiable decryption.  The factor a key holder releases with its Chaum-Pedersen proof
verifies against the holder's public key and the ciphertext; dividing the ciphertext by a
factor that denotes `gr^sk` gives exactly what `decrypt` gives; the batch verifier accepts iff
every single factor/proof pair is accepted (and panics iff the lengths differ).

Rejection of wrong factors / foreign proofs.  `o.hashToExp` is an ARBITRARY function here, so
"every forged proof is rejected" is not a theorem (it is a random-oracle statement).  What is
proved, with no assumption on the hash:
* `verify_decryption_iff`: acceptance ⇔ challenge = hash of THIS (generator, gr, pk, factor,
  commitments, mhr, label) ∧ the two group equations; hence
* a proof whose challenge is not the hash of the statement it is checked against (other
  ciphertext, key, factor or label) is rejected — `rejects_of_challenge_ne`; a proof accepted
  for two statements exhibits a hash collision — `accepted_twice_collision`;
* special soundness — `cp_special_sound`, `decryption_special_sound`: two accepted proofs with
  the same commitments and different challenges force the factor to be the true one; so for
  a factor different from the true one there is, per commitment pair, AT MOST ONE challenge
  value in `Z_q` that can be answered — `wrong_factor_unique_challenge`;
* one accepted proof with a non-zero challenge fixes the factor and the key —
  `proof_determines_factor`, `proof_determines_key`.
-/
set_option linter.unusedSectionVars false
namespace Strand.C07
open Strand

variable {E X : Type} [DecidableEq E] [DecidableEq X] {o : Ops E X} {q : ℕ} {A : Type}
  [AddCommGroup A] [Module (ZMod q) A]

/-! ### 1. the released factor and proof verify -/

/-- `Keymaker::decryption_factor` then `verify_decryption`: every secret, ciphertext whose
    `gr` is a group member, label, nonce -/
theorem factor_proof_verifies (L : Lawful o q A) (sk r : X) (c : Ciphertext E) (label : Bytes)
    (hgr : L.valid c.gr) :
    verifyDecryption o (pkOf o sk) (kmDecryptionFactor o sk (pkOf o sk) c label r).1 c.mhr c.gr
      (kmDecryptionFactor o sk (pkOf o sk) c label r).2 label = true :=
  C05.decryption_proof_complete L sk r c label hgr

/-- the threshold `decryption_factor`: share `x`, verification key `g^x` -/
theorem th_factor_proof_verifies (L : Lawful o q A) (x r : X) (c : Ciphertext E) (label : Bytes)
    (hgr : L.valid c.gr) :
    verifyDecryption o (o.gmodPow x) (thDecryptionFactor o c x (o.gmodPow x) label r).1 c.mhr c.gr
      (thDecryptionFactor o c x (o.gmodPow x) label r).2 label = true :=
  C05.decryption_proof_complete L x r c label hgr

/-- both release the same factor, `gr^sk` -/
theorem factor_eq (sk r : X) (pk : E) (c : Ciphertext E) (label : Bytes) :
    (kmDecryptionFactor o sk pk c label r).1 = decryptionFactor o sk c ∧
    (thDecryptionFactor o c sk pk label r).1 = decryptionFactor o sk c := ⟨rfl, rfl⟩

/-! ### 2, 3. dividing by the factor is decrypting -/

theorem divide_by_true_factor (sk : X) (c : Ciphertext E) :
    divideByFactor o c (decryptionFactor o sk c) = decrypt o sk c := rfl

/-- any representative (canonical or not) of the true factor gives the same result -/
theorem divide_by_equal_den (L : Lawful o q A) (sk : X) (c : Ciphertext E) {f : E}
    (hf : L.valid f) (hm : L.valid c.mhr) (hgr : L.valid c.gr)
    (h : L.den f = L.dx sk • L.den c.gr) : divideByFactor o c f = decrypt o sk c := by
  have he := L.emodPow_valid sk hgr
  unfold divideByFactor decrypt
  apply L.den_inj (L.modp_valid (L.divp_valid hm hf)) (L.modp_valid (L.divp_valid hm he))
    (L.modp_canon (L.divp_valid hm hf)) (L.modp_canon (L.divp_valid hm he))
  rw [L.modp_den (L.divp_valid hm hf), L.modp_den (L.divp_valid hm he), L.divp_den hm hf,
    L.divp_den hm he, L.emodPow_den _ hgr, h]

/-- a canonical factor that denotes `gr^sk` IS the released factor -/
theorem factor_unique (L : Lawful o q A) (sk : X) (c : Ciphertext E) {f : E} (hf : L.V f)
    (hgr : L.valid c.gr) (h : L.den f = L.dx sk • L.den c.gr) : f = decryptionFactor o sk c :=
  L.den_inj hf.1 (L.emodPow_valid sk hgr) hf.2 (L.emodPow_canon sk hgr)
    (by rw [h]; exact (L.emodPow_den sk hgr).symm)

/-! ### 4. the batch verifier -/

theorem all_zip3_iff {α β γ : Type} (p : α → β → γ → Bool) :
    ∀ (as : List α) (bs : List β) (cs : List γ), bs.length = cs.length → bs.length = as.length →
      (((List.zip as (List.zip bs cs)).all fun (a, b, c) => p a b c) = true ↔
        ∀ i (ha : i < as.length) (hb : i < bs.length) (hc : i < cs.length),
          p as[i] bs[i] cs[i] = true)
  | [], [], [], _, _ => by simp
  | a :: as, b :: bs, c :: cs, h1, h2 => by
    have ih := all_zip3_iff p as bs cs (by simpa using h1) (by simpa using h2)
    simp only [List.zip_cons_cons, List.all_cons, Bool.and_eq_true, ih, List.length_cons]
    constructor
    · rintro ⟨h0, hi⟩ i ha hb hc
      cases i with
      | zero => exact h0
      | succ j => exact hi j (by omega) (by omega) (by omega)
    · intro h
      exact ⟨h 0 (by omega) (by omega) (by omega), fun i ha hb hc =>
        h (i + 1) (by omega) (by omega) (by omega)⟩
  | [], _ :: _, _, _, h2 => by simp at h2
  | _ :: _, [], _, _, h2 => by simp at h2
  | _, [], _ :: _, h1, _ => by simp at h1
  | _, _ :: _, [], h1, _ => by simp at h1

/-- `verify_decryption_factors` panics (the `assert_eq!`s) iff the lengths differ -/
theorem batch_none_iff (pk : E) (cts : List (Ciphertext E)) (decs : List E)
    (proofs : List (ChaumPedersen E X)) (label : Bytes) :
    verifyDecryptionFactors o pk cts decs proofs label = none ↔
      decs.length ≠ proofs.length ∨ decs.length ≠ cts.length := by
  unfold verifyDecryptionFactors
  split
  · rename_i h; exact ⟨fun _ => h, fun _ => rfl⟩
  · rename_i h; exact ⟨fun h' => (nomatch h'), fun h' => absurd h' h⟩

/-- it returns `true` iff the lengths agree and EVERY position verifies -/
theorem batch_iff (pk : E) (cts : List (Ciphertext E)) (decs : List E)
    (proofs : List (ChaumPedersen E X)) (label : Bytes) :
    verifyDecryptionFactors o pk cts decs proofs label = some true ↔
      decs.length = proofs.length ∧ decs.length = cts.length ∧
        ∀ i (hc : i < cts.length) (hd : i < decs.length) (hp : i < proofs.length),
          verifyDecryption o pk decs[i] cts[i].mhr cts[i].gr proofs[i] label = true := by
  unfold verifyDecryptionFactors
  split
  · rename_i h
    constructor
    · intro h'; cases h'
    · rintro ⟨h1, h2, _⟩
      rcases h with h | h
      · exact absurd h1 h
      · exact absurd h2 h
  · rename_i h
    have h1 : decs.length = proofs.length := by
      by_contra hne; exact h (Or.inl hne)
    have h2 : decs.length = cts.length := by
      by_contra hne; exact h (Or.inr hne)
    rw [Option.some.injEq, all_zip3_iff (fun c d pf => verifyDecryption o pk d c.mhr c.gr pf label)
      cts decs proofs h1 h2]
    exact ⟨fun h => ⟨h1, h2, h⟩, fun h => h.2.2⟩

/-- it returns `false` iff the lengths agree and SOME position does not verify -/
theorem batch_false_iff (pk : E) (cts : List (Ciphertext E)) (decs : List E)
    (proofs : List (ChaumPedersen E X)) (label : Bytes) :
    verifyDecryptionFactors o pk cts decs proofs label = some false ↔
      decs.length = proofs.length ∧ decs.length = cts.length ∧
        ∃ i, ∃ (hc : i < cts.length) (hd : i < decs.length) (hp : i < proofs.length),
          verifyDecryption o pk decs[i] cts[i].mhr cts[i].gr proofs[i] label = false := by
  have hn := batch_none_iff (o := o) pk cts decs proofs label
  have ht := batch_iff (o := o) pk cts decs proofs label
  cases hv : verifyDecryptionFactors o pk cts decs proofs label with
  | none =>
    rw [hv] at hn
    have := hn.mp rfl
    constructor
    · intro h; cases h
    · rintro ⟨h1, h2, _⟩
      rcases this with h | h
      · exact absurd h1 h
      · exact absurd h2 h
  | some b =>
    rw [hv] at hn ht
    have hl : decs.length = proofs.length ∧ decs.length = cts.length := by
      have : ¬ (decs.length ≠ proofs.length ∨ decs.length ≠ cts.length) := fun h => by
        have := hn.mpr h; cases this
      exact ⟨by_contra fun h => this (Or.inl h), by_contra fun h => this (Or.inr h)⟩
    cases b with
    | false =>
      refine ⟨fun _ => ⟨hl.1, hl.2, ?_⟩, fun _ => rfl⟩
      by_contra hne
      have : some false = some true := ht.mpr ⟨hl.1, hl.2, fun i hc hd hp => by
        by_contra hb
        exact hne ⟨i, hc, hd, hp, by simpa using hb⟩⟩
      cases this
    | true =>
      constructor
      · intro h; cases h
      · rintro ⟨_, _, i, hc, hd, hp, hf⟩
        have := (ht.mp rfl).2.2 i hc hd hp
        rw [hf] at this; cases this

/-- one invalid factor/proof pair anywhere in a well-formed batch: the batch is rejected -/
theorem batch_rejects_one_bad (pk : E) (cts : List (Ciphertext E)) (decs : List E)
    (proofs : List (ChaumPedersen E X)) (label : Bytes) (h1 : decs.length = proofs.length)
    (h2 : decs.length = cts.length) (i : Nat) (hc : i < cts.length) (hd : i < decs.length)
    (hp : i < proofs.length)
    (hbad : verifyDecryption o pk decs[i] cts[i].mhr cts[i].gr proofs[i] label = false) :
    verifyDecryptionFactors o pk cts decs proofs label = some false :=
  (batch_false_iff pk cts decs proofs label).mpr ⟨h1, h2, i, hc, hd, hp, hbad⟩

/-- the honest batch is accepted: factors and proofs released for every ciphertext (nonces
    `ns`, one per ciphertext) -/
theorem batch_complete (L : Lawful o q A) (sk : X) (cts : List (Ciphertext E)) (ns : List X)
    (label : Bytes) (hlen : ns.length = cts.length) (hgr : ∀ c ∈ cts, L.valid c.gr) :
    verifyDecryptionFactors o (pkOf o sk) cts
      (cts.map (decryptionFactor o sk))
      (List.zipWith (fun c n => (kmDecryptionFactor o sk (pkOf o sk) c label n).2) cts ns)
      label = some true := by
  rw [batch_iff]
  refine ⟨by simp [hlen], by simp, fun i hc hd hp => ?_⟩
  rw [List.getElem_map, List.getElem_zipWith]
  exact C05.decryption_proof_complete L sk _ _ label (hgr _ (List.getElem_mem hc))

/-! ### 5, 6. what an accepted proof implies -/

/-- `verify_decryption` accepts iff the challenge is the hash of THIS statement (generator,
    `gr`, public key, factor, both commitments, `mhr`, label) and both group equations hold -/
theorem verify_decryption_iff (L : Lawful o q A) {pk f mhr gr : E} {pf : ChaumPedersen E X}
    (label : Bytes) (hpk : L.valid pk) (hf : L.valid f) (hgr : L.valid gr)
    (ht1 : L.valid pf.commitment1) (ht2 : L.valid pf.commitment2) :
    verifyDecryption o pk f mhr gr pf label = true ↔
      pf.challenge = cpChallenge o o.generator gr pk f pf.commitment1 pf.commitment2
        (ctxMhr o mhr label) ∧
      L.dx pf.response • L.den o.generator
        = L.den pf.commitment1 + L.dx pf.challenge • L.den pk ∧
      L.dx pf.response • L.den gr = L.den pf.commitment2 + L.dx pf.challenge • L.den f :=
  cp_verify_iff L (g1 := none) (ctxMhr o mhr label) L.gen_valid hgr hpk hf ht1 ht2

/-- a proof whose challenge is not the hash of the statement it is checked against — because
    it was made for another ciphertext (`mhr`, `gr`), key, factor or label — is rejected -/
theorem rejects_of_challenge_ne {pk f mhr gr : E} {pf : ChaumPedersen E X} (label : Bytes)
    (h : cpChallenge o o.generator gr pk f pf.commitment1 pf.commitment2 (ctxMhr o mhr label)
      ≠ pf.challenge) :
    verifyDecryption o pk f mhr gr pf label = false :=
  cp_rejects_of_challenge_ne (g1 := none) (ctxMhr o mhr label) h

/-- one proof accepted for two statements exhibits a collision of `hash_to_exp` on the two
    transcripts (which differ as byte strings when the statements do: C12) -/
theorem accepted_twice_collision {pk f mhr gr pk' f' mhr' gr' : E} {pf : ChaumPedersen E X}
    (label label' : Bytes) (h : verifyDecryption o pk f mhr gr pf label = true)
    (h' : verifyDecryption o pk' f' mhr' gr' pf label' = true) :
    o.hashToExp (cpBytes o o.generator gr pk f pf.commitment1 pf.commitment2 (ctxMhr o mhr label))
      = o.hashToExp (cpBytes o o.generator gr' pk' f' pf.commitment1 pf.commitment2
          (ctxMhr o mhr' label')) := by
  have e : ∀ {pk f mhr gr : E} {label : Bytes}, verifyDecryption o pk f mhr gr pf label = true →
      cpChallenge o o.generator gr pk f pf.commitment1 pf.commitment2 (ctxMhr o mhr label)
        = pf.challenge := by
    intro pk f mhr gr label h
    by_contra hne
    rw [rejects_of_challenge_ne label hne] at h
    cases h
  exact (e h).trans (e h').symm

/-- one accepted proof with non-zero challenge (prime order) cannot vouch for two factors -/
theorem proof_determines_factor [Fact q.Prime] (L : Lawful o q A) {pk f f' mhr mhr' gr : E}
    {pf : ChaumPedersen E X} (label label' : Bytes) (hpk : L.valid pk) (hf : L.V f) (hf' : L.V f')
    (hgr : L.valid gr) (ht1 : L.valid pf.commitment1) (ht2 : L.valid pf.commitment2)
    (hc : L.dx pf.challenge ≠ 0)
    (h : verifyDecryption o pk f mhr gr pf label = true)
    (h' : verifyDecryption o pk f' mhr' gr pf label' = true) : f = f' := by
  obtain ⟨_, _, e2⟩ := (verify_decryption_iff L label hpk hf.1 hgr ht1 ht2).mp h
  obtain ⟨_, _, e2'⟩ := (verify_decryption_iff L label' hpk hf'.1 hgr ht1 ht2).mp h'
  apply L.den_inj hf.1 hf'.1 hf.2 hf'.2
  have : L.dx pf.challenge • L.den f = L.dx pf.challenge • L.den f' :=
    add_left_cancel (e2.symm.trans e2')
  exact (smul_right_inj hc).mp this

/-- ... nor for two public keys -/
theorem proof_determines_key [Fact q.Prime] (L : Lawful o q A) {pk pk' f mhr mhr' gr : E}
    {pf : ChaumPedersen E X} (label label' : Bytes) (hpk : L.V pk) (hpk' : L.V pk')
    (hf : L.valid f) (hgr : L.valid gr) (ht1 : L.valid pf.commitment1)
    (ht2 : L.valid pf.commitment2) (hc : L.dx pf.challenge ≠ 0)
    (h : verifyDecryption o pk f mhr gr pf label = true)
    (h' : verifyDecryption o pk' f mhr' gr pf label' = true) : pk = pk' := by
  obtain ⟨_, e1, _⟩ := (verify_decryption_iff L label hpk.1 hf hgr ht1 ht2).mp h
  obtain ⟨_, e1', _⟩ := (verify_decryption_iff L label' hpk'.1 hf hgr ht1 ht2).mp h'
  apply L.den_inj hpk.1 hpk'.1 hpk.2 hpk'.2
  have : L.dx pf.challenge • L.den pk = L.dx pf.challenge • L.den pk' :=
    add_left_cancel (e1.symm.trans e1')
  exact (smul_right_inj hc).mp this

section sound
variable [Fact q.Prime]

/-- **special soundness of Chaum-Pedersen**: two accepted proofs (any contexts, hence any
    hash values) with the same commitments and different challenges give ONE exponent `w`
    with `y1 = base1^w` and `y2 = g2^w` -/
theorem cp_special_sound (L : Lawful o q A) {y1 y2 g2 : E} {g1 : Option E}
    {pf pf' : ChaumPedersen E X} (ctx ctx' : Bytes) (hb : L.valid (baseOr o g1))
    (hg2 : L.valid g2) (hy1 : L.valid y1) (hy2 : L.valid y2) (ht1 : L.valid pf.commitment1)
    (ht2 : L.valid pf.commitment2) (hc1 : pf'.commitment1 = pf.commitment1)
    (hc2 : pf'.commitment2 = pf.commitment2) (hne : L.dx pf.challenge ≠ L.dx pf'.challenge)
    (h : cpVerifyCtx o y1 y2 g1 g2 pf ctx = true) (h' : cpVerifyCtx o y1 y2 g1 g2 pf' ctx' = true) :
    ∃ w : ZMod q, L.den y1 = w • L.den (baseOr o g1) ∧ L.den y2 = w • L.den g2 := by
  obtain ⟨_, e1, e2⟩ := (cp_verify_iff L ctx hb hg2 hy1 hy2 ht1 ht2).mp h
  obtain ⟨_, e1', e2'⟩ := (cp_verify_iff L ctx' hb hg2 hy1 hy2 (hc1 ▸ ht1) (hc2 ▸ ht2)).mp h'
  rw [hc1] at e1'
  rw [hc2] at e2'
  exact cp_special_sound_alg hne e1 e1' e2 e2'

/-- **special soundness of Schnorr** -/
theorem schnorr_special_sound (L : Lawful o q A) {y : E} {g : Option E} {pf pf' : Schnorr E X}
    (ctx ctx' : Bytes) (hb : L.valid (baseOr o g)) (hy : L.valid y) (ht : L.valid pf.commitment)
    (hc : pf'.commitment = pf.commitment) (hne : L.dx pf.challenge ≠ L.dx pf'.challenge)
    (h : schnorrVerifyCtx o y g pf ctx = true) (h' : schnorrVerifyCtx o y g pf' ctx' = true) :
    ∃ w : ZMod q, L.den y = w • L.den (baseOr o g) := by
  obtain ⟨_, e⟩ := (schnorr_verify_iff L ctx hb hy ht).mp h
  obtain ⟨_, e'⟩ := (schnorr_verify_iff L ctx' hb hy (hc ▸ ht)).mp h'
  rw [hc] at e'
  exact schnorr_special_sound_alg hne e e'

/-- **for verifiable decryption**: if two proofs with the same commitments and different
    challenges are accepted for the factor `f` under the key `pk = g^sk` (non-trivial
    generator), then `f` denotes the true factor `gr^sk` -/
theorem decryption_special_sound (L : Lawful o q A) {pk f mhr mhr' gr : E} (sk : X)
    {pf pf' : ChaumPedersen E X} (label label' : Bytes) (hpk : L.valid pk) (hf : L.valid f)
    (hgr : L.valid gr) (ht1 : L.valid pf.commitment1) (ht2 : L.valid pf.commitment2)
    (hc1 : pf'.commitment1 = pf.commitment1) (hc2 : pf'.commitment2 = pf.commitment2)
    (hne : L.dx pf.challenge ≠ L.dx pf'.challenge)
    (hpkd : L.den pk = L.dx sk • L.den o.generator) (hg : L.den o.generator ≠ 0)
    (h : verifyDecryption o pk f mhr gr pf label = true)
    (h' : verifyDecryption o pk f mhr' gr pf' label' = true) :
    L.den f = L.dx sk • L.den gr := by
  obtain ⟨w, hw1, hw2⟩ := cp_special_sound L (g1 := none) (ctxMhr o mhr label)
    (ctxMhr o mhr' label') L.gen_valid hgr hpk hf ht1 ht2 hc1 hc2 hne h h'
  have : w = L.dx sk := smul_left_cancel_of_ne_zero hg (hw1.symm.trans hpkd)
  rw [hw2, this]

/-- ... so dividing by it is decrypting with the private key -/
theorem decryption_special_sound_decrypt (L : Lawful o q A) (c : Ciphertext E) {pk f : E}
    (sk : X) {pf pf' : ChaumPedersen E X} (label label' : Bytes) (hpk : L.valid pk)
    (hf : L.valid f) (hm : L.valid c.mhr) (hgr : L.valid c.gr) (ht1 : L.valid pf.commitment1)
    (ht2 : L.valid pf.commitment2) (hc1 : pf'.commitment1 = pf.commitment1)
    (hc2 : pf'.commitment2 = pf.commitment2) (hne : L.dx pf.challenge ≠ L.dx pf'.challenge)
    (hpkd : L.den pk = L.dx sk • L.den o.generator) (hg : L.den o.generator ≠ 0)
    (h : verifyDecryption o pk f c.mhr c.gr pf label = true)
    (h' : verifyDecryption o pk f c.mhr c.gr pf' label' = true) :
    divideByFactor o c f = decrypt o sk c :=
  divide_by_equal_den L sk c hf hm hgr (decryption_special_sound L sk label label' hpk hf hgr
    ht1 ht2 hc1 hc2 hne hpkd hg h h')

/-- contrapositive: for a factor that is NOT the true one, all accepted proofs with a given
    pair of commitments carry the same challenge value — a forger must hit that one value of
    `Z_q` with the hash -/
theorem wrong_factor_unique_challenge (L : Lawful o q A) {pk f mhr mhr' gr : E} (sk : X)
    {pf pf' : ChaumPedersen E X} (label label' : Bytes) (hpk : L.valid pk) (hf : L.valid f)
    (hgr : L.valid gr) (ht1 : L.valid pf.commitment1) (ht2 : L.valid pf.commitment2)
    (hc1 : pf'.commitment1 = pf.commitment1) (hc2 : pf'.commitment2 = pf.commitment2)
    (hpkd : L.den pk = L.dx sk • L.den o.generator) (hg : L.den o.generator ≠ 0)
    (hwrong : L.den f ≠ L.dx sk • L.den gr)
    (h : verifyDecryption o pk f mhr gr pf label = true)
    (h' : verifyDecryption o pk f mhr' gr pf' label' = true) :
    L.dx pf.challenge = L.dx pf'.challenge := by
  by_contra hne
  exact hwrong (decryption_special_sound L sk label label' hpk hf hgr ht1 ht2 hc1 hc2 hne hpkd
    hg h h')

end sound

/-! ### non-vacuity: p = 23, q = 11, g = 2; sk = 7, pk = 2^7 = 13; c = (3, 9) -/
section examples
open Strand.C15

noncomputable def L23 := natLawful P23 .bigint P23_safe

/-- the hypotheses are satisfiable: 9 = 2^5 and 3 are members, the key denotes `7 • g` -/
example : L23.valid 9 ∧ L23.valid 3 ∧ L23.valid 13 :=
  ⟨natValid_of_pow P23 9 (by norm_num [P23]), natValid_of_pow P23 3 (by norm_num [P23]),
   natValid_of_pow P23 13 (by norm_num [P23])⟩
example : L23.den (pkOf (natOps P23 .bigint) 7) = L23.dx 7 • L23.den (natOps P23 .bigint).generator :=
  L23.gmodPow_den 7
example : pkOf (natOps P23 .bigint) 7 = 13 := by decide
example : decryptionFactor (natOps P23 .bigint) 7 ⟨3, 9⟩ = 4 := by decide
example : divideByFactor (natOps P23 .bigint) ⟨3, 9⟩ 4 = 18 ∧
    decrypt (natOps P23 .bigint) 7 ⟨3, 9⟩ = 18 := by decide
/-- a non-canonical representative of the factor (4 + 23) divides to the same plaintext -/
example : divideByFactor (natOps P23 .bigint) ⟨3, 9⟩ 27 = 18 := by decide
/-- the wrong factor 8 does not -/
example : divideByFactor (natOps P23 .bigint) ⟨3, 9⟩ 8 ≠ 18 := by decide
/-- the honest factor/proof pair verifies (SHA-512 is not evaluated: the theorem applies) -/
example (label : Bytes) (n : ℕ) :
    verifyDecryption (natOps P23 .bigint) 13
      (kmDecryptionFactor (natOps P23 .bigint) 7 13 ⟨3, 9⟩ label n).1 3 9
      (kmDecryptionFactor (natOps P23 .bigint) 7 13 ⟨3, 9⟩ label n).2 label = true :=
  factor_proof_verifies L23 7 n ⟨3, 9⟩ label (natValid_of_pow P23 9 (by norm_num [P23]))
/-- the batch verifier panics on a length mismatch and accepts the empty batch -/
example (label : Bytes) :
    verifyDecryptionFactors (natOps P23 .bigint) 13 [⟨3, 9⟩] [] [] label = none := by
  simp [verifyDecryptionFactors]
example (label : Bytes) :
    verifyDecryptionFactors (natOps P23 .bigint) 13 [] [] [] label = some true := by
  simp [verifyDecryptionFactors]
/-- special soundness on concrete transcripts: t = (g^2, gr^2) = (4, 12), challenges 1 and 2,
    responses 2 + 1·7 = 9 and 2 + 2·7 = 16 ≡ 5: both group equations hold for factor 4 -/
example : (powm 2 9 23 = 4 * powm 13 1 23 % 23 ∧ powm 9 9 23 = 12 * powm 4 1 23 % 23) ∧
    (powm 2 5 23 = 4 * powm 13 2 23 % 23 ∧ powm 9 5 23 = 12 * powm 4 2 23 % 23) := by decide

end examples
end Strand.C07
