import StrandModel.Lemmas.RngLemmas
import StrandModel.Model.GenShuffle
import StrandModel.Props.C02
import StrandModel.Props.C03Core
import StrandModel.Props.C15
import StrandModel.Model.Threshold
/-
C18 — randomness.  "Random exponents lie in [0, q) and span the full range, random elements are
valid group members, random plaintexts are encodable, and generating any of them never panics.
Every encryption, re-encryption, commitment and proof uses fresh randomness.  The shuffle's
permutation is drawn uniformly from all N! permutations."

WHAT IS PROVED HERE, AND RELATIVE TO WHAT.  The samplers are modelled as deterministic functions
of the bytes the RNG returns (`Model/Rng.lean`).  All uniformity statements are RELATIVE TO UNIFORM
RNG BYTES: they are counting / bijection statements ("every output has the same number of byte
pre-images"), from which "uniform bytes ⇒ uniform output" follows.  The statistical quality of the
operating-system RNG (`OsRng`), and of malachite's external PRNG (only the bounds passed to it are
modelled), are outside any theorem.

 1. `gen_biguint_below`: output `< bound`, consumes a positive multiple of `4·⌈bits/32⌉` bytes and
    returns the untouched suffix; `none` only for lack of bytes / 64 rejections in a row.
 2. one candidate: `< 2^bits`; `bs ↦ (candidate, discarded bits)` is a BIJECTION between byte
    strings of the consumed length and `[0,2^bits) × [0,2^(32·len-bits))`; every `n < 2^bits` has
    exactly `2^(32·len-bits)` pre-images.  Rejection sampling of a uniform candidate is uniform on
    `[0, bound)`; every `n < bound` is reached.
 3. `rnd_exp ∈ [0,q)`, all of `[0,q)` reached; `rnd_plaintext` encodable; `rnd` is a canonical
    group member (the `expect` never fires); pre-repair witnesses; malachite bounds.
 4. `sample_single`: output `< range`; the accepted words for each output `hi` are an interval of
    exactly `2^lz` words (same count for every `hi`) — uniform.
 5. every output of `gen_permutation` is a permutation of `0..n-1` (n = 0, 1 included).
 6. legal choice vectors ↔ permutations is a bijection (injective, `n!` of each); together with 4
    (each `j_i` uniform on `0..i`) the permutation is uniform on the `n!` permutations.  Every
    permutation is reached for `n < 2^32`.
 7. draw counts and disjointness of the draws of every tape-taking model function.
 8. non-vacuity examples.
-/
set_option linter.unusedSectionVars false
namespace Strand.C18
open Strand

/-! ### 1. `gen_biguint_below` -/

/-- the sampled value is below the bound -/
theorem sampleBelowBigint_lt {bound fuel : Nat} {bs : Bytes} {n : Nat} {rest : Bytes}
    (h : sampleBelowBigint bound fuel bs = some (n, rest)) : n < bound :=
  _root_.Strand.sampleBelowBigint_lt h

/-- `rest` is a suffix of `bs`; the consumed prefix has length `k · 4·⌈bits/32⌉` with
    `1 ≤ k ≤ fuel` (`k` = number of candidates drawn), `bits = ⌊log₂ bound⌋ + 1` -/
theorem sampleBelowBigint_consumes {bound fuel : Nat} {bs : Bytes} {n : Nat} {rest : Bytes}
    (h : sampleBelowBigint bound fuel bs = some (n, rest)) :
    ∃ k used, 1 ≤ k ∧ k ≤ fuel ∧ bs = used ++ rest ∧
      used.length = k * (4 * ((bound.log2 + 1 + 31) / 32)) := by
  have hb : bound ≠ 0 := by have := _root_.Strand.sampleBelowBigint_lt h; omega
  obtain ⟨k, hk1, hk2, hk3, rfl⟩ := _root_.Strand.sampleBelowBigint_consumes h
  have hneed : needOf bound = 4 * ((bound.log2 + 1 + 31) / 32) := by
    unfold needOf bitsOf; rw [if_neg hb]
  rw [hneed] at hk3 ⊢
  exact ⟨k, bs.take _, hk1, hk2, (List.take_append_drop _ _).symm, by
    rw [List.length_take]; omega⟩

/-- no panic, no silent failure: with bytes for `fuel` candidates, `none` means `fuel` rejections
    in a row; each rejection has probability `< 1/2` because `2^(bits-1) ≤ bound` -/
theorem sampleBelowBigint_none_only_by_rejection {bound fuel : Nat} {bs : Bytes}
    (h : sampleBelowBigint bound fuel bs = none) (hl : fuel * needOf bound ≤ bs.length) :
    ∀ k, k < fuel →
      bound ≤ bigintCandidate (bitsOf bound) ((bs.drop (k * needOf bound)).take (needOf bound)) :=
  sampleBelowBigint_eq_none h hl

theorem acceptance_more_than_half {bound : Nat} (h : 0 < bound) :
    2 ^ (bitsOf bound - 1) ≤ bound ∧ bound < 2 ^ bitsOf bound :=
  ⟨two_pow_bitsOf_le bound h, lt_two_pow_bitsOf bound h⟩

/-! ### 2. one candidate is uniform on `[0, 2^bits)` -/

theorem bigintCandidate_lt {bits : Nat} {bs : Bytes} (hb : 0 < bits)
    (hl : bs.length = 4 * ((bits + 31) / 32)) : bigintCandidate bits bs < 2 ^ bits :=
  _root_.Strand.bigintCandidate_lt hb hl

/-- `bs ↦ (candidate, discarded low bits of the top word)` is a bijection between the byte
    strings of length `4·len` and `Fin (2^bits) × Fin (2^(32·len - bits))`, `len = ⌈bits/32⌉` -/
theorem bigintCandidate_bijective {bits : Nat} (hb : 0 < bits) :
    Function.Bijective
      (fun bs : {bs : Bytes // bs.length = 4 * ((bits + 31) / 32)} =>
        ((⟨bigintCandidate bits bs.1, _root_.Strand.bigintCandidate_lt hb bs.2⟩ : Fin (2 ^ bits)),
         (⟨candDiscard bits bs.1, candDiscard_lt bits bs.1⟩ :
            Fin (2 ^ (32 * ((bits + 31) / 32) - bits))))) :=
  candidate_discard_bijective hb

/-- every `n < 2^bits` is the candidate of exactly `2^(32·len - bits)` byte strings -/
theorem bigintCandidate_uniform {bits : Nat} (hb : 0 < bits) {n : Nat} (hn : n < 2 ^ bits) :
    Nat.card {bs : Bytes // bs.length = 4 * ((bits + 31) / 32) ∧ bigintCandidate bits bs = n}
      = 2 ^ (32 * ((bits + 31) / 32) - bits) :=
  candidate_fiber_card hb hn

/-- full range: every `n < bound` is returned, from a byte string of exactly the consumed length -/
theorem sampleBelowBigint_full_range {bound n : Nat} (hn : n < bound) (fuel : Nat) :
    ∃ bs : Bytes, sampleBelowBigint bound (fuel + 1) bs = some (n, []) := by
  obtain ⟨bs, _, h⟩ := _root_.Strand.sampleBelowBigint_full_range hn fuel []
  exact ⟨bs, by rwa [List.append_nil] at h⟩

/-! ### 3. `rnd_exp`, `rnd_plaintext`, `rnd` of the num-bigint back-end -/

theorem rnd_exp_in_range {P : Params} {bs : Bytes} {x : Nat} {rest : Bytes}
    (h : bigintRndExp P bs = some (x, rest)) : x < P.q :=
  _root_.Strand.sampleBelowBigint_lt h

/-- …hence accepted back by the exponent decoder -/
theorem rnd_exp_valid {P : Params} {bs : Bytes} {x : Nat} {rest : Bytes}
    (h : bigintRndExp P bs = some (x, rest)) : Nat'.expFromNat P x = some x :=
  expFromNat_lt P x (rnd_exp_in_range h)

/-- `rnd_exp` spans `[0, q)` (0 and q-1 included) -/
theorem rnd_exp_full_range (P : Params) {x : Nat} (hx : x < P.q) :
    ∃ bs : Bytes, bigintRndExp P bs = some (x, []) :=
  sampleBelowBigint_full_range (bound := rndExpBound P) hx 63

theorem rnd_plaintext_in_range {P : Params} {bs : Bytes} {m : Nat} {rest : Bytes}
    (h : bigintRndPlaintext P bs = some (m, rest)) : m < P.q - 1 :=
  _root_.Strand.sampleBelowBigint_lt h

theorem rnd_plaintext_encodable {P : Params} (hP : SafePrimeGroup P) {bs : Bytes} {m : Nat}
    {rest : Bytes} (h : bigintRndPlaintext P bs = some (m, rest)) :
    ∃ e, Nat'.encode P m = some e :=
  (encode_isSome_iff P hP m).2 (rnd_plaintext_in_range h)

/-- `rnd_plaintext` spans the whole plaintext space `[0, q-1)` -/
theorem rnd_plaintext_full_range (P : Params) {m : Nat} (hm : m < P.q - 1) :
    ∃ bs : Bytes, bigintRndPlaintext P bs = some (m, []) :=
  sampleBelowBigint_full_range (bound := rndPlaintextBoundX P) hm 63

/-- `rnd`: the `expect` on the encoding never fires and the element is a canonical group member -/
theorem rnd_member {P : Params} (hP : SafePrimeGroup P) {bs : Bytes} {r : Option Nat}
    {rest : Bytes} (h : bigintRnd P bs = some (r, rest)) :
    ∃ e, r = some e ∧ natValid P e ∧ 1 ≤ e ∧ e < P.p := by
  unfold bigintRnd at h
  split at h
  · cases h
  · next m rest' hs =>
    simp only [Option.some.injEq, Prod.mk.injEq] at h
    obtain ⟨e, he⟩ := (encode_isSome_iff P hP m).2 (_root_.Strand.sampleBelowBigint_lt hs)
    obtain ⟨h1, h2, h3⟩ := encode_valid' P hP m e he
    exact ⟨e, by rw [← h.1, he], h3, h1, h2⟩

/-- …and it is accepted back by the element decoder -/
theorem rnd_member_decodes {P : Params} (hP : SafePrimeGroup P) {bs : Bytes} {r : Option Nat}
    {rest : Bytes} (h : bigintRnd P bs = some (r, rest)) :
    ∃ e, r = some e ∧ Nat'.elementFromNat P e = some e := by
  obtain ⟨e, he, h1, h2, h3⟩ := rnd_member hP h
  exact ⟨e, he, (elementFromNat_eq_some_iff_valid P hP.p_eq e e).2 ⟨rfl, h2, h3, h1⟩⟩

/-- `rnd` reaches the encoding of every plaintext -/
theorem rnd_full_range (P : Params) {m : Nat} (hm : m < P.q - 1) :
    ∃ bs : Bytes, bigintRnd P bs = some (Nat'.encode P m, []) := by
  obtain ⟨bs, h⟩ := rnd_plaintext_full_range P hm
  refine ⟨bs, ?_⟩
  unfold bigintRnd
  unfold bigintRndPlaintext at h
  rw [h]

/-- the three generators consume bytes exactly like the underlying sampler: a suffix is returned -/
theorem rnd_consumes {P : Params} {bs : Bytes} {r : Option Nat} {rest : Bytes}
    (h : bigintRnd P bs = some (r, rest)) : ∃ used, bs = used ++ rest ∧ 0 < used.length := by
  unfold bigintRnd at h
  split at h
  · cases h
  · next m rest' hs =>
    simp only [Option.some.injEq, Prod.mk.injEq] at h
    obtain ⟨k, used, hk1, _, hk2, hk3⟩ := sampleBelowBigint_consumes hs
    refine ⟨used, by rw [← h.2]; exact hk2, ?_⟩
    rw [hk3]
    exact Nat.mul_pos hk1 (by omega)

/-! #### key generation and `random_ciphertexts` from RNG bytes -/

/-- `PrivateKey::gen`: the secret is a canonical exponent, the public element is exactly `g^sk`
    reduced, and it is a group member -/
theorem keygen_spec {P : Params} (fl : Flavour) (hP : SafePrimeGroup P) {bs : Bytes} {sk pk : Nat}
    {rest : Bytes} (h : bigintKeyGen P fl bs = some (sk, pk, rest)) :
    sk < P.q ∧ Nat'.expFromNat P sk = some sk ∧ pk = powm P.g sk P.p ∧ natValid P pk ∧
      bigintRndExp P bs = some (sk, rest) := by
  unfold bigintKeyGen at h
  split at h
  · cases h
  · next x rest' hs =>
    simp only [Option.some.injEq, Prod.mk.injEq] at h
    obtain ⟨rfl, rfl, rfl⟩ := h
    refine ⟨rnd_exp_in_range hs, rnd_exp_valid hs, rfl, ?_, hs⟩
    exact natValid_powm _ (natValid_of_pow P P.g (by rw [← powm_eq]; exact hP.g_order))

/-- every secret key in `[0, q)` can be generated -/
theorem keygen_full_range (P : Params) (fl : Flavour) {x : Nat} (hx : x < P.q) :
    ∃ bs : Bytes, bigintKeyGen P fl bs = some (x, powm P.g x P.p, []) := by
  obtain ⟨bs, h⟩ := rnd_exp_full_range P hx
  exact ⟨bs, by unfold bigintKeyGen; rw [h]; rfl⟩

/-- `random_ciphertexts(n)`: exactly n ciphertexts, every component a canonical group member -/
theorem random_cts_spec {P : Params} (hP : SafePrimeGroup P) (n : Nat) {bs : Bytes}
    {cs : List (Ciphertext Nat)} {rest : Bytes} (h : bigintRandomCts P n bs = some (cs, rest)) :
    cs.length = n ∧ ∀ c ∈ cs, (natValid P c.mhr ∧ 1 ≤ c.mhr ∧ c.mhr < P.p) ∧
      (natValid P c.gr ∧ 1 ≤ c.gr ∧ c.gr < P.p) := by
  induction n generalizing bs cs rest with
  | zero =>
    simp only [bigintRandomCts, Option.some.injEq, Prod.mk.injEq] at h
    obtain ⟨rfl, _⟩ := h
    simp
  | succ n ih =>
    unfold bigintRandomCts at h
    split at h
    · next a r1 h1 =>
      split at h
      · next b r2 h2 =>
        split at h
        · next cs' r3 h3 =>
          simp only [Option.some.injEq, Prod.mk.injEq] at h
          obtain ⟨rfl, _⟩ := h
          obtain ⟨hl, hm⟩ := ih h3
          obtain ⟨e1, he1, v1⟩ := rnd_member hP h1
          obtain ⟨e2, he2, v2⟩ := rnd_member hP h2
          cases he1; cases he2
          refine ⟨by simp [hl], ?_⟩
          intro c hc
          rcases List.mem_cons.1 hc with rfl | hc
          · exact ⟨v1, v2⟩
          · exact hm c hc
        · cases h
      · cases h
    · cases h

/-! #### pre-repair witnesses (F4, F5) -/

/-- F4 (num-bigint `rnd_plaintext` used to draw from the exponent range `[0, q)`): `q - 1` is a
    possible exponent draw and it is NOT encodable — `rnd` would panic on it -/
theorem plaintext_from_exp_range_unencodable (P : Params) (hq : 0 < P.q) :
    (∃ bs : Bytes, bigintRndExp P bs = some (P.q - 1, [])) ∧ Nat'.encode P (P.q - 1) = none :=
  ⟨rnd_exp_full_range P (by omega), encode_none_of_ge P _ (le_refl _)⟩

/-- F5 (malachite `rnd_exp` used the INCLUSIVE upper bound `q`): `q` is not a valid exponent -/
theorem malachite_inclusive_q_invalid (P : Params) : Nat'.expFromNat P P.q = none :=
  expFromNat_ge P _ (le_refl _)

/-- likewise `q - 1` as inclusive plaintext bound is not encodable -/
theorem malachite_inclusive_q_sub_one_unencodable (P : Params) :
    Nat'.encode P (P.q - 1) = none := encode_none_of_ge P _ (le_refl _)

/-- after the repairs the inclusive bounds handed to malachite are the largest legal values: they
    are one less than the exclusive bounds of num-bigint, every exponent `≤ malachiteExpUpper` is
    valid and every plaintext `≤ malachitePlaintextUpper` is in the plaintext space -/
theorem malachite_bounds_ok (P : Params) :
    (0 < P.q → malachiteExpUpper P < P.q ∧ malachiteExpUpper P + 1 = rndExpBound P ∧
      ∀ x, x ≤ malachiteExpUpper P → Nat'.expFromNat P x = some x) ∧
    (2 ≤ P.q → malachitePlaintextUpper P < P.q - 1 ∧
      malachitePlaintextUpper P + 1 = rndPlaintextBoundX P) := by
  unfold malachiteExpUpper malachitePlaintextUpper rndExpBound rndPlaintextBoundX
  refine ⟨fun h => ⟨by omega, by omega, fun x hx => expFromNat_lt P x (by omega)⟩,
    fun h => ⟨by omega, by omega⟩⟩

theorem malachite_plaintexts_encodable {P : Params} (hP : SafePrimeGroup P) {m : Nat}
    (hm : m ≤ malachitePlaintextUpper P) : ∃ e, Nat'.encode P m = some e := by
  have h2 := hP.q_prime.two_le
  exact (encode_isSome_iff P hP m).2 (by
    have := ((malachite_bounds_ok P).2 h2).1; omega)

/-! ### 4. `UniformInt<u32>::sample_single` -/

/-- the index is in range (needs only `0 < range`; `range < 2^32` is not used) -/
theorem sampleSingleU32_lt {range fuel : Nat} {bs : Bytes} {j : Nat} {rest : Bytes}
    (hr : 0 < range) (h : sampleSingleU32 range fuel bs = some (j, rest)) : j < range :=
  _root_.Strand.sampleSingleU32_lt hr h

theorem sampleSingleU32_consumes {range fuel : Nat} {bs : Bytes} {j : Nat} {rest : Bytes}
    (h : sampleSingleU32 range fuel bs = some (j, rest)) :
    ∃ k, 1 ≤ k ∧ k ≤ fuel ∧ 4 * k ≤ bs.length ∧ rest = bs.drop (4 * k) :=
  _root_.Strand.sampleSingleU32_consumes h

/-- `zone + 1 = range · 2^lz`, a multiple of `range` in `[2^31, 2^32)` -/
theorem zone_spec {range : Nat} (hr : 0 < range) (hr2 : range < 2 ^ 32) :
    (range * 2 ^ lz32 range) % 2 ^ 32 - 1 + 1 = range * 2 ^ lz32 range ∧
      2 ^ 31 ≤ range * 2 ^ lz32 range ∧ range * 2 ^ lz32 range < 2 ^ 32 :=
  ⟨zone_succ hr hr2, shifted_range_bounds hr hr2⟩

/-- the words accepted with output `hi` are exactly the integers of the interval
    `[⌈hi·2^32 / range⌉, ⌈hi·2^32 / range⌉ + 2^lz)` -/
theorem sampleSingleU32_accepted_interval {range : Nat} (hr : 0 < range) (hr2 : range < 2 ^ 32)
    (hi v : Nat) :
    (v * range / 2 ^ 32 = hi ∧ v * range % 2 ^ 32 ≤ (range * 2 ^ lz32 range) % 2 ^ 32 - 1) ↔
      (hi * 2 ^ 32 + range - 1) / range ≤ v ∧
        v < (hi * 2 ^ 32 + range - 1) / range + 2 ^ lz32 range :=
  accepted_iff hr hr2 hi v

/-- **uniformity**: every output `hi < range` is produced by exactly `2^lz` of the `2^32` words,
    independently of `hi` -/
theorem sampleSingleU32_uniform {range : Nat} (hr : 0 < range) (hr2 : range < 2 ^ 32) {hi : Nat}
    (hhi : hi < range) :
    ((Finset.range (2 ^ 32)).filter (fun v =>
        v * range / 2 ^ 32 = hi ∧ v * range % 2 ^ 32 ≤ (range * 2 ^ lz32 range) % 2 ^ 32 - 1)).card
      = 2 ^ lz32 range :=
  accepted_count hr hr2 hhi

/-- every index is reached -/
theorem sampleSingleU32_full_range {range j : Nat} (hr2 : range < 2 ^ 32) (hj : j < range)
    (fuel : Nat) : ∃ bs : Bytes, sampleSingleU32 range (fuel + 1) bs = some (j, []) := by
  obtain ⟨w, _, h⟩ := _root_.Strand.sampleSingleU32_full_range hr2 hj
  exact ⟨w, by have := h fuel []; rwa [List.append_nil] at this⟩

/-! ### 5. every output of `gen_permutation` is a permutation -/

theorem swapList_perm (l : List Nat) (i j : Nat) : (swapList l i j).Perm l :=
  _root_.Strand.swapList_perm l i j

theorem fisherYatesChoices_perm (n : Nat) (js : List Nat) :
    (fisherYatesChoices (n - 1) (List.range n) js).Perm (List.range n) :=
  fisherYatesChoices_perm' _ _ _

/-- every `n`, 0 and 1 included; every byte string -/
theorem fisherYates_perm {n : Nat} {bs : Bytes} {pm : List Nat} {rest : Bytes}
    (h : fisherYates n bs = some (pm, rest)) : pm.Perm (List.range n) := by
  obtain ⟨js, _, rfl, _⟩ := fisherYates_eq_choices h
  exact fisherYatesChoices_perm n js

/-- in the form C02/C03 consume it: right length, entries `< n`, no repetition -/
theorem fisherYates_valid {n : Nat} {bs : Bytes} {pm : List Nat} {rest : Bytes}
    (h : fisherYates n bs = some (pm, rest)) :
    pm.length = n ∧ (∀ p ∈ pm, p < n) ∧ pm.Nodup := by
  have hp := fisherYates_perm h
  exact ⟨by rw [hp.length_eq, List.length_range],
    fun p hpm => List.mem_range.1 (hp.mem_iff.1 hpm), hp.nodup_iff.2 List.nodup_range⟩

/-- the bytes are consumed from the front, 4 per index drawn, at least `n - 1` indices -/
theorem fisherYates_consumes {n : Nat} {bs : Bytes} {pm : List Nat} {rest : Bytes}
    (h : fisherYates n bs = some (pm, rest)) :
    ∃ k, n - 1 ≤ k ∧ 4 * k ≤ bs.length ∧ rest = bs.drop (4 * k) := by
  obtain ⟨_, _, _, hk⟩ := fisherYates_eq_choices h
  exact hk

/-- the byte-driven shuffle is the choice-driven loop on a legal choice vector `j_i ≤ i` -/
theorem fisherYates_eq_fisherYatesChoices {n : Nat} {bs : Bytes} {pm : List Nat} {rest : Bytes}
    (h : fisherYates n bs = some (pm, rest)) :
    ∃ js, ChoicesOK (n - 1) js ∧ pm = fisherYatesChoices (n - 1) (List.range n) js := by
  obtain ⟨js, h1, h2, _⟩ := fisherYates_eq_choices h
  exact ⟨js, h1, h2⟩

/-! ### 6. choice vectors ↔ permutations: a bijection between two sets of size `n!` -/

/-- injective on legal choice vectors … -/
theorem fisherYatesChoices_injective (n : Nat) {js js' : List Nat} (h : ChoicesOK (n - 1) js)
    (h' : ChoicesOK (n - 1) js')
    (heq : fisherYatesChoices (n - 1) (List.range n) js
      = fisherYatesChoices (n - 1) (List.range n) js') : js = js' := by
  cases n with
  | zero => rw [show js = [] from h, show js' = [] from h']
  | succ m =>
    exact _root_.Strand.fisherYatesChoices_injective _ _ js js' List.nodup_range
      (by rw [List.length_range]; omega) h h' heq

/-- … of which there are exactly `n!` (`allChoices (n-1)` lists them without repetition) … -/
theorem choices_count (n : Nat) :
    (allChoices (n - 1)).length = n.factorial ∧ (allChoices (n - 1)).Nodup ∧
      ∀ js, js ∈ allChoices (n - 1) ↔ ChoicesOK (n - 1) js := by
  refine ⟨?_, allChoices_nodup _, mem_allChoices _⟩
  rw [allChoices_length]
  cases n <;> rfl

/-- … **hence a bijection onto the `n!` permutations**: the list of outputs, one per legal choice
    vector, has no repetition, has `n!` entries and is a rearrangement of the list of all
    permutations of `[0, …, n-1]`.  With `sampleSingleU32_uniform` (each `j_i` uniform on
    `0..i`, independent words) the permutation is uniform on all `n!` permutations. -/
theorem fisherYatesChoices_bijective (n : Nat) :
    (fyOutputs n).Nodup ∧ (fyOutputs n).length = n.factorial ∧
      (fyOutputs n).Perm (List.range n).permutations ∧
      ∀ pm : List Nat, pm.Perm (List.range n) →
        ∃! js, ChoicesOK (n - 1) js ∧ fisherYatesChoices (n - 1) (List.range n) js = pm :=
  ⟨fyOutputs_nodup n, fyOutputs_length n, fyOutputs_perm_permutations n,
    fisherYatesChoices_existsUnique n⟩

/-- every permutation is reached by `gen_permutation` (n below the u32 path limit of `gen_index`),
    from exactly `4(n-1)` bytes (one word per index, no rejection) -/
theorem fisherYates_full_range {n : Nat} (hn : n < 2 ^ 32) {pm : List Nat}
    (h : pm.Perm (List.range n)) :
    ∃ bs : Bytes, bs.length = 4 * (n - 1) ∧ fisherYates n bs = some (pm, []) := by
  obtain ⟨js, ⟨h1, rfl⟩, _⟩ := fisherYatesChoices_existsUnique n pm h
  obtain ⟨bs, hl, hb⟩ := fisherYatesLoop_full_range 63 (n - 1) (List.range n) js []
    (by omega) h1
  exact ⟨bs, hl, by rwa [List.append_nil] at hb⟩

/-! ### 7. draw counts; no tape entry is used twice -/

variable {E X : Type} {o : Ops E X}

theorem encrypt_draws (pk m : E) (r : X) (tape : List X) :
    encrypt o pk m (r :: tape) = some (encryptWith o pk m r, tape) := rfl

theorem encrypt_draw_count {pk m : E} {tape rest : List X} {c : Ciphertext E}
    (h : encrypt o pk m tape = some (c, rest)) (N : Nat) :
    rest = tape.drop (drawCount "encrypt" N) := by
  cases tape with
  | nil => cases h
  | cons r t => cases h; rfl

theorem encryptAndPok_draws (pk m : E) (label : Bytes) (r n : X) (tape : List X) :
    encryptAndPok o pk m label (r :: n :: tape) =
      some ((encryptWith o pk m r,
        encryptionPopk o r (encryptWith o pk m r).mhr (encryptWith o pk m r).gr label n, r),
        tape) := rfl

theorem encryptAndPok_draw_count {pk m : E} {label : Bytes} {tape rest : List X}
    {res : Ciphertext E × Schnorr E X × X}
    (h : encryptAndPok o pk m label tape = some (res, rest)) (N : Nat) :
    rest = tape.drop (drawCount "encrypt_and_pok" N) := by
  match tape, h with
  | r :: n :: t, h => cases h; rfl

theorem decryptAndProve_draws (sk : X) (pkE : E) (c : Ciphertext E) (label : Bytes) (n : X)
    (tape : List X) :
    decryptAndProve o sk pkE c label (n :: tape) =
      some ((o.modp (o.divp c.mhr (o.emodPow c.gr sk)),
        decryptionProof o sk pkE (o.emodPow c.gr sk) c.mhr c.gr label n), tape) := rfl

theorem decryptAndProve_draw_count {sk : X} {pkE : E} {c : Ciphertext E} {label : Bytes}
    {tape rest : List X} {res : E × ChaumPedersen E X}
    (h : decryptAndProve o sk pkE c label tape = some (res, rest)) (N : Nat) :
    rest = tape.drop (drawCount "decrypt_and_prove" N) := by
  match tape, h with
  | n :: t, h => cases h; rfl

/-- `schnorr_prove`, `cp_prove` take their single nonce as an argument: one draw by type -/
theorem schnorr_cp_draw_count (N : Nat) :
    drawCount "schnorr_prove" N = 1 ∧ drawCount "cp_prove" N = 1 := ⟨rfl, rfl⟩

theorem applyPermutation_draw_count {pk : E} {perm : List Nat} {cts : List (Ciphertext E)}
    {tape rest : List X} {outs : List (Ciphertext E)} {rs : List X}
    (h : applyPermutation o pk perm cts tape = .ok ((outs, rs), rest)) :
    cts.length ≤ tape.length ∧ rs = tape.take (drawCount "apply_permutation" cts.length) ∧
      rest = tape.drop (drawCount "apply_permutation" cts.length) := by
  unfold applyPermutation at h
  split_ifs at h with h1 h2
  simp only at h
  split at h
  · cases h
  · simp only [Except.ok.injEq, Prod.mk.injEq] at h
    exact ⟨by omega, h.1.2.symm, h.2.symm⟩

theorem genCommitments_draw_count {gens : List E} {perm : List Nat} {tape rest : List X}
    {res : List E × List X} (h : genCommitments o gens perm tape = .ok (res, rest)) :
    perm.length ≤ tape.length ∧ rest = tape.drop (drawCount "gen_commitments" perm.length) ∧
      ∃ h0 hs, gens = h0 :: hs ∧ hs.length = perm.length ∧
        res = genCommitmentsWith o hs perm (tape.take perm.length) := by
  unfold genCommitments at h
  split at h
  · cases h
  · next h0 hs =>
    split_ifs at h with h1 h2 h3
    simp only [Except.ok.injEq, Prod.mk.injEq] at h
    have hl : hs.length = perm.length := not_not.1 h1
    rw [hl] at h h2
    exact ⟨by omega, h.2.symm, h0, hs, rfl, hl, h.1.symm⟩

/-- the four nonce families of `gen_proof_ext` are consecutive, non-overlapping slices -/
theorem splitProofTape_partition {n : Nat} {tape rest : List X} {tp : ProofTape X}
    (h : splitProofTape n tape = some (tp, rest)) :
    tape = tp.rHats ++ tp.omegas ++ tp.omegaHats ++ tp.omegaPrimes ++ rest ∧
      tp.rHats.length = n ∧ tp.omegas.length = 4 ∧ tp.omegaHats.length = n ∧
      tp.omegaPrimes.length = n ∧ rest = tape.drop (3 * n + 4) := by
  unfold splitProofTape at h
  split_ifs at h with h1
  simp only [Option.some.injEq, Prod.mk.injEq] at h
  obtain ⟨rfl, rfl⟩ := h
  simp only [List.length_take, List.length_drop]
  refine ⟨?_, by omega, by omega, by omega, by omega, trivial⟩
  have e1 : tape.drop (n + 4) = (tape.drop n).drop 4 := by rw [List.drop_drop]
  have e2 : tape.drop (2 * n + 4) = ((tape.drop n).drop 4).drop n := by
    rw [List.drop_drop, List.drop_drop]; congr 1; omega
  have e3 : tape.drop (3 * n + 4) = (((tape.drop n).drop 4).drop n).drop n := by
    rw [List.drop_drop, List.drop_drop, List.drop_drop]; congr 1; omega
  rw [e1, e2, e3]
  simp only [List.append_assoc, List.take_append_drop]

theorem genProofExt_draw_count {gens : List E} {pk : E} {es ePrimes : List (Ciphertext E)}
    {rPrimes : List X} {perm : List Nat} {csP : List E} {rsP : List X} {label : Bytes}
    {tape rest : List X} {pf : ShuffleProof E X}
    (h : genProofExt o gens pk es ePrimes rPrimes perm csP rsP label tape = .ok (pf, rest)) :
    3 * es.length + 4 ≤ tape.length ∧ rest = tape.drop (drawCount "gen_proof_ext" es.length) ∧
      ∃ h0 hs tp usPrime, gens = h0 :: hs ∧ splitProofTape es.length tape = some (tp, rest) ∧
        pf = genProofCore o h0 hs pk es ePrimes rPrimes usPrime
          (shuffleUs o es ePrimes csP es.length label) csP (rsP.take es.length) label tp := by
  unfold genProofExt at h
  split at h
  · cases h
  · next h0 hs =>
    simp only at h
    by_cases h1 : es.length ≠ ePrimes.length ∨ es.length ≠ rPrimes.length ∨
        es.length ≠ perm.length ∨ es.length ≠ hs.length ∨ es.length = 0
    · rw [if_pos h1] at h; cases h
    · rw [if_neg h1] at h
      split at h
      · cases h
      · next usPrime _ =>
        split at h
        · cases h
        · next tp rest' hsp =>
          by_cases h2 : rsP.length < es.length
          · rw [if_pos h2] at h; cases h
          · rw [if_neg h2] at h
            simp only [Except.ok.injEq, Prod.mk.injEq] at h
            obtain ⟨rfl, rfl⟩ := h
            have hp := splitProofTape_partition hsp
            have hlen : 3 * es.length + 4 ≤ tape.length := by
              unfold splitProofTape at hsp
              split_ifs at hsp with h3
              omega
            exact ⟨hlen, hp.2.2.2.2.2, h0, hs, tp, usPrime, rfl, hsp, rfl⟩

theorem genProof_draw_count {gens : List E} {pk : E} {es ePrimes : List (Ciphertext E)}
    {rPrimes : List X} {perm : List Nat} {label : Bytes} {tape rest : List X}
    {pf : ShuffleProof E X}
    (h : genProof o gens pk es ePrimes rPrimes perm label tape = .ok (pf, rest)) :
    4 * es.length + 4 ≤ tape.length ∧ rest = tape.drop (drawCount "gen_proof" es.length) := by
  unfold genProof at h
  split at h
  · cases h
  · next csP rsP tape' hc =>
    obtain ⟨hl, rfl, h0, hs, rfl, hhs, _⟩ := genCommitments_draw_count hc
    obtain ⟨hl2, rfl, _⟩ := genProofExt_draw_count h
    have hN : es.length = perm.length := by
      by_contra hne
      unfold genProofExt at h
      simp only at h
      rw [if_pos (Or.inr (Or.inr (Or.inl hne)))] at h
      cases h
    show _ ∧ _ = tape.drop (4 * es.length + 4)
    rw [show drawCount "gen_commitments" perm.length = perm.length from rfl,
      List.length_drop] at hl2
    rw [show drawCount "gen_commitments" perm.length = perm.length from rfl,
      show drawCount "gen_proof_ext" es.length = 3 * es.length + 4 from rfl, List.drop_drop]
    exact ⟨by omega, by congr 1; omega⟩

/-- **no tape entry is used by two different roles** in `gen_proof`: the tape is the
    concatenation of the N commitment exponents, the N chain exponents, the 4 ω, the N ω̂, the
    N ω′ and the returned rest, in this order — segments
    `[0,N) [N,2N) [2N,2N+4) [2N+4,3N+4) [3N+4,4N+4) [4N+4,…)` -/
theorem draws_disjoint {gens : List E} {pk : E} {es ePrimes : List (Ciphertext E)}
    {rPrimes : List X} {perm : List Nat} {label : Bytes} {tape rest : List X}
    {pf : ShuffleProof E X}
    (h : genProof o gens pk es ePrimes rPrimes perm label tape = .ok (pf, rest)) :
    ∃ h0 hs rs tp usPrime, gens = h0 :: hs ∧
      tape = rs ++ (tp.rHats ++ tp.omegas ++ tp.omegaHats ++ tp.omegaPrimes ++ rest) ∧
      rs.length = es.length ∧ tp.rHats.length = es.length ∧ tp.omegas.length = 4 ∧
      tp.omegaHats.length = es.length ∧ tp.omegaPrimes.length = es.length ∧
      pf = genProofCore o h0 hs pk es ePrimes rPrimes usPrime
        (shuffleUs o es ePrimes (genCommitmentsWith o hs perm rs).1 es.length label)
        (genCommitmentsWith o hs perm rs).1
        ((genCommitmentsWith o hs perm rs).2.take es.length) label tp := by
  have hcount := genProof_draw_count h
  unfold genProof at h
  split at h
  · cases h
  · next csP rsP tape' hc =>
    obtain ⟨hl, rfl, h0, hs, rfl, hhs, hres⟩ := genCommitments_draw_count hc
    obtain ⟨hl2, _, h0', hs', tp, usPrime, hg, hsp, rfl⟩ := genProofExt_draw_count h
    obtain ⟨rfl, rfl⟩ : h0 = h0' ∧ hs = hs' := by
      simp only [List.cons.injEq] at hg; exact hg
    have hN : es.length = perm.length := by
      by_contra hne
      unfold genProofExt at h
      simp only at h
      rw [if_pos (Or.inr (Or.inr (Or.inl hne)))] at h
      cases h
    obtain ⟨hp1, hp2, hp3, hp4, hp5, _⟩ := splitProofTape_partition hsp
    have e1 : csP = (genCommitmentsWith o hs perm (tape.take perm.length)).1 :=
      congrArg Prod.fst hres
    have e2 : rsP = (genCommitmentsWith o hs perm (tape.take perm.length)).2 :=
      congrArg Prod.snd hres
    subst e1 e2
    refine ⟨h0, hs, tape.take perm.length, tp, usPrime, rfl, ?_, ?_, hp2, hp3, hp4, hp5, rfl⟩
    · rw [← hp1]
      exact (List.take_append_drop _ _).symm
    · rw [List.length_take]; omega

theorem genCoefficients_draw_count {t : Nat} {tape rest : List X} {res : List X × List E}
    (h : genCoefficients o t tape = some (res, rest)) :
    t ≤ tape.length ∧ res.1 = tape.take t ∧
      rest = tape.drop (drawCount "gen_coefficients" t) := by
  unfold genCoefficients at h
  split_ifs at h with h1
  simp only [Option.some.injEq, Prod.mk.injEq] at h
  exact ⟨by omega, by rw [← h.1], h.2.symm⟩

/-- C02's specification restated as a draw count: `apply_permutation` succeeds on legal inputs and
    hands back exactly `tape.drop N` -/
theorem applyPermutation_draws (pk : E) (perm : List Nat) (cts : List (Ciphertext E))
    (tape : List X) (N : Nat) (hp : perm.length = N) (hc : cts.length = N)
    (hr : ∀ p ∈ perm, p < N) (ht : N ≤ tape.length) :
    ∃ outs, applyPermutation o pk perm cts tape
      = .ok ((outs, tape.take N), tape.drop (drawCount "apply_permutation" N)) := by
  obtain ⟨outs, h, _⟩ := C02.apply_permutation_spec (o := o) pk perm cts tape N hp hc hr ht
  exact ⟨outs, h⟩


/-- the hypotheses of the `gen_proof` statements are satisfiable, for every lawful back-end and every
    N ≥ 1 (C03): an honest shuffle succeeds, `apply_permutation` hands back `tape1.drop N` and
    `gen_proof` hands back `tape2.drop (4N+4)` -/
theorem shuffle_draws {q : ℕ} {A : Type} [AddCommGroup A] [Module (ZMod q) A] [DecidableEq E]
    (L : Lawful o q A) (gens : List E) (pk : E) (es : List (Ciphertext E))
    (perm : List Nat) (tape1 tape2 : List X) (label : Bytes)
    (hN : 0 < es.length) (hperm : perm.Perm (List.range es.length))
    (hgens : gens.length = es.length + 1) (hgv : ∀ g ∈ gens, L.V g) (hpk : L.V pk)
    (hes : ∀ c ∈ es, L.V c.mhr ∧ L.V c.gr)
    (ht1 : es.length ≤ tape1.length) (ht2 : 4 * es.length + 4 ≤ tape2.length) :
    ∃ eps pf,
      applyPermutation o pk perm es tape1
        = .ok ((eps, tape1.take es.length), tape1.drop (drawCount "apply_permutation" es.length)) ∧
      genProof o gens pk es eps (tape1.take es.length) perm label tape2
        = .ok (pf, tape2.drop (drawCount "gen_proof" es.length)) := by
  obtain ⟨eps, rs, rest1, pf, rest2, h1, h2, _⟩ :=
    C03.shuffle_complete L gens pk es perm tape1 tape2 label hN hperm hgens hgv hpk hes ht1 ht2
  obtain ⟨_, rfl, rfl⟩ := applyPermutation_draw_count h1
  obtain ⟨_, rfl⟩ := genProof_draw_count h2
  exact ⟨eps, pf, h1, h2⟩

section nonvacuity
open Strand.C15

/-! ### 8. non-vacuity -/

-- bound 11: bits = 4, one word, top word shifted right by 28; 0xffffffff ↦ 15 rejected, 0xa0000005 ↦ 10
example : sampleBelowBigint 11 4 [0xff, 0xff, 0xff, 0xff, 5, 0, 0, 0xa0] = some (10, []) := by decide
example : sampleBelowBigint 11 4 [0xff, 0xff, 0xff, 0xff, 5, 0, 0, 0xa0, 7] = some (10, [7]) := by
  decide
-- fuel exhausted / bytes exhausted / bound 0: `none`, never a value out of range
example : sampleBelowBigint 11 1 [0xff, 0xff, 0xff, 0xff, 5, 0, 0, 0xa0] = none := by decide
example : sampleBelowBigint 11 4 [0xff, 0xff, 0xff] = none := by decide
example : sampleBelowBigint 0 4 [0xff, 0xff, 0xff] = none := by decide
-- candidate and discarded bits: bits = 4 (shift 28), bits = 33 (two words, shift 31), bits = 64
example : bigintCandidate 4 [5, 0, 0, 0xa0] = 10 ∧ candDiscard 4 [5, 0, 0, 0xa0] = 5 := by decide
example : bigintCandidate 33 [1, 2, 3, 4, 0xff, 0xff, 0xff, 0xff] = 2 ^ 32 + natOfLE [1, 2, 3, 4] ∧
    candDiscard 33 [1, 2, 3, 4, 0xff, 0xff, 0xff, 0xff] = 2 ^ 31 - 1 := by decide
example : bigintCandidate 64 [1, 2, 3, 4, 5, 6, 7, 8] = natOfLE [1, 2, 3, 4, 5, 6, 7, 8] ∧
    candDiscard 64 [1, 2, 3, 4, 5, 6, 7, 8] = 0 := by decide
-- exponents, plaintexts, elements of the toy group p = 23, q = 11
example : bigintRndExp P23 [0, 0, 0, 0xa0] = some (10, []) := by decide
example : bigintRndExp P23 [0, 0, 0, 0xb0, 0, 0, 0, 0x30] = some (3, []) := by decide
example : bigintRndPlaintext P23 [0, 0, 0, 0xa0, 0, 0, 0, 0x90] = some (9, []) := by decide
example : bigintRnd P23 [0, 0, 0, 0xa0, 0, 0, 0, 0x90] = some (some 13, []) := by decide
example : bigintRnd P23 [0, 0, 0, 0x40] = some (some 18, []) := by decide
example : Nat'.encode P23 (P23.q - 1) = none ∧ Nat'.expFromNat P23 P23.q = none := by decide
example : ∃ e, bigintRnd P23 [0, 0, 0, 0x40] = some (some e, []) ∧ natValid P23 e :=
  let ⟨e, he, hv, _⟩ := rnd_member P23_safe (bs := [0, 0, 0, 0x40]) (r := some 18) (rest := [])
    (by decide)
  ⟨e, by rw [← he]; decide, hv⟩
-- sample_single, range 3: lz = 30, zone = 3·2^30 - 1; 2^31 ↦ 1; 0xffffffff rejected
example : lz32 3 = 30 ∧ (3 * 2 ^ lz32 3) % 2 ^ 32 - 1 = 3221225471 := by decide
example : sampleSingleU32 3 4 [0, 0, 0, 0x80] = some (1, []) := by decide
example : sampleSingleU32 3 4 [0xff, 0xff, 0xff, 0xff, 0, 0, 0, 0x80, 9] = some (1, [9]) := by
  decide
example : sampleSingleU32 3 4 [0xff, 0xff, 0xff, 0xff] = none := by decide
example : sampleSingleU32 3 4 [0xff, 0xff, 0xff, 0x3f] = some (0, []) := by decide
-- gen_permutation
example : fisherYates 3 [0, 0, 0, 0, 0, 0, 0, 0] = some ([1, 2, 0], []) := by decide
example : fisherYates 3 [0, 0, 0, 0x80, 0, 0, 0, 0x80] = some ([0, 2, 1], []) := by decide
example : fisherYates 3 [0, 0, 0, 0x60, 0, 0, 0, 0x80, 1, 2] = some ([0, 2, 1], [1, 2]) := by
  decide
example : fisherYates 0 [1] = some ([], [1]) ∧ fisherYates 1 [1] = some ([0], [1]) ∧
    fisherYates 2 [1] = none := by decide
-- the 3! = 6 choice vectors and the 6 distinct permutations they give
example : allChoices 2 = [[0, 0], [0, 1], [1, 0], [1, 1], [2, 0], [2, 1]] := by decide
example : fyOutputs 3 = [[1, 2, 0], [2, 1, 0], [2, 0, 1], [0, 2, 1], [1, 0, 2], [0, 1, 2]] := by
  decide
example : ([1, 2, 0] : List Nat).Perm (List.range 3) :=
  fisherYates_perm (bs := [0, 0, 0, 0, 0, 0, 0, 0]) (rest := []) (by decide)
-- draw counts on a concrete tape
example : encrypt (natOps P23 .bigint) 2 3 [5, 6, 7] = some (⟨4, 9⟩, [6, 7]) := by decide
example : (genCoefficients (natOps P23 .bigint) 2 [5, 6, 7]).map (·.2) = some [7] := by decide
example : (splitProofTape 2 [1, 2, 3, 4, 5, 6, 7, 8, 9, 10, 11]).map (fun r =>
    (r.1.rHats, r.1.omegas, r.1.omegaHats, r.1.omegaPrimes, r.2)) =
    some ([1, 2], [3, 4, 5, 6], [7, 8], [9, 10], [11]) := by decide
end nonvacuity


/-! ### `gen_shuffle`: a valid permutation from ANY RNG bytes, and the permuted multiset (C02's first clause) -/

/-- for every RNG byte string on which the permutation sampler terminates and every exponent tape
    that is long enough, `gen_shuffle` succeeds, the returned positions are a permutation of
    `0..N`, one exponent per input is returned, and the outputs decrypt to exactly the permuted
    multiset of the input plaintexts -/
theorem gen_shuffle_spec {E X : Type} {o : Ops E X} {q : ℕ} {A : Type} [AddCommGroup A]
    [Module (ZMod q) A] (L : Lawful o q A) (sk : X) (cts : List (Ciphertext E)) (rng : Bytes)
    (tape : List X) (perm : List Nat) (rng' : Bytes)
    (hfy : fisherYates cts.length rng = some (perm, rng'))
    (ht : cts.length ≤ tape.length) (hv : ∀ c ∈ cts, C02.CtValid L c) :
    ∃ outs, genShuffle o (pkOf o sk) cts rng tape
        = .ok ((outs, tape.take cts.length, perm), rng', tape.drop cts.length) ∧
      perm.Perm (List.range cts.length) ∧ outs.length = cts.length ∧
      (outs.map (decrypt o sk)).Perm (cts.map (decrypt o sk)) := by
  have hperm := fisherYates_perm hfy
  obtain ⟨outs, hap, hlen, _, hms⟩ :=
    C02.shuffle_multiset L sk perm cts tape cts.length hperm rfl ht hv
  refine ⟨outs, ?_, hperm, hlen, hms⟩
  simp [genShuffle, hfy, hap]

end Strand.C18
