import StrandModel.Props.C12
import StrandModel.Props.C01Core
import StrandModel.Props.C03Core
/-
The "also after serialization" corollaries of C01 (ElGamal round trip), C05 (honest proofs verify)
and C03 (honest shuffles verify), for the multiplicative back-ends `natOps P fl`: every value the
honest party produces is a VALID wire value of its type (C12), hence survives
`enc` / `try_from_slice` unchanged, hence the completeness statement also holds for the
deserialised values.

Hypotheses throughout: `h : SafePrimeGroup P` and `W : WireSize P k` (the group fits in `k` bytes,
`4 * (4 + k) < 2^32`; `k = 256` for the 2048-bit groups).  `p = 2q + 1` is `h.p_eq`.

Why the honest values are valid wire values: elements are `modp` / `emodPow` / `gmodPow`
outputs, i.e. canonical group members (`Lawful.V`), and a canonical member is never `0`
(`natValid_pos`), so it is a `NatMember`; exponents are `modq` outputs or `hashToExp` outputs
(`natHashToExp … = … % q`), so they are `< q`.
-/
set_option linter.unusedSectionVars false
namespace Strand.Wire
open Strand

/-! ### canonical members are wire members -/

/-- a group member is not `0` -/
theorem natValid_pos {P : Params} (h : SafePrimeGroup P) {a : ℕ} (ha : natValid P a) : 1 ≤ a := by
  rcases Nat.eq_zero_or_pos a with rfl | h0
  · exfalso
    unfold natValid at ha
    rw [Nat.cast_zero, zero_pow h.q_prime.ne_zero] at ha
    have : Fact (1 < P.p) := ⟨h.p_prime.one_lt⟩
    exact zero_ne_one ha
  · exact h0

/-- `Lawful.V` of the `Nat` back-end is exactly the set of wire-valid elements -/
theorem natMember_iff_V {P : Params} {fl : Flavour} (h : SafePrimeGroup P) (a : ℕ) :
    NatMember P a ↔ (natLawful P fl h).V a :=
  ⟨fun ha => ⟨ha.1, ha.2.2⟩, fun ha => ⟨ha.1, natValid_pos h ha.1, ha.2⟩⟩

theorem member_of_V {P : Params} {fl : Flavour} (h : SafePrimeGroup P) (a : ℕ)
    (ha : (natLawful P fl h).V a) : NatMember P a := (natMember_iff_V h a).2 ha

/-- every challenge is a canonical exponent -/
theorem hashToExp_lt {P : Params} (fl : Flavour) (h : SafePrimeGroup P) (bs : Bytes) :
    (natOps P fl).hashToExp bs < P.q := Nat.mod_lt _ h.q_prime.pos

/-- every `modq` output is a canonical exponent -/
theorem modq_lt {P : Params} (fl : Flavour) (h : SafePrimeGroup P) (x : ℕ) :
    (natOps P fl).modq x < P.q := Nat.mod_lt _ h.q_prime.pos

section
variable (P : Params) (fl : Flavour) (h : SafePrimeGroup P) {k : ℕ} (W : WireSize P k)
include h

local notation "𝒪" => natOps P fl
local notation "𝓛" => natLawful P fl h

/-! ### 1. ElGamal (C01) -/

/-- an honest ciphertext is a valid wire value (any key, any randomness) -/
theorem encrypt_valid (sk r m : ℕ) (hm : (𝓛).V m) :
    CtValid (NatMember P) (encryptWith 𝒪 (pkOf 𝒪 sk) m r) :=
  ⟨member_of_V h _ ((𝓛).modp_mul_V hm.1 ((𝓛).emodPow_valid r ((𝓛).gmodPow_valid sk))),
   member_of_V h _ ((𝓛).gmodPow_V r)⟩

/-- an honest ciphertext under ANY valid public key is a valid wire value -/
theorem encryptWith_valid (pk r m : ℕ) (hpk : (𝓛).valid pk) (hm : (𝓛).V m) :
    CtValid (NatMember P) (encryptWith 𝒪 pk m r) :=
  ⟨member_of_V h _ ((𝓛).modp_mul_V hm.1 ((𝓛).emodPow_valid r hpk)),
   member_of_V h _ ((𝓛).gmodPow_V r)⟩

theorem pkOf_valid (sk : ℕ) : NatMember P (pkOf 𝒪 sk) := member_of_V h _ ((𝓛).gmodPow_V sk)

include W in
/-- C01, "also after serialization": the ciphertext round-trips through its encoding, hence
    decrypting the deserialised ciphertext gives the message -/
theorem ciphertext_survives_wire (sk r m : ℕ) (hm : (𝓛).V m) :
    tryFromSlice (codecCt 𝒪) ((codecCt 𝒪).enc (encryptWith 𝒪 (pkOf 𝒪 sk) m r))
        = some (encryptWith 𝒪 (pkOf 𝒪 sk) m r) ∧
    (tryFromSlice (codecCt 𝒪) ((codecCt 𝒪).enc (encryptWith 𝒪 (pkOf 𝒪 sk) m r))).map
        (decrypt 𝒪 sk) = some m := by
  have e := (natCt_lawful' P fl h.p_eq W).roundtrip (encrypt_valid P fl h sk r m hm)
  refine ⟨e, ?_⟩
  rw [e, Option.map_some, C01.decrypt_encrypt 𝓛 sk r m hm]

include W in
theorem public_key_survives_wire (sk : ℕ) :
    tryFromSlice (codecPk 𝒪) ((codecPk 𝒪).enc (pkOf 𝒪 sk)) = some (pkOf 𝒪 sk) :=
  (natPk_lawful P fl h.p_eq W).roundtrip (pkOf_valid P fl h sk)

include W in
/-- the private key on the wire is the pair (secret, public element) -/
theorem private_key_survives_wire (sk : ℕ) (hsk : sk < P.q) :
    tryFromSlice (codecSk 𝒪) ((codecSk 𝒪).enc (sk, pkOf 𝒪 sk)) = some (sk, pkOf 𝒪 sk) :=
  (natSk_lawful P fl h.p_eq W).roundtrip (a := (sk, pkOf 𝒪 sk)) ⟨hsk, pkOf_valid P fl h sk⟩

include W in
/-- C01 with EVERY value crossing the wire: the public key is deserialised and used to encrypt,
    the ciphertext is serialised and deserialised, the private key is deserialised and used to
    decrypt: the result is `m` -/
theorem decrypt_after_wire (sk r m : ℕ) (hsk : sk < P.q) (hm : (𝓛).V m) :
    ∃ pk' key' c',
      tryFromSlice (codecPk 𝒪) ((codecPk 𝒪).enc (pkOf 𝒪 sk)) = some pk' ∧
      tryFromSlice (codecSk 𝒪) ((codecSk 𝒪).enc (sk, pkOf 𝒪 sk)) = some key' ∧
      tryFromSlice (codecCt 𝒪) ((codecCt 𝒪).enc (encryptWith 𝒪 pk' m r)) = some c' ∧
      decrypt 𝒪 key'.1 c' = m :=
  ⟨_, _, _, public_key_survives_wire P fl h W sk, private_key_survives_wire P fl h W sk hsk,
    (ciphertext_survives_wire P fl h W sk r m hm).1, C01.decrypt_encrypt 𝓛 sk r m hm⟩

include W in
/-- the same as one expression: deserialise the key, deserialise the ciphertext, decrypt -/
theorem decrypt_after_wire' (sk r m : ℕ) (hsk : sk < P.q) (hm : (𝓛).V m) :
    ((tryFromSlice (codecSk 𝒪) ((codecSk 𝒪).enc (sk, pkOf 𝒪 sk))).bind fun key =>
      (tryFromSlice (codecCt 𝒪) ((codecCt 𝒪).enc (encryptWith 𝒪 (pkOf 𝒪 sk) m r))).map
        (decrypt 𝒪 key.1)) = some m := by
  rw [private_key_survives_wire P fl h W sk hsk, Option.bind_some]
  exact (ciphertext_survives_wire P fl h W sk r m hm).2

include W in
/-- `C01.roundtrip_nat` through the wire: encode, encrypt, serialise, deserialise, decrypt,
    decode is the identity on the whole plaintext space `0 … q-2` -/
theorem roundtrip_nat_wire (sk r m : ℕ) (hm : m < P.q - 1) :
    ∃ e, Nat'.encode P m = some e ∧
      (tryFromSlice (codecCt 𝒪) ((codecCt 𝒪).enc (encryptWith 𝒪 (pkOf 𝒪 sk) e r))).map
        (fun c => Nat'.decode P (decrypt 𝒪 sk c)) = some m := by
  obtain ⟨e, he⟩ := (encode_isSome_iff P h m).mpr hm
  obtain ⟨_, he2, he3⟩ := encode_valid' P h m e he
  refine ⟨e, he, ?_⟩
  rw [(ciphertext_survives_wire P fl h W sk r e ⟨he3, he2⟩).1, Option.map_some,
    C01.decrypt_encrypt 𝓛 sk r e ⟨he3, he2⟩, C01.decode_encode P h.p_eq m e he]

/-! ### 2. Schnorr, Chaum-Pedersen, plaintext knowledge, decryption proofs (C05) -/

/-- whatever the statement, the prover's output is a valid wire value -/
theorem schnorrProveWith_valid (x pub : ℕ) (g : Option ℕ) (ctx : Bytes) (r : ℕ)
    (hg : ∀ b, g = some b → (𝓛).valid b) :
    SchnorrValid (NatMember P) (fun x => x < P.q) (schnorrProveWith 𝒪 x pub g ctx r) :=
  ⟨member_of_V h _ ⟨(𝓛).powBase_valid g hg r, (𝓛).powBase_canon g hg r⟩,
   hashToExp_lt fl h _, modq_lt fl h _⟩

theorem cpProveWith_valid (x pub1 pub2 : ℕ) (g1 : Option ℕ) (g2 : ℕ) (ctx : Bytes) (r : ℕ)
    (hg1 : ∀ b, g1 = some b → (𝓛).valid b) (hg2 : (𝓛).valid g2) :
    CPValid (NatMember P) (fun x => x < P.q) (cpProveWith 𝒪 x pub1 pub2 g1 g2 ctx r) :=
  ⟨member_of_V h _ ⟨(𝓛).powBase_valid g1 hg1 r, (𝓛).powBase_canon g1 hg1 r⟩,
   member_of_V h _ ((𝓛).emodPow_V r hg2), hashToExp_lt fl h _, modq_lt fl h _⟩

include W in
/-- C05, "also after serialization", Schnorr: the honest proof round-trips through its
    encoding, hence the deserialised proof verifies -/
theorem schnorr_proof_survives_wire (x r : ℕ) (g : Option ℕ) (label : Bytes)
    (hg : ∀ b, g = some b → b ^ P.q % P.p = 1) :
    tryFromSlice (codecSchnorr 𝒪) ((codecSchnorr 𝒪).enc
        (schnorrProve 𝒪 x ((𝒪).emodPow (baseOr 𝒪 g) x) g label r))
      = some (schnorrProve 𝒪 x ((𝒪).emodPow (baseOr 𝒪 g) x) g label r) ∧
    (tryFromSlice (codecSchnorr 𝒪) ((codecSchnorr 𝒪).enc
        (schnorrProve 𝒪 x ((𝒪).emodPow (baseOr 𝒪 g) x) g label r))).map
      (fun pf' => schnorrVerify 𝒪 ((𝒪).emodPow (baseOr 𝒪 g) x) g pf' label) = some true := by
  have hg' : ∀ b, g = some b → (𝓛).valid b := fun b hb => natValid_of_pow P b (hg b hb)
  have e := (natSchnorr_lawful P fl h.p_eq W).roundtrip
    (schnorrProveWith_valid P fl h x ((𝒪).emodPow (baseOr 𝒪 g) x) g (ctxLabel label) r hg')
  refine ⟨e, ?_⟩
  unfold schnorrProve
  rw [e, Option.map_some]
  exact congrArg some (C05.schnorr_complete_nat P fl h x r g label hg)

include W in
/-- C05, "also after serialization", Chaum-Pedersen -/
theorem cp_proof_survives_wire (x r : ℕ) (g1 : Option ℕ) (g2 : ℕ) (label : Bytes)
    (hg1 : ∀ b, g1 = some b → b ^ P.q % P.p = 1) (hg2 : g2 ^ P.q % P.p = 1) :
    tryFromSlice (codecCP 𝒪) ((codecCP 𝒪).enc
        (cpProve 𝒪 x ((𝒪).emodPow (baseOr 𝒪 g1) x) ((𝒪).emodPow g2 x) g1 g2 label r))
      = some (cpProve 𝒪 x ((𝒪).emodPow (baseOr 𝒪 g1) x) ((𝒪).emodPow g2 x) g1 g2 label r) ∧
    (tryFromSlice (codecCP 𝒪) ((codecCP 𝒪).enc
        (cpProve 𝒪 x ((𝒪).emodPow (baseOr 𝒪 g1) x) ((𝒪).emodPow g2 x) g1 g2 label r))).map
      (fun pf' => cpVerify 𝒪 ((𝒪).emodPow (baseOr 𝒪 g1) x) ((𝒪).emodPow g2 x) g1 g2 pf' label)
      = some true := by
  have hg1' : ∀ b, g1 = some b → (𝓛).valid b := fun b hb => natValid_of_pow P b (hg1 b hb)
  have e := (natCP_lawful P fl h.p_eq W).roundtrip
    (cpProveWith_valid P fl h x ((𝒪).emodPow (baseOr 𝒪 g1) x) ((𝒪).emodPow g2 x) g1 g2
      (ctxLabel label) r hg1' (natValid_of_pow P g2 hg2))
  refine ⟨e, ?_⟩
  unfold cpProve
  rw [e, Option.map_some]
  exact congrArg some (C05.cp_complete_nat P fl h x r g1 g2 label hg1 hg2)

include W in
/-- C05, "also after serialization", proof of plaintext knowledge: ciphertext AND proof cross the
    wire, the deserialised proof verifies against the deserialised ciphertext (any `pk`, `m`) -/
theorem popk_survives_wire (pk m r n : ℕ) (label : Bytes) (hpk : (𝓛).valid pk) (hm : (𝓛).V m) :
    ∃ c' pf',
      tryFromSlice (codecCt 𝒪) ((codecCt 𝒪).enc (encryptWith 𝒪 pk m r)) = some c' ∧
      tryFromSlice (codecSchnorr 𝒪) ((codecSchnorr 𝒪).enc
        (encryptionPopk 𝒪 r (encryptWith 𝒪 pk m r).mhr (encryptWith 𝒪 pk m r).gr label n))
        = some pf' ∧
      c' = encryptWith 𝒪 pk m r ∧
      pf' = encryptionPopk 𝒪 r (encryptWith 𝒪 pk m r).mhr (encryptWith 𝒪 pk m r).gr label n ∧
      encryptionPopkVerify 𝒪 c'.mhr c'.gr pf' label = true :=
  ⟨_, _, (natCt_lawful' P fl h.p_eq W).roundtrip (encryptWith_valid P fl h pk r m hpk hm),
    (natSchnorr_lawful P fl h.p_eq W).roundtrip
      (schnorrProveWith_valid P fl h r _ none _ n (by intro b hb; cases hb)),
    rfl, rfl, C05.popk_complete 𝓛 pk m r n label⟩

include W in
/-- C05, "also after serialization", decryption proof: the proof crosses the wire and the
    deserialised proof verifies (any ciphertext whose `gr` is a group member) -/
theorem decryption_proof_survives_wire (sk n : ℕ) (c : Ciphertext ℕ) (label : Bytes)
    (hgr : (𝓛).valid c.gr) :
    tryFromSlice (codecCP 𝒪) ((codecCP 𝒪).enc
        (decryptionProof 𝒪 sk (pkOf 𝒪 sk) (decryptionFactor 𝒪 sk c) c.mhr c.gr label n))
      = some (decryptionProof 𝒪 sk (pkOf 𝒪 sk) (decryptionFactor 𝒪 sk c) c.mhr c.gr label n) ∧
    (tryFromSlice (codecCP 𝒪) ((codecCP 𝒪).enc
        (decryptionProof 𝒪 sk (pkOf 𝒪 sk) (decryptionFactor 𝒪 sk c) c.mhr c.gr label n))).map
      (fun pf' => verifyDecryption 𝒪 (pkOf 𝒪 sk) (decryptionFactor 𝒪 sk c) c.mhr c.gr pf' label)
      = some true := by
  have e := (natCP_lawful P fl h.p_eq W).roundtrip
    (cpProveWith_valid P fl h sk (pkOf 𝒪 sk) (decryptionFactor 𝒪 sk c) none c.gr
      (ctxMhr 𝒪 c.mhr label) n (by intro b hb; cases hb) hgr)
  refine ⟨e, ?_⟩
  unfold decryptionProof
  rw [e, Option.map_some]
  exact congrArg some (C05.decryption_proof_complete 𝓛 sk n c label hgr)

end

/-! ### 3. the shuffle (C03), generic part: the honest proof consists of canonical values -/

section generic
variable {E X : Type} {o : Ops E X} {q : ℕ} {A : Type} [AddCommGroup A] [Module (ZMod q) A]

/-- the parts of `genProofCore` that `core_ProofV` does not cover: `cs`, `ĉ` canonical, every
    response canonical -/
theorem core_rest_V (L : Lawful o q A) (h0 : E) (hs : List E) (pk : E)
    (es eps : List (Ciphertext E)) (rPrimes usPrime us : List X) (csP : List E) (rsP : List X)
    (label : Bytes) (tp : ProofTape X) (hh0 : L.valid h0) (hcsP : ∀ x ∈ csP, L.V x) :
    (∀ x ∈ (genProofCore o h0 hs pk es eps rPrimes usPrime us csP rsP label tp).cs, L.V x) ∧
    (∀ x ∈ (genProofCore o h0 hs pk es eps rPrimes usPrime us csP rsP label tp).cHats, L.V x) ∧
    L.xcanon (genProofCore o h0 hs pk es eps rPrimes usPrime us csP rsP label tp).s.s1 ∧
    L.xcanon (genProofCore o h0 hs pk es eps rPrimes usPrime us csP rsP label tp).s.s2 ∧
    L.xcanon (genProofCore o h0 hs pk es eps rPrimes usPrime us csP rsP label tp).s.s3 ∧
    L.xcanon (genProofCore o h0 hs pk es eps rPrimes usPrime us csP rsP label tp).s.s4 ∧
    (∀ x ∈ (genProofCore o h0 hs pk es eps rPrimes usPrime us csP rsP label tp).s.sHats,
      L.xcanon x) ∧
    (∀ x ∈ (genProofCore o h0 hs pk es eps rPrimes usPrime us csP rsP label tp).s.sPrimes,
      L.xcanon x) := by
  refine ⟨hcsP, ?_, ?_, ?_, ?_, ?_, ?_, ?_⟩
  · rw [core_cHats]; exact L.chain_V h0 usPrime tp.rHats hh0
  · rw [core_s1]; exact L.modq_xcanon _
  · rw [core_s2]; exact L.modq_xcanon _
  · rw [core_s3]; exact L.modq_xcanon _
  · rw [core_s4]; exact L.modq_xcanon _
  · rw [core_sHats]
    exact forall_mem_zipWith (P := L.xcanon) _ _ (fun _ _ _ _ => L.modq_xcanon _)
  · rw [core_sPrimes]
    exact forall_mem_zipWith (P := L.xcanon) _ _ (fun _ _ _ _ => L.modq_xcanon _)

/-- `genProofCore` produces a componentwise canonical proof -/
theorem core_valid (L : Lawful o q A) (h0 : E) (hs : List E) (pk : E)
    (es eps : List (Ciphertext E)) (rPrimes usPrime us : List X) (csP : List E) (rsP : List X)
    (label : Bytes) (tp : ProofTape X) (hh0 : L.valid h0) (hhs : ∀ g ∈ hs, L.valid g)
    (hpk : L.valid pk) (heps : ∀ e ∈ eps, L.valid e.mhr ∧ L.valid e.gr)
    (hcsP : ∀ x ∈ csP, L.V x) (N : ℕ)
    (lcs : (genProofCore o h0 hs pk es eps rPrimes usPrime us csP rsP label tp).cs.length = N)
    (lch : (genProofCore o h0 hs pk es eps rPrimes usPrime us csP rsP label tp).cHats.length = N)
    (lth : (genProofCore o h0 hs pk es eps rPrimes usPrime us csP rsP label tp).t.tHats.length = N)
    (lsh : (genProofCore o h0 hs pk es eps rPrimes usPrime us csP rsP label tp).s.sHats.length = N)
    (lsp : (genProofCore o h0 hs pk es eps rPrimes usPrime us csP rsP label tp).s.sPrimes.length
      = N) (h32 : N < 2 ^ 32) :
    ShuffleProofValid L.V L.xcanon
      (genProofCore o h0 hs pk es eps rPrimes usPrime us csP rsP label tp) := by
  have hV := core_ProofV L h0 hs pk es eps rPrimes usPrime us csP rsP label tp hh0 hhs hpk heps
    (fun x hx => (hcsP x hx).1)
  obtain ⟨r1, r2, r3, r4, r5, r6, r7, r8⟩ := core_rest_V L h0 hs pk es eps rPrimes usPrime us csP
    rsP label tp hh0 hcsP
  exact ⟨⟨hV.t1, hV.t2, hV.t3, hV.t4_1, hV.t4_2, hV.tHats, by rw [lth]; exact h32⟩,
    ⟨r3, r4, r5, r6, ⟨r7, by rw [lsh]; exact h32⟩, ⟨r8, by rw [lsp]; exact h32⟩⟩,
    ⟨r1, by rw [lcs]; exact h32⟩, ⟨r2, by rw [lch]; exact h32⟩⟩

/-- **Completeness of the shuffle with canonicity of everything produced**: as
`shuffle_complete_cons`, and in addition the outputs are canonical members and the proof is
componentwise canonical with vectors of `es.length < 2^32` items. -/
theorem shuffle_complete_cons_canonical [DecidableEq E] (L : Lawful o q A) (h0 : E) (hs : List E)
    (pk : E) (es : List (Ciphertext E)) (perm : List Nat) (tape1 tape2 : List X) (label : Bytes)
    (hN : 0 < es.length) (hperm : perm.Perm (List.range es.length))
    (lhs : hs.length = es.length) (hh0 : L.valid h0) (hhs : ∀ g ∈ hs, L.valid g)
    (hpk : L.valid pk) (hes : ∀ c ∈ es, L.valid c.mhr ∧ L.valid c.gr)
    (ht1 : es.length ≤ tape1.length) (ht2 : 4 * es.length + 4 ≤ tape2.length)
    (h32 : es.length < 2 ^ 32) :
    ∃ eps rs rest1 pf rest2,
      applyPermutation o pk perm es tape1 = .ok ((eps, rs), rest1) ∧
      genProof o (h0 :: hs) pk es eps rs perm label tape2 = .ok (pf, rest2) ∧
      checkProof o (h0 :: hs) pk pf es eps label = true ∧
      eps.length = es.length ∧ (∀ c ∈ eps, L.V c.mhr ∧ L.V c.gr) ∧
      ShuffleProofValid L.V L.xcanon pf := by
  obtain ⟨eps, rs, rest1, pf, rest2, happ, hgen, hchk⟩ := shuffle_complete_cons L h0 hs pk es perm
    tape1 tape2 label hN hperm lhs hh0 hhs hpk hes ht1 ht2
  refine ⟨eps, rs, rest1, pf, rest2, happ, hgen, hchk, ?_⟩
  -- the lengths, from acceptance
  have hl : LengthsOK (h0 :: hs) pf es eps := by
    by_contra hl
    rw [checkProof_false_of_not_lengths (h0 :: hs) pk pf es eps label hl] at hchk
    cases hchk
  obtain ⟨_, leps, _, lcs, lch, lth, lsh, lsp⟩ := hl
  -- the explicit outputs
  have lperm := ShufflePerm.perm_length hperm
  have lrs : (tape1.take es.length).length = es.length := by rw [List.length_take]; omega
  have lrc : (tape2.take es.length).length = es.length := by rw [List.length_take]; omega
  rw [applyPermutation_eq pk perm es tape1 ⟨o.identE, o.identE⟩ hperm ht1] at happ
  simp only [Except.ok.injEq, Prod.mk.injEq] at happ
  obtain ⟨⟨rfl, rfl⟩, rfl⟩ := happ
  have lE0 : (List.zipWith (reenc o pk) es (tape1.take es.length)).length = es.length := by
    rw [List.length_zipWith, lrs, Nat.min_self]
  have hE0 : ∀ e ∈ List.zipWith (reenc o pk) es (tape1.take es.length), L.V e.mhr ∧ L.V e.gr :=
    forall_mem_zipWith (P := fun e : Ciphertext E => L.V e.mhr ∧ L.V e.gr) _ _
      (fun e he r _ => L.reenc_V hpk (hes e he) r)
  have pE0 := ShufflePerm.perm_map_getD_perm
    (l := List.zipWith (reenc o pk) es (tape1.take es.length))
    (perm := perm) ⟨o.identE, o.identE⟩ (by rw [lE0]; exact hperm)
  have hepsV : ∀ e ∈ perm.map (fun p =>
      (List.zipWith (reenc o pk) es (tape1.take es.length)).getD p ⟨o.identE, o.identE⟩),
      L.V e.mhr ∧ L.V e.gr := fun e he => hE0 e (pE0.mem_iff.mp he)
  have heps : ∀ e ∈ perm.map (fun p =>
      (List.zipWith (reenc o pk) es (tape1.take es.length)).getD p ⟨o.identE, o.identE⟩),
      L.valid e.mhr ∧ L.valid e.gr := fun e he => ⟨(hepsV e he).1.1, (hepsV e he).2.1⟩
  -- the explicit proof
  obtain ⟨tp, rest2', _, _, _, hgen'⟩ := genProof_eq (o := o) h0 hs pk es _ (tape1.take es.length)
    perm label tape2 o.zeroX hN hperm lhs leps lrs ht2
  rw [hgen'] at hgen
  simp only [Except.ok.injEq, Prod.mk.injEq] at hgen
  obtain ⟨rfl, rfl⟩ := hgen
  -- the permuted commitments are canonical members
  have lcs0 : (List.zipWith (fun g r => o.modp (o.mul g (o.gmodPow r))) hs
      (tape2.take es.length)).length = es.length := by
    rw [List.length_zipWith, lhs, lrc, Nat.min_self]
  have hcs0 : ∀ x ∈ List.zipWith (fun g r => o.modp (o.mul g (o.gmodPow r))) hs
      (tape2.take es.length), L.V x :=
    forall_mem_zipWith (P := L.V) _ _
      (fun g hg r _ => L.modp_mul_V (hhs g hg) (L.gmodPow_valid r))
  have pcs := ShufflePerm.scatter_perm (init := List.replicate es.length o.identE) hperm lcs0
    List.length_replicate
  have hcsP : ∀ x ∈ scatter perm (List.zipWith (fun g r => o.modp (o.mul g (o.gmodPow r))) hs
      (tape2.take es.length)) (List.replicate es.length o.identE), L.V x :=
    fun x hx => hcs0 x (pcs.mem_iff.mp hx)
  exact ⟨leps, hepsV, core_valid L h0 hs pk es _ (tape1.take es.length) _ _ _ _ label tp hh0 hhs
    hpk heps hcsP es.length lcs lch lth lsh lsp h32⟩

end generic

/-! ### 3. the shuffle (C03) on the `Nat` back-ends -/

section
variable (P : Params) (fl : Flavour) (h : SafePrimeGroup P) {k : ℕ} (W : WireSize P k)
include h

local notation "𝒪" => natOps P fl
local notation "𝓛" => natLawful P fl h

/-- In the situation of `C03.shuffle_complete` (N ≥ 1, `perm ~ range N`, canonical generators,
key and ciphertexts, long enough tapes) with `N + 1 < 2^32` (the generator list has `N + 1`
items): the honest outputs and the honest proof are valid wire values. -/
theorem shuffle_honest_valid (gens : List ℕ) (pk : ℕ) (es : List (Ciphertext ℕ))
    (perm : List Nat) (tape1 tape2 : List ℕ) (label : Bytes)
    (hN : 0 < es.length) (hperm : perm.Perm (List.range es.length))
    (hgens : gens.length = es.length + 1) (hgv : ∀ g ∈ gens, (𝓛).V g) (hpk : (𝓛).V pk)
    (hes : ∀ c ∈ es, (𝓛).V c.mhr ∧ (𝓛).V c.gr)
    (ht1 : es.length ≤ tape1.length) (ht2 : 4 * es.length + 4 ≤ tape2.length)
    (h32 : es.length + 1 < 2 ^ 32) :
    ∃ eps rs rest1 pf rest2,
      applyPermutation 𝒪 pk perm es tape1 = .ok ((eps, rs), rest1) ∧
      genProof 𝒪 gens pk es eps rs perm label tape2 = .ok (pf, rest2) ∧
      checkProof 𝒪 gens pk pf es eps label = true ∧
      ShuffleProofValid (NatMember P) (fun x => x < P.q) pf ∧
      VecValid (CtValid (NatMember P)) es ∧ VecValid (CtValid (NatMember P)) eps ∧
      NatMember P pk ∧ VecValid (NatMember P) gens := by
  cases gens with
  | nil => simp at hgens
  | cons h0 hs =>
    have lhs : hs.length = es.length := by simpa using hgens
    obtain ⟨eps, rs, rest1, pf, rest2, happ, hgen, hchk, leps, hepsV, hpf⟩ :=
      shuffle_complete_cons_canonical 𝓛 h0 hs pk es perm tape1 tape2 label hN hperm lhs
        (hgv h0 (by simp)).1 (fun g hg => (hgv g (by simp [hg])).1) hpk.1
        (fun c hc => ⟨(hes c hc).1.1, (hes c hc).2.1⟩) ht1 ht2 (by omega)
    refine ⟨eps, rs, rest1, pf, rest2, happ, hgen, hchk,
      hpf.mono (fun a ha => member_of_V h a ha) (fun x hx => hx),
      ⟨fun c hc => ⟨member_of_V h _ (hes c hc).1, member_of_V h _ (hes c hc).2⟩, by omega⟩,
      ⟨fun c hc => ⟨member_of_V h _ (hepsV c hc).1, member_of_V h _ (hepsV c hc).2⟩, by omega⟩,
      member_of_V h _ hpk, ⟨fun g hg => member_of_V h _ (hgv g hg), by omega⟩⟩

include W in
/-- every value of the honest shuffle round-trips through its encoding -/
theorem shuffle_wire_roundtrip (gens : List ℕ) (pk : ℕ) (es : List (Ciphertext ℕ))
    (perm : List Nat) (tape1 tape2 : List ℕ) (label : Bytes)
    (hN : 0 < es.length) (hperm : perm.Perm (List.range es.length))
    (hgens : gens.length = es.length + 1) (hgv : ∀ g ∈ gens, (𝓛).V g) (hpk : (𝓛).V pk)
    (hes : ∀ c ∈ es, (𝓛).V c.mhr ∧ (𝓛).V c.gr)
    (ht1 : es.length ≤ tape1.length) (ht2 : 4 * es.length + 4 ≤ tape2.length)
    (h32 : es.length + 1 < 2 ^ 32) :
    ∃ eps rs rest1 pf rest2,
      applyPermutation 𝒪 pk perm es tape1 = .ok ((eps, rs), rest1) ∧
      genProof 𝒪 gens pk es eps rs perm label tape2 = .ok (pf, rest2) ∧
      checkProof 𝒪 gens pk pf es eps label = true ∧
      tryFromSlice (codecShuffleProof 𝒪) ((codecShuffleProof 𝒪).enc pf) = some pf ∧
      tryFromSlice (vecC 𝒪) ((vecC 𝒪).enc es) = some es ∧
      tryFromSlice (vecC 𝒪) ((vecC 𝒪).enc eps) = some eps ∧
      tryFromSlice (codecPk 𝒪) ((codecPk 𝒪).enc pk) = some pk ∧
      tryFromSlice (vecE 𝒪) ((vecE 𝒪).enc gens) = some gens := by
  obtain ⟨eps, rs, rest1, pf, rest2, happ, hgen, hchk, vpf, ves, veps, vpk, vgens⟩ :=
    shuffle_honest_valid P fl h gens pk es perm tape1 tape2 label hN hperm hgens hgv hpk hes
      ht1 ht2 h32
  exact ⟨eps, rs, rest1, pf, rest2, happ, hgen, hchk,
    (natShuffleProof_lawful P fl h.p_eq W).roundtrip vpf,
    (natVecC_lawful P fl h.p_eq W).roundtrip ves,
    (natVecC_lawful P fl h.p_eq W).roundtrip veps,
    (natPk_lawful P fl h.p_eq W).roundtrip vpk,
    (natVecE_lawful P fl h.p_eq W).roundtrip vgens⟩

include W in
/-- C03, "also after serialization": there are honest outputs `eps`, `rs` and an honest proof
`pf` such that, after serialising and deserialising the proof, the input list, the output list,
the public key and the generator list, `check_proof` on the deserialised values accepts. -/
theorem shuffle_proof_survives_wire (gens : List ℕ) (pk : ℕ) (es : List (Ciphertext ℕ))
    (perm : List Nat) (tape1 tape2 : List ℕ) (label : Bytes)
    (hN : 0 < es.length) (hperm : perm.Perm (List.range es.length))
    (hgens : gens.length = es.length + 1) (hgv : ∀ g ∈ gens, (𝓛).V g) (hpk : (𝓛).V pk)
    (hes : ∀ c ∈ es, (𝓛).V c.mhr ∧ (𝓛).V c.gr)
    (ht1 : es.length ≤ tape1.length) (ht2 : 4 * es.length + 4 ≤ tape2.length)
    (h32 : es.length + 1 < 2 ^ 32) :
    ∃ eps rs rest1 pf rest2,
      applyPermutation 𝒪 pk perm es tape1 = .ok ((eps, rs), rest1) ∧
      genProof 𝒪 gens pk es eps rs perm label tape2 = .ok (pf, rest2) ∧
      ∃ pf' es' eps' pk' gens',
        tryFromSlice (codecShuffleProof 𝒪) ((codecShuffleProof 𝒪).enc pf) = some pf' ∧
        tryFromSlice (vecC 𝒪) ((vecC 𝒪).enc es) = some es' ∧
        tryFromSlice (vecC 𝒪) ((vecC 𝒪).enc eps) = some eps' ∧
        tryFromSlice (codecPk 𝒪) ((codecPk 𝒪).enc pk) = some pk' ∧
        tryFromSlice (vecE 𝒪) ((vecE 𝒪).enc gens) = some gens' ∧
        checkProof 𝒪 gens' pk' pf' es' eps' label = true := by
  obtain ⟨eps, rs, rest1, pf, rest2, happ, hgen, hchk, e1, e2, e3, e4, e5⟩ :=
    shuffle_wire_roundtrip P fl h W gens pk es perm tape1 tape2 label hN hperm hgens hgv hpk hes
      ht1 ht2 h32
  exact ⟨eps, rs, rest1, pf, rest2, happ, hgen, pf, es, eps, pk, gens, e1, e2, e3, e4, e5, hchk⟩

end

/-! ### 4. non-vacuity on the 23-element toy group, `k = 1` -/

open Strand.C15 (P23 P23_safe)
open Strand.C12 (P23_size)

private theorem v23 (fl : Flavour) (a : ℕ) (h : a ^ 11 % 23 = 1 := by norm_num)
    (h' : a < 23 := by norm_num) : (natLawful P23 fl P23_safe).V a :=
  ⟨natValid_of_pow P23 a h, h'⟩

/-- sk = 7, message 13, randomness 0 (a boundary value), both flavours -/
example (fl : Flavour) :
    (tryFromSlice (codecCt (natOps P23 fl)) ((codecCt (natOps P23 fl)).enc
      (encryptWith (natOps P23 fl) (pkOf (natOps P23 fl) 7) 13 0))).map
        (decrypt (natOps P23 fl) 7) = some 13 :=
  (ciphertext_survives_wire P23 fl P23_safe P23_size 7 0 13 (v23 fl 13)).2

/-- the largest secret `q - 1 = 10` as a private key on the wire -/
example : tryFromSlice (codecSk (natOps P23 .bigint))
    ((codecSk (natOps P23 .bigint)).enc (10, pkOf (natOps P23 .bigint) 10))
      = some (10, pkOf (natOps P23 .bigint) 10) :=
  private_key_survives_wire P23 .bigint P23_safe P23_size 10 (by decide)

example : ∃ pk' key' c',
    tryFromSlice (codecPk (natOps P23 .malachite))
      ((codecPk (natOps P23 .malachite)).enc (pkOf (natOps P23 .malachite) 10)) = some pk' ∧
    tryFromSlice (codecSk (natOps P23 .malachite))
      ((codecSk (natOps P23 .malachite)).enc (10, pkOf (natOps P23 .malachite) 10)) = some key' ∧
    tryFromSlice (codecCt (natOps P23 .malachite))
      ((codecCt (natOps P23 .malachite)).enc (encryptWith (natOps P23 .malachite) pk' 1 10))
      = some c' ∧
    decrypt (natOps P23 .malachite) key'.1 c' = 1 :=
  decrypt_after_wire P23 .malachite P23_safe P23_size 10 10 1 (by decide) (v23 .malachite 1)

/-- the largest plaintext `q - 2 = 9` -/
example : ∃ e, Nat'.encode P23 9 = some e ∧
    (tryFromSlice (codecCt (natOps P23 .bigint)) ((codecCt (natOps P23 .bigint)).enc
      (encryptWith (natOps P23 .bigint) (pkOf (natOps P23 .bigint) 7) e 3))).map
        (fun c => Nat'.decode P23 (decrypt (natOps P23 .bigint) 7 c)) = some 9 :=
  roundtrip_nat_wire P23 .bigint P23_safe P23_size 7 3 9 (by decide)

/-- secret 7, nonce 0, explicit base 13, label "ab" -/
example : (tryFromSlice (codecSchnorr (natOps P23 .bigint)) ((codecSchnorr (natOps P23 .bigint)).enc
      (schnorrProve (natOps P23 .bigint) 7 ((natOps P23 .bigint).emodPow
        (baseOr (natOps P23 .bigint) (some 13)) 7) (some 13) [97, 98] 0))).map
    (fun pf' => schnorrVerify (natOps P23 .bigint) ((natOps P23 .bigint).emodPow
      (baseOr (natOps P23 .bigint) (some 13)) 7) (some 13) pf' [97, 98]) = some true :=
  (schnorr_proof_survives_wire P23 .bigint P23_safe P23_size 7 0 (some 13) [97, 98]
    (by intro b hb; cases hb; norm_num [P23])).2

/-- secret q-1 = 10, nonce q-1, default base, second base 9, malachite -/
example : (tryFromSlice (codecCP (natOps P23 .malachite)) ((codecCP (natOps P23 .malachite)).enc
      (cpProve (natOps P23 .malachite) 10
        ((natOps P23 .malachite).emodPow (baseOr (natOps P23 .malachite) none) 10)
        ((natOps P23 .malachite).emodPow 9 10) none 9 [] 10))).map
    (fun pf' => cpVerify (natOps P23 .malachite)
      ((natOps P23 .malachite).emodPow (baseOr (natOps P23 .malachite) none) 10)
      ((natOps P23 .malachite).emodPow 9 10) none 9 pf' []) = some true :=
  (cp_proof_survives_wire P23 .malachite P23_safe P23_size 10 10 none 9 []
    (by intro b hb; cases hb) (by norm_num [P23])).2

/-- N = 2, the transposition, repeated ciphertexts (the example of C03) -/
example (label : Bytes) : ∃ eps rs rest1 pf rest2,
    applyPermutation (natOps P23 .bigint) 6 [1, 0] C03.esEx [5, 7] = .ok ((eps, rs), rest1) ∧
    genProof (natOps P23 .bigint) C03.gensEx 6 C03.esEx eps rs [1, 0] label
      [1, 2, 3, 4, 5, 6, 7, 8, 9, 10, 0, 1] = .ok (pf, rest2) ∧
    ∃ pf' es' eps' pk' gens',
      tryFromSlice (codecShuffleProof (natOps P23 .bigint))
        ((codecShuffleProof (natOps P23 .bigint)).enc pf) = some pf' ∧
      tryFromSlice (vecC (natOps P23 .bigint)) ((vecC (natOps P23 .bigint)).enc C03.esEx)
        = some es' ∧
      tryFromSlice (vecC (natOps P23 .bigint)) ((vecC (natOps P23 .bigint)).enc eps) = some eps' ∧
      tryFromSlice (codecPk (natOps P23 .bigint)) ((codecPk (natOps P23 .bigint)).enc 6)
        = some pk' ∧
      tryFromSlice (vecE (natOps P23 .bigint)) ((vecE (natOps P23 .bigint)).enc C03.gensEx)
        = some gens' ∧
      checkProof (natOps P23 .bigint) gens' pk' pf' es' eps' label = true :=
  shuffle_proof_survives_wire P23 .bigint P23_safe P23_size C03.gensEx 6 C03.esEx [1, 0] [5, 7]
    [1, 2, 3, 4, 5, 6, 7, 8, 9, 10, 0, 1] label (by simp [C03.esEx])
    (List.Perm.swap 0 1 []) rfl C03.gensEx_V (v23 .bigint 6) C03.esEx_V (by simp [C03.esEx])
    (by simp [C03.esEx]) (by simp [C03.esEx])

end Strand.Wire
