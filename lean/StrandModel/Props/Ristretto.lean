import StrandModel.Lemmas.LawfulSplit
/-
Ristretto: which part of `Lawful` is proved and which part is assumed.

* `ell_prime` : ℓ = 2^252 + 27742317777372353535851937790883648493 is prime — PROVED
  (Pratt certificate, kernel-checked; no `native_decide`).
* `ristretto_exponent_ring_lawful` : the whole exponent-ring half of `Lawful` is PROVED for
  `ristrettoOps` (`dx x = (x : ZMod ℓ)`, `xcanon x ↔ x < ℓ`), no hypothesis.
* `ristretto_reduction` : so only the curve-group half `LawfulGrp` remains an assumption.
* `old_modq_lawful_unsatisfiable` : with the former `modq = id` on the carrier `ℕ` the
  hypothesis `Lawful ristrettoOps ℓ A` was false for every `A` (scalars `0` and `ℓ`); kept as a
  theorem about `ristrettoOpsOldModq`.
-/
set_option linter.unusedSectionVars false
namespace Strand.RistrettoReduction
open Strand

/-- ℓ is prime -/
theorem ell_prime : Nat.Prime R255.ell := R255.ell_prime

/-- exponent-ring half: proved, no hypothesis.  `dx x = (x : ZMod ℓ)`, `xcanon x ↔ x < ℓ`. -/
theorem ristretto_exponent_ring_lawful :
    ∃ X : LawfulExp ristrettoOps R255.ell,
      (∀ x, X.dx x = (x : ZMod R255.ell)) ∧ (∀ x, X.xcanon x ↔ x < R255.ell) :=
  ⟨ristrettoLawfulExp, fun _ => rfl, fun _ => Iff.rfl⟩

/-- for Ristretto only the curve-group half is assumed -/
theorem ristretto_reduction {A : Type} [AddCommGroup A] [Module (ZMod R255.ell) A] :
    LawfulGrp ristrettoOps R255.ell A ristrettoLawfulExp.dx →
      Nonempty (Lawful ristrettoOps R255.ell A) := Strand.ristretto_reduction

/-- every scalar operation returns a reduced scalar; `modq` is the identity on reduced scalars -/
alias ristretto_exp_outputs_canon := Strand.ristretto_exp_outputs_canon

/-- the former definition (`modq = id` on `ℕ`) made the hypothesis unsatisfiable -/
theorem old_modq_lawful_unsatisfiable {A : Type} [AddCommGroup A] [Module (ZMod R255.ell) A] :
    ¬ Nonempty (Lawful ristrettoOpsOldModq R255.ell A) := fun ⟨L⟩ => not_lawful_old_modq L

theorem old_modq_agrees_on_reduced {x : ℕ} (hx : x < R255.ell) :
    ristrettoOpsOldModq.modq x = ristrettoOps.modq x := ristrettoOpsOldModq_modq_of_lt hx

/-- non-vacuity of the split: on a proved back-end, splitting and re-assembling is the identity -/
example {E X : Type} {o : Ops E X} {q : ℕ} {A : Type} [AddCommGroup A] [Module (ZMod q) A]
    (L : Lawful o q A) : Lawful.ofParts L.toExp L.toGrp = L := Lawful.ofParts_toExp_toGrp L

/-- non-vacuity of the exponent half: 2 · 2⁻¹ = 1 in the model's scalar arithmetic -/
example : ristrettoOps.modq (ristrettoOps.xmul (ristrettoOps.invq 2) 2) = ristrettoOps.oneX := by
  decide +kernel

end Strand.RistrettoReduction
