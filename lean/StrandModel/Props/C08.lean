import StrandModel.Lemmas.KeymakerLemmas
import StrandModel.Lemmas.SigmaIff
import StrandModel.Props.C05Core
import StrandModel.Props.C15
/-
C08 — n-of-n distributed keys (keymaker.rs), for EVERY number of trustees n ≥ 1 (all
statements are over arbitrary lists; proofs by induction):
the joint public key is the product of the public shares in any order, each share's proof of
knowledge verifies, a ciphertext under the joint key is decrypted exactly by dividing by the
product of all n decryption factors (single ciphertexts, and lists position by position), and
leaving out or duplicating one trustee's factor does not yield the plaintext.
-/
set_option linter.unusedSectionVars false
namespace Strand.C08
open Strand

variable {E X : Type} [DecidableEq E] [DecidableEq X] {o : Ops E X} {q : ℕ} {A : Type}
  [AddCommGroup A] [Module (ZMod q) A]

/-! ### 1. the joint public key is the product of the shares -/

/-- `combine_pks` panics exactly on the empty list: n ≥ 1 -/
theorem combine_pks_isSome (pks : List E) : (combinePks o pks).isSome = true ↔ pks ≠ [] := by
  cases pks <;> simp [combinePks]

/-- the joint key is a group member denoting the product of all shares -/
theorem combine_pks_den (L : Lawful o q A) {pk r : E} {pks : List E} (hpk : L.valid pk)
    (hpks : ∀ x ∈ pks, L.valid x) (h : combinePks o (pk :: pks) = some r) :
    L.valid r ∧ L.den r = L.den pk + (pks.map L.den).sum := by
  simp only [combinePks, Option.some.injEq] at h
  subst h
  exact ⟨L.mulAll_valid hpk hpks, L.mulAll_den hpk hpks⟩

/-- the joint key of n ≥ 2 shares is canonical; for n = 1 `combine_pks` returns the single
    share itself, unreduced, so it is canonical iff that share is -/
theorem combine_pks_canon (L : Lawful o q A) {pk r : E} {pks : List E} (hpk : L.valid pk)
    (hpks : ∀ x ∈ pks, L.valid x) (h : combinePks o (pk :: pks) = some r)
    (hc : pks ≠ [] ∨ L.canon pk) : L.canon r := by
  simp only [combinePks, Option.some.injEq] at h
  subst h
  rcases hc with hc | hc
  · exact L.mulAll_canon_of_ne_nil hpk hpks hc
  · exact L.mulAll_canon_of_canon hpk hc hpks

theorem combine_pks_single (pk : E) : combinePks o [pk] = some pk := rfl

/-- both facts for canonical shares: the form used below -/
theorem combine_pks_V (L : Lawful o q A) {r : E} {pks : List E} (hpks : ∀ x ∈ pks, L.V x)
    (h : combinePks o pks = some r) : L.V r ∧ L.den r = (pks.map L.den).sum := by
  cases pks with
  | nil => cases h
  | cons pk pks =>
    have h0 := hpks pk List.mem_cons_self
    have hr : ∀ x ∈ pks, L.valid x := fun y hy => (hpks y (List.mem_cons_of_mem _ hy)).1
    obtain ⟨hv, hd⟩ := combine_pks_den L h0.1 hr h
    exact ⟨⟨hv, combine_pks_canon L h0.1 hr h (Or.inr h0.2)⟩, by
      rw [hd, List.map_cons, List.sum_cons]⟩

/-! ### 2. ... regardless of the order of the shares -/

/-- canonical shares (what `Keymaker::share` produces and what deserialisation admits):
    any reordering gives the same joint key, for every n -/
theorem combine_pks_perm (L : Lawful o q A) {pks pks' : List E} (hp : pks.Perm pks')
    (hV : ∀ x ∈ pks, L.V x) : combinePks o pks = combinePks o pks' := by
  have hV' : ∀ x ∈ pks', L.V x := fun x hx => hV x (hp.mem_iff.mpr hx)
  cases h : combinePks o pks with
  | none =>
    cases pks with
    | nil => rw [List.nil_perm.mp hp]; rfl
    | cons a as => cases h
  | some r =>
    cases h' : combinePks o pks' with
    | none =>
      cases pks' with
      | nil => rw [List.perm_nil.mp hp] at h; cases h
      | cons a as => cases h'
    | some r' =>
      obtain ⟨hr, hd⟩ := combine_pks_V L hV h
      obtain ⟨hr', hd'⟩ := combine_pks_V L hV' h'
      congr 1
      apply L.den_inj hr.1 hr'.1 hr.2 hr'.2
      rw [hd, hd']
      exact (hp.map L.den).sum_eq

/-- with n ≥ 2 shares the loop body runs, its result is reduced, and membership alone (no
    canonicity of the inputs) suffices -/
theorem combine_pks_perm_of_valid (L : Lawful o q A) {pks pks' : List E} (hp : pks.Perm pks')
    (hV : ∀ x ∈ pks, L.valid x) (hlen : 2 ≤ pks.length) :
    combinePks o pks = combinePks o pks' := by
  have hV' : ∀ x ∈ pks', L.valid x := fun x hx => hV x (hp.mem_iff.mpr hx)
  have hlen' : 2 ≤ pks'.length := hp.length_eq ▸ hlen
  match pks, pks', hp, hV, hV', hlen, hlen' with
  | a :: a' :: as, b :: b' :: bs, hp, hV, hV', _, _ =>
    have ha := hV a List.mem_cons_self
    have hb := hV' b List.mem_cons_self
    have has : ∀ x ∈ a' :: as, L.valid x := fun y hy => hV y (List.mem_cons_of_mem _ hy)
    have hbs : ∀ x ∈ b' :: bs, L.valid x := fun y hy => hV' y (List.mem_cons_of_mem _ hy)
    show some _ = some _
    congr 1
    apply L.den_inj (L.mulAll_valid ha has) (L.mulAll_valid hb hbs)
      (L.mulAll_canon_of_ne_nil ha has (by simp)) (L.mulAll_canon_of_ne_nil hb hbs (by simp))
    rw [L.mulAll_den' ha has, L.mulAll_den' hb hbs]
    exact (hp.map L.den).sum_eq

/-! ### 3. each share's proof of knowledge verifies -/

/-- `Keymaker::share` / `Keymaker::verify_share`: every secret, label and nonce -/
theorem share_proof_verifies (L : Lawful o q A) (sk : X) (label : Bytes) (r : X) :
    kmVerifyShare o (kmShare o sk label r).1 (kmShare o sk label r).2 label = true := by
  have h := C05.schnorr_complete L sk r (none : Option E) label (by intro b hb; cases hb)
  simpa [kmVerifyShare, kmShare, pkOf, baseOr, L.gmodPow_eq] using h

/-- the public share is a canonical group member -/
theorem share_V (L : Lawful o q A) (sk : X) (label : Bytes) (r : X) :
    L.V (kmShare o sk label r).1 := L.gmodPow_V sk

/-! ### 4. joint decryption -/

/-- the joint key of the trustees with secrets `sks` denotes `g ^ Σ sks` -/
theorem joint_pk (L : Lawful o q A) {sks : List X} {pk : E}
    (h : combinePks o (sks.map (pkOf o)) = some pk) :
    L.V pk ∧ L.den pk = (sks.map L.dx).sum • L.den o.generator := by
  obtain ⟨hV, hd⟩ := combine_pks_V L (pks := sks.map (pkOf o)) (by
    intro x hx
    obtain ⟨sk, _, rfl⟩ := List.mem_map.mp hx
    exact L.gmodPow_V sk) h
  refine ⟨hV, ?_⟩
  rw [hd, List.map_map, ← L.sum_map_smul]
  congr 1
  apply List.map_congr_left
  intro sk _
  exact L.gmodPow_den sk

/-- the trustees with secrets `fs` each release their factor of `c`: the list `joint_dec` gets -/
def factors (o : Ops E X) (fs : List X) (c : Ciphertext E) : List E :=
  fs.map fun sk => decryptionFactor o sk c

theorem factors_valid (L : Lawful o q A) (fs : List X) {c : Ciphertext E} (hgr : L.valid c.gr) :
    ∀ x ∈ factors o fs c, L.valid x := by
  intro x hx
  obtain ⟨sk, _, rfl⟩ := List.mem_map.mp hx
  exact L.emodPow_valid sk hgr

theorem factors_den_sum (L : Lawful o q A) (fs : List X) {c : Ciphertext E}
    (hgr : L.valid c.gr) :
    ((factors o fs c).map L.den).sum = (fs.map L.dx).sum • L.den c.gr := by
  unfold factors
  rw [List.map_map, ← L.sum_map_smul]
  congr 1
  apply List.map_congr_left
  intro sk _
  exact L.emodPow_den sk hgr

/-- The general computation behind 4, 5 and 7.  A ciphertext of `m` under the joint key of the
    trustees `sks`, jointly decrypted with the factors of ANY non-empty list `fs` of secrets,
    gives the canonical member `m * g^((Σ sks − Σ fs)·r)`. -/
theorem joint_dec_general (L : Lawful o q A) {sks fs : List X} {pk : E} (r : X) {m : E}
    (hm : L.V m) (hpk : combinePks o (sks.map (pkOf o)) = some pk) (hfs : fs ≠ []) :
    ∃ res, jointDec o (factors o fs (encryptWith o pk m r)) (encryptWith o pk m r) = some res ∧
      L.V res ∧ L.den res = L.den m +
        (((sks.map L.dx).sum - (fs.map L.dx).sum) * L.dx r) • L.den o.generator := by
  obtain ⟨hpkV, hpkd⟩ := joint_pk L hpk
  have hgr : L.valid (encryptWith o pk m r).gr := L.gmodPow_valid r
  have hpkr := L.emodPow_valid r hpkV.1
  have hmhr : L.valid (encryptWith o pk m r).mhr := L.modp_valid (L.mul_valid hm.1 hpkr)
  cases fs with
  | nil => exact absurd rfl hfs
  | cons f0 fs =>
    obtain ⟨res, h1, h2, h3⟩ := L.jointDec_spec (d := decryptionFactor o f0 _)
      (ds := factors o fs _) hmhr (factors_valid L (f0 :: fs) hgr)
    refine ⟨res, h1, h2, ?_⟩
    have hs : ((decryptionFactor o f0 (encryptWith o pk m r) ::
        factors o fs (encryptWith o pk m r)).map L.den).sum
        = ((f0 :: fs).map L.dx).sum • L.den (encryptWith o pk m r).gr :=
      factors_den_sum L (f0 :: fs) hgr
    rw [h3, hs]
    show L.den (o.modp (o.mul m (o.emodPow pk r))) - _ • L.den (o.gmodPow r) = _
    rw [L.modp_mul_den hm.1 hpkr, L.emodPow_den _ hpkV.1, hpkd, L.gmodPow_den]
    module

/-- **joint decryption is correct**, any n ≥ 1: dividing by the product of all n factors
    yields exactly `m` -/
theorem joint_dec_correct' (L : Lawful o q A) {sks : List X} {pk : E} (r : X) {m : E}
    (hm : L.V m) (hpk : combinePks o (sks.map (pkOf o)) = some pk) :
    jointDec o (factors o sks (encryptWith o pk m r)) (encryptWith o pk m r) = some m := by
  have hne : sks ≠ [] := by rintro rfl; cases hpk
  obtain ⟨res, h1, h2, h3⟩ := joint_dec_general L r hm hpk hne
  rw [h1]
  congr 1
  apply L.den_inj h2.1 hm.1 h2.2 hm.2
  rw [h3, sub_self, zero_mul, zero_smul, add_zero]

theorem joint_dec_correct (L : Lawful o q A) (sks : List X) (hne : sks ≠ []) (r : X) (m : E)
    (hm : L.V m) :
    ∃ pk, combinePks o (sks.map (pkOf o)) = some pk ∧
      jointDec o (sks.map fun sk => decryptionFactor o sk (encryptWith o pk m r))
        (encryptWith o pk m r) = some m := by
  cases sks with
  | nil => exact absurd rfl hne
  | cons sk sks => exact ⟨_, rfl, joint_dec_correct' L r hm rfl⟩

/-! ### 5. the factors may come in any order -/

/-- any list of group members as factors, any ciphertext whose `mhr` is a group member -/
theorem joint_dec_perm (L : Lawful o q A) {decs decs' : List E} (c : Ciphertext E)
    (hp : decs.Perm decs') (hV : ∀ x ∈ decs, L.valid x) (hm : L.valid c.mhr) :
    jointDec o decs c = jointDec o decs' c := by
  have hV' : ∀ x ∈ decs', L.valid x := fun x hx => hV x (hp.mem_iff.mpr hx)
  match decs, decs', hp, hV, hV' with
  | [], decs', hp, _, _ => rw [List.nil_perm.mp hp]
  | d :: ds, [], hp, _, _ => exact absurd (List.perm_nil.mp hp) (by simp)
  | d :: ds, d' :: ds', hp, hV, hV' =>
    obtain ⟨r, h1, h2, h3⟩ := L.jointDec_spec hm hV
    obtain ⟨r', h1', h2', h3'⟩ := L.jointDec_spec hm hV'
    rw [h1, h1']
    congr 1
    apply L.den_inj h2.1 h2'.1 h2.2 h2'.2
    rw [h3, h3', (hp.map L.den).sum_eq]

/-- in particular: the trustees' factors of a joint-key ciphertext, in any order, give `m` -/
theorem joint_dec_correct_perm (L : Lawful o q A) {sks : List X} {pk : E} (r : X) {m : E}
    (hm : L.V m) (hpk : combinePks o (sks.map (pkOf o)) = some pk) {decs : List E}
    (hp : decs.Perm (factors o sks (encryptWith o pk m r))) :
    jointDec o decs (encryptWith o pk m r) = some m := by
  have hgr : L.valid (encryptWith o pk m r).gr := L.gmodPow_valid r
  have hmhr : L.valid (encryptWith o pk m r).mhr :=
    L.modp_valid (L.mul_valid hm.1 (L.emodPow_valid r (joint_pk L hpk).1.1))
  rw [← joint_dec_correct' L r hm hpk]
  exact (joint_dec_perm L _ hp.symm (factors_valid L sks hgr) hmhr).symm

/-! ### 6. lists of ciphertexts, position by position -/

/-- `joint_dec_many` characterised completely (no hypotheses): it returns `out` iff `out` has
    one entry per ciphertext and, at every position `i`, every trustee's factor list has an
    `i`-th entry (`column decs i = decs.mapM (·[i]?)` is `some col`) and `out[i]` is
    `joint_dec` of that column and the `i`-th ciphertext.  Everything else is a panic. -/
theorem joint_dec_many_pointwise (decs : List (List E)) (cs : List (Ciphertext E))
    (out : List E) :
    jointDecMany o decs cs = some out ↔
      out.length = cs.length ∧ ∀ i (h : i < cs.length),
        ((column decs i).bind fun col => jointDec o col cs[i]) = out[i]? := by
  unfold jointDecMany
  rw [jointDecManyFrom_eq_some]
  simp only [Nat.zero_add, jointDecAt_eq]

/-- the formulation with an explicit column -/
theorem joint_dec_many_column (decs : List (List E)) (cs : List (Ciphertext E)) (out : List E)
    (h : jointDecMany o decs cs = some out) :
    out.length = cs.length ∧ ∀ i (hi : i < cs.length),
      ∃ col, decs.mapM (fun d => d[i]?) = some col ∧ jointDec o col cs[i] = out[i]? := by
  obtain ⟨hl, hi⟩ := (joint_dec_many_pointwise decs cs out).mp h
  refine ⟨hl, fun i h => ?_⟩
  have := hi i h
  have hs : out[i]? = some out[i] := List.getElem?_eq_getElem (hl ▸ h)
  rw [hs] at this ⊢
  cases hc : column decs i with
  | none => rw [hc] at this; cases this
  | some col => rw [hc] at this; exact ⟨col, hc, this⟩

/-- the `i`-th column of the matrix of factors that the trustees `sks` release for `cs` -/
theorem column_factors (sks : List X) (cs : List (Ciphertext E)) (i : Nat) (h : i < cs.length) :
    column (sks.map fun sk => cs.map (decryptionFactor o sk)) i = some (factors o sks cs[i]) := by
  induction sks with
  | nil => rfl
  | cons sk sks ih =>
    rw [List.map_cons, column_cons, ih, List.getElem?_map, List.getElem?_eq_getElem h]
    rfl

/-- **joint decryption of a list is correct**, any n ≥ 1, any number of ciphertexts: each
    trustee releases one factor per ciphertext; the result is the list of plaintexts -/
theorem joint_dec_many_correct (L : Lawful o q A) {sks : List X} {pk : E} (ms : List E)
    (rs : List X) (hlen : ms.length = rs.length) (hms : ∀ m ∈ ms, L.V m)
    (hpk : combinePks o (sks.map (pkOf o)) = some pk) :
    jointDecMany o
      (sks.map fun sk => (List.zipWith (encryptWith o pk) ms rs).map (decryptionFactor o sk))
      (List.zipWith (encryptWith o pk) ms rs) = some ms := by
  rw [joint_dec_many_pointwise]
  have hl : (List.zipWith (encryptWith o pk) ms rs).length = ms.length := by
    rw [List.length_zipWith, hlen, Nat.min_self]
  refine ⟨hl.symm, fun i h => ?_⟩
  have hi : i < ms.length := hl ▸ h
  rw [column_factors sks _ i h, List.getElem?_eq_getElem hi, List.getElem_zipWith]
  exact joint_dec_correct' L _ (hms _ (List.getElem_mem hi)) hpk

/-! ### 7. leaving out or duplicating a factor -/

theorem gen_den_ne_zero (L : Lawful o q A) (h : o.generator ≠ o.identE) :
    L.den o.generator ≠ 0 := fun h0 =>
  h (L.den_inj L.gen_valid L.ident_valid L.gen_canon L.ident_canon (by rw [h0, L.ident_den]))

section prime
variable [Fact q.Prime]

/-- joint decryption with the factors of `fs` yields `m` iff `(Σ sks − Σ fs)·r = 0` -/
theorem joint_dec_eq_iff (L : Lawful o q A) {sks fs : List X} {pk : E} (r : X) {m : E}
    (hm : L.V m) (hpk : combinePks o (sks.map (pkOf o)) = some pk) (hfs : fs ≠ [])
    (hg : L.den o.generator ≠ 0) :
    jointDec o (factors o fs (encryptWith o pk m r)) (encryptWith o pk m r) = some m ↔
      (sks.map L.dx).sum = (fs.map L.dx).sum ∨ L.dx r = 0 := by
  obtain ⟨res, h1, h2, h3⟩ := joint_dec_general L r hm hpk hfs
  rw [h1, Option.some.injEq, L.eq_iff h2 hm, h3, add_eq_left, smul_eq_zero, mul_eq_zero,
    sub_eq_zero]
  simp [hg]

/-- **Leaving out trustee i's factor** (secrets `pre ++ skᵢ :: post`, factors of `pre ++ post`)
    yields `m` iff `skᵢ = 0` or `r = 0` in `Z_q` — the honest exception: a zero share or zero
    encryption randomness makes that factor the identity, so omitting it changes nothing. -/
theorem omit_factor_eq_iff (L : Lawful o q A) (pre post : List X) (ski r : X) {m pk : E}
    (hm : L.V m) (hpk : combinePks o ((pre ++ ski :: post).map (pkOf o)) = some pk)
    (hne : pre ++ post ≠ []) (hg : L.den o.generator ≠ 0) :
    jointDec o (factors o (pre ++ post) (encryptWith o pk m r)) (encryptWith o pk m r) = some m
      ↔ L.dx ski = 0 ∨ L.dx r = 0 := by
  rw [joint_dec_eq_iff L r hm hpk hne hg]
  simp only [List.map_append, List.sum_append, List.map_cons, List.sum_cons]
  rw [show ((pre.map L.dx).sum + (L.dx ski + (post.map L.dx).sum) =
    (pre.map L.dx).sum + (post.map L.dx).sum) ↔ L.dx ski = 0 from by
      constructor
      · intro h; linear_combination h
      · intro h; rw [h, zero_add]]

/-- leaving out a factor: the result is never `some m` (with no factor left, `joint_dec`
    panics). Needs a non-trivial generator, `skᵢ ≠ 0`, `r ≠ 0` in `Z_q`. -/
theorem omit_factor_ne (L : Lawful o q A) (pre post : List X) (ski r : X) {m pk : E}
    (hm : L.V m) (hpk : combinePks o ((pre ++ ski :: post).map (pkOf o)) = some pk)
    (hg : L.den o.generator ≠ 0) (hsk : L.dx ski ≠ 0) (hr : L.dx r ≠ 0) :
    jointDec o (factors o (pre ++ post) (encryptWith o pk m r)) (encryptWith o pk m r)
      ≠ some m := by
  by_cases hne : pre ++ post = []
  · rw [hne]; intro h; cases h
  · rw [Ne, omit_factor_eq_iff L pre post ski r hm hpk hne hg]
    exact not_or.mpr ⟨hsk, hr⟩

/-- ... and when at least one other trustee remains it IS some group member, different from `m` -/
theorem omit_factor_some_ne (L : Lawful o q A) (pre post : List X) (ski r : X) {m pk : E}
    (hm : L.V m) (hpk : combinePks o ((pre ++ ski :: post).map (pkOf o)) = some pk)
    (hne : pre ++ post ≠ [])
    (hg : L.den o.generator ≠ 0) (hsk : L.dx ski ≠ 0) (hr : L.dx r ≠ 0) :
    ∃ m', jointDec o (factors o (pre ++ post) (encryptWith o pk m r)) (encryptWith o pk m r)
      = some m' ∧ L.V m' ∧ m' ≠ m := by
  obtain ⟨res, h1, h2, _⟩ := joint_dec_general L r hm hpk hne
  refine ⟨res, h1, h2, ?_⟩
  rintro rfl
  exact omit_factor_ne L pre post ski r hm hpk hg hsk hr h1

/-- **Using trustee i's factor twice** yields `m` iff `skᵢ = 0` or `r = 0` in `Z_q`. -/
theorem duplicate_factor_eq_iff (L : Lawful o q A) (pre post : List X) (ski r : X) {m pk : E}
    (hm : L.V m) (hpk : combinePks o ((pre ++ ski :: post).map (pkOf o)) = some pk)
    (hg : L.den o.generator ≠ 0) :
    jointDec o (factors o (pre ++ ski :: ski :: post) (encryptWith o pk m r))
      (encryptWith o pk m r) = some m ↔ L.dx ski = 0 ∨ L.dx r = 0 := by
  rw [joint_dec_eq_iff L r hm hpk (by simp) hg]
  simp only [List.map_append, List.sum_append, List.map_cons, List.sum_cons]
  rw [show ((pre.map L.dx).sum + (L.dx ski + (post.map L.dx).sum) =
    (pre.map L.dx).sum + (L.dx ski + (L.dx ski + (post.map L.dx).sum))) ↔ L.dx ski = 0 from by
      constructor
      · intro h; linear_combination -h
      · intro h; rw [h, zero_add, zero_add]]

theorem duplicate_factor_ne (L : Lawful o q A) (pre post : List X) (ski r : X) {m pk : E}
    (hm : L.V m) (hpk : combinePks o ((pre ++ ski :: post).map (pkOf o)) = some pk)
    (hg : L.den o.generator ≠ 0) (hsk : L.dx ski ≠ 0) (hr : L.dx r ≠ 0) :
    ∃ m', jointDec o (factors o (pre ++ ski :: ski :: post) (encryptWith o pk m r))
      (encryptWith o pk m r) = some m' ∧ L.V m' ∧ m' ≠ m := by
  obtain ⟨res, h1, h2, _⟩ := joint_dec_general L r hm hpk
    (fs := pre ++ ski :: ski :: post) (by simp)
  refine ⟨res, h1, h2, ?_⟩
  rintro rfl
  exact (not_or.mpr ⟨hsk, hr⟩) ((duplicate_factor_eq_iff L pre post ski r hm hpk hg).mp h1)

end prime

/-! ### non-vacuity: p = 23, q = 11, g = 2; trustees 3, 7, 10; r = 5; m = 13 -/
section examples
open Strand.C15

/-- the concrete back-end specification the examples instantiate -/
noncomputable def L23 := natLawful P23 .bigint P23_safe

example : L23.V 13 := ⟨natValid_of_pow P23 13 (by norm_num [P23]), by show 13 < 23; norm_num⟩
example : L23.den (natOps P23 .bigint).generator ≠ 0 :=
  gen_den_ne_zero L23 (generator_ne_one P23 .bigint P23_safe)
example : L23.dx 7 ≠ 0 ∧ L23.dx 5 ≠ 0 := by
  constructor <;> (show ((_ : ℕ) : ZMod 11) ≠ 0) <;> decide
example : combinePks (natOps P23 .bigint) ([3, 7, 10].map (pkOf (natOps P23 .bigint))) = some 6 := by
  decide
example : combinePks (natOps P23 .bigint) ([10, 3, 7].map (pkOf (natOps P23 .bigint))) = some 6 := by
  decide
example : encryptWith (natOps P23 .bigint) 6 13 5 = ⟨3, 9⟩ := by decide
/-- all three factors: the plaintext -/
example : jointDec (natOps P23 .bigint) (factors (natOps P23 .bigint) [3, 7, 10] ⟨3, 9⟩) ⟨3, 9⟩
    = some 13 := by decide
/-- trustee 7 left out, trustee 7 twice: not the plaintext -/
example : jointDec (natOps P23 .bigint) (factors (natOps P23 .bigint) [3, 10] ⟨3, 9⟩) ⟨3, 9⟩
    ≠ some 13 := by decide
example : jointDec (natOps P23 .bigint) (factors (natOps P23 .bigint) [3, 7, 7, 10] ⟨3, 9⟩) ⟨3, 9⟩
    ≠ some 13 := by decide
/-- two ciphertexts (m = 13, r = 5 and m = 2, r = 4), position by position -/
example : jointDecMany (natOps P23 .bigint)
    ([3, 7, 10].map fun sk => (List.zipWith (encryptWith (natOps P23 .bigint) 6) [13, 2] [5, 4]).map
      (decryptionFactor (natOps P23 .bigint) sk))
    (List.zipWith (encryptWith (natOps P23 .bigint) 6) [13, 2] [5, 4]) = some [13, 2] := by decide
/-- the general theorems instantiated -/
example : jointDec (natOps P23 .bigint) (factors (natOps P23 .bigint) [3, 10]
    (encryptWith (natOps P23 .bigint) 6 13 5)) (encryptWith (natOps P23 .bigint) 6 13 5)
    ≠ some 13 := by
  have h7 : L23.dx 7 ≠ 0 := by show ((7 : ℕ) : ZMod 11) ≠ 0; decide
  have h5 : L23.dx 5 ≠ 0 := by show ((5 : ℕ) : ZMod 11) ≠ 0; decide
  have : Fact (Nat.Prime P23.q) := ⟨P23_safe.q_prime⟩
  exact omit_factor_ne L23 [3] [10] 7 5
    ⟨natValid_of_pow P23 13 (by norm_num [P23]), by show 13 < 23; norm_num⟩ (by decide)
    (gen_den_ne_zero L23 (generator_ne_one P23 .bigint P23_safe)) h7 h5

end examples
end Strand.C08
