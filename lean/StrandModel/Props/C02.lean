import StrandModel.Lemmas.Lawful
import StrandModel.Lemmas.ShufflePerm
import StrandModel.Props.C15
/-
C02 — a shuffle (`Shuffler::apply_permutation`, the data path of `gen_shuffle`) returns the
input ciphertexts rearranged by the permutation, each multiplied component-wise by an encryption
of the identity under the returned exponent of that input.  Hence the outputs decrypt to the
permuted multiset of the input plaintexts, and so does any cascade of shuffles.
Generic over every lawful back-end; every N ≥ 0; every permutation; every exponent tape.
-/
set_option linter.unusedSectionVars false
namespace Strand.C02
open Strand Strand.ShufflePerm

variable {E X : Type} {o : Ops E X} {q : ℕ} {A : Type} [AddCommGroup A] [Module (ZMod q) A]

/-- both components are group members (not necessarily in canonical form) -/
def CtValid (L : Lawful o q A) (c : Ciphertext E) : Prop := L.valid c.mhr ∧ L.valid c.gr

/-! ### 1. `apply_permutation`: what is returned, and when it panics -/

/-- For `perm` of length N with entries `< N`, N ciphertexts and at least N exponents on the
    tape: the call succeeds, consumes exactly the first N exponents `rs` and returns them,
    and `outs[k] = reenc pk cts[perm[k]] rs[perm[k]]`.  (`perm` need not be injective here.) -/
theorem apply_permutation_spec (pk : E) (perm : List Nat) (cts : List (Ciphertext E))
    (tape : List X) (N : Nat) (hp : perm.length = N) (hc : cts.length = N)
    (hr : ∀ p ∈ perm, p < N) (ht : N ≤ tape.length) :
    ∃ outs, applyPermutation o pk perm cts tape = .ok ((outs, tape.take N), tape.drop N) ∧
      ∃ hl : outs.length = N, ∀ k (hk : k < N),
        outs[k]'(by rw [hl]; exact hk) =
          reenc o pk
            (cts[perm[k]'(by rw [hp]; exact hk)]'(by
              rw [hc]; exact hr _ (List.getElem_mem _)))
            ((tape.take N)[perm[k]'(by rw [hp]; exact hk)]'(by
              rw [List.length_take, Nat.min_eq_left ht]; exact hr _ (List.getElem_mem _))) := by
  subst hc
  have hlen : (List.zipWith (reenc o pk) cts (tape.take cts.length)).length = cts.length := by
    rw [List.length_zipWith, List.length_take, Nat.min_eq_left ht, Nat.min_self]
  obtain ⟨outs, h1, hl, h2⟩ := mapOpt_getElem?_spec
    (List.zipWith (reenc o pk) cts (tape.take cts.length)) perm (by rw [hlen]; exact hr)
  refine ⟨outs, ?_, hl.trans hp, fun k hk => ?_⟩
  · unfold applyPermutation applyPermutationWith
    rw [if_neg (not_not.2 hp), if_neg (Nat.not_lt.2 ht)]
    simp only [h1]
  · rw [h2 k (by rw [hp]; exact hk), List.getElem_zipWith]

/-- the `assert_eq!(perm.len(), ciphertexts.len())` -/
theorem apply_permutation_length_panic (pk : E) (perm : List Nat) (cts : List (Ciphertext E))
    (tape : List X) (h : perm.length ≠ cts.length) :
    applyPermutation o pk perm cts tape = .error .panic := by
  unfold applyPermutation; rw [if_pos h]

/-- an entry `≥ N`: index out of bounds (the tape long enough, else the model stops earlier
    with the harness error `.tape`) -/
theorem apply_permutation_range_panic (pk : E) (perm : List Nat) (cts : List (Ciphertext E))
    (tape : List X) (hp : perm.length = cts.length) (ht : cts.length ≤ tape.length)
    (h : ∃ p ∈ perm, cts.length ≤ p) :
    applyPermutation o pk perm cts tape = .error .panic := by
  have hlen : (List.zipWith (reenc o pk) cts (tape.take cts.length)).length = cts.length := by
    rw [List.length_zipWith, List.length_take, Nat.min_eq_left ht, Nat.min_self]
  have h1 := mapOpt_getElem?_eq_none (List.zipWith (reenc o pk) cts (tape.take cts.length)) perm
    (by rw [hlen]; exact h)
  unfold applyPermutation applyPermutationWith
  rw [if_neg (not_not.2 hp), if_neg (Nat.not_lt.2 ht)]
  simp only [h1]

/-- the call never returns `Err`; with the lengths right and a long enough tape it succeeds
    iff every entry is in range -/
theorem apply_permutation_ok_iff (pk : E) (perm : List Nat) (cts : List (Ciphertext E))
    (tape : List X) (hp : perm.length = cts.length) (ht : cts.length ≤ tape.length) :
    (∃ r, applyPermutation o pk perm cts tape = .ok r) ↔ ∀ p ∈ perm, p < cts.length := by
  constructor
  · rintro ⟨r, hr⟩ p hpm
    by_contra hlt
    rw [apply_permutation_range_panic pk perm cts tape hp ht ⟨p, hpm, Nat.le_of_not_lt hlt⟩] at hr
    cases hr
  · intro h
    obtain ⟨outs, h1, _⟩ := apply_permutation_spec (o := o) pk perm cts tape cts.length hp rfl h ht
    exact ⟨_, h1⟩

/-! ### 2. re-encryption = product with an encryption of the identity -/

/-- component-wise, as equalities of canonical elements -/
theorem reenc_eq_mul_encryption_of_identity (L : Lawful o q A) {pk : E} {c : Ciphertext E} (r : X)
    (hpk : L.valid pk) (hc : L.valid c.mhr) :
    (reenc o pk c r).mhr = o.modp (o.mul c.mhr (encryptWith o pk o.identE r).mhr) ∧
    (reenc o pk c r).gr = o.modp (o.mul c.gr (encryptWith o pk o.identE r).gr) := by
  refine ⟨?_, rfl⟩
  have hpr := L.emodPow_valid r hpk
  have h1 := L.modp_valid (L.mul_valid L.ident_valid hpr)
  show o.modp (o.mul c.mhr (o.emodPow pk r))
    = o.modp (o.mul c.mhr (o.modp (o.mul o.identE (o.emodPow pk r))))
  apply L.den_inj (L.modp_valid (L.mul_valid hc hpr)) (L.modp_valid (L.mul_valid hc h1))
    (L.modp_canon (L.mul_valid hc hpr)) (L.modp_canon (L.mul_valid hc h1))
  rw [L.modp_mul_den hc hpr, L.modp_mul_den hc h1, L.modp_mul_den L.ident_valid hpr, L.ident_den,
    zero_add]

/-- as one equation between ciphertexts: `reenc pk c r = c · Enc_pk(1; r)` -/
theorem reenc_eq_ctMul (L : Lawful o q A) {pk : E} {c : Ciphertext E} (r : X)
    (hpk : L.valid pk) (hc : L.valid c.mhr) :
    reenc o pk c r = ctMul o c (encryptWith o pk o.identE r) := by
  obtain ⟨h1, h2⟩ := reenc_eq_mul_encryption_of_identity L r hpk hc
  show Ciphertext.mk _ _ = Ciphertext.mk _ _
  exact congrArg₂ Ciphertext.mk h1 h2

/-- the outputs of a shuffle are canonical group members -/
theorem reenc_V (L : Lawful o q A) {pk : E} {c : Ciphertext E} (r : X) (hpk : L.valid pk)
    (hc : CtValid L c) : L.V (reenc o pk c r).mhr ∧ L.V (reenc o pk c r).gr :=
  ⟨L.modp_mul_V hc.1 (L.emodPow_valid r hpk), L.modp_mul_V hc.2 (L.gmodPow_valid r)⟩

theorem reenc_valid (L : Lawful o q A) {pk : E} {c : Ciphertext E} (r : X) (hpk : L.valid pk)
    (hc : CtValid L c) : CtValid L (reenc o pk c r) :=
  ⟨(reenc_V L r hpk hc).1.1, (reenc_V L r hpk hc).2.1⟩

/-! ### 3. re-encryption does not change the plaintext -/

theorem reenc_decrypts (L : Lawful o q A) (sk r : X) {c : Ciphertext E} (hm : L.valid c.mhr)
    (hg : L.valid c.gr) : decrypt o sk (reenc o (pkOf o sk) c r) = decrypt o sk c := by
  have hpk := L.gmodPow_valid sk
  have hpr := L.emodPow_valid r hpk
  have hgr := L.gmodPow_valid r
  have h1 := L.modp_valid (L.mul_valid hm hpr)
  have h2 := L.modp_valid (L.mul_valid hg hgr)
  have h3 := L.emodPow_valid sk h2
  have h4 := L.emodPow_valid sk hg
  show o.modp (o.divp (o.modp (o.mul c.mhr (o.emodPow (o.gmodPow sk) r)))
      (o.emodPow (o.modp (o.mul c.gr (o.gmodPow r))) sk))
    = o.modp (o.divp c.mhr (o.emodPow c.gr sk))
  apply L.den_inj (L.modp_valid (L.divp_valid h1 h3)) (L.modp_valid (L.divp_valid hm h4))
    (L.modp_canon (L.divp_valid h1 h3)) (L.modp_canon (L.divp_valid hm h4))
  rw [L.modp_den (L.divp_valid h1 h3), L.modp_den (L.divp_valid hm h4), L.divp_den h1 h3,
    L.divp_den hm h4, L.modp_mul_den hm hpr, L.emodPow_den _ h2, L.modp_mul_den hg hgr,
    L.emodPow_den _ hpk, L.emodPow_den _ hg, L.gmodPow_den, L.gmodPow_den]
  module

/-! ### 4. the outputs are the inputs, permuted -/

/-- anything that re-encryption leaves unchanged is the same on `zipWith reenc cts rs` -/
theorem map_zipWith_reenc {β : Type} (L : Lawful o q A) (pk : E) (D : Ciphertext E → β)
    (hD : ∀ c r, CtValid L c → D (reenc o pk c r) = D c) (cts : List (Ciphertext E))
    (rs : List X) (hlen : cts.length ≤ rs.length) (hv : ∀ c ∈ cts, CtValid L c) :
    (List.zipWith (reenc o pk) cts rs).map D = cts.map D := by
  apply List.ext_getElem
  · rw [List.length_map, List.length_zipWith, List.length_map, Nat.min_eq_left hlen]
  · intro i h1 h2
    rw [List.getElem_map, List.getElem_zipWith, List.getElem_map, hD _ _ (hv _ (List.getElem_mem _))]

theorem zipWith_reenc_valid (L : Lawful o q A) {pk : E} (hpk : L.valid pk)
    (cts : List (Ciphertext E)) (rs : List X) (hv : ∀ c ∈ cts, CtValid L c) :
    ∀ c ∈ List.zipWith (reenc o pk) cts rs, CtValid L c := by
  intro c hc
  obtain ⟨i, hi, rfl⟩ := List.mem_iff_getElem.1 hc
  rw [List.getElem_zipWith]
  exact reenc_valid L _ hpk (hv _ (List.getElem_mem _))

/-- General form: for a true permutation `perm ~ range N`, a valid `pk` and valid inputs, the
    shuffle succeeds, its outputs are valid, and for EVERY observation `D` that re-encryption
    under `pk` leaves unchanged (decryption, threshold decryption, …) the observed outputs are
    a permutation (as lists with multiplicity) of the observed inputs. -/
theorem shuffle_invariant {β : Type} (L : Lawful o q A) {pk : E} (hpk : L.valid pk)
    (D : Ciphertext E → β) (hD : ∀ c r, CtValid L c → D (reenc o pk c r) = D c)
    (perm : List Nat) (cts : List (Ciphertext E)) (tape : List X) (N : Nat)
    (hperm : perm.Perm (List.range N)) (hc : cts.length = N) (ht : N ≤ tape.length)
    (hv : ∀ c ∈ cts, CtValid L c) :
    ∃ outs, applyPermutation o pk perm cts tape = .ok ((outs, tape.take N), tape.drop N) ∧
      outs.length = N ∧ (∀ c ∈ outs, CtValid L c) ∧ (outs.map D).Perm (cts.map D) := by
  subst hc
  have hlen : (List.zipWith (reenc o pk) cts (tape.take cts.length)).length = cts.length := by
    rw [List.length_zipWith, List.length_take, Nat.min_eq_left ht, Nat.min_self]
  obtain ⟨outs, h1, h2⟩ := mapOpt_getElem?_perm
    (l := List.zipWith (reenc o pk) cts (tape.take cts.length)) (perm := perm)
    (by rw [hlen]; exact hperm)
  refine ⟨outs, ?_, ?_, ?_, ?_⟩
  · unfold applyPermutation applyPermutationWith
    rw [if_neg (not_not.2 (perm_length hperm)), if_neg (Nat.not_lt.2 ht)]
    simp only [h1]
  · rw [h2.length_eq, hlen]
  · intro c hc
    exact zipWith_reenc_valid L hpk cts _ hv c (h2.mem_iff.1 hc)
  · have := h2.map D
    rwa [map_zipWith_reenc L pk D hD cts _
      (by rw [List.length_take, Nat.min_eq_left ht]) hv] at this

/-- Nothing dropped, duplicated or altered: the decryptions of the outputs are a permutation
    (with multiplicity — equal inputs included) of the decryptions of the inputs. -/
theorem shuffle_multiset (L : Lawful o q A) (sk : X) (perm : List Nat)
    (cts : List (Ciphertext E)) (tape : List X) (N : Nat)
    (hperm : perm.Perm (List.range N)) (hc : cts.length = N) (ht : N ≤ tape.length)
    (hv : ∀ c ∈ cts, CtValid L c) :
    ∃ outs, applyPermutation o (pkOf o sk) perm cts tape
        = .ok ((outs, tape.take N), tape.drop N) ∧
      outs.length = N ∧ (∀ c ∈ outs, CtValid L c) ∧
      (outs.map (decrypt o sk)).Perm (cts.map (decrypt o sk)) :=
  shuffle_invariant L (L.gmodPow_valid sk) (decrypt o sk)
    (fun _ r hc => reenc_decrypts L sk r hc.1 hc.2) perm cts tape N hperm hc ht hv

/-- position by position: output k decrypts to the plaintext of input `perm[k]` -/
theorem shuffle_pointwise (L : Lawful o q A) (sk : X) (perm : List Nat)
    (cts : List (Ciphertext E)) (tape : List X) (N : Nat) (hp : perm.length = N)
    (hc : cts.length = N) (hr : ∀ p ∈ perm, p < N) (ht : N ≤ tape.length)
    (hv : ∀ c ∈ cts, CtValid L c) :
    ∃ outs, applyPermutation o (pkOf o sk) perm cts tape
        = .ok ((outs, tape.take N), tape.drop N) ∧
      ∃ hl : outs.length = N, ∀ k (hk : k < N),
        decrypt o sk (outs[k]'(by rw [hl]; exact hk)) =
          decrypt o sk (cts[perm[k]'(by rw [hp]; exact hk)]'(by
              rw [hc]; exact hr _ (List.getElem_mem _))) := by
  obtain ⟨outs, h1, hl, h2⟩ := apply_permutation_spec (o := o) (pkOf o sk) perm cts tape N hp hc hr ht
  refine ⟨outs, h1, hl, fun k hk => ?_⟩
  have hcv := hv _ (List.getElem_mem (l := cts) (n := perm[k]'(by rw [hp]; exact hk))
    (by rw [hc]; exact hr _ (List.getElem_mem _)))
  rw [h2 k hk, reenc_decrypts L sk _ hcv.1 hcv.2]

/-! ### 5. a cascade of mixers -/

/-- successive shuffles under the same key, each mixer with its own permutation and its own
    exponent tape; the outputs of one are the inputs of the next -/
def cascade (o : Ops E X) (pk : E) :
    List (List Nat × List X) → List (Ciphertext E) → Res (List (Ciphertext E))
  | [], cts => .ok cts
  | (perm, tape) :: ms, cts =>
    match applyPermutation o pk perm cts tape with
    | .error e => .error e
    | .ok ((outs, _), _) => cascade o pk ms outs

theorem cascade_invariant {β : Type} (L : Lawful o q A) {pk : E} (hpk : L.valid pk)
    (D : Ciphertext E → β) (hD : ∀ c r, CtValid L c → D (reenc o pk c r) = D c) (N : Nat) :
    ∀ (ms : List (List Nat × List X)) (cts : List (Ciphertext E)),
      (∀ m ∈ ms, m.1.Perm (List.range N) ∧ N ≤ m.2.length) → cts.length = N →
      (∀ c ∈ cts, CtValid L c) →
      ∃ final, cascade o pk ms cts = .ok final ∧ final.length = N ∧
        (∀ c ∈ final, CtValid L c) ∧ (final.map D).Perm (cts.map D) := by
  intro ms
  induction ms with
  | nil => intro cts _ hc hv; exact ⟨cts, rfl, hc, hv, List.Perm.refl _⟩
  | cons m ms ih =>
    intro cts hms hc hv
    obtain ⟨perm, tape⟩ := m
    obtain ⟨hperm, ht⟩ := hms (perm, tape) List.mem_cons_self
    obtain ⟨outs, h1, h2, h3, h4⟩ :=
      shuffle_invariant L hpk D hD perm cts tape N hperm hc ht hv
    obtain ⟨final, g1, g2, g3, g4⟩ :=
      ih outs (fun m hm => hms m (List.mem_cons_of_mem _ hm)) h2 h3
    refine ⟨final, ?_, g2, g3, g4.trans h4⟩
    simp only [cascade, h1]
    exact g1

/-- any number of mixers, then decryption: the plaintexts, permuted -/
theorem cascade_multiset (L : Lawful o q A) (sk : X) (N : Nat) (ms : List (List Nat × List X))
    (cts : List (Ciphertext E))
    (hms : ∀ m ∈ ms, m.1.Perm (List.range N) ∧ N ≤ m.2.length) (hc : cts.length = N)
    (hv : ∀ c ∈ cts, CtValid L c) :
    ∃ final, cascade o (pkOf o sk) ms cts = .ok final ∧ final.length = N ∧
      (∀ c ∈ final, CtValid L c) ∧
      (final.map (decrypt o sk)).Perm (cts.map (decrypt o sk)) :=
  cascade_invariant L (L.gmodPow_valid sk) (decrypt o sk)
    (fun _ r hc => reenc_decrypts L sk r hc.1 hc.2) N ms cts hms hc hv

/-- Decryption by division by a factor, as every joint / threshold path does it
    (`divideByFactor c f = modp (c.mhr / f)`): if the public key denotes `s · g` and the factors
    supplied for a ciphertext and for its re-encryption denote `s · gr` resp. `s · gr'`
    (however they were combined from the trustees' shares), both quotients are equal. -/
theorem reenc_divideByFactor (L : Lawful o q A) {pk : E} (s : ZMod q) (hpk : L.valid pk)
    (hs : L.den pk = s • L.den o.generator) (r : X) {c : Ciphertext E} (hc : CtValid L c)
    {f f' : E} (hf : L.valid f) (hf' : L.valid f') (hfd : L.den f = s • L.den c.gr)
    (hfd' : L.den f' = s • L.den (reenc o pk c r).gr) :
    divideByFactor o (reenc o pk c r) f' = divideByFactor o c f := by
  have hpr := L.emodPow_valid r hpk
  have hgr := L.gmodPow_valid r
  have h1 := L.modp_valid (L.mul_valid hc.1 hpr)
  have hfd'' : L.den f' = s • L.den (o.modp (o.mul c.gr (o.gmodPow r))) := hfd'
  show o.modp (o.divp (o.modp (o.mul c.mhr (o.emodPow pk r))) f') = o.modp (o.divp c.mhr f)
  apply L.den_inj (L.modp_valid (L.divp_valid h1 hf')) (L.modp_valid (L.divp_valid hc.1 hf))
    (L.modp_canon (L.divp_valid h1 hf')) (L.modp_canon (L.divp_valid hc.1 hf))
  rw [L.modp_den (L.divp_valid h1 hf'), L.modp_den (L.divp_valid hc.1 hf), L.divp_den h1 hf',
    L.divp_den hc.1 hf, L.modp_mul_den hc.1 hpr, hfd'', hfd, L.modp_mul_den hc.2 hgr,
    L.emodPow_den _ hpk, hs, L.gmodPow_den]
  module

/-- any number of mixers, then threshold decryption: `F c` is the combined decryption factor
    the trustees produce for `c`, required only to be a group member denoting `s · c.gr`, where
    the election key denotes `s · g`.  The plaintexts, permuted. -/
theorem cascade_threshold (L : Lawful o q A) {pk : E} (s : ZMod q) (hpk : L.valid pk)
    (hs : L.den pk = s • L.den o.generator) (F : Ciphertext E → E)
    (hF : ∀ c, CtValid L c → L.valid (F c) ∧ L.den (F c) = s • L.den c.gr)
    (N : Nat) (ms : List (List Nat × List X)) (cts : List (Ciphertext E))
    (hms : ∀ m ∈ ms, m.1.Perm (List.range N) ∧ N ≤ m.2.length) (hc : cts.length = N)
    (hv : ∀ c ∈ cts, CtValid L c) :
    ∃ final, cascade o pk ms cts = .ok final ∧ final.length = N ∧
      (∀ c ∈ final, CtValid L c) ∧
      (final.map (fun c => divideByFactor o c (F c))).Perm
        (cts.map (fun c => divideByFactor o c (F c))) :=
  cascade_invariant L hpk (fun c => divideByFactor o c (F c))
    (fun c r hcv => reenc_divideByFactor L s hpk hs r hcv
      (hF c hcv).1 (hF _ (reenc_valid L r hpk hcv)).1 (hF c hcv).2
      (hF _ (reenc_valid L r hpk hcv)).2) N ms cts hms hc hv

/-- the hypotheses of `cascade_threshold` are met by a single holder of `sk`
    (`F = decryption_factor`), so they are not vacuous -/
theorem decryptionFactor_is_factor (L : Lawful o q A) (sk : X) :
    L.valid (pkOf o sk) ∧ L.den (pkOf o sk) = L.dx sk • L.den o.generator ∧
    ∀ c, CtValid L c → L.valid (decryptionFactor o sk c) ∧
      L.den (decryptionFactor o sk c) = L.dx sk • L.den c.gr :=
  ⟨L.gmodPow_valid sk, L.gmodPow_den sk,
    fun _ hc => ⟨L.emodPow_valid sk hc.2, L.emodPow_den sk hc.2⟩⟩

/-! ### 6. non-vacuity on the 23-element toy group (q = 11, g = 2) -/
section examples
open Strand.C15

noncomputable def L23 := natLawful P23 .bigint P23_safe
/-- sk = 3, pk = 2^3 = 8 -/
def o23 : Ops Nat Nat := natOps P23 .bigint
def cts23 : List (Ciphertext Nat) :=
  [encryptWith o23 8 13 5, encryptWith o23 8 2 4, encryptWith o23 8 13 7]

example : pkOf o23 3 = 8 := by decide
example : cts23 = [⟨1, 9⟩, ⟨4, 16⟩, ⟨18, 13⟩] := by decide
example : cts23.map (decrypt o23 3) = [13, 2, 13] := by decide
/-- N = 3, perm = [2,0,1], exponents 6, 1, 2 (a fourth one stays on the tape) -/
example : applyPermutation o23 8 [2, 0, 1] cts23 [6, 1, 2, 4]
    = .ok (([⟨2, 6⟩, ⟨13, 1⟩, ⟨9, 9⟩], [6, 1, 2]), [4]) := by decide
example : ([⟨2, 6⟩, ⟨13, 1⟩, ⟨9, 9⟩] : List (Ciphertext Nat)).map (decrypt o23 3) = [13, 13, 2] := by
  decide
example : reenc o23 8 ⟨18, 13⟩ 2 = ⟨2, 6⟩ ∧
    ctMul o23 ⟨18, 13⟩ (encryptWith o23 8 1 2) = ⟨2, 6⟩ := by decide
/-- the panics -/
example : applyPermutation o23 8 [1, 0] cts23 [6, 1, 2, 4] = .error .panic := by decide
example : applyPermutation o23 8 [3, 0, 1] cts23 [6, 1, 2, 4] = .error .panic := by decide
/-- a non-injective "permutation" is not rejected by `apply_permutation` itself: input 1 is
    dropped and input 0 duplicated (this is why `shuffle_multiset` asks for `perm ~ range N`) -/
example : (applyPermutation o23 8 [0, 0, 2] cts23 [6, 1, 2, 4]).toOption.map
    (fun r => r.1.1.map (decrypt o23 3)) = some [13, 13, 13] := by decide
/-- two mixers -/
example : cascade o23 8 [([2, 0, 1], [6, 1, 2, 4]), ([1, 2, 0], [10, 0, 3])] cts23
    = .ok [⟨13, 1⟩, ⟨8, 3⟩, ⟨6, 3⟩] := by decide
example : ([⟨13, 1⟩, ⟨8, 3⟩, ⟨6, 3⟩] : List (Ciphertext Nat)).map (decrypt o23 3) = [13, 2, 13] := by
  decide

theorem cts23_valid : ∀ c ∈ cts23, CtValid L23 c := by
  have hv : ∀ a : ℕ, a ^ 11 % 23 = 1 → L23.valid a := fun a h => natValid_of_pow P23 a h
  intro c hc
  have : c = ⟨1, 9⟩ ∨ c = ⟨4, 16⟩ ∨ c = ⟨18, 13⟩ := by
    simpa [show cts23 = [⟨1, 9⟩, ⟨4, 16⟩, ⟨18, 13⟩] by decide] using hc
  rcases this with rfl | rfl | rfl <;> exact ⟨hv _ (by norm_num), hv _ (by norm_num)⟩

/-- the general theorems instantiated -/
example : ∃ outs, applyPermutation o23 (pkOf o23 3) [2, 0, 1] cts23 [6, 1, 2, 4]
      = .ok ((outs, [6, 1, 2]), [4]) ∧ outs.length = 3 ∧ (∀ c ∈ outs, CtValid L23 c) ∧
      (outs.map (decrypt o23 3)).Perm (cts23.map (decrypt o23 3)) :=
  shuffle_multiset L23 3 [2, 0, 1] cts23 [6, 1, 2, 4] 3 (by decide) (by decide) (by decide)
    cts23_valid

example : ∃ final, cascade o23 (pkOf o23 3) [([2, 0, 1], [6, 1, 2, 4]), ([1, 2, 0], [10, 0, 3])]
      cts23 = .ok final ∧ final.length = 3 ∧ (∀ c ∈ final, CtValid L23 c) ∧
      (final.map (decrypt o23 3)).Perm (cts23.map (decrypt o23 3)) :=
  cascade_multiset L23 3 3 _ cts23 (by
    intro m hm
    simp only [List.mem_cons, List.not_mem_nil, or_false] at hm
    rcases hm with rfl | rfl <;> exact ⟨by decide, by decide⟩) (by decide) cts23_valid

end examples
end Strand.C02
