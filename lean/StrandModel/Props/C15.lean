import StrandModel.Lemmas.NatLawful
import StrandModel.Generated.Constants
import StrandModel.Props.ParamSets
import StrandModel.Props.Ristretto
/-
C15 — every back-end obeys the group / exponent laws; the multiplicative back-ends are
lawful for every safe-prime parameter set; the built-in constants satisfy the decidable part
of "safe-prime group" (kernel-checked on the literals regenerated from /repo on every run).
-/
set_option linter.unusedSectionVars false
namespace Strand.C15
open Strand

section generic
variable {E X : Type} {o : Ops E X} {q : ℕ} {A : Type} [AddCommGroup A] [Module (ZMod q) A]
variable (L : Lawful o q A)
include L

/-- a^(x+y) = a^x a^y -/
theorem pow_add {a : E} (x y : X) (ha : L.valid a) :
    o.emodPow a (o.modq (o.xadd x y)) = o.modp (o.mul (o.emodPow a x) (o.emodPow a y)) := by
  apply L.den_inj (L.emodPow_valid _ ha) (L.modp_valid (L.mul_valid (L.emodPow_valid _ ha)
    (L.emodPow_valid _ ha))) (L.emodPow_canon _ ha) (L.modp_canon (L.mul_valid
    (L.emodPow_valid _ ha) (L.emodPow_valid _ ha)))
  rw [L.emodPow_den _ ha, L.modp_mul_den (L.emodPow_valid _ ha) (L.emodPow_valid _ ha),
    L.emodPow_den _ ha, L.emodPow_den _ ha, L.modq_dx, L.xadd_dx]
  module

/-- (a^x)^y = a^(xy) -/
theorem pow_mul {a : E} (x y : X) (ha : L.valid a) :
    o.emodPow (o.emodPow a x) y = o.emodPow a (o.modq (o.xmul x y)) := by
  apply L.den_inj (L.emodPow_valid _ (L.emodPow_valid _ ha)) (L.emodPow_valid _ ha)
    (L.emodPow_canon _ (L.emodPow_valid _ ha)) (L.emodPow_canon _ ha)
  rw [L.emodPow_den _ (L.emodPow_valid _ ha), L.emodPow_den _ ha, L.emodPow_den _ ha, L.modq_dx,
    L.xmul_dx]
  module

/-- a^q = 1 (the exponent `q` itself, given as a machine integer) -/
theorem pow_order {a : E} (ha : L.valid a) : o.emodPow a (o.fromU64 q) = o.identE := by
  apply L.den_inj (L.emodPow_valid _ ha) L.ident_valid (L.emodPow_canon _ ha) L.ident_canon
  rw [L.emodPow_den _ ha, L.fromU64_dx, L.ident_den, ZMod.natCast_self, zero_smul]

/-- a^0 = 1, a^1 = a (canonical a) -/
theorem pow_zero {a : E} (ha : L.valid a) : o.emodPow a o.zeroX = o.identE := by
  apply L.den_inj (L.emodPow_valid _ ha) L.ident_valid (L.emodPow_canon _ ha) L.ident_canon
  rw [L.emodPow_den _ ha, L.zeroX_dx, L.ident_den, zero_smul]

theorem pow_one {a : E} (ha : L.V a) : o.emodPow a o.oneX = a := by
  apply L.den_inj (L.emodPow_valid _ ha.1) ha.1 (L.emodPow_canon _ ha.1) ha.2
  rw [L.emodPow_den _ ha.1, L.oneX_dx, one_smul]

/-- associativity, commutativity, identity, inverse and division of the reduced product -/
theorem mul_assoc {a b c : E} (ha : L.valid a) (hb : L.valid b) (hc : L.valid c) :
    o.modp (o.mul (o.modp (o.mul a b)) c) = o.modp (o.mul a (o.modp (o.mul b c))) := by
  have hab := L.modp_valid (L.mul_valid ha hb)
  have hbc := L.modp_valid (L.mul_valid hb hc)
  apply L.den_inj (L.modp_valid (L.mul_valid hab hc)) (L.modp_valid (L.mul_valid ha hbc))
    (L.modp_canon (L.mul_valid hab hc)) (L.modp_canon (L.mul_valid ha hbc))
  rw [L.modp_mul_den hab hc, L.modp_mul_den ha hbc, L.modp_mul_den ha hb, L.modp_mul_den hb hc]
  module

theorem mul_comm {a b : E} (ha : L.valid a) (hb : L.valid b) :
    o.modp (o.mul a b) = o.modp (o.mul b a) := by
  apply L.den_inj (L.modp_valid (L.mul_valid ha hb)) (L.modp_valid (L.mul_valid hb ha))
    (L.modp_canon (L.mul_valid ha hb)) (L.modp_canon (L.mul_valid hb ha))
  rw [L.modp_mul_den ha hb, L.modp_mul_den hb ha]
  module

theorem mul_ident {a : E} (ha : L.valid a) : o.modp (o.mul a o.identE) = o.modp a := by
  apply L.den_inj (L.modp_valid (L.mul_valid ha L.ident_valid)) (L.modp_valid ha)
    (L.modp_canon (L.mul_valid ha L.ident_valid)) (L.modp_canon ha)
  rw [L.modp_mul_den ha L.ident_valid, L.modp_den ha, L.ident_den, add_zero]

theorem mul_inv {a : E} (ha : L.valid a) : o.modp (o.mul a (o.invp a)) = o.identE := by
  apply L.den_inj (L.modp_valid (L.mul_valid ha (L.invp_valid ha))) L.ident_valid
    (L.modp_canon (L.mul_valid ha (L.invp_valid ha))) L.ident_canon
  rw [L.modp_mul_den ha (L.invp_valid ha), L.invp_den ha, L.ident_den, add_neg_cancel]

theorem div_mul_cancel {a b : E} (ha : L.valid a) (hb : L.valid b) :
    o.modp (o.mul (o.modp (o.divp a b)) b) = o.modp a := by
  have hd := L.modp_valid (L.divp_valid ha hb)
  apply L.den_inj (L.modp_valid (L.mul_valid hd hb)) (L.modp_valid ha)
    (L.modp_canon (L.mul_valid hd hb)) (L.modp_canon ha)
  rw [L.modp_mul_den hd hb, L.modp_den (L.divp_valid ha hb), L.divp_den ha hb, L.modp_den ha]
  module

/-- reduced results are canonical: equal group members compare (and hence serialise) equal -/
theorem canonical_eq_iff {a b : E} (ha : L.valid a) (hb : L.valid b) :
    o.modp a = o.modp b ↔ L.den a = L.den b := by
  rw [L.eq_iff (L.modp_V ha) (L.modp_V hb), L.modp_den ha, L.modp_den hb]

/-- the exponent ring: reduced sums, products, differences and inverses are those of Z_q -/
theorem xadd_comm (x y : X) : o.modq (o.xadd x y) = o.modq (o.xadd y x) := by
  apply L.dx_inj (L.modq_xcanon _) (L.modq_xcanon _)
  rw [L.modq_dx, L.modq_dx, L.xadd_dx, L.xadd_dx, add_comm]

theorem xmul_comm (x y : X) : o.modq (o.xmul x y) = o.modq (o.xmul y x) := by
  apply L.dx_inj (L.modq_xcanon _) (L.modq_xcanon _)
  rw [L.modq_dx, L.modq_dx, L.xmul_dx, L.xmul_dx, _root_.mul_comm]

theorem xmul_xadd (x y z : X) :
    o.modq (o.xmul x (o.xadd y z)) = o.modq (o.xadd (o.xmul x y) (o.xmul x z)) := by
  apply L.dx_inj (L.modq_xcanon _) (L.modq_xcanon _)
  simp only [L.modq_dx, L.xmul_dx, L.xadd_dx]; ring

theorem xadd_zero (x : X) : o.modq (o.xadd x o.zeroX) = o.modq x := by
  apply L.dx_inj (L.modq_xcanon _) (L.modq_xcanon _)
  rw [L.modq_dx, L.modq_dx, L.xadd_dx, L.zeroX_dx, add_zero]

theorem xmul_one (x : X) : o.modq (o.xmul x o.oneX) = o.modq x := by
  apply L.dx_inj (L.modq_xcanon _) (L.modq_xcanon _)
  rw [L.modq_dx, L.modq_dx, L.xmul_dx, L.oneX_dx, mul_one]

/-- modular subtraction undoes addition, including `x - x = 0` -/
theorem subMod_add {x y : X} (hx : L.xcanon x) (hy : L.xcanon y) :
    o.modq (o.xadd (o.subMod x y) y) = o.modq x := by
  apply L.dx_inj (L.modq_xcanon _) (L.modq_xcanon _)
  rw [L.modq_dx, L.modq_dx, L.xadd_dx, L.subMod_dx hx hy, sub_add_cancel]

theorem subMod_self {x : X} (hx : L.xcanon x) : L.dx (o.subMod x x) = 0 := by
  rw [L.subMod_dx hx hx, sub_self]

theorem xmul_invq {x : X} (hx : L.dx x ≠ 0) : o.modq (o.xmul (o.invq x) x) = o.modq o.oneX := by
  apply L.dx_inj (L.modq_xcanon _) (L.modq_xcanon _)
  rw [L.modq_dx, L.modq_dx, L.xmul_dx, L.invq_dx hx, L.oneX_dx]

end generic

/-! ### the multiplicative back-ends -/

/-- num-bigint and malachite, on EVERY safe-prime parameter set, satisfy the specification -/
theorem natOps_lawful (P : Params) (fl : Flavour) (h : SafePrimeGroup P) :
    Nonempty (Lawful (natOps P fl) P.q (NatA P)) := ⟨natLawful P fl h⟩

/-- the generator is not the identity -/
theorem generator_ne_one (P : Params) (fl : Flavour) (h : SafePrimeGroup P) :
    (natOps P fl).generator ≠ (natOps P fl).identE := by
  show P.g ≠ 1
  have := h.g_gt; omega

/-- `exp_sub_mod` is subtraction in Z_q on reduced operands, `a = b ↦ 0` included -/
theorem exp_sub_mod_eq (P : Params) (a b : Nat) (ha : a < P.q) (hb : b < P.q) :
    ((Nat'.subMod P a b : Nat) : Int) = ((a : Int) - b) % P.q := by
  unfold Nat'.subMod
  split
  · rename_i hgt
    rw [Nat.mod_eq_of_lt (by omega)]
    rw [Int.emod_eq_of_lt (by omega) (by omega)]
    omega
  · rename_i hle
    by_cases hab : a = b
    · subst hab
      simp
    · rw [Nat.mod_eq_of_lt (by omega)]
      have : ((a : Int) - b) % P.q = (a : Int) - b + P.q := by
        rw [← Int.add_emod_right, Int.emod_eq_of_lt (by omega) (by omega)]
      rw [this]; omega

theorem exp_sub_mod_lt (P : Params) (a b : Nat) (hq : 0 < P.q) : Nat'.subMod P a b < P.q := by
  unfold Nat'.subMod; split <;> exact Nat.mod_lt _ hq

/-! ### the built-in 2048-bit constants, as /repo defines them NOW -/

theorem builtin_p_eq : Generated.P = 2 * Generated.Q + 1 := by decide +kernel
theorem builtin_g_range : 1 < Generated.G ∧ Generated.G < Generated.P := by decide +kernel
theorem builtin_g_order : powm Generated.G Generated.Q Generated.P = 1 := by decide +kernel
theorem builtin_cofactor : Generated.COFACTOR * Generated.Q + 1 = Generated.P := by decide +kernel
theorem builtin_q_odd : Generated.Q % 2 = 1 := by decide +kernel

/-- so the built-in set is a safe-prime group as soon as P and Q are prime (NOT proved:
    no primality certificate for the two 2048-bit numbers can be produced offline) -/
theorem builtin_safe_prime_group (hp : Nat.Prime Generated.P) (hq : Nat.Prime Generated.Q) :
    SafePrimeGroup ⟨Generated.P, Generated.Q, Generated.G, Generated.COFACTOR⟩ where
  p_prime := hp
  q_prime := hq
  p_eq := builtin_p_eq
  g_gt := builtin_g_range.1
  g_lt := builtin_g_range.2
  g_order := builtin_g_order


/-! ### the parameter sets the correspondence harness runs on, and the Ristretto back-end -/

/-- every small and the 62-bit parameter set of the harness IS a safe-prime group (primality of the
    62-bit p and q by Pratt certificates, `Lemmas/PrattCerts.lean`): on these sets every theorem
    about the multiplicative back-ends applies without any unproved hypothesis -/
theorem harness_parameter_sets_safe : ∀ P ∈ ParamSets.all, SafePrimeGroup P := ParamSets.all_safe

theorem harness_parameter_sets_lawful (fl : Flavour) :
    ∀ P ∈ ParamSets.all, Nonempty (Lawful (natOps P fl) P.q (NatA P)) := ParamSets.all_lawful fl

/-- the order of the Ristretto group is prime (Pratt certificate, kernel-checked) -/
theorem ristretto_order_prime : Nat.Prime R255.ell := RistrettoReduction.ell_prime

/-- the exponent ring of the Ristretto model is `ZMod ℓ`: proved, not assumed -/
theorem ristretto_exponent_ring :
    ∃ X : LawfulExp ristrettoOps R255.ell, (∀ x, X.dx x = (x : ZMod R255.ell)) ∧
      (∀ x, X.xcanon x ↔ x < R255.ell) := RistrettoReduction.ristretto_exponent_ring_lawful

/-- for Ristretto ONLY the curve-group half of the specification remains an assumption -/
theorem ristretto_only_group_half_assumed {A : Type} [AddCommGroup A] [Module (ZMod R255.ell) A]
    (G : LawfulGrp ristrettoOps R255.ell A ristrettoLawfulExp.dx) :
    Nonempty (Lawful ristrettoOps R255.ell A) := ristretto_reduction G

/-! ### non-vacuity -/
def P23 : Params := ⟨23, 11, 2, 2⟩
theorem P23_safe : SafePrimeGroup P23 :=
  ⟨by norm_num [P23], by norm_num [P23], by norm_num [P23], by norm_num [P23], by norm_num [P23],
   by decide⟩
example : (natLawful P23 .bigint P23_safe).valid 13 := natValid_of_pow P23 13 (by norm_num [P23])
example : (natLawful P23 .malachite P23_safe).V 13 :=
  ⟨natValid_of_pow P23 13 (by norm_num [P23]), by show 13 < 23; norm_num⟩

end Strand.C15
