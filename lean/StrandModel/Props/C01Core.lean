import StrandModel.Props.C05Core
import StrandModel.Lemmas.Powm
import StrandModel.Lemmas.Encode
/-
C01 — ElGamal decrypt inverts encrypt for every key, message, randomness and back-end.
-/
set_option linter.unusedSectionVars false
namespace Strand.C01
open Strand

section generic
variable {E X : Type} [DecidableEq E] [DecidableEq X] {o : Ops E X} {q : ℕ} {A : Type}
  [AddCommGroup A] [Module (ZMod q) A]

/-- decryption inverts encryption: every secret key, every canonical member `m`, every
    randomness `r` (0, 1, q-1 are not special). -/
theorem decrypt_encrypt (L : Lawful o q A) (sk r : X) (m : E) (hm : L.V m) :
    decrypt o sk (encryptWith o (pkOf o sk) m r) = m := by
  have hpk := L.gmodPow_valid sk
  have hpkr := L.emodPow_valid r hpk
  have hgr := L.gmodPow_valid r
  have hgrs := L.emodPow_valid sk hgr
  have hmhr := L.modp_valid (L.mul_valid hm.1 hpkr)
  unfold decrypt encryptWith pkOf
  apply L.den_inj (L.modp_valid (L.divp_valid hmhr hgrs)) hm.1
    (L.modp_canon (L.divp_valid hmhr hgrs)) hm.2
  rw [L.modp_den (L.divp_valid hmhr hgrs), L.divp_den hmhr hgrs, L.modp_mul_den hm.1 hpkr,
    L.emodPow_den _ hpk, L.emodPow_den _ hgr, L.gmodPow_den, L.gmodPow_den]
  module

/-- exponential ElGamal: decryption yields the generator raised to the message -/
theorem decrypt_exponential (L : Lawful o q A) (sk r x : X) (tape : List X) :
    ∃ c, encryptExponential o (pkOf o sk) x (r :: tape) = some (c, tape) ∧
      decrypt o sk c = o.gmodPow x :=
  ⟨_, rfl, decrypt_encrypt L sk r _ (L.gmodPow_V x)⟩

/-- `encrypt` consumes exactly one draw and is `encrypt_with_randomness` on it -/
theorem encrypt_spec (pk m : E) (r : X) (tape : List X) :
    encrypt o pk m (r :: tape) = some (encryptWith o pk m r, tape) := rfl

/-- encryption with a proof of plaintext knowledge: the ciphertext is the encryption under the
    first draw, which is returned, it decrypts to `m`, and the proof verifies -/
theorem encrypt_and_pok_spec (L : Lawful o q A) (sk r n : X) (m : E) (label : Bytes)
    (tape : List X) (hm : L.V m) :
    ∃ c pf, encryptAndPok o (pkOf o sk) m label (r :: n :: tape) = some ((c, pf, r), tape) ∧
      c = encryptWith o (pkOf o sk) m r ∧ decrypt o sk c = m ∧
      encryptionPopkVerify o c.mhr c.gr pf label = true :=
  ⟨_, _, rfl, rfl, decrypt_encrypt L sk r m hm, C05.popk_complete L _ m r n label⟩

/-- the reduced component-wise product of two ciphertexts decrypts to the reduced product of
    their plaintexts (ciphertext components only need to be group members) -/
theorem hom_mul (L : Lawful o q A) (sk : X) (c₁ c₂ : Ciphertext E)
    (h₁ : L.valid c₁.mhr ∧ L.valid c₁.gr) (h₂ : L.valid c₂.mhr ∧ L.valid c₂.gr) :
    decrypt o sk (ctMul o c₁ c₂) = o.modp (o.mul (decrypt o sk c₁) (decrypt o sk c₂)) := by
  have e1 := L.emodPow_valid sk h₁.2
  have e2 := L.emodPow_valid sk h₂.2
  have d1 := L.divp_valid h₁.1 e1
  have d2 := L.divp_valid h₂.1 e2
  have pm := L.modp_valid (L.mul_valid h₁.1 h₂.1)
  have pg := L.modp_valid (L.mul_valid h₁.2 h₂.2)
  have epg := L.emodPow_valid sk pg
  unfold decrypt ctMul
  apply L.den_inj (L.modp_valid (L.divp_valid pm epg))
    (L.modp_valid (L.mul_valid (L.modp_valid d1) (L.modp_valid d2)))
    (L.modp_canon (L.divp_valid pm epg))
    (L.modp_canon (L.mul_valid (L.modp_valid d1) (L.modp_valid d2)))
  rw [L.modp_den (L.divp_valid pm epg), L.divp_den pm epg, L.modp_mul_den h₁.1 h₂.1,
    L.emodPow_den _ pg, L.modp_mul_den h₁.2 h₂.2,
    L.modp_mul_den (L.modp_valid d1) (L.modp_valid d2), L.modp_den d1, L.modp_den d2,
    L.divp_den h₁.1 e1, L.divp_den h₂.1 e2, L.emodPow_den _ h₁.2, L.emodPow_den _ h₂.2]
  module

/-- the same for the raw, unreduced `Element::mul` of the components -/
theorem hom_mul_unreduced (L : Lawful o q A) (sk : X) (c₁ c₂ : Ciphertext E)
    (h₁ : L.valid c₁.mhr ∧ L.valid c₁.gr) (h₂ : L.valid c₂.mhr ∧ L.valid c₂.gr) :
    decrypt o sk (ctMulRaw o c₁ c₂) = o.modp (o.mul (decrypt o sk c₁) (decrypt o sk c₂)) := by
  have e1 := L.emodPow_valid sk h₁.2
  have e2 := L.emodPow_valid sk h₂.2
  have d1 := L.divp_valid h₁.1 e1
  have d2 := L.divp_valid h₂.1 e2
  have pm := L.mul_valid h₁.1 h₂.1
  have pg := L.mul_valid h₁.2 h₂.2
  have epg := L.emodPow_valid sk pg
  unfold decrypt ctMulRaw
  apply L.den_inj (L.modp_valid (L.divp_valid pm epg))
    (L.modp_valid (L.mul_valid (L.modp_valid d1) (L.modp_valid d2)))
    (L.modp_canon (L.divp_valid pm epg))
    (L.modp_canon (L.mul_valid (L.modp_valid d1) (L.modp_valid d2)))
  rw [L.modp_den (L.divp_valid pm epg), L.divp_den pm epg, L.mul_den h₁.1 h₂.1,
    L.emodPow_den _ pg, L.mul_den h₁.2 h₂.2,
    L.modp_mul_den (L.modp_valid d1) (L.modp_valid d2), L.modp_den d1, L.modp_den d2,
    L.divp_den h₁.1 e1, L.divp_den h₂.1 e2, L.emodPow_den _ h₁.2, L.emodPow_den _ h₂.2]
  module

end generic

/-! ### the plaintext encoding of the multiplicative back-ends -/
section nat

/-- the ciphertext wire round trip (C12: `ciphertext_wire`), as a hypothesis of the transport theorem -/
def LawfulCodecCt (P : Params) (fl : Flavour) : Prop :=
  ∀ c : Ciphertext Nat, tryFromSlice (codecCt (natOps P fl)) ((codecCt (natOps P fl)).enc c) = some c

/-- `decode` inverts `encode` on the whole plaintext space; needs only `p = 2q+1` -/
theorem decode_encode (P : Params) (hp : P.p = 2 * P.q + 1) (m e : Nat)
    (h : Nat'.encode P m = some e) : Nat'.decode P e = m := by
  unfold Nat'.encode at h
  split at h
  · cases h
  · rename_i hm
    simp only at h
    split at h
    · cases h
    · split at h
      · -- residue branch: e = (m+1) % p = m+1 ≤ q-1
        injection h with h
        have : (m + 1) % P.p = m + 1 := Nat.mod_eq_of_lt (by omega)
        rw [this] at h; subst h
        unfold Nat'.decode
        have : ¬ (m + 1 > P.q) := by omega
        simp [this]
      · injection h with h
        have : (P.p - (m + 1)) % P.p = P.p - (m + 1) := Nat.mod_eq_of_lt (by omega)
        rw [this] at h; subst h
        unfold Nat'.decode
        have : P.p - (m + 1) > P.q := by omega
        simp only [this, if_true]
        omega

/-- THE round trip of the property for the multiplicative back-ends: for every safe-prime
    parameter set, every secret key, EVERY plaintext of the plaintext space `0 … q-2` and every
    randomness, encoding succeeds and decode ∘ decrypt ∘ encrypt ∘ encode is the identity. -/
theorem roundtrip_nat (P : Params) (fl : Flavour) (h : SafePrimeGroup P) (sk r m : Nat)
    (hm : m < P.q - 1) :
    ∃ e, Nat'.encode P m = some e ∧
      Nat'.decode P (decrypt (natOps P fl) sk
        (encryptWith (natOps P fl) (pkOf (natOps P fl) sk) e r)) = m := by
  obtain ⟨e, he⟩ := (encode_isSome_iff P h m).mpr hm
  obtain ⟨_, he2, he3⟩ := encode_valid' P h m e he
  refine ⟨e, he, ?_⟩
  rw [decrypt_encrypt (natLawful P fl h) sk r e ⟨he3, he2⟩]
  exact decode_encode P h.p_eq m e he

/-- the exponent transport either reports an error (exactly for x ≥ q-1) or round-trips -/
theorem transport_nat (P : Params) (fl : Flavour) (h : SafePrimeGroup P) (sk r x : Nat)
    (tape : List Nat) (hP : LawfulCodecCt P fl) :
    (x < P.q - 1 → ∃ bs, natEncryptExp P fl x (pkOf (natOps P fl) sk) (r :: tape) = some (some bs, tape)
        ∧ natDecryptExp P fl bs sk = some x) ∧
    (P.q - 1 ≤ x → natEncryptExp P fl x (pkOf (natOps P fl) sk) (r :: tape) = some (none, r :: tape)) := by
  constructor
  · intro hx
    obtain ⟨e, he⟩ := (encode_isSome_iff P h x).mpr hx
    obtain ⟨_, he2, he3⟩ := encode_valid' P h x e he
    refine ⟨(codecCt (natOps P fl)).enc (encryptWith (natOps P fl) (pkOf (natOps P fl) sk) e r),
      by simp [natEncryptExp, he], ?_⟩
    unfold natDecryptExp
    rw [hP _]
    simp only [Option.some.injEq]
    rw [decrypt_encrypt (natLawful P fl h) sk r e ⟨he3, he2⟩]
    exact decode_encode P h.p_eq x e he
  · intro hx
    simp [natEncryptExp, encode_none_of_ge P x hx]

/-! ### non-vacuity -/
def P23 : Params := ⟨23, 11, 2, 2⟩
theorem P23_safe : SafePrimeGroup P23 :=
  ⟨by norm_num [P23], by norm_num [P23], by norm_num [P23], by norm_num [P23], by norm_num [P23],
   by decide⟩
/-- sk = 7, the largest plaintext q-2 = 9, randomness 0 -/
example : ∃ e, Nat'.encode P23 9 = some e ∧ Nat'.decode P23 (decrypt (natOps P23 .bigint) 7
    (encryptWith (natOps P23 .bigint) (pkOf (natOps P23 .bigint) 7) e 0)) = 9 :=
  roundtrip_nat P23 .bigint P23_safe 7 0 9 (by norm_num [P23])
example : Nat'.decode P23 (decrypt (natOps P23 .malachite) 10
    (encryptWith (natOps P23 .malachite) (pkOf (natOps P23 .malachite) 10) 13 10)) = 9 := by decide

end nat
end Strand.C01
