import StrandModel.Lemmas.ShuffleComplete
import StrandModel.Props.C15
/-
C03 — completeness of the shuffle: for every number of ciphertexts N ≥ 1, every permutation
(identity, reversal and N = 1 included), every ciphertext list (repeated ciphertexts and identity
components included), every label and every lawful back-end, the proof `genProof` produces for
the output of `applyPermutation` is accepted by `checkProof` on the same inputs, outputs, public
key, generators and label.

Generic over the hash functions (`o.hash`, `o.hashToExp` are arbitrary) and over the random
tapes.  The proof goes through C04's characterisation of the verifier
(`check_accepts_iff`: accepted ⟺ lengths ∧ Terelius–Wikström equations) and shows that the honest
proof has the right lengths and satisfies every equation (`Lemmas/ShuffleComplete.lean`).
-/
set_option linter.unusedSectionVars false
namespace Strand.C03
open Strand

variable {E X : Type} [DecidableEq E] {o : Ops E X} {q : ℕ} {A : Type}
  [AddCommGroup A] [Module (ZMod q) A]

/-- **Completeness**, all N ≥ 1, every permutation of `0 … N-1`.  `tape1` feeds
`apply_permutation` (N draws), `tape2` feeds `gen_proof` (N for the permutation commitments,
N for the chain, 4 + N + N nonces). -/
theorem shuffle_complete (L : Lawful o q A) (gens : List E) (pk : E) (es : List (Ciphertext E))
    (perm : List Nat) (tape1 tape2 : List X) (label : Bytes)
    (hN : 0 < es.length) (hperm : perm.Perm (List.range es.length))
    (hgens : gens.length = es.length + 1) (hgv : ∀ g ∈ gens, L.V g) (hpk : L.V pk)
    (hes : ∀ c ∈ es, L.V c.mhr ∧ L.V c.gr)
    (ht1 : es.length ≤ tape1.length) (ht2 : 4 * es.length + 4 ≤ tape2.length) :
    ∃ eps rs rest1 pf rest2,
      applyPermutation o pk perm es tape1 = .ok ((eps, rs), rest1) ∧
      genProof o gens pk es eps rs perm label tape2 = .ok (pf, rest2) ∧
      checkProof o gens pk pf es eps label = true := by
  cases gens with
  | nil => simp at hgens
  | cons h0 hs =>
    exact shuffle_complete_cons L h0 hs pk es perm tape1 tape2 label hN hperm
      (by simpa using hgens) (hgv h0 (by simp)).1 (fun h hh => (hgv h (by simp [hh])).1) hpk.1
      (fun c hc => ⟨(hes c hc).1.1, (hes c hc).2.1⟩) ht1 ht2

/-- The same from group membership alone (inputs need not be in canonical form). -/
theorem shuffle_complete_valid (L : Lawful o q A) (gens : List E) (pk : E)
    (es : List (Ciphertext E)) (perm : List Nat) (tape1 tape2 : List X) (label : Bytes)
    (hN : 0 < es.length) (hperm : perm.Perm (List.range es.length))
    (hgens : gens.length = es.length + 1) (hgv : ∀ g ∈ gens, L.valid g) (hpk : L.valid pk)
    (hes : ∀ c ∈ es, L.valid c.mhr ∧ L.valid c.gr)
    (ht1 : es.length ≤ tape1.length) (ht2 : 4 * es.length + 4 ≤ tape2.length) :
    ∃ eps rs rest1 pf rest2,
      applyPermutation o pk perm es tape1 = .ok ((eps, rs), rest1) ∧
      genProof o gens pk es eps rs perm label tape2 = .ok (pf, rest2) ∧
      checkProof o gens pk pf es eps label = true := by
  cases gens with
  | nil => simp at hgens
  | cons h0 hs =>
    exact shuffle_complete_cons L h0 hs pk es perm tape1 tape2 label hN hperm
      (by simpa using hgens) (hgv h0 (by simp)) (fun h hh => hgv h (by simp [hh])) hpk hes ht1 ht2

/-- the identity permutation -/
theorem shuffle_complete_identity (L : Lawful o q A) (gens : List E) (pk : E)
    (es : List (Ciphertext E)) (tape1 tape2 : List X) (label : Bytes)
    (hN : 0 < es.length) (hgens : gens.length = es.length + 1) (hgv : ∀ g ∈ gens, L.V g)
    (hpk : L.V pk) (hes : ∀ c ∈ es, L.V c.mhr ∧ L.V c.gr)
    (ht1 : es.length ≤ tape1.length) (ht2 : 4 * es.length + 4 ≤ tape2.length) :
    ∃ eps rs rest1 pf rest2,
      applyPermutation o pk (List.range es.length) es tape1 = .ok ((eps, rs), rest1) ∧
      genProof o gens pk es eps rs (List.range es.length) label tape2 = .ok (pf, rest2) ∧
      checkProof o gens pk pf es eps label = true :=
  shuffle_complete L gens pk es _ tape1 tape2 label hN (List.Perm.refl _) hgens hgv hpk hes ht1 ht2

/-- the reversal `N-1, …, 0` -/
theorem shuffle_complete_reversal (L : Lawful o q A) (gens : List E) (pk : E)
    (es : List (Ciphertext E)) (tape1 tape2 : List X) (label : Bytes)
    (hN : 0 < es.length) (hgens : gens.length = es.length + 1) (hgv : ∀ g ∈ gens, L.V g)
    (hpk : L.V pk) (hes : ∀ c ∈ es, L.V c.mhr ∧ L.V c.gr)
    (ht1 : es.length ≤ tape1.length) (ht2 : 4 * es.length + 4 ≤ tape2.length) :
    ∃ eps rs rest1 pf rest2,
      applyPermutation o pk (List.range es.length).reverse es tape1 = .ok ((eps, rs), rest1) ∧
      genProof o gens pk es eps rs (List.range es.length).reverse label tape2 = .ok (pf, rest2) ∧
      checkProof o gens pk pf es eps label = true :=
  shuffle_complete L gens pk es _ tape1 tape2 label hN (List.reverse_perm _) hgens hgv hpk hes
    ht1 ht2

/-- a single ciphertext (N = 1: the only permutation is `[0]`) -/
theorem shuffle_complete_one (L : Lawful o q A) (h0 h1 pk : E) (e : Ciphertext E)
    (r : X) (tape1 : List X) (tape2 : List X) (label : Bytes)
    (hh0 : L.V h0) (hh1 : L.V h1) (hpk : L.V pk) (he : L.V e.mhr ∧ L.V e.gr)
    (ht2 : 8 ≤ tape2.length) :
    ∃ eps rs rest1 pf rest2,
      applyPermutation o pk [0] [e] (r :: tape1) = .ok ((eps, rs), rest1) ∧
      genProof o [h0, h1] pk [e] eps rs [0] label tape2 = .ok (pf, rest2) ∧
      checkProof o [h0, h1] pk pf [e] eps label = true :=
  shuffle_complete L [h0, h1] pk [e] [0] (r :: tape1) tape2 label (by simp)
    (by simp [List.range_succ]) rfl
    (by intro g hg; simp only [List.mem_cons, List.not_mem_nil, or_false] at hg
        rcases hg with rfl | rfl
        · exact hh0
        · exact hh1)
    hpk (by intro c hc; simp only [List.mem_cons, List.not_mem_nil, or_false] at hc
            rw [hc]; exact he)
    (by simp) (by simpa using ht2)

/-! ### non-vacuity: the hypotheses are satisfiable for N = 2 on the 23-element toy group (order-11
subgroup {1,2,3,4,6,8,9,12,13,16,18} of Z_23^*), with a repeated ciphertext, an identity
component and the transposition; hence an accepted proof EXISTS there, for the real SHA-512
challenges of `natOps`. -/
open Strand.C15

private theorem v23 (a : ℕ) (h : a ^ 11 % 23 = 1 := by norm_num) (h' : a < 23 := by norm_num) :
    (natLawful P23 .bigint P23_safe).V a :=
  ⟨natValid_of_pow P23 a h, h'⟩

def gensEx : List ℕ := [2, 3, 4]
def esEx : List (Ciphertext ℕ) := [⟨8, 9⟩, ⟨8, 9⟩]
def esEx' : List (Ciphertext ℕ) := [⟨1, 13⟩, ⟨16, 1⟩]

theorem gensEx_V : ∀ g ∈ gensEx, (natLawful P23 .bigint P23_safe).V g := by
  intro g hg
  simp only [gensEx, List.mem_cons, List.not_mem_nil, or_false] at hg
  rcases hg with rfl | rfl | rfl
  · exact v23 2
  · exact v23 3
  · exact v23 4

theorem esEx_V : ∀ c ∈ esEx, (natLawful P23 .bigint P23_safe).V c.mhr ∧
    (natLawful P23 .bigint P23_safe).V c.gr := by
  intro c hc
  simp only [esEx, List.mem_cons, List.not_mem_nil, or_false, or_self] at hc
  rw [hc]; exact ⟨v23 8, v23 9⟩

theorem esEx'_V : ∀ c ∈ esEx', (natLawful P23 .bigint P23_safe).V c.mhr ∧
    (natLawful P23 .bigint P23_safe).V c.gr := by
  intro c hc
  simp only [esEx', List.mem_cons, List.not_mem_nil, or_false] at hc
  rcases hc with rfl | rfl
  · exact ⟨v23 1, v23 13⟩
  · exact ⟨v23 16, v23 1⟩

/-- transposition, repeated ciphertexts -/
example (label : Bytes) : ∃ eps rs rest1 pf rest2,
    applyPermutation (natOps P23 .bigint) 6 [1, 0] esEx [5, 7] = .ok ((eps, rs), rest1) ∧
    genProof (natOps P23 .bigint) gensEx 6 esEx eps rs [1, 0] label
      [1, 2, 3, 4, 5, 6, 7, 8, 9, 10, 0, 1] = .ok (pf, rest2) ∧
    checkProof (natOps P23 .bigint) gensEx 6 pf esEx eps label = true :=
  shuffle_complete (natLawful P23 .bigint P23_safe) gensEx 6 esEx [1, 0] [5, 7]
    [1, 2, 3, 4, 5, 6, 7, 8, 9, 10, 0, 1] label (by simp [esEx])
    (List.Perm.swap 0 1 []) rfl gensEx_V (v23 6) esEx_V (by simp [esEx]) (by simp [esEx])

/-- identity permutation, ciphertexts with an identity component, zero randomness, malachite -/
example (label : Bytes) : ∃ eps rs rest1 pf rest2,
    applyPermutation (natOps P23 .malachite) 6 [0, 1] esEx' [0, 0] = .ok ((eps, rs), rest1) ∧
    genProof (natOps P23 .malachite) gensEx 6 esEx' eps rs [0, 1] label
      [0, 0, 0, 0, 0, 0, 0, 0, 0, 0, 0, 0] = .ok (pf, rest2) ∧
    checkProof (natOps P23 .malachite) gensEx 6 pf esEx' eps label = true :=
  shuffle_complete_valid (natLawful P23 .malachite P23_safe) gensEx 6 esEx' [0, 1] [0, 0]
    [0, 0, 0, 0, 0, 0, 0, 0, 0, 0, 0, 0] label (by simp [esEx'])
    (List.Perm.refl _) rfl (fun g hg => (gensEx_V g hg).1) (v23 6).1
    (fun c hc => ⟨(esEx'_V c hc).1.1, (esEx'_V c hc).2.1⟩) (by simp [esEx']) (by simp [esEx'])

end Strand.C03
