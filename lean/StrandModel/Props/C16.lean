import StrandModel.Generated.Tags
import StrandModel.Model.Generators
import StrandModel.Lemmas.Transcript
import StrandModel.Lemmas.NatLawful
import StrandModel.Props.C15
/-
C16 — the Fiat–Shamir challenges.

"Each challenge (Schnorr, Chaum-Pedersen, the shuffle's per-ciphertext challenges and its final
challenge) is a deterministic function of its transcript, equal to SHA-512 of the documented
transcript encoding reduced into the exponent ring, and independent of process, thread, hash-map
iteration order and build configuration.  Changing any one transcript item changes the
challenge, per-ciphertext challenges are pairwise distinct, and challenges carry the full entropy
of the hash."

WHAT IS PROVED HERE (the hash is an arbitrary function `o.hashToExp`, `o.hash`):

1. Function-hood (§1).  In the model every challenge IS a function of the listed items and of
   nothing else — `schnorrChallenge o g y t ctx = o.hashToExp (schnorrBytes o g y t ctx)` by
   definition (`challenge_eq`, `rfl`), the byte string being built by total, pure functions.
   Determinism and independence of process / thread / build configuration are exactly this: there
   is no other argument.  For the two `Nat` back-ends the function is
   `natOfBytes fl (sha512 bytes) % q` (`nat_…_challenge`, `rfl`): SHA-512 of the transcript, the
   WHOLE 64-byte digest read as an integer (LE for num-bigint, BE for malachite), reduced mod `q`.
2. Independence of the hash-map iteration order (§2).  The transcript is borsh of a
   `HashMap<String, Vec<u8>>`; borsh sorts by key.  `mapOfList` yields the key-sorted
   permutation of the entries whatever the insertion order (`order_independent`), `bytesLt` being
   a strict total order (`bytesLt_strict_total_order`).
3. Injectivity of every transcript encoding in every item (§3, §4): two transcripts with equal
   bytes have equal bases, public values, commitments, ciphertext vectors, keys, labels and
   position counters (`…_injective`).  So changing any one item changes THE INPUT of the hash.
   Side conditions: every serialised item is shorter than 2^32 bytes (`Short`; borsh writes a
   `u32` length — beyond it the encoding is genuinely not injective) and, to go from serialised
   items back to items, the items are wire-valid for a lawful codec.
4. The per-ciphertext hash inputs are pairwise distinct for positions below 2^64
   (`us_inputs_nodup`).
5. No truncation before the reduction (§5): `natOfBytes fl` is injective on byte strings of one
   length and bounded by `256^length`, so the integer that is reduced mod `q` determines all 64
   digest bytes.

WHAT IS NOT A THEOREM (and is not claimed): "different transcripts ⇒ different challenges",
"per-ciphertext challenges u_i are pairwise distinct", and "challenges carry the full entropy of
the hash".  These are properties of SHA-512 (collision resistance / random-oracle behaviour)
and of the size of `q` relative to 2^512; with `hashToExp` an arbitrary function they are false
(take a constant function).  The theorems below reduce each of them to a statement about the
hash alone: a repeated challenge exhibits two DIFFERENT inputs with the same `hashToExp` value
(`…_collision`).
-/
set_option linter.unusedSectionVars false
namespace Strand.C16
open Strand

variable {E X : Type} {o : Ops E X} {VE : E → Prop}

/-! ### 1. each challenge is a function of its transcript: the documented encoding, hashed -/

/-- Schnorr: `hash_to_exp` of borsh of `{g, public, commitment, context}`.  (Determinism is
    function-hood: the right-hand side mentions the four items and nothing else.) -/
theorem schnorr_challenge_eq (g y t : E) (ctx : Bytes) :
    schnorrChallenge o g y t ctx
      = o.hashToExp (encMap [(tag "g", o.serE g), (tag "public", o.serE y),
          (tag "commitment", o.serE t), (tag "context", ctx)]) := rfl

/-- Chaum-Pedersen: `hash_to_exp` of borsh of
    `{g1, g2, public1, public2, commitment1, commitment2, context}` -/
theorem cp_challenge_eq (g1 g2 y1 y2 t1 t2 : E) (ctx : Bytes) :
    cpChallenge o g1 g2 y1 y2 t1 t2 ctx
      = o.hashToExp (encMap [(tag "g1", o.serE g1), (tag "g2", o.serE g2),
          (tag "public1", o.serE y1), (tag "public2", o.serE y2), (tag "commitment1", o.serE t1),
          (tag "commitment2", o.serE t2), (tag "context", ctx)]) := rfl

/-- the two contexts: `{label}` and `{mhr, label}` -/
theorem ctx_eq (mhr : E) (label : Bytes) :
    ctxLabel label = encMap [(tag "label", label)] ∧
    ctxMhr o mhr label = encMap [(tag "mhr", o.serE mhr), (tag "label", encBytesVec label)] :=
  ⟨rfl, rfl⟩

/-- the shuffle's final challenge: twelve items -/
theorem shuffle_challenge_eq (es eps : List (Ciphertext E)) (cs chs : List E) (pk : E)
    (t : Commitments E) (label : Bytes) :
    shuffleChallenge o es eps cs chs pk t label
      = o.hashToExp (shuffleChallengeBytes o es eps cs chs pk t label) := rfl

/-- the shuffle's per-ciphertext challenges: `u_i = hash_to_exp {prefix: H(prefix bytes),
    counter: i}` for `i = 0 … n-1`, in order -/
theorem shuffle_us_eq (es eps : List (Ciphertext E)) (cs : List E) (n : Nat) (label : Bytes) :
    shuffleUs o es eps cs n label
      = (List.range n).map fun i =>
          o.hashToExp (usInput (o.hash (usPrefixBytes o es eps cs label)) i) := rfl

theorem shuffle_us_length (es eps : List (Ciphertext E)) (cs : List E) (n : Nat) (label : Bytes) :
    (shuffleUs o es eps cs n label).length = n := by
  simp [shuffleUs]

theorem shuffle_us_getElem (es eps : List (Ciphertext E)) (cs : List E) (n : Nat) (label : Bytes)
    (i : Nat) (hi : i < (shuffleUs o es eps cs n label).length) :
    (shuffleUs o es eps cs n label)[i]
      = o.hashToExp (usInput (o.hash (usPrefixBytes o es eps cs label)) i) := by
  simp [shuffleUs]

/-- the `u_i` do not depend on how many of them are computed -/
theorem shuffle_us_prefix (es eps : List (Ciphertext E)) (cs : List E) (n m : Nat) (label : Bytes)
    (h : n ≤ m) :
    shuffleUs o es eps cs n label = (shuffleUs o es eps cs m label).take n := by
  simp only [shuffleUs, ← List.map_take, List.take_range, Nat.min_eq_left h]

/-- the multiplicative back-ends: `hash_to_exp` is SHA-512, the whole digest as an integer,
    reduced mod `q` (no truncation before the reduction) -/
theorem hashToExp_no_truncation (P : Params) (fl : Flavour) (bs : Bytes) :
    (natOps P fl).hashToExp bs = natOfBytes fl (sha512 bs) % P.q := rfl

theorem nat_hash (P : Params) (fl : Flavour) : (natOps P fl).hash = sha512 := rfl

theorem nat_schnorr_challenge (P : Params) (fl : Flavour) (g y t : Nat) (ctx : Bytes) :
    schnorrChallenge (natOps P fl) g y t ctx
      = natOfBytes fl (sha512 (schnorrBytes (natOps P fl) g y t ctx)) % P.q := rfl

theorem nat_cp_challenge (P : Params) (fl : Flavour) (g1 g2 y1 y2 t1 t2 : Nat) (ctx : Bytes) :
    cpChallenge (natOps P fl) g1 g2 y1 y2 t1 t2 ctx
      = natOfBytes fl (sha512 (cpBytes (natOps P fl) g1 g2 y1 y2 t1 t2 ctx)) % P.q := rfl

theorem nat_shuffle_challenge (P : Params) (fl : Flavour) (es eps : List (Ciphertext Nat))
    (cs chs : List Nat) (pk : Nat) (t : Commitments Nat) (label : Bytes) :
    shuffleChallenge (natOps P fl) es eps cs chs pk t label
      = natOfBytes fl
          (sha512 (shuffleChallengeBytes (natOps P fl) es eps cs chs pk t label)) % P.q := rfl

theorem nat_shuffle_us (P : Params) (fl : Flavour) (es eps : List (Ciphertext Nat))
    (cs : List Nat) (n : Nat) (label : Bytes) :
    shuffleUs (natOps P fl) es eps cs n label
      = (List.range n).map fun i => natOfBytes fl
          (sha512 (usInput (sha512 (usPrefixBytes (natOps P fl) es eps cs label)) i)) % P.q := rfl

/-- the challenge is a canonical exponent -/
theorem natHashToExp_lt (P : Params) (fl : Flavour) (bs : Bytes) (hq : 0 < P.q) :
    natHashToExp P fl bs < P.q := Nat.mod_lt _ hq

/-- "reduced into the exponent ring": in `Z_q` the challenge is the class of the digest integer -/
theorem nat_challenge_dx (P : Params) (fl : Flavour) (h : SafePrimeGroup P) (bs : Bytes) :
    (natLawful P fl h).dx ((natOps P fl).hashToExp bs)
      = ((natOfBytes fl (sha512 bs) : ℕ) : ZMod P.q) :=
  ZMod.natCast_mod _ _

/-! ### 2. independence of the hash-map iteration order -/

/-- the key order of borsh's `HashMap` serialisation is a strict total order -/
theorem bytesLt_strict_total_order :
    (∀ a : Bytes, bytesLt a a = false) ∧
    (∀ a b c : Bytes, bytesLt a b = true → bytesLt b c = true → bytesLt a c = true) ∧
    (∀ a b : Bytes, bytesLt a b = true ∨ a = b ∨ bytesLt b a = true) :=
  ⟨bytesLt_irrefl, fun _ _ _ => bytesLt_trans, bytesLt_total⟩

/-- what is serialised has strictly ascending keys, whatever was inserted in whatever order -/
theorem mapOfList_sorted (entries : List (Bytes × Bytes)) :
    (mapOfList entries).Pairwise fun a b => bytesLt a.1 b.1 = true :=
  mapOfList_keysSorted entries

/-- … and, the keys being distinct, consists of exactly the inserted entries -/
theorem mapOfList_perm {entries : List (Bytes × Bytes)} (h : (entries.map Prod.fst).Nodup) :
    (mapOfList entries).Perm entries := Strand.mapOfList_perm h

/-- **insertion / iteration order is irrelevant** -/
theorem mapOfList_perm_eq {entries entries' : List (Bytes × Bytes)}
    (h : (entries.map Prod.fst).Nodup) (hp : entries.Perm entries') :
    mapOfList entries = mapOfList entries' := mapOfList_eq_of_perm h hp

theorem order_independent {entries entries' : List (Bytes × Bytes)}
    (h : (entries.map Prod.fst).Nodup) (hp : entries.Perm entries') :
    encMap entries = encMap entries' := encMap_eq_of_perm h hp

/-- the key sets of all seven maps consist of distinct keys, so `order_independent` applies to
    each of them -/
theorem transcript_keys_distinct :
    schnorrKeys.Nodup ∧ cpKeys.Nodup ∧ ctxLabelKeys.Nodup ∧ ctxMhrKeys.Nodup ∧
      usPrefixKeys.Nodup ∧ usInputKeys.Nodup ∧ shuffleKeys.Nodup :=
  ⟨schnorrKeys_good.nodup, cpKeys_good.nodup, ctxLabelKeys_good.nodup, ctxMhrKeys_good.nodup,
   usPrefixKeys_good.nodup, usInputKeys_good.nodup, shuffleKeys_good.nodup⟩

/-- Schnorr transcript: any enumeration order of the four entries gives the same bytes -/
theorem schnorrBytes_order_independent (g y t : E) (ctx : Bytes)
    {entries' : List (Bytes × Bytes)}
    (hp : List.Perm [(tag "g", o.serE g), (tag "public", o.serE y),
      (tag "commitment", o.serE t), (tag "context", ctx)] entries') :
    schnorrBytes o g y t ctx = encMap entries' :=
  encMap_eq_of_perm (es := schnorrKeys.zip (schnorrItems o g y t ctx))
    (by rw [map_fst_zip (ks := schnorrKeys) (vs := schnorrItems o g y t ctx) rfl]
        exact schnorrKeys_good.nodup) hp

theorem cpBytes_order_independent (g1 g2 y1 y2 t1 t2 : E) (ctx : Bytes)
    {entries' : List (Bytes × Bytes)}
    (hp : List.Perm (cpKeys.zip (cpItems o g1 g2 y1 y2 t1 t2 ctx)) entries') :
    cpBytes o g1 g2 y1 y2 t1 t2 ctx = encMap entries' :=
  encMap_eq_of_perm (es := cpKeys.zip (cpItems o g1 g2 y1 y2 t1 t2 ctx))
    (by rw [map_fst_zip (ks := cpKeys) (vs := cpItems o g1 g2 y1 y2 t1 t2 ctx) rfl]
        exact cpKeys_good.nodup) hp

theorem shuffleChallengeBytes_order_independent (es eps : List (Ciphertext E)) (cs chs : List E)
    (pk : E) (t : Commitments E) (label : Bytes) {entries' : List (Bytes × Bytes)}
    (hp : List.Perm (shuffleKeys.zip (shuffleItems o es eps cs chs pk t label)) entries') :
    shuffleChallengeBytes o es eps cs chs pk t label = encMap entries' :=
  encMap_eq_of_perm (es := shuffleKeys.zip (shuffleItems o es eps cs chs pk t label))
    (by rw [map_fst_zip (ks := shuffleKeys) (vs := shuffleItems o es eps cs chs pk t label) rfl]
        exact shuffleKeys_good.nodup) hp

theorem usPrefixBytes_order_independent (es eps : List (Ciphertext E)) (cs : List E)
    (label : Bytes) {entries' : List (Bytes × Bytes)}
    (hp : List.Perm (usPrefixKeys.zip (usPrefixItems o es eps cs label)) entries') :
    usPrefixBytes o es eps cs label = encMap entries' :=
  encMap_eq_of_perm (es := usPrefixKeys.zip (usPrefixItems o es eps cs label))
    (by rw [map_fst_zip (ks := usPrefixKeys) (vs := usPrefixItems o es eps cs label) rfl]
        exact usPrefixKeys_good.nodup) hp

theorem usInput_order_independent (h : Bytes) (i : Nat) :
    usInput h i = encMap [(tag "counter", u64le i), (tag "prefix", h)] :=
  encMap_eq_of_perm (es := usInputKeys.zip [h, u64le i])
    (by rw [map_fst_zip (ks := usInputKeys) (vs := [h, u64le i]) rfl]
        exact usInputKeys_good.nodup) (List.Perm.swap ..)

/-- the documented byte layout of the Schnorr transcript: count 4, then the entries in the
    order commitment, context, g, public, each as two `Vec<u8>` -/
theorem schnorrBytes_layout (g y t : E) (ctx : Bytes) :
    schnorrBytes o g y t ctx
      = u32le 4
        ++ (encBytesVec (tag "commitment") ++ encBytesVec (o.serE t))
        ++ (encBytesVec (tag "context") ++ encBytesVec ctx)
        ++ (encBytesVec (tag "g") ++ encBytesVec (o.serE g))
        ++ (encBytesVec (tag "public") ++ encBytesVec (o.serE y)) := by
  have : mapOfList [(tag "g", o.serE g), (tag "public", o.serE y), (tag "commitment", o.serE t),
      (tag "context", ctx)]
      = [(tag "commitment", o.serE t), (tag "context", ctx), (tag "g", o.serE g),
         (tag "public", o.serE y)] := rfl
  simp only [schnorrBytes, encMap, this, encSortedMap, List.flatMap_cons, List.flatMap_nil,
    List.length_cons, List.length_nil, List.append_nil, List.append_assoc]

/-! ### 3. the encodings are injective -/

/-- borsh of a map is injective on maps whose keys, values and size fit `u32` -/
theorem encSortedMap_injective {m m' : List (Bytes × Bytes)} (hm : ShortMap m) (hm' : ShortMap m')
    (h : encSortedMap m = encSortedMap m') : m = m' := Strand.encSortedMap_injective hm hm' h

/-- over a fixed list of distinct keys, the map encoding is injective in the list of values -/
theorem encMap_zip_injective {ks vs vs' : List Bytes} (hk : ks.Nodup) (hks : AllShort ks)
    (hkl : ks.length < 2 ^ 32) (hl : vs.length = ks.length) (hl' : vs'.length = ks.length)
    (hv : AllShort vs) (hv' : AllShort vs') (h : encMap (ks.zip vs) = encMap (ks.zip vs')) :
    vs = vs' := Strand.encMap_zip_injective hk hks hkl hl hl' hv hv' h

/-- Schnorr, serialised items -/
theorem schnorrBytes_injective {g y t g' y' t' : E} {ctx ctx' : Bytes}
    (hs : AllShort [o.serE g, o.serE y, o.serE t, ctx])
    (hs' : AllShort [o.serE g', o.serE y', o.serE t', ctx'])
    (h : schnorrBytes o g y t ctx = schnorrBytes o g' y' t' ctx') :
    o.serE g = o.serE g' ∧ o.serE y = o.serE y' ∧ o.serE t = o.serE t' ∧ ctx = ctx' :=
  Strand.schnorrBytes_injective hs hs' h

/-- Schnorr, items: base, public value, commitment, context -/
theorem schnorr_transcript_injective (hE : LawfulCodec o.codecE VE) {g y t g' y' t' : E}
    {ctx ctx' : Bytes} (hv : VE g ∧ VE y ∧ VE t) (hv' : VE g' ∧ VE y' ∧ VE t')
    (hs : AllShort [o.serE g, o.serE y, o.serE t, ctx])
    (hs' : AllShort [o.serE g', o.serE y', o.serE t', ctx'])
    (h : schnorrBytes o g y t ctx = schnorrBytes o g' y' t' ctx') :
    g = g' ∧ y = y' ∧ t = t' ∧ ctx = ctx' := by
  obtain ⟨h1, h2, h3, h4⟩ := Strand.schnorrBytes_injective hs hs' h
  exact ⟨serE_injective hE hv.1 hv'.1 h1, serE_injective hE hv.2.1 hv'.2.1 h2,
    serE_injective hE hv.2.2 hv'.2.2 h3, h4⟩

/-- the label context -/
theorem ctxLabel_injective {l l' : Bytes} (hs : Short l) (hs' : Short l')
    (h : ctxLabel l = ctxLabel l') : l = l' := Strand.ctxLabel_injective hs hs' h

/-- the ciphertext-bound context, serialised -/
theorem ctxMhr_injective {m m' : E} {l l' : Bytes}
    (hs : AllShort [o.serE m, encBytesVec l]) (hs' : AllShort [o.serE m', encBytesVec l'])
    (h : ctxMhr o m l = ctxMhr o m' l') : o.serE m = o.serE m' ∧ l = l' :=
  Strand.ctxMhr_injective hs hs' h

theorem ctxMhr_injective' (hE : LawfulCodec o.codecE VE) {m m' : E} {l l' : Bytes} (hv : VE m)
    (hv' : VE m') (hs : AllShort [o.serE m, encBytesVec l])
    (hs' : AllShort [o.serE m', encBytesVec l'])
    (h : ctxMhr o m l = ctxMhr o m' l') : m = m' ∧ l = l' := by
  obtain ⟨h1, h2⟩ := Strand.ctxMhr_injective hs hs' h
  exact ⟨serE_injective hE hv hv' h1, h2⟩

/-- a `{label}` context is never a `{mhr, label}` context -/
theorem ctxLabel_ne_ctxMhr {m : E} {l l' : Bytes} (hs : Short l)
    (hs' : AllShort [o.serE m, encBytesVec l']) : ctxLabel l ≠ ctxMhr o m l' :=
  Strand.ctxLabel_ne_ctxMhr hs hs'

/-- sizes, to discharge `Short` for the contexts -/
theorem ctx_length (m : E) (l : Bytes) :
    (ctxLabel l).length = 17 + l.length ∧
    (ctxMhr o m l).length = 32 + (o.serE m).length + l.length :=
  ⟨ctxLabel_length l, ctxMhr_length o m l⟩

/-- Chaum-Pedersen, serialised items -/
theorem cpBytes_injective {g1 g2 y1 y2 t1 t2 g1' g2' y1' y2' t1' t2' : E} {ctx ctx' : Bytes}
    (hs : AllShort [o.serE g1, o.serE g2, o.serE y1, o.serE y2, o.serE t1, o.serE t2, ctx])
    (hs' : AllShort [o.serE g1', o.serE g2', o.serE y1', o.serE y2', o.serE t1', o.serE t2', ctx'])
    (h : cpBytes o g1 g2 y1 y2 t1 t2 ctx = cpBytes o g1' g2' y1' y2' t1' t2' ctx') :
    o.serE g1 = o.serE g1' ∧ o.serE g2 = o.serE g2' ∧ o.serE y1 = o.serE y1' ∧
      o.serE y2 = o.serE y2' ∧ o.serE t1 = o.serE t1' ∧ o.serE t2 = o.serE t2' ∧ ctx = ctx' :=
  Strand.cpBytes_injective hs hs' h

/-- Chaum-Pedersen, items: both bases, both public values, both commitments, context -/
theorem cp_transcript_injective (hE : LawfulCodec o.codecE VE)
    {g1 g2 y1 y2 t1 t2 g1' g2' y1' y2' t1' t2' : E} {ctx ctx' : Bytes}
    (hv : VE g1 ∧ VE g2 ∧ VE y1 ∧ VE y2 ∧ VE t1 ∧ VE t2)
    (hv' : VE g1' ∧ VE g2' ∧ VE y1' ∧ VE y2' ∧ VE t1' ∧ VE t2')
    (hs : AllShort [o.serE g1, o.serE g2, o.serE y1, o.serE y2, o.serE t1, o.serE t2, ctx])
    (hs' : AllShort [o.serE g1', o.serE g2', o.serE y1', o.serE y2', o.serE t1', o.serE t2', ctx'])
    (h : cpBytes o g1 g2 y1 y2 t1 t2 ctx = cpBytes o g1' g2' y1' y2' t1' t2' ctx') :
    g1 = g1' ∧ g2 = g2' ∧ y1 = y1' ∧ y2 = y2' ∧ t1 = t1' ∧ t2 = t2' ∧ ctx = ctx' := by
  obtain ⟨h1, h2, h3, h4, h5, h6, h7⟩ := Strand.cpBytes_injective hs hs' h
  obtain ⟨v1, v2, v3, v4, v5, v6⟩ := hv
  obtain ⟨w1, w2, w3, w4, w5, w6⟩ := hv'
  exact ⟨serE_injective hE v1 w1 h1, serE_injective hE v2 w2 h2, serE_injective hE v3 w3 h3,
    serE_injective hE v4 w4 h4, serE_injective hE v5 w5 h5, serE_injective hE v6 w6 h6, h7⟩

/-- the shuffle's prefix, serialised vectors -/
theorem usPrefixBytes_injective {es eps es' eps' : List (Ciphertext E)} {cs cs' : List E}
    {l l' : Bytes}
    (hs : AllShort [(vecC o).enc es, (vecC o).enc eps, (vecE o).enc cs, encBytesVec l])
    (hs' : AllShort [(vecC o).enc es', (vecC o).enc eps', (vecE o).enc cs', encBytesVec l'])
    (h : usPrefixBytes o es eps cs l = usPrefixBytes o es' eps' cs' l') :
    (vecC o).enc es = (vecC o).enc es' ∧ (vecC o).enc eps = (vecC o).enc eps' ∧
      (vecE o).enc cs = (vecE o).enc cs' ∧ l = l' :=
  Strand.usPrefixBytes_injective hs hs' h

/-- the shuffle's prefix, items: input ciphertexts, output ciphertexts, permutation commitments,
    label -/
theorem us_prefix_injective (hE : LawfulCodec o.codecE VE)
    {es eps es' eps' : List (Ciphertext E)} {cs cs' : List E} {l l' : Bytes}
    (hv : NestedOK (codecCt o) (VCt VE) es ∧ NestedOK (codecCt o) (VCt VE) eps ∧
      NestedOK o.codecE VE cs)
    (hv' : NestedOK (codecCt o) (VCt VE) es' ∧ NestedOK (codecCt o) (VCt VE) eps' ∧
      NestedOK o.codecE VE cs')
    (hs : AllShort [(vecC o).enc es, (vecC o).enc eps, (vecE o).enc cs, encBytesVec l])
    (hs' : AllShort [(vecC o).enc es', (vecC o).enc eps', (vecE o).enc cs', encBytesVec l'])
    (h : usPrefixBytes o es eps cs l = usPrefixBytes o es' eps' cs' l') :
    es = es' ∧ eps = eps' ∧ cs = cs' ∧ l = l' := by
  obtain ⟨h1, h2, h3, h4⟩ := Strand.usPrefixBytes_injective hs hs' h
  exact ⟨vecC_enc_injective hE hv.1 hv'.1 h1, vecC_enc_injective hE hv.2.1 hv'.2.1 h2,
    vecE_enc_injective hE hv.2.2 hv'.2.2 h3, h4⟩

/-- the shuffle's final challenge, serialised items (twelve) -/
theorem shuffleChallengeBytes_injective {es eps es' eps' : List (Ciphertext E)}
    {cs chs cs' chs' : List E} {pk pk' : E} {t t' : Commitments E} {l l' : Bytes}
    (hs : AllShort (shuffleItems o es eps cs chs pk t l))
    (hs' : AllShort (shuffleItems o es' eps' cs' chs' pk' t' l'))
    (h : shuffleChallengeBytes o es eps cs chs pk t l
      = shuffleChallengeBytes o es' eps' cs' chs' pk' t' l') :
    o.serE t.t1 = o.serE t'.t1 ∧ o.serE t.t2 = o.serE t'.t2 ∧ o.serE t.t3 = o.serE t'.t3 ∧
      o.serE t.t4_1 = o.serE t'.t4_1 ∧ o.serE t.t4_2 = o.serE t'.t4_2 ∧
      (vecC o).enc es = (vecC o).enc es' ∧ (vecC o).enc eps = (vecC o).enc eps' ∧
      (vecE o).enc cs = (vecE o).enc cs' ∧ (vecE o).enc chs = (vecE o).enc chs' ∧
      o.serE pk = o.serE pk' ∧ (vecE o).enc t.tHats = (vecE o).enc t'.tHats ∧ l = l' :=
  Strand.shuffleChallengeBytes_injective hs hs' h

/-- wire validity of the statement and commitments of a shuffle proof -/
structure ShuffleStmtOK (o : Ops E X) (VE : E → Prop) (es eps : List (Ciphertext E))
    (cs chs : List E) (pk : E) (t : Commitments E) : Prop where
  es : NestedOK (codecCt o) (VCt VE) es
  eps : NestedOK (codecCt o) (VCt VE) eps
  cs : NestedOK o.codecE VE cs
  chs : NestedOK o.codecE VE chs
  pk : VE pk
  t1 : VE t.t1
  t2 : VE t.t2
  t3 : VE t.t3
  t4_1 : VE t.t4_1
  t4_2 : VE t.t4_2
  tHats : NestedOK o.codecE VE t.tHats

/-- the shuffle's final challenge, items: all commitments, input and output ciphertexts,
    permutation and chain commitments, public key, label -/
theorem shuffle_transcript_injective (hE : LawfulCodec o.codecE VE)
    {es eps es' eps' : List (Ciphertext E)} {cs chs cs' chs' : List E} {pk pk' : E}
    {t t' : Commitments E} {l l' : Bytes} (hv : ShuffleStmtOK o VE es eps cs chs pk t)
    (hv' : ShuffleStmtOK o VE es' eps' cs' chs' pk' t')
    (hs : AllShort (shuffleItems o es eps cs chs pk t l))
    (hs' : AllShort (shuffleItems o es' eps' cs' chs' pk' t' l'))
    (h : shuffleChallengeBytes o es eps cs chs pk t l
      = shuffleChallengeBytes o es' eps' cs' chs' pk' t' l') :
    t = t' ∧ es = es' ∧ eps = eps' ∧ cs = cs' ∧ chs = chs' ∧ pk = pk' ∧ l = l' := by
  obtain ⟨h1, h2, h3, h4, h5, h6, h7, h8, h9, h10, h11, h12⟩ :=
    Strand.shuffleChallengeBytes_injective hs hs' h
  refine ⟨?_, vecC_enc_injective hE hv.es hv'.es h6, vecC_enc_injective hE hv.eps hv'.eps h7,
    vecE_enc_injective hE hv.cs hv'.cs h8, vecE_enc_injective hE hv.chs hv'.chs h9,
    serE_injective hE hv.pk hv'.pk h10, h12⟩
  obtain ⟨a1, a2, a3, a4, a5, a6⟩ := t
  obtain ⟨b1, b2, b3, b4, b5, b6⟩ := t'
  simp only [Commitments.mk.injEq]
  exact ⟨serE_injective hE hv.t1 hv'.t1 h1, serE_injective hE hv.t2 hv'.t2 h2,
    serE_injective hE hv.t3 hv'.t3 h3, serE_injective hE hv.t4_1 hv'.t4_1 h4,
    serE_injective hE hv.t4_2 hv'.t4_2 h5, vecE_enc_injective hE hv.tHats hv'.tHats h11⟩

/-! ### 4. the position counter -/

/-- the per-ciphertext hash input determines the prefix digest and the counter bytes -/
theorem usInput_injective {h h' : Bytes} {i j : Nat} (hs : Short h) (hs' : Short h')
    (he : usInput h i = usInput h' j) : h = h' ∧ u64le i = u64le j :=
  Strand.usInput_injective hs hs' he

theorem u64le_injective {i j : Nat} (hi : i < 2 ^ 64) (hj : j < 2 ^ 64) (h : u64le i = u64le j) :
    i = j := Strand.u64le_injective hi hj h

/-- different positions (below 2^64), different hash inputs -/
theorem counter_inputs_distinct {h : Bytes} {i j : Nat} (hs : Short h) (hi : i < 2 ^ 64)
    (hj : j < 2 ^ 64) (hij : i ≠ j) : usInput h i ≠ usInput h j :=
  Strand.counter_inputs_distinct hs hi hj hij

/-- the `n ≤ 2^64` hash inputs of one shuffle are pairwise distinct.  (Pairwise distinctness of
    the CHALLENGES `u_i` is collision resistance of the hash: not a theorem.) -/
theorem us_inputs_nodup {h : Bytes} (hs : Short h) {n : Nat} (hn : n ≤ 2 ^ 64) :
    ((List.range n).map (usInput h)).Nodup := by
  rw [List.Nodup, List.pairwise_map]
  refine List.Pairwise.imp_of_mem ?_ (List.nodup_range (n := n))
  intro i j hi hj hij
  exact Strand.counter_inputs_distinct hs
    (Nat.lt_of_lt_of_le (List.mem_range.1 hi) hn) (Nat.lt_of_lt_of_le (List.mem_range.1 hj) hn) hij

/-- two equal per-ciphertext challenges at different positions exhibit a collision of
    `hash_to_exp`: two DIFFERENT inputs with the same image -/
theorem us_repeat_collision (es eps : List (Ciphertext E)) (cs : List E) (n : Nat) (label : Bytes)
    (hs : Short (o.hash (usPrefixBytes o es eps cs label))) (hn : n ≤ 2 ^ 64) {i j : Nat}
    (hi : i < n) (hj : j < n) (hij : i ≠ j)
    (h : (shuffleUs o es eps cs n label)[i]'(by rw [shuffle_us_length]; exact hi)
      = (shuffleUs o es eps cs n label)[j]'(by rw [shuffle_us_length]; exact hj)) :
    ∃ a b : Bytes, a ≠ b ∧ o.hashToExp a = o.hashToExp b := by
  rw [shuffle_us_getElem, shuffle_us_getElem] at h
  exact ⟨_, _, Strand.counter_inputs_distinct hs (Nat.lt_of_lt_of_le hi hn)
    (Nat.lt_of_lt_of_le hj hn) hij, h⟩

/-- one Schnorr challenge value for two different statements/commitments/contexts exhibits a
    collision of `hash_to_exp` -/
theorem schnorr_repeat_collision (hE : LawfulCodec o.codecE VE) {g y t g' y' t' : E}
    {ctx ctx' : Bytes} (hv : VE g ∧ VE y ∧ VE t) (hv' : VE g' ∧ VE y' ∧ VE t')
    (hs : AllShort [o.serE g, o.serE y, o.serE t, ctx])
    (hs' : AllShort [o.serE g', o.serE y', o.serE t', ctx'])
    (hne : ¬ (g = g' ∧ y = y' ∧ t = t' ∧ ctx = ctx'))
    (h : schnorrChallenge o g y t ctx = schnorrChallenge o g' y' t' ctx') :
    ∃ a b : Bytes, a ≠ b ∧ o.hashToExp a = o.hashToExp b :=
  ⟨_, _, fun hb => hne (schnorr_transcript_injective hE hv hv' hs hs' hb), h⟩

theorem cp_repeat_collision (hE : LawfulCodec o.codecE VE)
    {g1 g2 y1 y2 t1 t2 g1' g2' y1' y2' t1' t2' : E} {ctx ctx' : Bytes}
    (hv : VE g1 ∧ VE g2 ∧ VE y1 ∧ VE y2 ∧ VE t1 ∧ VE t2)
    (hv' : VE g1' ∧ VE g2' ∧ VE y1' ∧ VE y2' ∧ VE t1' ∧ VE t2')
    (hs : AllShort [o.serE g1, o.serE g2, o.serE y1, o.serE y2, o.serE t1, o.serE t2, ctx])
    (hs' : AllShort [o.serE g1', o.serE g2', o.serE y1', o.serE y2', o.serE t1', o.serE t2', ctx'])
    (hne : ¬ (g1 = g1' ∧ g2 = g2' ∧ y1 = y1' ∧ y2 = y2' ∧ t1 = t1' ∧ t2 = t2' ∧ ctx = ctx'))
    (h : cpChallenge o g1 g2 y1 y2 t1 t2 ctx = cpChallenge o g1' g2' y1' y2' t1' t2' ctx') :
    ∃ a b : Bytes, a ≠ b ∧ o.hashToExp a = o.hashToExp b :=
  ⟨_, _, fun hb => hne (cp_transcript_injective hE hv hv' hs hs' hb), h⟩

theorem shuffle_repeat_collision (hE : LawfulCodec o.codecE VE)
    {es eps es' eps' : List (Ciphertext E)} {cs chs cs' chs' : List E} {pk pk' : E}
    {t t' : Commitments E} {l l' : Bytes} (hv : ShuffleStmtOK o VE es eps cs chs pk t)
    (hv' : ShuffleStmtOK o VE es' eps' cs' chs' pk' t')
    (hs : AllShort (shuffleItems o es eps cs chs pk t l))
    (hs' : AllShort (shuffleItems o es' eps' cs' chs' pk' t' l'))
    (hne : ¬ (t = t' ∧ es = es' ∧ eps = eps' ∧ cs = cs' ∧ chs = chs' ∧ pk = pk' ∧ l = l'))
    (h : shuffleChallenge o es eps cs chs pk t l = shuffleChallenge o es' eps' cs' chs' pk' t' l') :
    ∃ a b : Bytes, a ≠ b ∧ o.hashToExp a = o.hashToExp b :=
  ⟨_, _, fun hb => hne (shuffle_transcript_injective hE hv hv' hs hs' hb), h⟩

/-! ### 5. the whole digest enters the reduction -/

/-- the digest-to-integer map loses nothing: on byte strings of one length (64 for SHA-512) it
    is injective … -/
theorem digest_to_nat_injective (fl : Flavour) {xs ys : Bytes} (hl : xs.length = ys.length)
    (h : natOfBytes fl xs = natOfBytes fl ys) : xs = ys :=
  natOfBytes_injective_of_length_eq fl hl h

/-- … with values below `256^length`: for 64-byte digests the integer ranges over all of
    `[0, 2^512)` before it is reduced mod `q` -/
theorem digest_to_nat_lt (fl : Flavour) (bs : Bytes) : natOfBytes fl bs < 256 ^ bs.length :=
  natOfBytes_lt fl bs

theorem natOfLE_injective_of_length_eq {xs ys : Bytes} (hl : xs.length = ys.length)
    (h : natOfLE xs = natOfLE ys) : xs = ys := Strand.natOfLE_injective_of_length_eq hl h

theorem natOfBE_injective_of_length_eq {xs ys : Bytes} (hl : xs.length = ys.length)
    (h : natOfBE xs = natOfBE ys) : xs = ys := Strand.natOfBE_injective_of_length_eq hl h

/-! ### 5b. domain separation between transcript KINDS: whatever the values, a transcript of one kind is
never the byte string of another kind (different key sets), so a challenge computed for one protocol is
never the hash input of another -/
section kinds
variable (o)

/-- the seven transcript kinds of the library have pairwise different key sets -/
theorem transcript_key_sets_pairwise_distinct :
    [schnorrKeys, cpKeys, ctxLabelKeys, ctxMhrKeys, usPrefixKeys, usInputKeys, shuffleKeys].Pairwise
      (fun a b => ¬ a.Perm b) := by decide

/-- a Schnorr transcript is never a Chaum-Pedersen transcript -/
theorem schnorrBytes_ne_cpBytes (g y t g1 g2 y1 y2 t1 t2 : E) (ctx ctx' : Bytes)
    (hs : AllShort (schnorrItems o g y t ctx)) (hs' : AllShort (cpItems o g1 g2 y1 y2 t1 t2 ctx')) :
    schnorrBytes o g y t ctx ≠ cpBytes o g1 g2 y1 y2 t1 t2 ctx' := by
  rw [schnorrBytes_eq_zip, cpBytes_eq_zip]
  exact encMap_zip_ne_of_keys schnorrKeys_good cpKeys_good rfl rfl hs hs' (by decide)

/-- …nor the prefix the per-ciphertext shuffle challenges are derived from (same number of entries!) -/
theorem schnorrBytes_ne_usPrefixBytes (g y t : E) (ctx : Bytes) (es eps : List (Ciphertext E))
    (cs : List E) (l : Bytes) (hs : AllShort (schnorrItems o g y t ctx))
    (hs' : AllShort (usPrefixItems o es eps cs l)) :
    schnorrBytes o g y t ctx ≠ usPrefixBytes o es eps cs l := by
  rw [schnorrBytes_eq_zip, usPrefixBytes_eq_zip]
  exact encMap_zip_ne_of_keys schnorrKeys_good usPrefixKeys_good rfl rfl hs hs' (by decide)

theorem schnorrBytes_ne_shuffleChallengeBytes (g y t : E) (ctx : Bytes) (es eps : List (Ciphertext E))
    (cs chs : List E) (pk : E) (tc : Commitments E) (l : Bytes)
    (hs : AllShort (schnorrItems o g y t ctx)) (hs' : AllShort (shuffleItems o es eps cs chs pk tc l)) :
    schnorrBytes o g y t ctx ≠ shuffleChallengeBytes o es eps cs chs pk tc l := by
  rw [schnorrBytes_eq_zip, shuffleChallengeBytes_eq_zip]
  exact encMap_zip_ne_of_keys schnorrKeys_good shuffleKeys_good rfl rfl hs hs' (by decide)

theorem cpBytes_ne_usPrefixBytes (g1 g2 y1 y2 t1 t2 : E) (ctx : Bytes) (es eps : List (Ciphertext E))
    (cs : List E) (l : Bytes) (hs : AllShort (cpItems o g1 g2 y1 y2 t1 t2 ctx))
    (hs' : AllShort (usPrefixItems o es eps cs l)) :
    cpBytes o g1 g2 y1 y2 t1 t2 ctx ≠ usPrefixBytes o es eps cs l := by
  rw [cpBytes_eq_zip, usPrefixBytes_eq_zip]
  exact encMap_zip_ne_of_keys cpKeys_good usPrefixKeys_good rfl rfl hs hs' (by decide)

theorem cpBytes_ne_shuffleChallengeBytes (g1 g2 y1 y2 t1 t2 : E) (ctx : Bytes)
    (es eps : List (Ciphertext E)) (cs chs : List E) (pk : E) (tc : Commitments E) (l : Bytes)
    (hs : AllShort (cpItems o g1 g2 y1 y2 t1 t2 ctx))
    (hs' : AllShort (shuffleItems o es eps cs chs pk tc l)) :
    cpBytes o g1 g2 y1 y2 t1 t2 ctx ≠ shuffleChallengeBytes o es eps cs chs pk tc l := by
  rw [cpBytes_eq_zip, shuffleChallengeBytes_eq_zip]
  exact encMap_zip_ne_of_keys cpKeys_good shuffleKeys_good rfl rfl hs hs' (by decide)

theorem usPrefixBytes_ne_shuffleChallengeBytes (es eps es' eps' : List (Ciphertext E))
    (cs cs' chs : List E) (pk : E) (tc : Commitments E) (l l' : Bytes)
    (hs : AllShort (usPrefixItems o es eps cs l))
    (hs' : AllShort (shuffleItems o es' eps' cs' chs pk tc l')) :
    usPrefixBytes o es eps cs l ≠ shuffleChallengeBytes o es' eps' cs' chs pk tc l' := by
  rw [usPrefixBytes_eq_zip, shuffleChallengeBytes_eq_zip]
  exact encMap_zip_ne_of_keys usPrefixKeys_good shuffleKeys_good rfl rfl hs hs' (by decide)

/-- the per-position input `{prefix, counter}` collides with none of the statement transcripts -/
theorem usInput_ne_schnorrBytes (h : Bytes) (i : Nat) (g y t : E) (ctx : Bytes) (hh : Short h)
    (hs : AllShort (schnorrItems o g y t ctx)) : usInput h i ≠ schnorrBytes o g y t ctx := by
  rw [usInput_eq_zip, schnorrBytes_eq_zip]
  refine encMap_zip_ne_of_keys usInputKeys_good schnorrKeys_good rfl rfl ?_ hs (by decide)
  intro b hb
  simp only [List.mem_cons, List.mem_nil_iff, or_false] at hb
  rcases hb with rfl | rfl
  · exact hh
  · unfold Short; rw [u64le_length]; decide

theorem usInput_ne_cpBytes (h : Bytes) (i : Nat) (g1 g2 y1 y2 t1 t2 : E) (ctx : Bytes) (hh : Short h)
    (hs : AllShort (cpItems o g1 g2 y1 y2 t1 t2 ctx)) :
    usInput h i ≠ cpBytes o g1 g2 y1 y2 t1 t2 ctx := by
  rw [usInput_eq_zip, cpBytes_eq_zip]
  refine encMap_zip_ne_of_keys usInputKeys_good cpKeys_good rfl rfl ?_ hs (by decide)
  intro b hb
  simp only [List.mem_cons, List.mem_nil_iff, or_false] at hb
  rcases hb with rfl | rfl
  · exact hh
  · unfold Short; rw [u64le_length]; decide

end kinds

/-! ### non-vacuity -/
section examples
open Strand.C15

/-- the sorted order borsh gives the Schnorr map -/
example (a b c d : Bytes) :
    mapOfList [(tag "g", a), (tag "public", b), (tag "commitment", c), (tag "context", d)]
      = [(tag "commitment", c), (tag "context", d), (tag "g", a), (tag "public", b)] := rfl
/-- … from any insertion order -/
example (a b c d : Bytes) :
    mapOfList [(tag "context", d), (tag "public", b), (tag "g", a), (tag "commitment", c)]
      = [(tag "commitment", c), (tag "context", d), (tag "g", a), (tag "public", b)] := rfl
/-- with a repeated key the later insert wins (why `Nodup` is needed for `mapOfList_perm`) -/
example : mapOfList [(tag "g", [1]), (tag "g", [2])] = [(tag "g", [2])] := by decide
/-- the order: "commitment" < "context" < "g" < "public", "label" < "mhr", "t4_1" < "t_hats" -/
example : bytesLt (tag "commitment") (tag "context") = true ∧ bytesLt (tag "context") (tag "g") = true
    ∧ bytesLt (tag "g") (tag "public") = true ∧ bytesLt (tag "label") (tag "mhr") = true
    ∧ bytesLt (tag "t4_1") (tag "t_hats") = true ∧ bytesLt (tag "g") (tag "g") = false := by decide
/-- concrete transcript bytes of the `{label}` context for the label `[7]` -/
example : ctxLabel [7] = [1, 0, 0, 0, 5, 0, 0, 0, 108, 97, 98, 101, 108, 1, 0, 0, 0, 7] := by decide
example : ctxLabel [7] ≠ ctxLabel [8] := by decide
/-- the counter is the 8 little-endian bytes of the position -/
example : u64le 258 = [2, 1, 0, 0, 0, 0, 0, 0] := by decide
example : usInput [9] 0 ≠ usInput [9] 1 := by decide
/-- the side conditions are satisfiable: P23 elements serialise to 5 bytes -/
example : AllShort [(natOps P23 .bigint).serE 2, (natOps P23 .bigint).serE 13,
    (natOps P23 .bigint).serE 4, ctxLabel [7]] := by
  have hb : ∀ a, (∃ e, Nat'.elementFromNat P23 a = some e) →
      Short ((natOps P23 .bigint).serE a) := fun a ha => by
    have := natCodecE_enc_length_le P23 .bigint (k := 1) (by decide) (by decide) ha
    unfold Short
    show ((natCodecE P23 .bigint).enc a).length < _
    omega
  intro b hb'
  simp only [List.mem_cons, List.not_mem_nil, or_false] at hb'
  rcases hb' with rfl | rfl | rfl | rfl
  · exact hb 2 ⟨2, by decide⟩
  · exact hb 13 ⟨13, by decide⟩
  · exact hb 4 ⟨4, by decide⟩
  · unfold Short; decide
/-- … and the P23 element codec is lawful for the range/Legendre-checked elements -/
example : LawfulCodec (natOps P23 .bigint).codecE
    (fun a => ∃ e, Nat'.elementFromNat P23 a = some e) :=
  natCodecE_lawful_of_bound P23 .bigint (k := 1) (by decide) (by decide) (by decide)
/-- the digest integers: both flavours read all bytes -/
example : natOfBytes .bigint [1, 2] = 513 ∧ natOfBytes .malachite [1, 2] = 258 := by decide
/-- why "different inputs ⇒ different challenges" is not a theorem of the model: a back-end
    with a constant `hashToExp` satisfies every definition used here -/
example : ∃ o' : Ops Nat Nat, ∀ g y t ctx g' y' t' ctx',
    schnorrChallenge o' g y t ctx = schnorrChallenge o' g' y' t' ctx' :=
  ⟨{ natOps P23 .bigint with hashToExp := fun _ => 0 }, fun _ _ _ _ _ _ _ _ => rfl⟩

end examples

/-! ### §6 The tags are the ones the source uses NOW (regenerated from /repo on every run)

`Generated/Tags.lean` is rewritten by the translator from the string literals of
`schnorr_proof_challenge`, `cp_proof_challenge`, the eight context constructors,
`shuffle_proof_us`, `shuffle_proof_challenge` and `generators_fips`, in source order.  A tag that
is renamed, dropped, added or duplicated in the source breaks one of these kernel-checked facts; the ORDER in
which the source inserts the entries of one map does not matter (`order_independent`), so the facts are stated up
to permutation (a harmless reordering must not raise an alarm). -/

theorem schnorr_tags_from_source : schnorrKeys.Perm (Generated.schnorrTags.map tag) := by decide
theorem cp_tags_from_source : cpKeys.Perm (Generated.cpTags.map tag) := by decide
theorem ctx_label_tags_from_source :
    ctxLabelKeys.Perm (Generated.schnorrProveCtxTags.map tag) ∧
    ctxLabelKeys.Perm (Generated.schnorrVerifyCtxTags.map tag) ∧
    ctxLabelKeys.Perm (Generated.cpProveCtxTags.map tag) ∧
    ctxLabelKeys.Perm (Generated.cpVerifyCtxTags.map tag) := by decide
theorem ctx_mhr_tags_from_source :
    ctxMhrKeys.Perm (Generated.popkCtxTags.map tag) ∧
    ctxMhrKeys.Perm (Generated.popkVerifyCtxTags.map tag) ∧
    ctxMhrKeys.Perm (Generated.decryptionProofCtxTags.map tag) ∧
    ctxMhrKeys.Perm (Generated.verifyDecryptionCtxTags.map tag) := by decide
theorem shuffle_us_tags_from_source :
    (usPrefixKeys ++ usInputKeys).Perm (Generated.shuffleUsTags.map tag) := by decide
theorem shuffle_challenge_tags_from_source :
    shuffleKeys.Perm (Generated.shuffleChallengeTags.map tag) := by decide
/-- prover and verifier of every sigma proof build the SAME context key set -/
theorem prover_verifier_context_tags_agree :
    Generated.schnorrProveCtxTags.Perm Generated.schnorrVerifyCtxTags ∧
    Generated.cpProveCtxTags.Perm Generated.cpVerifyCtxTags ∧
    Generated.popkCtxTags.Perm Generated.popkVerifyCtxTags ∧
    Generated.decryptionProofCtxTags.Perm Generated.verifyDecryptionCtxTags := by decide
/-- the generator derivation's domain-separation tag -/
theorem generator_tag_from_source (P : Params) (fl : Flavour) (seed : Bytes) (i : Nat) :
    genAt P fl seed i = genLoop P fl i genFuel (seed ++ asciiBytes Generated.generatorTagBigint) 0 ∧
    Generated.generatorTagBigint = Generated.generatorTagMalachite := ⟨rfl, by decide⟩

end Strand.C16
