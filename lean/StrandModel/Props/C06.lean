import StrandModel.Lemmas.SigmaIff
import StrandModel.Lemmas.Transcript
import StrandModel.Props.C15
import StrandModel.Props.C16
/-
C06 — what the Schnorr / Chaum-Pedersen verifiers accept.

"A Schnorr (resp. Chaum-Pedersen) proof is accepted if and only if its challenge equals the hash
of the complete statement - bases, public values, commitments, label and, for ciphertext-bound
proofs, the other ciphertext component - and its response satisfies the verification equation
(both equations) in the group.  Therefore changing any single part of the statement, label or
proof turns an accepted proof into a rejected one, simulated transcripts with a freely chosen
challenge are rejected, proofs for which only one of the two Chaum-Pedersen equations holds are
rejected, and a prover who fixes commitments first cannot choose the statement afterwards."

`o.hashToExp` is an ARBITRARY function in all of this.  Proved with no assumption on it:
* §1 the iff, for the four public verifiers (`schnorrVerify`, `encryptionPopkVerify`, `cpVerify`,
  `verifyDecryption`) and for the two private ones with any context;
* §2 a challenge that is not the hash of the statement is rejected (`free_challenge_rejected`);
  the simulator's transcript for a freely chosen challenge satisfies the group equation and is
  accepted IFF that challenge happens to be the hash (`simulated_…_accepted_iff`);
* §3 one failing Chaum-Pedersen equation rejects, whatever else holds (`one_equation_rejected…`);
* §4 changing one part of the PROOF of an accepted proof rejects: the challenge (unconditionally),
  the response (prime order, base ≠ 1), a commitment (canonical members) —
  `changed_challenge_rejected`, `changed_response_rejected`, `changed_commitment_rejected`;
* §5 changing one part of the STATEMENT (base, public value, label, `mhr`) changes the byte
  string that is hashed (`…statement_change_changes_hash_input`, from C16's injectivity); hence
  two proofs with the same commitments and challenge — in particular one proof — accepted
  for two different statements exhibit two different byte strings with the same `hashToExp`
  value (`…accepted_for_two_statements_collision`).  "Is rejected" for a changed statement is
  therefore exactly collision resistance of the hash; it is not (and cannot be) a theorem for
  an arbitrary `hashToExp`.  This is also the content of "a prover who fixes commitments first
  cannot choose the statement afterwards": the commitments being fixed, every statement has its
  own hash input, and the challenge it must answer is the hash of THAT input.
* §6 special soundness (prime order).
-/
set_option linter.unusedSectionVars false
namespace Strand.C06
open Strand

variable {E X : Type} [DecidableEq E] [DecidableEq X] {o : Ops E X} {q : ℕ} {A : Type}
  [AddCommGroup A] [Module (ZMod q) A] {VE : E → Prop}

/-! ### 0. the public verifiers are the private ones with the two kinds of context -/

theorem entry_points (y gr mhr pk f g2 y2 : E) (g : Option E) (pf : Schnorr E X)
    (cp : ChaumPedersen E X) (label : Bytes) :
    schnorrVerify o y g pf label = schnorrVerifyCtx o y g pf (ctxLabel label) ∧
    encryptionPopkVerify o mhr gr pf label = schnorrVerifyCtx o gr none pf (ctxMhr o mhr label) ∧
    cpVerify o y y2 g g2 cp label = cpVerifyCtx o y y2 g g2 cp (ctxLabel label) ∧
    verifyDecryption o pk f mhr gr cp label
      = cpVerifyCtx o pk f none gr cp (ctxMhr o mhr label) := ⟨rfl, rfl, rfl, rfl⟩

/-! ### 1. accepted ⇔ challenge = hash of the complete statement ∧ equation(s) in the group -/

/-- `schnorr_verify_private`, any context -/
theorem schnorr_verify_ctx_iff (L : Lawful o q A) {y : E} {g : Option E} {pf : Schnorr E X}
    (ctx : Bytes) (hb : L.valid (baseOr o g)) (hy : L.valid y) (ht : L.valid pf.commitment) :
    schnorrVerifyCtx o y g pf ctx = true ↔
      pf.challenge = o.hashToExp (schnorrBytes o (baseOr o g) y pf.commitment ctx) ∧
      L.dx pf.response • L.den (baseOr o g)
        = L.den pf.commitment + L.dx pf.challenge • L.den y :=
  Strand.schnorr_verify_iff L ctx hb hy ht

/-- `schnorr_verify`: hash of base, public value, commitment, label -/
theorem schnorr_verify_iff (L : Lawful o q A) {y : E} {g : Option E} {pf : Schnorr E X}
    (label : Bytes) (hb : L.valid (baseOr o g)) (hy : L.valid y) (ht : L.valid pf.commitment) :
    schnorrVerify o y g pf label = true ↔
      pf.challenge
        = o.hashToExp (schnorrBytes o (baseOr o g) y pf.commitment (ctxLabel label)) ∧
      L.dx pf.response • L.den (baseOr o g)
        = L.den pf.commitment + L.dx pf.challenge • L.den y :=
  Strand.schnorr_verify_iff L (ctxLabel label) hb hy ht

/-- `encryption_popk_verify`: hash of generator, `gr`, commitment, the OTHER ciphertext
    component `mhr`, label -/
theorem encryption_popk_verify_iff (L : Lawful o q A) {mhr gr : E} {pf : Schnorr E X}
    (label : Bytes) (hgr : L.valid gr) (ht : L.valid pf.commitment) :
    encryptionPopkVerify o mhr gr pf label = true ↔
      pf.challenge
        = o.hashToExp (schnorrBytes o o.generator gr pf.commitment (ctxMhr o mhr label)) ∧
      L.dx pf.response • L.den o.generator
        = L.den pf.commitment + L.dx pf.challenge • L.den gr :=
  Strand.schnorr_verify_iff L (g := none) (ctxMhr o mhr label) L.gen_valid hgr ht

/-- `cp_verify_private`, any context -/
theorem cp_verify_ctx_iff (L : Lawful o q A) {y1 y2 g2 : E} {g1 : Option E}
    {pf : ChaumPedersen E X} (ctx : Bytes) (hb : L.valid (baseOr o g1)) (hg2 : L.valid g2)
    (hy1 : L.valid y1) (hy2 : L.valid y2) (ht1 : L.valid pf.commitment1)
    (ht2 : L.valid pf.commitment2) :
    cpVerifyCtx o y1 y2 g1 g2 pf ctx = true ↔
      pf.challenge = o.hashToExp
        (cpBytes o (baseOr o g1) g2 y1 y2 pf.commitment1 pf.commitment2 ctx) ∧
      L.dx pf.response • L.den (baseOr o g1)
        = L.den pf.commitment1 + L.dx pf.challenge • L.den y1 ∧
      L.dx pf.response • L.den g2 = L.den pf.commitment2 + L.dx pf.challenge • L.den y2 :=
  Strand.cp_verify_iff L ctx hb hg2 hy1 hy2 ht1 ht2

/-- `cp_verify`: hash of both bases, both public values, both commitments, label; BOTH
    equations -/
theorem cp_verify_iff (L : Lawful o q A) {y1 y2 g2 : E} {g1 : Option E}
    {pf : ChaumPedersen E X} (label : Bytes) (hb : L.valid (baseOr o g1)) (hg2 : L.valid g2)
    (hy1 : L.valid y1) (hy2 : L.valid y2) (ht1 : L.valid pf.commitment1)
    (ht2 : L.valid pf.commitment2) :
    cpVerify o y1 y2 g1 g2 pf label = true ↔
      pf.challenge = o.hashToExp
        (cpBytes o (baseOr o g1) g2 y1 y2 pf.commitment1 pf.commitment2 (ctxLabel label)) ∧
      L.dx pf.response • L.den (baseOr o g1)
        = L.den pf.commitment1 + L.dx pf.challenge • L.den y1 ∧
      L.dx pf.response • L.den g2 = L.den pf.commitment2 + L.dx pf.challenge • L.den y2 :=
  Strand.cp_verify_iff L (ctxLabel label) hb hg2 hy1 hy2 ht1 ht2

/-- `verify_decryption`: hash of generator, `gr`, public key, factor, both commitments, the
    other ciphertext component `mhr`, label; both equations -/
theorem verify_decryption_iff (L : Lawful o q A) {pk f mhr gr : E} {pf : ChaumPedersen E X}
    (label : Bytes) (hpk : L.valid pk) (hf : L.valid f) (hgr : L.valid gr)
    (ht1 : L.valid pf.commitment1) (ht2 : L.valid pf.commitment2) :
    verifyDecryption o pk f mhr gr pf label = true ↔
      pf.challenge = o.hashToExp
        (cpBytes o o.generator gr pk f pf.commitment1 pf.commitment2 (ctxMhr o mhr label)) ∧
      L.dx pf.response • L.den o.generator
        = L.den pf.commitment1 + L.dx pf.challenge • L.den pk ∧
      L.dx pf.response • L.den gr = L.den pf.commitment2 + L.dx pf.challenge • L.den f :=
  Strand.cp_verify_iff L (g1 := none) (ctxMhr o mhr label) L.gen_valid hgr hpk hf ht1 ht2

/-! ### 2. a freely chosen challenge is rejected -/

/-- Schnorr (every entry point: take `ctx := ctxLabel label` / `ctxMhr o mhr label`): a
    challenge that is not the hash of the statement is rejected, whatever the response.  No
    validity hypothesis. -/
theorem free_challenge_rejected {y : E} {g : Option E} {pf : Schnorr E X} (ctx : Bytes)
    (h : pf.challenge ≠ o.hashToExp (schnorrBytes o (baseOr o g) y pf.commitment ctx)) :
    schnorrVerifyCtx o y g pf ctx = false :=
  schnorr_rejects_of_challenge_ne ctx (Ne.symm h)

theorem cp_free_challenge_rejected {y1 y2 g2 : E} {g1 : Option E} {pf : ChaumPedersen E X}
    (ctx : Bytes)
    (h : pf.challenge ≠ o.hashToExp
      (cpBytes o (baseOr o g1) g2 y1 y2 pf.commitment1 pf.commitment2 ctx)) :
    cpVerifyCtx o y1 y2 g1 g2 pf ctx = false :=
  cp_rejects_of_challenge_ne ctx (Ne.symm h)

/-- the same, for the four public verifiers -/
theorem free_challenge_rejected_entry_points {y gr mhr pk f g2 y2 : E} {g : Option E}
    {pf : Schnorr E X} {cp : ChaumPedersen E X} (label : Bytes) :
    (pf.challenge ≠ o.hashToExp (schnorrBytes o (baseOr o g) y pf.commitment (ctxLabel label)) →
      schnorrVerify o y g pf label = false) ∧
    (pf.challenge ≠ o.hashToExp (schnorrBytes o o.generator gr pf.commitment
        (ctxMhr o mhr label)) → encryptionPopkVerify o mhr gr pf label = false) ∧
    (cp.challenge ≠ o.hashToExp (cpBytes o (baseOr o g) g2 y y2 cp.commitment1 cp.commitment2
        (ctxLabel label)) → cpVerify o y y2 g g2 cp label = false) ∧
    (cp.challenge ≠ o.hashToExp (cpBytes o o.generator gr pk f cp.commitment1 cp.commitment2
        (ctxMhr o mhr label)) → verifyDecryption o pk f mhr gr cp label = false) :=
  ⟨free_challenge_rejected (ctxLabel label),
   free_challenge_rejected (g := none) (ctxMhr o mhr label),
   cp_free_challenge_rejected (ctxLabel label),
   cp_free_challenge_rejected (g1 := none) (ctxMhr o mhr label)⟩

/-- an accepted proof carries the hash of its statement (no validity hypothesis) -/
theorem accepted_challenge_eq {y : E} {g : Option E} {pf : Schnorr E X} {ctx : Bytes}
    (h : schnorrVerifyCtx o y g pf ctx = true) :
    pf.challenge = o.hashToExp (schnorrBytes o (baseOr o g) y pf.commitment ctx) := by
  by_contra hne
  rw [free_challenge_rejected ctx hne] at h
  cases h

theorem cp_accepted_challenge_eq {y1 y2 g2 : E} {g1 : Option E} {pf : ChaumPedersen E X}
    {ctx : Bytes} (h : cpVerifyCtx o y1 y2 g1 g2 pf ctx = true) :
    pf.challenge
      = o.hashToExp (cpBytes o (baseOr o g1) g2 y1 y2 pf.commitment1 pf.commitment2 ctx) := by
  by_contra hne
  rw [cp_free_challenge_rejected ctx hne] at h
  cases h

/-- the simulator's commitment for a freely chosen challenge `c` and response `z`:
    `base^z / y^c` -/
def simCommitment (o : Ops E X) (g : Option E) (y : E) (c z : X) : E :=
  o.modp (o.divp (powBase o g z) (o.emodPow y c))

theorem simCommitment_valid (L : Lawful o q A) {y : E} {g : Option E} (c z : X)
    (hb : L.valid (baseOr o g)) (hy : L.valid y) : L.valid (simCommitment o g y c z) :=
  L.modp_valid (L.divp_valid (L.powBase_valid g (L.valid_of_baseOr hb) z) (L.emodPow_valid c hy))

/-- it satisfies the verification equation for EVERY `c`, `z` … -/
theorem simCommitment_equation (L : Lawful o q A) {y : E} {g : Option E} (c z : X)
    (hb : L.valid (baseOr o g)) (hy : L.valid y) :
    L.dx z • L.den (baseOr o g) = L.den (simCommitment o g y c z) + L.dx c • L.den y := by
  have hg := L.valid_of_baseOr hb
  unfold simCommitment
  rw [L.modp_den (L.divp_valid (L.powBase_valid g hg z) (L.emodPow_valid c hy)),
    L.divp_den (L.powBase_valid g hg z) (L.emodPow_valid c hy), L.powBase_den g hg,
    L.emodPow_den c hy, sub_add_cancel]

/-- … so a simulated Schnorr transcript is accepted iff its free challenge IS the hash -/
theorem simulated_schnorr_accepted_iff (L : Lawful o q A) {y : E} {g : Option E} (c z : X)
    (ctx : Bytes) (hb : L.valid (baseOr o g)) (hy : L.valid y) :
    schnorrVerifyCtx o y g ⟨simCommitment o g y c z, c, z⟩ ctx = true ↔
      c = o.hashToExp (schnorrBytes o (baseOr o g) y (simCommitment o g y c z) ctx) := by
  rw [schnorr_verify_ctx_iff L ctx hb hy (simCommitment_valid L c z hb hy)]
  exact and_iff_left (simCommitment_equation L c z hb hy)

theorem simulated_schnorr_rejected {y : E} {g : Option E} (c z : X) (ctx : Bytes)
    (hc : c ≠ o.hashToExp (schnorrBytes o (baseOr o g) y (simCommitment o g y c z) ctx)) :
    schnorrVerifyCtx o y g ⟨simCommitment o g y c z, c, z⟩ ctx = false :=
  free_challenge_rejected ctx hc

/-- the simulated Chaum-Pedersen transcript -/
theorem simulated_cp_accepted_iff (L : Lawful o q A) {y1 y2 g2 : E} {g1 : Option E} (c z : X)
    (ctx : Bytes) (hb : L.valid (baseOr o g1)) (hg2 : L.valid g2) (hy1 : L.valid y1)
    (hy2 : L.valid y2) :
    cpVerifyCtx o y1 y2 g1 g2
        ⟨simCommitment o g1 y1 c z, simCommitment o (some g2) y2 c z, c, z⟩ ctx = true ↔
      c = o.hashToExp (cpBytes o (baseOr o g1) g2 y1 y2 (simCommitment o g1 y1 c z)
        (simCommitment o (some g2) y2 c z) ctx) := by
  rw [cp_verify_ctx_iff L ctx hb hg2 hy1 hy2 (simCommitment_valid L c z hb hy1)
    (simCommitment_valid L (g := some g2) c z hg2 hy2)]
  exact and_iff_left ⟨simCommitment_equation L c z hb hy1,
    simCommitment_equation L (g := some g2) c z hg2 hy2⟩

/-! ### 3. only one of the two Chaum-Pedersen equations -/

/-- second equation fails: rejected, even if the first holds and the challenge is the hash -/
theorem one_equation_rejected (L : Lawful o q A) {y1 y2 g2 : E} {g1 : Option E}
    {pf : ChaumPedersen E X} (ctx : Bytes) (hb : L.valid (baseOr o g1)) (hg2 : L.valid g2)
    (hy1 : L.valid y1) (hy2 : L.valid y2) (ht1 : L.valid pf.commitment1)
    (ht2 : L.valid pf.commitment2)
    (h2 : L.dx pf.response • L.den g2 ≠ L.den pf.commitment2 + L.dx pf.challenge • L.den y2) :
    cpVerifyCtx o y1 y2 g1 g2 pf ctx = false := by
  cases h : cpVerifyCtx o y1 y2 g1 g2 pf ctx with
  | false => rfl
  | true => exact absurd ((cp_verify_ctx_iff L ctx hb hg2 hy1 hy2 ht1 ht2).1 h).2.2 h2

/-- first equation fails: rejected, even if the second holds and the challenge is the hash -/
theorem one_equation_rejected' (L : Lawful o q A) {y1 y2 g2 : E} {g1 : Option E}
    {pf : ChaumPedersen E X} (ctx : Bytes) (hb : L.valid (baseOr o g1)) (hg2 : L.valid g2)
    (hy1 : L.valid y1) (hy2 : L.valid y2) (ht1 : L.valid pf.commitment1)
    (ht2 : L.valid pf.commitment2)
    (h1 : L.dx pf.response • L.den (baseOr o g1)
      ≠ L.den pf.commitment1 + L.dx pf.challenge • L.den y1) :
    cpVerifyCtx o y1 y2 g1 g2 pf ctx = false := by
  cases h : cpVerifyCtx o y1 y2 g1 g2 pf ctx with
  | false => rfl
  | true => exact absurd ((cp_verify_ctx_iff L ctx hb hg2 hy1 hy2 ht1 ht2).1 h).2.1 h1

/-- in the group: a proof for `(y1, y2) = (base1^w, g2^w')` with `w ≠ w'`, honest for `w`, fails
    the second equation whenever the challenge is non-zero and `g2 ≠ 1` (prime order) -/
theorem mismatched_exponents_fail_eq2 [Fact q.Prime] {b2 t2 y2 : A} {r c w w' : ZMod q}
    (hg : b2 ≠ 0) (hc : c ≠ 0) (hw : w ≠ w') (ht : t2 = r • b2) (hy : y2 = w' • b2) :
    (r + c * w) • b2 ≠ t2 + c • y2 := by
  intro h
  rw [ht, hy, ← mul_smul, ← add_smul] at h
  have := smul_left_cancel_of_ne_zero hg h
  exact hw (mul_left_cancel₀ hc (add_left_cancel this))

/-! ### 4. changing one part of an accepted proof -/

/-- a changed challenge: rejected (the hashed statement does not contain the challenge) -/
theorem changed_challenge_rejected {y : E} {g : Option E} {pf : Schnorr E X} {ctx : Bytes}
    (c' : X) (hc : c' ≠ pf.challenge) (h : schnorrVerifyCtx o y g pf ctx = true) :
    schnorrVerifyCtx o y g { pf with challenge := c' } ctx = false :=
  free_challenge_rejected ctx (by rw [← accepted_challenge_eq h]; exact hc)

theorem cp_changed_challenge_rejected {y1 y2 g2 : E} {g1 : Option E} {pf : ChaumPedersen E X}
    {ctx : Bytes} (c' : X) (hc : c' ≠ pf.challenge) (h : cpVerifyCtx o y1 y2 g1 g2 pf ctx = true) :
    cpVerifyCtx o y1 y2 g1 g2 { pf with challenge := c' } ctx = false :=
  cp_free_challenge_rejected ctx (by rw [← cp_accepted_challenge_eq h]; exact hc)

/-- a changed response (different in `Z_q`): rejected, for a prime group order and a base that
    is not the identity -/
theorem changed_response_rejected [Fact q.Prime] (L : Lawful o q A) {y : E} {g : Option E}
    {pf : Schnorr E X} {ctx : Bytes} (z' : X) (hb : L.valid (baseOr o g)) (hy : L.valid y)
    (ht : L.valid pf.commitment) (hb0 : L.den (baseOr o g) ≠ 0) (hz : L.dx z' ≠ L.dx pf.response)
    (h : schnorrVerifyCtx o y g pf ctx = true) :
    schnorrVerifyCtx o y g { pf with response := z' } ctx = false := by
  cases h' : schnorrVerifyCtx o y g { pf with response := z' } ctx with
  | false => rfl
  | true =>
    have e := ((schnorr_verify_ctx_iff L ctx hb hy ht).1 h).2
    have e' := ((schnorr_verify_ctx_iff L (pf := { pf with response := z' }) ctx hb hy ht).1 h').2
    exact absurd (smul_left_cancel_of_ne_zero hb0 (e'.trans e.symm)) hz

theorem cp_changed_response_rejected [Fact q.Prime] (L : Lawful o q A) {y1 y2 g2 : E}
    {g1 : Option E} {pf : ChaumPedersen E X} {ctx : Bytes} (z' : X) (hb : L.valid (baseOr o g1))
    (hg2 : L.valid g2) (hy1 : L.valid y1) (hy2 : L.valid y2) (ht1 : L.valid pf.commitment1)
    (ht2 : L.valid pf.commitment2) (hb0 : L.den (baseOr o g1) ≠ 0 ∨ L.den g2 ≠ 0)
    (hz : L.dx z' ≠ L.dx pf.response) (h : cpVerifyCtx o y1 y2 g1 g2 pf ctx = true) :
    cpVerifyCtx o y1 y2 g1 g2 { pf with response := z' } ctx = false := by
  cases h' : cpVerifyCtx o y1 y2 g1 g2 { pf with response := z' } ctx with
  | false => rfl
  | true =>
    have e := ((cp_verify_ctx_iff L ctx hb hg2 hy1 hy2 ht1 ht2).1 h).2
    have e' := ((cp_verify_ctx_iff L (pf := { pf with response := z' }) ctx hb hg2 hy1 hy2 ht1
      ht2).1 h').2
    rcases hb0 with hb0 | hb0
    · exact absurd (smul_left_cancel_of_ne_zero hb0 (e'.1.trans e.1.symm)) hz
    · exact absurd (smul_left_cancel_of_ne_zero hb0 (e'.2.trans e.2.symm)) hz

/-- a changed commitment (another canonical member): rejected — challenge and response being
    kept, the equation determines the commitment -/
theorem changed_commitment_rejected (L : Lawful o q A) {y : E} {g : Option E} {pf : Schnorr E X}
    {ctx : Bytes} (t' : E) (hb : L.valid (baseOr o g)) (hy : L.valid y) (ht : L.V pf.commitment)
    (ht' : L.V t') (hne : t' ≠ pf.commitment) (h : schnorrVerifyCtx o y g pf ctx = true) :
    schnorrVerifyCtx o y g { pf with commitment := t' } ctx = false := by
  cases h' : schnorrVerifyCtx o y g { pf with commitment := t' } ctx with
  | false => rfl
  | true =>
    have e := ((schnorr_verify_ctx_iff L ctx hb hy ht.1).1 h).2
    have e' := ((schnorr_verify_ctx_iff L (pf := { pf with commitment := t' }) ctx hb hy
      ht'.1).1 h').2
    exact absurd ((L.eq_iff ht' ht).2 (add_right_cancel (e'.symm.trans e))) hne

theorem cp_changed_commitment1_rejected (L : Lawful o q A) {y1 y2 g2 : E} {g1 : Option E}
    {pf : ChaumPedersen E X} {ctx : Bytes} (t' : E) (hb : L.valid (baseOr o g1))
    (hg2 : L.valid g2) (hy1 : L.valid y1) (hy2 : L.valid y2) (ht1 : L.V pf.commitment1)
    (ht2 : L.valid pf.commitment2) (ht' : L.V t') (hne : t' ≠ pf.commitment1)
    (h : cpVerifyCtx o y1 y2 g1 g2 pf ctx = true) :
    cpVerifyCtx o y1 y2 g1 g2 { pf with commitment1 := t' } ctx = false := by
  cases h' : cpVerifyCtx o y1 y2 g1 g2 { pf with commitment1 := t' } ctx with
  | false => rfl
  | true =>
    have e := ((cp_verify_ctx_iff L ctx hb hg2 hy1 hy2 ht1.1 ht2).1 h).2.1
    have e' := ((cp_verify_ctx_iff L (pf := { pf with commitment1 := t' }) ctx hb hg2 hy1 hy2
      ht'.1 ht2).1 h').2.1
    exact absurd ((L.eq_iff ht' ht1).2 (add_right_cancel (e'.symm.trans e))) hne

theorem cp_changed_commitment2_rejected (L : Lawful o q A) {y1 y2 g2 : E} {g1 : Option E}
    {pf : ChaumPedersen E X} {ctx : Bytes} (t' : E) (hb : L.valid (baseOr o g1))
    (hg2 : L.valid g2) (hy1 : L.valid y1) (hy2 : L.valid y2) (ht1 : L.valid pf.commitment1)
    (ht2 : L.V pf.commitment2) (ht' : L.V t') (hne : t' ≠ pf.commitment2)
    (h : cpVerifyCtx o y1 y2 g1 g2 pf ctx = true) :
    cpVerifyCtx o y1 y2 g1 g2 { pf with commitment2 := t' } ctx = false := by
  cases h' : cpVerifyCtx o y1 y2 g1 g2 { pf with commitment2 := t' } ctx with
  | false => rfl
  | true =>
    have e := ((cp_verify_ctx_iff L ctx hb hg2 hy1 hy2 ht1 ht2.1).1 h).2.2
    have e' := ((cp_verify_ctx_iff L (pf := { pf with commitment2 := t' }) ctx hb hg2 hy1 hy2
      ht1 ht'.1).1 h').2.2
    exact absurd ((L.eq_iff ht' ht2).2 (add_right_cancel (e'.symm.trans e))) hne

/-- a changed public value (another canonical member), non-zero challenge, prime order:
    rejected, whatever the hash -/
theorem changed_public_rejected [Fact q.Prime] (L : Lawful o q A) {y y' : E} {g : Option E}
    {pf : Schnorr E X} {ctx ctx' : Bytes} (hb : L.valid (baseOr o g)) (hy : L.V y) (hy' : L.V y')
    (ht : L.valid pf.commitment) (hc : L.dx pf.challenge ≠ 0) (hne : y' ≠ y)
    (h : schnorrVerifyCtx o y g pf ctx = true) : schnorrVerifyCtx o y' g pf ctx' = false := by
  cases h' : schnorrVerifyCtx o y' g pf ctx' with
  | false => rfl
  | true =>
    have e := ((schnorr_verify_ctx_iff L ctx hb hy.1 ht).1 h).2
    have e' := ((schnorr_verify_ctx_iff L ctx' hb hy'.1 ht).1 h').2
    have : L.dx pf.challenge • L.den y' = L.dx pf.challenge • L.den y :=
      add_left_cancel (e'.symm.trans e)
    exact absurd ((L.eq_iff hy' hy).2 ((smul_right_inj hc).mp this)) hne

/-! ### 5. changing one part of the statement changes what is hashed -/

/-- Schnorr with a label: base, public value, commitment, label -/
theorem schnorr_statement_change_changes_hash_input (hE : LawfulCodec o.codecE VE)
    {b y t b' y' t' : E} {label label' : Bytes} (hv : VE b ∧ VE y ∧ VE t)
    (hv' : VE b' ∧ VE y' ∧ VE t')
    (hs : AllShort [o.serE b, o.serE y, o.serE t, ctxLabel label])
    (hs' : AllShort [o.serE b', o.serE y', o.serE t', ctxLabel label'])
    (hne : ¬ (b = b' ∧ y = y' ∧ t = t' ∧ label = label')) :
    schnorrBytes o b y t (ctxLabel label) ≠ schnorrBytes o b' y' t' (ctxLabel label') := by
  intro h
  obtain ⟨h1, h2, h3, h4⟩ := C16.schnorr_transcript_injective hE hv hv' hs hs' h
  refine hne ⟨h1, h2, h3, ctxLabel_injective ?_ ?_ h4⟩
  · exact short_label_of_ctxLabel (hs _ (by simp))
  · exact short_label_of_ctxLabel (hs' _ (by simp))

/-- ciphertext-bound Schnorr (`encryption_popk`): base, `gr`, commitment, `mhr`, label -/
theorem popk_statement_change_changes_hash_input (hE : LawfulCodec o.codecE VE)
    {b gr t mhr b' gr' t' mhr' : E} {label label' : Bytes} (hv : VE b ∧ VE gr ∧ VE t)
    (hv' : VE b' ∧ VE gr' ∧ VE t') (hm : VE mhr) (hm' : VE mhr')
    (hs : AllShort [o.serE b, o.serE gr, o.serE t, ctxMhr o mhr label])
    (hs' : AllShort [o.serE b', o.serE gr', o.serE t', ctxMhr o mhr' label'])
    (hne : ¬ (b = b' ∧ gr = gr' ∧ t = t' ∧ mhr = mhr' ∧ label = label')) :
    schnorrBytes o b gr t (ctxMhr o mhr label) ≠ schnorrBytes o b' gr' t' (ctxMhr o mhr' label') := by
  intro h
  obtain ⟨h1, h2, h3, h4⟩ := C16.schnorr_transcript_injective hE hv hv' hs hs' h
  obtain ⟨h5, h6⟩ := C16.ctxMhr_injective' hE hm hm'
    (allShort_of_ctxMhr (hs _ (by simp))) (allShort_of_ctxMhr (hs' _ (by simp))) h4
  exact hne ⟨h1, h2, h3, h5, h6⟩

/-- Chaum-Pedersen with a label -/
theorem cp_statement_change_changes_hash_input (hE : LawfulCodec o.codecE VE)
    {g1 g2 y1 y2 t1 t2 g1' g2' y1' y2' t1' t2' : E} {label label' : Bytes}
    (hv : VE g1 ∧ VE g2 ∧ VE y1 ∧ VE y2 ∧ VE t1 ∧ VE t2)
    (hv' : VE g1' ∧ VE g2' ∧ VE y1' ∧ VE y2' ∧ VE t1' ∧ VE t2')
    (hs : AllShort [o.serE g1, o.serE g2, o.serE y1, o.serE y2, o.serE t1, o.serE t2,
      ctxLabel label])
    (hs' : AllShort [o.serE g1', o.serE g2', o.serE y1', o.serE y2', o.serE t1', o.serE t2',
      ctxLabel label'])
    (hne : ¬ (g1 = g1' ∧ g2 = g2' ∧ y1 = y1' ∧ y2 = y2' ∧ t1 = t1' ∧ t2 = t2' ∧ label = label')) :
    cpBytes o g1 g2 y1 y2 t1 t2 (ctxLabel label)
      ≠ cpBytes o g1' g2' y1' y2' t1' t2' (ctxLabel label') := by
  intro h
  obtain ⟨h1, h2, h3, h4, h5, h6, h7⟩ := C16.cp_transcript_injective hE hv hv' hs hs' h
  refine hne ⟨h1, h2, h3, h4, h5, h6, ctxLabel_injective ?_ ?_ h7⟩
  · exact short_label_of_ctxLabel (hs _ (by simp))
  · exact short_label_of_ctxLabel (hs' _ (by simp))

/-- verifiable decryption: generator, `gr`, key, factor, commitments, `mhr`, label -/
theorem decryption_statement_change_changes_hash_input (hE : LawfulCodec o.codecE VE)
    {g1 g2 y1 y2 t1 t2 mhr g1' g2' y1' y2' t1' t2' mhr' : E} {label label' : Bytes}
    (hv : VE g1 ∧ VE g2 ∧ VE y1 ∧ VE y2 ∧ VE t1 ∧ VE t2)
    (hv' : VE g1' ∧ VE g2' ∧ VE y1' ∧ VE y2' ∧ VE t1' ∧ VE t2') (hm : VE mhr) (hm' : VE mhr')
    (hs : AllShort [o.serE g1, o.serE g2, o.serE y1, o.serE y2, o.serE t1, o.serE t2,
      ctxMhr o mhr label])
    (hs' : AllShort [o.serE g1', o.serE g2', o.serE y1', o.serE y2', o.serE t1', o.serE t2',
      ctxMhr o mhr' label'])
    (hne : ¬ (g1 = g1' ∧ g2 = g2' ∧ y1 = y1' ∧ y2 = y2' ∧ t1 = t1' ∧ t2 = t2' ∧ mhr = mhr' ∧
      label = label')) :
    cpBytes o g1 g2 y1 y2 t1 t2 (ctxMhr o mhr label)
      ≠ cpBytes o g1' g2' y1' y2' t1' t2' (ctxMhr o mhr' label') := by
  intro h
  obtain ⟨h1, h2, h3, h4, h5, h6, h7⟩ := C16.cp_transcript_injective hE hv hv' hs hs' h
  obtain ⟨h8, h9⟩ := C16.ctxMhr_injective' hE hm hm'
    (allShort_of_ctxMhr (hs _ (by simp))) (allShort_of_ctxMhr (hs' _ (by simp))) h7
  exact hne ⟨h1, h2, h3, h4, h5, h6, h8, h9⟩

/-- Schnorr, any contexts: two proofs with the same commitment and the same challenge — in
    particular ONE proof — accepted for two different statements exhibit two different byte
    strings with the same `hashToExp` value.  (Commitment first, statement afterwards: the
    second statement's challenge is the hash of a different input.) -/
theorem accepted_for_two_statements_collision (hE : LawfulCodec o.codecE VE) {y y' : E}
    {g g' : Option E} {pf pf' : Schnorr E X} {ctx ctx' : Bytes}
    (hc : pf'.commitment = pf.commitment) (hch : pf'.challenge = pf.challenge)
    (hv : VE (baseOr o g) ∧ VE y ∧ VE pf.commitment)
    (hv' : VE (baseOr o g') ∧ VE y' ∧ VE pf.commitment)
    (hs : AllShort [o.serE (baseOr o g), o.serE y, o.serE pf.commitment, ctx])
    (hs' : AllShort [o.serE (baseOr o g'), o.serE y', o.serE pf.commitment, ctx'])
    (hne : ¬ (baseOr o g = baseOr o g' ∧ y = y' ∧ ctx = ctx'))
    (h : schnorrVerifyCtx o y g pf ctx = true) (h' : schnorrVerifyCtx o y' g' pf' ctx' = true) :
    ∃ a b : Bytes, a ≠ b ∧ o.hashToExp a = o.hashToExp b := by
  have e := accepted_challenge_eq h
  have e' := accepted_challenge_eq h'
  rw [hc, hch] at e'
  refine ⟨_, _, fun hb => ?_, e.symm.trans e'⟩
  obtain ⟨h1, h2, _, h4⟩ := C16.schnorr_transcript_injective hE hv hv' hs hs' hb
  exact hne ⟨h1, h2, h4⟩

/-- … for `schnorr_verify`: base, public value or label changed -/
theorem schnorr_accepted_for_two_statements_collision (hE : LawfulCodec o.codecE VE) {y y' : E}
    {g g' : Option E} {pf : Schnorr E X} {label label' : Bytes}
    (hv : VE (baseOr o g) ∧ VE y ∧ VE pf.commitment)
    (hv' : VE (baseOr o g') ∧ VE y' ∧ VE pf.commitment)
    (hs : AllShort [o.serE (baseOr o g), o.serE y, o.serE pf.commitment, ctxLabel label])
    (hs' : AllShort [o.serE (baseOr o g'), o.serE y', o.serE pf.commitment, ctxLabel label'])
    (hne : ¬ (baseOr o g = baseOr o g' ∧ y = y' ∧ label = label'))
    (h : schnorrVerify o y g pf label = true) (h' : schnorrVerify o y' g' pf label' = true) :
    ∃ a b : Bytes, a ≠ b ∧ o.hashToExp a = o.hashToExp b :=
  accepted_for_two_statements_collision hE rfl rfl hv hv' hs hs'
    (fun ⟨h1, h2, h3⟩ => hne ⟨h1, h2, ctxLabel_injective
      (short_label_of_ctxLabel (hs _ (by simp))) (short_label_of_ctxLabel (hs' _ (by simp))) h3⟩)
    h h'

/-- … for `encryption_popk_verify`: `gr`, `mhr` or label changed -/
theorem popk_accepted_for_two_statements_collision (hE : LawfulCodec o.codecE VE)
    {mhr gr mhr' gr' : E} {pf : Schnorr E X} {label label' : Bytes}
    (hv : VE o.generator ∧ VE gr ∧ VE pf.commitment) (hgr' : VE gr') (hm : VE mhr)
    (hm' : VE mhr')
    (hs : AllShort [o.serE o.generator, o.serE gr, o.serE pf.commitment, ctxMhr o mhr label])
    (hs' : AllShort [o.serE o.generator, o.serE gr', o.serE pf.commitment, ctxMhr o mhr' label'])
    (hne : ¬ (gr = gr' ∧ mhr = mhr' ∧ label = label'))
    (h : encryptionPopkVerify o mhr gr pf label = true)
    (h' : encryptionPopkVerify o mhr' gr' pf label' = true) :
    ∃ a b : Bytes, a ≠ b ∧ o.hashToExp a = o.hashToExp b :=
  accepted_for_two_statements_collision (g := none) (g' := none) hE rfl rfl hv
    ⟨hv.1, hgr', hv.2.2⟩ hs hs'
    (fun ⟨_, h2, h3⟩ => by
      obtain ⟨h5, h6⟩ := C16.ctxMhr_injective' hE hm hm'
        (allShort_of_ctxMhr (hs _ (by simp))) (allShort_of_ctxMhr (hs' _ (by simp))) h3
      exact hne ⟨h2, h5, h6⟩)
    h h'

/-- Chaum-Pedersen, any contexts -/
theorem cp_accepted_for_two_statements_collision (hE : LawfulCodec o.codecE VE)
    {y1 y2 g2 y1' y2' g2' : E} {g1 g1' : Option E} {pf pf' : ChaumPedersen E X}
    {ctx ctx' : Bytes} (hc1 : pf'.commitment1 = pf.commitment1)
    (hc2 : pf'.commitment2 = pf.commitment2) (hch : pf'.challenge = pf.challenge)
    (hv : VE (baseOr o g1) ∧ VE g2 ∧ VE y1 ∧ VE y2 ∧ VE pf.commitment1 ∧ VE pf.commitment2)
    (hv' : VE (baseOr o g1') ∧ VE g2' ∧ VE y1' ∧ VE y2' ∧ VE pf.commitment1 ∧ VE pf.commitment2)
    (hs : AllShort [o.serE (baseOr o g1), o.serE g2, o.serE y1, o.serE y2, o.serE pf.commitment1,
      o.serE pf.commitment2, ctx])
    (hs' : AllShort [o.serE (baseOr o g1'), o.serE g2', o.serE y1', o.serE y2',
      o.serE pf.commitment1, o.serE pf.commitment2, ctx'])
    (hne : ¬ (baseOr o g1 = baseOr o g1' ∧ g2 = g2' ∧ y1 = y1' ∧ y2 = y2' ∧ ctx = ctx'))
    (h : cpVerifyCtx o y1 y2 g1 g2 pf ctx = true)
    (h' : cpVerifyCtx o y1' y2' g1' g2' pf' ctx' = true) :
    ∃ a b : Bytes, a ≠ b ∧ o.hashToExp a = o.hashToExp b := by
  have e := cp_accepted_challenge_eq h
  have e' := cp_accepted_challenge_eq h'
  rw [hc1, hc2, hch] at e'
  refine ⟨_, _, fun hb => ?_, e.symm.trans e'⟩
  obtain ⟨h1, h2, h3, h4, _, _, h7⟩ := C16.cp_transcript_injective hE hv hv' hs hs' hb
  exact hne ⟨h1, h2, h3, h4, h7⟩

/-- … for `verify_decryption`: key, factor, `gr`, `mhr` or label changed -/
theorem decryption_accepted_for_two_statements_collision (hE : LawfulCodec o.codecE VE)
    {pk f mhr gr pk' f' mhr' gr' : E} {pf : ChaumPedersen E X} {label label' : Bytes}
    (hv : VE o.generator ∧ VE gr ∧ VE pk ∧ VE f ∧ VE pf.commitment1 ∧ VE pf.commitment2)
    (hv' : VE gr' ∧ VE pk' ∧ VE f') (hm : VE mhr) (hm' : VE mhr')
    (hs : AllShort [o.serE o.generator, o.serE gr, o.serE pk, o.serE f, o.serE pf.commitment1,
      o.serE pf.commitment2, ctxMhr o mhr label])
    (hs' : AllShort [o.serE o.generator, o.serE gr', o.serE pk', o.serE f',
      o.serE pf.commitment1, o.serE pf.commitment2, ctxMhr o mhr' label'])
    (hne : ¬ (gr = gr' ∧ pk = pk' ∧ f = f' ∧ mhr = mhr' ∧ label = label'))
    (h : verifyDecryption o pk f mhr gr pf label = true)
    (h' : verifyDecryption o pk' f' mhr' gr' pf label' = true) :
    ∃ a b : Bytes, a ≠ b ∧ o.hashToExp a = o.hashToExp b :=
  cp_accepted_for_two_statements_collision (g1 := none) (g1' := none) hE rfl rfl rfl hv
    ⟨hv.1, hv'.1, hv'.2.1, hv'.2.2, hv.2.2.2.2.1, hv.2.2.2.2.2⟩ hs hs'
    (fun ⟨_, h2, h3, h4, h5⟩ => by
      obtain ⟨h6, h7⟩ := C16.ctxMhr_injective' hE hm hm'
        (allShort_of_ctxMhr (hs _ (by simp))) (allShort_of_ctxMhr (hs' _ (by simp))) h5
      exact hne ⟨h2, h3, h4, h6, h7⟩)
    h h'

/-! ### 6. special soundness (prime group order) -/
section sound
variable [Fact q.Prime]

/-- two accepted Schnorr proofs (any contexts) with the same commitment and different
    challenges give the discrete logarithm of the public value -/
theorem schnorr_special_sound (L : Lawful o q A) {y : E} {g : Option E} {pf pf' : Schnorr E X}
    (ctx ctx' : Bytes) (hb : L.valid (baseOr o g)) (hy : L.valid y) (ht : L.valid pf.commitment)
    (hc : pf'.commitment = pf.commitment) (hne : L.dx pf.challenge ≠ L.dx pf'.challenge)
    (h : schnorrVerifyCtx o y g pf ctx = true) (h' : schnorrVerifyCtx o y g pf' ctx' = true) :
    ∃ w : ZMod q, L.den y = w • L.den (baseOr o g) := by
  obtain ⟨_, e⟩ := (Strand.schnorr_verify_iff L ctx hb hy ht).mp h
  obtain ⟨_, e'⟩ := (Strand.schnorr_verify_iff L ctx' hb hy (hc ▸ ht)).mp h'
  rw [hc] at e'
  exact schnorr_special_sound_alg hne e e'

/-- two accepted Chaum-Pedersen proofs with the same commitments and different challenges give
    ONE exponent for both public values -/
theorem cp_special_sound (L : Lawful o q A) {y1 y2 g2 : E} {g1 : Option E}
    {pf pf' : ChaumPedersen E X} (ctx ctx' : Bytes) (hb : L.valid (baseOr o g1))
    (hg2 : L.valid g2) (hy1 : L.valid y1) (hy2 : L.valid y2) (ht1 : L.valid pf.commitment1)
    (ht2 : L.valid pf.commitment2) (hc1 : pf'.commitment1 = pf.commitment1)
    (hc2 : pf'.commitment2 = pf.commitment2) (hne : L.dx pf.challenge ≠ L.dx pf'.challenge)
    (h : cpVerifyCtx o y1 y2 g1 g2 pf ctx = true) (h' : cpVerifyCtx o y1 y2 g1 g2 pf' ctx' = true) :
    ∃ w : ZMod q, L.den y1 = w • L.den (baseOr o g1) ∧ L.den y2 = w • L.den g2 := by
  obtain ⟨_, e1, e2⟩ := (Strand.cp_verify_iff L ctx hb hg2 hy1 hy2 ht1 ht2).mp h
  obtain ⟨_, e1', e2'⟩ :=
    (Strand.cp_verify_iff L ctx' hb hg2 hy1 hy2 (hc1 ▸ ht1) (hc2 ▸ ht2)).mp h'
  rw [hc1] at e1'
  rw [hc2] at e2'
  exact cp_special_sound_alg hne e1 e1' e2 e2'

end sound

/-! ### non-vacuity: p = 23, q = 11, g = 2; secret 7, public 13 = 2^7; nonce 2, commitment 4 -/
section examples
open Strand.C15

noncomputable def L23 := natLawful P23 .bigint P23_safe

/-- the hypotheses are satisfiable -/
example : L23.valid (baseOr (natOps P23 .bigint) none) ∧ L23.valid 13 ∧ L23.valid 4 :=
  ⟨L23.gen_valid, natValid_of_pow P23 13 (by norm_num [P23]),
   natValid_of_pow P23 4 (by norm_num [P23])⟩
example : L23.V 13 ∧ L23.V 4 :=
  ⟨⟨natValid_of_pow P23 13 (by norm_num [P23]), by show 13 < 23; norm_num⟩,
   ⟨natValid_of_pow P23 4 (by norm_num [P23]), by show 4 < 23; norm_num⟩⟩
/-- the equation of an accepted transcript: challenge 3, response 2 + 3·7 = 23 ≡ 1:
    2^1 = 4 · 13^3 (mod 23); and with the response changed to 2 it fails -/
example : powm 2 1 23 = 4 * powm 13 3 23 % 23 ∧ powm 2 2 23 ≠ 4 * powm 13 3 23 % 23 := by decide
/-- the iff, instantiated (SHA-512 is not evaluated) -/
example (pf : Schnorr ℕ ℕ) (label : Bytes) (ht : L23.valid pf.commitment) :
    schnorrVerify (natOps P23 .bigint) 13 none pf label = true ↔
      pf.challenge = natHashToExp P23 .bigint
        (schnorrBytes (natOps P23 .bigint) 2 13 pf.commitment (ctxLabel label)) ∧
      L23.dx pf.response • L23.den 2 = L23.den pf.commitment + L23.dx pf.challenge • L23.den 13 :=
  schnorr_verify_iff L23 (g := none) label L23.gen_valid
    (natValid_of_pow P23 13 (by norm_num [P23])) ht
/-- a Chaum-Pedersen transcript with only the first equation: bases 2 and 9, publics 13 = 2^7
    and 9^3 = 16 (wrong exponent), nonce 2, challenge 1, response 9 -/
example : (powm 2 9 23 = 4 * powm 13 1 23 % 23) ∧ (powm 9 9 23 ≠ 12 * powm 16 1 23 % 23) := by
  decide
/-- the simulator's commitment for challenge 3 and response 1 is the honest commitment 4 -/
example : simCommitment (natOps P23 .bigint) none 13 3 1 = 4 := by decide
/-- the hash inputs of two statements differing in the label only are different byte strings -/
example : ctxLabel [1] ≠ ctxLabel [2] := by decide

end examples
end Strand.C06
