import StrandModel.Props.C05Core
import StrandModel.Props.WireCorollaries
/-
C05 — honest Schnorr, Chaum-Pedersen, plaintext-knowledge and decryption proofs verify.
The completeness theorems are in `Props/C05Core.lean` (same namespace `Strand.C05`); this file
adds "also after serialization", proved in `Props/WireCorollaries.lean` from C12's codec laws.
-/
set_option linter.unusedSectionVars false
namespace Strand.C05
open Strand

variable (P : Params) (fl : Flavour) (h : SafePrimeGroup P) {k : Nat} (W : WireSize P k)
include h W

theorem schnorr_proof_survives_wire (x r : ℕ) (g : Option ℕ) (label : Bytes)
    (hg : ∀ b, g = some b → b ^ P.q % P.p = 1) :
    (tryFromSlice (codecSchnorr (natOps P fl)) ((codecSchnorr (natOps P fl)).enc
        (schnorrProve (natOps P fl) x ((natOps P fl).emodPow (baseOr (natOps P fl) g) x) g label
          r))).map
      (fun pf' => schnorrVerify (natOps P fl) ((natOps P fl).emodPow (baseOr (natOps P fl) g) x) g
        pf' label) = some true :=
  (Wire.schnorr_proof_survives_wire P fl h W x r g label hg).2

theorem cp_proof_survives_wire (x r : ℕ) (g1 : Option ℕ) (g2 : ℕ) (label : Bytes)
    (hg1 : ∀ b, g1 = some b → b ^ P.q % P.p = 1) (hg2 : g2 ^ P.q % P.p = 1) :
    (tryFromSlice (codecCP (natOps P fl)) ((codecCP (natOps P fl)).enc
        (cpProve (natOps P fl) x ((natOps P fl).emodPow (baseOr (natOps P fl) g1) x)
          ((natOps P fl).emodPow g2 x) g1 g2 label r))).map
      (fun pf' => cpVerify (natOps P fl) ((natOps P fl).emodPow (baseOr (natOps P fl) g1) x)
        ((natOps P fl).emodPow g2 x) g1 g2 pf' label) = some true :=
  (Wire.cp_proof_survives_wire P fl h W x r g1 g2 label hg1 hg2).2

theorem popk_survives_wire (pk m r n : ℕ) (label : Bytes) (hpk : (natLawful P fl h).valid pk)
    (hm : (natLawful P fl h).V m) :
    ∃ c' pf',
      tryFromSlice (codecCt (natOps P fl)) ((codecCt (natOps P fl)).enc
        (encryptWith (natOps P fl) pk m r)) = some c' ∧
      tryFromSlice (codecSchnorr (natOps P fl)) ((codecSchnorr (natOps P fl)).enc
        (encryptionPopk (natOps P fl) r (encryptWith (natOps P fl) pk m r).mhr
          (encryptWith (natOps P fl) pk m r).gr label n)) = some pf' ∧
      encryptionPopkVerify (natOps P fl) c'.mhr c'.gr pf' label = true := by
  obtain ⟨c', pf', h1, h2, _, _, h5⟩ := Wire.popk_survives_wire P fl h W pk m r n label hpk hm
  exact ⟨c', pf', h1, h2, h5⟩

theorem decryption_proof_survives_wire (sk n : ℕ) (c : Ciphertext ℕ) (label : Bytes)
    (hgr : (natLawful P fl h).valid c.gr) :
    (tryFromSlice (codecCP (natOps P fl)) ((codecCP (natOps P fl)).enc
        (decryptionProof (natOps P fl) sk (pkOf (natOps P fl) sk)
          (decryptionFactor (natOps P fl) sk c) c.mhr c.gr label n))).map
      (fun pf' => verifyDecryption (natOps P fl) (pkOf (natOps P fl) sk)
        (decryptionFactor (natOps P fl) sk c) c.mhr c.gr pf' label) = some true :=
  (Wire.decryption_proof_survives_wire P fl h W sk n c label hgr).2

end Strand.C05
