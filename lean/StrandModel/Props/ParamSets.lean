import Mathlib.Tactic.NormNum.Prime
import StrandModel.Lemmas.NatLawful
import StrandModel.Lemmas.PrattCerts
/-
Every parameter set used by the correspondence harness is a safe-prime group
(`SafePrimeGroup`, Lemmas/NatLawful.lean): p, q prime, p = 2q+1, 1 < g < p, g^q ≡ 1 (mod p).
Small sets: primality by `norm_num`.  The 62-bit set: Pratt certificates for p and q
(Lemmas/PrattCerts.lean, kernel-checked, no `native_decide`).  Hence `natLawful` applies to
each of them without any remaining hypothesis.
-/
set_option linter.unusedSectionVars false
namespace Strand.ParamSets
open Strand

def S7 : Params := ⟨7, 3, 2, 2⟩
theorem S7_safe : SafePrimeGroup S7 where
  p_prime := by show Nat.Prime 7; norm_num
  q_prime := by show Nat.Prime 3; norm_num
  p_eq := by decide
  g_gt := by decide
  g_lt := by decide
  g_order := by decide +kernel

def S11 : Params := ⟨11, 5, 4, 2⟩
theorem S11_safe : SafePrimeGroup S11 where
  p_prime := by show Nat.Prime 11; norm_num
  q_prime := by show Nat.Prime 5; norm_num
  p_eq := by decide
  g_gt := by decide
  g_lt := by decide
  g_order := by decide +kernel

def S23 : Params := ⟨23, 11, 2, 2⟩
theorem S23_safe : SafePrimeGroup S23 where
  p_prime := by show Nat.Prime 23; norm_num
  q_prime := by show Nat.Prime 11; norm_num
  p_eq := by decide
  g_gt := by decide
  g_lt := by decide
  g_order := by decide +kernel

def S47 : Params := ⟨47, 23, 4, 2⟩
theorem S47_safe : SafePrimeGroup S47 where
  p_prime := by show Nat.Prime 47; norm_num
  q_prime := by show Nat.Prime 23; norm_num
  p_eq := by decide
  g_gt := by decide
  g_lt := by decide
  g_order := by decide +kernel

def S59 : Params := ⟨59, 29, 4, 2⟩
theorem S59_safe : SafePrimeGroup S59 where
  p_prime := by show Nat.Prime 59; norm_num
  q_prime := by show Nat.Prime 29; norm_num
  p_eq := by decide
  g_gt := by decide
  g_lt := by decide
  g_order := by decide +kernel

def S83 : Params := ⟨83, 41, 3, 2⟩
theorem S83_safe : SafePrimeGroup S83 where
  p_prime := by show Nat.Prime 83; norm_num
  q_prime := by show Nat.Prime 41; norm_num
  p_eq := by decide
  g_gt := by decide
  g_lt := by decide
  g_order := by decide +kernel

def S107 : Params := ⟨107, 53, 4, 2⟩
theorem S107_safe : SafePrimeGroup S107 where
  p_prime := by show Nat.Prime 107; norm_num
  q_prime := by show Nat.Prime 53; norm_num
  p_eq := by decide
  g_gt := by decide
  g_lt := by decide
  g_order := by decide +kernel

def S167 : Params := ⟨167, 83, 4, 2⟩
theorem S167_safe : SafePrimeGroup S167 where
  p_prime := by show Nat.Prime 167; norm_num
  q_prime := by show Nat.Prime 83; norm_num
  p_eq := by decide
  g_gt := by decide
  g_lt := by decide
  g_order := by decide +kernel

def S179 : Params := ⟨179, 89, 4, 2⟩
theorem S179_safe : SafePrimeGroup S179 where
  p_prime := by show Nat.Prime 179; norm_num
  q_prime := by show Nat.Prime 89; norm_num
  p_eq := by decide
  g_gt := by decide
  g_lt := by decide
  g_order := by decide +kernel

def S227 : Params := ⟨227, 113, 4, 2⟩
theorem S227_safe : SafePrimeGroup S227 where
  p_prime := by show Nat.Prime 227; norm_num
  q_prime := by show Nat.Prime 113; norm_num
  p_eq := by decide
  g_gt := by decide
  g_lt := by decide
  g_order := by decide +kernel

def S263 : Params := ⟨263, 131, 4, 2⟩
theorem S263_safe : SafePrimeGroup S263 where
  p_prime := by show Nat.Prime 263; norm_num
  q_prime := by show Nat.Prime 131; norm_num
  p_eq := by decide
  g_gt := by decide
  g_lt := by decide
  g_order := by decide +kernel

/-- the 62-bit set: p = 2305843009213699919 = 2q+1, q = 1152921504606849959, g = 4 -/
def S62 : Params := ⟨2305843009213699919, 1152921504606849959, 4, 2⟩
theorem S62_safe : SafePrimeGroup S62 where
  p_prime := PrattCerts.prime_2305843009213699919
  q_prime := PrattCerts.prime_1152921504606849959
  p_eq := by decide +kernel
  g_gt := by decide
  g_lt := by decide +kernel
  g_order := by decide +kernel


/-- a 130-bit set (q - 1 smooth, so the Pratt certificate is short): limb counts between the 62-bit and the 2048-bit sets -/
def S130 : Params := ⟨1096684572681074249423426611232341077287, 548342286340537124711713305616170538643, 4, 2⟩
theorem S130_safe : SafePrimeGroup S130 where
  p_prime := PrattCerts.prime_1096684572681074249423426611232341077287
  q_prime := PrattCerts.prime_548342286340537124711713305616170538643
  p_eq := by decide +kernel
  g_gt := by decide
  g_lt := by decide +kernel
  g_order := by decide +kernel

/-- a 256-bit set (q - 1 smooth, so the Pratt certificate is short): limb counts between the 62-bit and the 2048-bit sets -/
def S256 : Params := ⟨105471767675930315612036171777931760705188871995060243858521972678074607394647, 52735883837965157806018085888965880352594435997530121929260986339037303697323, 4, 2⟩
theorem S256_safe : SafePrimeGroup S256 where
  p_prime := PrattCerts.prime_105471767675930315612036171777931760705188871995060243858521972678074607394647
  q_prime := PrattCerts.prime_52735883837965157806018085888965880352594435997530121929260986339037303697323
  p_eq := by decide +kernel
  g_gt := by decide
  g_lt := by decide +kernel
  g_order := by decide +kernel

/-- all harness parameter sets -/
def all : List Params := [S7, S11, S23, S47, S59, S83, S107, S167, S179, S227, S263, S62, S130, S256]

theorem all_safe : ∀ P ∈ all, SafePrimeGroup P := by
  intro P hP
  simp only [all, List.mem_cons, List.mem_nil_iff, or_false] at hP
  rcases hP with rfl | rfl | rfl | rfl | rfl | rfl | rfl | rfl | rfl | rfl | rfl | rfl | rfl | rfl
  · exact S7_safe
  · exact S11_safe
  · exact S23_safe
  · exact S47_safe
  · exact S59_safe
  · exact S83_safe
  · exact S107_safe
  · exact S167_safe
  · exact S179_safe
  · exact S227_safe
  · exact S263_safe
  · exact S62_safe
  · exact S130_safe
  · exact S256_safe

/-- so each of them is a lawful back-end, in every flavour, with no remaining hypothesis -/
theorem all_lawful (fl : Flavour) : ∀ P ∈ all,
    Nonempty (Lawful (natOps P fl) P.q (NatA P)) :=
  fun P hP => ⟨natLawful P fl (all_safe P hP)⟩

example : Lawful (natOps S62 .bigint) S62.q (NatA S62) := natLawful S62 .bigint S62_safe
example : (natLawful S62 .bigint S62_safe).valid S62.g := (natLawful S62 .bigint S62_safe).gen_valid

end Strand.ParamSets
