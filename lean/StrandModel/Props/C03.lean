import StrandModel.Props.C03Core
import StrandModel.Props.WireCorollaries
/-
C03 — honest shuffle proofs always verify.  `shuffle_complete` (every N ≥ 1, every permutation,
every tape, every hash, any lawful back-end) is in `Props/C03Core.lean` (same namespace
`Strand.C03`).  This file adds the clause "also after all of them have been serialized, written
out and deserialized", proved in `Props/WireCorollaries.lean` from C12's codec laws.
-/
set_option linter.unusedSectionVars false
namespace Strand.C03
open Strand

/-- the honest proof, the input list, the output list, the public key and the generator list
    all survive serialisation, and the verifier accepts the DESERIALISED values -/
theorem shuffle_proof_survives_wire (P : Params) (fl : Flavour) (h : SafePrimeGroup P) {k : Nat}
    (W : WireSize P k) (gens : List ℕ) (pk : ℕ) (es : List (Ciphertext ℕ)) (perm : List Nat)
    (tape1 tape2 : List ℕ) (label : Bytes)
    (hN : 0 < es.length) (hperm : perm.Perm (List.range es.length))
    (hgens : gens.length = es.length + 1) (hgv : ∀ g ∈ gens, (natLawful P fl h).V g)
    (hpk : (natLawful P fl h).V pk)
    (hes : ∀ c ∈ es, (natLawful P fl h).V c.mhr ∧ (natLawful P fl h).V c.gr)
    (ht1 : es.length ≤ tape1.length) (ht2 : 4 * es.length + 4 ≤ tape2.length)
    (h32 : es.length + 1 < 2 ^ 32) :
    ∃ eps rs rest1 pf rest2,
      applyPermutation (natOps P fl) pk perm es tape1 = .ok ((eps, rs), rest1) ∧
      genProof (natOps P fl) gens pk es eps rs perm label tape2 = .ok (pf, rest2) ∧
      ∃ pf' es' eps' pk' gens',
        tryFromSlice (codecShuffleProof (natOps P fl)) ((codecShuffleProof (natOps P fl)).enc pf)
          = some pf' ∧
        tryFromSlice (vecC (natOps P fl)) ((vecC (natOps P fl)).enc es) = some es' ∧
        tryFromSlice (vecC (natOps P fl)) ((vecC (natOps P fl)).enc eps) = some eps' ∧
        tryFromSlice (codecPk (natOps P fl)) ((codecPk (natOps P fl)).enc pk) = some pk' ∧
        tryFromSlice (vecE (natOps P fl)) ((vecE (natOps P fl)).enc gens) = some gens' ∧
        checkProof (natOps P fl) gens' pk' pf' es' eps' label = true :=
  Wire.shuffle_proof_survives_wire P fl h W gens pk es perm tape1 tape2 label hN hperm hgens hgv
    hpk hes ht1 ht2 h32

end Strand.C03
