import StrandModel.Lemmas.PanicAwareLemmas
import StrandModel.Props.C15
/-
C13 — no panic, no unbounded allocation on untrusted input (multiplicative back-ends).

The panic-aware layer `Model/PanicAware.lean` mirrors, in source order, every place where the
Rust of `backend/num_bigint.rs`, `backend/malachite.rs`, `shuffler.rs::check_proof`, the sigma
verifiers of `zkp.rs` and `keymaker.rs::verify_decryption_factors` can panic:
`Res α = Except Fail α`, `.error .panic` = the Rust panics, `.error .err` = it returns `Err`.

Proved here, for a prime modulus `p = 2q+1` (for `check_proof`: a `SafePrimeGroup`):

* decoding an element / exponent / plaintext / ciphertext / proof from ARBITRARY bytes never
  panics and agrees with the pure (Option) model (`element_decode_*`, `exp_decode_*`,
  `plaintext_decode_*`, `*_decode_eq`);  the primality of `p` is NECESSARY for the num-bigint
  flavour (`legendre` = `checked_legendre(..).expect(..)`): witness `p = 15` below;
* `encode` never panics and agrees with the pure model; `decode` does not panic on members;
* `invp` does not panic on canonical members (`invpR_ok_of_valid`) — it DOES panic on `0`
  (`invp_zero_panics`), which is why validity of decoded data matters;
* the REPAIRED `check_proof` never panics on decoded data, for any vector lengths, `N = 0`,
  mismatched lists, empty generator list, and equals the pure verifier (`check_proof_total`);
  end to end from bytes: `verify_shuffle_bytes_total`;
* the PINNED `check_proof` (before commit 54805ce) panics on a proof with a short `cs` vector,
  on an empty generator list and on an empty ballot box, and with an empty `t_hats` vector it
  never inspects the chain responses (`check_proof_prefix_*`, defects F1);
  the PINNED malachite plaintext decoder panics on a digit `≥ 256` (`plaintext_prefix_panics`, F3);
* `verify_decryption_factors` panics exactly when the three lengths differ (it is the caller's
  obligation to pass equal lengths; the `Option` model returns `none` there);
* sizes: a decoded `Vec<u8>` never exceeds its input, a decoded `Vec<T>` has at most as many
  items as input bytes, and borsh's only speculative allocation is `≤ max 4096 (size_of T)`.

Remark: the sigma-protocol verifiers contain no panic source at all (only `mod_pow`, `mul`,
`modp`, hashing, `eq`); their `Res` form is `.ok` of the pure verifier.
-/
set_option linter.unusedSectionVars false
namespace Strand.C13
open Strand

/-! ### decoding elements, exponents, plaintexts -/

/-- decoding an element from arbitrary bytes never panics (prime `p = 2q+1`) -/
theorem element_decode_total (P : Params) (hprime : P.p.Prime) (hp : P.p = 2 * P.q + 1)
    (fl : Flavour) (bs : Bytes) : elementFromBytesR P fl bs ≠ .error .panic := by
  rw [elementFromBytesR_eq P hprime hp]
  exact optR_ne_panic _

theorem element_decode_ok_iff (P : Params) (hprime : P.p.Prime) (hp : P.p = 2 * P.q + 1)
    (fl : Flavour) (bs : Bytes) (n : ℕ) :
    elementFromBytesR P fl bs = .ok n ↔ elementFromBytes P fl bs = some n := by
  rw [elementFromBytesR_eq P hprime hp]
  exact optR_eq_ok_iff

theorem element_decode_err_iff (P : Params) (hprime : P.p.Prime) (hp : P.p = 2 * P.q + 1)
    (fl : Flavour) (bs : Bytes) :
    elementFromBytesR P fl bs = .error .err ↔ elementFromBytes P fl bs = none := by
  rw [elementFromBytesR_eq P hprime hp]
  exact optR_eq_err_iff

/-- the borsh decoder of elements (`Vec<u8>` then `element_from_bytes`) is the pure codec -/
theorem element_codec_eq (P : Params) (hprime : P.p.Prime) (hp : P.p = 2 * P.q + 1)
    (fl : Flavour) (bs : Bytes) : natCodecER P fl bs = optR ((natCodecE P fl).dec bs) :=
  congrFun (natCodecER_eq P hprime hp fl) bs

theorem element_codec_total (P : Params) (hprime : P.p.Prime) (hp : P.p = 2 * P.q + 1)
    (fl : Flavour) (bs : Bytes) : natCodecER P fl bs ≠ .error .panic := by
  rw [element_codec_eq P hprime hp]
  exact optR_ne_panic _

/-- exponents: no hypothesis at all -/
theorem exp_decode_total (P : Params) (fl : Flavour) (bs : Bytes) :
    expFromBytesR P fl bs ≠ .error .panic := by
  rw [expFromBytesR_eq]
  exact optR_ne_panic _

theorem exp_decode_ok_iff (P : Params) (fl : Flavour) (bs : Bytes) (x : ℕ) :
    expFromBytesR P fl bs = .ok x ↔ expFromBytes P fl bs = some x := by
  rw [expFromBytesR_eq]
  exact optR_eq_ok_iff

theorem exp_codec_total (P : Params) (fl : Flavour) (bs : Bytes) :
    natCodecXR P fl bs ≠ .error .panic := by
  rw [natCodecXR_eq]
  exact optR_ne_panic _

/-- plaintexts (both flavours, REPAIRED decoder): never a panic, agrees with the pure codec -/
theorem plaintext_decode_total (fl : Flavour) (bs : Bytes) : natCodecPR fl bs ≠ .error .panic := by
  rw [natCodecPR_eq]
  exact optR_ne_panic _

theorem plaintext_decode_eq (fl : Flavour) (bs : Bytes) :
    natCodecPR fl bs = optR ((natCodecP fl).dec bs) := natCodecPR_eq fl bs

/-- F3, closed witness: the PINNED malachite plaintext decoder panics on the 6 bytes
    `01 00 00 00 | 00 01` (one `u16` digit `= 256`) -/
theorem plaintext_prefix_panics :
    natCodecPR_prefix .malachite [1, 0, 0, 0, 0, 1] = .error .panic := by decide

/-- … which the repaired decoder rejects with `Err` -/
theorem plaintext_repaired_rejects :
    natCodecPR .malachite [1, 0, 0, 0, 0, 1] = .error .err := by decide

/-- the pinned bigint plaintext decoder was already total -/
theorem plaintext_prefix_bigint_total (bs : Bytes) :
    natCodecPR_prefix .bigint bs = natCodecPR .bigint bs := rfl

/-! ### composite wire types -/

theorem ciphertext_decode_eq (P : Params) (hprime : P.p.Prime) (hp : P.p = 2 * P.q + 1)
    (fl : Flavour) (bs : Bytes) :
    ctFromBytesR P fl bs = optR (tryFromSlice (codecCt (natOps P fl)) bs) :=
  ctFromBytesR_eq P hprime hp fl bs

theorem ciphertexts_decode_eq (P : Params) (hprime : P.p.Prime) (hp : P.p = 2 * P.q + 1)
    (fl : Flavour) (bs : Bytes) :
    ctsFromBytesR P fl bs = optR (tryFromSlice (vecC (natOps P fl)) bs) :=
  ctsFromBytesR_eq P hprime hp fl bs

theorem schnorr_decode_eq (P : Params) (hprime : P.p.Prime) (hp : P.p = 2 * P.q + 1)
    (fl : Flavour) (bs : Bytes) :
    schnorrFromBytesR P fl bs = optR (tryFromSlice (codecSchnorr (natOps P fl)) bs) :=
  schnorrFromBytesR_eq P hprime hp fl bs

theorem cp_decode_eq (P : Params) (hprime : P.p.Prime) (hp : P.p = 2 * P.q + 1)
    (fl : Flavour) (bs : Bytes) :
    cpFromBytesR P fl bs = optR (tryFromSlice (codecCP (natOps P fl)) bs) :=
  cpFromBytesR_eq P hprime hp fl bs

theorem shuffle_proof_decode_eq (P : Params) (hprime : P.p.Prime) (hp : P.p = 2 * P.q + 1)
    (fl : Flavour) (bs : Bytes) :
    shuffleProofFromBytesR P fl bs
      = optR (tryFromSlice (codecShuffleProof (natOps P fl)) bs) :=
  shuffleProofFromBytesR_eq P hprime hp fl bs

/-- hence none of the composite decoders panics -/
theorem wire_decode_total (P : Params) (hprime : P.p.Prime) (hp : P.p = 2 * P.q + 1)
    (fl : Flavour) (bs : Bytes) :
    ctFromBytesR P fl bs ≠ .error .panic ∧ ctsFromBytesR P fl bs ≠ .error .panic ∧
      schnorrFromBytesR P fl bs ≠ .error .panic ∧ cpFromBytesR P fl bs ≠ .error .panic ∧
      shuffleProofFromBytesR P fl bs ≠ .error .panic := by
  rw [ciphertext_decode_eq P hprime hp, ciphertexts_decode_eq P hprime hp,
    schnorr_decode_eq P hprime hp, cp_decode_eq P hprime hp, shuffle_proof_decode_eq P hprime hp]
  exact ⟨optR_ne_panic _, optR_ne_panic _, optR_ne_panic _, optR_ne_panic _, optR_ne_panic _⟩

/-! ### encode / decode -/

theorem encode_total (P : Params) (hprime : P.p.Prime) (hp : P.p = 2 * P.q + 1) (fl : Flavour)
    (m : ℕ) : encodeR P fl m ≠ .error .panic := by
  rw [encodeR_eq P hprime hp]
  exact optR_ne_panic _

theorem encode_ok_iff (P : Params) (hprime : P.p.Prime) (hp : P.p = 2 * P.q + 1) (fl : Flavour)
    (m e : ℕ) : encodeR P fl m = .ok e ↔ Nat'.encode P m = some e := by
  rw [encodeR_eq P hprime hp]
  exact optR_eq_ok_iff

/-- `decode` (unsigned subtractions) is total on `[1, p)`, in particular on members … -/
theorem decode_total_of_range (P : Params) {e : ℕ} (h1 : 1 ≤ e) (h2 : e < P.p) :
    decodeR P e = .ok (Nat'.decode P e) := decodeR_eq P h1 h2

theorem decode_total_of_valid {P : Params} (h : SafePrimeGroup P) {e : ℕ} (he : natValid P e)
    (hlt : e < P.p) : decodeR P e = .ok (Nat'.decode P e) := by
  have : Fact P.p.Prime := ⟨h.p_prime⟩
  refine decodeR_eq P ?_ hlt
  rcases Nat.eq_zero_or_pos e with rfl | hpos
  · exfalso
    unfold natValid at he
    rw [Nat.cast_zero, zero_pow h.q_prime.ne_zero] at he
    exact zero_ne_one he
  · exact hpos

/-- … and panics exactly on `0` and on `e ≥ p` (`q < p`) -/
theorem decode_panics_iff (P : Params) (hqp : P.q < P.p) (e : ℕ) :
    decodeR P e = .error .panic ↔ e = 0 ∨ P.p ≤ e := decodeR_panic_iff P hqp e

/-! ### inversion -/

/-- `invp` on a canonical member never panics (`expect("there is always an inverse for prime
    p")` holds: a member is non-zero mod the prime `p`) -/
theorem invpR_ok_of_valid {P : Params} (h : SafePrimeGroup P) (fl : Flavour) {a : ℕ}
    (ha : natValid P a) (hlt : a < P.p) : invpR P fl a = .ok (Nat'.invp P a) :=
  Strand.invpR_ok_of_valid h fl ha hlt

/-- the `expect` is NOT vacuous: `0` (or any multiple of `p`) panics in both flavours; in the
    malachite flavour so does any unreduced value `≥ p` -/
theorem invp_zero_panics (P : Params) (hp : 1 < P.p) (fl : Flavour) :
    invpR P fl 0 = .error .panic := invpR_zero_panics P hp fl

theorem invp_malachite_unreduced_panics (P : Params) (a : ℕ) (h : P.p ≤ a) :
    invpR P .malachite a = .error .panic := by
  unfold invpR
  simp only
  rw [if_pos (Or.inr (Or.inl h))]

/-- `PrivateKey::decrypt` on a decoded ciphertext never panics -/
theorem decrypt_total {P : Params} (h : SafePrimeGroup P) (fl : Flavour) (sk : ℕ)
    (c : Ciphertext ℕ) (hgr : natValid P c.gr) :
    decryptR P fl sk c = .ok (decrypt (natOps P fl) sk c) := by
  have e := invpR_ok_of_V h fl ((natLawful P fl h).emodPow_V sk hgr)
  unfold decryptR divpR
  rw [show Nat'.emodPow P c.gr sk = (natOps P fl).emodPow c.gr sk from rfl, e]
  rfl

/-! ### the shuffle verifier -/

/-- the REPAIRED `check_proof` on decoded data (members; `pk` and the chain commitments also
    canonical, which decoding guarantees) never panics and is the pure verifier — for ANY vector
    lengths, `N = 0`, mismatched lists, an empty generator list -/
theorem check_proof_total {P : Params} (h : SafePrimeGroup P) (fl : Flavour)
    (gens : List ℕ) (pk : ℕ) (pf : ShuffleProof ℕ ℕ) (es ePrimes : List (Ciphertext ℕ))
    (label : Bytes)
    (hgens : ∀ g ∈ gens, natValid P g)
    (hpk : natValid P pk ∧ pk < P.p)
    (hcs : ∀ a ∈ pf.cs, natValid P a)
    (hch : ∀ a ∈ pf.cHats, natValid P a ∧ a < P.p)
    (hes : ∀ e ∈ es, natValid P e.mhr ∧ natValid P e.gr) :
    checkProofR P fl gens pk pf es ePrimes label
      = .ok (checkProof (natOps P fl) gens pk pf es ePrimes label) :=
  checkProofR_eq_checkProof h fl gens pk pf es ePrimes label hgens hpk hcs hch hes

theorem check_proof_never_panics {P : Params} (h : SafePrimeGroup P) (fl : Flavour)
    (gens : List ℕ) (pk : ℕ) (pf : ShuffleProof ℕ ℕ) (es ePrimes : List (Ciphertext ℕ))
    (label : Bytes)
    (hgens : ∀ g ∈ gens, natValid P g)
    (hpk : natValid P pk ∧ pk < P.p)
    (hcs : ∀ a ∈ pf.cs, natValid P a)
    (hch : ∀ a ∈ pf.cHats, natValid P a ∧ a < P.p)
    (hes : ∀ e ∈ es, natValid P e.mhr ∧ natValid P e.gr) :
    checkProofR P fl gens pk pf es ePrimes label ≠ .error .panic := by
  rw [check_proof_total h fl gens pk pf es ePrimes label hgens hpk hcs hch hes]
  intro hc; cases hc

/-- ill-formed lengths are REJECTED (not a panic) whatever the data, even non-members -/
theorem check_proof_rejects_bad_lengths (P : Params) (fl : Flavour) (gens : List ℕ) (pk : ℕ)
    (pf : ShuffleProof ℕ ℕ) (es ePrimes : List (Ciphertext ℕ)) (label : Bytes)
    (hbad : es.length = 0 ∨ ePrimes.length ≠ es.length ∨ gens.length ≠ es.length + 1 ∨
      pf.cs.length ≠ es.length ∨ pf.cHats.length ≠ es.length ∨ pf.t.tHats.length ≠ es.length ∨
      pf.s.sHats.length ≠ es.length ∨ pf.s.sPrimes.length ≠ es.length) :
    checkProofR P fl gens pk pf es ePrimes label = .ok false := by
  simp only [checkProofR]
  rw [if_pos hbad]

/-- end to end: public key, proof and both ciphertext vectors given as ARBITRARY BYTES; the
    generators are locally derived members (C17).  The outcome is `Err` (some input does not
    decode) or the pure verifier's verdict — never a panic. -/
theorem verify_shuffle_bytes_eq {P : Params} (h : SafePrimeGroup P) (fl : Flavour)
    (gens : List ℕ) (hgens : ∀ g ∈ gens, natValid P g) (pkB pfB esB ePrimesB label : Bytes) :
    verifyShuffleBytesR P fl gens pkB pfB esB ePrimesB label
      = match tryFromSlice (natOps P fl).codecE pkB,
              tryFromSlice (codecShuffleProof (natOps P fl)) pfB,
              tryFromSlice (vecC (natOps P fl)) esB,
              tryFromSlice (vecC (natOps P fl)) ePrimesB with
        | some pk, some pf, some es, some ePrimes =>
          .ok (checkProof (natOps P fl) gens pk pf es ePrimes label)
        | _, _, _, _ => .error .err :=
  verifyShuffleBytesR_eq h fl gens hgens pkB pfB esB ePrimesB label

theorem verify_shuffle_bytes_total {P : Params} (h : SafePrimeGroup P) (fl : Flavour)
    (gens : List ℕ) (hgens : ∀ g ∈ gens, natValid P g) (pkB pfB esB ePrimesB label : Bytes) :
    verifyShuffleBytesR P fl gens pkB pfB esB ePrimesB label ≠ .error .panic := by
  rw [verify_shuffle_bytes_eq h fl gens hgens]
  split <;> (intro hc; cases hc)

/-! ### the pinned verifier (before commit 54805ce) -/

/-- `&self.generators[1..]` -/
theorem check_proof_prefix_panics_nil_gens (P : Params) (fl : Flavour) (pk : ℕ)
    (pf : ShuffleProof ℕ ℕ) (es ePrimes : List (Ciphertext ℕ)) (label : Bytes) :
    checkProofR_prefix P fl [] pk pf es ePrimes label = .error .panic := rfl

/-- `proof.cs.0[i]` with a `cs` vector shorter than the ballot box: for ALL other inputs -/
theorem check_proof_prefix_panics_short_cs (P : Params) (fl : Flavour) (gens : List ℕ) (pk : ℕ)
    (pf : ShuffleProof ℕ ℕ) (es ePrimes : List (Ciphertext ℕ)) (label : Bytes)
    (h : pf.cs.length < es.length) :
    checkProofR_prefix P fl gens pk pf es ePrimes label = .error .panic :=
  checkProofR_prefix_short_cs P fl gens pk pf es ePrimes label h

/-- `proof.c_hats.0[N - 1]` on an empty ballot box, whatever the proof -/
theorem check_proof_prefix_panics_empty (P : Params) (hp : 1 < P.p) (fl : Flavour) (h0 pk : ℕ)
    (pf : ShuffleProof ℕ ℕ) (label : Bytes) :
    checkProofR_prefix P fl [h0] pk pf [] [] label = .error .panic :=
  checkProofR_prefix_empty P hp fl h0 pk pf label

/-- closed witness (`p = 23`, `N = 1`, all data members, `proof.cs = []`): the pinned verifier
    panics, the repaired one rejects -/
def witnessProof : ShuffleProof ℕ ℕ :=
  { t := ⟨1, 1, 1, 1, 1, [1]⟩, s := ⟨0, 0, 0, 0, [0], [0]⟩, cs := [], cHats := [3] }

theorem check_proof_prefix_panics :
    checkProofR_prefix C15.P23 .bigint [2, 3] 4 witnessProof [⟨2, 3⟩] [⟨4, 6⟩] []
      = .error .panic :=
  checkProofR_prefix_short_cs _ _ _ _ _ _ _ _ (by decide)

theorem check_proof_repaired_rejects :
    checkProofR C15.P23 .bigint [2, 3] 4 witnessProof [⟨2, 3⟩] [⟨4, 6⟩] [] = .ok false :=
  check_proof_rejects_bad_lengths _ _ _ _ _ _ _ _ (by decide)

/-- F1 in the pinned verifier: with an EMPTY `t_hats` vector the outcome does not depend on the
    chain responses `s_hats` at all (any two vectors of length `≥ N` give the same result): the
    `N` chain equations are never checked.  Holds for ALL inputs. -/
theorem check_proof_prefix_accepts_short (P : Params) (fl : Flavour) (gens : List ℕ) (pk : ℕ)
    (pf : ShuffleProof ℕ ℕ) (es ePrimes : List (Ciphertext ℕ)) (label : Bytes) (sh' : List ℕ)
    (ht : pf.t.tHats = []) (h1 : es.length ≤ pf.s.sHats.length) (h2 : es.length ≤ sh'.length) :
    checkProofR_prefix P fl gens pk pf es ePrimes label
      = checkProofR_prefix P fl gens pk { pf with s := { pf.s with sHats := sh' } } es ePrimes
          label :=
  checkProofR_prefix_ignores_sHats P fl gens pk pf es ePrimes label sh' ht h1 h2

/-- … whereas the repaired verifier rejects every proof with an empty `t_hats` (`N ≥ 1`)  -/
theorem check_proof_repaired_rejects_short (P : Params) (fl : Flavour) (gens : List ℕ) (pk : ℕ)
    (pf : ShuffleProof ℕ ℕ) (es ePrimes : List (Ciphertext ℕ)) (label : Bytes)
    (ht : pf.t.tHats.length < es.length) :
    checkProofR P fl gens pk pf es ePrimes label = .ok false :=
  check_proof_rejects_bad_lengths P fl gens pk pf es ePrimes label
    (Or.inr (Or.inr (Or.inr (Or.inr (Or.inr (Or.inl (by omega)))))))

/-! ### keymaker -/

/-- `verify_decryption_factors` is the `Option` model with `none ↦ panic` … -/
theorem verify_decryption_factors_eq {E X : Type} [DecidableEq E] [DecidableEq X] (o : Ops E X)
    (pk : E) (cts : List (Ciphertext E)) (decs : List E) (proofs : List (ChaumPedersen E X))
    (label : Bytes) :
    verifyDecryptionFactorsR o pk cts decs proofs label
      = match verifyDecryptionFactors o pk cts decs proofs label with
        | none => .error .panic
        | some b => .ok b :=
  verifyDecryptionFactorsR_eq o pk cts decs proofs label

/-- … so it panics (`assert_eq!`) exactly when the three lengths differ: the caller has to
    check the lengths of untrusted vectors BEFORE the call -/
theorem verify_decryption_factors_panics_iff {E X : Type} [DecidableEq E] [DecidableEq X]
    (o : Ops E X) (pk : E) (cts : List (Ciphertext E)) (decs : List E)
    (proofs : List (ChaumPedersen E X)) (label : Bytes) :
    verifyDecryptionFactorsR o pk cts decs proofs label = .error .panic ↔
      decs.length ≠ proofs.length ∨ decs.length ≠ cts.length := by
  unfold verifyDecryptionFactorsR
  by_cases h1 : decs.length ≠ proofs.length
  · rw [if_pos h1]; exact ⟨fun _ => Or.inl h1, fun _ => rfl⟩
  · rw [if_neg h1]
    by_cases h2 : decs.length ≠ cts.length
    · rw [if_pos h2]; exact ⟨fun _ => Or.inr h2, fun _ => rfl⟩
    · rw [if_neg h2]
      constructor
      · intro h; cases h
      · rintro (h | h)
        · exact absurd h h1
        · exact absurd h h2

/-! ### sizes -/

/-- `Vec<u8>`: payload and rest account for the input minus the 4-byte length prefix: the
    decoder never produces (or allocates) more than it was given -/
theorem decoded_size_le {bs a r : Bytes} (h : bytesVec.dec bs = some (a, r)) :
    a.length + r.length + 4 = bs.length := decBytesVec_size h

/-- `Vec<T>`: when every item consumes at least one byte, the number of decoded items (plus
    the rest, plus the prefix) is at most the number of input bytes -/
theorem decoded_count_le {α : Type} {c : Codec α}
    (hc : ∀ bs a r, c.dec bs = some (a, r) → r.length < bs.length) {bs r : Bytes} {xs : List α}
    (h : (vecOf c).dec bs = some (xs, r)) : xs.length + r.length + 4 ≤ bs.length :=
  vecOf_size hc h

/-- the `StrandVector` wrappers (`Vec<Vec<u8>>`): every inner item consumes `≥ 4` bytes -/
theorem decoded_nested_count_le {bs r : Bytes} {items : List Bytes}
    (h : (vecOf bytesVec).dec bs = some (items, r)) : items.length + r.length + 4 ≤ bs.length :=
  vecOf_size (fun bs a r hd => by have := decBytesVec_size hd; omega) h

/-- borsh's only speculative allocation (`Vec::with_capacity(hint::cautious::<T>(len))`) is at
    most 4096 bytes, or one item if `size_of::<T>() > 4096`; no hypothesis on the claimed `len` -/
theorem prealloc_le (sz len : ℕ) : cautious sz len * sz ≤ max 4096 sz := Strand.prealloc_le sz len

/-! ### non-vacuity, and necessity of the hypotheses -/

example : elementFromBytesR C15.P23 .bigint [2] = .ok 2 := by decide
example : elementFromBytesR C15.P23 .malachite [1, 2] = .error .err := by decide   -- 258 ≥ p
example : elementFromBytesR C15.P23 .bigint [5] = .error .err := by decide        -- non-residue
example : elementFromBytesR C15.P23 .bigint [] = .error .err := by decide         -- 0

/-- primality of `p` is NECESSARY for the num-bigint flavour: for `p = 15` (`q = 7`) the Euler
    value of `2` is `8 ∉ {0, 1, 14}` and `legendre`'s `expect` fires on the 5 input bytes
    `01 00 00 00 02`; the malachite flavour (Jacobi symbol) just rejects -/
example : natCodecER ⟨15, 7, 2, 2⟩ .bigint [1, 0, 0, 0, 2] = .error .panic := by decide
example : natCodecER ⟨15, 7, 2, 2⟩ .malachite [1, 0, 0, 0, 2] ≠ .error .panic := by decide

example : encodeR C15.P23 .bigint 4 = .ok 18 := by decide
example : encodeR C15.P23 .malachite 10 = .error .err := by decide
example : decodeR C15.P23 18 = .ok 4 := by decide
example : decodeR C15.P23 0 = .error .panic := by decide
example : invpR C15.P23 .bigint 2 = .ok 12 := by decide
example : invpR C15.P23 .malachite 0 = .error .panic := by decide
example : invpR C15.P23 .malachite 25 = .error .panic := by decide
example : invpR C15.P23 .bigint 25 = .ok 12 := by decide
example : natCodecPR .malachite [2, 0, 0, 0, 1, 0, 2, 0] = .ok (258, []) := by decide

/-- the hypotheses of `check_proof_total` are satisfiable (`p = 23`; the quadratic residues
    are 1 2 3 4 6 8 9 12 13 16 18) -/
example :
    checkProofR C15.P23 .bigint [2, 3] 4
        { t := ⟨1, 1, 1, 1, 1, [1]⟩, s := ⟨0, 0, 0, 0, [0], [0]⟩, cs := [6], cHats := [3] }
        [⟨2, 3⟩] [⟨4, 6⟩] []
      = .ok (checkProof (natOps C15.P23 .bigint) [2, 3] 4
        { t := ⟨1, 1, 1, 1, 1, [1]⟩, s := ⟨0, 0, 0, 0, [0], [0]⟩, cs := [6], cHats := [3] }
        [⟨2, 3⟩] [⟨4, 6⟩] []) := by
  have v : ∀ a ∈ [2, 3, 4, 6], natValid C15.P23 a := by
    intro a ha
    simp only [List.mem_cons, List.mem_nil_iff, or_false] at ha
    rcases ha with rfl | rfl | rfl | rfl <;>
      exact natValid_of_pow _ _ (by norm_num [C15.P23])
  refine check_proof_total C15.P23_safe .bigint _ _ _ _ _ _ ?_ ?_ ?_ ?_ ?_
  · intro g hg
    simp only [List.mem_cons, List.mem_nil_iff, or_false] at hg
    rcases hg with rfl | rfl
    · exact v 2 (by simp)
    · exact v 3 (by simp)
  · exact ⟨v 4 (by simp), by decide⟩
  · intro a ha
    simp only [List.mem_cons, List.mem_nil_iff, or_false] at ha
    subst ha
    exact v 6 (by simp)
  · intro a ha
    simp only [List.mem_cons, List.mem_nil_iff, or_false] at ha
    subst ha
    exact ⟨v 3 (by simp), by decide⟩
  · intro e he
    simp only [List.mem_cons, List.mem_nil_iff, or_false] at he
    subst he
    exact ⟨v 2 (by simp), v 3 (by simp)⟩

example : prealloc_le 8 (2 ^ 32 - 1) = Strand.prealloc_le 8 (2 ^ 32 - 1) := rfl
example : cautious 8 (2 ^ 32 - 1) = 512 := by decide
example : cautious 1 0 = 1 := by decide

end Strand.C13
