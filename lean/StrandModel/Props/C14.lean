import StrandModel.Lemmas.CodecWire
import StrandModel.Lemmas.Encode
import StrandModel.Props.C15
/-
C14 — for every plaintext in the plaintext space (the integers 0..q-2), encoding succeeds, yields
a valid group member that survives serialization, and decoding that element returns the
plaintext; distinct plaintexts encode to distinct elements.  Every plaintext outside the space is
refused with an error rather than a panic or a silently wrong element, and every plaintext the
library generates at random is inside the space.

`Nat'.encode P m : Option ℕ` is `Ctx::encode` (`none` = `Err`), `Nat'.decode P e` is `Ctx::decode`;
both byte flavours share them.  The full pipeline `decode (decrypt (encrypt (encode m))) = m` is
C01.  `h : SafePrimeGroup P` = p, q prime, p = 2q+1, generator of order q.
-/
set_option linter.unusedSectionVars false
namespace Strand.C14
open Strand

variable (P : Params)

/-! ### inside the plaintext space -/

/-- encoding succeeds exactly on the plaintext space `[0, q-1)` -/
theorem encode_ok_iff (h : SafePrimeGroup P) (m : ℕ) :
    (∃ e, Nat'.encode P m = some e) ↔ m < P.q - 1 :=
  encode_isSome_iff P h m

/-- for every plaintext in the space, encoding succeeds -/
theorem encode_succeeds (h : SafePrimeGroup P) (m : ℕ) (hm : m < P.q - 1) :
    ∃ e, Nat'.encode P m = some e :=
  (encode_ok_iff P h m).2 hm

/-- the encoding is a canonical non-zero member of the order-`q` subgroup
    (`natValid P e` is `(e : ZMod p) ^ q = 1`) -/
theorem encode_valid (h : SafePrimeGroup P) (m e : ℕ) (he : Nat'.encode P m = some e) :
    natValid P e ∧ 1 ≤ e ∧ e < P.p := by
  obtain ⟨h1, h2, h3⟩ := encode_valid' P h m e he
  exact ⟨h3, h1, h2⟩

/-- the same in arithmetic form: `e ∈ [1, p)` and `e ^ q ≡ 1 (mod p)` -/
theorem encode_valid_pow (h : SafePrimeGroup P) (m e : ℕ) (he : Nat'.encode P m = some e) :
    1 ≤ e ∧ e < P.p ∧ e ^ P.q % P.p = 1 := by
  obtain ⟨h1, h2, h3⟩ := encode_valid' P h m e he
  exact ⟨h1, h2, (natValid_iff_pow P (by omega) e).1 h3⟩

/-- ... hence a canonical valid element of the `Lawful` instance of C15 (what C01, C05 need) -/
theorem encode_valid_lawful (h : SafePrimeGroup P) (fl : Flavour) (m e : ℕ)
    (he : Nat'.encode P m = some e) : (natLawful P fl h).V e :=
  ⟨(encode_valid P h m e he).1, (encode_valid P h m e he).2.2⟩

/-- the element decoder (`element_from_biguint` / `element_from_natural`) accepts it back -/
theorem encode_accepted (h : SafePrimeGroup P) (m e : ℕ) (he : Nat'.encode P m = some e) :
    Nat'.elementFromNat P e = some e :=
  elementFromNat_encode P h m e he

/-- decoding the encoding returns the plaintext (only `p = 2q+1` is used) -/
theorem decode_encode (h : SafePrimeGroup P) (m e : ℕ) (he : Nat'.encode P m = some e) :
    Nat'.decode P e = m :=
  decode_encode' P h.p_eq m e he

/-- two plaintexts with the same encoding are equal -/
theorem encode_injective (h : SafePrimeGroup P) (m₁ m₂ e : ℕ)
    (h₁ : Nat'.encode P m₁ = some e) (h₂ : Nat'.encode P m₂ = some e) : m₁ = m₂ :=
  Strand.encode_injective P h.p_eq m₁ m₂ e h₁ h₂

/-- distinct plaintexts encode to distinct elements -/
theorem encode_distinct (h : SafePrimeGroup P) (m₁ m₂ e₁ e₂ : ℕ) (hne : m₁ ≠ m₂)
    (h₁ : Nat'.encode P m₁ = some e₁) (h₂ : Nat'.encode P m₂ = some e₂) : e₁ ≠ e₂ := by
  rintro rfl
  exact hne (encode_injective P h m₁ m₂ e₁ h₁ h₂)

/-! ### the encoding survives serialization

Size hypothesis: the group fits in `k` bytes, `k < 2^32` (a `Vec<u8>` length is a `u32`). -/

/-- serialising the encoded element and deserialising (strictly) gives it back -/
theorem encode_survives_wire (h : SafePrimeGroup P) (fl : Flavour) {k : ℕ} (hk : 0 < k)
    (hk32 : k < 2 ^ 32) (hpk : P.p ≤ 256 ^ k) (m e : ℕ) (he : Nat'.encode P m = some e) :
    tryFromSlice (natCodecE P fl) ((natCodecE P fl).enc e) = some e :=
  (natCodecE_lawful_of_bound P fl hk hk32 hpk).roundtrip ⟨e, encode_accepted P h m e he⟩

/-- ... and decoding the deserialised element returns the plaintext -/
theorem decode_after_wire (h : SafePrimeGroup P) (fl : Flavour) {k : ℕ} (hk : 0 < k)
    (hk32 : k < 2 ^ 32) (hpk : P.p ≤ 256 ^ k) (m e : ℕ) (he : Nat'.encode P m = some e) :
    (tryFromSlice (natCodecE P fl) ((natCodecE P fl).enc e)).map (Nat'.decode P) = some m := by
  rw [encode_survives_wire P h fl hk hk32 hpk m e he, Option.map_some, decode_encode P h m e he]

/-- distinct plaintexts have distinct wire images -/
theorem encode_wire_distinct (h : SafePrimeGroup P) (fl : Flavour) {k : ℕ} (hk : 0 < k)
    (hk32 : k < 2 ^ 32) (hpk : P.p ≤ 256 ^ k) (m₁ m₂ e₁ e₂ : ℕ) (hne : m₁ ≠ m₂)
    (h₁ : Nat'.encode P m₁ = some e₁) (h₂ : Nat'.encode P m₂ = some e₂) :
    (natCodecE P fl).enc e₁ ≠ (natCodecE P fl).enc e₂ := fun hab =>
  encode_distinct P h m₁ m₂ e₁ e₂ hne h₁ h₂
    ((natCodecE_lawful_of_bound P fl hk hk32 hpk).enc_injective ⟨e₁, encode_accepted P h m₁ e₁ h₁⟩
      ⟨e₂, encode_accepted P h m₂ e₂ h₂⟩ hab)

/-! ### outside the plaintext space -/

/-- every `m ≥ q - 1` is refused (no hypotheses at all) -/
theorem refused_outside (m : ℕ) (hm : P.q - 1 ≤ m) : Nat'.encode P m = none :=
  encode_none_of_ge P m hm

/-- `encode` is total and has exactly two outcomes: an error outside the space, and inside it an
    element that decodes to the plaintext.  (Totality = no panic: `Nat'.encode` is a total function
    into `Option`; the Rust `expect` inside `legendre` is on "p is an odd prime", the Euler value
    `0` is mapped to `Err`, and `encode_ok_iff` shows it does not occur inside the space.) -/
theorem encode_dichotomy (h : SafePrimeGroup P) (m : ℕ) :
    (P.q - 1 ≤ m ∧ Nat'.encode P m = none) ∨
    (m < P.q - 1 ∧ ∃ e, Nat'.encode P m = some e ∧ Nat'.decode P e = m ∧
      natValid P e ∧ 1 ≤ e ∧ e < P.p) := by
  rcases Nat.lt_or_ge m (P.q - 1) with hm | hm
  · obtain ⟨e, he⟩ := encode_succeeds P h m hm
    exact Or.inr ⟨hm, e, he, decode_encode P h m e he, encode_valid P h m e he⟩
  · exact Or.inl ⟨hm, refused_outside P m hm⟩

/-- never a silently wrong element: whatever `encode` returns decodes to its argument, and the
    argument was in the space -/
theorem encode_never_wrong (h : SafePrimeGroup P) (m e : ℕ) (he : Nat'.encode P m = some e) :
    m < P.q - 1 ∧ Nat'.decode P e = m :=
  ⟨(encode_ok_iff P h m).1 ⟨e, he⟩, decode_encode P h m e he⟩

/-! ### the image of `encode` (added later: the map is invertible from the group side too) -/

/-- every canonical member of the group, except the single member that decodes to `q - 1` (it is
    `q` or `q + 1`), is the encoding of its own decoding: `encode ∘ decode = id` there.  Together
    with `decode_encode` this makes `encode` a bijection between the plaintext space `[0, q-1)`
    and the `q - 1` members other than that one. -/
theorem encode_decode (h : SafePrimeGroup P) (hq : P.q % 2 = 1) (e : ℕ) (h1 : 1 ≤ e)
    (hlt : e < P.p) (hv : natValid P e) (hne : e ≠ P.q) (hne' : e ≠ P.q + 1) :
    Nat'.encode P (Nat'.decode P e) = some e :=
  encode_decode_of_member P h hq e h1 hlt hv hne hne'

/-- the exceptional member decodes to a value OUTSIDE the plaintext space; re-encoding it is
    refused (an error, not a wrong element) -/
theorem encode_decode_exceptional (h : SafePrimeGroup P) (e : ℕ) (he : e = P.q ∨ e = P.q + 1) :
    Nat'.decode P e = P.q - 1 ∧ Nat'.encode P (Nat'.decode P e) = none := by
  refine ⟨?_, Strand.encode_decode_exceptional P h e he⟩
  have hp := h.p_eq
  have hq2 : 2 ≤ P.q := h.q_prime.two_le
  unfold Nat'.decode
  rcases he with rfl | rfl
  · rw [if_neg (by omega)]
  · rw [if_pos (by omega)]; omega

/-- non-vacuity on (23, 11, 2): 13 is a member above `q + 1`, 12 is the exceptional member -/
example : natValid ⟨23, 11, 2, 2⟩ 13 ∧ Nat'.encode ⟨23, 11, 2, 2⟩ (Nat'.decode ⟨23, 11, 2, 2⟩ 13) = some 13 ∧
    natValid ⟨23, 11, 2, 2⟩ 12 ∧ Nat'.decode ⟨23, 11, 2, 2⟩ 12 = 10 := by decide

/-! ### random plaintexts -/

/-- `rnd_plaintext` draws uniformly below this bound (num-bigint: `gen_biguint_below(q-1)`;
    malachite: inclusive range `[0, q-2]`) — the samplers' range after the repair F4
    (`Model/Rng.lean` calls it `rndPlaintextBoundX`) -/
def rndPlaintextBound (P : Params) : ℕ := P.q - 1

/-- every plaintext the (repaired) sampler can return is inside the space: it encodes -/
theorem rnd_plaintext_in_space (h : SafePrimeGroup P) (m : ℕ) (hm : m < rndPlaintextBound P) :
    ∃ e, Nat'.encode P m = some e :=
  encode_succeeds P h m hm

/-- ... and the bound is tight: the range is the WHOLE plaintext space -/
theorem rnd_plaintext_range_eq_space (h : SafePrimeGroup P) (m : ℕ) :
    m < rndPlaintextBound P ↔ ∃ e, Nat'.encode P m = some e :=
  (encode_ok_iff P h m).symm

/-- WITNESS for the known defect F4.  On the pinned tree num-bigint draws from `[0, q)` and
    malachite from `[0, q]`; the extra value `q - 1 = rndPlaintextBound P` is not a plaintext. -/
theorem prefix_range_extra_refused : Nat'.encode P (rndPlaintextBound P) = none :=
  refused_outside P _ (Nat.le_refl _)

/-- ... nor is malachite's second extra value `q` -/
theorem prefix_range_extra_refused_q : Nat'.encode P P.q = none :=
  refused_outside P _ (Nat.sub_le _ _)

/-- F4 in one statement: "every `m` below `q` encodes" (the pinned num-bigint range) is false for
    every parameter set with `q ≥ 1` -/
theorem unrepaired_range_not_in_space (hq : 1 ≤ P.q) :
    ¬ ∀ m, m < P.q → ∃ e, Nat'.encode P m = some e := by
  intro hall
  obtain ⟨e, he⟩ := hall (P.q - 1) (by omega)
  rw [refused_outside P _ (Nat.le_refl _)] at he
  cases he

/-! ### non-vacuity on `p = 23`, `q = 11`: plaintext space `0..9`, residues 1 2 3 4 6 8 9 12 13 16 18 -/

open Strand.C15 (P23 P23_safe)

example : Nat'.encode P23 0 = some 1 := by decide          -- 1 is a residue
example : Nat'.encode P23 4 = some 18 := by decide         -- 5 is not: 23 - 5
example : Nat'.encode P23 9 = some 13 := by decide         -- largest plaintext q - 2
example : Nat'.encode P23 10 = none := by decide           -- q - 1: refused (F4 witness)
example : Nat'.encode P23 11 = none := by decide           -- q
example : Nat'.encode P23 22 = none := by decide
example : Nat'.decode P23 18 = 4 := by decide
example : Nat'.decode P23 13 = 9 := by decide
example : rndPlaintextBound P23 = 10 := by decide
/-- the ten encodings are pairwise distinct members -/
example : (List.range 10).map (Nat'.encode P23)
    = [some 1, some 2, some 3, some 4, some 18, some 6, some 16, some 8, some 9, some 13] := by
  decide
example : ∃ e, Nat'.encode P23 9 = some e := rnd_plaintext_in_space P23 P23_safe 9 (by decide)
example : (natLawful P23 .bigint P23_safe).V 18 :=
  encode_valid_lawful P23 P23_safe .bigint 4 18 (by decide)
example (fl : Flavour) :
    tryFromSlice (natCodecE P23 fl) ((natCodecE P23 fl).enc 18) = some 18 :=
  encode_survives_wire P23 P23_safe fl (k := 1) (by decide) (by decide) (by decide) 4 18 (by decide)
example : tryFromSlice (natCodecE P23 .bigint) [1, 0, 0, 0, 18] = some 18 := by decide
example : ¬ ∀ m, m < P23.q → ∃ e, Nat'.encode P23 m = some e :=
  unrepaired_range_not_in_space P23 (by decide)

end Strand.C14
