import Mathlib.NumberTheory.LegendreSymbol.Basic
import StrandModel.Lemmas.CodecShuffle
import StrandModel.Props.C15
import StrandModel.Lemmas.RadixLemmas
/-
C11 — a byte string is accepted as a group element only if it denotes a member of the prime-order
group the context works in (multiplicative back-ends: an integer in [1, p) that is a quadratic
residue), and as an exponent only if it denotes an integer in [0, q); zero, values >= the modulus
and non-residues such as p-1 yield an error.  Every composite wire object (ciphertext, key, proof,
vector) decodes only if each embedded element and exponent does.

Both byte flavours of the `Nat` back-end (`fl : Flavour`).  Unless stated otherwise the only
hypothesis is `hp : P.p = 2 * P.q + 1` (no primality, no size bound).
-/
set_option linter.unusedSectionVars false
namespace Strand.C11
open Strand

variable (P : Params) (fl : Flavour)

/-! ### `element_from_bytes` / `exp_from_bytes` -/

/-- a byte string is accepted as an element iff the integer it denotes lies in `[1, p)` and
    satisfies Euler's criterion `n ^ q ≡ 1 (mod p)`; the result is that integer -/
theorem element_accept_iff (hp : P.p = 2 * P.q + 1) (bs : Bytes) (n : ℕ) :
    elementFromBytes P fl bs = some n ↔
      n = natOfBytes fl bs ∧ 1 ≤ n ∧ n < P.p ∧ n ^ P.q % P.p = 1 := by
  rw [elementFromBytes_eq_some_iff P hp]
  constructor
  · rintro ⟨h0, h1, h2, h3⟩; exact ⟨h0, h1, h2, (natValid_iff_pow P (by omega) n).1 h3⟩
  · rintro ⟨h0, h1, h2, h3⟩; exact ⟨h0, h1, h2, natValid_of_pow P n h3⟩

/-- the same with the membership predicate of the `Lawful` instance (`natValid P n` is
    `(n : ZMod p) ^ q = 1`) -/
theorem element_accept_iff_valid (hp : P.p = 2 * P.q + 1) (bs : Bytes) (n : ℕ) :
    elementFromBytes P fl bs = some n ↔
      n = natOfBytes fl bs ∧ 1 ≤ n ∧ n < P.p ∧ natValid P n :=
  elementFromBytes_eq_some_iff P hp fl bs n

/-- whatever is accepted as an element is a canonical member for the `Lawful` instance of C15 -/
theorem element_accept_lawful (h : SafePrimeGroup P) (bs : Bytes) (n : ℕ)
    (hn : elementFromBytes P fl bs = some n) : (natLawful P fl h).V n := by
  obtain ⟨_, _, hlt, hv⟩ := (element_accept_iff_valid P fl h.p_eq bs n).1 hn
  exact ⟨hv, hlt⟩

/-- a byte string is accepted as an exponent iff the integer it denotes is below `q` -/
theorem exp_accept_iff (bs : Bytes) (n : ℕ) :
    expFromBytes P fl bs = some n ↔ n = natOfBytes fl bs ∧ n < P.q :=
  expFromBytes_eq_some_iff P fl bs n

/-! ### rejected inputs -/

/-- zero is not an element (no hypotheses) -/
theorem element_zero_rejected (bs : Bytes) (h0 : natOfBytes fl bs = 0) :
    elementFromBytes P fl bs = none := by
  unfold elementFromBytes
  rw [h0]
  exact elementFromNat_zero P

/-- in particular the empty byte string (which denotes 0) is not an element -/
theorem element_empty_rejected : elementFromBytes P fl [] = none :=
  element_zero_rejected P fl [] (natOfBytes_nil fl)

/-- values `≥ p` are not elements (no hypotheses; no reduction mod `p` happens) -/
theorem element_ge_rejected (bs : Bytes) (hge : P.p ≤ natOfBytes fl bs) :
    elementFromBytes P fl bs = none :=
  elementFromNat_ge P _ hge

/-- `p - 1` is not an element (`q` odd, i.e. every safe-prime group but `p = 5`) -/
theorem element_p_sub_one_rejected (h : SafePrimeGroup P) (hq : P.q % 2 = 1) (bs : Bytes)
    (hb : natOfBytes fl bs = P.p - 1) : elementFromBytes P fl bs = none := by
  unfold elementFromBytes
  rw [hb]
  exact elementFromNat_p_sub_one P h hq

/-- exponents `≥ q` are rejected (no hypotheses; no reduction mod `q` happens) -/
theorem exp_ge_rejected (bs : Bytes) (hge : P.q ≤ natOfBytes fl bs) :
    expFromBytes P fl bs = none :=
  expFromNat_ge P _ hge

/-! ### the accepted set is the set of quadratic residues -/

/-- Euler's criterion for `p = 2q + 1`: for `n ∈ [1, p)`, `n ^ q ≡ 1` iff `n` is a non-zero
    square mod `p` -/
theorem quadratic_residue_iff (h : SafePrimeGroup P) (n : ℕ) (h1 : 1 ≤ n) (hn : n < P.p) :
    n ^ P.q % P.p = 1 ↔ ∃ y, y * y % P.p = n % P.p ∧ y % P.p ≠ 0 := by
  have hp := h.p_eq
  have : Fact P.p.Prime := ⟨h.p_prime⟩
  have hq : P.p / 2 = P.q := by omega
  have ha : ((n : ℕ) : ZMod P.p) ≠ 0 := by
    rw [Ne, ZMod.natCast_eq_zero_iff]
    intro hd
    have := Nat.le_of_dvd (by omega) hd
    omega
  rw [← natValid_iff_pow P (by omega) n]
  unfold natValid
  rw [← hq, ← ZMod.euler_criterion P.p ha]
  constructor
  · rintro ⟨r, hr⟩
    refine ⟨r.val, ?_, ?_⟩
    · rw [← ZMod.natCast_eq_natCast_iff', Nat.cast_mul, ZMod.natCast_zmod_val, hr]
    · intro h0
      have hr0 : r = 0 := by
        rw [← ZMod.natCast_zmod_val r, ZMod.natCast_eq_zero_iff]
        exact Nat.dvd_of_mod_eq_zero h0
      rw [hr0, mul_zero] at hr
      exact ha hr
  · rintro ⟨y, hy, _⟩
    refine ⟨(y : ZMod P.p), ?_⟩
    rw [← ZMod.natCast_eq_natCast_iff', Nat.cast_mul] at hy
    exact hy.symm

/-- accepted as an element ⇔ denotes a non-zero quadratic residue in `[1, p)` -/
theorem element_accept_iff_residue (h : SafePrimeGroup P) (bs : Bytes) (n : ℕ) :
    elementFromBytes P fl bs = some n ↔
      n = natOfBytes fl bs ∧ 1 ≤ n ∧ n < P.p ∧ ∃ y, y * y % P.p = n % P.p ∧ y % P.p ≠ 0 := by
  rw [element_accept_iff P fl h.p_eq]
  constructor
  · rintro ⟨h0, h1, h2, h3⟩
    exact ⟨h0, h1, h2, (quadratic_residue_iff P h n h1 h2).1 h3⟩
  · rintro ⟨h0, h1, h2, h3⟩
    exact ⟨h0, h1, h2, (quadratic_residue_iff P h n h1 h2).2 h3⟩

/-- non-residues are rejected -/
theorem element_non_residue_rejected (h : SafePrimeGroup P) (bs : Bytes)
    (hnr : ¬ ∃ y, y * y % P.p = natOfBytes fl bs % P.p ∧ y % P.p ≠ 0) :
    elementFromBytes P fl bs = none := by
  cases hx : elementFromBytes P fl bs with
  | none => rfl
  | some n =>
    obtain ⟨rfl, _, _, hy⟩ := (element_accept_iff_residue P fl h bs n).1 hx
    exact absurd hy hnr

/-! ### the wire level: `try_from_slice` of an element / exponent -/

/-- what the borsh decoder of elements accepts, and `Valid` for composites below -/
abbrev ElemOk (P : Params) (a : ℕ) : Prop := NatMember P a

theorem elemOk_iff (a : ℕ) : ElemOk P a ↔ natValid P a ∧ 1 ≤ a ∧ a < P.p := Iff.rfl

/-- the element codec with its un-bounded `Valid` predicate implies membership -/
theorem elem_valid_of_wire (hp : P.p = 2 * P.q + 1) (a : ℕ)
    (h : (∃ e, Nat'.elementFromNat P a = some e) ∧ (natToBytes fl a).length < 2 ^ 32) :
    NatMember P a :=
  (natMember_iff_accepts P hp a).2 h.1

theorem exp_valid_of_wire (x : ℕ) (h : x < P.q ∧ (natToBytes fl x).length < 2 ^ 32) : x < P.q :=
  h.1

theorem des_element_accept (hp : P.p = 2 * P.q + 1) {bs : Bytes} {a : ℕ}
    (h : tryFromSlice (natCodecE P fl) bs = some a) : natValid P a ∧ 1 ≤ a ∧ a < P.p :=
  elem_valid_of_wire P fl hp a ((natCodecE_lawful P fl).tryFromSlice_valid h)

/-- also mid-stream (`dec` = `BorshDeserialize::deserialize`, the rest is returned) -/
theorem dec_element_accept (hp : P.p = 2 * P.q + 1) {bs r : Bytes} {a : ℕ}
    (h : (natCodecE P fl).dec bs = some (a, r)) : natValid P a ∧ 1 ≤ a ∧ a < P.p :=
  elem_valid_of_wire P fl hp a ((natCodecE_lawful P fl).dec_valid _ _ _ h)

theorem des_exponent_accept {bs : Bytes} {x : ℕ}
    (h : tryFromSlice (natCodecX P fl) bs = some x) : x < P.q :=
  ((natCodecX_lawful P fl).tryFromSlice_valid h).1

theorem dec_exponent_accept {bs r : Bytes} {x : ℕ}
    (h : (natCodecX P fl).dec bs = some (x, r)) : x < P.q :=
  ((natCodecX_lawful P fl).dec_valid _ _ _ h).1

/-- the wire decoder of an element is `Vec<u8>` framing followed by `element_from_bytes`: the
    accepted byte strings are exactly the framed accepted payloads -/
theorem des_element_iff {bs : Bytes} {a : ℕ} :
    tryFromSlice (natCodecE P fl) bs = some a ↔
      ∃ payload, decBytesVec bs = some (payload, []) ∧ elementFromBytes P fl payload = some a := by
  rw [tryFromSlice_eq_some_iff, natCodecE_eq_refine, Codec.refine_dec_eq_some_iff]
  rfl

theorem des_exponent_iff {bs : Bytes} {x : ℕ} :
    tryFromSlice (natCodecX P fl) bs = some x ↔
      ∃ payload, decBytesVec bs = some (payload, []) ∧ expFromBytes P fl payload = some x := by
  rw [tryFromSlice_eq_some_iff, natCodecX_eq_refine, Codec.refine_dec_eq_some_iff]
  rfl

/-! ### composite wire objects decode only if every embedded element / exponent does

`ElemOk P a` is `natValid P a ∧ 1 ≤ a ∧ a < P.p`; `ExpOk P x` is `x < P.q`.
`CtValid`, `SchnorrValid`, `CPValid`, `CommitmentsValid`, `ResponsesValid`, `ShuffleProofValid`
and `VecValid` (`Lemmas/CodecShuffle.lean`) say "every embedded element is `ElemOk`, every embedded
exponent is `ExpOk`, every vector has fewer than `2^32` items".  No size hypothesis is needed. -/

abbrev ExpOk (P : Params) (x : ℕ) : Prop := x < P.q

section composite

/-- the lawful element / exponent codecs with their raw `Valid` predicates -/
private abbrev VE' (P : Params) (fl : Flavour) (a : ℕ) : Prop :=
  (∃ e, Nat'.elementFromNat P a = some e) ∧ (natToBytes fl a).length < 2 ^ 32
private abbrev VX' (P : Params) (fl : Flavour) (x : ℕ) : Prop :=
  x < P.q ∧ (natToBytes fl x).length < 2 ^ 32

private theorem hE : LawfulCodec (natOps P fl).codecE (VE' P fl) := natCodecE_lawful P fl
private theorem hX : LawfulCodec (natOps P fl).codecX (VX' P fl) := natCodecX_lawful P fl

private theorem toX : ∀ x, VX' P fl x → ExpOk P x := exp_valid_of_wire P fl

variable (hp : P.p = 2 * P.q + 1)
include hp

private theorem toE : ∀ a, VE' P fl a → ElemOk P a := elem_valid_of_wire P fl hp

theorem ciphertext_only_if {bs : Bytes} {c : Ciphertext ℕ}
    (h : tryFromSlice (codecCt (natOps P fl)) bs = some c) : CtValid (ElemOk P) c :=
  CtValid.mono (toE P fl hp) ((codecCt_lawful (hE P fl)).tryFromSlice_valid h)

theorem public_key_only_if {bs : Bytes} {pk : ℕ}
    (h : tryFromSlice (codecPk (natOps P fl)) bs = some pk) : ElemOk P pk :=
  des_element_accept P fl hp h

theorem private_key_only_if {bs : Bytes} {sk : ℕ × ℕ}
    (h : tryFromSlice (codecSk (natOps P fl)) bs = some sk) : ExpOk P sk.1 ∧ ElemOk P sk.2 := by
  have := (codecSk_lawful (hE P fl) (hX P fl)).tryFromSlice_valid h
  exact ⟨toX P fl _ this.1, toE P fl hp _ this.2⟩

theorem schnorr_only_if {bs : Bytes} {pf : Schnorr ℕ ℕ}
    (h : tryFromSlice (codecSchnorr (natOps P fl)) bs = some pf) :
    SchnorrValid (ElemOk P) (ExpOk P) pf :=
  SchnorrValid.mono (toE P fl hp) (toX P fl)
    ((codecSchnorr_lawful (hE P fl) (hX P fl)).tryFromSlice_valid h)

theorem chaum_pedersen_only_if {bs : Bytes} {pf : ChaumPedersen ℕ ℕ}
    (h : tryFromSlice (codecCP (natOps P fl)) bs = some pf) :
    CPValid (ElemOk P) (ExpOk P) pf :=
  CPValid.mono (toE P fl hp) (toX P fl)
    ((codecCP_lawful (hE P fl) (hX P fl)).tryFromSlice_valid h)

theorem commitments_only_if {bs : Bytes} {t : Commitments ℕ}
    (h : tryFromSlice (codecCommitments (natOps P fl)) bs = some t) :
    CommitmentsValid (ElemOk P) t :=
  (codecCommitments_dec_valid (hE P fl) (tryFromSlice_eq_some_iff.1 h)).mono (toE P fl hp)

theorem responses_only_if {bs : Bytes} {s : Responses ℕ}
    (h : tryFromSlice (codecResponses (natOps P fl)) bs = some s) :
    ResponsesValid (ExpOk P) s :=
  (codecResponses_dec_valid (hX P fl) (tryFromSlice_eq_some_iff.1 h)).mono (toX P fl)

theorem shuffle_proof_only_if {bs : Bytes} {pf : ShuffleProof ℕ ℕ}
    (h : tryFromSlice (codecShuffleProof (natOps P fl)) bs = some pf) :
    ShuffleProofValid (ElemOk P) (ExpOk P) pf :=
  ShuffleProofValid.mono (toE P fl hp) (toX P fl)
    (codecShuffleProof_dec_valid (hE P fl) (hX P fl) (tryFromSlice_eq_some_iff.1 h))

/-- `StrandVector<Element>` -/
theorem vec_e_only_if {bs : Bytes} {xs : List ℕ}
    (h : tryFromSlice (vecE (natOps P fl)) bs = some xs) : VecValid (ElemOk P) xs :=
  (nested_dec_vecValid (hE P fl) (tryFromSlice_eq_some_iff.1 h)).mono (toE P fl hp)

/-- `StrandVector<Exponent>` -/
theorem vec_x_only_if {bs : Bytes} {xs : List ℕ}
    (h : tryFromSlice (vecX (natOps P fl)) bs = some xs) : VecValid (ExpOk P) xs :=
  (nested_dec_vecValid (hX P fl) (tryFromSlice_eq_some_iff.1 h)).mono (toX P fl)

/-- `StrandVector<Ciphertext>` -/
theorem vec_c_only_if {bs : Bytes} {cs : List (Ciphertext ℕ)}
    (h : tryFromSlice (vecC (natOps P fl)) bs = some cs) : VecValid (CtValid (ElemOk P)) cs :=
  (nested_dec_vecValid (codecCt_lawful (hE P fl)) (tryFromSlice_eq_some_iff.1 h)).mono
    fun _ hc => CtValid.mono (toE P fl hp) hc

/-- `StrandVector<ChaumPedersen>` -/
theorem vec_cp_only_if {bs : Bytes} {pfs : List (ChaumPedersen ℕ ℕ)}
    (h : tryFromSlice (nested (codecCP (natOps P fl))) bs = some pfs) :
    VecValid (CPValid (ElemOk P) (ExpOk P)) pfs :=
  (nested_dec_vecValid (codecCP_lawful (hE P fl) (hX P fl)) (tryFromSlice_eq_some_iff.1 h)).mono
    fun _ hc => CPValid.mono (toE P fl hp) (toX P fl) hc

/-- plain borsh `Vec<Element>` -/
theorem plain_vec_e_only_if {bs : Bytes} {xs : List ℕ}
    (h : tryFromSlice (vecOf (natOps P fl).codecE) bs = some xs) : VecValid (ElemOk P) xs :=
  VecValid.mono (toE P fl hp) ((vecOf_lawful (hE P fl)).tryFromSlice_valid h)

/-- plain borsh `Vec<Ciphertext>` -/
theorem plain_vec_ct_only_if {bs : Bytes} {cs : List (Ciphertext ℕ)}
    (h : tryFromSlice (vecOf (codecCt (natOps P fl))) bs = some cs) :
    VecValid (CtValid (ElemOk P)) cs :=
  VecValid.mono (fun _ hc => CtValid.mono (toE P fl hp) hc)
    ((vecOf_lawful (codecCt_lawful (hE P fl))).tryFromSlice_valid h)

/-- C11, second sentence, all composite wire types at once -/
theorem composite_decodes_only_if_components :
    (∀ bs c, tryFromSlice (codecCt (natOps P fl)) bs = some c → CtValid (ElemOk P) c) ∧
    (∀ bs pk, tryFromSlice (codecPk (natOps P fl)) bs = some pk → ElemOk P pk) ∧
    (∀ bs sk, tryFromSlice (codecSk (natOps P fl)) bs = some sk → ExpOk P sk.1 ∧ ElemOk P sk.2) ∧
    (∀ bs pf, tryFromSlice (codecSchnorr (natOps P fl)) bs = some pf →
      SchnorrValid (ElemOk P) (ExpOk P) pf) ∧
    (∀ bs pf, tryFromSlice (codecCP (natOps P fl)) bs = some pf →
      CPValid (ElemOk P) (ExpOk P) pf) ∧
    (∀ bs t, tryFromSlice (codecCommitments (natOps P fl)) bs = some t →
      CommitmentsValid (ElemOk P) t) ∧
    (∀ bs s, tryFromSlice (codecResponses (natOps P fl)) bs = some s →
      ResponsesValid (ExpOk P) s) ∧
    (∀ bs pf, tryFromSlice (codecShuffleProof (natOps P fl)) bs = some pf →
      ShuffleProofValid (ElemOk P) (ExpOk P) pf) ∧
    (∀ bs xs, tryFromSlice (vecE (natOps P fl)) bs = some xs → VecValid (ElemOk P) xs) ∧
    (∀ bs xs, tryFromSlice (vecX (natOps P fl)) bs = some xs → VecValid (ExpOk P) xs) ∧
    (∀ bs cs, tryFromSlice (vecC (natOps P fl)) bs = some cs →
      VecValid (CtValid (ElemOk P)) cs) ∧
    (∀ bs pfs, tryFromSlice (nested (codecCP (natOps P fl))) bs = some pfs →
      VecValid (CPValid (ElemOk P) (ExpOk P)) pfs) ∧
    (∀ bs xs, tryFromSlice (vecOf (natOps P fl).codecE) bs = some xs →
      VecValid (ElemOk P) xs) ∧
    (∀ bs cs, tryFromSlice (vecOf (codecCt (natOps P fl))) bs = some cs →
      VecValid (CtValid (ElemOk P)) cs) :=
  ⟨fun _ _ => ciphertext_only_if P fl hp, fun _ _ => public_key_only_if P fl hp,
   fun _ _ => private_key_only_if P fl hp, fun _ _ => schnorr_only_if P fl hp,
   fun _ _ => chaum_pedersen_only_if P fl hp, fun _ _ => commitments_only_if P fl hp,
   fun _ _ => responses_only_if P fl hp, fun _ _ => shuffle_proof_only_if P fl hp,
   fun _ _ => vec_e_only_if P fl hp, fun _ _ => vec_x_only_if P fl hp,
   fun _ _ => vec_c_only_if P fl hp, fun _ _ => vec_cp_only_if P fl hp,
   fun _ _ => plain_vec_e_only_if P fl hp, fun _ _ => plain_vec_ct_only_if P fl hp⟩

end composite

/-- the `Valid` predicates, unfolded once for the reader -/
example (c : Ciphertext ℕ) : CtValid (ElemOk P) c ↔
    (natValid P c.mhr ∧ 1 ≤ c.mhr ∧ c.mhr < P.p) ∧ (natValid P c.gr ∧ 1 ≤ c.gr ∧ c.gr < P.p) :=
  Iff.rfl
example (pf : Schnorr ℕ ℕ) : SchnorrValid (ElemOk P) (ExpOk P) pf ↔
    (natValid P pf.commitment ∧ 1 ≤ pf.commitment ∧ pf.commitment < P.p) ∧
      pf.challenge < P.q ∧ pf.response < P.q :=
  Iff.rfl
example (xs : List ℕ) : VecValid (ElemOk P) xs ↔
    (∀ x ∈ xs, natValid P x ∧ 1 ≤ x ∧ x < P.p) ∧ xs.length < 2 ^ 32 :=
  Iff.rfl

/-! ### non-vacuity on `p = 23`, `q = 11` (residues: 1 2 3 4 6 8 9 12 13 16 18) -/

open Strand.C15 (P23 P23_safe)

example : elementFromBytes P23 .bigint [13] = some 13 := by decide
example : elementFromBytes P23 .malachite [13] = some 13 := by decide
example : elementFromBytes P23 .malachite [0, 13] = some 13 := by decide      -- leading zero
example : elementFromBytes P23 .bigint [13, 0] = some 13 := by decide         -- trailing zero
example : elementFromBytes P23 .bigint [5] = none := by decide                -- non-residue
example : elementFromBytes P23 .bigint [22] = none := by decide               -- p - 1
example : elementFromBytes P23 .bigint [23] = none := by decide               -- p
example : elementFromBytes P23 .bigint [36] = none := by decide               -- 13 + p: no reduction
example : elementFromBytes P23 .bigint [0] = none := by decide                -- zero
example : elementFromBytes P23 .bigint [] = none := by decide                 -- empty = zero
example : elementFromBytes P23 .malachite [1, 13] = none := by decide         -- 269 ≥ p
example : expFromBytes P23 .bigint [10] = some 10 := by decide
example : expFromBytes P23 .bigint [0] = some 0 := by decide
example : expFromBytes P23 .bigint [] = some 0 := by decide                   -- empty = zero: accepted
example : expFromBytes P23 .bigint [11] = none := by decide                   -- q
example : expFromBytes P23 .malachite [21] = none := by decide                -- 10 + q: no reduction

-- the hypotheses of the theorems are satisfiable, and both sides of the iffs occur
example : 13 ^ P23.q % P23.p = 1 ∧ ∃ y, y * y % P23.p = 13 % P23.p ∧ y % P23.p ≠ 0 :=
  ⟨by decide, 6, by decide, by decide⟩
example : elementFromBytes P23 .bigint [22] = none :=
  element_p_sub_one_rejected P23 .bigint P23_safe (by decide) [22] (by decide)
example : (natLawful P23 .bigint P23_safe).V 13 :=
  element_accept_lawful P23 .bigint P23_safe [13] 13 (by decide)

-- wire level: u32 length prefix, then the payload
example : tryFromSlice (natCodecE P23 .bigint) [1, 0, 0, 0, 13] = some 13 := by decide
example : tryFromSlice (natCodecE P23 .bigint) [1, 0, 0, 0, 5] = none := by decide
example : tryFromSlice (natCodecE P23 .bigint) [1, 0, 0, 0, 22] = none := by decide
example : tryFromSlice (natCodecE P23 .bigint) [0, 0, 0, 0] = none := by decide
example : tryFromSlice (natCodecX P23 .bigint) [1, 0, 0, 0, 10] = some 10 := by decide
example : tryFromSlice (natCodecX P23 .bigint) [1, 0, 0, 0, 11] = none := by decide
-- a ciphertext with one bad component (5 is a non-residue) is rejected; with two good ones accepted
example : tryFromSlice (codecCt (natOps P23 .bigint)) [1, 0, 0, 0, 13, 1, 0, 0, 0, 2]
    = some ⟨13, 2⟩ := by decide
example : tryFromSlice (codecCt (natOps P23 .bigint)) [1, 0, 0, 0, 13, 1, 0, 0, 0, 5]
    = none := by decide
-- a Schnorr proof whose response is `q` is rejected
example : tryFromSlice (codecSchnorr (natOps P23 .bigint))
    [1, 0, 0, 0, 2, 1, 0, 0, 0, 0, 1, 0, 0, 0, 11] = none := by decide
-- StrandVector<Element> = Vec<Vec<u8>> of serialised elements: [13, 2] accepted, [13, 5] rejected
example : tryFromSlice (vecE (natOps P23 .bigint))
    [2, 0, 0, 0, 5, 0, 0, 0, 1, 0, 0, 0, 13, 5, 0, 0, 0, 1, 0, 0, 0, 2] = some [13, 2] := by decide
example : tryFromSlice (vecE (natOps P23 .bigint))
    [2, 0, 0, 0, 5, 0, 0, 0, 1, 0, 0, 0, 13, 5, 0, 0, 0, 1, 0, 0, 0, 5] = none := by decide

/-! ### `element_from_string_radix` (the other way an untrusted value becomes an element) -/

/-- WHATEVER the string parser of the dependency does, an element accepted from a string is the
    parsed integer, lies in `[1, p)` and is a member of the order-`q` subgroup -/
theorem element_from_string_sound (hp : P.p = 2 * P.q + 1) (parse : Bytes → Option ℕ) (s : Bytes)
    (e : ℕ) (h : elementFromStringWith P parse s = some e) :
    parse s = some e ∧ 1 ≤ e ∧ e < P.p ∧ natValid P e := by
  unfold elementFromStringWith at h
  split at h
  · cases h
  · next n hn =>
    obtain ⟨rfl, h1, h2, h3⟩ := (elementFromNat_eq_some_iff_valid P hp n e).1 h
    exact ⟨hn, h1, h2, h3⟩

/-- with the modelled grammars: accepted iff the string parses to a canonical member -/
theorem element_from_string_iff (hp : P.p = 2 * P.q + 1) (radix : ℕ) (s : Bytes) (e : ℕ) :
    elementFromStringRadix P fl radix s = some e ↔
      parseRadix fl radix s = some e ∧ 1 ≤ e ∧ e < P.p ∧ natValid P e := by
  constructor
  · exact element_from_string_sound P hp _ s e
  · rintro ⟨hs, h1, h2, h3⟩
    unfold elementFromStringRadix elementFromStringWith
    rw [hs]
    exact (elementFromNat_eq_some_iff_valid P hp e e).2 ⟨rfl, h1, h2, h3⟩

/-- a member printed with `to_string_radix` in any radix 2..36 is read back as itself -/
theorem element_string_roundtrip (hp : P.p = 2 * P.q + 1) {radix : ℕ} (hr : 2 ≤ radix)
    (hr2 : radix ≤ 36) {e : ℕ} (h1 : 1 ≤ e) (h2 : e < P.p) (h3 : natValid P e) :
    elementFromStringRadix P fl radix (toRadix radix e) = some e :=
  (element_from_string_iff P fl hp radix _ e).2 ⟨parseRadix_toRadix fl hr hr2 e, h1, h2, h3⟩

/-- a string that does not parse, or parses to zero, to a value ≥ p, or to a non-member, is refused -/
theorem element_from_string_rejects (hp : P.p = 2 * P.q + 1) (radix : ℕ) (s : Bytes)
    (h : ∀ n, parseRadix fl radix s = some n → n = 0 ∨ P.p ≤ n ∨ ¬ natValid P n) :
    elementFromStringRadix P fl radix s = none := by
  cases hres : elementFromStringRadix P fl radix s with
  | none => rfl
  | some e =>
    obtain ⟨hs, h1, h2, h3⟩ := (element_from_string_iff P fl hp radix s e).1 hres
    rcases h e hs with h0 | hge | hnv
    · omega
    · omega
    · exact absurd h3 hnv

example : elementFromStringRadix P23 .bigint 10 [49, 51] = some 13 := by decide          -- "13"
example : elementFromStringRadix P23 .bigint 16 [43, 100] = some 13 := by decide         -- "+d"
example : elementFromStringRadix P23 .malachite 16 [43, 100] = none := by decide         -- "+d"
example : elementFromStringRadix P23 .bigint 10 [49, 95, 51] = some 13 := by decide      -- "1_3"
example : elementFromStringRadix P23 .bigint 10 [53] = none := by decide                 -- "5": non-residue
example : elementFromStringRadix P23 .bigint 10 [50, 50] = none := by decide             -- "22" = p-1
example : elementFromStringRadix P23 .bigint 10 [51, 54] = none := by decide             -- "36" = 13 + p
example : elementFromStringRadix P23 .bigint 10 [48] = none := by decide                 -- "0"
example : elementFromStringRadix P23 .bigint 10 [] = none := by decide
example : elementFromStringRadix P23 .bigint 10 [45, 49] = none := by decide             -- "-1"
example : toRadix 16 255 = [102, 102] := by decide
example : toRadix 36 35 = [122] := by decide

end Strand.C11
