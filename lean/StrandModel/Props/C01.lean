import StrandModel.Props.C01Core
import StrandModel.Props.WireCorollaries
/-
C01 — ElGamal decrypt inverts encrypt.  The algebraic theorems are in `Props/C01Core.lean`
(same namespace `Strand.C01`); this file adds the "also after ciphertext and keys were serialized
and deserialized" clause, proved in `Props/WireCorollaries.lean` from C12's codec laws.
-/
set_option linter.unusedSectionVars false
namespace Strand.C01
open Strand

variable (P : Params) (fl : Flavour) (h : SafePrimeGroup P) {k : Nat} (W : WireSize P k)
include h W

/-- the ciphertext survives the wire and the deserialised ciphertext decrypts to `m` -/
theorem ciphertext_survives_wire (sk r m : Nat) (hm : (natLawful P fl h).V m) :
    tryFromSlice (codecCt (natOps P fl)) ((codecCt (natOps P fl)).enc
        (encryptWith (natOps P fl) (pkOf (natOps P fl) sk) m r))
      = some (encryptWith (natOps P fl) (pkOf (natOps P fl) sk) m r) ∧
    (tryFromSlice (codecCt (natOps P fl)) ((codecCt (natOps P fl)).enc
        (encryptWith (natOps P fl) (pkOf (natOps P fl) sk) m r))).map (decrypt (natOps P fl) sk)
      = some m := Wire.ciphertext_survives_wire P fl h W sk r m hm

/-- public key, private key and ciphertext all cross the wire; decrypting the deserialised
    ciphertext with the deserialised key yields `m` -/
theorem decrypt_after_wire (sk r m : Nat) (hsk : sk < P.q) (hm : (natLawful P fl h).V m) :
    ∃ pk' key' c',
      tryFromSlice (codecPk (natOps P fl)) ((codecPk (natOps P fl)).enc (pkOf (natOps P fl) sk))
        = some pk' ∧
      tryFromSlice (codecSk (natOps P fl)) ((codecSk (natOps P fl)).enc (sk, pkOf (natOps P fl) sk))
        = some key' ∧
      tryFromSlice (codecCt (natOps P fl)) ((codecCt (natOps P fl)).enc
        (encryptWith (natOps P fl) pk' m r)) = some c' ∧
      decrypt (natOps P fl) key'.1 c' = m := Wire.decrypt_after_wire P fl h W sk r m hsk hm

/-- THE property for the multiplicative back-ends, through the wire: every plaintext of the
    plaintext space, every key, every randomness -/
theorem roundtrip_nat_wire (sk r m : Nat) (hm : m < P.q - 1) :
    ∃ e, Nat'.encode P m = some e ∧
      (tryFromSlice (codecCt (natOps P fl)) ((codecCt (natOps P fl)).enc
        (encryptWith (natOps P fl) (pkOf (natOps P fl) sk) e r))).map
        (fun c => Nat'.decode P (decrypt (natOps P fl) sk c)) = some m :=
  Wire.roundtrip_nat_wire P fl h W sk r m hm

/-- the hypothesis of `transport_nat` (exponent transport) is a theorem -/
theorem transport_nat_wire_hypothesis_holds (sk r m : Nat) (hm : (natLawful P fl h).V m) :
    tryFromSlice (codecCt (natOps P fl)) ((codecCt (natOps P fl)).enc
      (encryptWith (natOps P fl) (pkOf (natOps P fl) sk) m r))
      = some (encryptWith (natOps P fl) (pkOf (natOps P fl) sk) m r) :=
  (Wire.ciphertext_survives_wire P fl h W sk r m hm).1

end Strand.C01
