import StrandModel.Lemmas.SigLemmas
import Mathlib.Tactic.Abel
import Mathlib.Data.ZMod.Basic
/-
C20 — "For both signature frontends, every message signed with a generated or deserialized key
verifies under the matching public key, and fails to verify if any bit of the message, signature
or public key is changed or another key is used.  Keys and signatures round-trip through their
byte and base64 string encodings, malformed encodings are rejected with an error, and the two
frontends produce identical signatures for the same key and message and accept each other's."

Model: `Model/Ed25519.lean` (`edPublicKey`, `edSign`, `edVerifyZebra` = ed25519-zebra / ZIP-215,
`edVerifyDalek` = ed25519-dalek `Verifier::verify`, `desSig*`, `sig*OfString`), `Model/Base64.lean`.

WHAT IS PROVED HERE
 §1 base64 `STANDARD_NO_PAD`, for ALL byte strings: decode ∘ encode = id, encode is injective,
    decode is canonical (`b64decode s = some bs → s = b64encode bs`, hence decode is injective on
    its domain and non-zero trailing bits are an error), and '=' anywhere, any byte outside the
    alphabet, and `len % 4 = 1` are errors.
 §2 the byte encodings (`try_from_slice` of `[u8; 32]` / `[u8; 64]` followed by the front-end's
    acceptance test) are lawful codecs: exact characterisation of what is accepted, round trip,
    trailing bytes and truncation are errors; the same through the base64 string form.
 §3 the algebra of Ed25519 over an ARBITRARY additive commutative group `G` with a point `B`,
    `ℓ • B = 0`, an ARBITRARY hash: a signature made by the RFC 8032 signer satisfies the
    cofactorless (dalek) and the cofactored (zebra, ZIP-215) verification equation; whatever
    the cofactorless verifier accepts the cofactored one accepts; and, if `B` has order exactly
    `ℓ`, for given `R`, `A`, message there is exactly ONE accepted canonical `s` — so any change
    of `s` (in particular any single bit flip, `s_bitflip_rejected`) is rejected by both.
 §4 facts about the executable model that need no curve law: lengths, both verifiers answer
    `false` on wrong lengths, on a key that does not decompress, on `s ≥ ℓ`; `edSign` always
    emits a canonical `s`, namely `(r + k a) mod ℓ` with `k` hashed over exactly the bytes the
    verifiers hash.

WHAT IS NOT A THEOREM (and why)
 * `edVerifyZebra (edPublicKey seed) (edSign seed msg) msg = true` and the same for
   `edVerifyDalek`, on the EXECUTABLE model.  This is §3 PLUS the assumed facts that the
   model's `add`/`double`/`smulFast`/`smulBaseFast` implement the edwards25519 group law, that
   `[ℓ]B = 0`, and that `decompress (compress P)` is `P`.  The group law of edwards25519 is
   assumed, not proved (no theorem about curve arithmetic in this development); the equation is
   exercised by the differential stream on every explored (seed, msg) against both libraries.
 * Rejection after a bit flip in the MESSAGE, in `R`, or in the PUBLIC KEY, and rejection under
   "another key": these change the hash input, so `k` becomes an unrelated value; that the
   equation then fails is collision resistance / unforgeability of SHA-512 + Ed25519, a
   cryptographic assumption, not a theorem.  (Concretely there is no proof that
   `hashScalar` is injective — it is not.)  Only the `s` half of the signature is covered (§3),
   plus the outright structural rejections of §4.  The stream tests all of these by mutation.
 * "The two front-ends produce identical signatures": the model has ONE signing function,
   `edSign`, used for both front-ends (and one `edPublicKey`); that the two Rust implementations
   are this same function is established by the stream (byte-identical keys and signatures),
   not by a theorem.  "Accept each other's": `cofactorless_implies_cofactored` is the algebraic
   half (dalek-accepted ⇒ zebra-accepted); the converse is FALSE in general for adversarial
   signatures with a small-order component (ZIP-215 accepts more), and for honest signatures it
   is completeness of both (§3).
 * That a generated public key deserialises (`desSigPkZ (edPublicKey seed) = some _`) needs
   `decompress ∘ compress`, i.e. the curve; only its length is proved.
-/
set_option linter.unusedSectionVars false

namespace Strand.C20
open Strand Strand.Ed Strand.Ed25519

/-! ## 1. base64 (`STANDARD_NO_PAD`) -/

/-- `decode (encode bs) = Ok bs` for every byte string -/
theorem base64_roundtrip (bs : Bytes) : b64decode (b64encode bs) = some bs := by
  unfold b64decode
  rw [b64encode_eq_map, mapOptB64_map_sym _ (b64Vals_lt bs)]
  exact b64Groups_b64Vals bs

theorem base64_encode_injective {a b : Bytes} (h : b64encode a = b64encode b) : a = b := by
  have h1 := base64_roundtrip a
  rw [h, base64_roundtrip b] at h1
  exact (Option.some.inj h1).symm

/-- the decoder is canonical: the only string that decodes to `bs` is `encode bs`
    (non-zero trailing bits, padding, … are all errors) -/
theorem base64_decode_encode {s bs : Bytes} (h : b64decode s = some bs) : b64encode bs = s := by
  unfold b64decode at h
  split at h
  · cases h
  · next vals hv =>
    obtain ⟨hlt, hs⟩ := mapOptB64_eq_some hv
    rw [b64encode_eq_map, b64Vals_of_b64Groups vals bs hlt h, hs]

/-- distinct strings never decode to the same value -/
theorem base64_decode_injective {s t bs : Bytes} (hs : b64decode s = some bs)
    (ht : b64decode t = some bs) : s = t := by
  rw [← base64_decode_encode hs, ← base64_decode_encode ht]

/-- `b64decode s = some bs ↔ s = b64encode bs` -/
theorem base64_decode_eq_some_iff {s bs : Bytes} : b64decode s = some bs ↔ s = b64encode bs :=
  ⟨fun h => (base64_decode_encode h).symm, fun h => h ▸ base64_roundtrip bs⟩

/-- any byte outside the alphabet, anywhere, is an error -/
theorem base64_rejects_bad_char {s : Bytes} {c : UInt8} (hc : c ∈ s) (hv : b64Val c = none) :
    b64decode s = none := by
  unfold b64decode; rw [mapOptB64_none_of_mem hc hv]

/-- '=' (61) anywhere is an error: padding is rejected, not ignored -/
theorem base64_rejects_padding {s : Bytes} (h : (61 : UInt8) ∈ s) : b64decode s = none :=
  base64_rejects_bad_char h (by decide)

theorem base64_rejects_len_mod4_eq_1 {s : Bytes} (h : s.length % 4 = 1) : b64decode s = none := by
  unfold b64decode
  split
  · rfl
  · next vals hv => exact b64Groups_len_mod4 vals (by rw [mapOptB64_length hv]; exact h)

/-- the alphabet is exactly the 64 symbols: a byte has a value iff it is `b64Sym v`, `v < 64` -/
theorem b64Val_eq_some_iff {c : UInt8} {v : Nat} : b64Val c = some v ↔ v < 64 ∧ b64Sym v = c :=
  ⟨b64Val_some, fun ⟨h1, h2⟩ => h2 ▸ b64Val_b64Sym_lt v h1⟩

/-! ## 2. byte encodings of keys and signatures (`strand_serialize` / `strand_deserialize`) -/

/-- `[u8; n]` read with `try_from_slice`, then the front-end's constructor `f`
    (`strand_deserialize` of `StrandSignature`, `StrandSignaturePk`, `StrandSignatureSk`);
    serialisation writes the kept bytes. -/
def wire (n : Nat) (f : Bytes → Option Bytes) : Codec Bytes := Codec.refine (fixedBytes n) id f

theorem tryFromSlice_wire (n : Nat) (f : Bytes → Option Bytes) (bs : Bytes) :
    tryFromSlice (wire n f) bs = (tryFromSlice (fixedBytes n) bs).bind f := by
  rw [tryFromSlice_fixedBytes]
  cases hx : tryFromSlice (wire n f) bs with
  | none =>
    split
    · next hl =>
      cases hf : f bs with
      | none => simp [hf]
      | some a =>
        exfalso
        have : tryFromSlice (wire n f) bs = some a := by
          rw [tryFromSlice_eq_some_iff, wire, Codec.refine_dec_eq_some_iff]
          exact ⟨bs, (fixedBytes_lawful n).dec_enc_nil hl, hf⟩
        rw [hx] at this; cases this
    · rfl
  | some a =>
    rw [tryFromSlice_eq_some_iff, wire, Codec.refine_dec_eq_some_iff] at hx
    obtain ⟨b, h1, h2⟩ := hx
    have h3 := tryFromSlice_eq_some_iff.2 h1
    rw [tryFromSlice_fixedBytes] at h3
    split at h3
    · next hl =>
      simp only [Option.some.injEq] at h3
      subst h3
      rw [if_pos hl]; simp [h2]
    · cases h3

/-- the two front-ends accept exactly the same encodings (definitionally, in the model) -/
theorem frontends_same_encodings :
    desSigPkD = desSigPkZ ∧ desSigSkD = desSigSkZ ∧ desSigD = desSigZ := ⟨rfl, rfl, rfl⟩

/-- a signature encoding is ANY 64 bytes (neither `R` nor `s` is inspected before `verify`) -/
theorem des_sig_iff {bs v : Bytes} :
    (tryFromSlice (fixedBytes 64) bs).bind desSigZ = some v ↔ bs.length = 64 ∧ v = bs := by
  rw [tryFromSlice_fixedBytes]
  by_cases h : bs.length = 64
  · simp [h, desSigZ, eq_comm]
  · simp [h]

/-- a signing-key encoding is ANY 32 bytes (the seed) -/
theorem des_sk_iff {bs v : Bytes} :
    (tryFromSlice (fixedBytes 32) bs).bind desSigSkZ = some v ↔ bs.length = 32 ∧ v = bs := by
  rw [tryFromSlice_fixedBytes]
  by_cases h : bs.length = 32
  · simp [h, desSigSkZ, eq_comm]
  · simp [h]

theorem desSigPkZ_eq_some_iff {bs v : Bytes} :
    desSigPkZ bs = some v ↔ bs.length = 32 ∧ (decompress bs).isSome ∧ v = bs := by
  unfold desSigPkZ
  by_cases h : bs.length = 32
  · rw [if_neg (by omega)]
    cases hd : decompress bs with
    | none => simp
    | some P => simp [h, eq_comm]
  · rw [if_pos h]; simp [h]

/-- a verification-key encoding is 32 bytes that decompress (permissively); the given bytes
    are kept, also when they are a non-canonical encoding of the point -/
theorem des_pk_iff {bs v : Bytes} :
    (tryFromSlice (fixedBytes 32) bs).bind desSigPkZ = some v ↔
      bs.length = 32 ∧ (decompress bs).isSome ∧ v = bs := by
  rw [tryFromSlice_fixedBytes]
  by_cases h : bs.length = 32
  · rw [if_pos h, Option.bind_some, desSigPkZ_eq_some_iff]
  · simp [h]

/-- the valid verification-key wire values -/
def ValidPk (bs : Bytes) : Prop := bs.length = 32 ∧ (decompress bs).isSome

theorem sigCodec_lawful : LawfulCodec (wire 64 desSigZ) (fun bs => bs.length = 64) :=
  Codec.refine_lawful (fixedBytes_lawful 64)
    (fun a ha => ⟨ha, by simp [desSigZ, ha]⟩)
    (fun b a hb hf => by
      simp only [desSigZ, hb, if_true, Option.some.injEq] at hf
      exact hf ▸ hb)

theorem skCodec_lawful : LawfulCodec (wire 32 desSigSkZ) (fun bs => bs.length = 32) :=
  Codec.refine_lawful (fixedBytes_lawful 32)
    (fun a ha => ⟨ha, by simp [desSigSkZ, ha]⟩)
    (fun b a hb hf => by
      simp only [desSigSkZ, hb, if_true, Option.some.injEq] at hf
      exact hf ▸ hb)

theorem pkCodec_lawful : LawfulCodec (wire 32 desSigPkZ) ValidPk :=
  Codec.refine_lawful (fixedBytes_lawful 32)
    (fun a ha => ⟨ha.1, desSigPkZ_eq_some_iff.2 ⟨ha.1, ha.2, rfl⟩⟩)
    (fun b a _ hf => by
      obtain ⟨h1, h2, rfl⟩ := desSigPkZ_eq_some_iff.1 hf
      exact ⟨h1, h2⟩)

/-- serialise → deserialise is the identity (signatures, signing keys, verification keys) -/
theorem sig_bytes_roundtrip {bs : Bytes} (h : bs.length = 64) :
    (tryFromSlice (fixedBytes 64) bs).bind desSigZ = some bs := des_sig_iff.2 ⟨h, rfl⟩

theorem sk_bytes_roundtrip {bs : Bytes} (h : bs.length = 32) :
    (tryFromSlice (fixedBytes 32) bs).bind desSigSkZ = some bs := des_sk_iff.2 ⟨h, rfl⟩

theorem pk_bytes_roundtrip {bs : Bytes} (h : ValidPk bs) :
    (tryFromSlice (fixedBytes 32) bs).bind desSigPkZ = some bs := des_pk_iff.2 ⟨h.1, h.2, rfl⟩

/-- strictness: trailing bytes after a complete encoding are an error … -/
theorem sig_trailing_rejected {bs extra : Bytes} (h : bs.length = 64) (hne : extra ≠ []) :
    (tryFromSlice (fixedBytes 64) (bs ++ extra)).bind desSigZ = none := by
  rw [← tryFromSlice_wire]; exact sigCodec_lawful.trailing_rejected h hne

theorem sk_trailing_rejected {bs extra : Bytes} (h : bs.length = 32) (hne : extra ≠ []) :
    (tryFromSlice (fixedBytes 32) (bs ++ extra)).bind desSigSkZ = none := by
  rw [← tryFromSlice_wire]; exact skCodec_lawful.trailing_rejected h hne

theorem pk_trailing_rejected {bs extra : Bytes} (h : ValidPk bs) (hne : extra ≠ []) :
    (tryFromSlice (fixedBytes 32) (bs ++ extra)).bind desSigPkZ = none := by
  rw [← tryFromSlice_wire]; exact pkCodec_lawful.trailing_rejected h hne

/-- … and so is every proper prefix -/
theorem sig_truncated_rejected {bs : Bytes} {k : Nat} (h : bs.length = 64) (hk : k < 64) :
    (tryFromSlice (fixedBytes 64) (bs.take k)).bind desSigZ = none := by
  rw [← tryFromSlice_wire]
  exact sigCodec_lawful.truncated_rejected (a := bs) h (by show k < bs.length; omega)

theorem sk_truncated_rejected {bs : Bytes} {k : Nat} (h : bs.length = 32) (hk : k < 32) :
    (tryFromSlice (fixedBytes 32) (bs.take k)).bind desSigSkZ = none := by
  rw [← tryFromSlice_wire]
  exact skCodec_lawful.truncated_rejected (a := bs) h (by show k < bs.length; omega)

theorem pk_truncated_rejected {bs : Bytes} {k : Nat} (h : ValidPk bs) (hk : k < 32) :
    (tryFromSlice (fixedBytes 32) (bs.take k)).bind desSigPkZ = none := by
  rw [← tryFromSlice_wire]
  exact pkCodec_lawful.truncated_rejected (a := bs) h (by show k < bs.length; have := h.1; omega)

/-- in fact ANY wrong length is an error, for every one of the three types -/
theorem wrong_length_rejected (n : Nat) (f : Bytes → Option Bytes) {bs : Bytes}
    (h : bs.length ≠ n) : (tryFromSlice (fixedBytes n) bs).bind f = none := by
  rw [tryFromSlice_fixedBytes, if_neg h]; rfl

/-! ### the base64 string form (`String::try_from(&key)`, `TryFrom<String>`) -/

/-- string round trip of anything the byte-level constructor accepts as is -/
theorem string_roundtrip (f : Bytes → Option Bytes) {bs : Bytes} (h : f bs = some bs) :
    (b64decode (b64encode bs)).bind f = some bs := by
  rw [base64_roundtrip]; exact h

theorem sig_string_roundtrip {bs : Bytes} (h : bs.length = 64) :
    sigOfString (b64encode bs) = some bs := string_roundtrip _ (by simp [desSigZ, h])

theorem sk_string_roundtrip {bs : Bytes} (h : bs.length = 32) :
    sigSkOfString (b64encode bs) = some bs := string_roundtrip _ (by simp [desSigSkZ, h])

theorem pk_string_roundtrip {bs : Bytes} (h : ValidPk bs) :
    sigPkOfStringZ (b64encode bs) = some bs ∧ sigPkOfStringD (b64encode bs) = some bs :=
  ⟨string_roundtrip _ (desSigPkZ_eq_some_iff.2 ⟨h.1, h.2, rfl⟩),
   string_roundtrip _ (desSigPkZ_eq_some_iff.2 ⟨h.1, h.2, rfl⟩)⟩

/-- exact characterisation of the accepted strings: the canonical base64 of a valid value -/
theorem sigOfString_eq_some_iff {s v : Bytes} :
    sigOfString s = some v ↔ s = b64encode v ∧ v.length = 64 := by
  unfold sigOfString
  cases hd : b64decode s with
  | none =>
    rw [Option.bind_none]
    refine ⟨fun h => (by cases h), ?_⟩
    rintro ⟨rfl, _⟩; rw [base64_roundtrip] at hd; cases hd
  | some bs =>
    rw [base64_decode_eq_some_iff] at hd
    subst hd
    simp only [Option.bind_some, desSigZ]
    constructor
    · intro h
      split at h
      · next hl => simp only [Option.some.injEq] at h; subst h; exact ⟨rfl, hl⟩
      · cases h
    · rintro ⟨h1, h2⟩
      have := base64_encode_injective h1
      subst this; simp [h2]

theorem sigSkOfString_eq_some_iff {s v : Bytes} :
    sigSkOfString s = some v ↔ s = b64encode v ∧ v.length = 32 := by
  unfold sigSkOfString
  cases hd : b64decode s with
  | none =>
    rw [Option.bind_none]
    refine ⟨fun h => (by cases h), ?_⟩
    rintro ⟨rfl, _⟩; rw [base64_roundtrip] at hd; cases hd
  | some bs =>
    rw [base64_decode_eq_some_iff] at hd
    subst hd
    simp only [Option.bind_some, desSigSkZ]
    constructor
    · intro h
      split at h
      · next hl => simp only [Option.some.injEq] at h; subst h; exact ⟨rfl, hl⟩
      · cases h
    · rintro ⟨h1, h2⟩
      have := base64_encode_injective h1
      subst this; simp [h2]

theorem sigPkOfString_eq_some_iff {s v : Bytes} :
    sigPkOfStringZ s = some v ↔ s = b64encode v ∧ ValidPk v := by
  unfold sigPkOfStringZ
  cases hd : b64decode s with
  | none =>
    rw [Option.bind_none]
    refine ⟨fun h => (by cases h), ?_⟩
    rintro ⟨rfl, _⟩; rw [base64_roundtrip] at hd; cases hd
  | some bs =>
    rw [base64_decode_eq_some_iff] at hd
    subst hd
    rw [Option.bind_some, desSigPkZ_eq_some_iff]
    constructor
    · rintro ⟨h1, h2, rfl⟩; exact ⟨rfl, h1, h2⟩
    · rintro ⟨h1, h2, h3⟩
      have := base64_encode_injective h1
      subst this; exact ⟨h2, h3, rfl⟩

/-- every base64 error is an error of all four string parsers -/
theorem string_rejected_of_base64_error {s : Bytes} (h : b64decode s = none) :
    sigOfString s = none ∧ sigSkOfString s = none ∧ sigPkOfStringZ s = none ∧
      sigPkOfStringD s = none := by
  simp [sigOfString, sigSkOfString, sigPkOfStringZ, sigPkOfStringD, h]

/-- a string of the wrong decoded length is an error (e.g. a signature string given as a key) -/
theorem sigSkOfString_rejects_length {s bs : Bytes} (h : b64decode s = some bs)
    (hl : bs.length ≠ 32) : sigSkOfString s = none ∧ sigPkOfStringZ s = none := by
  simp [sigSkOfString, sigPkOfStringZ, h, desSigSkZ, desSigPkZ, hl]

theorem sigOfString_rejects_length {s bs : Bytes} (h : b64decode s = some bs)
    (hl : bs.length ≠ 64) : sigOfString s = none := by
  simp [sigOfString, h, desSigZ, hl]

/-! ## 3. Ed25519 over an abstract group

`G` any additive commutative group, `B : G` with `ℓ • B = 0`.  The hash is an arbitrary
function `H` of (the encodings of) `R`, `A` and the message; `a` the secret scalar (any natural:
zebra keeps the clamped 255-bit integer, dalek reduces it mod ℓ), `r` the nonce. -/

section Abstract
variable {G : Type} [AddCommGroup G] {M : Type}

/-- RFC 8032 §5.1.6 : `(R, s)` with `R = [r]B`, `k = H(R, A, m)`, `s = (r + k a) mod ℓ` -/
def absSign (B : G) (ℓ : ℕ) (H : G → G → M → ℕ) (a r : ℕ) (m : M) : G × ℕ :=
  (r • B, (r + H (r • B) (a • B) m * a) % ℓ)

/-- ed25519-dalek `verify`: `s < ℓ` and `[s]B - [k]A = R` (written additively) -/
def absVerifyD (B : G) (ℓ : ℕ) (H : G → G → M → ℕ) (A : G) (sig : G × ℕ) (m : M) : Prop :=
  sig.2 < ℓ ∧ sig.2 • B = sig.1 + H sig.1 A m • A

/-- ed25519-zebra / ZIP-215: `s < ℓ` and `[8]([s]B) = [8]R + [8]([k]A)` -/
def absVerifyZ (B : G) (ℓ : ℕ) (H : G → G → M → ℕ) (A : G) (sig : G × ℕ) (m : M) : Prop :=
  sig.2 < ℓ ∧ 8 • (sig.2 • B) = 8 • sig.1 + 8 • (H sig.1 A m • A)

/-- the cofactorless equation holds for an honest signature, whatever the value `k` of the
    hash (only: signer and verifier use the same `k`) -/
theorem ed25519_complete_cofactorless {B : G} {ℓ : ℕ} (hB : ℓ • B = 0) (a r k : ℕ) :
    ((r + k * a) % ℓ) • B = r • B + k • (a • B) := by
  rw [mod_nsmul_of_nsmul_eq_zero hB, add_nsmul, mul_nsmul']

theorem ed25519_complete_cofactored {B : G} {ℓ : ℕ} (hB : ℓ • B = 0) (a r k : ℕ) :
    8 • (((r + k * a) % ℓ) • B) = 8 • (r • B) + 8 • (k • (a • B)) := by
  rw [ed25519_complete_cofactorless hB, nsmul_add]

/-- every `(R, s)` that satisfies the dalek equation satisfies the zebra equation -/
theorem cofactorless_implies_cofactored {B R A : G} {s k : ℕ} (h : s • B = R + k • A) :
    8 • (s • B) = 8 • R + 8 • (k • A) := by
  rw [h, nsmul_add]

/-- completeness, dalek front-end -/
theorem absVerifyD_sign {B : G} {ℓ : ℕ} (hℓ : 0 < ℓ) (hB : ℓ • B = 0) (H : G → G → M → ℕ)
    (a r : ℕ) (m : M) : absVerifyD B ℓ H (a • B) (absSign B ℓ H a r m) m :=
  ⟨Nat.mod_lt _ hℓ, ed25519_complete_cofactorless hB a r _⟩

/-- completeness, zebra front-end -/
theorem absVerifyZ_sign {B : G} {ℓ : ℕ} (hℓ : 0 < ℓ) (hB : ℓ • B = 0) (H : G → G → M → ℕ)
    (a r : ℕ) (m : M) : absVerifyZ B ℓ H (a • B) (absSign B ℓ H a r m) m :=
  ⟨Nat.mod_lt _ hℓ, ed25519_complete_cofactored hB a r _⟩

/-- whatever dalek accepts, zebra accepts (any key, any signature, any message) -/
theorem absVerifyD_imp_absVerifyZ {B : G} {ℓ : ℕ} {H : G → G → M → ℕ} {A : G} {sig : G × ℕ}
    {m : M} (h : absVerifyD B ℓ H A sig m) : absVerifyZ B ℓ H A sig m :=
  ⟨h.1, cofactorless_implies_cofactored h.2⟩

/-- uniqueness of `s` (cofactorless): if `B` has order exactly `ℓ`, then for given `R`, `A`
    and `k` at most one `s < ℓ` satisfies the equation -/
theorem s_unique_cofactorless {B R A : G} {ℓ k : ℕ} (hord : ∀ n : ℕ, n • B = 0 → ℓ ∣ n)
    {s s' : ℕ} (hs : s < ℓ) (hs' : s' < ℓ) (h : s • B = R + k • A) (h' : s' • B = R + k • A) :
    s' = s :=
  nsmul_inj_of_order hord hs' hs (h'.trans h.symm)

/-- uniqueness of `s` (cofactored, ZIP-215): additionally the cofactor is prime to `ℓ` -/
theorem s_unique_cofactored {B R A : G} {ℓ k : ℕ} (hord : ∀ n : ℕ, n • B = 0 → ℓ ∣ n)
    (hc : Nat.Coprime ℓ 8) {s s' : ℕ} (hs : s < ℓ) (hs' : s' < ℓ)
    (h : 8 • (s • B) = 8 • R + 8 • (k • A)) (h' : 8 • (s' • B) = 8 • R + 8 • (k • A)) :
    s' = s :=
  nsmul_inj_of_order_cofactor hord hc hs' hs (h'.trans h.symm)

/-- ANY change of `s` in an accepted signature is rejected by the dalek verifier (same `R`,
    key, message: the hash input, hence `k`, is unchanged) -/
theorem s_changed_rejected_D {B : G} {ℓ : ℕ} (hord : ∀ n : ℕ, n • B = 0 → ℓ ∣ n)
    {H : G → G → M → ℕ} {A R : G} {s s' : ℕ} {m : M}
    (hacc : absVerifyD B ℓ H A (R, s) m) (hne : s' ≠ s) : ¬ absVerifyD B ℓ H A (R, s') m :=
  fun h => hne (s_unique_cofactorless hord hacc.1 h.1 hacc.2 h.2)

/-- … and by the zebra verifier -/
theorem s_changed_rejected_Z {B : G} {ℓ : ℕ} (hord : ∀ n : ℕ, n • B = 0 → ℓ ∣ n)
    (hc : Nat.Coprime ℓ 8) {H : G → G → M → ℕ} {A R : G} {s s' : ℕ} {m : M}
    (hacc : absVerifyZ B ℓ H A (R, s) m) (hne : s' ≠ s) : ¬ absVerifyZ B ℓ H A (R, s') m :=
  fun h => hne (s_unique_cofactored hord hc hacc.1 h.1 hacc.2 h.2)

theorem xor_two_pow_ne (s i : ℕ) : s ^^^ 2 ^ i ≠ s := by
  intro h
  have := congrArg (fun x => x.testBit i) h
  simp only [Nat.testBit_xor, Nat.testBit_two_pow_self] at this
  cases hb : s.testBit i <;> simp [hb] at this

/-- flipping ANY single bit `i` of `s` (`s XOR 2^i`, no bound on `i` needed) in an accepted
    signature makes both verifiers reject: either the new `s'` is no longer `< ℓ` (always the
    case for `i ≥ 253`, see `high_bit_flip_noncanonical`), or it is canonical but different
    from the unique solution of the verification equation. -/
theorem s_bitflip_rejected {B : G} {ℓ : ℕ} (hord : ∀ n : ℕ, n • B = 0 → ℓ ∣ n)
    (hc : Nat.Coprime ℓ 8) {H : G → G → M → ℕ} {A R : G} {s : ℕ} {m : M} (i : ℕ) :
    (absVerifyD B ℓ H A (R, s) m → ¬ absVerifyD B ℓ H A (R, s ^^^ 2 ^ i) m) ∧
    (absVerifyZ B ℓ H A (R, s) m → ¬ absVerifyZ B ℓ H A (R, s ^^^ 2 ^ i) m) :=
  ⟨fun h => s_changed_rejected_D hord h (xor_two_pow_ne s i),
   fun h => s_changed_rejected_Z hord hc h (xor_two_pow_ne s i)⟩

end Abstract

/-- the concrete ℓ: `2^252 < ℓ < 2^253`, odd (prime to the cofactor), and the model's two
    copies agree -/
theorem ell_facts :
    2 ^ 252 < Ed25519.ell ∧ Ed25519.ell < 2 ^ 253 ∧ Nat.Coprime Ed25519.ell 8 ∧
      Ed25519.ell = 2 ^ 252 + 27742317777372353535851937790883648493 :=
  ⟨two_pow_252_lt_ell, ell_lt_two_pow_253, ell_coprime_8, by decide⟩

/-- flipping one of the bits 253, 254, 255 of a canonical `s` always gives `s' ≥ ℓ` -/
theorem high_bit_flip_noncanonical {s i : ℕ} (hs : s < Ed25519.ell) (hi : 253 ≤ i) :
    Ed25519.ell ≤ s ^^^ 2 ^ i := by
  have h1 : s < 2 ^ i :=
    Nat.lt_of_lt_of_le (Nat.lt_trans hs ell_lt_two_pow_253) (Nat.pow_le_pow_right (by decide) hi)
  have h2 : (s ^^^ 2 ^ i).testBit i = true := by
    rw [Nat.testBit_xor, Nat.testBit_lt_two_pow h1, Nat.testBit_two_pow_self]; rfl
  have h3 := Nat.ge_two_pow_of_testBit h2
  have h4 : 2 ^ 253 ≤ 2 ^ i := Nat.pow_le_pow_right (by decide) hi
  have := ell_lt_two_pow_253
  omega

/-! ## 4. the executable model: facts that need no curve law -/

theorem edPublicKey_length (seed : Bytes) : (edPublicKey seed).length = 32 :=
  Strand.edPublicKey_length seed

theorem edSign_length (seed msg : Bytes) : (edSign seed msg).length = 64 :=
  Strand.edSign_length seed msg

/-- so every signature and every signing key the library produces has a valid byte encoding
    that round-trips (for generated verification keys see the header) -/
theorem edSign_bytes_roundtrip (seed msg : Bytes) :
    (tryFromSlice (fixedBytes 64) (edSign seed msg)).bind desSigZ = some (edSign seed msg) :=
  sig_bytes_roundtrip (edSign_length seed msg)

theorem edSign_string_roundtrip (seed msg : Bytes) :
    sigOfString (b64encode (edSign seed msg)) = some (edSign seed msg) :=
  sig_string_roundtrip (edSign_length seed msg)

/-- the `s` half of a produced signature is canonical and is `(r + k a) mod ℓ`, where `k` is
    the hash of exactly the bytes `R ‖ A ‖ msg` that both verifiers hash — the `s` of §3 -/
theorem edSign_s_canonical (seed msg : Bytes) :
    canonicalScalar ((edSign seed msg).drop 32) =
      some ((hashScalar ((expand seed).2 ++ msg) +
        hashScalar ((edSign seed msg).take 32 ++ edPublicKey seed ++ msg) * (expand seed).1)
          % Ed25519.ell) := by
  rw [edSign_drop]
  exact canonicalScalar_leFixed (Nat.mod_lt _ ell_pos)

/-- … and the `R` half is the compressed `[r]B` -/
theorem edSign_R (seed msg : Bytes) :
    (edSign seed msg).take 32 = compress (smulBaseFast (hashScalar ((expand seed).2 ++ msg))) :=
  edSign_take seed msg

/-- both verifiers insist on `s < ℓ` (no malleability `s ↦ s + ℓ`) -/
theorem edVerifyZebra_requires_canonical_s {pk sig msg : Bytes}
    (h : Ed25519.ell ≤ natOfLE (sig.drop 32)) : edVerifyZebra pk sig msg = false :=
  edVerifyZebra_false_of_noncanonical (canonicalScalar_none_of_ge h)

theorem edVerifyDalek_requires_canonical_s {pk sig msg : Bytes}
    (h : Ed25519.ell ≤ natOfLE (sig.drop 32)) : edVerifyDalek pk sig msg = false :=
  edVerifyDalek_false_of_noncanonical (canonicalScalar_none_of_ge h)

/-- wrong lengths are rejected by both -/
theorem verify_wrong_length_rejected {pk sig msg : Bytes}
    (h : pk.length ≠ 32 ∨ sig.length ≠ 64) :
    edVerifyZebra pk sig msg = false ∧ edVerifyDalek pk sig msg = false := by
  unfold edVerifyZebra edVerifyDalek
  rw [if_pos h, if_pos h]; exact ⟨rfl, rfl⟩

/-- a key that is not a valid verification-key encoding verifies nothing -/
theorem verify_invalid_key_rejected {pk sig msg : Bytes} (h : desSigPkZ pk = none) :
    edVerifyZebra pk sig msg = false ∧ edVerifyDalek pk sig msg = false := by
  have hd : decompress pk = none := by
    by_cases hl : pk.length = 32
    · unfold desSigPkZ at h
      rw [if_neg (by omega)] at h
      cases hd : decompress pk with
      | none => rfl
      | some P => rw [hd] at h; cases h
    · exact decompress_none_of_length hl
  exact ⟨edVerifyZebra_false_of_decompress_none hd, edVerifyDalek_false_of_decompress_none hd⟩

/-- hence: whenever either front-end accepts, key and signature are well-formed wire values
    and `s` is canonical -/
theorem verify_true_wellformed {pk sig msg : Bytes}
    (h : edVerifyZebra pk sig msg = true ∨ edVerifyDalek pk sig msg = true) :
    ValidPk pk ∧ sig.length = 64 ∧ natOfLE (sig.drop 32) < Ed25519.ell := by
  have key : ∀ (P : Prop), (¬ P → edVerifyZebra pk sig msg = false ∧
      edVerifyDalek pk sig msg = false) → P := by
    intro P hP
    by_contra hn
    obtain ⟨h1, h2⟩ := hP hn
    rcases h with h | h
    · rw [h1] at h; cases h
    · rw [h2] at h; cases h
  have hpk : pk.length = 32 := key _ fun hn => verify_wrong_length_rejected (Or.inl hn)
  have hsig : sig.length = 64 := key _ fun hn => verify_wrong_length_rejected (Or.inr hn)
  refine ⟨⟨hpk, ?_⟩, hsig, ?_⟩
  · apply key
    intro hn
    apply verify_invalid_key_rejected
    cases hv : desSigPkZ pk with
    | none => rfl
    | some v => exact absurd (desSigPkZ_eq_some_iff.1 hv).2.1 hn
  · apply key
    intro hn
    exact ⟨edVerifyZebra_requires_canonical_s (by omega),
      edVerifyDalek_requires_canonical_s (by omega)⟩

/-! ## 5. non-vacuity -/

-- RFC 4648 §10 test vectors ("Man", "Ma", "M", "foobar") without padding
example : b64encode [0x4d, 0x61, 0x6e] = asciiBytes "TWFu" := by decide
example : b64encode [0x4d, 0x61] = asciiBytes "TWE" := by decide
example : b64encode [0x4d] = asciiBytes "TQ" := by decide
example : b64encode (asciiBytes "foobar") = asciiBytes "Zm9vYmFy" := by decide
example : b64decode (asciiBytes "TWFu") = some [0x4d, 0x61, 0x6e] := by decide
example : b64decode (asciiBytes "TWE") = some [0x4d, 0x61] := by decide
-- padding, a bad character, a bad length, non-zero trailing bits: all errors
example : b64decode (asciiBytes "TWE=") = none := base64_rejects_padding (by decide)
example : b64decode (asciiBytes "TW-u") = none := by decide
example : b64decode (asciiBytes "TWFuT") = none := base64_rejects_len_mod4_eq_1 (by decide)
example : b64decode (asciiBytes "TWF") = none := by decide   -- 'F' = 5, low 2 bits ≠ 0
example : b64decode (asciiBytes "TR") = none := by decide    -- 'R' = 17, low 4 bits ≠ 0

-- any 64 bytes are a signature encoding; 63 or 65 are not
example : (tryFromSlice (fixedBytes 64) (List.replicate 64 7)).bind desSigZ
    = some (List.replicate 64 7) := sig_bytes_roundtrip (by decide)
example : (tryFromSlice (fixedBytes 64) (List.replicate 65 7)).bind desSigZ = none :=
  wrong_length_rejected 64 _ (by decide)

-- the encoding of the neutral element (y = 1) IS a valid verification key for both front-ends
-- (small-order keys are not rejected at deserialisation), y = 2 is not on the curve
set_option maxRecDepth 100000 in
example : ValidPk (1 :: List.replicate 31 0) := ⟨by decide, by decide⟩
set_option maxRecDepth 100000 in
example : desSigPkZ (2 :: List.replicate 31 0) = none := by decide

-- §3 instantiated: G = ZMod 13, B = 1, ℓ = 13, an arbitrary "hash"
def toyH : ZMod 13 → ZMod 13 → ℕ → ℕ := fun R A m => (R.val * 5 + A.val * 3 + m) % 13

theorem toy_order : ∀ n : ℕ, n • (1 : ZMod 13) = 0 → 13 ∣ n := by
  intro n h
  rw [nsmul_eq_mul, mul_one] at h
  exact (ZMod.natCast_eq_zero_iff n 13).1 h

theorem toy_B : 13 • (1 : ZMod 13) = 0 := by decide

example (a r m : ℕ) : absVerifyD (1 : ZMod 13) 13 toyH (a • 1) (absSign 1 13 toyH a r m) m :=
  absVerifyD_sign (by decide) toy_B toyH a r m

example (a r m : ℕ) : absVerifyZ (1 : ZMod 13) 13 toyH (a • 1) (absSign 1 13 toyH a r m) m :=
  absVerifyZ_sign (by decide) toy_B toyH a r m

example (a r m i : ℕ) :
    ¬ absVerifyD (1 : ZMod 13) 13 toyH (a • 1)
      ((absSign 1 13 toyH a r m).1, (absSign 1 13 toyH a r m).2 ^^^ 2 ^ i) m :=
  (s_bitflip_rejected toy_order (by decide) i).1 (absVerifyD_sign (by decide) toy_B toyH a r m)

-- a concrete signature: a = 4, r = 7, m = 2 gives (R, s) = (7, 8); s = 9 is rejected
example : absSign (1 : ZMod 13) 13 toyH 4 7 2 = (7, 8) := by decide
example : absVerifyD (1 : ZMod 13) 13 toyH 4 (7, 8) 2 := by unfold absVerifyD; decide
example : ¬ absVerifyD (1 : ZMod 13) 13 toyH 4 (7, 9) 2 := by unfold absVerifyD; decide

/-! ## §5 generated keys (`StrandSignatureSk::new`) -/

/-- a generated key consumes exactly 32 bytes of randomness, is those bytes, and is accepted by
    both front-ends' key decoders unchanged (so everything proved about deserialised keys applies) -/
theorem edGenerate_spec {tape key rest : Bytes} (h : edGenerate tape = some (key, rest)) :
    key = tape.take 32 ∧ rest = tape.drop 32 ∧ key.length = 32 ∧ key ++ rest = tape ∧
      desSigSkZ key = some key ∧ desSigSkD key = some key := by
  unfold edGenerate at h
  split at h
  · rename_i hl
    simp only [Option.some.injEq, Prod.mk.injEq] at h
    obtain ⟨rfl, rfl⟩ := h
    have hlen : (tape.take 32).length = 32 := by simp [List.length_take]; omega
    refine ⟨rfl, rfl, hlen, List.take_append_drop 32 tape, ?_, ?_⟩ <;> simp [desSigSkD, desSigSkZ, hlen]
  · simp at h

theorem edGenerate_total {tape : Bytes} (h : 32 ≤ tape.length) : (edGenerate tape).isSome := by
  simp [edGenerate, h]

/-- the key is a bijective image of the 32 random bytes: different randomness, different key
    (no entropy is lost between the RNG and the seed) -/
theorem edGenerate_injective {t₁ t₂ k r₁ r₂ : Bytes} (h₁ : edGenerate t₁ = some (k, r₁))
    (h₂ : edGenerate t₂ = some (k, r₂)) : t₁.take 32 = t₂.take 32 := by
  rw [← (edGenerate_spec h₁).1, ← (edGenerate_spec h₂).1]

example : edGenerate (List.replicate 40 7) = some (List.replicate 32 7, List.replicate 8 7) := by decide
example : edGenerate (List.replicate 31 7) = none := by decide

end Strand.C20
