//! C02, C03, C04: shuffle, shuffle proofs, the shuffle verifier.
use crate::core::*;
use crate::ctxs::NatCtx;
use crate::env::Env;
use crate::val::*;
use num_bigint::BigUint;
use strand::elgamal::{Ciphertext, PrivateKey, PublicKey};
use strand::serialization::{StrandDeserialize, StrandSerialize};
use strand::shuffler::verif as sv;
use strand::shuffler::{Commitments, ShuffleProof, Shuffler};

pub fn permutations(n: usize) -> Vec<Vec<usize>> {
    fn rec(cur: &mut Vec<usize>, used: &mut Vec<bool>, n: usize, out: &mut Vec<Vec<usize>>) {
        if cur.len() == n {
            out.push(cur.clone());
            return;
        }
        for i in 0..n {
            if !used[i] {
                used[i] = true;
                cur.push(i);
                rec(cur, used, n, out);
                cur.pop();
                used[i] = false;
            }
        }
    }
    let mut out = vec![];
    rec(&mut vec![], &mut vec![false; n], n, &mut out);
    out
}

pub fn vperm(p: &[usize]) -> Val {
    l(p.iter().map(|x| nu(*x as u64)).collect())
}
pub fn vnats(xs: &[BigUint]) -> Val {
    l(xs.iter().map(n).collect())
}

pub struct PlainProof {
    pub t: [BigUint; 5],
    pub t_hats: Vec<BigUint>,
    pub s: [BigUint; 4],
    pub s_hats: Vec<BigUint>,
    pub s_primes: Vec<BigUint>,
    pub cs: Vec<BigUint>,
    pub c_hats: Vec<BigUint>,
}
impl PlainProof {
    pub fn from<C: NatCtx>(p: &ShuffleProof<C>) -> PlainProof {
        let (t, s, sh, sp, cs, ch) = sv::proof_parts(p);
        PlainProof {
            t: [C::e_val(&t.t1), C::e_val(&t.t2), C::e_val(&t.t3), C::e_val(&t.t4_1), C::e_val(&t.t4_2)],
            t_hats: t.t_hats.0.iter().map(C::e_val).collect(),
            s: [C::x_val(s[0]), C::x_val(s[1]), C::x_val(s[2]), C::x_val(s[3])],
            s_hats: sh.iter().map(C::x_val).collect(),
            s_primes: sp.iter().map(C::x_val).collect(),
            cs: cs.iter().map(C::e_val).collect(),
            c_hats: ch.iter().map(C::e_val).collect(),
        }
    }
    pub fn to<C: NatCtx>(&self) -> ShuffleProof<C> {
        let t = Commitments::<C> {
            t1: C::e_raw(&self.t[0]),
            t2: C::e_raw(&self.t[1]),
            t3: C::e_raw(&self.t[2]),
            t4_1: C::e_raw(&self.t[3]),
            t4_2: C::e_raw(&self.t[4]),
            t_hats: strand::serialization::StrandVectorE(self.t_hats.iter().map(C::e_raw).collect()),
        };
        sv::proof_from_parts(
            t,
            C::x_raw(&self.s[0]),
            C::x_raw(&self.s[1]),
            C::x_raw(&self.s[2]),
            C::x_raw(&self.s[3]),
            self.s_hats.iter().map(C::x_raw).collect(),
            self.s_primes.iter().map(C::x_raw).collect(),
            self.cs.iter().map(C::e_raw).collect(),
            self.c_hats.iter().map(C::e_raw).collect(),
        )
    }
    pub fn val(&self) -> Val {
        l(vec![
            l(vec![n(&self.t[0]), n(&self.t[1]), n(&self.t[2]), n(&self.t[3]), n(&self.t[4]), vnats(&self.t_hats)]),
            l(vec![n(&self.s[0]), n(&self.s[1]), n(&self.s[2]), n(&self.s[3]), vnats(&self.s_hats), vnats(&self.s_primes)]),
            vnats(&self.cs),
            vnats(&self.c_hats),
        ])
    }
    pub fn clone(&self) -> PlainProof {
        PlainProof {
            t: self.t.clone(),
            t_hats: self.t_hats.clone(),
            s: self.s.clone(),
            s_hats: self.s_hats.clone(),
            s_primes: self.s_primes.clone(),
            cs: self.cs.clone(),
            c_hats: self.c_hats.clone(),
        }
    }
}

pub struct Setup<C: NatCtx> {
    pub sk: BigUint,
    pub key: PrivateKey<C>,
    pub pk: PublicKey<C>,
    pub pkv: BigUint,
    pub gens: Vec<C::E>,
    pub gensv: Vec<BigUint>,
}
pub fn setup<C: NatCtx>(v: &mut Env<C>, sk: &BigUint, n: usize, seed: &[u8]) -> Setup<C> {
    let ctx = v.ctx.clone();
    let key = PrivateKey::from(&v.x(sk), &ctx);
    let pk = key.get_pk();
    let pkv = C::e_val(key.pk_element());
    let gens = ctx.generators(n + 1, seed);
    let gensv = gens.iter().map(C::e_val).collect();
    Setup { sk: sk.clone(), key, pk, pkv, gens, gensv }
}
pub fn vcts<C: NatCtx>(cts: &[Ciphertext<C>]) -> Val {
    l(cts.iter().map(|c| l(vec![Val::Nat(C::e_val(&c.mhr)), Val::Nat(C::e_val(&c.gr))])).collect())
}
/// ciphertexts of chosen members under `pk` with chosen randomness (duplicates allowed)
pub fn make_cts<C: NatCtx>(v: &mut Env<C>, s: &Setup<C>, n: usize, variety: usize) -> Vec<Ciphertext<C>> {
    let mut out: Vec<Ciphertext<C>> = vec![];
    for i in 0..n {
        let c = match (variety + i) % 5 {
            0 if i > 0 => out[i - 1].clone(), // duplicate
            1 => Ciphertext { mhr: v.e(&big(1)), gr: v.e(&big(1)) }, // identity components
            _ => {
                let m = v.rnd_member();
                let r = v.rnd_exp();
                s.pk.encrypt_with_randomness(&v.e(&m), &v.x(&r))
            }
        };
        out.push(c);
    }
    out
}

/// C02: apply a caller permutation with injected exponents; relation and multiset evaluators
pub fn apply_case<C: NatCtx>(v: &mut Env<C>, s: &Setup<C>, cts: &[Ciphertext<C>], perm: &[usize], rs: &[BigUint]) -> Option<(Vec<Ciphertext<C>>, Vec<C::X>)> {
    let ctx = v.ctx.clone();
    let sh = Shuffler::new(&s.pk, &s.gens, &ctx);
    load_tape(rs);
    let mut res = None;
    v.case("apply_perm", vec![n(&s.pkv), vperm(perm), vcts(cts), vnats(rs)], || {
        let (outs, rs_out) = sh.apply_permutation(perm, cts);
        let o = l(vec![vcts(&outs), l(rs_out.iter().map(|x| Val::Nat(C::x_val(x))).collect())]);
        res = Some((outs, rs_out));
        Out::Ok(o)
    });
    let tok = v.tok.clone();
    if let Some((outs, rs_out)) = &res {
        let nn = cts.len();
        let mut ok = outs.len() == nn && rs_out.len() == nn;
        if ok {
            for k in 0..nn {
                let src = &cts[perm[k]];
                let expect = {
                    let one = s.pk.encrypt_with_randomness(&v.e(&big(1)), &rs_out[perm[k]]);
                    use strand::context::Element;
                    Ciphertext::<C> { mhr: src.mhr.mul(&one.mhr).modp(&ctx), gr: src.gr.mul(&one.gr).modp(&ctx) }
                };
                ok &= outs[k] == expect;
            }
            // multiset of decryptions
            let mut a: Vec<BigUint> = cts.iter().map(|c| C::e_val(&s.key.decrypt(c))).collect();
            let mut b: Vec<BigUint> = outs.iter().map(|c| C::e_val(&s.key.decrypt(c))).collect();
            a.sort();
            b.sort();
            ok &= a == b;
        }
        v.h.check(ok, || format!("shuffle output is not the re-encrypted permutation on {} N={} perm={:?} sk={:x}", tok, nn, perm, s.sk));
    } else {
        // "for every list of ciphertexts": a valid permutation of a list of any length (0 included) must be applied
        let mut sorted = perm.to_vec();
        sorted.sort();
        let valid = perm.len() == cts.len() && rs.len() >= cts.len() && sorted == (0..cts.len()).collect::<Vec<_>>();
        v.h.check(!valid, || format!("apply_permutation panics on a valid permutation of a list of {} ciphertexts on {} (perm={:?})", cts.len(), tok, perm));
    }
    res
}

/// the prover alone with injected tape (a correspondence case, no verdict): also used by C04 to run
/// the ordinary prover on statements that are NOT honest shuffles
#[allow(clippy::too_many_arguments)]
pub fn prove_raw<C: NatCtx>(
    v: &mut Env<C>,
    s: &Setup<C>,
    es: &[Ciphertext<C>],
    eps: &[Ciphertext<C>],
    rps: &[C::X],
    perm: &[usize],
    label: &[u8],
    tape: &[BigUint],
) -> Option<(ShuffleProof<C>, PlainProof)> {
    let ctx = v.ctx.clone();
    let sh = Shuffler::new(&s.pk, &s.gens, &ctx);
    load_tape(tape);
    let rpsv: Vec<BigUint> = rps.iter().map(C::x_val).collect();
    let mut proof = None;
    v.case(
        "gen_proof",
        vec![vnats(&s.gensv), n(&s.pkv), vcts(es), vcts(eps), vnats(&rpsv), vperm(perm), b(label), vnats(tape)],
        || match sh.gen_proof(es, eps, rps, perm, label) {
            Ok(pf) => {
                let pp = PlainProof::from(&pf);
                let o = pp.val();
                proof = Some((pf, pp));
                Out::Ok(o)
            }
            Err(_) => Out::Err,
        },
    );
    proof
}

/// C03: prove with injected tape, compare the proof field by field with the model, verify
pub fn prove_case<C: NatCtx>(
    v: &mut Env<C>,
    s: &Setup<C>,
    es: &[Ciphertext<C>],
    eps: &[Ciphertext<C>],
    rps: &[C::X],
    perm: &[usize],
    label: &[u8],
    tape: &[BigUint],
    wire: bool,
) -> Option<PlainProof> {
    let ctx = v.ctx.clone();
    let sh = Shuffler::new(&s.pk, &s.gens, &ctx);
    load_tape(tape);
    let rpsv: Vec<BigUint> = rps.iter().map(C::x_val).collect();
    let mut proof = None;
    v.case(
        "gen_proof",
        vec![vnats(&s.gensv), n(&s.pkv), vcts(es), vcts(eps), vnats(&rpsv), vperm(perm), b(label), vnats(tape)],
        || match sh.gen_proof(es, eps, rps, perm, label) {
            Ok(pf) => {
                let pp = PlainProof::from(&pf);
                let o = pp.val();
                proof = Some((pf, pp));
                Out::Ok(o)
            }
            Err(_) => Out::Err,
        },
    );
    let tok = v.tok.clone();
    let Some((pf, pp)) = proof else {
        v.h.check(false, || format!("gen_proof failed on {} N={} perm={:?}", tok, es.len(), perm));
        return None;
    };
    let mut ok = false;
    v.case("check_proof", vec![vnats(&s.gensv), n(&s.pkv), pp.val(), vcts(es), vcts(eps), b(label)], || {
        match sh.check_proof(&pf, es, eps, label) {
            Ok(r) => {
                ok = r;
                Out::Ok(Val::Bool(r))
            }
            Err(_) => Out::Err,
        }
    });
    v.h.check(ok, || format!("honest shuffle proof rejected on {} N={} perm={:?} label={:?} sk={:x}", tok, es.len(), perm, label, s.sk));
    if wire {
        // serialise everything, deserialise, verify again
        let pb = pf.strand_serialize().unwrap();
        let esb = strand::serialization::StrandVectorC(es.to_vec()).strand_serialize().unwrap();
        let epb = strand::serialization::StrandVectorC(eps.to_vec()).strand_serialize().unwrap();
        let pkb = s.pk.strand_serialize().unwrap();
        let gb = strand::serialization::StrandVectorE::<C>(s.gens.clone()).strand_serialize().unwrap();
        let r = (|| -> Result<bool, strand::util::StrandError> {
            let pf2 = ShuffleProof::<C>::strand_deserialize(&pb)?;
            let es2 = strand::serialization::StrandVectorC::<C>::strand_deserialize(&esb)?.0;
            let ep2 = strand::serialization::StrandVectorC::<C>::strand_deserialize(&epb)?.0;
            let pk2 = PublicKey::<C>::strand_deserialize(&pkb)?;
            let pk2 = PublicKey::from_element(strand::verif_hooks::pk_element(&pk2), &ctx);
            let g2 = strand::serialization::StrandVectorE::<C>::strand_deserialize(&gb)?.0;
            let sh2 = Shuffler::new(&pk2, &g2, &ctx);
            sh2.check_proof(&pf2, &es2, &ep2, label)
        })();
        v.h.check(matches!(r, Ok(true)), || format!("honest shuffle proof rejected after wire round trip on {} N={} perm={:?}", tok, es.len(), perm));
        let pb2 = pb.clone();
        v.case("des_proof", vec![b(&pb)], || match ShuffleProof::<C>::strand_deserialize(&pb2) {
            Ok(p) => Out::Ok(PlainProof::from(&p).val()),
            Err(_) => Out::Err,
        });
    }
    Some(pp)
}

pub fn proof_tape<C: NatCtx>(v: &mut Env<C>, nn: usize, boundary: usize) -> Vec<BigUint> {
    let q = v.q.clone();
    (0..(4 * nn + 4))
        .map(|i| match (boundary, i % 7) {
            (1, 0) => big(0),
            (1, 3) => big(1),
            (1, 5) => &q - 1u32,
            (2, _) => big(0),
            _ => v.rnd_exp(),
        })
        .collect()
}

/// one honest shuffle + proof; returns what C04 needs to build mutations
#[allow(clippy::type_complexity)]
pub fn honest<C: NatCtx>(
    v: &mut Env<C>,
    s: &Setup<C>,
    nn: usize,
    perm: &[usize],
    label: &[u8],
    variety: usize,
    boundary: usize,
    wire: bool,
) -> Option<(Vec<Ciphertext<C>>, Vec<Ciphertext<C>>, PlainProof)> {
    let es = make_cts(v, s, nn, variety);
    let rs: Vec<BigUint> = (0..nn).map(|i| if boundary == 1 && i == 0 { big(0) } else { v.rnd_exp() }).collect();
    let (eps, rps) = apply_case(v, s, &es, perm, &rs)?;
    let tape = proof_tape(v, nn, boundary);
    let pp = prove_case(v, s, &es, &eps, &rps, perm, label, &tape, wire)?;
    Some((es, eps, pp))
}

pub fn run_c02<C: NatCtx>(v: &mut Env<C>) {
    scale_c02(v);
    let small = v.small;
    let quick = v.h.tier == Tier::Quick;
    let sk = v.rnd_exp();
    let maxn = if small { if quick { 4 } else { 6 } } else { 3 };
    if small && v.p <= big(if quick { 47 } else { 263 }) {
        v.h.exhaustive_notes.push(format!("{}: all N! permutations for N <= {}", v.tok, maxn));
        for nn in 0..=maxn {
            let s = setup(v, &sk, nn, b"seed");
            for (k, perm) in permutations(nn).iter().enumerate() {
                let cts = make_cts(v, &s, nn, k);
                let rs: Vec<BigUint> = (0..nn).map(|i| if k % 3 == 0 && i == 0 { big(0) } else { v.rnd_exp() }).collect();
                apply_case(v, &s, &cts, perm, &rs);
            }
        }
    }
    // sampled sizes, identity / reversal / rotation / random permutations, cascades
    let sizes: Vec<usize> = if small {
        if quick { vec![0, 1, 2, 5, 10] } else { vec![0, 1, 2, 5, 10, 40, 150] }
    } else if quick {
        vec![0, 1, 3]
    } else {
        vec![0, 1, 2, 5, 10, 30]
    };
    for nn in sizes {
        let s = setup(v, &sk, nn, b"s2");
        let mut perms: Vec<Vec<usize>> = vec![(0..nn).collect(), (0..nn).rev().collect()];
        if nn > 1 {
            perms.push((0..nn).map(|i| (i + 1) % nn).collect());
            let mut p: Vec<usize> = (0..nn).collect();
            for i in (1..nn).rev() {
                let j = v.h.rng.below_u(i as u64 + 1) as usize;
                p.swap(i, j);
            }
            perms.push(p);
        }
        for perm in &perms {
            let cts = make_cts(v, &s, nn, nn);
            let rs: Vec<BigUint> = (0..nn).map(|_| v.rnd_exp()).collect();
            apply_case(v, &s, &cts, perm, &rs);
        }
        // cascade of mixers followed by decryption
        let kmax = if quick { 3 } else { 6 };
        let mut cur = make_cts(v, &s, nn, 2);
        let mut expect: Vec<BigUint> = cur.iter().map(|c| C::e_val(&s.key.decrypt(c))).collect();
        expect.sort();
        for _ in 0..kmax {
            let mut p: Vec<usize> = (0..nn).collect();
            for i in (1..nn).rev() {
                let j = v.h.rng.below_u(i as u64 + 1) as usize;
                p.swap(i, j);
            }
            let rs: Vec<BigUint> = (0..nn).map(|_| v.rnd_exp()).collect();
            match apply_case(v, &s, &cur, &p, &rs) {
                Some((outs, _)) => cur = outs,
                None => break,
            }
        }
        let mut got: Vec<BigUint> = cur.iter().map(|c| C::e_val(&s.key.decrypt(c))).collect();
        got.sort();
        let tok = v.tok.clone();
        v.h.check(got == expect, || format!("cascade of shuffles changed the multiset of plaintexts on {} N={}", tok, nn));
        // gen_shuffle of the empty list (OS randomness: nothing is drawn)
        if nn == 0 {
            let ctx = v.ctx.clone();
            let sh = Shuffler::new(&s.pk, &s.gens, &ctx);
            let r = std::panic::catch_unwind(std::panic::AssertUnwindSafe(|| sh.gen_shuffle(&[])));
            let tok = v.tok.clone();
            v.h.check(matches!(&r, Ok((o, x, p)) if o.is_empty() && x.is_empty() && p.is_empty()), || format!("gen_shuffle of the empty list panics or returns something on {}", tok));
        }
        // gen_shuffle with injected permutation and exponents
        if nn > 0 {
            let ctx = v.ctx.clone();
            let sh = Shuffler::new(&s.pk, &s.gens, &ctx);
            let perm = perms[perms.len() - 1].clone();
            let rs: Vec<BigUint> = (0..nn).map(|_| v.rnd_exp()).collect();
            strand::verif_hooks::load_perm_tape(vec![perm.clone()]);
            load_tape(&rs);
            let cts = make_cts(v, &s, nn, 3);
            let ctsc = cts.clone();
            v.case("apply_perm", vec![n(&s.pkv), vperm(&perm), vcts(&cts), vnats(&rs)], || {
                let (outs, rs_out, p) = sh.gen_shuffle(&ctsc);
                if p != perm {
                    return Out::Err;
                }
                Out::Ok(l(vec![vcts(&outs), l(rs_out.iter().map(|x| Val::Nat(C::x_val(x))).collect())]))
            });
            strand::verif_hooks::load_perm_tape(vec![]);
        }
    }
}

/// SCALE for C02 (implementation only, cheapest group): the outputs of a large shuffle are the re-encrypted
/// permutation of the inputs, nothing dropped or duplicated
pub fn scale_c02<C: NatCtx>(v: &mut Env<C>) {
    if !(v.small && v.p == big(23) && C::kind() == 'B') {
        return;
    }
    let quick = v.h.tier == Tier::Quick;
    let ctx = v.ctx.clone();
    let tok = v.tok.clone();
    let sk = v.rnd_exp();
    for nn in if quick { vec![4097usize, 70001, 131073] } else { vec![4097, 16385, 70001, 131073, 262145, 1048577] } {
        let s = setup(v, &sk, 1, b"scale2");
        let sh = Shuffler::new(&s.pk, &s.gens, &ctx);
        strand::verif_hooks::load_exp_tape(vec![]);
        let es: Vec<Ciphertext<C>> = (0..nn).map(|_| s.pk.encrypt(&ctx.rnd())).collect();
        let (eps, rs, perm) = sh.gen_shuffle(&es);
        let mut sorted = perm.clone();
        sorted.sort_unstable();
        let mut ok = eps.len() == nn && rs.len() == nn && sorted.iter().enumerate().all(|(i, x)| i == *x);
        if ok {
            use strand::context::Element;
            for k in 0..nn {
                let src = &es[perm[k]];
                let one = s.pk.encrypt_with_randomness(&v.e(&big(1)), &rs[perm[k]]);
                ok &= eps[k].mhr == src.mhr.mul(&one.mhr).modp(&ctx) && eps[k].gr == src.gr.mul(&one.gr).modp(&ctx);
            }
        }
        v.h.check(ok, || format!("gen_shuffle of {} ciphertexts: the output is not the re-encrypted permutation of the input on {}", nn, tok));
    }
}

pub fn run_c03<C: NatCtx>(v: &mut Env<C>) {
    let small = v.small;
    let quick = v.h.tier == Tier::Quick;
    let sk = v.rnd_exp();
    if small && v.p <= big(if quick { 23 } else { 107 }) {
        let maxn = if quick { 4 } else { 6 };
        v.h.exhaustive_notes.push(format!("{}: honest proofs for all N! permutations, N = 1..{}", v.tok, maxn));
        for nn in 1..=maxn {
            let s = setup(v, &sk, nn, b"seed");
            for (k, perm) in permutations(nn).iter().enumerate() {
                let label = v.label(k);
                honest(v, &s, nn, perm, &label, k, k % 3, k % 11 == 0);
            }
        }
    }
    let sizes: Vec<usize> = if small {
        if quick { vec![1, 2, 7] } else { vec![1, 2, 10, 50, 120] }
    } else if quick {
        vec![1, 3]
    } else {
        vec![1, 2, 3, 10, 30]
    };
    for (k, nn) in sizes.into_iter().enumerate() {
        for (j, seed) in [b"a".to_vec(), vec![], v.h.rng.bytes(40)].iter().enumerate() {
            if !small && j > 0 && quick {
                continue;
            }
            let s = setup(v, &sk, nn, seed);
            let perm: Vec<usize> = match (k + j) % 3 {
                0 => (0..nn).collect(),
                1 => (0..nn).rev().collect(),
                _ => {
                    let mut p: Vec<usize> = (0..nn).collect();
                    for i in (1..nn).rev() {
                        let jj = v.h.rng.below_u(i as u64 + 1) as usize;
                        p.swap(i, jj);
                    }
                    p
                }
            };
            let label = if j == 2 { v.h.rng.bytes(4096) } else { v.label(k + j) };
            honest(v, &s, nn, &perm, &label, k + j, j, true);
        }
    }
    // ---- SCALE: honest shuffle + proof + verification far beyond every block size a refactor might introduce
    // (2^12, 2^14, 2^16 and one more), on the cheapest group, implementation only (no model line: the point is
    // "for every N", and the verdict needs no oracle)
    if small && v.p == big(23) {
        let ctx = v.ctx.clone();
        let tok = v.tok.clone();
        for nn in if C::kind() == 'M' { vec![4097usize] } else if quick { vec![4097usize, 16385, 131073] } else { vec![4097, 16385, 65537, 131073, 262145, 1048577] } {
            let s = setup(v, &sk, nn, b"scale");
            let sh = Shuffler::new(&s.pk, &s.gens, &ctx);
            strand::verif_hooks::load_exp_tape(vec![]);
            let es: Vec<Ciphertext<C>> = (0..nn).map(|_| s.pk.encrypt(&ctx.rnd())).collect();
            let (eps, rs, perm) = sh.gen_shuffle(&es);
            let label = v.label(nn);
            let ok = match sh.gen_proof(&es, &eps, &rs, &perm, &label) {
                Ok(pf) => sh.check_proof(&pf, &es, &eps, &label).unwrap_or(false),
                Err(_) => false,
            };
            v.h.check(ok, || format!("honest shuffle proof for N = {} rejected on {}", nn, tok));
        }
    }
    // ---- a label longer than 65535 bytes (P23 only)
    if small && v.p == big(23) {
        let s = setup(v, &sk, 2, b"longlabel");
        let label = v.h.rng.bytes(70000);
        honest(v, &s, 2, &[1, 0], &label, 1, 0, false);
    }
    // ---- SEQUENCES over reused buffers: successive batches written IN PLACE into the same two vectors (a mixer
    // processing batch after batch); every proof must be accepted by an independent verifier: other buffers,
    // another thread.  (The library has no state today; this is what a stale memoisation would break.)
    {
        let ctx = v.ctx.clone();
        let tok = v.tok.clone();
        for nn in if quick { vec![3usize] } else { vec![1, 3, 8] } {
            let s = setup(v, &sk, nn, b"reuse");
            let sh = Shuffler::new(&s.pk, &s.gens, &ctx);
            let mut es: Vec<Ciphertext<C>> = make_cts(v, &s, nn, 0);
            let mut eps: Vec<Ciphertext<C>> = es.clone();
            for round in 0..(if quick { 3 } else { 5 }) {
                let fresh = make_cts(v, &s, nn, round + 1);
                for i in 0..nn {
                    es[i] = fresh[i].clone(); // in place: same allocation, same length
                }
                strand::verif_hooks::load_exp_tape(vec![]);
                let (outs, rs, perm) = sh.gen_shuffle(&es);
                for i in 0..nn {
                    eps[i] = outs[i].clone();
                }
                let label = v.label(round);
                let pf = match sh.gen_proof(&es, &eps, &rs, &perm, &label) {
                    Ok(p) => p,
                    Err(_) => {
                        v.h.check(false, || format!("gen_proof failed in a sequence on {}", tok));
                        continue;
                    }
                };
                // the same buffers, this thread
                let same = sh.check_proof(&pf, &es, &eps, &label).unwrap_or(false);
                // other buffers, another thread (everything through bytes)
                let (pb, esb, epb) = (pf.strand_serialize().unwrap(), strand::serialization::StrandVectorC(es.clone()).strand_serialize().unwrap(), strand::serialization::StrandVectorC(eps.clone()).strand_serialize().unwrap());
                let (pk2, gens2, ctx2, label2) = (PublicKey::from_element(strand::verif_hooks::pk_element(&s.pk), &ctx), s.gens.clone(), ctx.clone(), label.clone());
                let other = std::thread::spawn(move || -> bool {
                    let pf2 = ShuffleProof::<C>::strand_deserialize(&pb).unwrap();
                    let es2 = strand::serialization::StrandVectorC::<C>::strand_deserialize(&esb).unwrap().0;
                    let ep2 = strand::serialization::StrandVectorC::<C>::strand_deserialize(&epb).unwrap().0;
                    Shuffler::new(&pk2, &gens2, &ctx2).check_proof(&pf2, &es2, &ep2, &label2).unwrap_or(false)
                })
                .join()
                .unwrap_or(false);
                v.h.check(same && other, || format!("batch {} of a sequence of honest shuffles over reused buffers: proof accepted over the prover's own buffers: {}, by an independent verifier (fresh buffers, other thread): {} on {} N={}", round + 1, same, other, tok, nn));
            }
        }
    }
}
