//! Counting global allocator: peak number of bytes requested while a case runs (C13: decoding
//! untrusted bytes must not allocate out of proportion to the input length).
use std::alloc::{GlobalAlloc, Layout, System};
use std::sync::atomic::{AtomicUsize, Ordering};

pub struct Counting;
static CUR: AtomicUsize = AtomicUsize::new(0);
static PEAK: AtomicUsize = AtomicUsize::new(0);

unsafe impl GlobalAlloc for Counting {
    unsafe fn alloc(&self, l: Layout) -> *mut u8 {
        let c = CUR.fetch_add(l.size(), Ordering::Relaxed) + l.size();
        PEAK.fetch_max(c, Ordering::Relaxed);
        System.alloc(l)
    }
    unsafe fn dealloc(&self, p: *mut u8, l: Layout) {
        CUR.fetch_sub(l.size(), Ordering::Relaxed);
        System.dealloc(p, l)
    }
    unsafe fn realloc(&self, p: *mut u8, l: Layout, new: usize) -> *mut u8 {
        if new >= l.size() {
            let c = CUR.fetch_add(new - l.size(), Ordering::Relaxed) + (new - l.size());
            PEAK.fetch_max(c, Ordering::Relaxed);
        } else {
            CUR.fetch_sub(l.size() - new, Ordering::Relaxed);
        }
        System.realloc(p, l, new)
    }
}
pub fn current() -> usize {
    CUR.load(Ordering::Relaxed)
}
pub fn reset_peak() {
    PEAK.store(CUR.load(Ordering::Relaxed), Ordering::Relaxed);
}
pub fn peak() -> usize {
    PEAK.load(Ordering::Relaxed)
}
