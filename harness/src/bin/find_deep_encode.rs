//! One-off search tool (not part of any check): 30-byte plaintexts for which the Ristretto `encode` of strand
//! has to try MANY candidates before one decompresses.  Independent of strand: the candidate layout is the
//! documented one (byte 0 = 2*i, bytes 1..31 = plaintext, byte 31 = j; order j-major) and the test is
//! curve25519-dalek's RFC 9496 decompression.  Output: lines `<depth> <plaintext hex>` for the requested depths.
//! usage: find_deep_encode <min_depth> <how_many> <seed> [threads]
use curve25519_dalek::ristretto::CompressedRistretto;
use std::sync::atomic::{AtomicUsize, Ordering};
use std::sync::{Arc, Mutex};

fn splitmix(x: &mut u64) -> u64 {
    *x = x.wrapping_add(0x9E3779B97F4A7C15);
    let mut z = *x;
    z = (z ^ (z >> 30)).wrapping_mul(0xBF58476D1CE4E5B9);
    z = (z ^ (z >> 27)).wrapping_mul(0x94D049BB133111EB);
    z ^ (z >> 31)
}

fn depth(pt: &[u8; 30], limit: usize) -> usize {
    let mut bytes = [0u8; 32];
    bytes[1..31].copy_from_slice(pt);
    for d in 0..limit {
        bytes[31] = (d / 128) as u8;
        bytes[0] = (2 * (d % 128)) as u8;
        if CompressedRistretto(bytes).decompress().is_some() {
            return d;
        }
    }
    limit
}

fn main() {
    let a: Vec<String> = std::env::args().collect();
    let min_depth: usize = a[1].parse().unwrap();
    let how_many: usize = a[2].parse().unwrap();
    let seed: u64 = a[3].parse().unwrap();
    let threads: usize = a.get(4).map(|s| s.parse().unwrap()).unwrap_or(16);
    let found = Arc::new(AtomicUsize::new(0));
    let out = Arc::new(Mutex::new(Vec::<(usize, [u8; 30])>::new()));
    let hs: Vec<_> = (0..threads)
        .map(|t| {
            let (found, out) = (found.clone(), out.clone());
            std::thread::spawn(move || {
                let mut st = seed.wrapping_mul(1000003).wrapping_add(t as u64 * 0x1234567);
                while found.load(Ordering::Relaxed) < how_many {
                    let mut pt = [0u8; 30];
                    for c in pt.chunks_mut(8) {
                        let w = splitmix(&mut st).to_le_bytes();
                        c.copy_from_slice(&w[..c.len()]);
                    }
                    let d = depth(&pt, 200);
                    if d >= min_depth {
                        out.lock().unwrap().push((d, pt));
                        found.fetch_add(1, Ordering::Relaxed);
                    }
                }
            })
        })
        .collect();
    for h in hs {
        h.join().unwrap();
    }
    let mut v = out.lock().unwrap().clone();
    v.sort();
    for (d, pt) in v {
        println!("{} {}", d, pt.iter().map(|b| format!("{:02x}", b)).collect::<String>());
    }
}
